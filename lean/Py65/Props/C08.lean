/-
C08 -- Disassembly re-assembles to the original bytes for every encoding and address.

Property statements only (helper lemmas: Py65/Proofs/AsmRound.lean, AsmText.lean, AsmLemmas.lean;
device facts: AsmTables.lean), about the COMPOSITION of the two hand models
`Py65.Model.Disasm.instructionAt` and `Py65.Model.Asm.assembleL` on the three device records built
from the GENERATED tables, at full string level: the text really goes through `' '.join(split())`,
the `Statement` scanner, `AddressParser.number`, re-formatting, the ordered templates and
`list.index`.

The proof is factored as the statement asks: decode / encode are inverse on the documented tables
(`spec_decode_encode`: arithmetic + per-opcode table facts by kernel evaluation), the operand text
is read back to the same value (`number_shown`: `int("%0kx" % n, 16) = n` from C15 / C19, labels by
`address_for (label_for a) = a`), mode re-selection is `asm_core`.

Reading of "located at any address": the instruction lies inside the address space
(`pc + length ≤ 2^ADDR_WIDTH`).  An instruction that straddles the top of memory is one that C07
REQUIRES the assembler to refuse ("code running past the top of memory"); `roundtrip_past_top`
shows that this is what happens.
-/
import Py65.Proofs.AsmRound

namespace Py65.Props.C08
open Py65.Model Py65.Model.PyStr Py65.Model.AddrParser Py65.Model.Asm Py65.Model.Disasm
open Py65.Proofs.Asm
open Py65.Spec (Mode Mn Variant decode)
open Py65.Spec.Asm (opcodeOf Shape Outcome Refusal Stmt encode encodeAbs Documented mnText shapeOf operandValue
  instrBytes)

variable {d : Dev} {v : Variant} {W : Nat}

/-- `roundtrip`: for every device, every declared opcode `n` with every operand bytes, located at
any address `pc` where it fits, and every label table of identifier-like names (`GoodLabels`):
the disassembler produces a text of the documented length, and that text re-assembles at `pc` to
bytes `r` that are the original bytes -- or, for an absolute / absolute,X / absolute,Y operand
below one page whose mnemonic has the zero-page form, that zero-page form (`RoundTrip`). -/
theorem roundtrip (hd : IsDevice d v W) {P : Parser} (hg : GoodLabels P W) (mem : Int → Int) (pc : Int)
    (n : Nat) (hn : n < 256) (hop : byteAt d mem pc = (n : Int)) (mn : Mn) (mo : Mode)
    (hdec : decode v (n : Int) = some (mn, mo))
    (hb1 : 0 ≤ byteAt d mem (pc + 1) ∧ byteAt d mem (pc + 1) < 2 ^ W)
    (hb2 : 0 ≤ byteAt d mem (pc + 2) ∧ byteAt d mem (pc + 2) < 2 ^ W)
    (hfit : pc + mo.len ≤ 2 ^ (2 * W)) :
    ∃ text r, instructionAt d P mem pc = .ok mo.len.toNat text ∧ assembleL d P text pc = .ok r ∧
      RoundTrip v mn mo n (byteAt d mem (pc + 1)) (byteAt d mem (pc + 2)) r :=
  roundtrip_gen hd.ok hg mem pc n hn hop mn mo hdec hb1 hb2 hfit

/-- Every opcode other than absolute / absolute,X / absolute,Y, and those three with a non-zero
high byte, come back as exactly the original bytes. -/
theorem roundtrip_exact (hd : IsDevice d v W) {P : Parser} (hg : GoodLabels P W) (mem : Int → Int) (pc : Int)
    (n : Nat) (hn : n < 256) (hop : byteAt d mem pc = (n : Int)) (mn : Mn) (mo : Mode)
    (hdec : decode v (n : Int) = some (mn, mo))
    (hb1 : 0 ≤ byteAt d mem (pc + 1) ∧ byteAt d mem (pc + 1) < 2 ^ W)
    (hb2 : 0 ≤ byteAt d mem (pc + 2) ∧ byteAt d mem (pc + 2) < 2 ^ W)
    (hfit : pc + mo.len ≤ 2 ^ (2 * W))
    (hnt : zpTwin mo = none ∨ byteAt d mem (pc + 2) ≠ 0) :
    ∃ text, instructionAt d P mem pc = .ok mo.len.toNat text ∧
      assembleL d P text pc =
        .ok (instrBytes mo n (byteAt d mem (pc + 1)) (byteAt d mem (pc + 2))) := by
  obtain ⟨text, r, h1, h2, h3⟩ := roundtrip hd hg mem pc n hn hop mn mo hdec hb1 hb2 hfit
  refine ⟨text, h1, ?_⟩
  rcases h3 with rfl | ⟨zp, opz, hz, hb, _, _⟩
  · exact h2
  · rcases hnt with h | h
    · rw [h] at hz; cases hz
    · exact absurd hb h

/-- The parser without labels, of the device's address width: the premise `GoodLabels` holds. -/
theorem noLabels_good (W : Nat) (radix : Nat) : GoodLabels ⟨2 * W, radix, []⟩ W :=
  goodLabels_of rfl (by intro k v h; simp [lookup] at h) (by simp) (by simp)

/-- When a label is bound to the operand address (or branch target) the disassembler shows the
label (the first one bound to it) ... -/
theorem shown_label (P : Parser) (k : Nat) (a : Int) (l : Str) (h : labelFor P a = some l) :
    shown P k a = l := by
  simp [shown, h]

/-- ... and `$hex` otherwise. -/
theorem shown_hex (P : Parser) (k : Nat) (a : Int) (h : labelFor P a = none) :
    shown P k a = '$' :: fmtHexL k a.toNat := by
  simp [shown, h]

/-- `spec_decode_encode`: on the documented tables alone, the documented encoding of the statement
that the bytes `n b1 b2` at `pc` denote is those bytes or their zero-page twin. -/
theorem spec_decode_encode (v : Variant) {W : Nat} (hW : W = 8 ∨ W = 16) (n : Nat) (hn : n < 256)
    (mn : Mn) (mo : Mode) (hdec : decode v (n : Int) = some (mn, mo)) (pc b1 b2 : Int)
    (hb1 : 0 ≤ b1 ∧ b1 < 2 ^ W) (hb2 : 0 ≤ b2 ∧ b2 < 2 ^ W) (hpc : pc + mo.len ≤ 2 ^ (2 * W)) :
    ∃ r, encode v W ⟨mnText mn, shapeOf mo, operandValue W mo pc b1 b2⟩ pc = .ok r ∧
      RoundTrip v mn mo n b1 b2 r :=
  spec_roundtrip v hW n hn mn mo hdec pc b1 b2 hb1 hb2 hpc

/-! ### non-vacuity: concrete round trips through the two models (kernel evaluation) -/

/-- labels `loop = $1234`, `zp_ptr = $10`, `top = $FFF0` -/
def exP : Parser := ⟨16, 16, [("loop".toList, 0x1234), ("zp_ptr".toList, 0x10), ("top".toList, 0xfff0)]⟩

def memOf (pc : Int) (b0 b1 b2 : Int) : Int → Int :=
  fun a => if a = pc then b0 else if a = (pc + 1) % 65536 then b1 else if a = (pc + 2) % 65536 then b2 else 0

example : instructionAt dev6502 ⟨16, 16, []⟩ (memOf 0x300 0xbd 0x34 0x12) 0x300 = .ok 3 "LDA $1234,X".toList ∧
    assembleL dev6502 ⟨16, 16, []⟩ "LDA $1234,X".toList 0x300 = .ok [0xbd, 0x34, 0x12] := by decide +kernel
example : instructionAt dev6502 exP (memOf 0x300 0xbd 0x34 0x12) 0x300 = .ok 3 "LDA loop,X".toList ∧
    assembleL dev6502 exP "LDA loop,X".toList 0x300 = .ok [0xbd, 0x34, 0x12] := by decide +kernel
example : instructionAt dev6502 exP (memOf 0x300 0xb1 0x10 0) 0x300 = .ok 2 "LDA (zp_ptr),Y".toList ∧
    assembleL dev6502 exP "LDA (zp_ptr),Y".toList 0x300 = .ok [0xb1, 0x10] := by decide +kernel
-- absolute operand below one page comes back as the zero-page form (the permitted difference)
example : instructionAt dev6502 ⟨16, 16, []⟩ (memOf 0x300 0xad 0x10 0x00) 0x300 = .ok 3 "LDA $0010".toList ∧
    assembleL dev6502 ⟨16, 16, []⟩ "LDA $0010".toList 0x300 = .ok [0xa5, 0x10] := by decide +kernel
-- a backward branch at the start of memory: the target wraps to the top, shown as a label
example : instructionAt dev6502 exP (memOf 0x0 0xd0 0xee 0) 0x0 = .ok 2 "BNE top".toList ∧
    assembleL dev6502 exP "BNE top".toList 0x0 = .ok [0xd0, 0xee] := by decide +kernel
example : instructionAt dev65org16 ⟨32, 16, []⟩ (fun a => if a = 5 then 0x4c else if a = 6 then 0x5678 else 0x1234) 5
      = .ok 3 "JMP $12345678".toList ∧
    assembleL dev65org16 ⟨32, 16, []⟩ "JMP $12345678".toList 5 = .ok [0x4c, 0x5678, 0x1234] := by decide +kernel
example : GoodLabels exP 8 :=
  goodLabels_of rfl (by
      intro k v h
      have hm : exP.maxaddr = 65535 := by decide
      rw [hm]
      simp only [exP, lookup] at h
      split_ifs at h <;> simp_all <;> omega)
    (by decide)
    (by
      intro kv hkv
      simp only [exP, List.mem_cons, List.mem_nil_iff, or_false] at hkv
      rcases hkv with rfl | rfl | rfl <;>
        exact ⟨⟨by decide, by decide, by decide, by decide, by decide⟩, by decide⟩)

/-- An instruction that straddles the top of memory is refused on re-assembly with
`OverflowError`, as C07 demands of code running past the top. -/
theorem roundtrip_past_top :
    instructionAt dev6502 ⟨16, 16, []⟩ (memOf 0xffff 0xa9 0x42 0) 0xffff = .ok 2 "LDA #$42".toList ∧
    assembleL dev6502 ⟨16, 16, []⟩ "LDA #$42".toList 0xffff = .overflow := by decide +kernel

end Py65.Props.C08
