/-
C20h -- C20 ("no input line crashes the monitor; rejected commands change nothing") for the GENERATED
`Monitor.onecmd` WITH THE GENERATED COMMANDS PLUGGED IN.

`Props/C20g.lean` states `rejected_unchanged` for the generated dispatcher under two hypotheses about the
commands unit `cmds` does not translate: `OthModels oth ext` (they do what the model's `runCommand ext` says)
and `ext.Honest` (those that fill / load / run / assemble honour "refused ⇒ unchanged" themselves).  Here
both are DISCHARGED for the commands the other units regenerate.  Reading guide:

* `P : Params` (`Proofs/MonCompose.lean`) collects the parameters of the generated units (the OS `P.w`, the
  device step `P.step`, uninterpreted printers, the fuels `P.fuelFill / fuelRun / fuelDis` of the three
  fuel-bounded loops), the glue `P.G` of `Model/MonComposeRt.lean` (the memory OBJECT around the session's cells,
  the two I/O addresses) and the five methods that are NOT PLUGGED IN here: `P.unt` (`do_help`, `do_version`,
  `do_assemble` with `_interactive_assemble`, `do_cd`, `do_pwd`) with `P.asm` = what the model says `assemble`
  does.  (They ARE translated by now -- unit `asmc`: `Gen/MonAsmGen.lean`, `Proofs/MonAsmGenEq.lean`, property
  theorems `Props/C20a.lean`, e.g. `assemble_rejected_unchanged`, `display_commands_pure` -- but on that unit's own
  state type `AsmSt`; the adapter `AsmSt <-> CmdSt` that would instantiate `P.unt` / `P.asm` with the generated
  methods and so discharge `UntModels` / `AsmHonest` is written in `Model/MonCompose2Rt.lean`: `Props/C20i.lean` instantiates and
  PROVES both hypotheses for the generated commands; in THIS file they stay hypotheses.)
* `othG P` is the parameter `oth` of the generated dispatcher built from the GENERATED `do_fill do_load do_save
  do_mem` (MonMemGen, calling the generated `_fill`), `do_step do_goto do_return do_add_breakpoint
  do_delete_breakpoint do_show_breakpoints` (MonRunGen), `do_cycles do_tilde do_disassemble` (MonShowGen),
  `do_reset do_mpu` (MonIOGen) through the state adapters; `extG P` is the model's `Ext` READ OFF the same
  generated commands: registers and cells afterwards, and the verdict.
* What REJECTED means (`refusals_composed` below): the model's verdict of the command the line is dispatched to;
  for `fill` / `load`: the generated method raised, or the last line it printed is not `Wrote +…`; for `goto`: it
  raised (the address parser's exception) or the argument was empty (usage text); `step` / `return`: never; for
  the breakpoint commands, `mpu`, `registers`, `radix`, `width`, the label commands: the hand model's verdict, whose
  session core the generated methods are proved to produce for ALL arguments; unknown words, `!…`: always.
* Remaining hypotheses: `UntModels P` + `AsmHonest P` (the five commands not plugged in, spelled out at their
  definition), `GlueOK P.G` (the memory object is an object around the session's cells), the fuel bounds
  (`FillFuel`, `LoadFuel`, the dispatcher's `fuel`), `¬ Loops`, a well-formed label table, and the library helpers
  of the units' run-time files.
-/
import Py65.Props.C20g
import Py65.Proofs.MonCompose

namespace Py65.Props.C20h
open Py65 Py65.Model Py65.Model.PyStr Py65.Model.AddrParser Py65.Model.MonCmd Py65.Model.MonGenRt
open Py65.Model.MonCmdRt Py65.Model.MonComposeRt Py65.Gen Py65.Proofs.MonCmd Py65.Proofs.MonCmdGenEq
open Py65.Proofs.MonCompose Py65.Proofs.MonPreGenEq

variable (P : Params) (tb : Exc → Str) (mr : Core → Str)

/-- `rejected_unchanged` for the generated `Monitor.onecmd` with the GENERATED commands plugged in: for ANY
line in ANY state with a well-formed label table, if the line is refused (see the reading guide and
`refusals_composed`), the generated `onecmd` returns and device, registers, memory cells, labels, breakpoints,
radix and width are exactly what they were.  No hypothesis about `fill load save mem step goto return
add_breakpoint delete_breakpoint show_breakpoints cycles tilde disassemble reset mpu` is left; what remains is
`UntModels` / `AsmHonest` (`help version assemble cd pwd`), the glue, the fuels and `¬ Loops`. -/
theorem rejected_unchanged_composed (hG : GlueOK P.G) (hu : UntModels P) (ha : AsmHonest P) (hload : LoadFuel P)
    (fuel : Nat) (line : Str) (σ : CmdSt) (hwf : σ.core.parser.WF) (hfill : FillFuel P σ.core)
    (hf : fuel > (MonPreGen._preprocess_line line).length + (MonPreGen._preprocess_line σ.lastcmd).length + 6)
    (hnl : ¬ Loops σ line)
    (h : (onecmdL (extG P) { core := σ.core, lastcmd := σ.lastcmd } line).1.verdict.isRejected = true) :
    ∃ v σ', MonCmdGen.onecmd (othG P) tb mr fuel line σ = .ok v σ' ∧ σ'.core = σ.core := by
  rw [preprocess_eq] at hf
  exact onecmd_rejected_composed P tb mr hG hu ha hload fuel line σ hwf hfill hf hnl h

/-- `dispatch_total`, first half, composed: NO input line makes the generated `Monitor.onecmd` raise, whatever
the generated commands (and the untranslated ones, ANY `P.unt`) raise: it is absorbed by the generated catch-all.
No hypothesis at all. -/
theorem never_raises_composed (fuel : Nat) (line : Str) (σ : CmdSt) (e : Exc) (s : CmdSt) :
    MonCmdGen.onecmd (othG P) tb mr fuel line σ ≠ .raise e s :=
  Py65.Proofs.MonCmdGenEq.onecmd_never_raises (othG P) tb mr fuel line σ e s

/-- What `never_raises_composed` leaves open, spelled out: `≠ .raise` is also true of `.nofuel` (the artefact of
the fuel-bounded model of the `while` loops).  So, with NO hypothesis, the generated `onecmd` either RETURNS
(a value and a state) or ran out of fuel; `returns_composed` below excludes the second case. -/
theorem returns_or_nofuel_composed (fuel : Nat) (line : Str) (σ : CmdSt) :
    (∃ v σ', MonCmdGen.onecmd (othG P) tb mr fuel line σ = .ok v σ') ∨
    MonCmdGen.onecmd (othG P) tb mr fuel line σ = .nofuel := by
  cases h : MonCmdGen.onecmd (othG P) tb mr fuel line σ with
  | ok v s => exact Or.inl ⟨v, s, rfl⟩
  | raise e s => exact absurd h (never_raises_composed P tb mr fuel line σ e s)
  | nofuel => exact Or.inr rfl

/-- `dispatch_total`, second half, composed -- and more: for ANY line (refused or not), with enough fuel, outside
`Loops`, and `CallOK` for the one command the line is dispatched to (its fuel-bounded loop ended; `mem`:
`self._width ≥ 0`; `tilde`: `itoa` prints base 2), the generated `onecmd` with the generated commands RETURNS,
its session core and `lastcmd` are those of the model `onecmdL (extG P)`, and its value is true exactly when the
line is dispatched on `quit`. -/
theorem onecmd_agrees_composed (hG : GlueOK P.G) (hu : UntModels P) (fuel : Nat) (line : Str) (σ : CmdSt)
    (hf : fuel > (MonPreGen._preprocess_line line).length + (MonPreGen._preprocess_line σ.lastcmd).length + 6)
    (hnl : ¬ Loops σ line)
    (hok : ∀ cmd a, dispatched { core := σ.core, lastcmd := σ.lastcmd } line = some (cmd, a) → CallOK P cmd a σ.core) :
    ∃ v σ', MonCmdGen.onecmd (othG P) tb mr fuel line σ = .ok v σ' ∧
      σ'.core = (onecmdL (extG P) { core := σ.core, lastcmd := σ.lastcmd } line).2.core ∧
      σ'.lastcmd = (onecmdL (extG P) { core := σ.core, lastcmd := σ.lastcmd } line).2.lastcmd ∧
      (v.truthy = true ↔ dispatchWord { core := σ.core, lastcmd := σ.lastcmd } line = some quit) := by
  rw [preprocess_eq] at hf
  obtain ⟨v, s', e1, e2, e3, e4⟩ := onecmd_sim_composed P tb mr hG hu fuel line σ hf hnl hok
  exact ⟨v, s', e1, e2, e3, by rw [e4]; exact C20.dispatch_total (extG P) _ line⟩

/-- `dispatch_total` as the property words it ("returns without raising"), composed: with fuel above the stated
bound (`fuel > |preprocessed line| + |preprocessed lastcmd| + 6`), outside `Loops` (the empty line repeating an
empty-expanding `lastcmd` for ever, a defect recorded in C20), with the glue and `UntModels`, and `CallOK` for the
one command the line is dispatched to (its own fuel-bounded loop ended), the generated `onecmd` with the generated
commands RETURNS: the result is `.ok v σ'` -- neither `.raise` nor `.nofuel`.  (Corollary of
`onecmd_agrees_composed`.) -/
theorem returns_composed (hG : GlueOK P.G) (hu : UntModels P) (fuel : Nat) (line : Str) (σ : CmdSt)
    (hf : fuel > (MonPreGen._preprocess_line line).length + (MonPreGen._preprocess_line σ.lastcmd).length + 6)
    (hnl : ¬ Loops σ line)
    (hok : ∀ cmd a, dispatched { core := σ.core, lastcmd := σ.lastcmd } line = some (cmd, a) → CallOK P cmd a σ.core) :
    (∃ v σ', MonCmdGen.onecmd (othG P) tb mr fuel line σ = .ok v σ') ∧
    MonCmdGen.onecmd (othG P) tb mr fuel line σ ≠ .nofuel ∧
    ∀ e s, MonCmdGen.onecmd (othG P) tb mr fuel line σ ≠ .raise e s := by
  obtain ⟨v, σ', h, -⟩ := onecmd_agrees_composed P tb mr hG hu fuel line σ hf hnl hok
  refine ⟨⟨v, σ', h⟩, ?_, fun e s => never_raises_composed P tb mr fuel line σ e s⟩
  rw [h]
  intro h'
  cases h'

/-- The hypothesis `OthModels oth ext` of `C20g.rejected_unchanged`, DISCHARGED call by call for the composed
`oth`: every command that unit `cmds` does not translate ends, does to the session core what the model's
`runCommand (extG P)` says, leaves `lastcmd` alone and returns no true value -- proved from the units' GenEq
theorems for the fifteen regenerated commands, from `UntModels` for the other five. -/
theorem oth_models_composed (hG : GlueOK P.G) (hu : UntModels P) (cmd : Command) (arg : Str) (σ : CmdSt)
    (ht : translated cmd = false) (hok : CallOK P cmd arg σ.core) : ModelsAt (othG P) (extG P) cmd arg σ :=
  models_at P hG hu cmd arg σ ht hok

/-- The hypothesis `ext.Honest` of `C20g.rejected_unchanged`, DISCHARGED for the `Ext` read off the generated
commands, at every core with a well-formed label table: a refused `fill` (C16g `fill_rejects`), `load`
(`do_load_eq`), `goto` (`do_goto_eq`) leaves registers and cells as they were; `step` and `return` are never
refused; `assemble` is the hypothesis `AsmHonest`. -/
theorem ext_honest_composed (hG : GlueOK P.G) (ha : AsmHonest P) (hload : LoadFuel P) (c : Core) (hwf : c.parser.WF)
    (hfill : FillFuel P c) (k : ExtCmd) (arg : Str) (h : ((extG P).run k c arg).1.isRejected = true) :
    ((extG P).run k c arg).2.1 = c.regs ∧ ((extG P).run k c arg).2.2 = c.mem :=
  extG_honest_at P hG ha hload c hwf hfill k arg h

/-- What REJECTED means, command by command (companion of `rejected_unchanged_composed`): the verdict of a line
is the verdict of the command it is dispatched to (`dispatched`: after the generated `_preprocess_line` and
`parseline`, or for an empty line the repeated `lastcmd`); and for the commands behind `Ext` that verdict is
computed from what the GENERATED method did: `fill` / `load` accepted ⇔ ended normally and the last line printed
starts with `Wrote +`; `goto` refused ⇔ it raised or the argument is empty; `step` / `return` refused ⇔ raised. -/
theorem refusals_composed (s : State) (line : Str) (cmd : Command) (a : Str) (hd : dispatched s line = some (cmd, a)) :
    (onecmdL (extG P) s line).1 = runCommand (extG P) s.core cmd a ∧
    (∀ c arg, (runCommand (extG P) c .fill arg).verdict = fillVerdict (fillC P arg c)) ∧
    (∀ c arg, (runCommand (extG P) c .load arg).verdict = fillVerdict (loadC P arg c)) ∧
    (∀ c arg, (runCommand (extG P) c .goto arg).verdict = gotoVerdict arg (gotoC P arg c)) ∧
    (∀ c arg, (runCommand (extG P) c .step arg).verdict = .ok) ∧
    (∀ c arg, (runCommand (extG P) c .ret arg).verdict.isRejected = false) ∧
    (∀ r, (fillVerdict r).isRejected = true ↔
      ((∃ e s', r = .raise e s') ∨ ∃ s', r = .ok () s' ∧ endsWrote s'.out = false)) := by
  have h := onecmdL_dispatched (extG P) s line
  rw [hd] at h
  refine ⟨h, fun _ _ => rfl, fun _ _ => rfl, fun _ _ => rfl, fun _ _ => rfl, fun c arg => ret_never_rejected P c arg, ?_⟩
  intro r
  cases r with
  | nofuel => simp [fillVerdict, Verdict.isRejected]
  | raise e s' => simp [fillVerdict, Verdict.isRejected]
  | ok v s' =>
    cases hw : endsWrote s'.out <;> simp [fillVerdict, Verdict.isRejected, hw]

/-! ## non-vacuity: the generated code, composed, RUN by `decide +kernel` -/

/-- Parameters for the examples: the monitor's own memory object (putc $F001, getc $F004), the world of C16g
(one readable file `f.bin`), a device step that only advances the PC (every run stops at the next BRK), silent
printers, and untranslated commands that do nothing. -/
def exP : Params :=
  { G := { reply := Spec.MonMem.monReply, omOf := fun c => Spec.MonMem.monMem c.dev.addrWidth c.mem,
           getc := some 0xF004, putc := some 0xF001 },
    w := C16g.w0,
    step := fun _ s => { s with pc := s.pc + 1 },
    dis := fun _ _ _ => [],
    itoa := fun _ _ => .ok [],
    mpurepr := fun _ _ => .ok [],
    iat := fun _ _ _ => .ok (1, []),
    fmtdis := fun _ _ _ _ _ => .ok [],
    E := { enc := fun _ => true, getopt := fun _ _ _ => .ok ([], []), sys_argv := [], usage := [],
           startup := fun _ _ σ => .ok () σ },
    fuelFill := 70000, fuelRun := 10, fuelDis := 10,
    unt := fun _ _ σ => .ok none σ,
    asm := fun c _ => (.ok, c.regs, c.mem) }

/-- The hypotheses of `rejected_unchanged_composed` hold of the example parameters and `C20g.exCore`. -/
example : GlueOK exP.G ∧ UntModels exP ∧ AsmHonest exP ∧ LoadFuel exP ∧ FillFuel exP C20g.exCore ∧
    C20g.exCore.parser.WF := by
  refine ⟨fun _ => rfl, ?_, (fun _ _ h => by cases h), ?_, (by unfold FillFuel; decide +kernel), ?_⟩
  · intro cmd hc arg σ
    cases cmd <;> first | exact ⟨by simp [exP], rfl, rfl, rfl⟩ | (simp [untranslated] at hc)
  · intro name file h
    have hlen : file.length ≤ 5 := by
      unfold Proofs.MonMemGenEq.loadSource at h
      simp only [exP, C16g.w0, MonMemRt.pyUrlopen, MonMemRt.pyOpenR] at h
      split_ifs at h <;> cases h <;> decide
    show file.length < 70000
    omega
  · intro k v h
    have : C20g.exCore.parser.labels = [("foo".toList, 0xc000)] := rfl
    rw [this] at h
    simp only [lookup] at h
    split at h
    · cases h; exact ⟨by decide, by decide⟩
    · cases h

/-- Run the GENERATED `onecmd` with the GENERATED commands on a line in `C20g.exCore` and test the result. -/
def exRunG (line : String) (p : PyRet → CmdSt → Bool) : Bool :=
  match MonCmdGen.onecmd (othG exP) (fun _ => "TB".toList) (fun _ => "MPU".toList) 60 line.toList
      { core := C20g.exCore, lastcmd := [], out := [] } with
  | .ok v s => p v s
  | _ => false

/-- The session core is `C20g.exCore` as far as it can be compared (cells: the ones the examples touch). -/
def sameCore (s : CmdSt) : Bool :=
  decide (s.core.dev = C20g.exCore.dev ∧ s.core.regs = C20g.exCore.regs ∧ s.core.labels = C20g.exCore.labels ∧
    s.core.breakpoints = C20g.exCore.breakpoints ∧ s.core.radix = 16 ∧ s.core.width = 78 ∧
    [0x10, 0x11, 0x12, 0x13, 0xc000].map s.core.mem = [0, 0, 0, 0, 0])

/-- The model's verdict of a line (with `extG exP`: computed by running the generated commands). -/
def exVerdict (line : String) : Verdict :=
  (onecmdL (extG exP) { core := C20g.exCore, lastcmd := [] } line.toList).1.verdict

/-- non-vacuity of `rejected_unchanged_composed`: refused lines of every regenerated family -- the premise holds
(the verdict is computed from the generated code) and the GENERATED dispatcher with the GENERATED command returns
`None` with the core untouched, having printed the refusal (or the traceback) and the status line. -/
example :
    let refused := fun (l : String) => (exVerdict l).isRejected &&
      exRunG l (fun v s => v = none && sameCore s && decide (s.out.length ≥ 2))
    (refused "fill 10000:10003 aa" && refused "fill 0:3 100" && refused "fill 10" && refused "f nosuch 1" &&
     refused "load nosuch.bin 10" && refused "load f.bin 10000" && refused "load f.bin 1 2" && refused "load \"x" &&
     refused "goto" && refused "goto nosuch" && refused "g 10000" &&
     refused "ab nosuch" && refused "ab 1 2" && refused "db 1" && refused "db -1" && refused "db x" &&
     refused "mpu z80") = true := by
  decide +kernel

/-- ... and the accepted ones DO change the core (so "unchanged" is not an artefact of the adapters): `fill`
stores, `load` stores the file, `goto` runs to the next BRK, `ab` appends, `db 0` tombstones, `reset` / `mpu`
recreate the device (labels gone), `step` steps; the display commands leave the core alone. -/
example :
    exVerdict "fill 10:13 1 2" = .ok ∧
    exRunG "fill 10:13 1 2" (fun _ s => [0x10, 0x11, 0x12, 0x13, 0x14].map s.core.mem = [1, 2, 1, 2, 0] &&
      s.out.head? = some "Wrote +4 bytes from $0010 to $0013".toList) = true ∧
    exRunG "l f.bin 11" (fun _ s => [0x10, 0x11, 0x12, 0x15, 0x16].map s.core.mem = [0, 1, 2, 5, 0]) = true ∧
    exRunG "g c000" (fun _ s => s.core.regs.pc = 0xc001) = true ∧
    exRunG "z" (fun _ s => s.core.regs.pc = 1) = true ∧
    exRunG "ab foo" (fun _ s => s.core.breakpoints = [some 7, some 0xc000]) = true ∧
    exRunG "db 0" (fun _ s => s.core.breakpoints = [none]) = true ∧
    exRunG "mpu 65org16" (fun _ s => decide (s.core.dev = .d65org16 ∧ s.core.labels = [] ∧ s.core.regs.sp = 0xffff ∧
      s.core.breakpoints = [some 7])) = true ∧
    exRunG "reset" (fun _ s => decide (s.core.dev = .d6502 ∧ s.core.labels = [] ∧ s.core.regs = resetRegs .d6502)) = true ∧
    (let shown := fun (l : String) => exRunG l (fun v s => v = none && sameCore s)
     (shown "mem 10:13" && shown "save out.bin 10 13" && shown "shb" && shown "cycles" && shown "~ 12" &&
      shown "d 10:12" && shown "mpu" && shown "help" && shown "a 10 nop")) = true := by
  decide +kernel

/-- non-vacuity of `never_raises_composed`: a generated command that raises (`db 1`: `IndexError`; `goto nosuch`:
`KeyError`; `load "x`: `ValueError`) is absorbed: the traceback text is printed, `None` returned. -/
example :
    let absorbed := fun (l : String) => exRunG l (fun v s => v = none && s.out.contains "TB".toList)
    (absorbed "db 1" && absorbed "goto nosuch" && absorbed "load \"x") = true := by
  decide +kernel

/-- non-vacuity of `returns_or_nofuel_composed` / `returns_composed`: BOTH alternatives occur -- with too little
fuel the generated `onecmd` answers `.nofuel` (which `never_raises_composed` alone would have accepted), with
the fuel of the examples it returns `.ok`. -/
example :
    (match MonCmdGen.onecmd (othG exP) (fun _ => "TB".toList) (fun _ => "MPU".toList) 0 "mem 10:13".toList
        { core := C20g.exCore, lastcmd := [], out := [] } with | .nofuel => true | _ => false) = true ∧
    (match MonCmdGen.onecmd (othG exP) (fun _ => "TB".toList) (fun _ => "MPU".toList) 3 "mem 10:13".toList
        { core := C20g.exCore, lastcmd := [], out := [] } with | .nofuel => true | _ => false) = true ∧
    exRunG "mem 10:13" (fun _ _ => true) = true ∧ exRunG "db 1" (fun _ _ => true) = true := by
  decide +kernel

end Py65.Props.C20h
