/-
C10 — "ObservableMemory notifies exactly the subscribers of an address, once, in order".

Property theorems only (helper lemmas: `Py65/Proofs/ObsMemLemmas.lean`).  They are about the
hand-written model `Py65/Model/ObsMem.lean` of `py65/memory.py`; the model is tied to the real
class by the correspondence run of `harness/props/c10.py`.

Reading guide.  A *history* is a `List Op` (subscriptions with arbitrary address lists and
repeated callbacks, item reads/writes, slice reads/writes, bulk writes) executed from
`init addrWidth cells` (any address width — `> 16` selects the 256 K mask — and any initial
content).  Callback answers are an arbitrary function `reply` of (callback, call index, address,
value shown), so "returns None / 0 / v" is quantified over, including answers that change from
call to call.  The Spec (`Py65/Spec/ObsMem.lean`):

* `phys mask a = a mod (mask+1)`: the physical address;
* `subscribers k mask hist p`: callbacks of the kind-`k` subscription operations of `hist` that
  mention an address aliasing to `p`, in first-registration order, later duplicates dropped;
* `lastSome`: the last non-`None` answer;  `seen … i`: the value the `i`-th write subscriber is
  shown (the written value as replaced by the non-`None` answers of subscribers `0 … i-1`).
-/
import Py65.Proofs.ObsMemLemmas

namespace Py65.Props.C10
open Py65.Model.ObsMem Py65.Spec.ObsMem

/-- `subs_spec`: after ANY history, the subscriber lists the memory holds for ANY address `a`
(physical or not) are exactly the Spec's subscribers: the callbacks of the subscription
operations mentioning an alias of `a`, in first-registration order, each once.  The mask is the
one `__init__` chose and never changes. -/
theorem subs_spec (reply : Reply) (w : Int) (cells : Int → Int) (hist : List Op) (a : Int) :
    let m := run reply (init w cells) hist
    m.physMask = (if w > 16 then 0x3ffff else 0xffff) ∧
    m.rsubs.of a = subscribers .read m.physMask hist a ∧
    m.wsubs.of a = subscribers .write m.physMask hist a ∧
    (subscribers .read m.physMask hist a).Nodup ∧ (subscribers .write m.physMask hist a).Nodup ∧
    (∀ cb, cb ∈ subscribers .read m.physMask hist a ↔
        ∃ addrs, Op.subR addrs cb ∈ hist ∧ ∃ x ∈ addrs, phys m.physMask x = a) ∧
    (∀ cb, cb ∈ subscribers .write m.physMask hist a ↔
        ∃ addrs, Op.subW addrs cb ∈ hist ∧ ∃ x ∈ addrs, phys m.physMask x = a) := by
  intro m
  have hw := init_WF w cells
  have hm : m.physMask = (init w cells).physMask := run_physMask _ _ _
  refine ⟨hm, ?_, ?_, keepFirst_nodup _, keepFirst_nodup _, ?_, ?_⟩
  · show (run reply (init w cells) hist).rsubs.of a = _
    rw [run_rsubs _ _ _ hw, hm]; exact extend_nil _
  · show (run reply (init w cells) hist).wsubs.of a = _
    rw [run_wsubs _ _ _ hw, hm]; exact extend_nil _
  · intro cb
    unfold subscribers
    rw [mem_keepFirst, List.mem_filterMap]
    constructor
    · rintro ⟨op, hop, hreg⟩
      cases op <;> simp [registered] at hreg
      obtain ⟨⟨x, hx, hxa⟩, rfl⟩ := hreg
      exact ⟨_, hop, x, hx, hxa⟩
    · rintro ⟨addrs, hop, x, hx, hxa⟩
      exact ⟨_, hop, by simp [registered]; exact ⟨x, hx, hxa⟩⟩
  · intro cb
    unfold subscribers
    rw [mem_keepFirst, List.mem_filterMap]
    constructor
    · rintro ⟨op, hop, hreg⟩
      cases op <;> simp [registered] at hreg
      obtain ⟨⟨x, hx, hxa⟩, rfl⟩ := hreg
      exact ⟨_, hop, x, hx, hxa⟩
    · rintro ⟨addrs, hop, x, hx, hxa⟩
      exact ⟨_, hop, by simp [registered]; exact ⟨x, hx, hxa⟩⟩

/-- non-vacuity: callback 1 registered through an alias (`65541 = 5 + 0x10000`) and a negative
address (`-65531`), callback 2 in between, callback 1 again: subscribers of 5 are `[1, 2]`. -/
example :
    subscribers .read 0xffff
      [.subR [5, 65541, -65531] 1, .subW [5] 9, .subR [4, 5] 2, .subR [5] 1, .set 5 3] 5 = [1, 2] := by
  decide +kernel

/-- `get_calls`: a read of ANY address `a` in ANY reachable state calls exactly the read
subscribers of the physical address `p = a mod size` — the call log grows by one event
`(cb, p)` per subscriber, in registration order, and the subscriber list has no duplicates, so
each is called once — and returns the last non-`None` answer (an answer `0` is an answer), else
the stored cell.  Nothing else changes. -/
theorem get_calls (reply : Reply) (w : Int) (cells : Int → Int) (hist : List Op) (a : Int) :
    let m := run reply (init w cells) hist
    let p := phys m.physMask a
    let subs := subscribers .read m.physMask hist p
    let r := get reply m a
    subs.Nodup ∧
    r.2.log = m.log ++ subs.map (fun cb => { cb := cb, addr := p, val := none }) ∧
    r.1 = (lastSome (readReplies reply subs m.log.length p)).getD (m.subject p) ∧
    r.2.subject = m.subject ∧ r.2.subjLen = m.subjLen ∧ r.2.rsubs = m.rsubs ∧ r.2.wsubs = m.wsubs ∧
    r.2.physMask = m.physMask := by
  intro m p subs r
  have hw : WF m := run_WF _ _ _ (init_WF w cells)
  have hs : m.rsubs.of p = subs := (subs_spec reply w cells hist p).2.1
  have hp : Py.land a m.physMask = p := land_physMask hw a
  refine ⟨keepFirst_nodup _, ?_, ?_, rfl, rfl, rfl, rfl, rfl⟩
  · show (get reply m a).2.log = _
    rw [get_log, hp, hs]
  · show (get reply m a).1 = _
    rw [get_val, hp, hs]

/-- non-vacuity, and "0 is a value": subscribers `[1, 2, 3]` of cell 5 (content 7) answer
`some 9`, `some 0`, `none`: the read returns 0 — not 9 (first), not 7 (the cell) — after
exactly three calls in registration order. -/
example :
    let reply : Reply := fun cb _ _ _ => if cb = 1 then some 9 else if cb = 2 then some 0 else none
    let m := run reply (init 16 fun _ => 7) [.subR [5] 1, .subR [65541] 2, .subR [5, 5] 3, .subR [5] 2]
    (get reply m (-65531)).1 = 0 ∧
    (get reply m (-65531)).2.log = [⟨1, 5, none⟩, ⟨2, 5, none⟩, ⟨3, 5, none⟩] := by
  decide +kernel

/-- `set_chain`: a write of `v` to ANY address in ANY reachable state calls exactly the write
subscribers of the physical address, once each, in registration order; the `i`-th is shown
`seen … i` — the value as replaced by the non-`None` answers of the earlier ones — and the value
finally stored at the physical address is `seen … (number of subscribers)`.  No other cell and
nothing else changes. -/
theorem set_chain (reply : Reply) (w : Int) (cells : Int → Int) (hist : List Op) (a v : Int) :
    let m := run reply (init w cells) hist
    let p := phys m.physMask a
    let subs := subscribers .write m.physMask hist p
    let m' := set reply m a v
    subs.Nodup ∧
    m'.log = m.log ++ (List.range subs.length).map (fun i =>
      { cb := subs.getD i 0, addr := p, val := some (seen reply subs m.log.length p v i) }) ∧
    m'.subject = upd m.subject p (seen reply subs m.log.length p v subs.length) ∧
    m'.subjLen = m.subjLen ∧ m'.rsubs = m.rsubs ∧ m'.wsubs = m.wsubs ∧ m'.physMask = m.physMask := by
  intro m p subs m'
  have hw : WF m := run_WF _ _ _ (init_WF w cells)
  have hs : m.wsubs.of p = subs := (subs_spec reply w cells hist p).2.2.1
  have hp : Py.land a m.physMask = p := land_physMask hw a
  refine ⟨keepFirst_nodup _, ?_, ?_, rfl, rfl, rfl, rfl⟩
  · show (set reply m a v).log = _
    rw [set_log, hp, hs]
  · show (set reply m a v).subject = _
    rw [set_subject, hp, hs]

/-- non-vacuity: write subscribers `[1, 2, 3]` of cell 5; 1 answers `None`, 2 replaces the value
by its double, 3 answers `0`: they are shown 21, 21, 42 and 0 is stored; cell 6 keeps its 7. -/
example :
    let reply : Reply := fun cb _ _ v =>
      if cb = 1 then none else if cb = 2 then v.map (· * 2) else some 0
    let m := run reply (init 32 fun _ => 7) [.subW [5] 1, .subW [5 + 0x40000] 2, .subW [5] 3, .subW [5] 1]
    (set reply m 5 21).log = [⟨1, 5, some 21⟩, ⟨2, 5, some 21⟩, ⟨3, 5, some 42⟩] ∧
    (set reply m 5 21).subject 5 = 0 ∧ (set reply m 5 21).subject 6 = 7 := by
  decide +kernel

/-- `no_subs_silent`: if no subscription operation of the history mentions an alias of the
address (equivalently: the Spec's subscriber list is empty), a read returns the cell and changes
nothing at all — the call log included — and a write stores exactly `v` and changes nothing
else. -/
theorem no_subs_silent (reply : Reply) (w : Int) (cells : Int → Int) (hist : List Op) (a : Int) :
    let m := run reply (init w cells) hist
    let p := phys m.physMask a
    ((∀ addrs cb, Op.subR addrs cb ∈ hist → ∀ x ∈ addrs, phys m.physMask x ≠ p) →
        get reply m a = (m.subject p, m)) ∧
    ((∀ addrs cb, Op.subW addrs cb ∈ hist → ∀ x ∈ addrs, phys m.physMask x ≠ p) →
        ∀ v, set reply m a v = { m with subject := upd m.subject p v }) := by
  intro m p
  have hw : WF m := run_WF _ _ _ (init_WF w cells)
  have hp : Py.land a m.physMask = p := land_physMask hw a
  obtain ⟨_, hr, hwr, _, _, hmr, hmw⟩ := subs_spec reply w cells hist p
  constructor
  · intro hno
    have hnil : m.rsubs.of p = [] := by
      rw [hr]
      apply List.eq_nil_iff_forall_not_mem.2
      intro cb hcb
      obtain ⟨addrs, hop, x, hx, hxa⟩ := (hmr cb).1 hcb
      exact hno addrs cb hop x hx hxa
    show get reply m a = _
    unfold Py65.Model.ObsMem.get
    simp only [hp, hnil, readLoop]
  · intro hno v
    have hnil : m.wsubs.of p = [] := by
      rw [hwr]
      apply List.eq_nil_iff_forall_not_mem.2
      intro cb hcb
      obtain ⟨addrs, hop, x, hx, hxa⟩ := (hmw cb).1 hcb
      exact hno addrs cb hop x hx hxa
    show set reply m a v = _
    unfold Py65.Model.ObsMem.set
    simp only [hp, hnil, writeLoop]
    rfl

/-- non-vacuity: subscribers exist on cells 4 and 6 (both kinds), none on 5: reading 5 and
writing 5 log nothing although every callback would answer 99. -/
example :
    let reply : Reply := fun _ _ _ _ => some 99
    let m := run reply (init 16 fun _ => 7) [.subR [4, 6] 1, .subW [4, 6, 65540] 2]
    (get reply m 5).1 = 7 ∧ (get reply m 5).2.log = [] ∧ (set reply m 5 3).log = [] ∧
    (set reply m 5 3).subject 5 = 3 ∧ (get reply m 4).1 = 99 := by
  decide +kernel

/-- `subscribe_idempotent`: subscribing a callback to addresses at each of which it is already
subscribed (under any alias) does not change the memory; in particular subscribing the same
callback twice to the same address collection is the same as subscribing it once. -/
theorem subscribe_idempotent (m : OM) (addrs : List Int) (cb : Nat) :
    ((∀ x ∈ addrs, cb ∈ m.rsubs.of (Py.land x m.physMask)) → subscribeRead m addrs cb = m) ∧
    ((∀ x ∈ addrs, cb ∈ m.wsubs.of (Py.land x m.physMask)) → subscribeWrite m addrs cb = m) ∧
    subscribeRead (subscribeRead m addrs cb) addrs cb = subscribeRead m addrs cb ∧
    subscribeWrite (subscribeWrite m addrs cb) addrs cb = subscribeWrite m addrs cb := by
  have hR : ∀ m : OM, (∀ x ∈ addrs, cb ∈ m.rsubs.of (Py.land x m.physMask)) → subscribeRead m addrs cb = m := by
    intro m h
    unfold subscribeRead
    rw [foldl_subOne_same _ _ _ _ h]
  have hW : ∀ m : OM, (∀ x ∈ addrs, cb ∈ m.wsubs.of (Py.land x m.physMask)) → subscribeWrite m addrs cb = m := by
    intro m h
    unfold subscribeWrite
    rw [foldl_subOne_same _ _ _ _ h]
  refine ⟨hR m, hW m, hR _ ?_, hW _ ?_⟩
  · intro x hx
    show cb ∈ (addrs.foldl (subOne m.physMask cb) m.rsubs).of (Py.land x m.physMask)
    rw [foldl_subOne_of, if_pos (List.mem_map.2 ⟨x, hx, rfl⟩)]
    exact mem_addCb _ _
  · intro x hx
    show cb ∈ (addrs.foldl (subOne m.physMask cb) m.wsubs).of (Py.land x m.physMask)
    rw [foldl_subOne_of, if_pos (List.mem_map.2 ⟨x, hx, rfl⟩)]
    exact mem_addCb _ _

/-- The same on histories and in Spec terms: appending a subscription whose callback is already
a subscriber of every address it mentions leaves every subscriber list as it was. -/
theorem subscribe_idempotent_hist (k : Kind) (mask : Int) (hist : List Op) (op : Op) (a : Int)
    (h : ∀ cb, registered k mask a op = some cb → cb ∈ subscribers k mask hist a) :
    subscribers k mask (hist ++ [op]) a = subscribers k mask hist a := by
  unfold subscribers at h ⊢
  rw [List.filterMap_append]
  cases hreg : registered k mask a op with
  | none => simp [hreg]
  | some cb =>
    simp only [List.filterMap_cons, hreg, List.filterMap_nil]
    exact keepFirst_append_of_mem _ _ ((mem_keepFirst _ _).1 (h cb hreg))

/-- non-vacuity: the second, identical subscription adds no second call. -/
example :
    let reply : Reply := fun _ _ _ _ => none
    let m := run reply (init 16 fun _ => 7) [.subR [5, 6, 5] 1, .subR [5, 6, 5] 1, .subR [65541] 1]
    (get reply m 5).2.log = [⟨1, 5, none⟩] ∧ m.rsubs.of 6 = [1] := by
  decide +kernel

/-- `slice_elementwise`: a slice read / write is the element-wise sequence of item reads /
writes over Python's `range(*slice.indices(size))`: the values are collected left to right
while the state (call log!) is threaded through; a slice write pairs indices with values and
stops at the shorter (`zip`).  A zero step raises `ValueError` before anything happens.  Every
index the slice produces is a physical address `0 ≤ i ≤ physMask`, so slices never alias, and
the everyday `mem[s:e]` with `0 ≤ s ≤ e ≤ size` is `s, s+1, …, e-1`. -/
theorem slice_elementwise (reply : Reply) (m : OM) (hm : WF m) (start stop step : Option Int) :
    (step = some 0 →
        getSlice reply m start stop step = none ∧ ∀ vals, setSlice reply m start stop step vals = none) ∧
    (step ≠ some 0 → ∃ idx,
        sliceIndices (m.physMask + 1) start stop step = some idx ∧
        (∀ i ∈ idx, 0 ≤ i ∧ i ≤ m.physMask) ∧
        getSlice reply m start stop step =
          some (idx.foldl (fun (acc : List Int × OM) n =>
                  (acc.1 ++ [(get reply acc.2 n).1], (get reply acc.2 n).2)) ([], m)) ∧
        (∀ vals, setSlice reply m start stop step vals =
          some ((idx.zip vals).foldl (fun m p => set reply m p.1 p.2) m))) ∧
    (∀ s e, 0 ≤ s → s ≤ e → e ≤ m.physMask + 1 →
        sliceIndices (m.physMask + 1) (some s) (some e) none =
          some ((List.range (e - s).toNat).map fun (i : Nat) => s + (i : Int))) := by
  have hL : 0 ≤ m.physMask + 1 := by rcases hm.1 with h | h <;> rw [h] <;> omega
  refine ⟨?_, ?_, ?_⟩
  · intro h0
    have := (sliceIndices_none_iff (m.physMask + 1) start stop step).2 h0
    simp [getSlice, setSlice, this]
  · intro h0
    cases hidx : sliceIndices (m.physMask + 1) start stop step with
    | none => exact absurd ((sliceIndices_none_iff _ _ _ _).1 hidx) h0
    | some idx =>
      refine ⟨idx, rfl, ?_, ?_, ?_⟩
      · intro i hi
        have := sliceIndices_inRange _ hL _ _ _ _ hidx i hi
        omega
      · simp only [getSlice, hidx, Option.map_some, getMany_eq_foldl]
      · intro vals
        simp only [setSlice, hidx, Option.map_some, setMany_eq_foldl]
  · intro s e h0 h1 h2
    exact sliceIndices_contig _ _ _ h0 h1 h2

/-- non-vacuity: `mem[-3:-8:-2]` on the 64 K memory visits 65533, 65531, 65529; `mem[7:3:-2]` with a
read subscriber on 5 calls it once (index 5 is in `7, 5`); a slice write with too few values
stops early; step 0 is a `ValueError`. -/
example :
    let reply : Reply := fun _ _ _ _ => some 1
    let m := run reply (init 16 fun a => a) [.subR [5] 1]
    sliceIndices 0x10000 (some (-3)) (some (-8)) (some (-2)) = some [65533, 65531, 65529] ∧
    (getSlice reply m (some 7) (some 3) (some (-2))).map (·.1) = some [7, 1] ∧
    (getSlice reply m (some 7) (some 3) (some (-2))).map (·.2.log) = some [⟨1, 5, none⟩] ∧
    (setSlice reply m (some 2) (some 6) none [10, 11]).map (fun m' => (m'.subject 2, m'.subject 3, m'.subject 4))
      = some (10, 11, 4) ∧
    (getSlice reply m none none (some 0)).isNone := by
  decide +kernel

/-- `bulk_write_silent`: `write(start, bytes)` in ANY reachable state calls nobody (the call log
and both subscriber dictionaries are unchanged, whatever is subscribed on the cells written) and
stores `bytes[i]` at position `start mod size + i` of the backing list, for every `i`, changing
no other position.  Positions past `physMask` are *not* wrapped around: the Python list grows
(`subjLen`), and those positions are unreachable by item access. -/
theorem bulk_write_silent (reply : Reply) (w : Int) (cells : Int → Int) (hist : List Op)
    (start : Int) (bytes : List Int) :
    let m := run reply (init w cells) hist
    let s := phys m.physMask start
    let m' := write m start bytes
    m'.log = m.log ∧ m'.rsubs = m.rsubs ∧ m'.wsubs = m.wsubs ∧ m'.physMask = m.physMask ∧
    (∀ i : Nat, i < bytes.length → m'.subject (s + i) = bytes.getD i 0) ∧
    (∀ k, k < s ∨ s + bytes.length ≤ k → m'.subject k = m.subject k) ∧
    m'.subjLen = max m.subjLen (s + bytes.length) := by
  intro m s m'
  have hw : WF m := run_WF _ _ _ (init_WF w cells)
  have hp : Py.land start m.physMask = s := land_physMask hw start
  have hs0 : 0 ≤ s := phys_nonneg hw start
  have hs1 : s ≤ m.physMask := phys_le hw start
  have hlen : ¬ (s > m.subjLen) := by have := hw.2; omega
  refine ⟨rfl, rfl, rfl, rfl, ?_, ?_, ?_⟩
  · intro i hi
    show (write m start bytes).subject (s + i) = _
    simp only [write, hp, hlen, if_false]
    have h1 : s ≤ s + (i : Int) ∧ s + (i : Int) < s + (bytes.length : Int) := by omega
    rw [if_pos h1]
    congr 1
    omega
  · intro k hk
    show (write m start bytes).subject k = _
    simp only [write, hp, hlen, if_false]
    have h1 : ¬ (s ≤ k ∧ k < s + (bytes.length : Int)) := by omega
    rw [if_neg h1]
  · show (write m start bytes).subjLen = _
    simp only [write, hp, hlen, if_false]
    split_ifs with h <;> omega

/-- non-vacuity: read and write subscribers sit on cells 5 and 6 and would answer 99; a bulk
write over them logs nothing and stores the bytes; a bulk write at the last cell runs past the
end: the list grows to 0x10002 and cell 0 is untouched (no wrap-around). -/
example :
    let reply : Reply := fun _ _ _ _ => some 99
    let m := run reply (init 16 fun _ => 7) [.subR [5, 6] 1, .subW [5, 6] 2]
    (write m (5 + 0x10000) [1, 2, 3]).log = [] ∧
    (write m (5 + 0x10000) [1, 2, 3]).subject 6 = 2 ∧
    (write m 0xffff [1, 2, 3]).subjLen = 0x10002 ∧ (write m 0xffff [1, 2, 3]).subject 0 = 7 ∧
    (write m 0xffff [1, 2, 3]).subject 0x10001 = 3 := by
  decide +kernel

end Py65.Props.C10
