/-
C16g -- C16's `fill` / `load` theorems restated for the GENERATED `_fill`.

`Py65.Gen.MonFillGen._fill` is regenerated from `/repo/py65/monitor.py` (`Monitor._fill`: the
one-address extension with clipping at `addrMask`, the `while address <= end` loop with
`address &= self.addrMask`, `filler[index] & self.byteMask`, the index wrap, the three numbers of
the "Wrote" line) by `harness/py2lean_mon.py` on every run of the C16 check;
`Py65/Proofs/MonFillGenEq.lean` proves it equal to the hand model `MonMem.fill` (`fill_eq`).
Below, `Py65.Props.C16.fill_exact / fill_exact_aliasing / load_exact` with the generated method in
place of the model's (property statements only; reading guide in C16.lean).

`σ : FillSt` is what `_fill` can touch: the memory object and the lines printed so far.  `fuel`
bounds the generated loop function; any fuel above the length of the range will do
(`hfuel`), and the result does not depend on it.  The call is the one `do_fill` / `do_load` make
after parsing: `self._fill(start, end, filler)`; the parsing itself (`shlex.split`, the address
parser of C15, the `value > byteMask` test) remains modelled (`MonFillGenEq.doFill_eq`).
-/
import Py65.Props.C16
import Py65.Proofs.MonFillGenEq

namespace Py65.Props.C16g
open Py65.Model.PyStr Py65.Model.AddrParser Py65.Model.ObsMem Py65.Model.MonMem Py65.Model.MonGenRt
open Py65.Spec.ObsMem Py65.Spec.MonMem Py65.Proofs.Num Py65.Gen Py65.Proofs.MonFillGenEq

/-- `fill_exact` for the generated code: for every range token spelling `start ≤ stop` inside the
address space and every non-empty list of data tokens spelling values of at most a byte, the
GENERATED `_fill(start, stop, data)` ends normally, prints exactly one more line,
"Wrote +(E-start+1) bytes from $start to $E" (`wroteLine`) where `E = stop`, or -- for a one-address
range -- `E = start + len data - 1` clipped at the top of the address space; afterwards the cell of
`start + i` holds `data[i mod n]` for EVERY `0 ≤ i ≤ E - start`, every other cell is unchanged, and
nothing else of the memory object changed. -/
theorem fill_exact (reply : Reply) (d : Dev) (P : Parser) (σ : FillSt) (r : Str) (pieces : List Str)
    (start stop : Int) (data : List Int) (fuel : Nat)
    (hwf : P.WF) (hP : P.maxaddr = d.addrMask) (hw : WF σ.memory) (hq : WQuiet reply σ.memory)
    (hr : rangeL P r = .ok start stop) (hp : PiecesOk d P pieces data) (hne : data ≠ [])
    (hwin : fillStop d start stop data.length - start ≤ σ.memory.physMask)
    (hfuel : (fillStop d start stop data.length + 1 - start).toNat < fuel) :
    let E := fillStop d start stop data.length
    start ≤ E ∧ E ≤ d.addrMask ∧
    ∃ m' : OM,
      MonFillGen._fill reply d fuel start stop data σ =
        .ok () { memory := m', out := σ.out ++ [wroteLine d (E - start + 1) start E] } ∧
      (∀ i : Nat, start + i ≤ E →
        m'.subject (phys σ.memory.physMask (start + i)) = data.getD (i % data.length) 0) ∧
      (∀ k, (∀ i : Nat, start + i ≤ E → phys σ.memory.physMask (start + i) ≠ k) →
        m'.subject k = σ.memory.subject k) ∧
      SameShape σ.memory m' := by
  intro E
  obtain ⟨_, _, hb⟩ := rangeL_ordered hwf hr
  rw [hP] at hb
  obtain ⟨e1, e2, e3, e4, e5, e6⟩ :=
    C16.fill_exact reply d P σ.memory r pieces start stop data hwf hP hw hq hr hp hne hwin
  rw [doFill_eq reply d P σ.memory r pieces start stop data hr hp hne] at e3 e4 e5 e6
  have h1 := ofFill_wrote e3
  refine ⟨e1, e2, (fill reply d start stop data σ.memory).2, ?_, e4, e5, e6⟩
  rw [fill_eq reply d fuel start stop data σ (fun _ => hb) hfuel]
  simp only [fillFlow, h1]
  rfl

/-- non-vacuity (the probes of C16, run through the GENERATED code on the monitor's own memory
object): `fill 10:13 1 2` writes 1 2 1 2; `fill 20 1 2 3` (one address) extends to three cells;
`fill fffe 1 2 3 4` is clipped at the top: two cells; each prints one line. -/
example :
    let σ : FillSt := { memory := monMem 16 fun _ => 0, out := [] }
    let obs := fun (r : Flow FillSt Unit) (cells : List Int) =>
      match r with
      | .ok _ s => some (s.out.length, cells.map s.memory.subject)
      | _ => none
    obs (MonFillGen._fill monReply dev8 10 0x10 0x13 [1, 2] σ) [0xf, 0x10, 0x11, 0x12, 0x13, 0x14] =
      some (1, [0, 1, 2, 1, 2, 0]) ∧
    obs (MonFillGen._fill monReply dev8 10 0x20 0x20 [1, 2, 3] σ) [0x1f, 0x20, 0x21, 0x22, 0x23] =
      some (1, [0, 1, 2, 3, 0]) ∧
    obs (MonFillGen._fill monReply dev8 10 0xfffe 0xfffe [1, 2, 3, 4] σ) [0xfffd, 0xfffe, 0xffff, 0, 1] =
      some (1, [0, 1, 2, 0, 0]) := by
  decide +kernel

/-- `fill_exact_aliasing` for the generated code: the same WITHOUT the window hypothesis (ranges of
the 65Org16 longer than its 2^18 physical cells): same report; a cell hit by no address of the range
is unchanged, a cell hit by several ends up with the item of the LAST address that hits it. -/
theorem fill_exact_aliasing (reply : Reply) (d : Dev) (P : Parser) (σ : FillSt) (r : Str) (pieces : List Str)
    (start stop : Int) (data : List Int) (fuel : Nat)
    (hwf : P.WF) (hP : P.maxaddr = d.addrMask) (hw : WF σ.memory) (hq : WQuiet reply σ.memory)
    (hr : rangeL P r = .ok start stop) (hp : PiecesOk d P pieces data) (hne : data ≠ [])
    (hfuel : (fillStop d start stop data.length + 1 - start).toNat < fuel) :
    let E := fillStop d start stop data.length
    ∃ m' : OM,
      MonFillGen._fill reply d fuel start stop data σ =
        .ok () { memory := m', out := σ.out ++ [wroteLine d (E - start + 1) start E] } ∧
      (∀ (k : Int) (i : Nat), start + i ≤ E → phys σ.memory.physMask (start + i) = k →
        (∀ i' : Nat, i < i' → start + i' ≤ E → phys σ.memory.physMask (start + i') ≠ k) →
        m'.subject k = data.getD (i % data.length) 0) ∧
      (∀ k, (∀ i : Nat, start + i ≤ E → phys σ.memory.physMask (start + i) ≠ k) →
        m'.subject k = σ.memory.subject k) ∧
      SameShape σ.memory m' := by
  intro E
  obtain ⟨_, _, hb⟩ := rangeL_ordered hwf hr
  rw [hP] at hb
  obtain ⟨e3, e4, e5, e6⟩ :=
    C16.fill_exact_aliasing reply d P σ.memory r pieces start stop data hwf hP hw hq hr hp hne
  rw [doFill_eq reply d P σ.memory r pieces start stop data hr hp hne] at e3 e4 e5 e6
  have h1 := ofFill_wrote e3
  refine ⟨(fill reply d start stop data σ.memory).2, ?_, e4, e5, e6⟩
  rw [fill_eq reply d fuel start stop data σ (fun _ => hb) hfuel]
  simp only [fillFlow, h1]
  rfl

/-- non-vacuity: on the 65Org16 the range `$3fffe:$40001` crosses the physical top; the generated
code writes the cells $3fffe, $3ffff and the aliases 0, 1. -/
example :
    let σ : FillSt := { memory := monMem 32 fun _ => 0, out := [] }
    (match MonFillGen._fill monReply dev16 10 0x3fffe 0x40001 [7, 8, 9] σ with
     | .ok _ s => some ([0x3fffd, 0x3fffe, 0x3ffff, 0, 1, 2].map s.memory.subject)
     | _ => none) = some [0, 7, 8, 9, 7, 0] := by
  decide +kernel

/-- Does the loop need `end ≤ addrMask`?  For a one-address range no (the code clips; see
`load_exact`).  For a proper range yes: if it ends above `addrMask` the generated loop is out of
fuel for EVERY fuel (the Python loop does not terminate: `address &= self.addrMask` keeps the
address below `end`).  `do_fill` never makes such a call: the address parser refuses the range
(`C16.fill_rejects`). -/
theorem fill_needs_range (reply : Reply) (d : Dev) (start stop : Int) (data : List Int) (σ : FillSt)
    (h0 : start ≤ d.addrMask + 1) (hne : start ≠ stop) (hbig : d.addrMask < stop) (hdata : data ≠ []) :
    ∀ fuel, MonFillGen._fill reply d fuel start stop data σ = .nofuel := by
  intro fuel
  have := fill_diverges reply d data stop hbig fuel start 0 σ h0 (List.length_pos_of_ne_nil hdata)
  simp only [Nat.cast_zero] at this
  unfold MonFillGen._fill
  simp only [hne, if_false, this, Flow.bind_nofuel]

example : (0 : Int) ≤ dev8.addrMask + 1 ∧ (0 : Int) ≠ 0x10000 ∧ dev8.addrMask < 0x10000 := by decide

/-- `load_exact` for the generated code: `do_load` ends in `self._fill(a, a, data)` -- a one-address
range, so NO range hypothesis is needed: for any start address `a` inside the address space and any
data of byte values, the generated `_fill` stores word `i` in the cell of `a + i` up to the end of
the data or the top of the address space, whichever comes first, changes no other cell, and prints
"Wrote +(E-a+1) bytes from $a to $E"; empty data writes nothing ("Wrote +0 bytes from $a to $(a-1)"). -/
theorem load_exact (reply : Reply) (d : Dev) (σ : FillSt) (data : List Int) (a : Int) (fuel : Nat)
    (hw : WF σ.memory) (hq : WQuiet reply σ.memory) (h0 : 0 ≤ a) (h1 : a ≤ d.addrMask)
    (hdata : ∀ v ∈ data, 0 ≤ v ∧ v ≤ d.byteMask)
    (hwin : fillStop d a a data.length - a ≤ σ.memory.physMask)
    (hfuel : (fillStop d a a data.length + 1 - a).toNat < fuel) :
    let E := fillStop d a a data.length
    E = min (a + data.length - 1) d.addrMask ∧
    ∃ m' : OM,
      MonFillGen._fill reply d fuel a a data σ =
        .ok () { memory := m', out := σ.out ++ [wroteLine d (E - a + 1) a E] } ∧
      (∀ i : Nat, a + i ≤ E → m'.subject (phys σ.memory.physMask (a + i)) = data.getD i 0) ∧
      (∀ k, (∀ i : Nat, a + i ≤ E → phys σ.memory.physMask (a + i) ≠ k) → m'.subject k = σ.memory.subject k) ∧
      SameShape σ.memory m' := by
  intro E
  -- `doLoad` with no address token and an 8-bit-style identity `loadData` is `fill a a data`;
  -- use C16.load_exact through a device-independent instance: restate via `fill` directly.
  have hE : E = min (a + data.length - 1) d.addrMask := by
    simp only [E, fillStop, if_true]
    split_ifs <;> omega
  have hgen := fill_eq reply d fuel a a data σ (fun h => absurd rfl h) hfuel
  by_cases hne : data = []
  · have hl : data.length = 0 := by rw [hne]; rfl
    have hEa : E = a - 1 := by rw [hE, hl]; simp only [Nat.cast_zero]; omega
    have hf : fill reply d a a data σ.memory = (.wrote 0 a (a - 1), σ.memory) := by
      simp only [fill, hne, List.length_nil, Nat.cast_zero, if_true]
      have c1 : ¬ (a + 0 - 1 > d.addrMask) := by omega
      have c2 : ¬ (a ≤ a + 0 - 1) := by omega
      simp only [c1, c2, if_false, and_false]
      have : (a + 0 - 1 + 1 - a).toNat = 0 := by omega
      rw [this]
      simp only [fillLoop]
      have e : a + 0 - 1 = a - 1 := by omega
      rw [e]
      congr 2
      omega
    refine ⟨hE, σ.memory, ?_, ?_, fun k _ => rfl, SameShape.refl _⟩
    · rw [hgen, hf]
      have e1 : a - 1 - a + 1 = 0 := by omega
      simp only [fillFlow, hEa, e1]
    · intro i hi
      have := Int.natCast_nonneg i
      omega
  · obtain ⟨f1, f2, f3, f4, f5, f6⟩ := fill_spec reply d a a data σ.memory hw hq h0 (le_refl a) h1 hne hwin
    refine ⟨hE, (fill reply d a a data σ.memory).2, ?_, ?_, f6, f4⟩
    · rw [hgen]
      simp only [fillFlow, f3]
      rfl
    · intro i hi
      have hi' : (i : Int) < data.length := by
        have : E ≤ a + data.length - 1 := by rw [hE]; exact min_le_left _ _
        omega
      have hlt : i < data.length := by exact_mod_cast hi'
      have hmem : data.getD i 0 ∈ data := by
        rw [List.getD_eq_getElem _ _ hlt]; exact List.getElem_mem hlt
      have := hdata _ hmem
      rw [f5 i hi, Nat.mod_eq_of_lt hlt, land_byteMask d this.1 this.2]

/-- non-vacuity: on the 6502 forty values loaded at $FFF0 are clipped to 16 cells; empty data at $10
writes nothing and still prints a line. -/
example :
    let σ : FillSt := { memory := monMem 16 fun _ => 0, out := [] }
    let obs := fun (r : Flow FillSt Unit) (cells : List Int) =>
      match r with
      | .ok _ s => some (s.out.length, cells.map s.memory.subject)
      | _ => none
    obs (MonFillGen._fill monReply dev8 50 0xfff0 0xfff0 ((List.range 40).map fun (i : Nat) => (i : Int)) σ)
      [0xffef, 0xfff0, 0xffff, 0] = some (1, [0, 0, 15, 0]) ∧
    obs (MonFillGen._fill monReply dev8 1 0x10 0x10 [] σ) [0x10] = some (1, [0]) := by
  decide +kernel

/-- The text of the report for the two address formats: `%04x` on the 6502/65C02, `%08x` on the
65Org16 (the conversions are the library helpers `pyFmtD` = `%d`, `fmtHexInt w` = `%0<w>x`). -/
theorem wrote_line_text (c s e : Int) :
    wroteLine dev8 c s e = "Wrote +".toList ++ pyFmtD c ++ " bytes from $".toList ++ fmtHexInt 4 s ++
      " to $".toList ++ fmtHexInt 4 e ∧
    wroteLine dev16 c s e = "Wrote +".toList ++ pyFmtD c ++ " bytes from $".toList ++ fmtHexInt 8 s ++
      " to $".toList ++ fmtHexInt 8 e := by
  have h1 : " bytes from ".toList ++ "$".toList = " bytes from $".toList := by decide
  unfold wroteLine pyFmtX
  rw [← h1]
  simp only [List.append_assoc]
  exact ⟨rfl, rfl⟩

/-- non-vacuity: `fill 10:13 …` on the 6502 reports `Wrote +4 bytes from $0010 to $0013`. -/
example : wroteLine dev8 4 0x10 0x13 = "Wrote +4 bytes from $0010 to $0013".toList := by
  rw [(wrote_line_text 4 0x10 0x13).1]
  have h1 : pyFmtD 4 = ['4'] := by simp [pyFmtD, fmtDecL, toDigits, digitChar]
  have h2 : fmtHexInt 4 0x10 = "0010".toList := by
    simp [fmtHexInt, fmtHexL, rjustL, toDigits, digitChar]
  have h3 : fmtHexInt 4 0x13 = "0013".toList := by
    simp [fmtHexInt, fmtHexL, rjustL, toDigits, digitChar]
  rw [h1, h2, h3]
  decide

end Py65.Props.C16g
