/-
C16g -- C16's theorems restated for the GENERATED code: `_fill` (first part) and the command front
ends `do_fill / do_load / do_save / do_mem` (second part, from "the command front ends" on).

`Py65.Gen.MonFillGen._fill` is regenerated from `/repo/py65/monitor.py` (`Monitor._fill`: the
one-address extension with clipping at `addrMask`, the `while address <= end` loop with
`address &= self.addrMask`, `filler[index] & self.byteMask`, the index wrap, the three numbers of
the "Wrote" line) by `harness/py2lean_mon.py` on every run of the C16 check;
`Py65/Proofs/MonFillGenEq.lean` proves it equal to the hand model `MonMem.fill` (`fill_eq`).
Below, `Py65.Props.C16.fill_exact / fill_exact_aliasing / load_exact` with the generated method in
place of the model's (property statements only; reading guide in C16.lean).

`σ : FillSt` is what `_fill` can touch: the memory object and the lines printed so far.  `fuel`
bounds the generated loop function; any fuel above the length of the range will do
(`hfuel`), and the result does not depend on it.  The call is the one `do_fill` / `do_load` make
after parsing: `self._fill(start, end, filler)`; the parsing itself (`shlex.split`, the address
parser of C15, the `value > byteMask` test) remains modelled (`MonFillGenEq.doFill_eq`).
-/
import Py65.Props.C16
import Py65.Proofs.MonFillGenEq
import Py65.Proofs.MonMemGenEq

namespace Py65.Props.C16g
open Py65.Model.PyStr Py65.Model.AddrParser Py65.Model.ObsMem Py65.Model.MonMem Py65.Model.MonGenRt
open Py65.Spec.ObsMem Py65.Spec.MonMem Py65.Proofs.Num Py65.Gen Py65.Proofs.MonFillGenEq

/-- `fill_exact` for the generated code: for every range token spelling `start ≤ stop` inside the
address space and every non-empty list of data tokens spelling values of at most a byte, the
GENERATED `_fill(start, stop, data)` ends normally, prints exactly one more line,
"Wrote +(E-start+1) bytes from $start to $E" (`wroteLine`) where `E = stop`, or -- for a one-address
range -- `E = start + len data - 1` clipped at the top of the address space; afterwards the cell of
`start + i` holds `data[i mod n]` for EVERY `0 ≤ i ≤ E - start`, every other cell is unchanged, and
nothing else of the memory object changed. -/
theorem fill_exact (reply : Reply) (d : Dev) (P : Parser) (σ : FillSt) (r : Str) (pieces : List Str)
    (start stop : Int) (data : List Int) (fuel : Nat)
    (hwf : P.WF) (hP : P.maxaddr = d.addrMask) (hw : WF σ.memory) (hq : WQuiet reply σ.memory)
    (hr : rangeL P r = .ok start stop) (hp : PiecesOk d P pieces data) (hne : data ≠ [])
    (hwin : fillStop d start stop data.length - start ≤ σ.memory.physMask)
    (hfuel : (fillStop d start stop data.length + 1 - start).toNat < fuel) :
    let E := fillStop d start stop data.length
    start ≤ E ∧ E ≤ d.addrMask ∧
    ∃ m' : OM,
      MonFillGen._fill reply d fuel start stop data σ =
        .ok () { memory := m', out := σ.out ++ [wroteLine d (E - start + 1) start E] } ∧
      (∀ i : Nat, start + i ≤ E →
        m'.subject (phys σ.memory.physMask (start + i)) = data.getD (i % data.length) 0) ∧
      (∀ k, (∀ i : Nat, start + i ≤ E → phys σ.memory.physMask (start + i) ≠ k) →
        m'.subject k = σ.memory.subject k) ∧
      SameShape σ.memory m' := by
  intro E
  obtain ⟨_, _, hb⟩ := rangeL_ordered hwf hr
  rw [hP] at hb
  obtain ⟨e1, e2, e3, e4, e5, e6⟩ :=
    C16.fill_exact reply d P σ.memory r pieces start stop data hwf hP hw hq hr hp hne hwin
  rw [doFill_eq reply d P σ.memory r pieces start stop data hr hp hne] at e3 e4 e5 e6
  have h1 := ofFill_wrote e3
  refine ⟨e1, e2, (fill reply d start stop data σ.memory).2, ?_, e4, e5, e6⟩
  rw [fill_eq reply d fuel start stop data σ (fun _ => hb) hfuel]
  simp only [fillFlow, h1]
  rfl

/-- non-vacuity (the probes of C16, run through the GENERATED code on the monitor's own memory
object): `fill 10:13 1 2` writes 1 2 1 2; `fill 20 1 2 3` (one address) extends to three cells;
`fill fffe 1 2 3 4` is clipped at the top: two cells; each prints one line. -/
example :
    let σ : FillSt := { memory := monMem 16 fun _ => 0, out := [] }
    let obs := fun (r : Flow FillSt Unit) (cells : List Int) =>
      match r with
      | .ok _ s => some (s.out.length, cells.map s.memory.subject)
      | _ => none
    obs (MonFillGen._fill monReply dev8 10 0x10 0x13 [1, 2] σ) [0xf, 0x10, 0x11, 0x12, 0x13, 0x14] =
      some (1, [0, 1, 2, 1, 2, 0]) ∧
    obs (MonFillGen._fill monReply dev8 10 0x20 0x20 [1, 2, 3] σ) [0x1f, 0x20, 0x21, 0x22, 0x23] =
      some (1, [0, 1, 2, 3, 0]) ∧
    obs (MonFillGen._fill monReply dev8 10 0xfffe 0xfffe [1, 2, 3, 4] σ) [0xfffd, 0xfffe, 0xffff, 0, 1] =
      some (1, [0, 1, 2, 0, 0]) := by
  decide +kernel

/-- `fill_exact_aliasing` for the generated code: the same WITHOUT the window hypothesis (ranges of
the 65Org16 longer than its 2^18 physical cells): same report; a cell hit by no address of the range
is unchanged, a cell hit by several ends up with the item of the LAST address that hits it. -/
theorem fill_exact_aliasing (reply : Reply) (d : Dev) (P : Parser) (σ : FillSt) (r : Str) (pieces : List Str)
    (start stop : Int) (data : List Int) (fuel : Nat)
    (hwf : P.WF) (hP : P.maxaddr = d.addrMask) (hw : WF σ.memory) (hq : WQuiet reply σ.memory)
    (hr : rangeL P r = .ok start stop) (hp : PiecesOk d P pieces data) (hne : data ≠ [])
    (hfuel : (fillStop d start stop data.length + 1 - start).toNat < fuel) :
    let E := fillStop d start stop data.length
    ∃ m' : OM,
      MonFillGen._fill reply d fuel start stop data σ =
        .ok () { memory := m', out := σ.out ++ [wroteLine d (E - start + 1) start E] } ∧
      (∀ (k : Int) (i : Nat), start + i ≤ E → phys σ.memory.physMask (start + i) = k →
        (∀ i' : Nat, i < i' → start + i' ≤ E → phys σ.memory.physMask (start + i') ≠ k) →
        m'.subject k = data.getD (i % data.length) 0) ∧
      (∀ k, (∀ i : Nat, start + i ≤ E → phys σ.memory.physMask (start + i) ≠ k) →
        m'.subject k = σ.memory.subject k) ∧
      SameShape σ.memory m' := by
  intro E
  obtain ⟨_, _, hb⟩ := rangeL_ordered hwf hr
  rw [hP] at hb
  obtain ⟨e3, e4, e5, e6⟩ :=
    C16.fill_exact_aliasing reply d P σ.memory r pieces start stop data hwf hP hw hq hr hp hne
  rw [doFill_eq reply d P σ.memory r pieces start stop data hr hp hne] at e3 e4 e5 e6
  have h1 := ofFill_wrote e3
  refine ⟨(fill reply d start stop data σ.memory).2, ?_, e4, e5, e6⟩
  rw [fill_eq reply d fuel start stop data σ (fun _ => hb) hfuel]
  simp only [fillFlow, h1]
  rfl

/-- non-vacuity: on the 65Org16 the range `$3fffe:$40001` crosses the physical top; the generated
code writes the cells $3fffe, $3ffff and the aliases 0, 1. -/
example :
    let σ : FillSt := { memory := monMem 32 fun _ => 0, out := [] }
    (match MonFillGen._fill monReply dev16 10 0x3fffe 0x40001 [7, 8, 9] σ with
     | .ok _ s => some ([0x3fffd, 0x3fffe, 0x3ffff, 0, 1, 2].map s.memory.subject)
     | _ => none) = some [0, 7, 8, 9, 7, 0] := by
  decide +kernel

/-- Does the loop need `end ≤ addrMask`?  For a one-address range no (the code clips; see
`load_exact`).  For a proper range yes: if it ends above `addrMask` the generated loop is out of
fuel for EVERY fuel (the Python loop does not terminate: `address &= self.addrMask` keeps the
address below `end`).  `do_fill` never makes such a call: the address parser refuses the range
(`C16.fill_rejects`). -/
theorem fill_needs_range (reply : Reply) (d : Dev) (start stop : Int) (data : List Int) (σ : FillSt)
    (h0 : start ≤ d.addrMask + 1) (hne : start ≠ stop) (hbig : d.addrMask < stop) (hdata : data ≠ []) :
    ∀ fuel, MonFillGen._fill reply d fuel start stop data σ = .nofuel := by
  intro fuel
  have := fill_diverges reply d data stop hbig fuel start 0 σ h0 (List.length_pos_of_ne_nil hdata)
  simp only [Nat.cast_zero] at this
  unfold MonFillGen._fill
  simp only [hne, if_false, this, Flow.bind_nofuel]

example : (0 : Int) ≤ dev8.addrMask + 1 ∧ (0 : Int) ≠ 0x10000 ∧ dev8.addrMask < 0x10000 := by decide

/-- `load_exact` for the generated code: `do_load` ends in `self._fill(a, a, data)` -- a one-address
range, so NO range hypothesis is needed: for any start address `a` inside the address space and any
data of byte values, the generated `_fill` stores word `i` in the cell of `a + i` up to the end of
the data or the top of the address space, whichever comes first, changes no other cell, and prints
"Wrote +(E-a+1) bytes from $a to $E"; empty data writes nothing ("Wrote +0 bytes from $a to $(a-1)"). -/
theorem load_exact (reply : Reply) (d : Dev) (σ : FillSt) (data : List Int) (a : Int) (fuel : Nat)
    (hw : WF σ.memory) (hq : WQuiet reply σ.memory) (h0 : 0 ≤ a) (h1 : a ≤ d.addrMask)
    (hdata : ∀ v ∈ data, 0 ≤ v ∧ v ≤ d.byteMask)
    (hwin : fillStop d a a data.length - a ≤ σ.memory.physMask)
    (hfuel : (fillStop d a a data.length + 1 - a).toNat < fuel) :
    let E := fillStop d a a data.length
    E = min (a + data.length - 1) d.addrMask ∧
    ∃ m' : OM,
      MonFillGen._fill reply d fuel a a data σ =
        .ok () { memory := m', out := σ.out ++ [wroteLine d (E - a + 1) a E] } ∧
      (∀ i : Nat, a + i ≤ E → m'.subject (phys σ.memory.physMask (a + i)) = data.getD i 0) ∧
      (∀ k, (∀ i : Nat, a + i ≤ E → phys σ.memory.physMask (a + i) ≠ k) → m'.subject k = σ.memory.subject k) ∧
      SameShape σ.memory m' := by
  intro E
  -- `doLoad` with no address token and an 8-bit-style identity `loadData` is `fill a a data`;
  -- use C16.load_exact through a device-independent instance: restate via `fill` directly.
  have hE : E = min (a + data.length - 1) d.addrMask := by
    simp only [E, fillStop, if_true]
    split_ifs <;> omega
  have hgen := fill_eq reply d fuel a a data σ (fun h => absurd rfl h) hfuel
  by_cases hne : data = []
  · have hl : data.length = 0 := by rw [hne]; rfl
    have hEa : E = a - 1 := by rw [hE, hl]; simp only [Nat.cast_zero]; omega
    have hf : fill reply d a a data σ.memory = (.wrote 0 a (a - 1), σ.memory) := by
      simp only [fill, hne, List.length_nil, Nat.cast_zero, if_true]
      have c1 : ¬ (a + 0 - 1 > d.addrMask) := by omega
      have c2 : ¬ (a ≤ a + 0 - 1) := by omega
      simp only [c1, c2, if_false, and_false]
      have : (a + 0 - 1 + 1 - a).toNat = 0 := by omega
      rw [this]
      simp only [fillLoop]
      have e : a + 0 - 1 = a - 1 := by omega
      rw [e]
      congr 2
      omega
    refine ⟨hE, σ.memory, ?_, ?_, fun k _ => rfl, SameShape.refl _⟩
    · rw [hgen, hf]
      have e1 : a - 1 - a + 1 = 0 := by omega
      simp only [fillFlow, hEa, e1]
    · intro i hi
      have := Int.natCast_nonneg i
      omega
  · obtain ⟨f1, f2, f3, f4, f5, f6⟩ := fill_spec reply d a a data σ.memory hw hq h0 (le_refl a) h1 hne hwin
    refine ⟨hE, (fill reply d a a data σ.memory).2, ?_, ?_, f6, f4⟩
    · rw [hgen]
      simp only [fillFlow, f3]
      rfl
    · intro i hi
      have hi' : (i : Int) < data.length := by
        have : E ≤ a + data.length - 1 := by rw [hE]; exact min_le_left _ _
        omega
      have hlt : i < data.length := by exact_mod_cast hi'
      have hmem : data.getD i 0 ∈ data := by
        rw [List.getD_eq_getElem _ _ hlt]; exact List.getElem_mem hlt
      have := hdata _ hmem
      rw [f5 i hi, Nat.mod_eq_of_lt hlt, land_byteMask d this.1 this.2]

/-- non-vacuity: on the 6502 forty values loaded at $FFF0 are clipped to 16 cells; empty data at $10
writes nothing and still prints a line. -/
example :
    let σ : FillSt := { memory := monMem 16 fun _ => 0, out := [] }
    let obs := fun (r : Flow FillSt Unit) (cells : List Int) =>
      match r with
      | .ok _ s => some (s.out.length, cells.map s.memory.subject)
      | _ => none
    obs (MonFillGen._fill monReply dev8 50 0xfff0 0xfff0 ((List.range 40).map fun (i : Nat) => (i : Int)) σ)
      [0xffef, 0xfff0, 0xffff, 0] = some (1, [0, 0, 15, 0]) ∧
    obs (MonFillGen._fill monReply dev8 1 0x10 0x10 [] σ) [0x10] = some (1, [0]) := by
  decide +kernel

/-- The text of the report for the two address formats: `%04x` on the 6502/65C02, `%08x` on the
65Org16 (the conversions are the library helpers `pyFmtD` = `%d`, `fmtHexInt w` = `%0<w>x`). -/
theorem wrote_line_text (c s e : Int) :
    wroteLine dev8 c s e = "Wrote +".toList ++ pyFmtD c ++ " bytes from $".toList ++ fmtHexInt 4 s ++
      " to $".toList ++ fmtHexInt 4 e ∧
    wroteLine dev16 c s e = "Wrote +".toList ++ pyFmtD c ++ " bytes from $".toList ++ fmtHexInt 8 s ++
      " to $".toList ++ fmtHexInt 8 e := by
  have h1 : " bytes from ".toList ++ "$".toList = " bytes from $".toList := by decide
  unfold wroteLine pyFmtX
  rw [← h1]
  simp only [List.append_assoc]
  exact ⟨rfl, rfl⟩

/-- non-vacuity: `fill 10:13 …` on the 6502 reports `Wrote +4 bytes from $0010 to $0013`. -/
example : wroteLine dev8 4 0x10 0x13 = "Wrote +4 bytes from $0010 to $0013".toList := by
  rw [(wrote_line_text 4 0x10 0x13).1]
  have h1 : pyFmtD 4 = ['4'] := by simp [pyFmtD, fmtDecL, toDigits, digitChar]
  have h2 : fmtHexInt 4 0x10 = "0010".toList := by
    simp [fmtHexInt, fmtHexL, rjustL, toDigits, digitChar]
  have h3 : fmtHexInt 4 0x13 = "0013".toList := by
    simp [fmtHexInt, fmtHexL, rjustL, toDigits, digitChar]
  rw [h1, h2, h3]
  decide

/-! ## the command front ends, generated (unit `memcmd`)

`Py65.Gen.MonMemGen.do_fill / do_load / do_save / do_mem` are regenerated from `/repo/py65/monitor.py`
by `harness/py2lean_monmem.py` on every run of the C16 check (they call the generated `_fill` above);
`Py65/Proofs/MonMemGenEq.lean` proves them equal to the hand model `MonMem.doFill / doLoad / doSave /
doMem` for all argument strings (`do_fill_eq`, `do_load_eq`, `do_save_eq`, `do_mem_eq`).  Below,
`C16.fill_rejects / load_rejects / save_exact / save_load_roundtrip / mem_exact / mem_reads_cells`
with the generated methods in place of the model's.

`σ : MemSt` is what the commands can touch: the memory object, `self._mpu.pc`, `self._width`, the lines
printed so far, the files written so far.  `w : World` is the OS and the parser's error texts.  A
command gets its ARGUMENT STRING `args`; "the string splits into these tokens" is the hypothesis
`MonCmd.shlexSplit args = some […]` (`shlex.split`, modelled).  `fuel` bounds the loop of the generated
`_fill`; the results do not depend on it. -/

open Py65.Model Py65.Model.MonMemRt Py65.Proofs.MonMemGenEq

-- the observations of the examples below are nested options / products / lists: a larger instance term
set_option synthInstance.maxSize 2048

/-- The method ended -- normally or by an exception that `onecmd` then reports -- in state `σ'`. -/
def EndsIn (r : MFlow MemSt Unit) (σ' : MemSt) : Prop := r = .ok () σ' ∨ ∃ x, r = .raise x σ'

theorem EndsIn.of_ok {σ1 σ' : MemSt} (h : EndsIn (.ok () σ1) σ') : σ' = σ1 := by
  rcases h with h | ⟨x, h⟩
  · injection h with _ h; exact h.symm
  · cases h

theorem EndsIn.of_raise {x : PExc} {σ1 σ' : MemSt} (h : EndsIn (.raise x σ1) σ') : σ' = σ1 := by
  rcases h with h | ⟨y, h⟩
  · cases h
  · injection h with _ h; exact h.symm

theorem EndsIn.not_nofuel {σ' : MemSt} (h : EndsIn .nofuel σ') : False := by
  rcases h with h | ⟨y, h⟩ <;> cases h

/-- The world of the non-vacuity examples: one readable file `f.bin` (octets 1 2 3 4 5), every file
writable, no network; the parser's exceptions carry the texts / numbers the real one does for the
tokens used below. -/
def w0 : World :=
  { openR := fun n => if n = "f.bin".toList then .ok [1, 2, 3, 4, 5] else .error (2, "No such file or directory".toList),
    openW := fun n => if n = "/nodir/x".toList then some (2, "No such file or directory".toList) else none,
    urlopen := fun _ => .error "unreachable".toList,
    keyText := fun t => "Label not found: ".toList ++ t,
    ovfArg := fun _ => 0x10000 }

/-- The monitor state of the examples on an 8-bit device: memory `cells`, PC 0, width 78. -/
def σ8 (cells : Int → Int) : MemSt := { memory := monMem 16 cells, pc := 0, width := 78, out := [], files := [] }
/-- … and on the 65Org16. -/
def σ16 (cells : Int → Int) : MemSt := { memory := monMem 32 cells, pc := 0, width := 78, out := [], files := [] }

def P8 : Parser := { width := 16, radix := 16, labels := [] }
def P16 : Parser := { width := 32, radix := 16, labels := [] }

/-- What the examples look at: the lines printed, the files written, and some cells afterwards. -/
def observe (cells : List Int) : MFlow MemSt Unit → Option (List Str × List WFile × List Int)
  | .ok _ s => some (s.out, s.files, cells.map s.memory.subject)
  | _ => none

/-- `fill_rejects` for the generated `do_fill`: (1) however the command ends, if the line it printed
is not a "Wrote …" report then the memory object is EXACTLY as it was; (2) an address too wide for the
device and (3) a value wider than a byte are both caught and printed as "Overflow: $…" -- the number
the exception carries -- with the state otherwise untouched, before the first cell is written. -/
theorem fill_rejects (w : World) (reply : Reply) (d : Dev) (P : Parser) (fuel : Nat) (σ : MemSt)
    (hwf : P.WF) (hP : P.maxaddr = d.addrMask) (hfuel : (d.addrMask + 1).toNat < fuel) :
    (∀ args σ', EndsIn (MonMemGen.do_fill w reply d P fuel args σ) σ' →
      (∀ c s e, σ'.out ≠ σ.out ++ [wroteLine d c s e]) → σ'.memory = σ.memory) ∧
    (∀ args r pieces, MonCmd.shlexSplit args = some (r :: pieces) → pieces ≠ [] → rangeL P r = .overflow →
      MonMemGen.do_fill w reply d P fuel args σ =
        .ok () { σ with out := σ.out ++ ["Overflow: $".toList ++ pyFmtX 0 (w.ovfArg r)] }) ∧
    (∀ args r a b pre pdata p post v, MonCmd.shlexSplit args = some (r :: (pre ++ p :: post)) →
      rangeL P r = .ok a b → PiecesOk d P pre pdata → numberL P p = .ok v → v > d.byteMask →
      MonMemGen.do_fill w reply d P fuel args σ =
        .ok () { σ with out := σ.out ++ ["Overflow: $".toList ++ pyFmtX 0 v] }) := by
  obtain ⟨r1, r2, r3⟩ := C16.fill_rejects reply d P σ.memory
  refine ⟨?_, ?_, ?_⟩
  · intro args σ' hend hno
    rw [do_fill_eq w reply d P fuel args σ hwf hP hfuel] at hend
    cases hs : MonCmd.shlexSplit args with
    | none =>
      simp only [hs] at hend
      rw [hend.of_raise]
    | some split =>
      simp only [hs] at hend
      have hrej := r1 split
      cases ho : doFill reply d P split σ.memory with
      | mk o m' =>
        rw [ho] at hend hrej
        cases o with
        | wrote c s e =>
          simp only [fillEnd] at hend
          have := hend.of_ok
          subst this
          exact absurd rfl (hno c s e)
        | indexError =>
          have hm : m' = σ.memory := hrej (fun c s e => by simp)
          simp only [fillEnd] at hend
          rw [hend.of_raise, hm]
        | help =>
          simp only [fillEnd] at hend
          rw [hend.of_ok]
        | syntaxError | key | overflow | other | saved _ _ | lines _ =>
          simp only [fillEnd] at hend
          cases hx : fillExc w d P split with
          | none => rw [hx] at hend; exact absurd hend EndsIn.not_nofuel
          | some x =>
            rw [hx] at hend
            cases x <;> simp only [fillCaught] at hend <;>
              first | rw [hend.of_ok] | rw [hend.of_raise]
  · intro args r pieces hs hne hr
    rw [do_fill_eq w reply d P fuel args σ hwf hP hfuel, hs]
    simp only [r2 r pieces hne hr, fillExc, hr, rresExc, fillEnd, fillCaught]
  · intro args r a b pre pdata p post v hs hr hpre hp hv
    rw [do_fill_eq w reply d P fuel args σ hwf hP hfuel, hs]
    simp only [r3 r a b pre pdata p post v hr hpre hp hv, fillExc, hr, fillerExc_wide w d P pre pdata p post v hpre hp hv,
      fillEnd, fillCaught]

/-- non-vacuity, running the GENERATED `do_fill` (and through it the generated `_fill`): on the 6502
`fill 10000:10003 aa` (address too wide) and `fill 0:3 100` (value too wide) print "Overflow: $…" and
leave the cells alone; `fill 10:13 1 2` writes 1 2 1 2 and reports it; `fill 10` prints the usage;
on the 65Org16 `fill 10000:10003 aa` is a fine range. -/
example :
    observe [0, 1, 2, 3] (MonMemGen.do_fill w0 monReply dev8 P8 100 "10000:10003 aa".toList (σ8 fun _ => 7)) =
      some (["Overflow: $10000".toList], [], [7, 7, 7, 7]) ∧
    observe [0, 1, 2, 3] (MonMemGen.do_fill w0 monReply dev8 P8 100 "0:3 100".toList (σ8 fun _ => 7)) =
      some (["Overflow: $100".toList], [], [7, 7, 7, 7]) ∧
    observe [0xf, 0x10, 0x11, 0x12, 0x13, 0x14] (MonMemGen.do_fill w0 monReply dev8 P8 100 "10:13 1 2".toList (σ8 fun _ => 0)) =
      some (["Wrote +4 bytes from $0010 to $0013".toList], [], [0, 1, 2, 1, 2, 0]) ∧
    (observe [] (MonMemGen.do_fill w0 monReply dev8 P8 100 "10".toList (σ8 fun _ => 0))).map (·.1.length) = some 5 ∧
    observe [0xffff, 0x10000, 0x10003] (MonMemGen.do_fill w0 monReply dev16 P16 100 "10000:10003 aa".toList (σ16 fun _ => 7)) =
      some (["Wrote +4 bytes from $00010000 to $00010003".toList], [], [7, 0xaa, 0xaa]) := by
  decide +kernel

/-- `load_rejects` for the generated `do_load`: (1) too many arguments: "Syntax error: …", decided
before the file is even opened; (2) a start address the parser refuses (too wide, unknown label): its
exception leaves the method; (3) a file that cannot be read: its error line.  In all three the state
-- the memory object in particular -- is otherwise EXACTLY as it was. -/
theorem load_rejects (w : World) (reply : Reply) (d : Dev) (P : Parser) (fuel : Nat) (σ : MemSt) (hBW : 8 ≤ d.BW) :
    (∀ args name rest, MonCmd.shlexSplit args = some (name :: rest) → 2 ≤ rest.length →
      MonMemGen.do_load w reply d P fuel args σ =
        .ok () { σ with out := σ.out ++ ["Syntax error: ".toList ++ args] }) ∧
    (∀ args name t file, MonCmd.shlexSplit args = some [name, t] → loadSource w name = .ok file →
      t ≠ "top".toList → (∀ a, numberL P t ≠ .ok a) →
      MonMemGen.do_load w reply d P fuel args σ = .raise (resExc w t (numberL P t)) σ) ∧
    (∀ args name rest x, MonCmd.shlexSplit args = some (name :: rest) → rest.length ≤ 1 →
      loadSource w name = .error x →
      MonMemGen.do_load w reply d P fuel args σ = .ok () { σ with out := σ.out ++ [loadErrLine x] }) := by
  refine ⟨?_, ?_, ?_⟩
  · intro args name rest hs h2
    rw [do_load_pre_eq w reply d P fuel args σ hBW, hs]
    simp only [h2, if_true]
  · intro args name t file hs hsrc htop hno
    have ht' : ¬ t = ['t', 'o', 'p'] := by
      have : "top".toList = ['t', 'o', 'p'] := by decide
      rw [this] at htop; exact htop
    have h2 : ¬ (2 ≤ ([t] : List Str).length) := by simp
    rw [do_load_pre_eq w reply d P fuel args σ hBW, hs]
    -- (`hno` discharges the side condition of `loadStart`'s catch-all equation)
    simp only [h2, if_false, hsrc, loadStart, ht', List.headD_cons]
  · intro args name rest x hs hrest hsrc
    have h2 : ¬ (2 ≤ rest.length) := by omega
    rw [do_load_pre_eq w reply d P fuel args σ hBW, hs]
    simp only [h2, if_false, hsrc]

/-- non-vacuity, running the GENERATED `do_load`: `load f.bin 10000` on the 6502 leaves with the
parser's OverflowError (no output, cells as they were); `load f.bin 1 2` is a syntax error; `load
nosuch.bin 10` prints the OS error; and the accepting runs: `load f.bin 10` stores the five octets,
`load f.bin top` on the 65Org16 stores the two big-endian words in the last two cells (physical cells
$3FFFE/$3FFFF) and drops the odd fifth octet. -/
example :
    (match MonMemGen.do_load w0 monReply dev8 P8 100 "f.bin 10000".toList (σ8 fun _ => 7) with
     | .raise (.OverflowError _) s => some (s.out, [0x10, 0x11].map s.memory.subject)
     | _ => none) = some ([], [7, 7]) ∧
    observe [0x10] (MonMemGen.do_load w0 monReply dev8 P8 100 "f.bin 1 2".toList (σ8 fun _ => 7)) =
      some (["Syntax error: f.bin 1 2".toList], [], [7]) ∧
    observe [0x10] (MonMemGen.do_load w0 monReply dev8 P8 100 "nosuch.bin 10".toList (σ8 fun _ => 7)) =
      some (["Cannot load file: [2] No such file or directory".toList], [], [7]) ∧
    observe [0x10] (MonMemGen.do_load w0 monReply dev8 P8 100 "http://x/y 10".toList (σ8 fun _ => 7)) =
      some (["Cannot fetch remote file: unreachable".toList], [], [7]) ∧
    observe [0xf, 0x10, 0x11, 0x12, 0x13, 0x14, 0x15] (MonMemGen.do_load w0 monReply dev8 P8 100 "f.bin 10".toList (σ8 fun _ => 0)) =
      some (["Wrote +5 bytes from $0010 to $0014".toList], [], [0, 1, 2, 3, 4, 5, 0]) ∧
    observe [0x3fffd, 0x3fffe, 0x3ffff, 0] (MonMemGen.do_load w0 monReply dev16 P16 100 "f.bin top".toList (σ16 fun _ => 0)) =
      some (["Wrote +2 bytes from $fffffffe to $ffffffff".toList], [], [0, 0x102, 0x304, 0]) := by
  decide +kernel

/-- `save_exact` for the generated `do_save`: `save <name> s e` with tokens spelling `a ≤ b` (any
addresses of the device, also at and above the physical size of the 65Org16) and a file that can be
opened for writing ends normally, has written ONE file -- exactly the values a read of `a, a+1, …, b`
returns, in order, each as `BW/8` octets most significant first -- and printed "Saved +(b+1-a) bytes
to <name>"; the cells themselves are untouched; where no read subscriber sits in the range those
values are the physical cells of the addresses and the memory object is unchanged altogether.  If
`open` fails, "Cannot save file: [errno] strerror" is printed instead and no file appears. -/
theorem save_exact (w : World) (reply : Reply) (d : Dev) (P : Parser) (σ : MemSt) (args name s e : Str) (a b : Int)
    (hsp : MonCmd.shlexSplit args = some [name, s, e])
    (hs : numberL P s = .ok a) (he : numberL P e = .ok b) (hab : a ≤ b) :
    let rd := getMany reply (addrRange a b) σ.memory
    (w.openW name = none →
      MonMemGen.do_save w reply d P args σ =
        .ok () { σ with memory := rd.2, files := σ.files ++ [(name, rd.1.flatMap (octets d))],
                        out := σ.out ++ [savedLine rd.1.length name] }) ∧
    (∀ err, w.openW name = some err →
      MonMemGen.do_save w reply d P args σ =
        .ok () { σ with memory := rd.2, out := σ.out ++ [cannotSave err] }) ∧
    (rd.1.length : Int) = b + 1 - a ∧ rd.2.subject = σ.memory.subject ∧ SameShape σ.memory rd.2 ∧
    (WF σ.memory → NoReadSubs σ.memory a b →
      rd.1 = (addrRange a b).map (fun x => σ.memory.subject (phys σ.memory.physMask x)) ∧ rd.2 = σ.memory) ∧
    (∀ v, octets dev16 v = [v / 256 % 256, v % 256]) ∧ (∀ v, 0 ≤ v → v < 256 → octets dev8 v = [v]) := by
  intro rd
  obtain ⟨s1, s2, s3, s4, s5, s6, s7⟩ := C16.save_exact reply d P σ.memory s e a b hs he hab
  refine ⟨?_, ?_, s2, s3, s4, s5, s6, s7⟩
  · intro ho
    rw [do_save_eq, hsp]
    simp only [s1, saveEnd, ho]
    rfl
  · intro err ho
    rw [do_save_eq, hsp]
    simp only [s1, saveEnd, ho]
    rfl

/-- non-vacuity, running the GENERATED `do_save`: `save out.bin 10 12` on a 6502 memory holding
`k mod 251` writes the file [16, 17, 18]; on the 65Org16 `save out.bin 3fffe 40001` -- across the
physical top -- writes all four cells as eight octets; a directory that does not exist: error line,
no file; `save x 10` is a syntax error. -/
example :
    observe [] (MonMemGen.do_save w0 monReply dev8 P8 "out.bin 10 12".toList (σ8 fun k => k % 251)) =
      some (["Saved +3 bytes to out.bin".toList], [("out.bin".toList, [16, 17, 18])], []) ∧
    observe [] (MonMemGen.do_save w0 monReply dev16 P16 "out.bin 3fffe 40001".toList (σ16 fun k => k % 251)) =
      some (["Saved +4 bytes to out.bin".toList], [("out.bin".toList, [0, 98, 0, 99, 0, 0, 0, 1])], []) ∧
    observe [] (MonMemGen.do_save w0 monReply dev8 P8 "/nodir/x 10 12".toList (σ8 fun k => k % 251)) =
      some (["Cannot save file: [2] No such file or directory".toList], [], []) ∧
    observe [] (MonMemGen.do_save w0 monReply dev8 P8 "x 10".toList (σ8 fun k => k % 251)) =
      some (["Syntax error: x 10".toList], [], []) := by
  decide +kernel

/-- `save_load_roundtrip` for the generated `do_save` and `do_load`: the file that `save <name> s e`
wrote from the memory of `σ`, when it is what `load <name2> t` then reads (`t` spelling the same start
address) into ANY monitor state `σ2` with a memory of the same physical size, puts back exactly the
saved values into the cells of `a … b`, touches no other cell, and reports "Wrote +(b-a+1) bytes from
$a to $b".  Hypotheses as in `C16.save_load_roundtrip`: the range is not longer than the physical
memory and the saved values are bytes of the device; no restriction on where the range lies. -/
theorem save_load_roundtrip (w : World) (reply : Reply) (d : Dev) (P : Parser) (fuel : Nat) (σ σ2 : MemSt)
    (sargs largs name name2 s e t : Str) (a b : Int)
    (hd : d = dev8 ∨ d = dev16) (hwf : P.WF) (hP : P.maxaddr = d.addrMask)
    (hw : WF σ.memory) (hw2 : WF σ2.memory) (hq2 : WQuiet reply σ2.memory)
    (hpm : σ2.memory.physMask = σ.memory.physMask)
    (hss : MonCmd.shlexSplit sargs = some [name, s, e]) (hls : MonCmd.shlexSplit largs = some [name2, t])
    (hs : numberL P s = .ok a) (he : numberL P e = .ok b) (ht : numberL P t = .ok a) (htop : t ≠ "top".toList)
    (hab : a ≤ b) (hwin : b - a ≤ σ.memory.physMask)
    (hvals : ∀ v ∈ (getMany reply (addrRange a b) σ.memory).1, 0 ≤ v ∧ v ≤ d.byteMask)
    (hopen : w.openW name = none) :
    let vals := (getMany reply (addrRange a b) σ.memory).1
    ∃ file m1,
      MonMemGen.do_save w reply d P sargs σ =
        .ok () { σ with memory := m1, files := σ.files ++ [(name, file)], out := σ.out ++ [savedLine vals.length name] } ∧
      (loadSource w name2 = .ok file → file.length < fuel →
        ∃ m', MonMemGen.do_load w reply d P fuel largs σ2 =
            .ok () { σ2 with memory := m', out := σ2.out ++ [wroteLine d (b - a + 1) a b] } ∧
          (∀ i : Nat, a + i ≤ b → m'.subject (phys σ.memory.physMask (a + i)) = vals.getD i 0) ∧
          (∀ k, (∀ i : Nat, a + i ≤ b → phys σ.memory.physMask (a + i) ≠ k) → m'.subject k = σ2.memory.subject k) ∧
          (NoReadSubs σ.memory a b → ∀ i : Nat, a + i ≤ b →
            m'.subject (phys σ.memory.physMask (a + i)) = σ.memory.subject (phys σ.memory.physMask (a + i)))) := by
  intro vals
  obtain ⟨file, hsv, hld⟩ := C16.save_load_roundtrip reply d P σ.memory σ2.memory s e t a b σ2.pc hd hwf hP hw hw2 hq2
    hpm hs he ht htop hab hwin hvals
  have hBW : 8 ≤ d.BW := by rcases hd with rfl | rfl <;> decide
  cases hds : doSave reply d P [s, e] σ.memory with
  | mk o m1 =>
    rw [hds] at hsv
    simp only at hsv
    subst hsv
    refine ⟨file, m1, ?_, ?_⟩
    · rw [do_save_eq, hss]
      simp only [hds, saveEnd, hopen, vals]
    · intro hsrc hlen
      have hfuel : ∀ nm rest file', MonCmd.shlexSplit largs = some (nm :: rest) → loadSource w nm = .ok file' →
          file'.length < fuel := by
        intro nm rest file' h1 h2
        rw [hls] at h1
        injection h1 with h1
        injection h1 with h1 _
        subst h1
        rw [hsrc] at h2
        injection h2 with h2
        rw [← h2]; exact hlen
      have h2 : ¬ (2 ≤ ([t] : List Str).length) := by simp
      obtain ⟨l1, l2, l3, l4⟩ := hld
      cases hdl : doLoad reply d P file [t] σ2.pc σ2.memory with
      | mk o2 m' =>
        rw [hdl] at l1 l2 l3 l4
        simp only at l1 l2 l3 l4
        subst l1
        refine ⟨m', ?_, l2, l3, l4⟩
        rw [do_load_eq w reply d P fuel largs σ2 hBW hfuel, hls]
        simp only [h2, if_false, hsrc, hdl, loadEnd]

/-- non-vacuity, running both GENERATED commands: save $10..$12 of a memory holding `k mod 251` gives
the file [16, 17, 18]; in a world where `f.bin` holds those octets `load f.bin 10` into an all-zero
memory puts the three cells back and leaves the neighbours 0. -/
example :
    let w1 : World := { w0 with openR := fun _ => .ok [16, 17, 18] }
    observe [] (MonMemGen.do_save w1 monReply dev8 P8 "f.bin 10 12".toList (σ8 fun k => k % 251)) =
      some (["Saved +3 bytes to f.bin".toList], [("f.bin".toList, [16, 17, 18])], []) ∧
    observe [0xf, 0x10, 0x11, 0x12, 0x13] (MonMemGen.do_load w1 monReply dev8 P8 100 "f.bin 10".toList (σ8 fun _ => 0)) =
      some (["Wrote +3 bytes from $0010 to $0012".toList], [], [0, 16, 17, 18, 0]) := by
  decide +kernel

/-- `mem_exact` for the generated `do_mem`: for EVERY width setting `self._width ≥ 0`, `mem <r>` with
a token spelling `a ≤ b` ends normally having printed lines that, read back (`int(x, 16)` of the text
before the colon and of every blank-separated word after it), give groups whose bytes, concatenated
in order, are exactly the values a read of `a, a+1, …, b` returns (`b + 1 - a` of them, nothing
dropped or repeated at a line break), every line labelled with the address of its first byte; the
cells are untouched. -/
theorem mem_exact (w : World) (reply : Reply) (d : Dev) (P : Parser) (σ : MemSt) (args r : Str) (a b : Int)
    (hwf : P.WF) (hsp : MonCmd.shlexSplit args = some [r]) (hr : rangeL P r = .ok a b) (hwd : 0 ≤ σ.width)
    (hvals : ∀ v ∈ (getMany reply (addrRange a b) σ.memory).1, 0 ≤ v) :
    let rd := getMany reply (addrRange a b) σ.memory
    ∃ groups : List (Int × List Int),
      MonMemGen.do_mem w reply d P args σ =
        .ok () { σ with memory := rd.2, out := σ.out ++ groups.map fun g => mkLine d g.1 g.2 } ∧
      parseMem (groups.map fun g => mkLine d g.1 g.2) = some groups ∧
      groups.flatMap (·.2) = rd.1 ∧ (rd.1.length : Int) = b + 1 - a ∧
      GroupsFrom a groups ∧ rd.2.subject = σ.memory.subject := by
  intro rd
  obtain ⟨groups, g1, g2, g3, g4, g5, g6⟩ := C16.mem_exact reply d P σ.memory σ.width.toNat r a b hwf hr hvals
  refine ⟨groups, ?_, g2, g3, g4, g5, g6⟩
  rw [do_mem_eq w reply d P args σ hwd, hsp]
  simp only [g1, memEnd]
  rfl

/-- `mem_reads_cells` for the generated `do_mem`: where no read subscriber sits in the range (every
range that avoids the getc register) the values it prints are the physical cells of `a … b`, and the
monitor state -- the memory object with its call log included -- is unchanged but for the output. -/
theorem mem_reads_cells (w : World) (reply : Reply) (d : Dev) (P : Parser) (σ : MemSt) (args r : Str) (a b : Int)
    (hwf : P.WF) (hsp : MonCmd.shlexSplit args = some [r]) (hr : rangeL P r = .ok a b) (hwd : 0 ≤ σ.width)
    (hw : WF σ.memory) (hn : NoReadSubs σ.memory a b)
    (hcells : ∀ x, a ≤ x → x ≤ b → 0 ≤ σ.memory.subject (phys σ.memory.physMask x)) :
    ∃ groups : List (Int × List Int),
      MonMemGen.do_mem w reply d P args σ = .ok () { σ with out := σ.out ++ groups.map fun g => mkLine d g.1 g.2 } ∧
      parseMem (groups.map fun g => mkLine d g.1 g.2) = some groups ∧
      groups.flatMap (·.2) = (addrRange a b).map (fun x => σ.memory.subject (phys σ.memory.physMask x)) ∧
      GroupsFrom a groups := by
  obtain ⟨c1, c2⟩ := C16.mem_reads_cells reply σ.memory a b hw hn
  have hvals : ∀ v ∈ (getMany reply (addrRange a b) σ.memory).1, 0 ≤ v := by
    intro v hv
    rw [c1] at hv
    obtain ⟨x, hx, rfl⟩ := List.mem_map.mp hv
    have := mem_addrRange hx
    exact hcells x this.1 this.2
  obtain ⟨groups, g1, g2, g3, _, g5, _⟩ := mem_exact w reply d P σ args r a b hwf hsp hr hwd hvals
  refine ⟨groups, ?_, g2, by rw [g3, c1], g5⟩
  rw [g1, c2]

/-- non-vacuity, running the GENERATED `do_mem`: the 65Org16 at width 10 prints an address-only first
line and then one word per line; the 6502 at width 10 one byte per line; `mem f003:f005` shows 00 for
the getc register whatever its cell holds; `mem` alone prints the usage. -/
example :
    observe [] (MonMemGen.do_mem w0 monReply dev16 P16 "0:1".toList { σ16 (fun k => k + 256) with width := 10 }) =
      some (["00000000:".toList, "00000000:  0100".toList, "00000001:  0101".toList], [], []) ∧
    observe [] (MonMemGen.do_mem w0 monReply dev8 P8 "0:1".toList { σ8 (fun k => k + 1) with width := 10 }) =
      some (["0000:  01".toList, "0001:  02".toList], [], []) ∧
    observe [] (MonMemGen.do_mem w0 monReply dev8 P8 "f003:f005".toList (σ8 fun _ => 0x55)) =
      some (["f003:  55  00  55".toList], [], []) ∧
    (observe [] (MonMemGen.do_mem w0 monReply dev8 P8 "".toList (σ8 fun _ => 0))).map (·.1.length) = some 3 := by
  decide +kernel

end Py65.Props.C16g
