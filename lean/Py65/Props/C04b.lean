/-
C04 (second file, same namespace) -- the lifting: with the decimal flag set, for EVERY addressing
mode of ADC and SBC and EVERY well-formed machine state, one `step()` of the regenerated model
leaves A and the C, Z, V, N flags exactly as Bruce Clark's NMOS sequences (`Spec.Decimal.adcNmos`
/ `sbcNmos`) prescribe for (A, operand, carry), leaves X, Y, SP, the other flags and every memory
cell unchanged and moves PC to the next instruction (`decExec`).  Combines
  * `opADC_decimal` / `opSBC_decimal` (Proofs/DecimalLift.lean): the decimal branch of the generated
    helper depends only on (A, M, C) - it equals the same helper run on the minimal state of the
    kernel theorems - and touches nothing else;
  * `nmos_adc` / `nmos_sbc` (Props/C04.lean): the kernel on all 2 x 2^17 triples.
The 65C02 runs the same helpers (`cmos_acv` gives A, C, V on valid BCD; N/Z is the known finding).

PROPERTY THEOREMS ONLY.  GENERATED skeleton (harness/gen_c04b.py).
-/
import Py65.Props.C04
import Py65.Proofs.DecimalLift
import Py65.Proofs.Step

namespace Py65.Props.C04
open Py65 Py65.Gen Py65.Spec Py65.Proofs Py65.Proofs.Dec Py65.Spec.Decimal Py

set_option linter.unusedSimpArgs false

theorem pyAdc_eq (a m : Int) (ha : 0 ≤ a ∧ a ≤ 255) (hm : 0 ≤ m ∧ m ≤ 255) (c : Bool) :
    pyAdc a m c = adcNmos a m c := by
  obtain ⟨n, rfl⟩ := Int.eq_ofNat_of_zero_le ha.1
  obtain ⟨k, rfl⟩ := Int.eq_ofNat_of_zero_le hm.1
  exact nmos_adc n k (by omega) (by omega) c
theorem pySbc_eq (a m : Int) (ha : 0 ≤ a ∧ a ≤ 255) (hm : 0 ≤ m ∧ m ≤ 255) (c : Bool) :
    pySbc a m c = sbcNmos a m c := by
  obtain ⟨n, rfl⟩ := Int.eq_ofNat_of_zero_le ha.1
  obtain ⟨k, rfl⟩ := Int.eq_ofNat_of_zero_le hm.1
  exact nmos_sbc n k (by omega) (by omega) c

/-- Decimal ADC through any addressing-mode helper, any state: Clark's result and nothing else. -/
theorem adc_decimal_any_mode (x : St → Int × St) (mo : Mode) (hx : ModeSem dev6502.cfg x mo)
    (s : St) (hs : WF dev6502.cfg s) (hD : flag s.p bitD = true) :
    absH dev6502.cfg (bump (mo.len - 1) (Mpu6502.opADC dev6502.cfg x s)) = decExec adcNmos mo (abs s) := by
  rw [adc_decimal_handler x mo hx s hs hD]
  simp only [decExec]
  have := pyAdc_eq (abs s).a ((abs s).mem (ea 8 mo (abs s))) hs.a (hs.mem _) (flag (abs s).p bitC)
  rw [this]
theorem sbc_decimal_any_mode (x : St → Int × St) (mo : Mode) (hx : ModeSem dev6502.cfg x mo)
    (s : St) (hs : WF dev6502.cfg s) (hD : flag s.p bitD = true) :
    absH dev6502.cfg (bump (mo.len - 1) (Mpu6502.opSBC dev6502.cfg x s)) = decExec sbcNmos mo (abs s) := by
  rw [sbc_decimal_handler x mo hx s hs hD]
  simp only [decExec]
  have := pySbc_eq (abs s).a ((abs s).mem (ea 8 mo (abs s))) hs.a (hs.mem _) (flag (abs s).p bitC)
  rw [this]

/-- The function Clark's sequences define for a mnemonic. -/
def clark (mn : Mn) : Int → Int → Bool → Res := if mn = .SBC then sbcNmos else adcNmos

/-- From a handler fact to `step()` (fetch, PC increment, dispatch, final PC mask). -/
theorem step_dec (t : Tbl) (s : St) (hs : WF dev6502.cfg s) (op : Int) (f : Int → Int → Bool → Res)
    (mo : Mode) (h : St → St) (hop : s.mem s.pc = op) (hinst : t.instruct op = h)
    (hh : ∀ s', WF dev6502.cfg s' → flag s'.p bitD = true →
      absH dev6502.cfg (h s') = decExec f mo (abs s'))
    (hD : flag s.p bitD = true) :
    abs (Mpu6502.step dev6502.cfg t s) = decExec f mo { abs s with pc := (s.pc + 1) % AM 8 } := by
  subst hop
  have hc : IsDev dev6502.cfg := Or.inl rfl
  have h1 := hh (afterFetch dev6502.cfg t s) (afterFetch_WF _ hc t s hs) hD
  rw [afterFetch_abs _ hc] at h1
  have e8 : AM dev6502.cfg.BYTE_WIDTH = AM 8 := rfl
  rw [e8] at h1
  rw [← h1, step_unfold, hinst]
  simp [absH, Py65.Proofs.abs, core, pyarith]

/-- 6502, `step()` level: every ADC/SBC opcode (all 8 + 8 addressing modes), every well-formed state
with D set. -/
theorem decimal_step_6502 (s : St) (hs : WF dev6502.cfg s) (hw : s.waiting = false)
    (mn : Mn) (mo : Mode) (hd : decode .nmos (s.mem s.pc) = some (mn, mo))
    (hmn : mn = .ADC ∨ mn = .SBC) (hD : flag s.p bitD = true) :
    abs (dev6502.step s) = decExec (clark mn) mo { abs s with pc := (s.pc + 1) % AM 8 } := by
  have hc : IsDev dev6502.cfg := Or.inl rfl
  have hstep : dev6502.step s = Mpu6502.step dev6502.cfg dev6502.tbl s := rfl
  rw [hstep]
  have hm := lookup_mem hd
  simp only [nmosTable, List.mem_cons, List.mem_nil_iff, or_false, Prod.mk.injEq] at hm
  generalize hop : s.mem s.pc = op at hm hd
  rcases hm with ⟨rfl, rfl, rfl⟩ | ⟨rfl, rfl, rfl⟩ | ⟨rfl, rfl, rfl⟩ | ⟨rfl, rfl, rfl⟩ | ⟨rfl, rfl, rfl⟩ | ⟨rfl, rfl, rfl⟩ | ⟨rfl, rfl, rfl⟩ | ⟨rfl, rfl, rfl⟩ | ⟨rfl, rfl, rfl⟩ | ⟨rfl, rfl, rfl⟩ | ⟨rfl, rfl, rfl⟩ | ⟨rfl, rfl, rfl⟩ | ⟨rfl, rfl, rfl⟩ | ⟨rfl, rfl, rfl⟩ | ⟨rfl, rfl, rfl⟩ | ⟨rfl, rfl, rfl⟩ | ⟨rfl, rfl, rfl⟩ | ⟨rfl, rfl, rfl⟩ | ⟨rfl, rfl, rfl⟩ | ⟨rfl, rfl, rfl⟩ | ⟨rfl, rfl, rfl⟩ | ⟨rfl, rfl, rfl⟩ | ⟨rfl, rfl, rfl⟩ | ⟨rfl, rfl, rfl⟩ | ⟨rfl, rfl, rfl⟩ | ⟨rfl, rfl, rfl⟩ | ⟨rfl, rfl, rfl⟩ | ⟨rfl, rfl, rfl⟩ | ⟨rfl, rfl, rfl⟩ | ⟨rfl, rfl, rfl⟩ | ⟨rfl, rfl, rfl⟩ | ⟨rfl, rfl, rfl⟩ | ⟨rfl, rfl, rfl⟩ | ⟨rfl, rfl, rfl⟩ | ⟨rfl, rfl, rfl⟩ | ⟨rfl, rfl, rfl⟩ | ⟨rfl, rfl, rfl⟩ | ⟨rfl, rfl, rfl⟩ | ⟨rfl, rfl, rfl⟩ | ⟨rfl, rfl, rfl⟩ | ⟨rfl, rfl, rfl⟩ | ⟨rfl, rfl, rfl⟩ | ⟨rfl, rfl, rfl⟩ | ⟨rfl, rfl, rfl⟩ | ⟨rfl, rfl, rfl⟩ | ⟨rfl, rfl, rfl⟩ | ⟨rfl, rfl, rfl⟩ | ⟨rfl, rfl, rfl⟩ | ⟨rfl, rfl, rfl⟩ | ⟨rfl, rfl, rfl⟩ | ⟨rfl, rfl, rfl⟩ | ⟨rfl, rfl, rfl⟩ | ⟨rfl, rfl, rfl⟩ | ⟨rfl, rfl, rfl⟩ | ⟨rfl, rfl, rfl⟩ | ⟨rfl, rfl, rfl⟩ | ⟨rfl, rfl, rfl⟩ | ⟨rfl, rfl, rfl⟩ | ⟨rfl, rfl, rfl⟩ | ⟨rfl, rfl, rfl⟩ | ⟨rfl, rfl, rfl⟩ | ⟨rfl, rfl, rfl⟩ | ⟨rfl, rfl, rfl⟩ | ⟨rfl, rfl, rfl⟩ | ⟨rfl, rfl, rfl⟩ | ⟨rfl, rfl, rfl⟩ | ⟨rfl, rfl, rfl⟩ | ⟨rfl, rfl, rfl⟩ | ⟨rfl, rfl, rfl⟩ | ⟨rfl, rfl, rfl⟩ | ⟨rfl, rfl, rfl⟩ | ⟨rfl, rfl, rfl⟩ | ⟨rfl, rfl, rfl⟩ | ⟨rfl, rfl, rfl⟩ | ⟨rfl, rfl, rfl⟩ | ⟨rfl, rfl, rfl⟩ | ⟨rfl, rfl, rfl⟩ | ⟨rfl, rfl, rfl⟩ | ⟨rfl, rfl, rfl⟩ | ⟨rfl, rfl, rfl⟩ | ⟨rfl, rfl, rfl⟩ | ⟨rfl, rfl, rfl⟩ | ⟨rfl, rfl, rfl⟩ | ⟨rfl, rfl, rfl⟩ | ⟨rfl, rfl, rfl⟩ | ⟨rfl, rfl, rfl⟩ | ⟨rfl, rfl, rfl⟩ | ⟨rfl, rfl, rfl⟩ | ⟨rfl, rfl, rfl⟩ | ⟨rfl, rfl, rfl⟩ | ⟨rfl, rfl, rfl⟩ | ⟨rfl, rfl, rfl⟩ | ⟨rfl, rfl, rfl⟩ | ⟨rfl, rfl, rfl⟩ | ⟨rfl, rfl, rfl⟩ | ⟨rfl, rfl, rfl⟩ | ⟨rfl, rfl, rfl⟩ | ⟨rfl, rfl, rfl⟩ | ⟨rfl, rfl, rfl⟩ | ⟨rfl, rfl, rfl⟩ | ⟨rfl, rfl, rfl⟩ | ⟨rfl, rfl, rfl⟩ | ⟨rfl, rfl, rfl⟩ | ⟨rfl, rfl, rfl⟩ | ⟨rfl, rfl, rfl⟩ | ⟨rfl, rfl, rfl⟩ | ⟨rfl, rfl, rfl⟩ | ⟨rfl, rfl, rfl⟩ | ⟨rfl, rfl, rfl⟩ | ⟨rfl, rfl, rfl⟩ | ⟨rfl, rfl, rfl⟩ | ⟨rfl, rfl, rfl⟩ | ⟨rfl, rfl, rfl⟩ | ⟨rfl, rfl, rfl⟩ | ⟨rfl, rfl, rfl⟩ | ⟨rfl, rfl, rfl⟩ | ⟨rfl, rfl, rfl⟩ | ⟨rfl, rfl, rfl⟩ | ⟨rfl, rfl, rfl⟩ | ⟨rfl, rfl, rfl⟩ | ⟨rfl, rfl, rfl⟩ | ⟨rfl, rfl, rfl⟩ | ⟨rfl, rfl, rfl⟩ | ⟨rfl, rfl, rfl⟩ | ⟨rfl, rfl, rfl⟩ | ⟨rfl, rfl, rfl⟩ | ⟨rfl, rfl, rfl⟩ | ⟨rfl, rfl, rfl⟩ | ⟨rfl, rfl, rfl⟩ | ⟨rfl, rfl, rfl⟩ | ⟨rfl, rfl, rfl⟩ | ⟨rfl, rfl, rfl⟩ | ⟨rfl, rfl, rfl⟩ | ⟨rfl, rfl, rfl⟩ | ⟨rfl, rfl, rfl⟩ | ⟨rfl, rfl, rfl⟩ | ⟨rfl, rfl, rfl⟩ | ⟨rfl, rfl, rfl⟩ | ⟨rfl, rfl, rfl⟩ | ⟨rfl, rfl, rfl⟩ | ⟨rfl, rfl, rfl⟩ | ⟨rfl, rfl, rfl⟩ | ⟨rfl, rfl, rfl⟩ | ⟨rfl, rfl, rfl⟩ | ⟨rfl, rfl, rfl⟩ | ⟨rfl, rfl, rfl⟩ | ⟨rfl, rfl, rfl⟩ | ⟨rfl, rfl, rfl⟩ | ⟨rfl, rfl, rfl⟩ | ⟨rfl, rfl, rfl⟩ | ⟨rfl, rfl, rfl⟩
  · simp at hmn
  · simp at hmn
  · simp at hmn
  · simp at hmn
  · simp at hmn
  · simp at hmn
  · simp at hmn
  · simp at hmn
  · simp at hmn
  · simp at hmn
  · simp at hmn
  · simp at hmn
  · simp at hmn
  · simp at hmn
  · simp at hmn
  · simp at hmn
  · simp at hmn
  · simp at hmn
  · simp at hmn
  · simp at hmn
  · simp at hmn
  · simp at hmn
  · simp at hmn
  · simp at hmn
  · simp at hmn
  · simp at hmn
  · simp at hmn
  · simp at hmn
  · simp at hmn
  · simp at hmn
  · simp at hmn
  · simp at hmn
  · simp at hmn
  · simp at hmn
  · simp at hmn
  · simp at hmn
  · simp at hmn
  · simp at hmn
  · simp at hmn
  · simp at hmn
  · simp at hmn
  · simp at hmn
  · simp at hmn
  · simp at hmn
  · simp at hmn
  · simp at hmn
  · simp at hmn
  · simp at hmn
  · simp at hmn
  · simp at hmn
  · simp at hmn
  · simp at hmn
  · simp at hmn
  · simp at hmn
  · simp at hmn
  · exact step_dec _ s hs _ _ _ _ hop dev6502.instruct_61 (fun s' hs' hD' => adc_decimal_any_mode _ .inx (IndirectXAddr_sem _ hc) s' hs' hD') hD
  · exact step_dec _ s hs _ _ _ _ hop dev6502.instruct_65 (fun s' hs' hD' => adc_decimal_any_mode _ .zpg (ZeroPageAddr_sem _) s' hs' hD') hD
  · simp at hmn
  · simp at hmn
  · exact step_dec _ s hs _ _ _ _ hop dev6502.instruct_69 (fun s' hs' hD' => adc_decimal_any_mode _ .imm (ProgramCounter_sem _) s' hs' hD') hD
  · simp at hmn
  · simp at hmn
  · exact step_dec _ s hs _ _ _ _ hop dev6502.instruct_6d (fun s' hs' hD' => adc_decimal_any_mode _ .abs (AbsoluteAddr_sem _ hc) s' hs' hD') hD
  · simp at hmn
  · simp at hmn
  · exact step_dec _ s hs _ _ _ _ hop dev6502.instruct_71 (fun s' hs' hD' => adc_decimal_any_mode _ .iny (IndirectYAddr_sem _ hc) s' hs' hD') hD
  · exact step_dec _ s hs _ _ _ _ hop dev6502.instruct_75 (fun s' hs' hD' => adc_decimal_any_mode _ .zpx (ZeroPageXAddr_sem _ hc) s' hs' hD') hD
  · simp at hmn
  · simp at hmn
  · exact step_dec _ s hs _ _ _ _ hop dev6502.instruct_79 (fun s' hs' hD' => adc_decimal_any_mode _ .aby (AbsoluteYAddr_sem _ hc) s' hs' hD') hD
  · exact step_dec _ s hs _ _ _ _ hop dev6502.instruct_7d (fun s' hs' hD' => adc_decimal_any_mode _ .abx (AbsoluteXAddr_sem _ hc) s' hs' hD') hD
  · simp at hmn
  · simp at hmn
  · simp at hmn
  · simp at hmn
  · simp at hmn
  · simp at hmn
  · simp at hmn
  · simp at hmn
  · simp at hmn
  · simp at hmn
  · simp at hmn
  · simp at hmn
  · simp at hmn
  · simp at hmn
  · simp at hmn
  · simp at hmn
  · simp at hmn
  · simp at hmn
  · simp at hmn
  · simp at hmn
  · simp at hmn
  · simp at hmn
  · simp at hmn
  · simp at hmn
  · simp at hmn
  · simp at hmn
  · simp at hmn
  · simp at hmn
  · simp at hmn
  · simp at hmn
  · simp at hmn
  · simp at hmn
  · simp at hmn
  · simp at hmn
  · simp at hmn
  · simp at hmn
  · simp at hmn
  · simp at hmn
  · simp at hmn
  · simp at hmn
  · simp at hmn
  · simp at hmn
  · simp at hmn
  · simp at hmn
  · simp at hmn
  · simp at hmn
  · simp at hmn
  · simp at hmn
  · simp at hmn
  · simp at hmn
  · simp at hmn
  · simp at hmn
  · simp at hmn
  · simp at hmn
  · simp at hmn
  · simp at hmn
  · simp at hmn
  · simp at hmn
  · simp at hmn
  · simp at hmn
  · simp at hmn
  · simp at hmn
  · exact step_dec _ s hs _ _ _ _ hop dev6502.instruct_e1 (fun s' hs' hD' => sbc_decimal_any_mode _ .inx (IndirectXAddr_sem _ hc) s' hs' hD') hD
  · simp at hmn
  · exact step_dec _ s hs _ _ _ _ hop dev6502.instruct_e5 (fun s' hs' hD' => sbc_decimal_any_mode _ .zpg (ZeroPageAddr_sem _) s' hs' hD') hD
  · simp at hmn
  · simp at hmn
  · exact step_dec _ s hs _ _ _ _ hop dev6502.instruct_e9 (fun s' hs' hD' => sbc_decimal_any_mode _ .imm (ProgramCounter_sem _) s' hs' hD') hD
  · simp at hmn
  · simp at hmn
  · exact step_dec _ s hs _ _ _ _ hop dev6502.instruct_ed (fun s' hs' hD' => sbc_decimal_any_mode _ .abs (AbsoluteAddr_sem _ hc) s' hs' hD') hD
  · simp at hmn
  · simp at hmn
  · exact step_dec _ s hs _ _ _ _ hop dev6502.instruct_f1 (fun s' hs' hD' => sbc_decimal_any_mode _ .iny (IndirectYAddr_sem _ hc) s' hs' hD') hD
  · exact step_dec _ s hs _ _ _ _ hop dev6502.instruct_f5 (fun s' hs' hD' => sbc_decimal_any_mode _ .zpx (ZeroPageXAddr_sem _ hc) s' hs' hD') hD
  · simp at hmn
  · simp at hmn
  · exact step_dec _ s hs _ _ _ _ hop dev6502.instruct_f9 (fun s' hs' hD' => sbc_decimal_any_mode _ .aby (AbsoluteYAddr_sem _ hc) s' hs' hD') hD
  · exact step_dec _ s hs _ _ _ _ hop dev6502.instruct_fd (fun s' hs' hD' => sbc_decimal_any_mode _ .abx (AbsoluteXAddr_sem _ hc) s' hs' hD') hD
  · simp at hmn

/-- 65C02, `step()` level: the device runs the same helpers, so the same statement holds with the
NMOS sequences (A, C, V then agree with the 65C02 sequences on valid BCD by `cmos_acv`; N and Z
follow the NMOS rule - the recorded known finding). -/
theorem decimal_step_65c02 (s : St) (hs : WF dev65c02.cfg s) (hw : s.waiting = false)
    (mn : Mn) (mo : Mode) (hd : decode .cmos (s.mem s.pc) = some (mn, mo))
    (hmn : mn = .ADC ∨ mn = .SBC) (hD : flag s.p bitD = true) :
    abs (dev65c02.step s) = decExec (clark mn) mo { abs s with pc := (s.pc + 1) % AM 8 } := by
  have hc : IsDev dev6502.cfg := Or.inl rfl
  have hstep : dev65c02.step s = Mpu6502.step dev6502.cfg dev65c02.tbl s := by
    simp only [dev65c02.step, Mpu65c02.step, hw]; rfl
  rw [hstep]
  generalize hop : s.mem s.pc = op at hd
  simp only [decode] at hd
  split at hd
  · rename_i r hr
    obtain ⟨mn', mo'⟩ := r
    simp only [Option.some.injEq, Prod.mk.injEq] at hd
    obtain ⟨rfl, rfl⟩ := hd
    have hm := lookup_mem hr
    simp only [cmosExtTable, List.mem_cons, List.mem_nil_iff, or_false, Prod.mk.injEq] at hm
    rcases hm with ⟨rfl, rfl, rfl⟩ | ⟨rfl, rfl, rfl⟩ | ⟨rfl, rfl, rfl⟩ | ⟨rfl, rfl, rfl⟩ | ⟨rfl, rfl, rfl⟩ | ⟨rfl, rfl, rfl⟩ | ⟨rfl, rfl, rfl⟩ | ⟨rfl, rfl, rfl⟩ | ⟨rfl, rfl, rfl⟩ | ⟨rfl, rfl, rfl⟩ | ⟨rfl, rfl, rfl⟩ | ⟨rfl, rfl, rfl⟩ | ⟨rfl, rfl, rfl⟩ | ⟨rfl, rfl, rfl⟩ | ⟨rfl, rfl, rfl⟩ | ⟨rfl, rfl, rfl⟩ | ⟨rfl, rfl, rfl⟩ | ⟨rfl, rfl, rfl⟩ | ⟨rfl, rfl, rfl⟩ | ⟨rfl, rfl, rfl⟩ | ⟨rfl, rfl, rfl⟩ | ⟨rfl, rfl, rfl⟩ | ⟨rfl, rfl, rfl⟩ | ⟨rfl, rfl, rfl⟩ | ⟨rfl, rfl, rfl⟩ | ⟨rfl, rfl, rfl⟩ | ⟨rfl, rfl, rfl⟩ | ⟨rfl, rfl, rfl⟩ | ⟨rfl, rfl, rfl⟩ | ⟨rfl, rfl, rfl⟩ | ⟨rfl, rfl, rfl⟩ | ⟨rfl, rfl, rfl⟩ | ⟨rfl, rfl, rfl⟩ | ⟨rfl, rfl, rfl⟩ | ⟨rfl, rfl, rfl⟩ | ⟨rfl, rfl, rfl⟩ | ⟨rfl, rfl, rfl⟩ | ⟨rfl, rfl, rfl⟩ | ⟨rfl, rfl, rfl⟩ | ⟨rfl, rfl, rfl⟩ | ⟨rfl, rfl, rfl⟩ | ⟨rfl, rfl, rfl⟩ | ⟨rfl, rfl, rfl⟩ | ⟨rfl, rfl, rfl⟩
    · simp at hmn
    · simp at hmn
    · simp at hmn
    · simp at hmn
    · simp at hmn
    · simp at hmn
    · simp at hmn
    · simp at hmn
    · simp at hmn
    · simp at hmn
    · simp at hmn
    · simp at hmn
    · simp at hmn
    · simp at hmn
    · simp at hmn
    · simp at hmn
    · simp at hmn
    · simp at hmn
    · simp at hmn
    · simp at hmn
    · exact step_dec _ s hs _ _ _ _ hop dev65c02.instruct_72 (fun s' hs' hD' => adc_decimal_any_mode _ .zpi (ZeroPageIndirectAddr_sem _ rfl) s' hs' hD') hD
    · simp at hmn
    · simp at hmn
    · simp at hmn
    · simp at hmn
    · simp at hmn
    · simp at hmn
    · simp at hmn
    · simp at hmn
    · simp at hmn
    · simp at hmn
    · simp at hmn
    · simp at hmn
    · simp at hmn
    · simp at hmn
    · simp at hmn
    · simp at hmn
    · simp at hmn
    · simp at hmn
    · simp at hmn
    · simp at hmn
    · exact step_dec _ s hs _ _ _ _ hop dev65c02.instruct_f2 (fun s' hs' hD' => sbc_decimal_any_mode _ .zpi (ZeroPageIndirectAddr_sem _ rfl) s' hs' hD') hD
    · simp at hmn
    · simp at hmn
  · rename_i hnone
    have hm := lookup_mem hd
    simp only [nmosTable, List.mem_cons, List.mem_nil_iff, or_false, Prod.mk.injEq] at hm
    rcases hm with ⟨rfl, rfl, rfl⟩ | ⟨rfl, rfl, rfl⟩ | ⟨rfl, rfl, rfl⟩ | ⟨rfl, rfl, rfl⟩ | ⟨rfl, rfl, rfl⟩ | ⟨rfl, rfl, rfl⟩ | ⟨rfl, rfl, rfl⟩ | ⟨rfl, rfl, rfl⟩ | ⟨rfl, rfl, rfl⟩ | ⟨rfl, rfl, rfl⟩ | ⟨rfl, rfl, rfl⟩ | ⟨rfl, rfl, rfl⟩ | ⟨rfl, rfl, rfl⟩ | ⟨rfl, rfl, rfl⟩ | ⟨rfl, rfl, rfl⟩ | ⟨rfl, rfl, rfl⟩ | ⟨rfl, rfl, rfl⟩ | ⟨rfl, rfl, rfl⟩ | ⟨rfl, rfl, rfl⟩ | ⟨rfl, rfl, rfl⟩ | ⟨rfl, rfl, rfl⟩ | ⟨rfl, rfl, rfl⟩ | ⟨rfl, rfl, rfl⟩ | ⟨rfl, rfl, rfl⟩ | ⟨rfl, rfl, rfl⟩ | ⟨rfl, rfl, rfl⟩ | ⟨rfl, rfl, rfl⟩ | ⟨rfl, rfl, rfl⟩ | ⟨rfl, rfl, rfl⟩ | ⟨rfl, rfl, rfl⟩ | ⟨rfl, rfl, rfl⟩ | ⟨rfl, rfl, rfl⟩ | ⟨rfl, rfl, rfl⟩ | ⟨rfl, rfl, rfl⟩ | ⟨rfl, rfl, rfl⟩ | ⟨rfl, rfl, rfl⟩ | ⟨rfl, rfl, rfl⟩ | ⟨rfl, rfl, rfl⟩ | ⟨rfl, rfl, rfl⟩ | ⟨rfl, rfl, rfl⟩ | ⟨rfl, rfl, rfl⟩ | ⟨rfl, rfl, rfl⟩ | ⟨rfl, rfl, rfl⟩ | ⟨rfl, rfl, rfl⟩ | ⟨rfl, rfl, rfl⟩ | ⟨rfl, rfl, rfl⟩ | ⟨rfl, rfl, rfl⟩ | ⟨rfl, rfl, rfl⟩ | ⟨rfl, rfl, rfl⟩ | ⟨rfl, rfl, rfl⟩ | ⟨rfl, rfl, rfl⟩ | ⟨rfl, rfl, rfl⟩ | ⟨rfl, rfl, rfl⟩ | ⟨rfl, rfl, rfl⟩ | ⟨rfl, rfl, rfl⟩ | ⟨rfl, rfl, rfl⟩ | ⟨rfl, rfl, rfl⟩ | ⟨rfl, rfl, rfl⟩ | ⟨rfl, rfl, rfl⟩ | ⟨rfl, rfl, rfl⟩ | ⟨rfl, rfl, rfl⟩ | ⟨rfl, rfl, rfl⟩ | ⟨rfl, rfl, rfl⟩ | ⟨rfl, rfl, rfl⟩ | ⟨rfl, rfl, rfl⟩ | ⟨rfl, rfl, rfl⟩ | ⟨rfl, rfl, rfl⟩ | ⟨rfl, rfl, rfl⟩ | ⟨rfl, rfl, rfl⟩ | ⟨rfl, rfl, rfl⟩ | ⟨rfl, rfl, rfl⟩ | ⟨rfl, rfl, rfl⟩ | ⟨rfl, rfl, rfl⟩ | ⟨rfl, rfl, rfl⟩ | ⟨rfl, rfl, rfl⟩ | ⟨rfl, rfl, rfl⟩ | ⟨rfl, rfl, rfl⟩ | ⟨rfl, rfl, rfl⟩ | ⟨rfl, rfl, rfl⟩ | ⟨rfl, rfl, rfl⟩ | ⟨rfl, rfl, rfl⟩ | ⟨rfl, rfl, rfl⟩ | ⟨rfl, rfl, rfl⟩ | ⟨rfl, rfl, rfl⟩ | ⟨rfl, rfl, rfl⟩ | ⟨rfl, rfl, rfl⟩ | ⟨rfl, rfl, rfl⟩ | ⟨rfl, rfl, rfl⟩ | ⟨rfl, rfl, rfl⟩ | ⟨rfl, rfl, rfl⟩ | ⟨rfl, rfl, rfl⟩ | ⟨rfl, rfl, rfl⟩ | ⟨rfl, rfl, rfl⟩ | ⟨rfl, rfl, rfl⟩ | ⟨rfl, rfl, rfl⟩ | ⟨rfl, rfl, rfl⟩ | ⟨rfl, rfl, rfl⟩ | ⟨rfl, rfl, rfl⟩ | ⟨rfl, rfl, rfl⟩ | ⟨rfl, rfl, rfl⟩ | ⟨rfl, rfl, rfl⟩ | ⟨rfl, rfl, rfl⟩ | ⟨rfl, rfl, rfl⟩ | ⟨rfl, rfl, rfl⟩ | ⟨rfl, rfl, rfl⟩ | ⟨rfl, rfl, rfl⟩ | ⟨rfl, rfl, rfl⟩ | ⟨rfl, rfl, rfl⟩ | ⟨rfl, rfl, rfl⟩ | ⟨rfl, rfl, rfl⟩ | ⟨rfl, rfl, rfl⟩ | ⟨rfl, rfl, rfl⟩ | ⟨rfl, rfl, rfl⟩ | ⟨rfl, rfl, rfl⟩ | ⟨rfl, rfl, rfl⟩ | ⟨rfl, rfl, rfl⟩ | ⟨rfl, rfl, rfl⟩ | ⟨rfl, rfl, rfl⟩ | ⟨rfl, rfl, rfl⟩ | ⟨rfl, rfl, rfl⟩ | ⟨rfl, rfl, rfl⟩ | ⟨rfl, rfl, rfl⟩ | ⟨rfl, rfl, rfl⟩ | ⟨rfl, rfl, rfl⟩ | ⟨rfl, rfl, rfl⟩ | ⟨rfl, rfl, rfl⟩ | ⟨rfl, rfl, rfl⟩ | ⟨rfl, rfl, rfl⟩ | ⟨rfl, rfl, rfl⟩ | ⟨rfl, rfl, rfl⟩ | ⟨rfl, rfl, rfl⟩ | ⟨rfl, rfl, rfl⟩ | ⟨rfl, rfl, rfl⟩ | ⟨rfl, rfl, rfl⟩ | ⟨rfl, rfl, rfl⟩ | ⟨rfl, rfl, rfl⟩ | ⟨rfl, rfl, rfl⟩ | ⟨rfl, rfl, rfl⟩ | ⟨rfl, rfl, rfl⟩ | ⟨rfl, rfl, rfl⟩ | ⟨rfl, rfl, rfl⟩ | ⟨rfl, rfl, rfl⟩ | ⟨rfl, rfl, rfl⟩ | ⟨rfl, rfl, rfl⟩ | ⟨rfl, rfl, rfl⟩ | ⟨rfl, rfl, rfl⟩ | ⟨rfl, rfl, rfl⟩ | ⟨rfl, rfl, rfl⟩ | ⟨rfl, rfl, rfl⟩ | ⟨rfl, rfl, rfl⟩ | ⟨rfl, rfl, rfl⟩
    · simp at hmn
    · simp at hmn
    · simp at hmn
    · simp at hmn
    · simp at hmn
    · simp at hmn
    · simp at hmn
    · simp at hmn
    · simp at hmn
    · simp at hmn
    · simp at hmn
    · simp at hmn
    · simp at hmn
    · simp at hmn
    · simp at hmn
    · simp at hmn
    · simp at hmn
    · simp at hmn
    · simp at hmn
    · simp at hmn
    · simp at hmn
    · simp at hmn
    · simp at hmn
    · simp at hmn
    · simp at hmn
    · simp at hmn
    · simp at hmn
    · simp at hmn
    · simp at hmn
    · simp at hmn
    · simp at hmn
    · simp at hmn
    · simp at hmn
    · simp at hmn
    · simp at hmn
    · simp at hmn
    · simp at hmn
    · simp at hmn
    · simp at hmn
    · simp at hmn
    · simp at hmn
    · simp at hmn
    · simp at hmn
    · simp at hmn
    · simp at hmn
    · simp at hmn
    · simp at hmn
    · simp at hmn
    · simp at hmn
    · simp at hmn
    · simp at hmn
    · simp at hmn
    · simp at hmn
    · simp at hmn
    · simp at hmn
    · exact step_dec _ s hs _ _ _ _ hop dev65c02.instruct_61 (fun s' hs' hD' => adc_decimal_any_mode _ .inx (IndirectXAddr_sem _ hc) s' hs' hD') hD
    · exact step_dec _ s hs _ _ _ _ hop dev65c02.instruct_65 (fun s' hs' hD' => adc_decimal_any_mode _ .zpg (ZeroPageAddr_sem _) s' hs' hD') hD
    · simp at hmn
    · simp at hmn
    · exact step_dec _ s hs _ _ _ _ hop dev65c02.instruct_69 (fun s' hs' hD' => adc_decimal_any_mode _ .imm (ProgramCounter_sem _) s' hs' hD') hD
    · simp at hmn
    · simp at hmn
    · exact step_dec _ s hs _ _ _ _ hop dev65c02.instruct_6d (fun s' hs' hD' => adc_decimal_any_mode _ .abs (AbsoluteAddr_sem _ hc) s' hs' hD') hD
    · simp at hmn
    · simp at hmn
    · exact step_dec _ s hs _ _ _ _ hop dev65c02.instruct_71 (fun s' hs' hD' => adc_decimal_any_mode _ .iny (IndirectYAddr_sem _ hc) s' hs' hD') hD
    · exact step_dec _ s hs _ _ _ _ hop dev65c02.instruct_75 (fun s' hs' hD' => adc_decimal_any_mode _ .zpx (ZeroPageXAddr_sem _ hc) s' hs' hD') hD
    · simp at hmn
    · simp at hmn
    · exact step_dec _ s hs _ _ _ _ hop dev65c02.instruct_79 (fun s' hs' hD' => adc_decimal_any_mode _ .aby (AbsoluteYAddr_sem _ hc) s' hs' hD') hD
    · exact step_dec _ s hs _ _ _ _ hop dev65c02.instruct_7d (fun s' hs' hD' => adc_decimal_any_mode _ .abx (AbsoluteXAddr_sem _ hc) s' hs' hD') hD
    · simp at hmn
    · simp at hmn
    · simp at hmn
    · simp at hmn
    · simp at hmn
    · simp at hmn
    · simp at hmn
    · simp at hmn
    · simp at hmn
    · simp at hmn
    · simp at hmn
    · simp at hmn
    · simp at hmn
    · simp at hmn
    · simp at hmn
    · simp at hmn
    · simp at hmn
    · simp at hmn
    · simp at hmn
    · simp at hmn
    · simp at hmn
    · simp at hmn
    · simp at hmn
    · simp at hmn
    · simp at hmn
    · simp at hmn
    · simp at hmn
    · simp at hmn
    · simp at hmn
    · simp at hmn
    · simp at hmn
    · simp at hmn
    · simp at hmn
    · simp at hmn
    · simp at hmn
    · simp at hmn
    · simp at hmn
    · simp at hmn
    · simp at hmn
    · simp at hmn
    · simp at hmn
    · simp at hmn
    · simp at hmn
    · simp at hmn
    · simp at hmn
    · simp at hmn
    · simp at hmn
    · simp at hmn
    · simp at hmn
    · simp at hmn
    · simp at hmn
    · simp at hmn
    · simp at hmn
    · simp at hmn
    · simp at hmn
    · simp at hmn
    · simp at hmn
    · simp at hmn
    · simp at hmn
    · simp at hmn
    · simp at hmn
    · simp at hmn
    · exact step_dec _ s hs _ _ _ _ hop dev65c02.instruct_e1 (fun s' hs' hD' => sbc_decimal_any_mode _ .inx (IndirectXAddr_sem _ hc) s' hs' hD') hD
    · simp at hmn
    · exact step_dec _ s hs _ _ _ _ hop dev65c02.instruct_e5 (fun s' hs' hD' => sbc_decimal_any_mode _ .zpg (ZeroPageAddr_sem _) s' hs' hD') hD
    · simp at hmn
    · simp at hmn
    · exact step_dec _ s hs _ _ _ _ hop dev65c02.instruct_e9 (fun s' hs' hD' => sbc_decimal_any_mode _ .imm (ProgramCounter_sem _) s' hs' hD') hD
    · simp at hmn
    · simp at hmn
    · exact step_dec _ s hs _ _ _ _ hop dev65c02.instruct_ed (fun s' hs' hD' => sbc_decimal_any_mode _ .abs (AbsoluteAddr_sem _ hc) s' hs' hD') hD
    · simp at hmn
    · simp at hmn
    · exact step_dec _ s hs _ _ _ _ hop dev65c02.instruct_f1 (fun s' hs' hD' => sbc_decimal_any_mode _ .iny (IndirectYAddr_sem _ hc) s' hs' hD') hD
    · exact step_dec _ s hs _ _ _ _ hop dev65c02.instruct_f5 (fun s' hs' hD' => sbc_decimal_any_mode _ .zpx (ZeroPageXAddr_sem _ hc) s' hs' hD') hD
    · simp at hmn
    · simp at hmn
    · exact step_dec _ s hs _ _ _ _ hop dev65c02.instruct_f9 (fun s' hs' hD' => sbc_decimal_any_mode _ .aby (AbsoluteYAddr_sem _ hc) s' hs' hD') hD
    · exact step_dec _ s hs _ _ _ _ hop dev65c02.instruct_fd (fun s' hs' hD' => sbc_decimal_any_mode _ .abx (AbsoluteXAddr_sem _ hc) s' hs' hD') hD
    · simp at hmn

/-- Non-vacuity: ADC #$46 with A=$58, C=1, D=1 on the 6502 gives A=$05, C=1 (58 + 46 + 1 = 105). -/
example : ∃ s : St, WF dev6502.cfg s ∧ s.waiting = false ∧ decode .nmos (s.mem s.pc) = some (.ADC, .imm) ∧
    flag s.p bitD = true ∧ (adcNmos 0x58 0x46 true).a = 0x05 ∧ (adcNmos 0x58 0x46 true).c = true := by
  refine ⟨{ (default : St) with a := 0x58, p := 0x39, mem := fun k => if k = 0 then 0x69 else 0x46 }, ?_, rfl,
    by decide, by decide, by decide +kernel, by decide +kernel⟩
  refine ⟨by decide, by decide, by decide, by decide, by decide, by decide, ?_⟩
  intro k; dsimp only; split <;> decide

end Py65.Props.C04
