/-
C19 -- Displayed state is the true state: the number-formatting part.

`parse_r (fmt_r w n) = n` for r ∈ {2, 8, 10, 16}, every `n` and every pad width (digit-list
induction), on the models of `Py65.Model.PyStr`:
  `fmtHex w n` = `"%0<w>x" % n`      `fmtOct w n` = `"%0<w>o" % n`  (`fmtOct4` = `"%04o"`)
  `fmtDec n`   = `"%u" % n`          `fmtBin n`   = `"{0:b}".format(n)` = `itoa(n, 2)`
  `zfill s w`  = `s.zfill(w)`        `rjust s w c` = `s.rjust(w, c)`      `pyInt s b` = `int(s, b)`
and `tilde_consistent`: the four lines the monitor's `~` command prints for `n`
("+%u", "$" + byteFmt % n, "%04o", itoa(n,2).zfill(8)) all parse back to the same `n`.

Base 10 carries `n < 10^4300`: beyond that CPython's `"%u" % n` itself raises (digit limit), so
there is no text to read back.  (The other theorems of C19 -- register line, `mem`, disassembly --
build on these and are added by the C19 check.)
-/
import Py65.Proofs.NumLemmas

namespace Py65.Props.C19
open Py65.Model.PyStr Py65.Model.AddrParser Py65.Proofs.Num

/-- `int("%0<w>x" % n, 16) = n` -/
theorem fmt_roundtrip_hex (w n : Nat) : pyInt (fmtHex w n) 16 = some (n : Int) := by
  simp only [pyInt, fmtHex, fmtHexL, String.toList_ofList, rjustL_toDigits]
  exact pyIntL_spelling (by decide) (by decide) _ _ _ (Or.inl rfl)

example : fmtHex 4 0xbeef = "beef" ∧ fmtHex 4 10 = "000a" ∧ fmtHex 2 0x1234 = "1234" := by
  simp [fmtHex, fmtHexL, rjustL, toDigits, digitChar]

/-- `int("%0<w>o" % n, 8) = n` (`"%04o"` is `w = 4`) -/
theorem fmt_roundtrip_oct (w n : Nat) : pyInt (fmtOct w n) 8 = some (n : Int) := by
  simp only [pyInt, fmtOct, fmtOctL, String.toList_ofList, rjustL_toDigits]
  exact pyIntL_spelling (by decide) (by decide) _ _ _ (Or.inl rfl)

example : fmtOct4 8 = "0010" ∧ fmtOct4 65535 = "177777" := by
  simp [fmtOct4, fmtOct, fmtOctL, rjustL, toDigits, digitChar]

/-- `int("{0:b}".format(n).zfill(w), 2) = n` and the same with `rjust(w, '0')` -/
theorem fmt_roundtrip_bin (w n : Nat) :
    pyInt (zfill (fmtBin n) w) 2 = some (n : Int) ∧ pyInt (rjust (fmtBin n) w '0') 2 = some (n : Int) := by
  constructor
  · simp only [pyInt, zfill, fmtBin, fmtBinL, String.toList_ofList,
      zfillL_toDigits (b := 2) (by decide) (by decide)]
    exact pyIntL_spelling (by decide) (by decide) _ _ _ (Or.inl rfl)
  · simp only [pyInt, rjust, fmtBin, fmtBinL, String.toList_ofList, rjustL_toDigits]
    exact pyIntL_spelling (by decide) (by decide) _ _ _ (Or.inl rfl)

example : zfill (fmtBin 5) 8 = "00000101" ∧ zfill (fmtBin 256) 8 = "100000000" := by
  simp [zfill, fmtBin, fmtBinL, zfillL, toDigits, digitChar]

/-- `int("%u" % n, 10) = n`, for every `n` CPython can print in decimal at all. -/
theorem fmt_roundtrip_dec (n : Nat) (hn : n < 10 ^ 4300) : pyInt (fmtDec n) 10 = some (n : Int) := by
  have hlen := toDigits_length_le (b := 10) (by decide) 4299 n hn
  have hsp : toDigits 10 n = spelling 10 0 [] n := by simp [spelling, mixCase_nil]
  simp only [pyInt, fmtDec, fmtDecL, String.toList_ofList]
  rw [hsp]
  exact pyIntL_spelling (by decide) (by decide) 0 [] n (Or.inr (by simpa [maxStrDigits] using hlen))

example : fmtDec 65535 = "65535" ∧ fmtDec 0 = "0" := by
  simp [fmtDec, fmtDecL, toDigits, digitChar]

/-- Every address (any width up to 14 000 bits) is below the decimal printing limit. -/
theorem addr_below_dec_limit (n w : Nat) (hw : w ≤ 14000) (hn : n < 2 ^ w) : n < 10 ^ 4300 := by
  have h1 : 2 ^ w ≤ 2 ^ 14000 := Nat.pow_le_pow_right (by decide) hw
  have h2 : (2 : Nat) ^ 14000 ≤ 16 ^ 3500 := by
    have : (16 : Nat) ^ 3500 = (2 ^ 4) ^ 3500 := rfl
    rw [this, ← Nat.pow_mul]
    exact Nat.le_refl _
  have h3 : (16 : Nat) ^ 3500 ≤ 10 ^ 4300 := by
    have a : (16 : Nat) ^ 3500 = (16 ^ 35) ^ 100 := by rw [← Nat.pow_mul]
    have b : (10 : Nat) ^ 4300 = (10 ^ 43) ^ 100 := by rw [← Nat.pow_mul]
    rw [a, b]
    exact Nat.pow_le_pow_left (by decide) 100
  omega

/-- Fixed columns: a value below `16^w` (`w ≥ 1`) is printed by `"%0<w>x"` with exactly `w`
characters (what the register line and `mem` rely on when they are read back by column). -/
theorem fmt_hex_width (w n : Nat) (hn : n < 16 ^ (w + 1)) : (fmtHex (w + 1) n).toList.length = w + 1 := by
  simp only [fmtHex, fmtHexL, String.toList_ofList]
  exact rjustL_toDigits_length (by decide) w n hn

example : (fmtHex 4 0xab).toList.length = 4 := fmt_hex_width 3 0xab (by decide)

/-- The four renderings of `~ n` parse (dec, hex, oct, bin) to the same `n`; `bw` is the width of
the device's `BYTE_FORMAT` (2 or 4). -/
theorem tilde_consistent (bw n : Nat) (hn : n < 10 ^ 4300) :
    pyInt (fmtDec n) 10 = some (n : Int) ∧
    pyInt (fmtHex bw n) 16 = some (n : Int) ∧
    pyInt (fmtOct4 n) 8 = some (n : Int) ∧
    pyInt (zfill (fmtBin n) 8) 2 = some (n : Int) :=
  ⟨fmt_roundtrip_dec n hn, fmt_roundtrip_hex bw n, fmt_roundtrip_oct 4 n, (fmt_roundtrip_bin 8 n).1⟩

example : (65535 : Nat) < 10 ^ 4300 := addr_below_dec_limit 65535 16 (by decide) (by decide)

/-- ... and the two lines that carry a prefix read back through the address parser itself:
`number("+%u" % n) = number("$" + byteFmt % n) = n` for every address of the parser. -/
theorem tilde_reparse (P : Parser) (bw n : Nat) (hw : P.width ≤ 64) (hn : n < 2 ^ P.width) :
    number P ("+" ++ fmtDec n) = .ok n ∧ number P ("$" ++ fmtHex bw n) = .ok n := by
  have hb : (0 : Int) ≤ (n : Int) ∧ (n : Int) ≤ P.maxaddr := by
    have : (n : Int) < (2 : Int) ^ P.width := by exact_mod_cast hn
    unfold Parser.maxaddr
    omega
  have h10 := fmt_roundtrip_dec n (addr_below_dec_limit n P.width (by omega) hn)
  have h16 := fmt_roundtrip_hex bw n
  simp only [pyInt] at h10 h16
  constructor
  · simp only [number, String.toList_append]
    show numberL P ('+' :: (fmtDec n).toList) = _
    rw [(numberL_prefix P _).2.1, h10]
    exact constrain_in hb.1 hb.2
  · simp only [number, String.toList_append]
    show numberL P ('$' :: (fmtHex bw n).toList) = _
    rw [(numberL_prefix P _).1, h16]
    exact constrain_in hb.1 hb.2

example : number P16 ("+" ++ fmtDec 4660) = .ok 4660 ∧ number P16 ("$" ++ fmtHex 2 4660) = .ok 4660 :=
  tilde_reparse P16 2 4660 (by decide) (by decide)

end Py65.Props.C19
