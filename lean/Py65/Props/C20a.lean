/-
C20a -- the C20 clause "rejected commands change nothing" (and what C07 / C19 need of the command) for the
GENERATED `assemble`, interactive `assemble`, `help`, `version`, `cd`, `pwd` of the monitor.

`Py65.Gen.MonAsmGen` is written by `harness/py2lean_monasm.py` from the CURRENT `py65/monitor.py` on every run
of the check (statement-by-statement shallow embedding).  `Py65/Proofs/MonAsmGenEq.lean` proves the generated
methods equal to the hand model `Py65/Model/MonAsm.lean` for all arguments.  The statements below are about the
GENERATED methods, with the GENERATED assembler (`Py65.Gen.AsmGen.assemble`, C07) plugged into the parameter
`asm` (`asmG`); `iat`, `fmtdis`, `dis` (instruction_at, _format_disassembly, do_disassemble: generated elsewhere,
C09 / C19), `cmdhelp` (cmd.Cmd.do_help: standard library, not translated), the world `w` and the memory
callbacks `reply` are arbitrary unless a hypothesis says otherwise.  Property statements only; helper lemmas are
in Proofs/MonAsmGenEq.lean and Proofs/MonAsmLemmas.lean.

* `assemble_rejected_unchanged`  a refused address (label / overflow) or a refused statement (`SyntaxError` /
                                 `OverflowError` / `KeyError` of the assembler) prints the documented line and
                                 changes NOTHING else; `assemble_rejected_session`: registers, memory, labels,
                                 radix, breakpoints, width as they were, whatever the exception.
* `assemble_writes_encoding`     on success the state handed to `disassemble` differs from the old one in the
                                 memory only, by ONE slice store of exactly the assembled bytes; inside the
                                 physical memory that is: cell `start+i` = `bytes[i]`, every other cell unchanged.
                                 `assemble_writes_encoding_dev8`: on the 16-bit devices the range precondition
                                 always holds (the assembler refuses code past the top).
                                 `assemble_needs_range`: it IS needed on the 65Org16 -- at or above `$40000` the
                                 slice store writes nothing (and the command still prints a disassembly).
* `interactive_assemble_*`       blank line ends the loop; an accepted line stores its bytes at the running
                                 address and advances (wrapping to 0 at `2 ** ADDR_WIDTH`); a refused line stores
                                 nothing and the address stays; `interactive_assemble_session`: a whole session.
* `display_commands_pure`        `version`, `pwd`, `help` only print; `cd` changes only the working directory.
-/
import Py65.Proofs.MonAsmGenEq
import Py65.Proofs.MonAsmLemmas
import Py65.Props.C07g

namespace Py65.Props.C20a
open Py65 Py65.Model Py65.Model.PyStr Py65.Model.ObsMem Py65.Model.AddrParser Py65.Model.MonMem
open Py65.Model.MonGenRt Py65.Model.ShowRt Py65.Model.MonAsmRt Py65.Model.MonAsm Py65.Gen
open Py65.Spec.ObsMem Py65.Spec.MonMem Py65.Proofs.MonAsmGenEq Py65.Proofs.MonAsmLemmas

/-! ### vocabulary -/

/-- "leaves registers, memory, labels, breakpoints, radix and width exactly as they were" (labels and
radix are the two mutable fields of the address parser) -/
def SameSession (σ σ' : AsmSt) : Prop :=
  σ'.memory = σ.memory ∧ σ'.regs = σ.regs ∧ σ'.parser = σ.parser ∧ σ'.breakpoints = σ.breakpoints ∧
    σ'.width = σ.width

theorem SameSession.print (σ : AsmSt) (x : Str) : SameSession σ (MonAsm.print σ x) := ⟨rfl, rfl, rfl, rfl, rfl⟩

/-- the exception classes of the generated assembler as the monitor sees them; `kt` = `exc.args[0]` of
its `KeyError` ("Label not found: …", produced by the address parser inside the assembler) -/
def asmExc (kt : Str) : AsmRt.Exc → AExc
  | .syntaxError => .SyntaxError
  | .overflowError => .OverflowError
  | .keyError => .KeyError kt
  | .valueError _ => .ValueError
  | .indexError => .IndexError
  | .typeError _ => .TypeError
  | .other _ => .Other

/-- `self._assembler.assemble` = the GENERATED `Assembler.assemble` (py65/assembler.py, C07) of the device -/
def asmG (mpu : Asm.Dev) (keyText : Parser → Str → Str) : Parser → Str → Int → Except AExc (List Int) :=
  fun P statement pc =>
    match AsmGen.assemble mpu P statement pc with
    | .ok bytes => .ok bytes
    | .error e => .error (asmExc (keyText P statement) e)

/-- whatever the GENERATED assembler returns as bytes is non-empty and ends inside the address space -/
theorem assembleG_ok_top {d : Asm.Dev} {P : Parser} {s : Str} {pc : Int} {bs : List Int}
    (h : Gen.AsmGen.assemble d P s pc = .ok bs) : pc + (bs.length : Int) ≤ (2 : Int) ^ d.addrWidth ∧ bs ≠ [] := by
  have e := Py65.Proofs.AsmGenEq.assemble_eq d P s pc
  rw [h] at e
  exact assembleL_ok_top e.symm

/-- a parameter that only prints (or raises after printing) -/
def OutOnly (f : Str → AsmSt → AFlow AsmSt Unit) : Prop :=
  ∀ a σ, (∃ o, f a σ = .ok () { σ with out := o }) ∨ (∃ e o, f a σ = .raise e { σ with out := o })

section
variable (w : AWorld) (mpu : Asm.Dev) (kt : Parser → Str → Str)
  (asm : Parser → Str → Int → Except AExc (List Int))
  (iat : AsmSt → Int → Except AExc (Int × Str)) (fmtdis : AsmSt → Int → Int → Str → Except AExc Str)
  (dis : Str → AsmSt → AFlow AsmSt Unit) (cmdhelp : Str → AsmSt → AFlow AsmSt Unit) (reply : Reply) (d : Dev)

/-! ### `assemble <address> <statement>`: refused -/

/-- `assemble_rejected_unchanged`.  `args.split(None, 1)` gave the two pieces `a`, `st`.  Then, for the generated
`do_assemble` with the generated assembler: (1) an address with an unknown label prints the parser's "Label not
found: …"; (2) an address too wide prints "Overflow error: <args>"; (3) an address `start` the parser accepts
with a statement the generated assembler refuses AT `start` prints "Syntax error: <statement>" /
"Overflow error: <args>" / the label text.  In every case the command ends normally and the new state is the old
one with that ONE line appended to the output: memory (no partial write), registers, labels, radix, breakpoints,
width, pending input and working directory are untouched. -/
theorem assemble_rejected_unchanged (fuel : Nat) (args a st : Str) (σ : AsmSt)
    (hs : pySplitWs1 args = [a, st]) :
    let r := MonAsmGen.do_assemble w (asmG mpu kt) iat fmtdis dis cmdhelp reply d fuel args σ
    (numberL σ.parser a = .key → r = .ok () (MonAsm.print σ (MonCmdRt.keyErrorArg0 σ.parser a))) ∧
    (numberL σ.parser a = .overflow → r = .ok () (MonAsm.print σ ("Overflow error: ".toList ++ args))) ∧
    (∀ start, numberL σ.parser a = .ok start →
      (AsmGen.assemble mpu σ.parser st start = .error .syntaxError →
        r = .ok () (MonAsm.print σ ("Syntax error: ".toList ++ st))) ∧
      (AsmGen.assemble mpu σ.parser st start = .error .overflowError →
        r = .ok () (MonAsm.print σ ("Overflow error: ".toList ++ args))) ∧
      (AsmGen.assemble mpu σ.parser st start = .error .keyError →
        r = .ok () (MonAsm.print σ (kt σ.parser st)))) := by
  intro r
  have hr : r = doAssemble (asmG mpu kt) dis (interactiveAssemble (asmG mpu kt) iat fmtdis reply d fuel) reply d args σ :=
    do_assemble_eq w (asmG mpu kt) iat fmtdis dis cmdhelp reply d fuel args σ
  unfold doAssemble at hr
  simp only [hs] at hr
  refine ⟨fun h => ?_, fun h => ?_, fun start h => ⟨fun ha => ?_, fun ha => ?_, fun ha => ?_⟩⟩
  · simpa only [parseNumberA, h, asmHandlers] using hr
  · simpa only [parseNumberA, h, asmHandlers] using hr
  · simpa only [parseNumberA, h, asmG, ha, asmExc, asmHandlers] using hr
  · simpa only [parseNumberA, h, asmG, ha, asmExc, asmHandlers] using hr
  · simpa only [parseNumberA, h, asmG, ha, asmExc, asmHandlers] using hr

/-- the same for ANY way the address parser or the assembler (any `asm`) refuses, any exception class: the
command ends -- normally after printing one line, or by that exception (which `Monitor.onecmd` absorbs) -- in a
state whose registers, memory, labels, radix, breakpoints and width are exactly the old ones -/
theorem assemble_rejected_session (fuel : Nat) (args a st : Str) (σ : AsmSt) (hs : pySplitWs1 args = [a, st])
    (hrej : (∃ e, parseNumberA σ.parser a = .error e) ∨
      (∃ start e, parseNumberA σ.parser a = .ok start ∧ asm σ.parser st start = .error e)) :
    ∃ σ', (MonAsmGen.do_assemble w asm iat fmtdis dis cmdhelp reply d fuel args σ = .ok () σ' ∨
        ∃ e, MonAsmGen.do_assemble w asm iat fmtdis dis cmdhelp reply d fuel args σ = .raise e σ') ∧
      SameSession σ σ' ∧ σ'.inp = σ.inp ∧ σ'.cwd = σ.cwd := by
  rw [do_assemble_eq]
  unfold doAssemble
  simp only [hs]
  have key : ∀ e, ∃ σ', (asmHandlers args st e σ = .ok () σ' ∨ ∃ e', asmHandlers args st e σ = .raise e' σ') ∧
      SameSession σ σ' ∧ σ'.inp = σ.inp ∧ σ'.cwd = σ.cwd := by
    intro e
    cases e <;> simp only [asmHandlers] <;>
      first
        | exact ⟨_, Or.inl rfl, SameSession.print σ _, rfl, rfl⟩
        | exact ⟨σ, Or.inr ⟨_, rfl⟩, ⟨rfl, rfl, rfl, rfl, rfl⟩, rfl, rfl⟩
  rcases hrej with ⟨e, h⟩ | ⟨start, e, h1, h2⟩
  · simp only [h]; exact key e
  · simp only [h1, h2]; exact key e

/-! ### `assemble <address> <statement>`: accepted -/

/-- `assemble_writes_encoding`.  The address parses to `start` and the generated assembler returns `bytes` for the
statement at `start`.  Then the generated `do_assemble` is: ONE slice store of exactly those bytes at `start`
(nothing else of the state changes), then `disassemble $<start>` on that state, under the three handlers.  When
the range lies inside the physical memory (`0 ≤ start`, `start + len ≤ physMask + 1`) and the write subscribers
answer `None` (the monitor's putc does), the store is exact: cell `start + i` holds `bytes[i]`, every other cell
is unchanged, subscriber tables and sizes are unchanged. -/
theorem assemble_writes_encoding (fuel : Nat) (args a st : Str) (σ : AsmSt) (start : Int) (bytes : List Int)
    (hs : pySplitWs1 args = [a, st]) (hn : numberL σ.parser a = .ok start)
    (ha : AsmGen.assemble mpu σ.parser st start = .ok bytes) :
    let σ1 : AsmSt := { σ with memory := sliceStore reply σ.memory start bytes }
    MonAsmGen.do_assemble w (asmG mpu kt) iat fmtdis dis cmdhelp reply d fuel args σ =
        catchAsm args st (dis ("$".toList ++ pyFmtX d.addrFmtW start) σ1) ∧
      (WF σ.memory → WQuiet reply σ.memory → 0 ≤ start → start + (bytes.length : Int) ≤ σ.memory.physMask + 1 →
        (∀ i : Nat, i < bytes.length → σ1.memory.subject (start + (i : Int)) = bytes.getD i 0) ∧
        (∀ k, (k < start ∨ start + (bytes.length : Int) ≤ k) → σ1.memory.subject k = σ.memory.subject k) ∧
        SameShape σ.memory σ1.memory) := by
  intro σ1
  refine ⟨?_, fun hw hq h0 h1 => sliceStore_inRange reply σ.memory start bytes hw hq h0 h1⟩
  rw [do_assemble_eq]
  unfold doAssemble
  simp only [hs, parseNumberA, hn, asmG, ha]
  rfl

/-- on the 6502 / 65C02 (16 address bits = the physical size of the monitor's memory) the range precondition of
`assemble_writes_encoding` ALWAYS holds: the parser only yields addresses `≥ 0` and the assembler refuses code
running past the top of memory -/
theorem assemble_writes_encoding_dev8 {v : Spec.Variant} (hd : Proofs.Asm.IsDevice mpu v 8) (σ : AsmSt)
    (a st : Str) (start : Int) (bytes : List Int)
    (hwf : σ.parser.WF) (hw : WF σ.memory) (hq : WQuiet reply σ.memory) (hp : σ.memory.physMask = 0xffff)
    (hn : numberL σ.parser a = .ok start) (ha : AsmGen.assemble mpu σ.parser st start = .ok bytes) :
    (∀ i : Nat, i < bytes.length → (sliceStore reply σ.memory start bytes).subject (start + (i : Int)) = bytes.getD i 0) ∧
    (∀ k, (k < start ∨ start + (bytes.length : Int) ≤ k) →
      (sliceStore reply σ.memory start bytes).subject k = σ.memory.subject k) ∧
    SameShape σ.memory (sliceStore reply σ.memory start bytes) ∧ bytes ≠ [] := by
  obtain ⟨htop, hne⟩ := assembleG_ok_top ha
  have haw : mpu.addrWidth = 16 := hd.ok.aw
  rw [haw] at htop
  obtain ⟨i1, i2, i3⟩ := sliceStore_inRange reply σ.memory start bytes hw hq
    (Py65.Proofs.Num.numberL_bounded hwf hn).1 (by rw [hp]; norm_num at htop ⊢; exact htop)
  exact ⟨i1, i2, i3, hne⟩

/-- `assemble_needs_range`: the precondition IS needed.  When the address is at or above the physical size of
the memory object (65Org16: 256 K cells for a 32-bit address space) the slice store stores NOTHING --
`slice.indices` clips the range away, although an item store at the same address would alias into the memory --
and the command goes on to print a disassembly of whatever the aliased cells hold. -/
theorem assemble_needs_range (fuel : Nat) (args a st : Str) (σ : AsmSt) (start : Int) (bytes : List Int)
    (hs : pySplitWs1 args = [a, st]) (hn : numberL σ.parser a = .ok start)
    (ha : AsmGen.assemble mpu σ.parser st start = .ok bytes)
    (hp : 0 ≤ σ.memory.physMask + 1) (habove : σ.memory.physMask + 1 ≤ start) :
    MonAsmGen.do_assemble w (asmG mpu kt) iat fmtdis dis cmdhelp reply d fuel args σ =
      catchAsm args st (dis ("$".toList ++ pyFmtX d.addrFmtW start) σ) := by
  obtain ⟨h, -⟩ := assemble_writes_encoding w mpu kt iat fmtdis dis cmdhelp reply d fuel args a st σ start bytes hs hn ha
  rw [h, sliceStore_above reply σ.memory start bytes hp habove]

/-! ### interactive assembly -/

/-- `interactive_assemble_blank`: the loop ends at the first blank line -- it writes the prompt, (the echo of)
the line and a newline, consumes exactly that line, and changes nothing else; the value is the running address -/
theorem interactive_assemble_blank (fuel : Nat) (start : Int) (σ : AsmSt) (line : Str) (rest : List Str)
    (hi : σ.inp = line :: rest) (hb : MonCmd.pyStrip line = []) :
    MonAsmGen._interactive_assemble_while1 w asm iat fmtdis dis cmdhelp reply d (fuel + 1) start σ =
      .ok start { σ with inp := rest, out := σ.out ++ [prompt d start, line, "\n".toList] } := by
  rw [interactive_while1_eq]
  unfold iaLoop
  simp [hi, hb, MonAsm.write]

/-- `interactive_assemble_accepted`: a non-blank line that assembles to `bytes` at the running address is stored
by ONE slice store at that address, the instruction there is shown, and the loop goes on at `start + len`, or at
0 when that reaches `2 ** ADDR_WIDTH`; nothing else changes (`iat` / `fmtdis` returning is the hypothesis: the
disassembler can raise on a 65Org16 cell above 255, C09) -/
theorem interactive_assemble_accepted (fuel : Nat) (start : Int) (σ : AsmSt) (line : Str) (rest : List Str)
    (bytes : List Int) (r : Int × Str) (text : Str)
    (hi : σ.inp = line :: rest) (hb : MonCmd.pyStrip line ≠ [])
    (ha : asm σ.parser line start = .ok bytes) :
    let σ1 : AsmSt := { σ with memory := sliceStore reply σ.memory start bytes, inp := rest,
                               out := σ.out ++ [prompt d start, line] }
    iat σ1 start = .ok r → fmtdis σ1 start (bytes.length : Int) r.2 = .ok text →
    MonAsmGen._interactive_assemble_while1 w asm iat fmtdis dis cmdhelp reply d (fuel + 1) start σ =
      MonAsmGen._interactive_assemble_while1 w asm iat fmtdis dis cmdhelp reply d fuel
        (wrapTop d (start + (bytes.length : Int)))
        { σ1 with out := σ1.out ++ [eraseLine (prompt d start) line, text ++ "\n".toList] } := by
  intro σ1 h1 h2
  rw [interactive_while1_eq, interactive_while1_eq]
  conv => lhs; unfold iaLoop
  simp only [hi, hb, if_false, iaLine, iaTry, ha, iaAccept]
  dsimp only [σ1] at h1 h2
  simp only [h1, h2, AFlow.bind_ok, σ1, MonAsm.write, List.append_assoc]
  rfl

/-- `interactive_assemble_refused`: a line the assembler refuses (`KeyError` / `OverflowError` / `SyntaxError`)
stores nothing, prints `$<address>  ?Label` / `?Overflow` / `?Syntax`, and the running address does NOT advance -/
theorem interactive_assemble_refused (fuel : Nat) (start : Int) (σ : AsmSt) (line : Str) (rest : List Str)
    (e : AExc) (mark : Str) (hi : σ.inp = line :: rest) (hb : MonCmd.pyStrip line ≠ [])
    (ha : asm σ.parser line start = .error e) (hm : iaMark e = some mark) :
    MonAsmGen._interactive_assemble_while1 w asm iat fmtdis dis cmdhelp reply d (fuel + 1) start σ =
      MonAsmGen._interactive_assemble_while1 w asm iat fmtdis dis cmdhelp reply d fuel start
        { σ with inp := rest, out := σ.out ++ [prompt d start, line,
            "\r$".toList ++ pyFmtX d.addrFmtW start ++ ' ' :: ' ' :: mark] } := by
  rw [interactive_while1_eq, interactive_while1_eq]
  conv => lhs; unfold iaLoop
  simp only [hi, hb, if_false, iaLine, iaTry, ha, hm, AFlow.bind_ok, MonAsm.write, List.append_assoc]
  rfl

/-- `interactive_assemble_wraps`: the advance wraps exactly at the top of the address space, and with the
GENERATED assembler of a device whose address width is the monitor's the running address never leaves
`[0, 2 ** ADDR_WIDTH)` -/
theorem interactive_assemble_wraps :
    wrapTop d ((2 : Int) ^ d.AW) = 0 ∧ (∀ a : Int, a < (2 : Int) ^ d.AW → wrapTop d a = a) ∧
    (∀ (P : Parser) (line : Str) (start : Int) (bytes : List Int), mpu.addrWidth = d.AW → 0 ≤ start →
      asmG mpu kt P line start = .ok bytes →
      0 ≤ wrapTop d (start + (bytes.length : Int)) ∧ wrapTop d (start + (bytes.length : Int)) < (2 : Int) ^ d.AW ∧
      start < (2 : Int) ^ d.AW) := by
  refine ⟨by simp [wrapTop], fun a h => by simp [wrapTop, Int.not_le.mpr h], ?_⟩
  intro P line start bytes haw h0 h
  unfold asmG at h
  cases hg : AsmGen.assemble mpu P line start with
  | error e => rw [hg] at h; cases h
  | ok bs =>
    rw [hg] at h
    injection h with h; subst h
    obtain ⟨htop, hne⟩ := assembleG_ok_top hg
    rw [haw] at htop
    have hlen : 0 < (bs.length : Int) := by
      cases bs with
      | nil => exact absurd rfl hne
      | cons x xs => simp
    have hpow : (0 : Int) < (2 : Int) ^ d.AW := by positivity
    unfold wrapTop
    split_ifs with hc
    · exact ⟨le_refl 0, hpow, by omega⟩
    · exact ⟨by omega, by omega, by omega⟩

/-- what one typed (non-blank) line does to (running address, memory) -/
def lineEffect (P : Parser) (s : Int × OM) (line : Str) : Int × OM :=
  match asm P line s.1 with
  | .ok bytes => (wrapTop d (s.1 + (bytes.length : Int)), sliceStore reply s.2 s.1 bytes)
  | .error _ => s

/-- `interactive_assemble_session`: a whole session.  The non-blank lines `ls` are typed, then a blank line; the
assembler refuses only with its three exception classes (true of the generated one: `C07g.asm_total`), `iat` and
`fmtdis` return.  Then the loop ends normally within `|ls| + 1` prompts; the memory is the old one after, in order,
one slice store per ACCEPTED line at the address running at that moment (refused lines store nothing and do not
advance it); exactly the typed lines are consumed; registers, labels, radix, breakpoints, width and working
directory are as they were; the value is the final running address. -/
theorem interactive_assemble_session
    (hiat : ∀ s a, ∃ r, iat s a = .ok r) (hfmt : ∀ s a n t, ∃ r, fmtdis s a n t = .ok r)
    (hasm : ∀ P l a e, asm P l a = .error e → ∃ mark, iaMark e = some mark)
    (ls : List Str) (b : Str) (rest : List Str) (hls : ∀ l ∈ ls, MonCmd.pyStrip l ≠ []) (hb : MonCmd.pyStrip b = []) :
    ∀ (fuel : Nat) (start : Int) (σ : AsmSt), σ.inp = ls ++ b :: rest → ls.length < fuel →
    ∃ out, MonAsmGen._interactive_assemble_while1 w asm iat fmtdis dis cmdhelp reply d fuel start σ =
      .ok (ls.foldl (lineEffect asm reply d σ.parser) (start, σ.memory)).1
        { σ with memory := (ls.foldl (lineEffect asm reply d σ.parser) (start, σ.memory)).2, inp := rest, out := out } := by
  induction ls with
  | nil =>
    intro fuel start σ hi hf
    obtain ⟨n, rfl⟩ : ∃ n, fuel = n + 1 := ⟨fuel - 1, by simp at hf; omega⟩
    rw [interactive_assemble_blank w asm iat fmtdis dis cmdhelp reply d n start σ b rest (by simpa using hi) hb]
    exact ⟨_, rfl⟩
  | cons l ls ih =>
    intro fuel start σ hi hf
    obtain ⟨n, rfl⟩ : ∃ n, fuel = n + 1 := ⟨fuel - 1, by simp at hf; omega⟩
    have hl : MonCmd.pyStrip l ≠ [] := hls l (by simp)
    have hls' : ∀ x ∈ ls, MonCmd.pyStrip x ≠ [] := fun x hx => hls x (by simp [hx])
    have hi' : σ.inp = l :: (ls ++ b :: rest) := by simpa using hi
    have hn : ls.length < n := by simp at hf; omega
    cases ha : asm σ.parser l start with
    | ok bytes =>
      obtain ⟨r, hr⟩ := hiat { σ with memory := sliceStore reply σ.memory start bytes, inp := ls ++ b :: rest, out := σ.out ++ [prompt d start, l] } start
      obtain ⟨text, ht⟩ := hfmt { σ with memory := sliceStore reply σ.memory start bytes, inp := ls ++ b :: rest, out := σ.out ++ [prompt d start, l] } start (bytes.length : Int) r.2
      rw [interactive_assemble_accepted w asm iat fmtdis dis cmdhelp reply d n start σ l (ls ++ b :: rest) bytes r text
        hi' hl ha hr ht]
      obtain ⟨out, ho⟩ := ih hls' n (wrapTop d (start + (bytes.length : Int)))
        { σ with memory := sliceStore reply σ.memory start bytes, inp := ls ++ b :: rest, out := σ.out ++ [prompt d start, l] ++ [eraseLine (prompt d start) l, text ++ "\n".toList] } rfl hn
      refine ⟨out, ?_⟩
      simp only [List.foldl_cons, lineEffect, ha]
      exact ho
    | error e =>
      obtain ⟨mark, hm⟩ := hasm _ _ _ _ ha
      rw [interactive_assemble_refused w asm iat fmtdis dis cmdhelp reply d n start σ l (ls ++ b :: rest) e mark
        hi' hl ha hm]
      obtain ⟨out, ho⟩ := ih hls' n start
        { σ with inp := ls ++ b :: rest, out := σ.out ++ [prompt d start, l, "\r$".toList ++ pyFmtX d.addrFmtW start ++ ' ' :: ' ' :: mark] } rfl hn
      refine ⟨out, ?_⟩
      simp only [List.foldl_cons, lineEffect, ha]
      exact ho

/-- the generated assembler refuses only with the three classes the loop handles (from `C07g.asm_total`) -/
theorem asmG_refusals {v : Spec.Variant} {W : Nat} (hd : Proofs.Asm.IsDevice mpu v W) (P : Parser) (hwf : P.WF)
    (l : Str) (a : Int) (e : AExc) (h : asmG mpu kt P l a = .error e) : ∃ mark, iaMark e = some mark := by
  unfold asmG at h
  have ht := fun s => C07g.asm_total hd P hwf l a s
  unfold Proofs.AsmGenEq.assembleG at ht
  cases hg : AsmGen.assemble mpu P l a with
  | ok bs => rw [hg] at h; cases h
  | error x =>
    rw [hg] at h ht
    injection h with h; subst h
    cases x with
    | syntaxError => exact ⟨_, rfl⟩
    | overflowError => exact ⟨_, rfl⟩
    | keyError => exact ⟨_, rfl⟩
    | valueError s => exact absurd rfl (ht s)
    | indexError => exact absurd rfl (ht "index")
    | typeError s => exact absurd rfl (ht s)
    | other s => exact absurd rfl (ht s)

/-- `interactive_assemble_start`: where the session starts, and a refused start address.  No argument: at the
program counter.  An address with an unknown label: "Label not found: …" is printed and NOTHING else happens (no
prompt, no input consumed).  An address too wide: the `OverflowError` leaves the command (absorbed by
`Monitor.onecmd`) with the state untouched. -/
theorem interactive_assemble_start (fuel : Nat) (args : Str) (σ : AsmSt) :
    (args = [] → MonAsmGen._interactive_assemble w asm iat fmtdis dis cmdhelp reply d fuel args σ =
      (MonAsmGen._interactive_assemble_while1 w asm iat fmtdis dis cmdhelp reply d fuel σ.regs.pc σ).bind
        fun _ σ' => .ok () σ') ∧
    (args ≠ [] → ∀ start, numberL σ.parser args = .ok start →
      MonAsmGen._interactive_assemble w asm iat fmtdis dis cmdhelp reply d fuel args σ =
        (MonAsmGen._interactive_assemble_while1 w asm iat fmtdis dis cmdhelp reply d fuel start σ).bind
          fun _ σ' => .ok () σ') ∧
    (args ≠ [] → numberL σ.parser args = .key →
      MonAsmGen._interactive_assemble w asm iat fmtdis dis cmdhelp reply d fuel args σ =
        .ok () (MonAsm.print σ (MonCmdRt.keyErrorArg0 σ.parser args))) ∧
    (args ≠ [] → numberL σ.parser args = .overflow →
      MonAsmGen._interactive_assemble w asm iat fmtdis dis cmdhelp reply d fuel args σ = .raise .OverflowError σ) := by
  simp only [interactive_assemble_eq, interactive_while1_eq]
  unfold interactiveAssemble
  refine ⟨fun h => by simp [h], fun h start hn => by simp [h, parseNumberA, hn], fun h hn => by simp [h, parseNumberA, hn],
    fun h hn => by simp [h, parseNumberA, hn]⟩

/-! ### `version`, `pwd`, `help`, `cd` -/

/-- `display_commands_pure`: `version` and `pwd` print one line and change nothing; `help` changes nothing
provided `cmd.Cmd.do_help` (not translated) only prints; `cd` ends normally or by the exception of `os.chdir`
(then with the state untouched) and changes, besides the output, only the working directory -/
theorem display_commands_pure :
    (∀ args σ, MonAsmGen.do_version w asm iat fmtdis dis cmdhelp reply d args σ =
      .ok () (MonAsm.print σ "\nPy65 Monitor".toList)) ∧
    (∀ args σ, MonAsmGen.do_pwd w asm iat fmtdis dis cmdhelp reply d args σ = .ok () (MonAsm.print σ σ.cwd)) ∧
    (OutOnly cmdhelp → OutOnly (MonAsmGen.do_help w asm iat fmtdis dis cmdhelp reply d)) ∧
    (∀ args σ, ∃ σ', (MonAsmGen.do_cd w asm iat fmtdis dis cmdhelp reply d args σ = .ok () σ' ∨
        (∃ e, MonAsmGen.do_cd w asm iat fmtdis dis cmdhelp reply d args σ = .raise e σ') ∧ σ' = σ) ∧
      SameSession σ σ' ∧ σ'.inp = σ.inp) := by
  refine ⟨fun args σ => by rw [do_version_eq]; rfl, fun args σ => by rw [do_pwd_eq]; rfl, fun h a σ => ?_, fun args σ => ?_⟩
  · rw [do_help_eq]; exact h _ σ
  · rw [do_cd_eq]
    unfold doCd
    by_cases ha : args = []
    · simp only [ha, if_true]
      exact ⟨_, Or.inl rfl, ⟨rfl, rfl, rfl, rfl, rfl⟩, rfl⟩
    · simp only [ha, if_false]
      cases hc : w.chdir σ.cwd args with
      | ok nd => exact ⟨_, Or.inl rfl, ⟨rfl, rfl, rfl, rfl, rfl⟩, rfl⟩
      | error e =>
        cases e <;> simp only [] <;>
          first
            | exact ⟨σ, Or.inr ⟨⟨_, rfl⟩, rfl⟩, ⟨rfl, rfl, rfl, rfl, rfl⟩, rfl⟩
            | exact ⟨_, Or.inl rfl, ⟨rfl, rfl, rfl, rfl, rfl⟩, rfl⟩

/-- `cd`: what changes is exactly the working directory `os.chdir` yields; an `OSError` is reported and the
directory stays; in both cases the (new) directory is printed -/
theorem cd_changes_cwd (args : Str) (σ : AsmSt) (ha : args ≠ []) :
    (∀ nd, w.chdir σ.cwd args = .ok nd →
      MonAsmGen.do_cd w asm iat fmtdis dis cmdhelp reply d args σ =
        .ok () { σ with cwd := nd, out := σ.out ++ [nd ++ "\n".toList] }) ∧
    (∀ n s, w.chdir σ.cwd args = .error (.OSError n s) →
      MonAsmGen.do_cd w asm iat fmtdis dis cmdhelp reply d args σ =
        .ok () { σ with out := σ.out ++ [("Cannot change directory: [".toList ++ pyFmtD n ++ "] ".toList ++ s) ++ "\n".toList,
                                         σ.cwd ++ "\n".toList] }) := by
  rw [do_cd_eq]
  unfold doCd
  simp only [ha, if_false]
  refine ⟨fun nd h => by simp [h, doPwd, MonAsm.print], fun n s h => by simp [h, doPwd, MonAsm.print]⟩

end

/-! ### non-vacuity: the GENERATED code, run by the kernel

`do_assemble` etc. below are the generated methods, `asmG Asm.dev6502 / dev65org16` the generated assembler on
the generated opcode tables, the memory is the monitor's own (`monMem`: putc on `$F001`, getc on `$F004`).  The
stand-ins for `iat` / `fmtdis` / `dis` / `cmdhelp` print what they are asked (and the cells they would show). -/

section examples

def w0 : AWorld :=
  { chdir := fun cwd p => if p = "sub".toList then .ok (cwd ++ "/sub".toList)
                          else .error (.OSError 2 "No such file or directory".toList) }
def kt0 : Parser → Str → Str := fun _ st => "Label not found: ".toList ++ st
def iat0 : AsmSt → Int → Except AExc (Int × Str) := fun _ _ => .ok (1, "INSN".toList)
/-- shows the `n` cells from `a` on (peeked) -/
def fmt0 : AsmSt → Int → Int → Str → Except AExc Str := fun σ a n t =>
  .ok ((List.range n.toNat).flatMap (fun (i : Nat) => pyFmtX 2 (σ.memory.subject (a + (i : Int))) ++ " ".toList) ++ t)
def dis0 : Str → AsmSt → AFlow AsmSt Unit := fun arg σ => .ok () (MonAsm.print σ ("dis ".toList ++ arg))
def help0 : Str → AsmSt → AFlow AsmSt Unit := fun arg σ => .ok () (MonAsm.print σ ("help ".toList ++ arg))

/-- a 6502 session: PC `$c000`, one label, the monitor's memory (all zero) -/
def σ8 : AsmSt :=
  { memory := monMem 16 (fun _ => 0), regs := { a := 0, x := 0, y := 0, sp := 0xff, p := 0x30, pc := 0xc000 },
    parser := ⟨16, 16, [("loop".toList, 0xc005)]⟩, breakpoints := [some 0xc000], width := 78, out := [],
    inp := [], cwd := "/tmp".toList }
/-- the same on the 65Org16 (32 address bits, 256 K physical cells) -/
def σ16 : AsmSt := { σ8 with memory := monMem 32 (fun _ => 0), parser := ⟨32, 16, []⟩ }

/-- what an example looks at: the given cells, the callback log, the output, the pending input, the directory -/
structure Seen where
  cells : List Int
  log : List Ev
  out : List Str
  inp : List Str
  cwd : Str
  deriving DecidableEq

def look (cells : List Int) : AFlow AsmSt Unit → Option Seen
  | .ok _ s => some ⟨cells.map s.memory.subject, s.memory.log, s.out, s.inp, s.cwd⟩
  | _ => none

def asm8 := MonAsmGen.do_assemble w0 (asmG Asm.dev6502 kt0) iat0 fmt0 dis0 help0 monReply dev8 20
def asm16 := MonAsmGen.do_assemble w0 (asmG Asm.dev65org16 kt0) iat0 fmt0 dis0 help0 monReply dev16 20

-- accepted: exactly the two bytes, at $c000; then `disassemble $c000`
example : look [0xbfff, 0xc000, 0xc001, 0xc002] (asm8 "c000 lda #$12".toList σ8) =
    some ⟨[0, 0xa9, 0x12, 0], [], ["dis $c000\n".toList], [], "/tmp".toList⟩ := by decide +kernel
-- a label as address, blanks around: `split(None, 1)` keeps the statement's trailing blank
example : look [0xc005, 0xc006] (asm8 "  loop\t jmp loop ".toList σ8) =
    some ⟨[0x4c, 0x05], [], ["dis $c005\n".toList], [], "/tmp".toList⟩ := by decide +kernel
-- the slice store goes through the ObservableMemory: storing at the putc register calls the callback
example : look [0xf001] (asm8 "f001 nop".toList σ8) =
    some ⟨[0xea], [{ cb := 1, addr := 0xf001, val := some 0xea }], ["dis $f001\n".toList], [], "/tmp".toList⟩ := by
  decide +kernel
-- refused: syntax, label (address), label (operand), overflow (address), code past the top -- nothing stored
example : look [0xc000] (asm8 "c000 bogus".toList σ8) =
    some ⟨[0], [], ["Syntax error: bogus\n".toList], [], "/tmp".toList⟩ := by decide +kernel
example : look [0xc000] (asm8 "nosuch nop".toList σ8) =
    some ⟨[0], [], ["Label not found: nosuch\n".toList], [], "/tmp".toList⟩ := by decide +kernel
example : look [0xc000] (asm8 "c000 jmp nosuch".toList σ8) =
    some ⟨[0], [], ["Label not found: jmp nosuch\n".toList], [], "/tmp".toList⟩ := by decide +kernel
example : look [0, 0xffff] (asm8 "10000 nop".toList σ8) =
    some ⟨[0, 0], [], ["Overflow error: 10000 nop\n".toList], [], "/tmp".toList⟩ := by decide +kernel
example : look [0, 0xffff] (asm8 "ffff lda #$12".toList σ8) =
    some ⟨[0, 0], [], ["Overflow error: ffff lda #$12\n".toList], [], "/tmp".toList⟩ := by decide +kernel
-- 65Org16, `assemble_needs_range`: at $40000 NOTHING is stored (and `disassemble $00040000` runs all the same);
-- at $3ffff only the first word of the two is stored
example : look [0, 1, 0x3ffff] (asm16 "40000 lda #$12".toList σ16) =
    some ⟨[0, 0, 0], [], ["dis $00040000\n".toList], [], "/tmp".toList⟩ := by decide +kernel
example : look [0x3fffe, 0x3ffff, 0, 1] (asm16 "3ffff lda #$12".toList σ16) =
    some ⟨[0, 0xa9, 0, 0], [], ["dis $0003ffff\n".toList], [], "/tmp".toList⟩ := by decide +kernel
-- ... while inside the physical memory it stores both words
example : look [0x3fffe, 0x3ffff, 0] (asm16 "3fffe lda #$12".toList σ16) =
    some ⟨[0xa9, 0x12, 0], [], ["dis $0003fffe\n".toList], [], "/tmp".toList⟩ := by decide +kernel

-- interactive, from the PC: two accepted lines, one refused in between (address stays), blank line ends;
-- the line after the blank one is NOT consumed
example : look [0xc000, 0xc001, 0xc002, 0xc003, 0xc004]
      (asm8 "".toList { σ8 with inp := ["lda #$01".toList, "bogus".toList, "sta $10".toList, " ".toList, "quit".toList] }) =
    some ⟨[0xa9, 0x01, 0x85, 0x10, 0], [],
      ["\r$c000            ".toList, "lda #$01".toList, eraseLine (prompt dev8 0xc000) "lda #$01".toList, "a9 01 INSN\n".toList,
       "\r$c002            ".toList, "bogus".toList, "\r$c002  ?Syntax\n".toList,
       "\r$c002            ".toList, "sta $10".toList, eraseLine (prompt dev8 0xc002) "sta $10".toList, "85 10 INSN\n".toList,
       "\r$c004            ".toList, " ".toList, "\n".toList],
      ["quit".toList], "/tmp".toList⟩ := by decide +kernel
-- interactive at an address: the advance wraps to 0 at the top of the address space
example : look [0xfffe, 0xffff, 0, 1]
      (asm8 "$fffe".toList { σ8 with inp := ["lda #$01".toList, "nop".toList, "".toList] }) =
    some ⟨[0xa9, 0x01, 0xea, 0], [],
      ["\r$fffe            ".toList, "lda #$01".toList, eraseLine (prompt dev8 0xfffe) "lda #$01".toList, "a9 01 INSN\n".toList,
       "\r$0000            ".toList, "nop".toList, eraseLine (prompt dev8 0) "nop".toList, "ea INSN\n".toList,
       "\r$0001            ".toList, "".toList, "\n".toList], [], "/tmp".toList⟩ := by decide +kernel
-- interactive: a refused start address prints the label text, asks nothing, consumes nothing
example : look [0xc000] (asm8 "nosuch".toList { σ8 with inp := ["nop".toList, "".toList] }) =
    some ⟨[0], [], ["Label not found: nosuch\n".toList], ["nop".toList, "".toList], "/tmp".toList⟩ := by decide +kernel
-- stdin exhausted: the call does not return
example : (match asm8 "".toList σ8 with | .nofuel => true | _ => false) = true := by decide +kernel

-- version / pwd / help (a shortcut is replaced by its command) / cd
example : look [] (MonAsmGen.do_version w0 (asmG Asm.dev6502 kt0) iat0 fmt0 dis0 help0 monReply dev8 "x".toList σ8) =
    some ⟨[], [], ["\nPy65 Monitor\n".toList], [], "/tmp".toList⟩ := by decide +kernel
example : look [] (MonAsmGen.do_pwd w0 (asmG Asm.dev6502 kt0) iat0 fmt0 dis0 help0 monReply dev8 none σ8) =
    some ⟨[], [], ["/tmp\n".toList], [], "/tmp".toList⟩ := by decide +kernel
example : look [] (MonAsmGen.do_help w0 (asmG Asm.dev6502 kt0) iat0 fmt0 dis0 help0 monReply dev8 " m ".toList σ8) =
      some ⟨[], [], ["help mem\n".toList], [], "/tmp".toList⟩ ∧
    look [] (MonAsmGen.do_help w0 (asmG Asm.dev6502 kt0) iat0 fmt0 dis0 help0 monReply dev8 "mem ".toList σ8) =
      some ⟨[], [], ["help mem \n".toList], [], "/tmp".toList⟩ := by decide +kernel
example : look [] (MonAsmGen.do_cd w0 (asmG Asm.dev6502 kt0) iat0 fmt0 dis0 help0 monReply dev8 "sub".toList σ8) =
      some ⟨[], [], ["/tmp/sub\n".toList], [], "/tmp/sub".toList⟩ ∧
    look [] (MonAsmGen.do_cd w0 (asmG Asm.dev6502 kt0) iat0 fmt0 dis0 help0 monReply dev8 "nosuch".toList σ8) =
      some ⟨[], [], ["Cannot change directory: [2] No such file or directory\n".toList, "/tmp\n".toList], [],
        "/tmp".toList⟩ ∧
    look [] (MonAsmGen.do_cd w0 (asmG Asm.dev6502 kt0) iat0 fmt0 dis0 help0 monReply dev8 "".toList σ8) =
      some ⟨[], [], ["cd <directory>\n".toList, "Change the working directory.\n".toList], [], "/tmp".toList⟩ := by
  decide +kernel

end examples

end Py65.Props.C20a
