/-
C18h -- character I/O of a running PROGRAM: C18 (the monitor's observers, `Props/C18g.lean`) composed with
the GENERATED CPU (C12 `Props/C12.lean`, C05h `Props/C05h.lean`).

Property theorems only (definitions and helper lemmas: `Py65/Proofs/IoProg.lean`, `Py65/Proofs/IoProgAcc.lean`).

The object.  `m : IoM` is a device (`m.cpu : St`, the registers of the generated device model; its `mem` / `log`
fields are scratch) together with the monitor `m.mon : IoSt` that owns the device's memory object
(`m.mon._mpu.memory`, the `ObservableMemory` model with the GENERATED `_install_mpu_observers` closures `putc` /
`getc` installed at `O` / `I`), the pending input `m.mon.stdin` and the output `m.mon.stdout`.
One instruction, `ioStep E d m`:
  1. the GENERATED `step()` of device `d` (`Dev.step`: `dev6502.step`, `dev65c02.step`, `dev65org16.step`) is run
     on `startOf E m`: the registers of `m.cpu` over the plain memory `viewG E m.mon` -- "what a load from `a`
     would return NOW", computed by running the generated `getc` / the `ObservableMemory` model -- with an
     empty access log;
  2. the log of that step, `traceOf E d m` (every `memory[e]` / `memory[e] = v` of the instruction in program
     order, values written included: the list C12 is about), is replayed on the monitor's memory object through
     the generated observers (`MonIOGenEq.replayG`, the object of `C18g.io_trace`): new cells, input, output.
`Consistent E d m` is the check that makes this a `step()` ON the observed memory: the observed memory answers
every load of the instruction exactly as the plain memory the CPU ran on did (`seenOf`).  The generated CPU is a
function of a PLAIN memory (`memGet e s = s.mem e`); it cannot be run on a memory whose loads have side effects
without re-translating it (a memory monad instead of `St.mem`).  What it can represent exactly is every
instruction in which no load from `I` comes after another access to `I` and every address is a physical
address -- `io_consistent_of_safe`; `Consistent` fails exactly when a plain memory cannot give the answers
(non-vacuity example `located_at_I` below).  `ioRun E d n m`: `n` instructions; `traces E d n m`: all their
accesses in program order; `seen E d n m`: what all their loads returned to the CPU.

Theorems.
  * `io_program`        (a)+(b) for `n` instructions of any of the three devices, every instruction `Consistent`;
  * `io_run_is_replay`  the monitor after the run = one `replayG` of the whole access list (link to `io_trace`);
  * `io_consistent_of_safe`   `IoSafe` (no load from `I` after another access to `I`, physical addresses) ⇒ `Consistent`;
  * `io_step_memory`    the device model's own memory after an instruction = the plain replay of its access list
                        (log completeness, every opcode byte), = the observed memory's cells off `I`;
  * `io_instruction`    (c) one instruction: its accesses are C12's list (multiset), it consumes as many bytes
                        as that list has loads from `I` and prints as many characters as `Spec.dataAccesses` has
                        stores to `O`; for an instruction not located at `I` only DATA accesses consume input;
  * `io_rmw_in_order`   read-modify-write instructions: the access list IS the Spec's list IN ORDER (load, store);
  * `io_instruction_consistent`   `InstrOK` (order-free condition on `Spec.dataAccesses` + "not located at I", or a
                        read-modify-write not located at `I`) ⇒ `Consistent`;
  * `io_program_partial`   the composition without `Consistent` / `okEv` / well-formedness hypotheses along the run:
                        a well-formed machine, every instruction `InstrOK` ⇒ (a)+(b), and every `step()` of the
                        run is applied to a state C12 / C05h talk about.
-/
import Py65.Proofs.IoProgAcc

namespace Py65.Props.C18h
open Py65 Py65.Model.MonIORt Py65.Gen.MonIOGen
open Py65.Proofs Py65.Proofs.MonIO Py65.Proofs.MonIOGenEq Py65.Proofs.IoProg
open Py65.Spec (Acc Mn Mode Variant decode dataAccesses fetched ea)
open Py65.Spec.ObsMem (InRange replayPlain)
open Py65.Spec.MonIO (SState storesTo loadsFrom)
open Py65.Proofs.Hist (Dev)

/-- **`io_program`**: the generated CPU (`d`: any of the three devices) run for `n` instructions on the
monitor's memory object with the GENERATED observers installed at `I` and `O` (`Inv`), every instruction
`Consistent` (see the file comment; `io_consistent_of_safe`, `io_instruction_consistent` give it), every stored
value printable (`okEv`).  With `evs` the program-order list of ALL item accesses of the run and `sp` the
Spec's replay of `evs` (plain memory of `maskOf addrWidth + 1` cells + input queue + output text, written
from the property text) from the cells, pending input and output at the start:
 (b) what the loads of the program returned to the CPU (`seen`) is exactly what the Spec says: a load from an
     address congruent to `I` returned the next pending byte -- LF as CR -- or 0 and consumed exactly that
     byte, every other load returned the cell and consumed nothing;
 (a) the output grew by exactly the values the program's stores wrote to addresses congruent to `O`, in
     program order, each once (all flushed when everything before was); the input shrank by exactly the
     number of loads from addresses congruent to `I`; the cells are the Spec's;
 nothing else of the monitor changed and the mapping is still in place. -/
theorem io_program (E : Env) (d : Dev) (n : Nat) (m : IoM) (I O : Int) (hinv : Inv m.mon)
    (hI : m.mon.getc_addr = some I) (hO : m.mon.putc_addr = some O)
    (hev : ∀ e ∈ traces E d n m, okEv E e) (hc : AllConsistent E d n m) :
    ∃ cells, m.mon._mpu.memory = .obs (obsMem m.mon.addrWidth I O cells) ∧
      let size := maskOf m.mon.addrWidth + 1
      let evs := traces E d n m
      let m' := ioRun E d n m
      let sp := Py65.Spec.MonIO.replay size I O
        { cells := cells, pending := m.mon.stdin, output := m.mon.stdout.written } evs
      seen E d n m = sp.1 ∧
      m'.mon._mpu.memory = .obs (obsMem m.mon.addrWidth I O sp.2.cells) ∧
      m'.mon.stdout.written = m.mon.stdout.written ++ storesTo size O evs ∧
      m'.mon.stdin = m.mon.stdin.drop (loadsFrom size I evs) ∧
      (m.mon.stdout.flushed = m.mon.stdout.written.length →
        m'.mon.stdout.flushed = m'.mon.stdout.written.length) ∧
      Frame m.mon m'.mon ∧ Inv m'.mon := by
  obtain ⟨cells, g⟩ := hinv.good hI hO
  refine ⟨cells, g.hm, ?_⟩
  intro size evs m' sp
  obtain ⟨r1, r2, r3, r4, r5⟩ := run_spec E d I O n m cells g hev hc
  obtain ⟨c1, c2⟩ := spec_closed size I O (specOf m.mon cells) evs
  have haw : m'.mon.addrWidth = m.mon.addrWidth := r4.addrWidth
  have hcls : m'.mon._mpu.cls = m.mon._mpu.cls := congrArg (fun s => s._mpu.cls) r4
  refine ⟨r1, ?_, ?_, ?_, r5, r4, ?_⟩
  · have := r2.hm; rw [haw] at this; exact this
  · have : m'.mon.stdout.written = sp.2.output := congrArg SState.output r3
    exact this.trans c1
  · have : m'.mon.stdin = sp.2.pending := congrArg SState.pending r3
    exact this.trans c2
  · exact ⟨by rw [haw, hcls]; exact hinv.width, ⟨_, by rw [r2.hI, r2.hO]; exact r2.hm⟩⟩

/-- **`io_run_is_replay`**: whatever the program does, the monitor after `n` instructions is the monitor after
replaying, in ONE go, the program-order list of all item accesses of the run through the generated observers
-- the object `C18g.io_trace` / `io_session` are about ("each architectural load/store is one item access"). -/
theorem io_run_is_replay (E : Env) (d : Dev) (n : Nat) (m : IoM) :
    (ioRun E d n m).mon = (replayG E m.mon (traces E d n m)).2 := ioRun_mon E d n m

/-- **`io_consistent_of_safe`**: an instruction all of whose accesses are at physical addresses
(`0 ≤ a ≤ maskOf addrWidth`) and in which no load from an address congruent to `I` is preceded by another
access (load or store) to such an address is `Consistent`.  (Checked on the actual access list of the
instruction, order included: a read-modify-write of `I` -- load, then store -- qualifies.) -/
theorem io_consistent_of_safe (E : Env) (d : Dev) (m : IoM) (I O : Int) (hinv : Inv m.mon)
    (hI : m.mon.getc_addr = some I) (hO : m.mon.putc_addr = some O)
    (hev : ∀ e ∈ traceOf E d m, okEv E e)
    (hs : IoSafe (maskOf m.mon.addrWidth) I (traceOf E d m)) : Consistent E d m := by
  obtain ⟨cells, g⟩ := hinv.good hI hO
  exact consistent_of_safe E d m I O cells g hev hs

/-- **`io_step_memory`**: the generated device model changes its memory function ONLY through logged writes
(`Proofs/IoProgCoh.lean`: every generated handler, every opcode byte, all three devices, no hypothesis), so
 * the device's own memory after ANY instruction is the plain replay of the instruction's access list from the
   memory it started on (the list `traceOf` is complete: it IS everything the instruction did to memory);
 * after an `IoSafe` instruction it agrees with the backing cells of the monitor's observed memory at every
   physical address that is not congruent to `I` (at `I` the backing cell is invisible to every load). -/
theorem io_step_memory (E : Env) (d : Dev) (m : IoM) (I O : Int) (hinv : Inv m.mon)
    (hI : m.mon.getc_addr = some I) (hO : m.mon.putc_addr = some O)
    (hev : ∀ e ∈ traceOf E d m, okEv E e) :
    (ioStep E d m).cpu.mem = (replayPlain (viewG E m.mon) (traceOf E d m)).2 ∧
    (IoSafe (maskOf m.mon.addrWidth) I (traceOf E d m) →
      ∃ cells', (ioStep E d m).mon._mpu.memory = .obs (obsMem m.mon.addrWidth I O cells') ∧
        ∀ a, 0 ≤ a → a ≤ maskOf m.mon.addrWidth →
          a % (maskOf m.mon.addrWidth + 1) ≠ I % (maskOf m.mon.addrWidth + 1) →
          (ioStep E d m).cpu.mem a = cells' a) := by
  obtain ⟨cells, g⟩ := hinv.good hI hO
  refine ⟨ioStep_mem E d m, fun hs => ?_⟩
  obtain ⟨-, s2, -, s4, -⟩ := replayG_spec E m.mon I O cells g (traceOf E d m) hev
  refine ⟨_, ?_, ioStep_cells E d m I O cells g hs⟩
  have := s2.hm
  rw [s4.addrWidth] at this
  exact this

/-- **`io_instruction`** ((c), one instruction of a well-formed machine, any device, a declared opcode, the
device not waiting).  With `A = specAccesses …` the Spec's list for the instruction -- opcode fetch, operand
fetches, `Spec.dataAccesses` (C12) -- and `D = Spec.dataAccesses …`:
  * the item accesses of the instruction are exactly `A` as a multiset (C12 on the state the step runs on);
  * the instruction consumes exactly as many pending bytes as `A` has loads from addresses congruent to `I`
    (an opcode or operand FETCH from `I` consumes input, too);
  * it prints exactly the values it stores to addresses congruent to `O`, and their number is the number of
    such stores in `D` ("once per access": `STA O` prints once, a read-modify-write of `O` prints once);
  * if the instruction is not located at `I` (`NotLocatedAt`), the bytes consumed are the loads from `I` in `D`
    (`LDA I` consumes one; `INC I` consumes one). -/
theorem io_instruction (E : Env) (d : Dev) (m : IoM) (I O : Int) (cells : Int → Int) (h : IoInv d m I O cells)
    (hev : ∀ e ∈ traceOf E d m, okEv E e) (hw : (startOf E m).waiting = false) (mn : Mn) (mo : Mode)
    (hdec : decode d.variant ((startOf E m).mem (startOf E m).pc) = some (mn, mo)) :
    let s := startOf E m
    let size := maskOf m.mon.addrWidth + 1
    let A := specAccesses d.W d.variant mn mo s
    let D := dataAccesses d.W d.variant mn mo (afterOpcode d.W s)
    let T := traceOf E d m
    let m' := ioStep E d m
    (T.map accOf).Perm A ∧
    m'.mon.stdin = m.mon.stdin.drop (A.countP (accLoadAt size I)) ∧
    m'.mon.stdout.written = m.mon.stdout.written ++ storesTo size O T ∧
    (storesTo size O T).length = D.countP (accStoreAt size O) ∧
    (NotLocatedAt size I d.W mn mo s → A.countP (accLoadAt size I) = D.countP (accLoadAt size I)) := by
  intro s size A D T m'
  have hi := startOf_inv E h
  have hacc := stepAccesses_dev d s hi.1 hw mn mo hdec
  obtain ⟨-, -, s3, -, -⟩ := replayG_spec E m.mon I O cells h.good T hev
  obtain ⟨c1, c2⟩ := spec_closed size I O (specOf m.mon cells) T
  obtain ⟨k1, k2⟩ := spec_counts size I O d.W d.variant mn mo s
  have e1 : T.countP (isLoadAt size I) = A.countP (accLoadAt size I) := by
    rw [isLoadAt_accOf]; exact countP_trace (s := s) rfl hacc _
  have e2 : T.countP (isStoreAt size O) = A.countP (accStoreAt size O) := by
    rw [isStoreAt_accOf]; exact countP_trace (s := s) rfl hacc _
  refine ⟨trace_perm (s := s) rfl hacc, ?_, ?_, ?_, fun hn => (k2 hn).1⟩
  · have : m'.mon.stdin = _ := congrArg SState.pending s3
    rw [this, c2, loadsFrom_eq_countP, e1]
    rfl
  · have : m'.mon.stdout.written = _ := congrArg SState.output s3
    rw [this, c1]
    rfl
  · rw [storesTo_length, e2, k1]

/-- **`io_rmw_in_order`**: C12 keeps the accesses of an instruction as a multiset; for the read-modify-write
instructions on memory (ASL LSR ROL ROR INC DEC; 65C02: TSB TRB RMBn SMBn) the access list of the instruction
IS the Spec's list, in the Spec's order: opcode fetch, operand fetches, the load of the effective address, then
the store (`Proofs/IoProgRmw.lean`, all three devices).  So `INC I` loads (consumes) BEFORE it stores. -/
theorem io_rmw_in_order (E : Env) (d : Dev) (m : IoM) (I O : Int) (cells : Int → Int) (h : IoInv d m I O cells)
    (hw : (startOf E m).waiting = false) (mn : Mn) (mo : Mode)
    (hdec : decode d.variant ((startOf E m).mem (startOf E m).pc) = some (mn, mo))
    (hr : mn.isRmw = true) (hacc : mo ≠ .acc) :
    (traceOf E d m).map accOf = specAccesses d.W d.variant mn mo (startOf E m) := by
  have hseq := rmw_seq_dev d (startOf E m) (startOf_inv E h).1 hw mn mo hdec hr hacc
  have h1 : (d.step (startOf E m)).log.map accOf =
      (specAccesses d.W d.variant mn mo (startOf E m)).reverse := by simpa [acl, startOf] using hseq
  unfold traceOf
  rw [List.map_reverse, h1, List.reverse_reverse]

/-- **`io_instruction_consistent`**: an instruction of a well-formed machine that is `InstrOK` is `Consistent`.
`InstrOK`: a waiting 65C02; or a declared opcode, (65Org16 only) all of whose accesses are at physical
addresses, that is (A) not located at `I` with `Spec.dataAccesses` containing no load from `I` or at most one
access to `I` (order-free, C12 being a multiset statement), or (B) a read-modify-write on memory in whose
ordered Spec list no load from `I` follows another access to `I` -- by `rmw_not_located` every zero-page /
absolute (,X) read-modify-write not located at `I`, `INC I` included. -/
theorem io_instruction_consistent (E : Env) (d : Dev) (m : IoM) (I O : Int) (cells : Int → Int)
    (h : IoInv d m I O cells) (hd : d = devOf m.mon._mpu.cls)
    (hw : m.mon.addrWidth = m.mon._mpu.cls.ADDR_WIDTH)
    (hev : ∀ e ∈ traceOf E d m, okEv E e) (hok : InstrOK E d I m) : Consistent E d m :=
  instr_consistent E h hd hw hev hok

/-- (B) of `InstrOK` for the usual case: a read-modify-write (zero page, zero page,X, absolute, absolute,X) whose
opcode and operand bytes do not lie at `I` -- whatever its effective address. -/
theorem rmw_not_located (size I : Int) (W : Nat) (v : Variant) (mn : Mn) (mo : Mode) (s : St)
    (hr : mn.isRmw = true) (hm : mo = .zpg ∨ mo = .zpx ∨ mo = .abs ∨ mo = .abx)
    (hn : NotLocatedAt size I W mn mo s) : NoReloadA size I (specAccesses W v mn mo s) :=
  rmw_noReload size I W v mn mo s hr hm hn

/-- **`io_program_partial`**: the composition stated on the PROGRAM, no hypothesis about the run other than
`InstrOK` of each instruction.  THE GAP to "every program not located at I/O" (why *partial*): the generated CPU
is a function of a plain memory and is not re-translated, so an instruction that needs two DIFFERENT answers
from `I`, or the backing cell of `I`, inside one instruction cannot be represented: a data load from `I` after a
pointer byte was fetched from `I` (`LDA (zp),Y` with the pointer AT `I` and pointing TO `I`), two aliases of `I`
or any address above `$3FFFF` on the 65Org16; undeclared opcode bytes are outside `InstrOK` as well (`io_program`
itself needs none of this, only `Consistent`).  Everything else -- loads, compares, ALU operations, stores,
read-modify-writes, pushes, pulls, jumps, branches, BRK, wherever they point -- is covered.  A well-formed machine (`IoInv`: registers,
cells and pending bytes inside the byte, observers installed at `I` / `O`) whose device is the monitor's device
class, a stream that encodes every value of the byte, `n` instructions each of which is `InstrOK` (and, on the
65Org16, has an opcode cell `< 256`: `OpOK`).  Then every instruction is `Consistent`, every stored value is
printable, before every instruction the state `step()` is applied to is well-formed (`Hist.Inv`: C12's and
C05h's hypothesis), and the conclusions of `io_program` hold. -/
theorem io_program_partial (E : Env) (d : Dev) (n : Nat) (m : IoM) (I O : Int) (cells : Int → Int)
    (h : IoInv d m I O cells) (hd : d = devOf m.mon._mpu.cls)
    (hw : m.mon.addrWidth = m.mon._mpu.cls.ADDR_WIDTH)
    (henc : ∀ v, InB d.W v → E.enc v = true)
    (hop : Always E d (fun m => Py65.Proofs.Hist.OpOK d .step (startOf E m)) n m)
    (hok : Always E d (InstrOK E d I) n m) :
    AllConsistent E d n m ∧ (∀ e ∈ traces E d n m, okEv E e) ∧
    Always E d (fun m => Py65.Proofs.Hist.Inv d (startOf E m)) n m ∧
    let size := maskOf m.mon.addrWidth + 1
    let evs := traces E d n m
    let m' := ioRun E d n m
    let sp := Py65.Spec.MonIO.replay size I O
      { cells := cells, pending := m.mon.stdin, output := m.mon.stdout.written } evs
    seen E d n m = sp.1 ∧
    m'.mon._mpu.memory = .obs (obsMem m.mon.addrWidth I O sp.2.cells) ∧
    m'.mon.stdout.written = m.mon.stdout.written ++ storesTo size O evs ∧
    m'.mon.stdin = m.mon.stdin.drop (loadsFrom size I evs) := by
  have hev := run_okEv E d I O henc n m cells h hop
  have hc := run_consistent E d I O n m cells h hd hw hop hev hok
  have hinv := (run_inv E d I O n m cells h hop hev).1
  refine ⟨hc, hev, always_mono (fun m' ⟨c', h'⟩ => startOf_inv E h') n m hinv, ?_⟩
  intro size evs m' sp
  obtain ⟨r1, r2, r3, r4, -⟩ := run_spec E d I O n m cells h.good hev hc
  obtain ⟨c1, c2⟩ := spec_closed size I O (specOf m.mon cells) evs
  have haw : m'.mon.addrWidth = m.mon.addrWidth := r4.addrWidth
  refine ⟨r1, ?_, ?_, ?_⟩
  · have := r2.hm; rw [haw] at this; exact this
  · have : m'.mon.stdout.written = sp.2.output := congrArg SState.output r3
    exact this.trans c1
  · have : m'.mon.stdin = sp.2.pending := congrArg SState.pending r3
    exact this.trans c2

/-! ### what `Spec.dataAccesses` (C12) says for the instructions the property talks about -/

/-- `LDA abs`: one load of the effective address: `LDA I` consumes exactly one byte. -/
example (s : Py65.Spec.AState) : dataAccesses 8 .nmos .LDA .abs s = [.r (ea 8 .abs s)] := rfl
/-- `STA abs`: one store, no load: `STA O` prints exactly once. -/
example (s : Py65.Spec.AState) : dataAccesses 8 .nmos .STA .abs s = [.w (ea 8 .abs s)] := rfl
/-- `INC abs`: one load, then one store of the same cell: `INC O` prints exactly once (the incremented cell,
loaded from the backing cell: no read observer at `O`); `INC I` consumes exactly one byte and stores the
incremented byte to the backing cell at `I`, which no load can ever see (prints nothing unless `I ≡ O`). -/
example (s : Py65.Spec.AState) : dataAccesses 8 .nmos .INC .abs s = [.r (ea 8 .abs s), .w (ea 8 .abs s)] := rfl

/-! ### non-vacuity: running the GENERATED `__init__`, `step()`, `putc`, `getc` -/

open Py65.Props.C18g (exEnv blank argvOf)

/-- The echo loop body at `$0200`: `LDA $F004 ; STA $F001 ; LDA $F004 ; STA $F001`. -/
def echoProg : Int → Int := fun a =>
  if a = 0x200 then 0xAD else if a = 0x201 then 0x04 else if a = 0x202 then 0xF0
  else if a = 0x203 then 0x8D else if a = 0x204 then 0x01 else if a = 0x205 then 0xF0
  else if a = 0x206 then 0xAD else if a = 0x207 then 0x04 else if a = 0x208 then 0xF0
  else if a = 0x209 then 0x8D else if a = 0x20a then 0x01 else if a = 0x20b then 0xF0
  else 0

/-- A device after `reset` with PC at `pc`. -/
def cpuAt (pc : Int) : St := { (default : St) with pc := pc, sp := 0xff, p := 0x30 }

/-- `Monitor(memory=cells)` built by the GENERATED `__init__` (defaults: 6502, I = `$F004`, O = `$F001`) with
pending input `input`, its device at `pc`. -/
def onMon {α : Type} (cells : Int → Int) (input : List Int) (pc : Int) (k : IoM → α) : Option α :=
  match __init__ exEnv (some (argvOf ["py65mon"])) .mpu6502 (some cells) (some 0xF001) (some 0xF004)
        { blank with stdin := input } with
  | .ok _ σ => some (k ⟨cpuAt pc, σ⟩)
  | _ => none

/-- The echo loop body with pending input "A\n": all four instructions are consistent; the output is "A\r"
(LF delivered as CR), each character once; both bytes are consumed; A holds CR; and the program-order access
list: each `LDA` loads `$F004` once, each `STA` stores to `$F001` once. -/
example :
    onMon echoProg [65, 10] 0x200 (fun m => decide (AllConsistent exEnv .nmos 4 m)) = some true ∧
    onMon echoProg [65, 10] 0x200 (fun m => (ioRun exEnv .nmos 4 m).mon.stdout.written) = some [65, 13] ∧
    onMon echoProg [65, 10] 0x200 (fun m => (ioRun exEnv .nmos 4 m).mon.stdout.flushed) = some 2 ∧
    onMon echoProg [65, 10] 0x200 (fun m => (ioRun exEnv .nmos 4 m).mon.stdin) = some [] ∧
    onMon echoProg [65, 10] 0x200 (fun m => ((ioRun exEnv .nmos 4 m).cpu.a, (ioRun exEnv .nmos 4 m).cpu.pc)) =
      some (13, 0x20c) ∧
    onMon echoProg [65, 10] 0x200 (fun m => traces exEnv .nmos 4 m) =
      some [.r 0x200, .r 0x201, .r 0x202, .r 0xf004, .r 0x203, .r 0x204, .r 0x205, .w 0xf001 65,
            .r 0x206, .r 0x207, .r 0x208, .r 0xf004, .r 0x209, .r 0x20a, .r 0x20b, .w 0xf001 13] ∧
    onMon echoProg [65, 10] 0x200 (fun m => (seen exEnv .nmos 4 m).filterMap id) =
      some [0xAD, 0x04, 0xF0, 65, 0x8D, 0x01, 0xF0, 0xAD, 0x04, 0xF0, 13, 0x8D, 0x01, 0xF0] := by
  decide +kernel

/-- The same on the 65Org16 (`py65mon -m 65Org16`: 16-bit words, 256 K physical memory, the observers at `$F004` /
`$F001` of it) and on the 65C02: `LDA $F004 ; STA $F001` at `$0200`, input "\n". -/
def onMonDev {α : Type} (name : String) (cells : Int → Int) (input : List Int) (pc : Int) (k : IoM → α) : Option α :=
  match __init__ exEnv (some (argvOf ["py65mon", "-m", name])) .mpu6502 (some cells) (some 0xF001) (some 0xF004)
        { blank with stdin := input } with
  | .ok _ σ => some (k ⟨cpuAt pc, σ⟩)
  | _ => none

def org16Prog : Int → Int := fun a =>
  if a = 0x200 then 0xAD else if a = 0x201 then 0xF004 else if a = 0x202 then 0
  else if a = 0x203 then 0x8D else if a = 0x204 then 0xF001 else if a = 0x205 then 0 else 0

example :
    onMonDev "65Org16" org16Prog [10] 0x200 (fun m => (m.mon._mpu.cls, m.mon.addrWidth)) = some (.mpu65org16, 32) ∧
    onMonDev "65Org16" org16Prog [10] 0x200 (fun m => decide (AllConsistent exEnv .org16 2 m)) = some true ∧
    onMonDev "65Org16" org16Prog [10] 0x200 (fun m => (ioRun exEnv .org16 2 m).mon.stdout.written) = some [13] ∧
    onMonDev "65Org16" org16Prog [10] 0x200 (fun m => (ioRun exEnv .org16 2 m).mon.stdin) = some [] ∧
    onMonDev "65Org16" org16Prog [10] 0x200 (fun m => traces exEnv .org16 2 m) =
      some [.r 0x200, .r 0x201, .r 0x202, .r 0xf004, .r 0x203, .r 0x204, .r 0x205, .w 0xf001 13] ∧
    onMonDev "65C02" echoProg [10] 0x200 (fun m => decide (AllConsistent exEnv .cmos 2 m)) = some true ∧
    onMonDev "65C02" echoProg [10] 0x200 (fun m => (ioRun exEnv .cmos 2 m).mon.stdout.written) = some [13] ∧
    onMonDev "65C02" echoProg [10] 0x200 (fun m => (ioRun exEnv .cmos 2 m).mon.stdin) = some [] := by
  decide +kernel

/-- `INC $F001 ; INC $F004` at `$0300`, the cell at `$F001` holds 'A', pending input "A\n". -/
def incProg : Int → Int := fun a =>
  if a = 0x300 then 0xEE else if a = 0x301 then 0x01 else if a = 0x302 then 0xF0
  else if a = 0x303 then 0xEE else if a = 0x304 then 0x04 else if a = 0x305 then 0xF0
  else if a = 0xF001 then 65 else 0

/-- Instructions that read AND write an I/O cell.  `INC O` loads the backing cell ('A'), prints 'B' exactly
once and consumes nothing.  `INC I` consumes exactly one byte ('A'), prints nothing, and stores 'B' to the
backing cell at `I` -- which no load can see: the next load from `I` returns the next pending byte.  Both are
consistent (load before store) and `IoSafe`. -/
example :
    onMon incProg [65, 10] 0x300 (fun m => decide (AllConsistent exEnv .nmos 2 m)) = some true ∧
    onMon incProg [65, 10] 0x300 (fun m => traces exEnv .nmos 2 m) =
      some [.r 0x300, .r 0x301, .r 0x302, .r 0xf001, .w 0xf001 66,
            .r 0x303, .r 0x304, .r 0x305, .r 0xf004, .w 0xf004 66] ∧
    onMon incProg [65, 10] 0x300 (fun m => decide (IoSafe 0xffff 0xF004 (traceOf exEnv .nmos (ioStep exEnv .nmos m)))) =
      some true ∧
    onMon incProg [65, 10] 0x300 (fun m => (ioStep exEnv .nmos m).mon.stdout.written) = some [66] ∧
    onMon incProg [65, 10] 0x300 (fun m => (ioStep exEnv .nmos m).mon.stdin) = some [65, 10] ∧
    onMon incProg [65, 10] 0x300 (fun m => (ioRun exEnv .nmos 2 m).mon.stdout.written) = some [66] ∧
    onMon incProg [65, 10] 0x300 (fun m => (ioRun exEnv .nmos 2 m).mon.stdin) = some [10] ∧
    onMon incProg [65, 10] 0x300 (fun m => viewG exEnv (ioRun exEnv .nmos 2 m).mon 0xF004) = some 13 := by
  decide +kernel

/-- `located_at_I`: a program located AT `I` is outside the composition, and `Consistent` says so.  PC = `$F004`,
pending input `AD 42`, the cells `$F005/6` hold `04 F0`: the opcode FETCH consumes `$AD` (`LDA abs`), the operand
is `$F004`, the data load from `I` must now see the NEXT byte `$42` -- the plain memory the generated CPU ran on
answers `$AD` again.  The observed memory's answers (from the log) and the CPU's differ; both bytes are gone. -/
def atIProg : Int → Int := fun a => if a = 0xF005 then 0x04 else if a = 0xF006 then 0xF0 else 0

example :
    onMon atIProg [0xAD, 0x42] 0xF004 (fun m => decide (Consistent exEnv .nmos m)) = some false ∧
    onMon atIProg [0xAD, 0x42] 0xF004 (fun m => traceOf exEnv .nmos m) =
      some [.r 0xf004, .r 0xf005, .r 0xf006, .r 0xf004] ∧
    onMon atIProg [0xAD, 0x42] 0xF004 (fun m => seenOf exEnv .nmos m) =
      some [some 0xAD, some 0x04, some 0xF0, some 0xAD] ∧
    onMon atIProg [0xAD, 0x42] 0xF004 (fun m => (replayG exEnv m.mon (traceOf exEnv .nmos m)).1) =
      some [some 0xAD, some 0x04, some 0xF0, some 0x42] ∧
    onMon atIProg [0xAD, 0x42] 0xF004 (fun m => (ioStep exEnv .nmos m).mon.stdin) = some [] ∧
    onMon atIProg [0xAD, 0x42] 0xF004 (fun m => decide (IoSafe 0xffff 0xF004 (traceOf exEnv .nmos m))) =
      some false := by
  decide +kernel

/-! ### non-vacuity of `io_program_partial`: its hypotheses hold for the echo program -/

/-- A monitor state with the observers installed (what `_reset` builds: `C18g.reset_zero_is_an_address`,
`MonIOGenEq.Inv`) over the echo program, input "A\n" pending. -/
def echoMon : IoSt :=
  { blank with
    getc_addr := some 0xF004, putc_addr := some 0xF001, addrWidth := 16,
    _mpu := { id := 0, cls := .mpu6502, memory := .obs (obsMem 16 0xF004 0xF001 echoProg) },
    stdin := [65, 10] }

def echoM : IoM := ⟨cpuAt 0x200, echoMon⟩

theorem echo_inv : IoInv .nmos echoM 0xF004 0xF001 echoProg := by
  have hb : ∀ v : Int, 0 ≤ v → v < 256 → InB Dev.nmos.W v := fun v h0 h1 => ⟨h0, h1⟩
  refine ⟨⟨rfl, rfl, rfl⟩,
    ⟨by decide, by decide, by decide, by decide, by decide, by decide, fun _ => (show (0:Int) ≤ 0 ∧ (0:Int) ≤ 255 from ⟨by decide, by decide⟩)⟩,
    fun _ => rfl, fun k => ?_, ?_⟩
  · unfold echoProg
    repeat' split
    all_goals exact hb _ (by decide) (by decide)
  · intro b hbm
    have : b = 65 ∨ b = 10 := by simpa [echoM, echoMon] using hbm
    rcases this with rfl | rfl <;> exact hb _ (by decide) (by decide)

/-- The four instructions of the echo loop body are `InstrOK`: declared, not located at `I`, one access to `I`
at most (`LDA $F004`: one load; `STA $F001`: none). -/
theorem echo_ok : Always exEnv .nmos (InstrOK exEnv .nmos 0xF004) 4 echoM := by
  refine ⟨Or.inr ⟨by decide +kernel, .LDA, .abs, by decide +kernel, by decide,
            Or.inl ⟨by unfold NotLocatedAt; decide +kernel, by decide +kernel⟩⟩,
          Or.inr ⟨by decide +kernel, .STA, .abs, by decide +kernel, by decide,
            Or.inl ⟨by unfold NotLocatedAt; decide +kernel, by decide +kernel⟩⟩,
          Or.inr ⟨by decide +kernel, .LDA, .abs, by decide +kernel, by decide,
            Or.inl ⟨by unfold NotLocatedAt; decide +kernel, by decide +kernel⟩⟩,
          Or.inr ⟨by decide +kernel, .STA, .abs, by decide +kernel, by decide,
            Or.inl ⟨by unfold NotLocatedAt; decide +kernel, by decide +kernel⟩⟩, trivial⟩

/-- ... so `io_program_partial` applies to it (6502: `OpOK` asks nothing; the example stream encodes everything). -/
example : AllConsistent exEnv .nmos 4 echoM ∧
    (ioRun exEnv .nmos 4 echoM).mon.stdout.written = [] ++ storesTo 0x10000 0xF001 (traces exEnv .nmos 4 echoM) ∧
    (ioRun exEnv .nmos 4 echoM).mon.stdin = [65, 10].drop (loadsFrom 0x10000 0xF004 (traces exEnv .nmos 4 echoM)) := by
  have hop := always_opOK exEnv .nmos (by decide) 4 echoM
  obtain ⟨h1, -, -, h2⟩ := io_program_partial exEnv .nmos 4 echoM 0xF004 0xF001 echoProg echo_inv rfl rfl
    (fun _ _ => rfl) hop echo_ok
  exact ⟨h1, h2.2.2.1, h2.2.2.2⟩

/-- `INC $F004` (= `INC I`) at `$0300` is `InstrOK` by route (B): a read-modify-write not located at `I`. -/
def incIM : IoM :=
  ⟨cpuAt 0x300, { echoMon with _mpu := { id := 0, cls := .mpu6502, memory := .obs (obsMem 16 0xF004 0xF001
      (fun a => if a = 0x300 then 0xEE else if a = 0x301 then 0x04 else if a = 0x302 then 0xF0 else 0)) } }⟩

example : InstrOK exEnv .nmos 0xF004 incIM :=
  Or.inr ⟨by decide +kernel, .INC, .abs, by decide +kernel, by decide,
    Or.inr ⟨rfl, by decide, rmw_not_located _ _ _ _ _ _ _ rfl (Or.inr (Or.inr (Or.inl rfl)))
      (by unfold NotLocatedAt; decide +kernel)⟩⟩

end Py65.Props.C18h
