/-
C17h -- RUN CONTROL, CYCLES AND CLOSURE (composition of C17g with C13h and C05h; own namespace
`Py65.Props.C17h`).

PROPERTY THEOREMS ONLY (helper lemmas: `Proofs/Compose2Step.lean`, `Compose2Run.lean`).  C17 / C17g say that
`goto a` / `return` / `step` of the monitor (the GENERATED `Monitor._run`, `do_goto`, `do_return`, `do_step`,
`Gen/MonRunGen.lean`) are iterations `step^[n]` of the device step up to the first stop code or
breakpoint, for ANY step function.  C13h and C05h are about histories of calls of the GENERATED devices.
Here `step` is a generated device (`Hist.Dev.step`: `dev6502.step`, `dev65c02.step`, `dev65org16.step`),
and the three are composed: when the command returns after `n` instructions,

  * `run_cycles`          the device's cycle counter has advanced by exactly the DOCUMENTED cycles of those `n`
                          steps (`C13h.docCycles`: base count, page-crossing and branch terms, 0 for an
                          undeclared byte, 1 for a waiting 65C02), and it never decreased on the way;
  * `run_cycles_6502`     the 6502, no side condition at all;
  * `run_cycles_65c02_exact`  the 65C02, no side condition: documented sum minus one per executed BRA (the
                          recorded finding), never decreasing;
  * `run_cycles_65org16`  the 65Org16: every opcode cell executed holds a byte 0..255;
  * `run_closed`          the state at the stop - and every state on the way - is well-formed (`Hist.Inv`:
                          registers inside the byte, PC inside the address space, cells inside the byte);
  * `goto_cycles_closed`, `return_cycles_closed`, `step_cycles_closed`   the three commands.

Hypotheses: those of C13h / C05h and nothing else - the start state is well-formed (`Hist.Inv`; for `goto a`
the parsed address is an address of the device); on the 65Org16 the opcode cells executed hold bytes
(`CellsOK`; above 255 the real `step()` raises IndexError); for the documented count on the 65C02 no BRA is
executed (`NoBra`; `run_cycles_65c02_exact` needs nothing).  Well-formedness along the run is proved (C05h),
not assumed.  `n` is the number C17g characterises: the least `n ≥ 1` at which the stop condition holds
(`Stopped`, the conclusion of `C17g.run_is_iterate`).
-/
import Py65.Props.C17g
import Py65.Proofs.Compose2Run

namespace Py65.Props.C17h
open Py65 Py65.Gen Py65.Spec Py65.Proofs Py65.Proofs.Hist Py65.Proofs.Compose2
open Py65.Model.PyStr Py65.Model.AddrParser Py65.Model.MonRun Py65.Model.MonGenRt
open Py65.Props.C13h (docCycles braCount CycOK)

/-- What C17g (`run_is_iterate`) says of a `_run(codes)` that took the monitor from `σ` to `σ'` in `n`
instructions: `n ≥ 1`, the device is `step^[n]` of where it started, the breakpoint list is untouched, the
stop condition holds there and held after no earlier `0 < m < n` steps. -/
def Stopped (dev : Dev) (codes : List Int) (σ σ' : RunSt) (n : Nat) : Prop :=
  1 ≤ n ∧ σ'.mpu = dev.step^[n] σ.mpu ∧ σ'.breakpoints = σ.breakpoints ∧
  (atStopcode codes σ'.mpu = true ∨ atBreakpoint σ.breakpoints σ'.mpu = true) ∧
  ∀ m, 0 < m → m < n →
    atStopcode codes (dev.step^[m] σ.mpu) = false ∧ atBreakpoint σ.breakpoints (dev.step^[m] σ.mpu) = false

/-- C17g for a generated device. -/
theorem run_stops (dev : Dev) (dis : Str → St → List Str) (dm : Py65.Model.MonMem.Dev) (P : Parser)
    (fuel : Nat) (codes : List Int) (σ σ' : RunSt)
    (h : MonRunGen._run dev.step dis dm P fuel codes σ = .ok () σ') :
    ∃ n, n ≤ fuel ∧ Stopped dev codes σ σ' n := by
  obtain ⟨n, h1, h2, h3, h4, h5, h6, _⟩ := (Py65.Props.C17g.run_is_iterate dev.step dis dm P fuel codes σ).2 σ' h
  exact ⟨n, h2, h1, h3, h4, h5, h6⟩

/-- **`run_cycles`.**  When the generated `_run` (the body of `goto` / `return`) returns, after `n`
instructions, then - if the 65Org16 opcode cells executed hold bytes and the 65C02 executed no BRA - the
cycle counter of the device is its value at the start plus the documented cycles of those `n` steps, each
taken at the state the device was in; and it never decreased: for every `m ≤ n` the counter after `m`
steps lies between the start value and the final value. -/
theorem run_cycles (dev : Dev) (dis : Str → St → List Str) (dm : Py65.Model.MonMem.Dev) (P : Parser)
    (fuel : Nat) (codes : List Int) (σ σ' : RunSt) (hi : Inv dev σ.mpu)
    (h : MonRunGen._run dev.step dis dm P fuel codes σ = .ok () σ') :
    ∃ n, n ≤ fuel ∧ Stopped dev codes σ σ' n ∧
      (CellsOK dev n σ.mpu → NoBra dev n σ.mpu →
        σ'.mpu.cycles = σ.mpu.cycles + docCycles dev (List.replicate n Op.step) σ.mpu ∧
        ∀ m, m ≤ n → σ.mpu.cycles ≤ (dev.step^[m] σ.mpu).cycles ∧
          (dev.step^[m] σ.mpu).cycles ≤ σ'.mpu.cycles) := by
  obtain ⟨n, hn, hs⟩ := run_stops dev dis dm P fuel codes σ σ' h
  refine ⟨n, hn, hs, fun h1 h2 => ?_⟩
  rw [hs.2.1]
  exact ⟨iter_cycles dev n σ.mpu hi h1 h2, fun m hm => iter_cycles_mono dev n σ.mpu hi h1 h2 m hm⟩

/-- The 6502: any well-formed start state, any program (declared and undeclared opcodes, binary and decimal
mode) - no side condition. -/
theorem run_cycles_6502 (dis : Str → St → List Str) (dm : Py65.Model.MonMem.Dev) (P : Parser)
    (fuel : Nat) (codes : List Int) (σ σ' : RunSt) (hs : WF dev6502.cfg σ.mpu) (hw : σ.mpu.waiting = false)
    (h : MonRunGen._run (Dev.step .nmos) dis dm P fuel codes σ = .ok () σ') :
    ∃ n, n ≤ fuel ∧ Stopped .nmos codes σ σ' n ∧
      σ'.mpu.cycles = σ.mpu.cycles + docCycles .nmos (List.replicate n Op.step) σ.mpu ∧
      ∀ m, m ≤ n → σ.mpu.cycles ≤ ((Dev.step .nmos)^[m] σ.mpu).cycles ∧
        ((Dev.step .nmos)^[m] σ.mpu).cycles ≤ σ'.mpu.cycles := by
  obtain ⟨n, hn, hst, hc⟩ := run_cycles .nmos dis dm P fuel codes σ σ' ⟨hs, fun _ => hw⟩ h
  exact ⟨n, hn, hst, hc (fun hd => by cases hd) (fun hd => by cases hd)⟩

/-- The 65C02, EVERY program (BRA included, a device that went to sleep in WAI included): the counter is the
start value plus the documented cycles minus one for every BRA executed (py65 charges a taken BRA one cycle
less than the data sheet: the recorded finding), and it never decreased. -/
theorem run_cycles_65c02_exact (dis : Str → St → List Str) (dm : Py65.Model.MonMem.Dev) (P : Parser)
    (fuel : Nat) (codes : List Int) (σ σ' : RunSt) (hs : WF dev65c02.cfg σ.mpu)
    (h : MonRunGen._run (Dev.step .cmos) dis dm P fuel codes σ = .ok () σ') :
    ∃ n, n ≤ fuel ∧ Stopped .cmos codes σ σ' n ∧
      σ'.mpu.cycles = σ.mpu.cycles + docCycles .cmos (List.replicate n Op.step) σ.mpu -
        braCount (List.replicate n Op.step) σ.mpu ∧
      ∀ m, m ≤ n → σ.mpu.cycles ≤ ((Dev.step .cmos)^[m] σ.mpu).cycles ∧
        ((Dev.step .cmos)^[m] σ.mpu).cycles ≤ σ'.mpu.cycles := by
  obtain ⟨n, hn, hst⟩ := run_stops .cmos dis dm P fuel codes σ σ' h
  refine ⟨n, hn, hst, ?_, fun m hm => ?_⟩
  · rw [hst.2.1]; exact iter_cycles_65c02 n σ.mpu hs
  · rw [hst.2.1]; exact iter_cycles_mono_65c02 n σ.mpu hs m hm

/-- The 65Org16: every opcode cell the run executes holds a byte 0..255. -/
theorem run_cycles_65org16 (dis : Str → St → List Str) (dm : Py65.Model.MonMem.Dev) (P : Parser)
    (fuel : Nat) (codes : List Int) (σ σ' : RunSt) (hs : WF dev65org16.cfg σ.mpu) (hw : σ.mpu.waiting = false)
    (h : MonRunGen._run (Dev.step .org16) dis dm P fuel codes σ = .ok () σ') :
    ∃ n, n ≤ fuel ∧ Stopped .org16 codes σ σ' n ∧
      ((∀ m, m < n → ((Dev.step .org16)^[m] σ.mpu).mem ((Dev.step .org16)^[m] σ.mpu).pc < 256) →
        σ'.mpu.cycles = σ.mpu.cycles + docCycles .org16 (List.replicate n Op.step) σ.mpu ∧
        ∀ m, m ≤ n → σ.mpu.cycles ≤ ((Dev.step .org16)^[m] σ.mpu).cycles ∧
          ((Dev.step .org16)^[m] σ.mpu).cycles ≤ σ'.mpu.cycles) := by
  obtain ⟨n, hn, hst, hc⟩ := run_cycles .org16 dis dm P fuel codes σ σ' ⟨hs, fun _ => hw⟩ h
  exact ⟨n, hn, hst, fun hcells => hc (fun _ => hcells) (fun hd => by cases hd)⟩

/-- **`run_closed`.**  When the generated `_run` returns, the device state at the stop is well-formed, and so
was every state on the way (65Org16: the opcode cells executed hold bytes). -/
theorem run_closed (dev : Dev) (dis : Str → St → List Str) (dm : Py65.Model.MonMem.Dev) (P : Parser)
    (fuel : Nat) (codes : List Int) (σ σ' : RunSt) (hi : Inv dev σ.mpu)
    (h : MonRunGen._run dev.step dis dm P fuel codes σ = .ok () σ') :
    ∃ n, n ≤ fuel ∧ Stopped dev codes σ σ' n ∧
      (CellsOK dev n σ.mpu → Inv dev σ'.mpu ∧ ∀ m, m ≤ n → Inv dev (dev.step^[m] σ.mpu)) := by
  obtain ⟨n, hn, hs⟩ := run_stops dev dis dm P fuel codes σ σ' h
  refine ⟨n, hn, hs, fun h1 => ?_⟩
  rw [hs.2.1]
  exact ⟨iter_inv dev n σ.mpu hi h1 n (Nat.le_refl _), iter_inv dev n σ.mpu hi h1⟩

/-- 6502 and 65C02: unconditionally. -/
theorem run_closed_8bit (dev : Dev) (hd : dev ≠ .org16) (dis : Str → St → List Str)
    (dm : Py65.Model.MonMem.Dev) (P : Parser) (fuel : Nat) (codes : List Int) (σ σ' : RunSt)
    (hi : Inv dev σ.mpu) (h : MonRunGen._run dev.step dis dm P fuel codes σ = .ok () σ') :
    WF dev.cfg σ'.mpu := by
  obtain ⟨n, _, _, hc⟩ := run_closed dev dis dm P fuel codes σ σ' hi h
  exact (hc (fun h => absurd h hd)).1.1

/-! ### the commands -/

/-- `goto <a>` (an argument the address parser reads as an address `a` of the device): the run starts from
the same state with PC set to `a`; cycles and closure as for `_run([BRK])`. -/
theorem goto_cycles_closed (dev : Dev) (dis : Str → St → List Str) (dm : Py65.Model.MonMem.Dev) (P : Parser)
    (fuel : Nat) (args : Str) (a : Int) (σ σ' : RunSt) (hi : Inv dev σ.mpu) (hargs : args ≠ [])
    (hp : numberL P args = .ok a) (ha : 0 ≤ a ∧ a ≤ dev.cfg.addrMask)
    (h : MonRunGen.do_goto dev.step dis dm P fuel args σ = .ok () σ') :
    let s0 : St := { σ.mpu with pc := a }
    ∃ n, n ≤ fuel ∧ Stopped dev [0x00] { mpu := s0, breakpoints := σ.breakpoints, out := σ.out } σ' n ∧
      (CellsOK dev n s0 → Inv dev σ'.mpu) ∧
      (CellsOK dev n s0 → NoBra dev n s0 →
        σ'.mpu.cycles = σ.mpu.cycles + docCycles dev (List.replicate n Op.step) s0 ∧
        σ.mpu.cycles ≤ σ'.mpu.cycles) := by
  intro s0
  rw [(Py65.Props.C17g.commands_are_runs dev.step dis dm P fuel args σ).1 a hargs hp] at h
  have hi0 : Inv dev s0 := ⟨⟨hi.1.a, hi.1.x, hi.1.y, hi.1.sp, hi.1.p, ha, hi.1.mem⟩, hi.2⟩
  obtain ⟨n, hn, hs, hc⟩ := run_cycles dev dis dm P fuel [0x00] _ σ' hi0 h
  refine ⟨n, hn, hs, fun h1 => ?_, fun h1 h2 => ⟨(hc h1 h2).1, ?_⟩⟩
  · rw [hs.2.1]; exact iter_inv dev n s0 hi0 h1 n (Nat.le_refl _)
  · have := ((hc h1 h2).2 n (Nat.le_refl _)).1
    have e : ((dev.step)^[n] s0).cycles = σ'.mpu.cycles := by rw [hs.2.1]
    rw [e] at this
    exact this

/-- `return`: `_run([RTS, RTI])` from the current state. -/
theorem return_cycles_closed (dev : Dev) (dis : Str → St → List Str) (dm : Py65.Model.MonMem.Dev) (P : Parser)
    (fuel : Nat) (args : Str) (σ σ' : RunSt) (hi : Inv dev σ.mpu)
    (h : MonRunGen.do_return dev.step dis dm P fuel args σ = .ok () σ') :
    ∃ n, n ≤ fuel ∧ Stopped dev [0x60, 0x40] σ σ' n ∧
      (CellsOK dev n σ.mpu → Inv dev σ'.mpu) ∧
      (CellsOK dev n σ.mpu → NoBra dev n σ.mpu →
        σ'.mpu.cycles = σ.mpu.cycles + docCycles dev (List.replicate n Op.step) σ.mpu ∧
        σ.mpu.cycles ≤ σ'.mpu.cycles) := by
  rw [(Py65.Props.C17g.commands_are_runs dev.step dis dm P fuel args σ).2.2.2.1] at h
  obtain ⟨n, hn, hs, hc⟩ := run_cycles dev dis dm P fuel [0x60, 0x40] σ σ' hi h
  refine ⟨n, hn, hs, fun h1 => ?_, fun h1 h2 => ⟨(hc h1 h2).1, ?_⟩⟩
  · rw [hs.2.1]; exact iter_inv dev n σ.mpu hi h1 n (Nat.le_refl _)
  · have := ((hc h1 h2).2 n (Nat.le_refl _)).1
    have e : ((dev.step)^[n] σ.mpu).cycles = σ'.mpu.cycles := by rw [hs.2.1]
    rw [e] at this
    exact this

/-- `step`: exactly one `mpu.step()`; the counter advances by the documented cycles of that instruction
(`Spec.stepCycles`), the state stays well-formed. -/
theorem step_cycles_closed (dev : Dev) (dis : Str → St → List Str) (dm : Py65.Model.MonMem.Dev) (P : Parser)
    (args : Str) (σ : RunSt) (hi : Inv dev σ.mpu) :
    ∃ σ', MonRunGen.do_step dev.step dis dm P args σ = .ok () σ' ∧ σ'.mpu = dev.step σ.mpu ∧
      σ'.breakpoints = σ.breakpoints ∧
      (OpOK dev .step σ.mpu → Inv dev σ'.mpu) ∧
      (CycOK dev .step σ.mpu →
        σ'.mpu.cycles = σ.mpu.cycles + stepCycles dev.W dev.variant (core σ.mpu) ∧
        σ.mpu.cycles ≤ σ'.mpu.cycles) := by
  obtain ⟨σ', h1, h2, h3, _⟩ := (Py65.Props.C17g.commands_are_runs dev.step dis dm P 0 args σ).2.2.2.2
  have h2' : σ'.mpu = dev.step σ.mpu := h2
  refine ⟨σ', h1, h2', h3, fun ho => ?_, fun hc => ?_⟩
  · rw [h2']; exact Py65.Props.C05h.closed_step dev σ.mpu hi ho
  · rw [h2']
    have := Py65.Props.C13h.step_cycles_dev dev σ.mpu hi hc
    refine ⟨this, ?_⟩
    have := Py65.Props.C13h.stepCycles_nonneg dev.W dev.variant (core σ.mpu)
    omega

/-! ### non-vacuity: the generated `_run` / `do_goto` / `do_step` over the generated devices, run by the kernel -/

/-- 6502: `$0000 LDA $12FF,X` with X = 1 (page crossing: 5 cycles), `$0003 NOP` (2), `$0004 BRK` (stop code). -/
def demoMem : Int → Int := fun k =>
  if k = 0 then 0xbd else if k = 1 then 0xff else if k = 2 then 0x12 else if k = 3 then 0xea
  else if k = 4 then 0x00 else 0xea

def demoState : St := { (default : St) with x := 1, cycles := 100, mem := demoMem }

def demoP : Parser := ⟨16, 16, []⟩

def obs (r : Flow RunSt Unit) : Option (Int × Int × Nat) :=
  match r with
  | .ok _ σ => some (σ.mpu.pc, σ.mpu.cycles, σ.out.length)
  | _ => none

theorem demo_wf : WF dev6502.cfg demoState ∧ demoState.waiting = false := by
  refine ⟨⟨by decide, by decide, by decide, by decide, by decide, by decide, ?_⟩, rfl⟩
  intro k; simp only [demoState, demoMem]; (repeat' split) <;> decide

/-- the generated `_run([BRK])` stops after two instructions at `$0004`, counter 100 → 107; the documented
cycles of the two steps are 5 + 2 -/
example : obs (MonRunGen._run (Dev.step .nmos) (fun _ _ => []) Py65.Model.MonMem.dev8 demoP 50 [0x00]
      { mpu := demoState, breakpoints := [], out := [] }) = some (4, 107, 0) ∧
    docCycles .nmos (List.replicate 2 Op.step) demoState = 7 := by decide +kernel

/-- the hypotheses of `run_cycles_6502` hold of it -/
example : ∃ σ', MonRunGen._run (Dev.step .nmos) (fun _ _ => []) Py65.Model.MonMem.dev8 demoP 50 [0x00]
      { mpu := demoState, breakpoints := [], out := [] } = .ok () σ' ∧ WF dev6502.cfg demoState :=
  ⟨_, (C17g.run_complete (Dev.step .nmos) (fun _ _ => []) Py65.Model.MonMem.dev8 demoP 50 [0x00]
      { mpu := demoState, breakpoints := [], out := [] } 2 (by decide) (by decide) (by decide +kernel)
      (by intro m h0 h2; obtain rfl : m = 1 := by omega
          decide +kernel)).choose_spec.1, demo_wf.1⟩

/-- `goto 0` with a breakpoint at `$0003` (number 1; number 0 deleted): one instruction, 5 cycles, one line -/
example : obs (MonRunGen.do_goto (Dev.step .nmos) (fun _ _ => []) Py65.Model.MonMem.dev8 demoP 50 "0".toList
      { mpu := { demoState with pc := 0x300 }, breakpoints := [none, some 3], out := [] }) = some (3, 105, 1) ∧
    numberL demoP "0".toList = .ok 0 := by decide +kernel

/-- `step`: one instruction -/
example : obs (MonRunGen.do_step (Dev.step .nmos) (fun _ _ => []) Py65.Model.MonMem.dev8 demoP []
      { mpu := demoState, breakpoints := [], out := [] }) = some (3, 105, 0) ∧
    stepCycles 8 .nmos (core demoState) = 5 := by decide +kernel

/-- 65C02, the exact form: `BRA +0` then BRK - one instruction, documented 3, counted 2 (`braCount = 1`). -/
def braState : St := { (default : St) with mem := fun k => if k = 0 then 0x80 else 0x00 }

example : obs (MonRunGen._run (Dev.step .cmos) (fun _ _ => []) Py65.Model.MonMem.dev8 demoP 50 [0x00]
      { mpu := braState, breakpoints := [], out := [] }) = some (2, 2, 0) ∧
    docCycles .cmos (List.replicate 1 Op.step) braState = 3 ∧
    braCount (List.replicate 1 Op.step) braState = 1 := by decide +kernel

/-- 65Org16: `LDA #$1234`, `NOP`, BRK; every opcode cell executed is a byte (`CellsOK`). -/
def orgMem : Int → Int := fun k =>
  if k = 0 then 0xa9 else if k = 1 then 0x1234 else if k = 2 then 0xea else if k = 3 then 0x00 else 0xea

def orgState : St := { (default : St) with mem := orgMem }

example : obs (MonRunGen._run (Dev.step .org16) (fun _ _ => []) Py65.Model.MonMem.dev16 ⟨32, 16, []⟩ 50 [0x00]
      { mpu := orgState, breakpoints := [], out := [] }) = some (3, 4, 0) ∧
    docCycles .org16 (List.replicate 2 Op.step) orgState = 4 ∧
    (∀ m, m < 2 → ((Dev.step .org16)^[m] orgState).mem ((Dev.step .org16)^[m] orgState).pc < 256) := by
  decide +kernel

end Py65.Props.C17h
