/-
C06h -- subroutine / interrupt pairing at ANY NESTING DEPTH, over histories of the GENERATED devices
(second C06 file, own namespace `Py65.Props.C06h`).

PROPERTY THEOREMS ONLY (helper lemmas: Proofs/Hist.lean, HistStep.lean, HistPairing.lean, Pairing.lean).
C06 proves the one-level pairing on the programming model (`rts_after_jsr`, `rti_after_interrupt`,
`rti_after_brk`).  Here it is lifted to lists of calls `step() / irq() / nmi() / reset()` on the three
generated devices (`Hist.run`) and to frames nested to arbitrary depth.

A frame is opened by (`Hist.Entry`) a step at JSR `$20`, a step at BRK `$00`, a taken `irq()` (I clear),
or an `nmi()`; it is closed by (`Hist.Exit`) a step at RTS `$60` (JSR) resp. RTI `$40` (the others).
`Balanced d P s ops` - "the history `ops`, started in `s`, is balanced and respects the cells `P`" - is
defined inductively:
    nil     the empty history;
    block   a block of calls that is ASSUMED to have a neutral NET effect on the stack: after the block
            SP is what it was before it and no cell of `P` has another value (`Quiet`; inside the block
            SP may move, e.g. PHA ... PLA, PHP ... PLP, TSX/TXS games - only the net effect counts; this
            is the only assumption about the inner code), then a balanced rest; `Balanced.plain` is the
            special case of a single call that leaves SP and `P` alone;
    frame   entry · body · matching exit · rest, where the entry's frame cells do not collide with `P`
            (the stack has not wrapped into an enclosing frame), the body is balanced AND respects the
            new frame's cells in addition to `P`, and the rest is balanced.
The body of a frame may itself contain frames, to any depth, of all four kinds, interleaved.

  * `balanced_restores`  a balanced history ends with the SP it started with and with every cell of `P`
                         unchanged (and in a well-formed state);
  * `frame_resumes`      entry · balanced body · exit: execution resumes right after the JSR (PC + 3), two
                         bytes after the BRK opcode, resp. at the interrupted PC; SP is the caller's; for
                         BRK / irq / nmi the status register is the interrupted one (bits 4/5, which are
                         not architectural, aside); all modulo the address space / stack page, i.e. for
                         EVERY stack pointer including wrap-around, both widths, all three devices;
  * `frame_resumes_anywhere`  the same for a frame anywhere inside a longer history;
  * `plain_step`         a checkable sufficient condition for the assumption on inner code: a step at any
                         declared opcode that is not a stack/SP instruction (and not ADC/SBC) and whose
                         effective address is not a protected cell is `Plain`.
No hypothesis about where the stack lies relative to the code: JSR is covered also when its pushes
overwrite its own operand bytes (`Hist.jsr_step`), which C01-C03 exclude.
-/
import Py65.Proofs.HistPairing

namespace Py65.Props.C06h
open Py65 Py65.Gen Py65.Spec Py65.Proofs Py65.Proofs.Hist

/-- What is ASSUMED of a block of calls of the inner code that neither opens nor closes a frame: its calls
are inside the quantifiers of C05 (`OpOK`), and its NET effect leaves the stack pointer as it was and the
cells `P` with the values they had. -/
def Quiet (d : Dev) (P : List Int) (ops : List Op) (s : St) : Prop :=
  Along d (OpOK d) ops s ∧ (run d ops s).sp = s.sp ∧ ∀ c ∈ P, (run d ops s).mem c = s.mem c

/-- The single-call case: the call leaves SP as it was and writes none of the cells `P`. -/
def Plain (d : Dev) (P : List Int) (o : Op) (s : St) : Prop :=
  OpOK d o s ∧ (apply d o s).sp = s.sp ∧ ∀ c ∈ P, (apply d o s).mem c = s.mem c

/-- Balanced histories (see the file header).  `P`: the protected cells (those of the enclosing frames
and whatever else the caller wants kept). -/
inductive Balanced (d : Dev) : List Int → St → List Op → Prop
  | nil (P : List Int) (s : St) : Balanced d P s []
  | block (P : List Int) (s : St) (ops rest : List Op) :
      Quiet d P ops s → Balanced d P (run d ops s) rest → Balanced d P s (ops ++ rest)
  | frame (P : List Int) (s : St) (k : Kind) (e : Op) (body : List Op) (x : Op) (rest : List Op) :
      Entry k e s →
      (∀ c ∈ cells d.W k s.sp, c ∉ P) →
      Balanced d (cells d.W k s.sp ++ P) (apply d e s) body →
      Exit k x (run d body (apply d e s)) →
      Balanced d P (apply d x (run d body (apply d e s))) rest →
      Balanced d P s (e :: (body ++ x :: rest))

theorem Balanced.plain {d : Dev} {P : List Int} {s : St} {o : Op} {ops : List Op}
    (h : Plain d P o s) (hb : Balanced d P (apply d o s) ops) : Balanced d P s (o :: ops) :=
  Balanced.block P s [o] ops ⟨⟨h.1, trivial⟩, h.2.1, h.2.2⟩ hb

/-- A sufficient condition for `Plain` that can be read off the program: a (non-waiting) step at a declared
opcode whose instruction neither moves SP nor uses the stack (`keepsStack`: everything except
PHA/PHP/PHX/PHY, PLA/PLP/PLX/PLY, TXS, JSR, RTS, RTI, BRK) and whose effective address is none of the
protected cells.  (ADC/SBC are not covered by this lemma - C01-C03 describe them in binary mode only -
although they do not touch SP or memory either.) -/
theorem plain_step (d : Dev) (P : List Int) (s : St) (hi : Inv d s) (hw : s.waiting = false)
    (mn : Mn) (mo : Mode) (hd : decode d.variant (s.mem s.pc) = some (mn, mo))
    (hk : keepsStack mn = true) (hna : mn ≠ .ADC ∧ mn ≠ .SBC)
    (hea : ea d.W mo { abs s with pc := (s.pc + 1) % AM d.W } ∉ P) : Plain d P .step s := by
  have hnar : ¬ isArith mn = true := by
    intro h
    cases mn <;> simp [isArith] at h
    · exact hna.1 rfl
    · revert hk; decide
    · exact hna.2 rfl
  have h := step_spec d s hi hw mn mo hd hnar
  have hop : OpOK d .step s := by
    intro _
    have hm := decode_mem hd
    have : ∀ r ∈ cmosExtTable ++ nmosTable, r.1 < 256 := by decide +kernel
    exact this _ hm
  refine ⟨hop, ?_, fun c hc => ?_⟩
  · have := congrArg AState.sp h
    rw [exec_sp _ _ _ _ _ hk] at this
    exact this
  · have := congrFun (congrArg AState.mem h) c
    rw [exec_mem_other _ _ _ _ _ hk c (fun e => hea (e ▸ hc))] at this
    exact this

/-- One level, in terms of states: if the state `s₂` in which the exit is executed has the stack pointer
and the frame cells the entry (made in `s`) left, the exit resumes where the entry happened. -/
theorem frame_core (d : Dev) (k : Kind) (e x : Op) (s s₂ : St) (hi : Inv d s) (he : Entry k e s)
    (hi₂ : Inv d s₂) (hsp : s₂.sp = (apply d e s).sp)
    (hcells : ∀ c ∈ cells d.W k s.sp, s₂.mem c = (apply d e s).mem c) (hx : Exit k x s₂) :
    (apply d x s₂).pc = resumePc d.W k s.pc ∧ (apply d x s₂).sp = s.sp ∧
    (k ≠ .jsr → normP (apply d x s₂).p = normP s.p) ∧ (apply d x s₂).mem = s₂.mem := by
  obtain ⟨e1, e2⟩ := entry_abs d k e s hi he
  have hx' := exit_abs d k x s₂ hi₂ hx
  have hawf : AWF d.W (abs s) := by
    have := AWF_abs d.isDev hi.1; rwa [d.W_eq] at this
  have hf : SameFrame (cells d.W k (abs s).sp) (entryA d.W d.variant k (abs s))
      { abs s₂ with pc := (s₂.pc + 1) % AM d.W } :=
    ⟨hsp.trans e1, fun c hc => (hcells c hc).trans (congrFun e2 c)⟩
  obtain ⟨p1, p2, p3⟩ := pairing d.W d.hW d.variant k (abs s) _ hawf hf
  rw [← hx'] at p1 p2 p3
  refine ⟨p1, p2, p3, ?_⟩
  have := congrArg AState.mem hx'
  rw [exit_mem] at this
  exact this

/-- **A balanced history restores SP and leaves the protected cells alone** (and ends well-formed),
whatever frames it contains and however deeply they are nested. -/
theorem balanced_restores (d : Dev) (P : List Int) (s : St) (ops : List Op) (hb : Balanced d P s ops)
    (hi : Inv d s) :
    Inv d (run d ops s) ∧ (run d ops s).sp = s.sp ∧ ∀ c ∈ P, (run d ops s).mem c = s.mem c := by
  induction hb with
  | nil P s => exact ⟨hi, rfl, fun _ _ => rfl⟩
  | block P s ops rest hq _ ih =>
    obtain ⟨hok, hsp, hmem⟩ := hq
    obtain ⟨g1, g2, g3⟩ := ih (run_inv d ops s hi hok).2
    rw [run_append]
    exact ⟨g1, g2.trans hsp, fun c hc => (g3 c hc).trans (hmem c hc)⟩
  | frame P s k e body x rest he hcol _ hx _ ihb ihr =>
    have hi1 := apply_inv d e s hi he.opOK
    obtain ⟨b1, b2, b3⟩ := ihb hi1
    obtain ⟨f1, f2, _, f4⟩ := frame_core d k e x s _ hi he b1 b2
      (fun c hc => b3 c (List.mem_append_left _ hc)) hx
    have hir := apply_inv d x _ b1 hx.opOK
    obtain ⟨r1, r2, r3⟩ := ihr hir
    have erun : run d (e :: (body ++ x :: rest)) s =
        run d rest (apply d x (run d body (apply d e s))) := by
      rw [run_cons, run_append, run_cons]
    rw [erun]
    refine ⟨r1, r2.trans f2, fun c hc => ?_⟩
    obtain ⟨_, e2⟩ := entry_abs d k e s hi he
    have hnc : c ∉ cells d.W k (abs s).sp := fun h => hcol c h hc
    calc (run d rest (apply d x (run d body (apply d e s)))).mem c
        = (apply d x (run d body (apply d e s))).mem c := r3 c hc
      _ = (run d body (apply d e s)).mem c := congrFun f4 c
      _ = (apply d e s).mem c := b3 c (List.mem_append_right _ hc)
      _ = (entryA d.W d.variant k (abs s)).mem c := congrFun e2 c
      _ = s.mem c := entryA_mem_other d.W d.variant k (abs s) c hnc

/-- **Pairing at any nesting depth.**  A frame entry, a balanced body that respects the frame's cells
(and may contain further frames of all kinds, to any depth), and the matching exit: execution resumes
after the JSR / two bytes after the BRK opcode / at the interrupted PC, with the caller's stack pointer
and - for BRK, irq(), nmi() - the interrupted status register.  Every device, both widths, every SP. -/
theorem frame_resumes (d : Dev) (P : List Int) (s : St) (k : Kind) (e : Op) (body : List Op) (x : Op)
    (hi : Inv d s) (he : Entry k e s)
    (hb : Balanced d (cells d.W k s.sp ++ P) (apply d e s) body)
    (hx : Exit k x (run d body (apply d e s))) :
    (run d (e :: (body ++ [x])) s).pc = resumePc d.W k s.pc ∧
    (run d (e :: (body ++ [x])) s).sp = s.sp ∧
    (k ≠ .jsr → normP (run d (e :: (body ++ [x])) s).p = normP s.p) := by
  have hi1 := apply_inv d e s hi he.opOK
  obtain ⟨b1, b2, b3⟩ := balanced_restores d _ _ _ hb hi1
  obtain ⟨f1, f2, f3, _⟩ := frame_core d k e x s _ hi he b1 b2
    (fun c hc => b3 c (List.mem_append_left _ hc)) hx
  have erun : run d (e :: (body ++ [x])) s = apply d x (run d body (apply d e s)) := by
    rw [run_cons, run_append, run_cons, run_nil]
  rw [erun]
  exact ⟨f1, f2, f3⟩

/-- The same for a frame anywhere in a longer history: whatever calls `pre` were made before (inside the
quantifiers of C05), the frame that starts in the state they lead to resumes where it was entered. -/
theorem frame_resumes_anywhere (d : Dev) (P : List Int) (s : St) (pre : List Op) (k : Kind) (e : Op)
    (body : List Op) (x : Op) (hi : Inv d s) (hpre : Along d (OpOK d) pre s)
    (he : Entry k e (run d pre s))
    (hb : Balanced d (cells d.W k (run d pre s).sp ++ P) (apply d e (run d pre s)) body)
    (hx : Exit k x (run d body (apply d e (run d pre s)))) :
    (run d (pre ++ e :: (body ++ [x])) s).pc = resumePc d.W k (run d pre s).pc ∧
    (run d (pre ++ e :: (body ++ [x])) s).sp = (run d pre s).sp ∧
    (k ≠ .jsr → normP (run d (pre ++ e :: (body ++ [x])) s).p = normP (run d pre s).p) := by
  rw [run_append]
  exact frame_resumes d P _ k e body x (run_inv d pre s hi hpre).2 he hb hx

/-- Depth: a frame inside a frame inside a frame ... - `frame_resumes` needs no separate statement for it,
because the body's only hypothesis is `Balanced`, whose `frame` constructor nests.  As an explicit
corollary: directly nested frames `e₁ e₂ … eₙ xₙ … x₂ x₁` of ANY kinds resume level by level. -/
inductive Nest (d : Dev) : List Int → St → List Op → Prop
  | leaf (P : List Int) (s : St) : Nest d P s []
  | wrap (P : List Int) (s : St) (k : Kind) (e : Op) (inner : List Op) (x : Op) :
      Entry k e s → (∀ c ∈ cells d.W k s.sp, c ∉ P) →
      Nest d (cells d.W k s.sp ++ P) (apply d e s) inner →
      Exit k x (run d inner (apply d e s)) →
      Nest d P s (e :: (inner ++ [x]))

theorem Nest.balanced {d : Dev} {P : List Int} {s : St} {ops : List Op} (h : Nest d P s ops) :
    Balanced d P s ops := by
  induction h with
  | leaf P s => exact Balanced.nil P s
  | wrap P s k e inner x he hc _ hx ih =>
    exact Balanced.frame P s k e inner x [] he hc ih hx (Balanced.nil _ _)

/-- n-fold direct nesting: the outermost frame resumes where it was entered. -/
theorem nest_resumes (d : Dev) (P : List Int) (s : St) (k : Kind) (e : Op) (inner : List Op) (x : Op)
    (hi : Inv d s) (he : Entry k e s)
    (hn : Nest d (cells d.W k s.sp ++ P) (apply d e s) inner)
    (hx : Exit k x (run d inner (apply d e s))) :
    (run d (e :: (inner ++ [x])) s).pc = resumePc d.W k s.pc ∧
    (run d (e :: (inner ++ [x])) s).sp = s.sp :=
  let h := frame_resumes d P s k e inner x hi he hn.balanced hx
  ⟨h.1, h.2.1⟩

/-! ### non-vacuity: three levels, two kinds, stack wrap-around -/

/-- `JSR $0010` at 0; at `$0010` an irq() arrives (vector `$0020`); the handler does `JSR $0030`, whose
`RTS` returns to `$0023: RTI`, which returns to `$0010: RTS`, which returns to `$0003`.  SP starts at
`$01`: the JSR pushes to `$0101/$0100`, the interrupt to `$01FF/$01FE/$01FD` (wrapped), the inner JSR
to `$01FC/$01FB`. -/
def demoState : St :=
  { (default : St) with sp := 1, p := 0x30, mem := fun k => if k = 0 then 0x20 else if k = 1 then 0x10 else if k = 0x10 then 0x60 else if k = 0x20 then 0x20 else if k = 0x21 then 0x30 else if k = 0x23 then 0x40 else if k = 0x30 then 0x60 else if k = 0xfffe then 0x20 else 0x00 }

def demoOps : List Op := [.step, .irq, .step, .step, .step, .step]

theorem demo_inv : Inv .nmos demoState := by
  refine ⟨⟨by decide, by decide, by decide, by decide, by decide, by decide, ?_⟩, fun _ => rfl⟩
  intro k; simp only [demoState]; (repeat' split) <;> decide

/-- the inner part: irq ( jsr ( ) rts ) rti, respecting the outer JSR's frame -/
theorem demo_inner :
    Nest .nmos (cells 8 .jsr demoState.sp ++ []) (apply .nmos .step demoState) [.irq, .step, .step, .step] :=
  Nest.wrap _ _ .irq .irq [.step, .step] .step (by decide +kernel) (by decide +kernel)
    (Nest.wrap _ _ .jsr .step [] .step (by decide +kernel) (by decide +kernel)
      (Nest.leaf _ _) (by decide +kernel))
    (by decide +kernel)

/-- the history is balanced: jsr ( irq ( jsr ( ) rts ) rti ) rts -/
theorem demo_nest : Nest .nmos [] demoState demoOps :=
  Nest.wrap [] demoState .jsr .step [.irq, .step, .step, .step] .step (by decide +kernel) (by decide +kernel)
    demo_inner (by decide +kernel)

/-- The theorem applied to it: the outermost JSR resumes at `$0003` with SP = `$01` ... -/
example : (run .nmos demoOps demoState).pc = resumePc 8 .jsr demoState.pc ∧
    (run .nmos demoOps demoState).sp = demoState.sp :=
  nest_resumes .nmos [] demoState .jsr .step [.irq, .step, .step, .step] .step demo_inv
    (by decide +kernel) demo_inner (by decide +kernel)

/-- ... and that is what the generated 6502 computes (kernel evaluation of the generated code), level
by level: after the inner RTS at `$0023` with SP = `$FC`, after the RTI at `$0010`, at the end at `$0003`. -/
example : (run .nmos demoOps demoState).pc = 3 ∧ (run .nmos demoOps demoState).sp = 1 ∧
    (run .nmos [.step, .irq, .step, .step] demoState).pc = 0x23 ∧
    (run .nmos [.step, .irq, .step, .step] demoState).sp = 0xfc ∧
    (run .nmos [.step, .irq, .step, .step, .step] demoState).pc = 0x10 :=
  ⟨by decide +kernel, by decide +kernel, by decide +kernel, by decide +kernel, by decide +kernel⟩

end Py65.Props.C06h
