/-
C03 -- 65Org16: the 6502 instruction set at 16-bit bytes and 32-bit addresses

PROPERTY THEOREMS ONLY (helper lemmas live in Py65/Proofs).  GENERATED skeleton (harness/
gen_cpu_props.py): the case analysis over the 151 rows of `Spec.nmosTable`; every case is closed
by the per-opcode handler theorem `Py65.Proofs.H.hXX` and the translator's dispatch fact
`dev65org16.instruct_XX`.
The same handler theorems as C01, instantiated at the 16-bit configuration: every helper lemma is
proved for both widths, so an 8-bit literal slipped into shared code breaks the W=16 case.
-/
import Py65.Proofs.Handlers
import Py65.Proofs.Step

namespace Py65.Props.C03
open Py65 Py65.Gen Py65.Spec Py65.Proofs

/-- Opcodes whose handler theorem is not proved yet (the differential check still covers them).
When this list is empty `C03_partial` is the full property. -/
def unproved : List Int := []

/-- The full statement of C03: for every documented opcode and every well-formed state (any
registers, flags, PC, memory contents), one `step()` of the generated model of the real device
is exactly one step of the programming model, on A X Y SP, the status flags (bits 4/5 ignored),
PC, every memory cell.  ADC/SBC: binary mode.  JSR: the two stack cells it writes are not its
own operand bytes (the only self-overwrite the proof needs to exclude). -/
def Statement : Prop :=
  ∀ (s : St), WF dev65org16.cfg s → s.waiting = false →
  ∀ (mn : Mn) (mo : Mode), decode .nmos (s.mem s.pc) = some (mn, mo) →
  ((mn = .ADC ∨ mn = .SBC) → flag s.p bitD = false) →
  (mn = .JSR → NoSelfOverwriteJSR dev65org16.cfg (afterFetch dev65org16.cfg dev65org16.tbl s)) →
  abs (dev65org16.step s) = Spec.step 16 .nmos (abs s)

theorem C03_partial (s : St) (hs : WF dev65org16.cfg s) (hw : s.waiting = false)
    (mn : Mn) (mo : Mode) (hd : decode .nmos (s.mem s.pc) = some (mn, mo))
    (hproved : s.mem s.pc ∉ unproved)
    (hdec : (mn = .ADC ∨ mn = .SBC) → flag s.p bitD = false)
    (hjsr : mn = .JSR → NoSelfOverwriteJSR dev65org16.cfg (afterFetch dev65org16.cfg dev65org16.tbl s)) :
    abs (dev65org16.step s) = Spec.step 16 .nmos (abs s) := by
  have hc : IsDev dev65org16.cfg := Or.inr rfl
  have hstep : dev65org16.step s = Mpu6502.step dev65org16.cfg dev65org16.tbl s := by
    simp only [dev65org16.step, Mpu65org16.step, hw]; rfl
  rw [hstep]
  have hm := lookup_mem hd
  simp only [nmosTable, List.mem_cons, List.mem_nil_iff, or_false, Prod.mk.injEq] at hm
  generalize hop : s.mem s.pc = op at hm hd hproved

  rcases hm with ⟨rfl, rfl, rfl⟩ | ⟨rfl, rfl, rfl⟩ | ⟨rfl, rfl, rfl⟩ | ⟨rfl, rfl, rfl⟩ | ⟨rfl, rfl, rfl⟩ | ⟨rfl, rfl, rfl⟩ | ⟨rfl, rfl, rfl⟩ | ⟨rfl, rfl, rfl⟩ | ⟨rfl, rfl, rfl⟩ | ⟨rfl, rfl, rfl⟩ | ⟨rfl, rfl, rfl⟩ | ⟨rfl, rfl, rfl⟩ | ⟨rfl, rfl, rfl⟩ | ⟨rfl, rfl, rfl⟩ | ⟨rfl, rfl, rfl⟩ | ⟨rfl, rfl, rfl⟩ | ⟨rfl, rfl, rfl⟩ | ⟨rfl, rfl, rfl⟩ | ⟨rfl, rfl, rfl⟩ | ⟨rfl, rfl, rfl⟩ | ⟨rfl, rfl, rfl⟩ | ⟨rfl, rfl, rfl⟩ | ⟨rfl, rfl, rfl⟩ | ⟨rfl, rfl, rfl⟩ | ⟨rfl, rfl, rfl⟩ | ⟨rfl, rfl, rfl⟩ | ⟨rfl, rfl, rfl⟩ | ⟨rfl, rfl, rfl⟩ | ⟨rfl, rfl, rfl⟩ | ⟨rfl, rfl, rfl⟩ | ⟨rfl, rfl, rfl⟩ | ⟨rfl, rfl, rfl⟩ | ⟨rfl, rfl, rfl⟩ | ⟨rfl, rfl, rfl⟩ | ⟨rfl, rfl, rfl⟩ | ⟨rfl, rfl, rfl⟩ | ⟨rfl, rfl, rfl⟩ | ⟨rfl, rfl, rfl⟩ | ⟨rfl, rfl, rfl⟩ | ⟨rfl, rfl, rfl⟩ | ⟨rfl, rfl, rfl⟩ | ⟨rfl, rfl, rfl⟩ | ⟨rfl, rfl, rfl⟩ | ⟨rfl, rfl, rfl⟩ | ⟨rfl, rfl, rfl⟩ | ⟨rfl, rfl, rfl⟩ | ⟨rfl, rfl, rfl⟩ | ⟨rfl, rfl, rfl⟩ | ⟨rfl, rfl, rfl⟩ | ⟨rfl, rfl, rfl⟩ | ⟨rfl, rfl, rfl⟩ | ⟨rfl, rfl, rfl⟩ | ⟨rfl, rfl, rfl⟩ | ⟨rfl, rfl, rfl⟩ | ⟨rfl, rfl, rfl⟩ | ⟨rfl, rfl, rfl⟩ | ⟨rfl, rfl, rfl⟩ | ⟨rfl, rfl, rfl⟩ | ⟨rfl, rfl, rfl⟩ | ⟨rfl, rfl, rfl⟩ | ⟨rfl, rfl, rfl⟩ | ⟨rfl, rfl, rfl⟩ | ⟨rfl, rfl, rfl⟩ | ⟨rfl, rfl, rfl⟩ | ⟨rfl, rfl, rfl⟩ | ⟨rfl, rfl, rfl⟩ | ⟨rfl, rfl, rfl⟩ | ⟨rfl, rfl, rfl⟩ | ⟨rfl, rfl, rfl⟩ | ⟨rfl, rfl, rfl⟩ | ⟨rfl, rfl, rfl⟩ | ⟨rfl, rfl, rfl⟩ | ⟨rfl, rfl, rfl⟩ | ⟨rfl, rfl, rfl⟩ | ⟨rfl, rfl, rfl⟩ | ⟨rfl, rfl, rfl⟩ | ⟨rfl, rfl, rfl⟩ | ⟨rfl, rfl, rfl⟩ | ⟨rfl, rfl, rfl⟩ | ⟨rfl, rfl, rfl⟩ | ⟨rfl, rfl, rfl⟩ | ⟨rfl, rfl, rfl⟩ | ⟨rfl, rfl, rfl⟩ | ⟨rfl, rfl, rfl⟩ | ⟨rfl, rfl, rfl⟩ | ⟨rfl, rfl, rfl⟩ | ⟨rfl, rfl, rfl⟩ | ⟨rfl, rfl, rfl⟩ | ⟨rfl, rfl, rfl⟩ | ⟨rfl, rfl, rfl⟩ | ⟨rfl, rfl, rfl⟩ | ⟨rfl, rfl, rfl⟩ | ⟨rfl, rfl, rfl⟩ | ⟨rfl, rfl, rfl⟩ | ⟨rfl, rfl, rfl⟩ | ⟨rfl, rfl, rfl⟩ | ⟨rfl, rfl, rfl⟩ | ⟨rfl, rfl, rfl⟩ | ⟨rfl, rfl, rfl⟩ | ⟨rfl, rfl, rfl⟩ | ⟨rfl, rfl, rfl⟩ | ⟨rfl, rfl, rfl⟩ | ⟨rfl, rfl, rfl⟩ | ⟨rfl, rfl, rfl⟩ | ⟨rfl, rfl, rfl⟩ | ⟨rfl, rfl, rfl⟩ | ⟨rfl, rfl, rfl⟩ | ⟨rfl, rfl, rfl⟩ | ⟨rfl, rfl, rfl⟩ | ⟨rfl, rfl, rfl⟩ | ⟨rfl, rfl, rfl⟩ | ⟨rfl, rfl, rfl⟩ | ⟨rfl, rfl, rfl⟩ | ⟨rfl, rfl, rfl⟩ | ⟨rfl, rfl, rfl⟩ | ⟨rfl, rfl, rfl⟩ | ⟨rfl, rfl, rfl⟩ | ⟨rfl, rfl, rfl⟩ | ⟨rfl, rfl, rfl⟩ | ⟨rfl, rfl, rfl⟩ | ⟨rfl, rfl, rfl⟩ | ⟨rfl, rfl, rfl⟩ | ⟨rfl, rfl, rfl⟩ | ⟨rfl, rfl, rfl⟩ | ⟨rfl, rfl, rfl⟩ | ⟨rfl, rfl, rfl⟩ | ⟨rfl, rfl, rfl⟩ | ⟨rfl, rfl, rfl⟩ | ⟨rfl, rfl, rfl⟩ | ⟨rfl, rfl, rfl⟩ | ⟨rfl, rfl, rfl⟩ | ⟨rfl, rfl, rfl⟩ | ⟨rfl, rfl, rfl⟩ | ⟨rfl, rfl, rfl⟩ | ⟨rfl, rfl, rfl⟩ | ⟨rfl, rfl, rfl⟩ | ⟨rfl, rfl, rfl⟩ | ⟨rfl, rfl, rfl⟩ | ⟨rfl, rfl, rfl⟩ | ⟨rfl, rfl, rfl⟩ | ⟨rfl, rfl, rfl⟩ | ⟨rfl, rfl, rfl⟩ | ⟨rfl, rfl, rfl⟩ | ⟨rfl, rfl, rfl⟩ | ⟨rfl, rfl, rfl⟩ | ⟨rfl, rfl, rfl⟩ | ⟨rfl, rfl, rfl⟩ | ⟨rfl, rfl, rfl⟩ | ⟨rfl, rfl, rfl⟩ | ⟨rfl, rfl, rfl⟩ | ⟨rfl, rfl, rfl⟩
  · exact step_case _ hc _ .nmos s hs hw _ _ _ _ (fun _ => True) hop hd dev65org16.instruct_00 ((H.h00 _ hc).toP _) trivial
  · exact step_case _ hc _ .nmos s hs hw _ _ _ _ (fun _ => True) hop hd dev65org16.instruct_01 ((H.h01 _ hc .nmos).toP _) trivial
  · exact step_case _ hc _ .nmos s hs hw _ _ _ _ (fun _ => True) hop hd dev65org16.instruct_05 ((H.h05 _ hc .nmos).toP _) trivial
  · exact step_case _ hc _ .nmos s hs hw _ _ _ _ (fun _ => True) hop hd dev65org16.instruct_06 ((H.h06 _ hc .nmos).toP _) trivial
  · exact step_case _ hc _ .nmos s hs hw _ _ _ _ (fun _ => True) hop hd dev65org16.instruct_08 ((H.h08 _ hc .nmos).toP _) trivial
  · exact step_case _ hc _ .nmos s hs hw _ _ _ _ (fun _ => True) hop hd dev65org16.instruct_09 ((H.h09 _ hc .nmos).toP _) trivial
  · exact step_case _ hc _ .nmos s hs hw _ _ _ _ (fun _ => True) hop hd dev65org16.instruct_0a ((H.h0a _ hc .nmos).toP _) trivial
  · exact step_case _ hc _ .nmos s hs hw _ _ _ _ (fun _ => True) hop hd dev65org16.instruct_0d ((H.h0d _ hc .nmos).toP _) trivial
  · exact step_case _ hc _ .nmos s hs hw _ _ _ _ (fun _ => True) hop hd dev65org16.instruct_0e ((H.h0e _ hc .nmos).toP _) trivial
  · exact step_case _ hc _ .nmos s hs hw _ _ _ _ (fun _ => True) hop hd dev65org16.instruct_10 ((H.h10 _ hc .nmos).toP _) trivial
  · exact step_case _ hc _ .nmos s hs hw _ _ _ _ (fun _ => True) hop hd dev65org16.instruct_11 ((H.h11 _ hc .nmos).toP _) trivial
  · exact step_case _ hc _ .nmos s hs hw _ _ _ _ (fun _ => True) hop hd dev65org16.instruct_15 ((H.h15 _ hc .nmos).toP _) trivial
  · exact step_case _ hc _ .nmos s hs hw _ _ _ _ (fun _ => True) hop hd dev65org16.instruct_16 ((H.h16 _ hc .nmos).toP _) trivial
  · exact step_case _ hc _ .nmos s hs hw _ _ _ _ (fun _ => True) hop hd dev65org16.instruct_18 ((H.h18 _ hc .nmos).toP _) trivial
  · exact step_case _ hc _ .nmos s hs hw _ _ _ _ (fun _ => True) hop hd dev65org16.instruct_19 ((H.h19 _ hc .nmos).toP _) trivial
  · exact step_case _ hc _ .nmos s hs hw _ _ _ _ (fun _ => True) hop hd dev65org16.instruct_1d ((H.h1d _ hc .nmos).toP _) trivial
  · exact step_case _ hc _ .nmos s hs hw _ _ _ _ (fun _ => True) hop hd dev65org16.instruct_1e ((H.h1e _ hc .nmos).toP _) trivial
  · exact step_case _ hc _ .nmos s hs hw _ _ _ _ _ hop hd dev65org16.instruct_20 (H.h20 _ hc .nmos) (hjsr rfl)
  · exact step_case _ hc _ .nmos s hs hw _ _ _ _ (fun _ => True) hop hd dev65org16.instruct_21 ((H.h21 _ hc .nmos).toP _) trivial
  · exact step_case _ hc _ .nmos s hs hw _ _ _ _ (fun _ => True) hop hd dev65org16.instruct_24 ((H.h24 _ hc .nmos).toP _) trivial
  · exact step_case _ hc _ .nmos s hs hw _ _ _ _ (fun _ => True) hop hd dev65org16.instruct_25 ((H.h25 _ hc .nmos).toP _) trivial
  · exact step_case _ hc _ .nmos s hs hw _ _ _ _ (fun _ => True) hop hd dev65org16.instruct_26 ((H.h26 _ hc .nmos).toP _) trivial
  · exact step_case _ hc _ .nmos s hs hw _ _ _ _ (fun _ => True) hop hd dev65org16.instruct_28 ((H.h28 _ hc .nmos).toP _) trivial
  · exact step_case _ hc _ .nmos s hs hw _ _ _ _ (fun _ => True) hop hd dev65org16.instruct_29 ((H.h29 _ hc .nmos).toP _) trivial
  · exact step_case _ hc _ .nmos s hs hw _ _ _ _ (fun _ => True) hop hd dev65org16.instruct_2a ((H.h2a _ hc .nmos).toP _) trivial
  · exact step_case _ hc _ .nmos s hs hw _ _ _ _ (fun _ => True) hop hd dev65org16.instruct_2c ((H.h2c _ hc .nmos).toP _) trivial
  · exact step_case _ hc _ .nmos s hs hw _ _ _ _ (fun _ => True) hop hd dev65org16.instruct_2d ((H.h2d _ hc .nmos).toP _) trivial
  · exact step_case _ hc _ .nmos s hs hw _ _ _ _ (fun _ => True) hop hd dev65org16.instruct_2e ((H.h2e _ hc .nmos).toP _) trivial
  · exact step_case _ hc _ .nmos s hs hw _ _ _ _ (fun _ => True) hop hd dev65org16.instruct_30 ((H.h30 _ hc .nmos).toP _) trivial
  · exact step_case _ hc _ .nmos s hs hw _ _ _ _ (fun _ => True) hop hd dev65org16.instruct_31 ((H.h31 _ hc .nmos).toP _) trivial
  · exact step_case _ hc _ .nmos s hs hw _ _ _ _ (fun _ => True) hop hd dev65org16.instruct_35 ((H.h35 _ hc .nmos).toP _) trivial
  · exact step_case _ hc _ .nmos s hs hw _ _ _ _ (fun _ => True) hop hd dev65org16.instruct_36 ((H.h36 _ hc .nmos).toP _) trivial
  · exact step_case _ hc _ .nmos s hs hw _ _ _ _ (fun _ => True) hop hd dev65org16.instruct_38 ((H.h38 _ hc .nmos).toP _) trivial
  · exact step_case _ hc _ .nmos s hs hw _ _ _ _ (fun _ => True) hop hd dev65org16.instruct_39 ((H.h39 _ hc .nmos).toP _) trivial
  · exact step_case _ hc _ .nmos s hs hw _ _ _ _ (fun _ => True) hop hd dev65org16.instruct_3d ((H.h3d _ hc .nmos).toP _) trivial
  · exact step_case _ hc _ .nmos s hs hw _ _ _ _ (fun _ => True) hop hd dev65org16.instruct_3e ((H.h3e _ hc .nmos).toP _) trivial
  · exact step_case _ hc _ .nmos s hs hw _ _ _ _ (fun _ => True) hop hd dev65org16.instruct_40 ((H.h40 _ hc .nmos).toP _) trivial
  · exact step_case _ hc _ .nmos s hs hw _ _ _ _ (fun _ => True) hop hd dev65org16.instruct_41 ((H.h41 _ hc .nmos).toP _) trivial
  · exact step_case _ hc _ .nmos s hs hw _ _ _ _ (fun _ => True) hop hd dev65org16.instruct_45 ((H.h45 _ hc .nmos).toP _) trivial
  · exact step_case _ hc _ .nmos s hs hw _ _ _ _ (fun _ => True) hop hd dev65org16.instruct_46 ((H.h46 _ hc .nmos).toP _) trivial
  · exact step_case _ hc _ .nmos s hs hw _ _ _ _ (fun _ => True) hop hd dev65org16.instruct_48 ((H.h48 _ hc .nmos).toP _) trivial
  · exact step_case _ hc _ .nmos s hs hw _ _ _ _ (fun _ => True) hop hd dev65org16.instruct_49 ((H.h49 _ hc .nmos).toP _) trivial
  · exact step_case _ hc _ .nmos s hs hw _ _ _ _ (fun _ => True) hop hd dev65org16.instruct_4a ((H.h4a _ hc .nmos).toP _) trivial
  · exact step_case _ hc _ .nmos s hs hw _ _ _ _ (fun _ => True) hop hd dev65org16.instruct_4c ((H.h4c _ hc .nmos).toP _) trivial
  · exact step_case _ hc _ .nmos s hs hw _ _ _ _ (fun _ => True) hop hd dev65org16.instruct_4d ((H.h4d _ hc .nmos).toP _) trivial
  · exact step_case _ hc _ .nmos s hs hw _ _ _ _ (fun _ => True) hop hd dev65org16.instruct_4e ((H.h4e _ hc .nmos).toP _) trivial
  · exact step_case _ hc _ .nmos s hs hw _ _ _ _ (fun _ => True) hop hd dev65org16.instruct_50 ((H.h50 _ hc .nmos).toP _) trivial
  · exact step_case _ hc _ .nmos s hs hw _ _ _ _ (fun _ => True) hop hd dev65org16.instruct_51 ((H.h51 _ hc .nmos).toP _) trivial
  · exact step_case _ hc _ .nmos s hs hw _ _ _ _ (fun _ => True) hop hd dev65org16.instruct_55 ((H.h55 _ hc .nmos).toP _) trivial
  · exact step_case _ hc _ .nmos s hs hw _ _ _ _ (fun _ => True) hop hd dev65org16.instruct_56 ((H.h56 _ hc .nmos).toP _) trivial
  · exact step_case _ hc _ .nmos s hs hw _ _ _ _ (fun _ => True) hop hd dev65org16.instruct_58 ((H.h58 _ hc .nmos).toP _) trivial
  · exact step_case _ hc _ .nmos s hs hw _ _ _ _ (fun _ => True) hop hd dev65org16.instruct_59 ((H.h59 _ hc .nmos).toP _) trivial
  · exact step_case _ hc _ .nmos s hs hw _ _ _ _ (fun _ => True) hop hd dev65org16.instruct_5d ((H.h5d _ hc .nmos).toP _) trivial
  · exact step_case _ hc _ .nmos s hs hw _ _ _ _ (fun _ => True) hop hd dev65org16.instruct_5e ((H.h5e _ hc .nmos).toP _) trivial
  · exact step_case _ hc _ .nmos s hs hw _ _ _ _ (fun _ => True) hop hd dev65org16.instruct_60 ((H.h60 _ hc .nmos).toP _) trivial
  · exact step_case _ hc _ .nmos s hs hw _ _ _ _ _ hop hd dev65org16.instruct_61 (H.h61 _ hc .nmos) (hdec (Or.inl rfl))
  · exact step_case _ hc _ .nmos s hs hw _ _ _ _ _ hop hd dev65org16.instruct_65 (H.h65 _ hc .nmos) (hdec (Or.inl rfl))
  · exact step_case _ hc _ .nmos s hs hw _ _ _ _ (fun _ => True) hop hd dev65org16.instruct_66 ((H.h66 _ hc .nmos).toP _) trivial
  · exact step_case _ hc _ .nmos s hs hw _ _ _ _ (fun _ => True) hop hd dev65org16.instruct_68 ((H.h68 _ hc .nmos).toP _) trivial
  · exact step_case _ hc _ .nmos s hs hw _ _ _ _ _ hop hd dev65org16.instruct_69 (H.h69 _ hc .nmos) (hdec (Or.inl rfl))
  · exact step_case _ hc _ .nmos s hs hw _ _ _ _ (fun _ => True) hop hd dev65org16.instruct_6a ((H.h6a _ hc .nmos).toP _) trivial
  · exact step_case _ hc _ .nmos s hs hw _ _ _ _ (fun _ => True) hop hd dev65org16.instruct_6c ((H.h6c _ hc).toP _) trivial
  · exact step_case _ hc _ .nmos s hs hw _ _ _ _ _ hop hd dev65org16.instruct_6d (H.h6d _ hc .nmos) (hdec (Or.inl rfl))
  · exact step_case _ hc _ .nmos s hs hw _ _ _ _ (fun _ => True) hop hd dev65org16.instruct_6e ((H.h6e _ hc .nmos).toP _) trivial
  · exact step_case _ hc _ .nmos s hs hw _ _ _ _ (fun _ => True) hop hd dev65org16.instruct_70 ((H.h70 _ hc .nmos).toP _) trivial
  · exact step_case _ hc _ .nmos s hs hw _ _ _ _ _ hop hd dev65org16.instruct_71 (H.h71 _ hc .nmos) (hdec (Or.inl rfl))
  · exact step_case _ hc _ .nmos s hs hw _ _ _ _ _ hop hd dev65org16.instruct_75 (H.h75 _ hc .nmos) (hdec (Or.inl rfl))
  · exact step_case _ hc _ .nmos s hs hw _ _ _ _ (fun _ => True) hop hd dev65org16.instruct_76 ((H.h76 _ hc .nmos).toP _) trivial
  · exact step_case _ hc _ .nmos s hs hw _ _ _ _ (fun _ => True) hop hd dev65org16.instruct_78 ((H.h78 _ hc .nmos).toP _) trivial
  · exact step_case _ hc _ .nmos s hs hw _ _ _ _ _ hop hd dev65org16.instruct_79 (H.h79 _ hc .nmos) (hdec (Or.inl rfl))
  · exact step_case _ hc _ .nmos s hs hw _ _ _ _ _ hop hd dev65org16.instruct_7d (H.h7d _ hc .nmos) (hdec (Or.inl rfl))
  · exact step_case _ hc _ .nmos s hs hw _ _ _ _ (fun _ => True) hop hd dev65org16.instruct_7e ((H.h7e _ hc .nmos).toP _) trivial
  · exact step_case _ hc _ .nmos s hs hw _ _ _ _ (fun _ => True) hop hd dev65org16.instruct_81 ((H.h81 _ hc .nmos).toP _) trivial
  · exact step_case _ hc _ .nmos s hs hw _ _ _ _ (fun _ => True) hop hd dev65org16.instruct_84 ((H.h84 _ hc .nmos).toP _) trivial
  · exact step_case _ hc _ .nmos s hs hw _ _ _ _ (fun _ => True) hop hd dev65org16.instruct_85 ((H.h85 _ hc .nmos).toP _) trivial
  · exact step_case _ hc _ .nmos s hs hw _ _ _ _ (fun _ => True) hop hd dev65org16.instruct_86 ((H.h86 _ hc .nmos).toP _) trivial
  · exact step_case _ hc _ .nmos s hs hw _ _ _ _ (fun _ => True) hop hd dev65org16.instruct_88 ((H.h88 _ hc .nmos).toP _) trivial
  · exact step_case _ hc _ .nmos s hs hw _ _ _ _ (fun _ => True) hop hd dev65org16.instruct_8a ((H.h8a _ hc .nmos).toP _) trivial
  · exact step_case _ hc _ .nmos s hs hw _ _ _ _ (fun _ => True) hop hd dev65org16.instruct_8c ((H.h8c _ hc .nmos).toP _) trivial
  · exact step_case _ hc _ .nmos s hs hw _ _ _ _ (fun _ => True) hop hd dev65org16.instruct_8d ((H.h8d _ hc .nmos).toP _) trivial
  · exact step_case _ hc _ .nmos s hs hw _ _ _ _ (fun _ => True) hop hd dev65org16.instruct_8e ((H.h8e _ hc .nmos).toP _) trivial
  · exact step_case _ hc _ .nmos s hs hw _ _ _ _ (fun _ => True) hop hd dev65org16.instruct_90 ((H.h90 _ hc .nmos).toP _) trivial
  · exact step_case _ hc _ .nmos s hs hw _ _ _ _ (fun _ => True) hop hd dev65org16.instruct_91 ((H.h91 _ hc .nmos).toP _) trivial
  · exact step_case _ hc _ .nmos s hs hw _ _ _ _ (fun _ => True) hop hd dev65org16.instruct_94 ((H.h94 _ hc .nmos).toP _) trivial
  · exact step_case _ hc _ .nmos s hs hw _ _ _ _ (fun _ => True) hop hd dev65org16.instruct_95 ((H.h95 _ hc .nmos).toP _) trivial
  · exact step_case _ hc _ .nmos s hs hw _ _ _ _ (fun _ => True) hop hd dev65org16.instruct_96 ((H.h96 _ hc .nmos).toP _) trivial
  · exact step_case _ hc _ .nmos s hs hw _ _ _ _ (fun _ => True) hop hd dev65org16.instruct_98 ((H.h98 _ hc .nmos).toP _) trivial
  · exact step_case _ hc _ .nmos s hs hw _ _ _ _ (fun _ => True) hop hd dev65org16.instruct_99 ((H.h99 _ hc .nmos).toP _) trivial
  · exact step_case _ hc _ .nmos s hs hw _ _ _ _ (fun _ => True) hop hd dev65org16.instruct_9a ((H.h9a _ hc .nmos).toP _) trivial
  · exact step_case _ hc _ .nmos s hs hw _ _ _ _ (fun _ => True) hop hd dev65org16.instruct_9d ((H.h9d _ hc .nmos).toP _) trivial
  · exact step_case _ hc _ .nmos s hs hw _ _ _ _ (fun _ => True) hop hd dev65org16.instruct_a0 ((H.ha0 _ hc .nmos).toP _) trivial
  · exact step_case _ hc _ .nmos s hs hw _ _ _ _ (fun _ => True) hop hd dev65org16.instruct_a1 ((H.ha1 _ hc .nmos).toP _) trivial
  · exact step_case _ hc _ .nmos s hs hw _ _ _ _ (fun _ => True) hop hd dev65org16.instruct_a2 ((H.ha2 _ hc .nmos).toP _) trivial
  · exact step_case _ hc _ .nmos s hs hw _ _ _ _ (fun _ => True) hop hd dev65org16.instruct_a4 ((H.ha4 _ hc .nmos).toP _) trivial
  · exact step_case _ hc _ .nmos s hs hw _ _ _ _ (fun _ => True) hop hd dev65org16.instruct_a5 ((H.ha5 _ hc .nmos).toP _) trivial
  · exact step_case _ hc _ .nmos s hs hw _ _ _ _ (fun _ => True) hop hd dev65org16.instruct_a6 ((H.ha6 _ hc .nmos).toP _) trivial
  · exact step_case _ hc _ .nmos s hs hw _ _ _ _ (fun _ => True) hop hd dev65org16.instruct_a8 ((H.ha8 _ hc .nmos).toP _) trivial
  · exact step_case _ hc _ .nmos s hs hw _ _ _ _ (fun _ => True) hop hd dev65org16.instruct_a9 ((H.ha9 _ hc .nmos).toP _) trivial
  · exact step_case _ hc _ .nmos s hs hw _ _ _ _ (fun _ => True) hop hd dev65org16.instruct_aa ((H.haa _ hc .nmos).toP _) trivial
  · exact step_case _ hc _ .nmos s hs hw _ _ _ _ (fun _ => True) hop hd dev65org16.instruct_ac ((H.hac _ hc .nmos).toP _) trivial
  · exact step_case _ hc _ .nmos s hs hw _ _ _ _ (fun _ => True) hop hd dev65org16.instruct_ad ((H.had _ hc .nmos).toP _) trivial
  · exact step_case _ hc _ .nmos s hs hw _ _ _ _ (fun _ => True) hop hd dev65org16.instruct_ae ((H.hae _ hc .nmos).toP _) trivial
  · exact step_case _ hc _ .nmos s hs hw _ _ _ _ (fun _ => True) hop hd dev65org16.instruct_b0 ((H.hb0 _ hc .nmos).toP _) trivial
  · exact step_case _ hc _ .nmos s hs hw _ _ _ _ (fun _ => True) hop hd dev65org16.instruct_b1 ((H.hb1 _ hc .nmos).toP _) trivial
  · exact step_case _ hc _ .nmos s hs hw _ _ _ _ (fun _ => True) hop hd dev65org16.instruct_b4 ((H.hb4 _ hc .nmos).toP _) trivial
  · exact step_case _ hc _ .nmos s hs hw _ _ _ _ (fun _ => True) hop hd dev65org16.instruct_b5 ((H.hb5 _ hc .nmos).toP _) trivial
  · exact step_case _ hc _ .nmos s hs hw _ _ _ _ (fun _ => True) hop hd dev65org16.instruct_b6 ((H.hb6 _ hc .nmos).toP _) trivial
  · exact step_case _ hc _ .nmos s hs hw _ _ _ _ (fun _ => True) hop hd dev65org16.instruct_b8 ((H.hb8 _ hc .nmos).toP _) trivial
  · exact step_case _ hc _ .nmos s hs hw _ _ _ _ (fun _ => True) hop hd dev65org16.instruct_b9 ((H.hb9 _ hc .nmos).toP _) trivial
  · exact step_case _ hc _ .nmos s hs hw _ _ _ _ (fun _ => True) hop hd dev65org16.instruct_ba ((H.hba _ hc .nmos).toP _) trivial
  · exact step_case _ hc _ .nmos s hs hw _ _ _ _ (fun _ => True) hop hd dev65org16.instruct_bc ((H.hbc _ hc .nmos).toP _) trivial
  · exact step_case _ hc _ .nmos s hs hw _ _ _ _ (fun _ => True) hop hd dev65org16.instruct_bd ((H.hbd _ hc .nmos).toP _) trivial
  · exact step_case _ hc _ .nmos s hs hw _ _ _ _ (fun _ => True) hop hd dev65org16.instruct_be ((H.hbe _ hc .nmos).toP _) trivial
  · exact step_case _ hc _ .nmos s hs hw _ _ _ _ (fun _ => True) hop hd dev65org16.instruct_c0 ((H.hc0 _ hc .nmos).toP _) trivial
  · exact step_case _ hc _ .nmos s hs hw _ _ _ _ (fun _ => True) hop hd dev65org16.instruct_c1 ((H.hc1 _ hc .nmos).toP _) trivial
  · exact step_case _ hc _ .nmos s hs hw _ _ _ _ (fun _ => True) hop hd dev65org16.instruct_c4 ((H.hc4 _ hc .nmos).toP _) trivial
  · exact step_case _ hc _ .nmos s hs hw _ _ _ _ (fun _ => True) hop hd dev65org16.instruct_c5 ((H.hc5 _ hc .nmos).toP _) trivial
  · exact step_case _ hc _ .nmos s hs hw _ _ _ _ (fun _ => True) hop hd dev65org16.instruct_c6 ((H.hc6 _ hc .nmos).toP _) trivial
  · exact step_case _ hc _ .nmos s hs hw _ _ _ _ (fun _ => True) hop hd dev65org16.instruct_c8 ((H.hc8 _ hc .nmos).toP _) trivial
  · exact step_case _ hc _ .nmos s hs hw _ _ _ _ (fun _ => True) hop hd dev65org16.instruct_c9 ((H.hc9 _ hc .nmos).toP _) trivial
  · exact step_case _ hc _ .nmos s hs hw _ _ _ _ (fun _ => True) hop hd dev65org16.instruct_ca ((H.hca _ hc .nmos).toP _) trivial
  · exact step_case _ hc _ .nmos s hs hw _ _ _ _ (fun _ => True) hop hd dev65org16.instruct_cc ((H.hcc _ hc .nmos).toP _) trivial
  · exact step_case _ hc _ .nmos s hs hw _ _ _ _ (fun _ => True) hop hd dev65org16.instruct_cd ((H.hcd _ hc .nmos).toP _) trivial
  · exact step_case _ hc _ .nmos s hs hw _ _ _ _ (fun _ => True) hop hd dev65org16.instruct_ce ((H.hce _ hc .nmos).toP _) trivial
  · exact step_case _ hc _ .nmos s hs hw _ _ _ _ (fun _ => True) hop hd dev65org16.instruct_d0 ((H.hd0 _ hc .nmos).toP _) trivial
  · exact step_case _ hc _ .nmos s hs hw _ _ _ _ (fun _ => True) hop hd dev65org16.instruct_d1 ((H.hd1 _ hc .nmos).toP _) trivial
  · exact step_case _ hc _ .nmos s hs hw _ _ _ _ (fun _ => True) hop hd dev65org16.instruct_d5 ((H.hd5 _ hc .nmos).toP _) trivial
  · exact step_case _ hc _ .nmos s hs hw _ _ _ _ (fun _ => True) hop hd dev65org16.instruct_d6 ((H.hd6 _ hc .nmos).toP _) trivial
  · exact step_case _ hc _ .nmos s hs hw _ _ _ _ (fun _ => True) hop hd dev65org16.instruct_d8 ((H.hd8 _ hc .nmos).toP _) trivial
  · exact step_case _ hc _ .nmos s hs hw _ _ _ _ (fun _ => True) hop hd dev65org16.instruct_d9 ((H.hd9 _ hc .nmos).toP _) trivial
  · exact step_case _ hc _ .nmos s hs hw _ _ _ _ (fun _ => True) hop hd dev65org16.instruct_dd ((H.hdd _ hc .nmos).toP _) trivial
  · exact step_case _ hc _ .nmos s hs hw _ _ _ _ (fun _ => True) hop hd dev65org16.instruct_de ((H.hde _ hc .nmos).toP _) trivial
  · exact step_case _ hc _ .nmos s hs hw _ _ _ _ (fun _ => True) hop hd dev65org16.instruct_e0 ((H.he0 _ hc .nmos).toP _) trivial
  · exact step_case _ hc _ .nmos s hs hw _ _ _ _ _ hop hd dev65org16.instruct_e1 (H.he1 _ hc .nmos) (hdec (Or.inr rfl))
  · exact step_case _ hc _ .nmos s hs hw _ _ _ _ (fun _ => True) hop hd dev65org16.instruct_e4 ((H.he4 _ hc .nmos).toP _) trivial
  · exact step_case _ hc _ .nmos s hs hw _ _ _ _ _ hop hd dev65org16.instruct_e5 (H.he5 _ hc .nmos) (hdec (Or.inr rfl))
  · exact step_case _ hc _ .nmos s hs hw _ _ _ _ (fun _ => True) hop hd dev65org16.instruct_e6 ((H.he6 _ hc .nmos).toP _) trivial
  · exact step_case _ hc _ .nmos s hs hw _ _ _ _ (fun _ => True) hop hd dev65org16.instruct_e8 ((H.he8 _ hc .nmos).toP _) trivial
  · exact step_case _ hc _ .nmos s hs hw _ _ _ _ _ hop hd dev65org16.instruct_e9 (H.he9 _ hc .nmos) (hdec (Or.inr rfl))
  · exact step_case _ hc _ .nmos s hs hw _ _ _ _ (fun _ => True) hop hd dev65org16.instruct_ea ((H.hea _ hc .nmos).toP _) trivial
  · exact step_case _ hc _ .nmos s hs hw _ _ _ _ (fun _ => True) hop hd dev65org16.instruct_ec ((H.hec _ hc .nmos).toP _) trivial
  · exact step_case _ hc _ .nmos s hs hw _ _ _ _ _ hop hd dev65org16.instruct_ed (H.hed _ hc .nmos) (hdec (Or.inr rfl))
  · exact step_case _ hc _ .nmos s hs hw _ _ _ _ (fun _ => True) hop hd dev65org16.instruct_ee ((H.hee _ hc .nmos).toP _) trivial
  · exact step_case _ hc _ .nmos s hs hw _ _ _ _ (fun _ => True) hop hd dev65org16.instruct_f0 ((H.hf0 _ hc .nmos).toP _) trivial
  · exact step_case _ hc _ .nmos s hs hw _ _ _ _ _ hop hd dev65org16.instruct_f1 (H.hf1 _ hc .nmos) (hdec (Or.inr rfl))
  · exact step_case _ hc _ .nmos s hs hw _ _ _ _ _ hop hd dev65org16.instruct_f5 (H.hf5 _ hc .nmos) (hdec (Or.inr rfl))
  · exact step_case _ hc _ .nmos s hs hw _ _ _ _ (fun _ => True) hop hd dev65org16.instruct_f6 ((H.hf6 _ hc .nmos).toP _) trivial
  · exact step_case _ hc _ .nmos s hs hw _ _ _ _ (fun _ => True) hop hd dev65org16.instruct_f8 ((H.hf8 _ hc .nmos).toP _) trivial
  · exact step_case _ hc _ .nmos s hs hw _ _ _ _ _ hop hd dev65org16.instruct_f9 (H.hf9 _ hc .nmos) (hdec (Or.inr rfl))
  · exact step_case _ hc _ .nmos s hs hw _ _ _ _ _ hop hd dev65org16.instruct_fd (H.hfd _ hc .nmos) (hdec (Or.inr rfl))
  · exact step_case _ hc _ .nmos s hs hw _ _ _ _ (fun _ => True) hop hd dev65org16.instruct_fe ((H.hfe _ hc .nmos).toP _) trivial

/-- C03 in full: `unproved` is empty, so the partial theorem is the statement. -/
theorem C03_full : Statement := fun s hs hw mn mo hd hdec hjsr =>
  C03_partial s hs hw mn mo hd (by simp [unproved]) hdec hjsr

/-- Non-vacuity: a concrete well-formed state executing LDA #$80 satisfies every hypothesis. -/
example : ∃ s : St, WF dev65org16.cfg s ∧ s.waiting = false ∧
    decode .nmos (s.mem s.pc) = some (.LDA, .imm) ∧ s.mem s.pc ∉ unproved := by
  refine ⟨{ (default : St) with mem := fun k => if k = 0 then 0xa9 else 0x80 }, ?_, rfl, by decide, by decide⟩
  refine ⟨by decide, by decide, by decide, by decide, by decide, by decide, ?_⟩
  intro k; dsimp only; split <;> decide

end Py65.Props.C03
