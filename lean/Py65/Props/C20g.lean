/-
C20g -- C20's preprocessing theorems restated for the GENERATED definitions.

`Py65.Gen.MonPreGen._shortcuts` and `Py65.Gen.MonPreGen._preprocess_line` are regenerated from
`/repo/py65/monitor.py` (`Monitor._add_shortcuts`, `Monitor._preprocess_line`) by
`harness/py2lean_mon.py` on every run of the C20 check; `Py65/Proofs/MonPreGenEq.lean` proves them
equal to the hand model (`MonCmd.shortcuts`, `MonCmd.preprocessL`) for ALL lines.  The statements
below are `Py65.Props.C20.shortcut_equiv` and `dispatch_total` with the generated definitions in
place of the model's (property statements only; see C20.lean for the reading guide).
What remains modelled: `cmd.Cmd.parseline/onecmd` (`parseline`, `onecmdL`) and the library helpers
the generated text calls (`str.strip/lstrip/startswith`, slices, the one regular expression).
-/
import Py65.Props.C20
import Py65.Proofs.MonPreGenEq

namespace Py65.Props.C20g
open Py65 Py65.Model.PyStr Py65.Model.AddrParser Py65.Model.MonCmd Py65.Proofs.MonCmd Py65.Proofs.Num
open Py65.Gen Py65.Proofs.MonPreGenEq

/-- The preprocessing inside `Monitor.onecmd` (model: `preprocessL`) IS the generated function. -/
theorem preprocess_is_generated (line : Str) : preprocessL line = MonPreGen._preprocess_line line := by
  rw [preprocess_eq]

/-- The shortcut table of the model IS the generated table (entries and order). -/
theorem shortcuts_is_generated : shortcuts = MonPreGen._shortcuts := shortcuts_eq.symm

/-- non-vacuity: the generated function on the examples of C20 (`decide` runs the GENERATED code). -/
example : MonPreGen._preprocess_line "  ..m \t c000:c00f  ; dump".toList = "mem c000:c00f".toList ∧
    MonPreGen._preprocess_line "~12".toList = "tilde 12".toList ∧
    MonPreGen._preprocess_line ".q;".toList = quit ∧
    MonPreGen._shortcuts.length = 25 := by
  decide +kernel

/-- `shortcut_equiv` for the generated code: for every entry `sc ↦ cmd` of the GENERATED shortcut
table other than `~`, any leading blanks, leading dots, at least one blank (of any kind) between
shortcut and arguments, trailing blanks and a trailing `;` comment outside quotes, the GENERATED
`_preprocess_line` yields `cmd`, one space, the arguments -- exactly what it leaves of the long
command typed plainly; the shortcut alone gives `cmd`; `~` (blank optional) gives `tilde`, one space,
and the text after `~`. -/
theorem shortcut_equiv (sc cmd : Str) (hmem : (sc, cmd) ∈ MonPreGen._shortcuts) (ws1 dots ws2 comment : Str)
    (hn : Noise ws1 dots ws2 comment) :
    (sc ≠ ['~'] →
      MonPreGen._preprocess_line (ws1 ++ dots ++ sc ++ ws2 ++ comment) = cmd ∧
      ∀ bl args, bl ≠ [] → (∀ c ∈ bl, isReSpace c = true) → ArgsOK args →
        MonPreGen._preprocess_line (ws1 ++ dots ++ (sc ++ bl ++ args) ++ ws2 ++ comment) = cmd ++ ' ' :: args ∧
        MonPreGen._preprocess_line (cmd ++ ' ' :: args) = cmd ++ ' ' :: args) ∧
    (∀ bl args, (∀ c ∈ bl, isReSpace c = true) → ArgsOK args →
        MonPreGen._preprocess_line (ws1 ++ dots ++ (['~'] ++ bl ++ args) ++ ws2 ++ comment) =
          tilde ++ ' ' :: (bl ++ args)) := by
  rw [shortcuts_eq] at hmem
  rw [preprocess_eq]
  exact C20.shortcut_equiv sc cmd hmem ws1 dots ws2 comment hn

/-- non-vacuity: `("m", "mem")` is an entry of the generated table and the noise of C20's example is
admissible. -/
example : ("m".toList, "mem".toList) ∈ MonPreGen._shortcuts ∧ "m".toList ≠ ['~'] ∧
    Noise " \t".toList "..".toList "  ".toList "; bye \"".toList :=
  ⟨by decide, by decide, ⟨by decide, by decide, by decide, Or.inr ⟨_, rfl⟩⟩⟩

/-- `dispatch_total` for the generated code: `Monitor.onecmd` returns for ANY line in ANY state,
and the value it returns is true exactly when the line -- after the GENERATED `_preprocess_line`
and `parseline`, or, for an empty line, the repeated `lastcmd` -- is dispatched on the word `quit`. -/
theorem dispatch_total (ext : Ext) (s : State) (line : Str) :
    (onecmdL ext s line).1.exit = true ↔
      (match parseline (MonPreGen._preprocess_line line) with
       | .cmd w _ _ => some w
       | .noCmd _ => none
       | .empty =>
         if s.lastcmd = [] then none else
         match parseline (MonPreGen._preprocess_line s.lastcmd) with
         | .cmd w _ _ => some w
         | _ => none) = some quit := by
  rw [preprocess_eq]
  exact C20.dispatch_total ext s line

/-- non-vacuity: both sides occur (`  ..x ; bye` exits, `quitx` does not), evaluated with the
generated preprocessing on the right. -/
example :
    (match parseline (MonPreGen._preprocess_line "  ..x ; bye".toList) with
     | .cmd w _ _ => some w | _ => none) = some quit ∧
    (match parseline (MonPreGen._preprocess_line "quitx".toList) with
     | .cmd w _ _ => some w | _ => none) ≠ some quit := by
  decide +kernel

end Py65.Props.C20g
