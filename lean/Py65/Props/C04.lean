/-
C04 -- Decimal-mode ADC/SBC give the documented BCD results on 6502 and 65C02.

PROPERTY THEOREMS ONLY.  `nmos_adc` / `nmos_sbc`: for ALL 256 x 256 accumulator/operand pairs and both
carry-in values, the decimal branch of the generated `opADC` / `opSBC` (run on a minimal state with
D set) yields exactly the accumulator, C, N, V and Z of Bruce Clark's NMOS sequences
(`Spec.Decimal`) - 2 x 2^17 rows, decided completely by kernel evaluation (`decide +kernel`, no
axioms beyond the standard ones), split into 128 chunk theorems built in parallel
(Py65/Proofs/Dec/*.lean).  `valid_bcd_is_decimal_sum`: on valid BCD operands Clark's result is the
two-digit decimal sum with decimal carry (what the Spec means).
65C02: the device inherits the NMOS code, so A, C and V agree with the 65C02 sequences on valid
BCD (`cmos_acv`), but N and Z follow the NMOS rule instead of the decimal result - a recorded
KNOWN FINDING (existing tests pin the NMOS flags on the 65C02): `cmos_nz_deviation` proves it with
the witness $99 + $01.
The lifting of the kernel to every addressing mode and machine state (frame condition) is proved in
`Props/C04b.lean` (`decimal_step_6502`, `decimal_step_65c02`, `adc/sbc_decimal_any_mode`); the decimal difference for
valid BCD and the definitional part of `cmos_acv` are in `Props/C04c.lean`.
-/
import Mathlib.Tactic.IntervalCases
import Py65.Proofs.Dec.Adc0
import Py65.Proofs.Dec.Adc1
import Py65.Proofs.Dec.Adc2
import Py65.Proofs.Dec.Adc3
import Py65.Proofs.Dec.Adc4
import Py65.Proofs.Dec.Adc5
import Py65.Proofs.Dec.Adc6
import Py65.Proofs.Dec.Adc7
import Py65.Proofs.Dec.Adc8
import Py65.Proofs.Dec.Adc9
import Py65.Proofs.Dec.Adc10
import Py65.Proofs.Dec.Adc11
import Py65.Proofs.Dec.Adc12
import Py65.Proofs.Dec.Adc13
import Py65.Proofs.Dec.Adc14
import Py65.Proofs.Dec.Adc15
import Py65.Proofs.Dec.Adc16
import Py65.Proofs.Dec.Adc17
import Py65.Proofs.Dec.Adc18
import Py65.Proofs.Dec.Adc19
import Py65.Proofs.Dec.Adc20
import Py65.Proofs.Dec.Adc21
import Py65.Proofs.Dec.Adc22
import Py65.Proofs.Dec.Adc23
import Py65.Proofs.Dec.Adc24
import Py65.Proofs.Dec.Adc25
import Py65.Proofs.Dec.Adc26
import Py65.Proofs.Dec.Adc27
import Py65.Proofs.Dec.Adc28
import Py65.Proofs.Dec.Adc29
import Py65.Proofs.Dec.Adc30
import Py65.Proofs.Dec.Adc31
import Py65.Proofs.Dec.Adc32
import Py65.Proofs.Dec.Adc33
import Py65.Proofs.Dec.Adc34
import Py65.Proofs.Dec.Adc35
import Py65.Proofs.Dec.Adc36
import Py65.Proofs.Dec.Adc37
import Py65.Proofs.Dec.Adc38
import Py65.Proofs.Dec.Adc39
import Py65.Proofs.Dec.Adc40
import Py65.Proofs.Dec.Adc41
import Py65.Proofs.Dec.Adc42
import Py65.Proofs.Dec.Adc43
import Py65.Proofs.Dec.Adc44
import Py65.Proofs.Dec.Adc45
import Py65.Proofs.Dec.Adc46
import Py65.Proofs.Dec.Adc47
import Py65.Proofs.Dec.Adc48
import Py65.Proofs.Dec.Adc49
import Py65.Proofs.Dec.Adc50
import Py65.Proofs.Dec.Adc51
import Py65.Proofs.Dec.Adc52
import Py65.Proofs.Dec.Adc53
import Py65.Proofs.Dec.Adc54
import Py65.Proofs.Dec.Adc55
import Py65.Proofs.Dec.Adc56
import Py65.Proofs.Dec.Adc57
import Py65.Proofs.Dec.Adc58
import Py65.Proofs.Dec.Adc59
import Py65.Proofs.Dec.Adc60
import Py65.Proofs.Dec.Adc61
import Py65.Proofs.Dec.Adc62
import Py65.Proofs.Dec.Adc63
import Py65.Proofs.Dec.Sbc0
import Py65.Proofs.Dec.Sbc1
import Py65.Proofs.Dec.Sbc2
import Py65.Proofs.Dec.Sbc3
import Py65.Proofs.Dec.Sbc4
import Py65.Proofs.Dec.Sbc5
import Py65.Proofs.Dec.Sbc6
import Py65.Proofs.Dec.Sbc7
import Py65.Proofs.Dec.Sbc8
import Py65.Proofs.Dec.Sbc9
import Py65.Proofs.Dec.Sbc10
import Py65.Proofs.Dec.Sbc11
import Py65.Proofs.Dec.Sbc12
import Py65.Proofs.Dec.Sbc13
import Py65.Proofs.Dec.Sbc14
import Py65.Proofs.Dec.Sbc15
import Py65.Proofs.Dec.Sbc16
import Py65.Proofs.Dec.Sbc17
import Py65.Proofs.Dec.Sbc18
import Py65.Proofs.Dec.Sbc19
import Py65.Proofs.Dec.Sbc20
import Py65.Proofs.Dec.Sbc21
import Py65.Proofs.Dec.Sbc22
import Py65.Proofs.Dec.Sbc23
import Py65.Proofs.Dec.Sbc24
import Py65.Proofs.Dec.Sbc25
import Py65.Proofs.Dec.Sbc26
import Py65.Proofs.Dec.Sbc27
import Py65.Proofs.Dec.Sbc28
import Py65.Proofs.Dec.Sbc29
import Py65.Proofs.Dec.Sbc30
import Py65.Proofs.Dec.Sbc31
import Py65.Proofs.Dec.Sbc32
import Py65.Proofs.Dec.Sbc33
import Py65.Proofs.Dec.Sbc34
import Py65.Proofs.Dec.Sbc35
import Py65.Proofs.Dec.Sbc36
import Py65.Proofs.Dec.Sbc37
import Py65.Proofs.Dec.Sbc38
import Py65.Proofs.Dec.Sbc39
import Py65.Proofs.Dec.Sbc40
import Py65.Proofs.Dec.Sbc41
import Py65.Proofs.Dec.Sbc42
import Py65.Proofs.Dec.Sbc43
import Py65.Proofs.Dec.Sbc44
import Py65.Proofs.Dec.Sbc45
import Py65.Proofs.Dec.Sbc46
import Py65.Proofs.Dec.Sbc47
import Py65.Proofs.Dec.Sbc48
import Py65.Proofs.Dec.Sbc49
import Py65.Proofs.Dec.Sbc50
import Py65.Proofs.Dec.Sbc51
import Py65.Proofs.Dec.Sbc52
import Py65.Proofs.Dec.Sbc53
import Py65.Proofs.Dec.Sbc54
import Py65.Proofs.Dec.Sbc55
import Py65.Proofs.Dec.Sbc56
import Py65.Proofs.Dec.Sbc57
import Py65.Proofs.Dec.Sbc58
import Py65.Proofs.Dec.Sbc59
import Py65.Proofs.Dec.Sbc60
import Py65.Proofs.Dec.Sbc61
import Py65.Proofs.Dec.Sbc62
import Py65.Proofs.Dec.Sbc63

namespace Py65.Props.C04
open Py65.Proofs.Dec Py65.Spec.Decimal

theorem nmos_adc (a m : Nat) (ha : a < 256) (hm : m < 256) (c : Bool) :
    pyAdc (Int.ofNat a) (Int.ofNat m) c = adcNmos (Int.ofNat a) (Int.ofNat m) c := by
  have hk : a / 4 < 64 := by omega
  have hr : a % 4 < 4 := by omega
  have ha' : a = 4 * (a / 4) + a % 4 := by omega
  generalize a / 4 = k at hk ha'
  generalize a % 4 = r at hr ha'
  subst ha'
  interval_cases k
  · exact adc_chunk0 ⟨r, hr⟩ ⟨m, hm⟩ c
  · exact adc_chunk1 ⟨r, hr⟩ ⟨m, hm⟩ c
  · exact adc_chunk2 ⟨r, hr⟩ ⟨m, hm⟩ c
  · exact adc_chunk3 ⟨r, hr⟩ ⟨m, hm⟩ c
  · exact adc_chunk4 ⟨r, hr⟩ ⟨m, hm⟩ c
  · exact adc_chunk5 ⟨r, hr⟩ ⟨m, hm⟩ c
  · exact adc_chunk6 ⟨r, hr⟩ ⟨m, hm⟩ c
  · exact adc_chunk7 ⟨r, hr⟩ ⟨m, hm⟩ c
  · exact adc_chunk8 ⟨r, hr⟩ ⟨m, hm⟩ c
  · exact adc_chunk9 ⟨r, hr⟩ ⟨m, hm⟩ c
  · exact adc_chunk10 ⟨r, hr⟩ ⟨m, hm⟩ c
  · exact adc_chunk11 ⟨r, hr⟩ ⟨m, hm⟩ c
  · exact adc_chunk12 ⟨r, hr⟩ ⟨m, hm⟩ c
  · exact adc_chunk13 ⟨r, hr⟩ ⟨m, hm⟩ c
  · exact adc_chunk14 ⟨r, hr⟩ ⟨m, hm⟩ c
  · exact adc_chunk15 ⟨r, hr⟩ ⟨m, hm⟩ c
  · exact adc_chunk16 ⟨r, hr⟩ ⟨m, hm⟩ c
  · exact adc_chunk17 ⟨r, hr⟩ ⟨m, hm⟩ c
  · exact adc_chunk18 ⟨r, hr⟩ ⟨m, hm⟩ c
  · exact adc_chunk19 ⟨r, hr⟩ ⟨m, hm⟩ c
  · exact adc_chunk20 ⟨r, hr⟩ ⟨m, hm⟩ c
  · exact adc_chunk21 ⟨r, hr⟩ ⟨m, hm⟩ c
  · exact adc_chunk22 ⟨r, hr⟩ ⟨m, hm⟩ c
  · exact adc_chunk23 ⟨r, hr⟩ ⟨m, hm⟩ c
  · exact adc_chunk24 ⟨r, hr⟩ ⟨m, hm⟩ c
  · exact adc_chunk25 ⟨r, hr⟩ ⟨m, hm⟩ c
  · exact adc_chunk26 ⟨r, hr⟩ ⟨m, hm⟩ c
  · exact adc_chunk27 ⟨r, hr⟩ ⟨m, hm⟩ c
  · exact adc_chunk28 ⟨r, hr⟩ ⟨m, hm⟩ c
  · exact adc_chunk29 ⟨r, hr⟩ ⟨m, hm⟩ c
  · exact adc_chunk30 ⟨r, hr⟩ ⟨m, hm⟩ c
  · exact adc_chunk31 ⟨r, hr⟩ ⟨m, hm⟩ c
  · exact adc_chunk32 ⟨r, hr⟩ ⟨m, hm⟩ c
  · exact adc_chunk33 ⟨r, hr⟩ ⟨m, hm⟩ c
  · exact adc_chunk34 ⟨r, hr⟩ ⟨m, hm⟩ c
  · exact adc_chunk35 ⟨r, hr⟩ ⟨m, hm⟩ c
  · exact adc_chunk36 ⟨r, hr⟩ ⟨m, hm⟩ c
  · exact adc_chunk37 ⟨r, hr⟩ ⟨m, hm⟩ c
  · exact adc_chunk38 ⟨r, hr⟩ ⟨m, hm⟩ c
  · exact adc_chunk39 ⟨r, hr⟩ ⟨m, hm⟩ c
  · exact adc_chunk40 ⟨r, hr⟩ ⟨m, hm⟩ c
  · exact adc_chunk41 ⟨r, hr⟩ ⟨m, hm⟩ c
  · exact adc_chunk42 ⟨r, hr⟩ ⟨m, hm⟩ c
  · exact adc_chunk43 ⟨r, hr⟩ ⟨m, hm⟩ c
  · exact adc_chunk44 ⟨r, hr⟩ ⟨m, hm⟩ c
  · exact adc_chunk45 ⟨r, hr⟩ ⟨m, hm⟩ c
  · exact adc_chunk46 ⟨r, hr⟩ ⟨m, hm⟩ c
  · exact adc_chunk47 ⟨r, hr⟩ ⟨m, hm⟩ c
  · exact adc_chunk48 ⟨r, hr⟩ ⟨m, hm⟩ c
  · exact adc_chunk49 ⟨r, hr⟩ ⟨m, hm⟩ c
  · exact adc_chunk50 ⟨r, hr⟩ ⟨m, hm⟩ c
  · exact adc_chunk51 ⟨r, hr⟩ ⟨m, hm⟩ c
  · exact adc_chunk52 ⟨r, hr⟩ ⟨m, hm⟩ c
  · exact adc_chunk53 ⟨r, hr⟩ ⟨m, hm⟩ c
  · exact adc_chunk54 ⟨r, hr⟩ ⟨m, hm⟩ c
  · exact adc_chunk55 ⟨r, hr⟩ ⟨m, hm⟩ c
  · exact adc_chunk56 ⟨r, hr⟩ ⟨m, hm⟩ c
  · exact adc_chunk57 ⟨r, hr⟩ ⟨m, hm⟩ c
  · exact adc_chunk58 ⟨r, hr⟩ ⟨m, hm⟩ c
  · exact adc_chunk59 ⟨r, hr⟩ ⟨m, hm⟩ c
  · exact adc_chunk60 ⟨r, hr⟩ ⟨m, hm⟩ c
  · exact adc_chunk61 ⟨r, hr⟩ ⟨m, hm⟩ c
  · exact adc_chunk62 ⟨r, hr⟩ ⟨m, hm⟩ c
  · exact adc_chunk63 ⟨r, hr⟩ ⟨m, hm⟩ c

theorem nmos_sbc (a m : Nat) (ha : a < 256) (hm : m < 256) (c : Bool) :
    pySbc (Int.ofNat a) (Int.ofNat m) c = sbcNmos (Int.ofNat a) (Int.ofNat m) c := by
  have hk : a / 4 < 64 := by omega
  have hr : a % 4 < 4 := by omega
  have ha' : a = 4 * (a / 4) + a % 4 := by omega
  generalize a / 4 = k at hk ha'
  generalize a % 4 = r at hr ha'
  subst ha'
  interval_cases k
  · exact sbc_chunk0 ⟨r, hr⟩ ⟨m, hm⟩ c
  · exact sbc_chunk1 ⟨r, hr⟩ ⟨m, hm⟩ c
  · exact sbc_chunk2 ⟨r, hr⟩ ⟨m, hm⟩ c
  · exact sbc_chunk3 ⟨r, hr⟩ ⟨m, hm⟩ c
  · exact sbc_chunk4 ⟨r, hr⟩ ⟨m, hm⟩ c
  · exact sbc_chunk5 ⟨r, hr⟩ ⟨m, hm⟩ c
  · exact sbc_chunk6 ⟨r, hr⟩ ⟨m, hm⟩ c
  · exact sbc_chunk7 ⟨r, hr⟩ ⟨m, hm⟩ c
  · exact sbc_chunk8 ⟨r, hr⟩ ⟨m, hm⟩ c
  · exact sbc_chunk9 ⟨r, hr⟩ ⟨m, hm⟩ c
  · exact sbc_chunk10 ⟨r, hr⟩ ⟨m, hm⟩ c
  · exact sbc_chunk11 ⟨r, hr⟩ ⟨m, hm⟩ c
  · exact sbc_chunk12 ⟨r, hr⟩ ⟨m, hm⟩ c
  · exact sbc_chunk13 ⟨r, hr⟩ ⟨m, hm⟩ c
  · exact sbc_chunk14 ⟨r, hr⟩ ⟨m, hm⟩ c
  · exact sbc_chunk15 ⟨r, hr⟩ ⟨m, hm⟩ c
  · exact sbc_chunk16 ⟨r, hr⟩ ⟨m, hm⟩ c
  · exact sbc_chunk17 ⟨r, hr⟩ ⟨m, hm⟩ c
  · exact sbc_chunk18 ⟨r, hr⟩ ⟨m, hm⟩ c
  · exact sbc_chunk19 ⟨r, hr⟩ ⟨m, hm⟩ c
  · exact sbc_chunk20 ⟨r, hr⟩ ⟨m, hm⟩ c
  · exact sbc_chunk21 ⟨r, hr⟩ ⟨m, hm⟩ c
  · exact sbc_chunk22 ⟨r, hr⟩ ⟨m, hm⟩ c
  · exact sbc_chunk23 ⟨r, hr⟩ ⟨m, hm⟩ c
  · exact sbc_chunk24 ⟨r, hr⟩ ⟨m, hm⟩ c
  · exact sbc_chunk25 ⟨r, hr⟩ ⟨m, hm⟩ c
  · exact sbc_chunk26 ⟨r, hr⟩ ⟨m, hm⟩ c
  · exact sbc_chunk27 ⟨r, hr⟩ ⟨m, hm⟩ c
  · exact sbc_chunk28 ⟨r, hr⟩ ⟨m, hm⟩ c
  · exact sbc_chunk29 ⟨r, hr⟩ ⟨m, hm⟩ c
  · exact sbc_chunk30 ⟨r, hr⟩ ⟨m, hm⟩ c
  · exact sbc_chunk31 ⟨r, hr⟩ ⟨m, hm⟩ c
  · exact sbc_chunk32 ⟨r, hr⟩ ⟨m, hm⟩ c
  · exact sbc_chunk33 ⟨r, hr⟩ ⟨m, hm⟩ c
  · exact sbc_chunk34 ⟨r, hr⟩ ⟨m, hm⟩ c
  · exact sbc_chunk35 ⟨r, hr⟩ ⟨m, hm⟩ c
  · exact sbc_chunk36 ⟨r, hr⟩ ⟨m, hm⟩ c
  · exact sbc_chunk37 ⟨r, hr⟩ ⟨m, hm⟩ c
  · exact sbc_chunk38 ⟨r, hr⟩ ⟨m, hm⟩ c
  · exact sbc_chunk39 ⟨r, hr⟩ ⟨m, hm⟩ c
  · exact sbc_chunk40 ⟨r, hr⟩ ⟨m, hm⟩ c
  · exact sbc_chunk41 ⟨r, hr⟩ ⟨m, hm⟩ c
  · exact sbc_chunk42 ⟨r, hr⟩ ⟨m, hm⟩ c
  · exact sbc_chunk43 ⟨r, hr⟩ ⟨m, hm⟩ c
  · exact sbc_chunk44 ⟨r, hr⟩ ⟨m, hm⟩ c
  · exact sbc_chunk45 ⟨r, hr⟩ ⟨m, hm⟩ c
  · exact sbc_chunk46 ⟨r, hr⟩ ⟨m, hm⟩ c
  · exact sbc_chunk47 ⟨r, hr⟩ ⟨m, hm⟩ c
  · exact sbc_chunk48 ⟨r, hr⟩ ⟨m, hm⟩ c
  · exact sbc_chunk49 ⟨r, hr⟩ ⟨m, hm⟩ c
  · exact sbc_chunk50 ⟨r, hr⟩ ⟨m, hm⟩ c
  · exact sbc_chunk51 ⟨r, hr⟩ ⟨m, hm⟩ c
  · exact sbc_chunk52 ⟨r, hr⟩ ⟨m, hm⟩ c
  · exact sbc_chunk53 ⟨r, hr⟩ ⟨m, hm⟩ c
  · exact sbc_chunk54 ⟨r, hr⟩ ⟨m, hm⟩ c
  · exact sbc_chunk55 ⟨r, hr⟩ ⟨m, hm⟩ c
  · exact sbc_chunk56 ⟨r, hr⟩ ⟨m, hm⟩ c
  · exact sbc_chunk57 ⟨r, hr⟩ ⟨m, hm⟩ c
  · exact sbc_chunk58 ⟨r, hr⟩ ⟨m, hm⟩ c
  · exact sbc_chunk59 ⟨r, hr⟩ ⟨m, hm⟩ c
  · exact sbc_chunk60 ⟨r, hr⟩ ⟨m, hm⟩ c
  · exact sbc_chunk61 ⟨r, hr⟩ ⟨m, hm⟩ c
  · exact sbc_chunk62 ⟨r, hr⟩ ⟨m, hm⟩ c
  · exact sbc_chunk63 ⟨r, hr⟩ ⟨m, hm⟩ c

/-- A valid BCD byte from its two decimal digits. -/
def bcd (h l : Fin 10) : Int := Int.ofNat (16 * h.val + l.val)

/-- What the Spec means: on valid BCD operands the NMOS ADC result is the decimal sum. -/
theorem valid_bcd_is_decimal_sum : ∀ ah al mh ml : Fin 10, ∀ c : Bool,
    bcdVal (adcNmos (bcd ah al) (bcd mh ml) c).a + (if (adcNmos (bcd ah al) (bcd mh ml) c).c then 100 else 0) =
      bcdVal (bcd ah al) + bcdVal (bcd mh ml) + (if c then 1 else 0) := by
  decide +kernel

/-- 65C02 (it runs the same code): A, C and V are those of the 65C02 sequences on valid BCD. -/
theorem cmos_acv : ∀ ah al mh ml : Fin 10, ∀ c : Bool,
    (adcNmos (bcd ah al) (bcd mh ml) c).a = (adcCmos (bcd ah al) (bcd mh ml) c).a ∧
    (adcNmos (bcd ah al) (bcd mh ml) c).c = (adcCmos (bcd ah al) (bcd mh ml) c).c ∧
    (adcNmos (bcd ah al) (bcd mh ml) c).v = (adcCmos (bcd ah al) (bcd mh ml) c).v ∧
    (sbcNmos (bcd ah al) (bcd mh ml) c).a = (sbcCmos (bcd ah al) (bcd mh ml) c).a ∧
    (sbcNmos (bcd ah al) (bcd mh ml) c).c = (sbcCmos (bcd ah al) (bcd mh ml) c).c ∧
    (sbcNmos (bcd ah al) (bcd mh ml) c).v = (sbcCmos (bcd ah al) (bcd mh ml) c).v := by
  decide +kernel

/-- The recorded deviation (known finding): on the 65C02, $99 + $01 leaves Z clear and N set, while the
decimal result $00 says Z set, N clear. -/
theorem cmos_nz_deviation :
    (pyAdc 0x99 0x01 false).z = false ∧ (adcCmos 0x99 0x01 false).z = true ∧
    (pyAdc 0x99 0x01 false).n = true ∧ (adcCmos 0x99 0x01 false).n = false := by decide +kernel

example : (pyAdc 0x58 0x46 true).a = 0x05 ∧ (pyAdc 0x58 0x46 true).c = true := by decide +kernel

end Py65.Props.C04
