/-
Protocol handlers that do not depend on the translated device code (Spec + hand models).
Shared by `driver` (full) and `specdriver` (still builds when the translated code does not).
-/
import Py65.Driver.Spec
import Py65.Driver.Num
import Py65.Driver.Obs
import Py65.Driver.Mon
import Py65.Driver.Asm
import Py65.Driver.MonCmd

namespace Py65.Driver
open Py65

def pyint (args : List String) : String :=
  match args with
  | [op, a, b] =>
    let x := parseInt! a; let y := parseInt! b
    match op with
    | "and" => toString (Py.land x y)
    | "or" => toString (Py.lor x y)
    | "xor" => toString (Py.lxor x y)
    | "not" => toString (Py.lnot x)
    | "shl" => toString (Py.shl x y.toNat)
    | "shr" => toString (Py.shr x y.toNat)
    | "div" => toString (x / y)
    | "mod" => toString (x % y)
    | _ => "bad-op"
  | _ => "bad-op"

def handleBase (toks : List String) : Option String :=
  match toks with
  | "spec" :: rest => some (runSpec rest)
  | "dec" :: rest => some (runDec rest)
  | "pyint" :: [b, h] => some (runNum ["pyint", b, h])      -- int(str, base) model (C15/C19)
  | "pyint" :: rest => some (pyint rest)
  | "obs" :: rest => some (runObs rest)
  | "mon" :: rest => some (runMon rest)
  | "asm" :: rest => some (runAsm ("asm" :: rest))          -- assembler model (C07/C08)
  | "nas" :: rest => some (runAsm ("nas" :: rest))
  | "stm" :: rest => some (runAsm ("stm" :: rest))
  | "dis" :: rest => some (runAsm ("dis" :: rest))          -- disassembler model (C08/C09)
  | "spc" :: rest => some (runAsm ("spc" :: rest))          -- Spec.Asm.encode
  | "spa" :: rest => some (runAsm ("spa" :: rest))
  | "spp" :: rest => some (runAsm ("spp" :: rest))          -- Spec.Asm.parse (C07 soundness oracle)
  | "num" :: rest => some (runNum ("num" :: rest))
  | "rng" :: rest => some (runNum ("rng" :: rest))
  | "lbl" :: rest => some (runNum ("lbl" :: rest))
  | "fmt" :: rest => some (runNum ("fmt" :: rest))
  | "bg" :: [seed, w, addr] => some (toString (bg (parseInt! seed) (parseInt! w).toNat (parseInt! addr)))
  | toks => runMonCmd toks      -- pre / shlex / regpairs / cmdline / repr / fmtdis / cyc / io  (C18, C19, C20)

partial def loop (handle : String → String) (h : IO.FS.Stream) (out : IO.FS.Stream) : IO Unit := do
  let line ← h.getLine
  if line.isEmpty then return ()
  out.putStrLn (handle line)
  loop handle h out

def tokens (line : String) : List String :=
  (line.trimAscii.toString.splitOn " ").filter (· ≠ "")

end Py65.Driver
