/-
Protocol line `run` (C17): the run control of the monitor (`Py65.Model.MonRun`) over the GENERATED
device model (`Py65.Gen.devXXXX.step`).  Depends on `Py65.Gen.Devices`, so it is registered in
`Main.lean` only (not in `handleBase`, which `specdriver` shares).

  run <dev> <cmd> <fuel> <bps> a x y sp p pc cycles excycles addcycles waiting seed startpc|- overrides|-

  cmd   goto:<address> | return | step
  fuel  bound on the number of loop iterations
  bps   self._breakpoints: `-` (empty list) or comma list of addresses, `x` = None (deleted)
  state as in the `cpu` line (`parseState`); seed -1 = all cells 0 apart from the overrides

Reply:  ok <steps> <hit|-> <regs> | <a=v …> | <alias>
          steps  number of mpu.step() calls          hit  n of "Breakpoint n reached."
          regs   a x y sp p pc cycles excycles addcycles waiting      (`regsStr`)
          a=v    final value of every cell the device wrote, ascending, each once; `-` if none
          alias  1 if some access or the final PC (which the monitor peeks at) was outside
                 [0, physMask] (the real ObservableMemory aliases
                 such an address, the generated model's memory is a total function: the harness
                 does not compare those runs), else 0
        nofuel <alias>   the loop did not end within <fuel> iterations (alias as above, over the
                 <fuel> steps made)
-/
import Py65.Driver.Cpu
import Py65.Model.MonRun

namespace Py65.Driver
open Py65 Py65.Gen Py65.Model.MonRun

def parseBps (s : String) : List (Option Int) :=
  if s = "-" then [] else (s.splitOn ",").map fun t => if t = "x" then none else t.toInt?

def evAddr : MemEv → Int
  | .r a => a
  | .w a _ => a

def dedupSortedR : List Int → List Int
  | a :: b :: rest => if a = b then dedupSortedR (b :: rest) else a :: dedupSortedR (b :: rest)
  | l => l

def runResStr (W : Nat) (r : RunRes) : String :=
  let physMask : Int := if W = 16 then 0x3ffff else 0xffff
  let written := r.st.log.filterMap fun e => match e with | .w a _ => some a | .r _ => none
  let cells := dedupSortedR ((written.toArray.qsort (· < ·)).toList)
  let alias := (r.st.log.any fun e => evAddr e < 0 || evAddr e > physMask) || r.st.pc < 0 || r.st.pc > physMask
  let hit := match r.hit with | some n => toString n | none => "-"
  s!"ok {r.steps} {hit} {regsStr r.st} | " ++
    (if cells.isEmpty then "-" else " ".intercalate (cells.map fun a => s!"{a}={r.st.mem a}")) ++
    " | " ++ (if alias then "1" else "0")

def iterN (f : St → St) : Nat → St → St
  | 0, s => s
  | n + 1, s => iterN f n (f s)

def runMonRun (args : List String) : String :=
  match args with
  | dev :: cmd :: fuel :: bps :: rest =>
    match devOps dev with
    | none => "bad-dev"
    | some d =>
      match parseState d.W rest with
      | none => "bad-state"
      | some (s0, _) =>
        let s0 : St :=
          match rest with
          | [_, _, _, _, _, _, _, _, _, _, seed, _, ov] =>
            if parseInt! seed = -1 then
              let o := parsePairs ov
              { s0 with mem := fun k => (lookup o k).getD 0 }
            else s0
          | _ => s0
        let fuel := (parseInt! fuel).toNat
        let bps := parseBps bps
        let res : Option (Option RunRes) :=
          match cmd.splitOn ":" with
          | ["goto", a] => some (goto d.step bps fuel (parseInt! a) s0)
          | ["return"] => some (ret d.step bps fuel s0)
          | ["step"] => some (some (stepCmd d.step s0))
          | _ => none
        match res with
        | none => "bad-op"
        | some none =>
          let physMask : Int := if d.W = 16 then 0x3ffff else 0xffff
          let s1 : St := match cmd.splitOn ":" with
            | ["goto", a] => { s0 with pc := parseInt! a }
            | _ => s0
          let sf := iterN d.step fuel s1
          "nofuel " ++ (if sf.log.any fun e => evAddr e < 0 || evAddr e > physMask then "1" else "0")
        | some (some r) => runResStr d.W r
  | _ => "bad-op"

end Py65.Driver
