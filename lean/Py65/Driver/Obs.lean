/-
Protocol line `obs` (DESIGN.md §2.6): one line = one whole history on one `ObservableMemory`.

  obs <addrWidth> <seed> <op> <op> …

  op ::= R:<cb>:<addrs>          subscribe_to_read(addrs, cb)      addrs = a,a,a | -
       | W:<cb>:<addrs>          subscribe_to_write(addrs, cb)
       | g:<a>                   mem[a]
       | s:<a>:<v>               mem[a] = v
       | G:<start>:<stop>:<step> mem[start:stop:step]              N = None
       | S:<start>:<stop>:<step>:<vals>   mem[start:stop:step] = vals
       | B:<start>:<bytes>       mem.write(start, bytes)

The backing list starts as `cell0 a = (a*37+11) % 251` for `a = 0 … physMask`.
Callback `cb` answers by the seeded rule `replyRule seed cb callIndex addr value`, which the
Python harness (`harness/props/c10.py: reply_rule`) reproduces exactly.

Reply:  <outs> | <call log> | <cells> | <len(_subject)>
  outs   one token per op: `-` (nothing returned), `<v>`, `[v,v,…]`, `E` (ValueError)
  log    `cb:addr:N` (read callback) / `cb:addr:v` (write callback), oldest first; `-` if empty
  cells  `addr=value` of every touched cell (masked item addresses, all slice indices, the
         positions of bulk writes), ascending, each once; `-` if none
-/
import Py65.Driver.Common
import Py65.Model.ObsMem

namespace Py65.Driver
open Py65 Py65.Model.ObsMem

def cell0 (a : Int) : Int := (a * 37 + 11) % 251

/-- Seeded reply rule.  Each callback id has a "personality" (`bg seed 8 cb % 4`):
0 always `None`; 1 uniformly `None` / `0` / a value; 2 always a value (one in five `0`, some
negative); 3 mostly `None`.  Everything else depends on the call index, the address and (for
write callbacks) the value seen, so a callback shown a different value answers differently. -/
def replyRule (seed : Int) : Reply := fun cb idx addr val =>
  let pers := bg seed 8 (cb : Int) % 4
  if pers = 0 then none else
  let key : Int := (cb : Int) * 1000003 + (idx : Int) * 7919 + addr * 31 +
    (match val with | none => 0 | some v => (v + 1) * 131)
  let k := bg seed 19 key
  if pers = 1 then
    (if k % 3 = 0 then none else if k % 3 = 1 then some 0 else some (k / 3 % 256))
  else if pers = 2 then
    (if k % 5 = 0 then some 0 else some (k / 5 % 300 - 20))
  else
    (if k % 8 = 0 then some 0 else if k % 8 = 1 then some (k / 8 % 256) else none)

def parseOptInt (s : String) : Option Int := if s = "N" then none else s.toInt?

def parseInts (s : String) : List Int :=
  if s = "-" || s = "" then [] else (s.splitOn ",").filterMap (·.toInt?)

def parseOp (tok : String) : Option Op :=
  match tok.splitOn ":" with
  | ["R", cb, addrs] => some (.subR (parseInts addrs) (parseInt! cb).toNat)
  | ["W", cb, addrs] => some (.subW (parseInts addrs) (parseInt! cb).toNat)
  | ["g", a] => some (.get (parseInt! a))
  | ["s", a, v] => some (.set (parseInt! a) (parseInt! v))
  | ["G", s, e, st] => some (.getSlice (parseOptInt s) (parseOptInt e) (parseOptInt st))
  | ["S", s, e, st, vs] => some (.setSlice (parseOptInt s) (parseOptInt e) (parseOptInt st) (parseInts vs))
  | ["B", s, bs] => some (.write (parseInt! s) (parseInts bs))
  | _ => none

def intsStr (l : List Int) : String := ",".intercalate (l.map toString)

def outStr : Out → String
  | .unit => "-"
  | .val v => toString v
  | .vals vs => "[" ++ intsStr vs ++ "]"
  | .valueError => "E"

def obsEvStr (e : Ev) : String :=
  s!"{e.cb}:{e.addr}:{match e.val with | none => "N" | some v => toString v}"

/-- Cells an operation touches, given the state it starts from. -/
def touched (m : OM) : Op → List Int
  | .subR _ _ => []
  | .subW _ _ => []
  | .get a => [Py.land a m.physMask]
  | .set a _ => [Py.land a m.physMask]
  | .getSlice s e st => (sliceIndices (m.physMask + 1) s e st).getD []
  | .setSlice s e st _ => (sliceIndices (m.physMask + 1) s e st).getD []
  | .write s bs =>
    let s := Py.land s m.physMask
    (List.range bs.length).map fun (i : Nat) => s + (i : Int)

def dedupSorted : List Int → List Int
  | a :: b :: rest => if a = b then dedupSorted (b :: rest) else a :: dedupSorted (b :: rest)
  | l => l

def wordsOr (l : List String) : String := if l.isEmpty then "-" else " ".intercalate l

def runObs (args : List String) : String :=
  match args with
  | w :: seed :: opToks =>
    let ops := opToks.filterMap parseOp
    if ops.length ≠ opToks.length then "bad-op" else
    let reply := replyRule (parseInt! seed)
    let m0 := init (parseInt! w) cell0
    -- run, collecting results and touched cells
    let step := fun (acc : List String × List Int × OM) (op : Op) =>
      let r := apply reply acc.2.2 op
      (outStr r.1 :: acc.1, touched acc.2.2 op ++ acc.2.1, r.2)
    let fin := ops.foldl step ([], [], m0)
    let m := fin.2.2
    let cells := dedupSorted ((fin.2.1.toArray.qsort (· < ·)).toList)
    wordsOr fin.1.reverse ++ " | " ++ wordsOr (m.log.map obsEvStr) ++ " | " ++
      wordsOr (cells.map fun a => s!"{a}={m.subject a}") ++ " | " ++ toString m.subjLen
  | _ => "bad-op"

end Py65.Driver
