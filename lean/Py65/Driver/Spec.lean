/-
`spec` protocol line: run the hand-written *specification* (oracle of the failing-input search).
  spec <dev> <ops> a x y sp p pc cycles excycles addcycles waiting seed startpc|- overrides|- probes|-
reply: per op  `a x y sp p pc waiting dcycles acc=<data accesses> opn=<operand addrs>` joined by ';',
       then ` | ` and `addr:val` for every probe address and every address the spec wrote.
-/
import Py65.Driver.Common
import Py65.Spec.Cycles
import Py65.Spec.Decimal

namespace Py65.Driver
open Py65 Py65.Spec

def specDev (name : String) : Option (Nat × Variant) :=
  match name with
  | "6502" => some (8, .nmos)
  | "65C02" => some (8, .cmos)
  | "65Org16" => some (16, .nmos)
  | _ => none

def accStr : Acc → String
  | .r a => s!"r:{a}"
  | .w a => s!"w:{a}"

def aregs (s : AState) : String :=
  s!"{s.a} {s.x} {s.y} {s.sp} {s.p} {s.pc} {if s.waiting then 1 else 0}"

structure SpecOut where
  s : AState
  dcyc : Int
  acc : List Acc
  opn : List Int
  mn : String := "-"

def specOp (W : Nat) (v : Variant) (spc : Option Int) (op : String) (s : AState) : SpecOut :=
  match op with
  | "step" =>
    if s.waiting then ⟨Spec.step W v s, 1, [], [], "-"⟩ else
    match decode v (s.mem s.pc) with
    | some (mn, mo) =>
      let s1 := { s with pc := (s.pc + 1) % AM W }
      ⟨Spec.step W v s, stepCycles W v s, dataAccesses W v mn mo s1, operandAddrs W mo s1, mn.name ++ "/" ++ mo.name⟩
    | none => ⟨Spec.step W v s, 0, [], [], "???/imp"⟩
  | "irq" =>
    if flag s.p bitI then ⟨Spec.irq W s, 0, [], [], "-"⟩
    else ⟨Spec.irq W s, 7, interruptAccesses W irqVector s, [], "-"⟩
  | "nmi" => ⟨Spec.nmi W s, 7, interruptAccesses W nmiVector s, [], "-"⟩
  | "reset" =>
    ⟨Spec.reset W spc s, 0,
     (match spc with | some _ => [] | none => [.r resetVector, .r (resetVector + 1)]), [], "-"⟩
  | _ => ⟨s, 0, [], [], "-"⟩

def runSpec (args : List String) : String :=
  match args with
  | dev :: ops :: a :: x :: y :: sp :: p :: pc :: _cyc :: _ex :: _ad :: wt :: seed :: spc :: ov :: probes :: [] =>
    match specDev dev with
    | none => "bad-dev"
    | some (W, v) =>
      let mem0 := mkMem (parseInt! seed) W (parsePairs ov)
      let s0 : AState := { a := parseInt! a, x := parseInt! x, y := parseInt! y, sp := parseInt! sp,
                           p := normP (parseInt! p), pc := parseInt! pc, mem := mem0,
                           waiting := wt = "1" }
      let spc := parseInt spc
      let stepf (acc : AState × List String × List Int × Bool) (op : String) :=
        let (s, outs, wr, stopped) := acc
        if stopped then acc else
        if op = "step" ∧ ¬ s.waiting ∧ (s.mem s.pc < 0 ∨ s.mem s.pc > 255) then
          (s, "oob" :: outs, wr, true)
        else
        let o := specOp W v spc op s
        let line := aregs o.s ++ s!" {o.dcyc} acc=" ++ ",".intercalate (o.acc.map accStr)
          ++ " opn=" ++ ",".intercalate (o.opn.map toString) ++ " mn=" ++ o.mn
        let wr' := o.acc.filterMap (fun | .w a => some a | _ => none)
        (o.s, line :: outs, wr' ++ wr, false)
      let (sf, outs, wr, _) := (ops.splitOn ",").foldl stepf (s0, [], [], false)
      let probeL := (if probes = "-" then [] else (probes.splitOn ",").filterMap String.toInt?) ++ wr.reverse
      ";".intercalate outs.reverse ++ " | " ++
        ",".intercalate (probeL.eraseDups.map fun k => s!"{k}:{sf.mem k}")
  | _ => "bad-op"


/-- `dec <adc|sbc> <nmos|cmos> a m c` → `A C N V Z` per Spec.Decimal (Clark). -/
def runDec (args : List String) : String :=
  match args with
  | [op, v, a, m, c] =>
    let a := parseInt! a; let m := parseInt! m; let c := c = "1"
    let r := match op, v with
      | "adc", "nmos" => Spec.Decimal.adcNmos a m c
      | "sbc", "nmos" => Spec.Decimal.sbcNmos a m c
      | "adc", _ => Spec.Decimal.adcCmos a m c
      | _, _ => Spec.Decimal.sbcCmos a m c
    let b (x : Bool) : String := if x then "1" else "0"
    s!"{r.a} {b r.c} {b r.n} {b r.v} {b r.z}"
  | _ => "bad-op"

end Py65.Driver
