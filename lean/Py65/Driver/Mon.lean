/-
Protocol line `mon` (DESIGN.md §2.6, C16/C17): one line = one script of monitor commands on one
freshly built monitor of the given device; no CPU is needed (fill / load / save / mem / width /
breakpoint list).

  mon <dev> <seed> <pc> <cmd> <cmd> …

  dev   6502 | 65C02 | 65Org16
  seed  content of the backing list: cell a = bg seed W a   (seed -1: all cells 0)
  pc    self._mpu.pc at the start
  cmd ::= fill/<toks>            do_fill   on split = toks
        | load/<file>/<toks>     do_load   on the file's octets (hex, `-` = empty) and split[1:] = toks
        | save/<toks>            do_save   on split[1:] = toks
        | mem/<toks>             do_mem    on split = toks
        | width/<int>            do_width  with an argument int() accepts
        | ab/<toks>              do_add_breakpoint on split = toks
        | db/<toks>              do_delete_breakpoint on split = toks
        | shb                    do_show_breakpoints
        | pc/<int>               self._mpu.pc = int   (harness sets the attribute)
  toks  ::= N (no token) | tok,tok,…       tok ::= E (empty token) | hex(token)

The monitor's two I/O subscribers are installed as `_install_mpu_observers` does: callback 1 =
putc on writes of $F001 (answers None), callback 2 = getc on reads of $F004 (no pending input:
answers 0).

Reply:  <out> | <out> | … || <cells> || <putc> || <bps> || <width> <pc>
  out    help syntax key overflow other indexError typeError illegal
         wrote:<count>:<start>:<end>     saved:<count>:<hex octets|->     lines:<hex line>,…
         width:<n>   added:<n>:<a>   present:<a>   removed:<n>   already:<n>   bps:<i>=<a>,…|-   pc
  cells  a=v of every physical cell a command may have written (ascending, each once); `-` if none
  putc   values shown to the putc callback, in order; `-` if none
  bps    self._breakpoints: addresses, x = None; `-` if empty

The token-level glue of the two breakpoint commands (argument count, `number()` / `int()` of the
token) lives here, the list operations in `Py65.Model.MonRun`.
-/
import Py65.Driver.Common
import Py65.Spec.MonMem
import Py65.Model.MonRun

namespace Py65.Driver
open Py65 Py65.Model.PyStr Py65.Model.AddrParser Py65.Model.ObsMem Py65.Model.MonMem Py65.Model.MonRun Py65.Spec.MonMem

def monDev (name : String) : Option (Dev × Nat) :=
  match name with
  | "6502" => some (dev8, 8)
  | "65C02" => some (dev8, 8)
  | "65Org16" => some (dev16, 16)
  | _ => none

def parseToks (s : String) : List Str :=
  if s = "N" then [] else
  (s.splitOn ",").map fun t => if t = "E" then [] else (unhex t).toList

def parseOctets (s : String) : List Int :=
  (unhex s).toList.map fun c => (c.toNat : Int)

structure MonSt where
  d : Dev
  P : Parser
  m : OM
  width : Nat
  pc : Int
  bps : List (Option Int)
  outs : List String          -- newest first
  cand : List Int             -- physical cells possibly written

def hexOfInts (l : List Int) : String :=
  if l.isEmpty then "-" else
  String.ofList (l.flatMap fun v => [hexDigit (v.toNat / 16 % 16), hexDigit (v.toNat % 16)])

def outStrMon : Py65.Model.MonMem.Out → String
  | .help => "help"
  | .syntaxError => "syntax"
  | .key => "key"
  | .overflow => "overflow"
  | .other => "other"
  | .indexError => "indexError"
  | .wrote c s e => s!"wrote:{c}:{s}:{e}"
  | .saved c f => s!"saved:{c}:{hexOfInts f}"
  | .lines ls => "lines:" ++ ",".intercalate (ls.map fun l => tohex (String.ofList l))

def bpOutStr : BpOut → String
  | .added n a => s!"added:{n}:{a}"
  | .present a => s!"present:{a}"
  | .removed n => s!"removed:{n}"
  | .already n => s!"already:{n}"
  | .typeError => "typeError"
  | .indexError => "indexError"

/-- Cells iteration `j` of the `_fill` loop writes: `(start + j) & addrMask & physMask`. -/
def fillCand (d : Dev) (mask : Int) (o : Py65.Model.MonMem.Out) : List Int :=
  match o with
  | .wrote c s _ => (List.range c.toNat).map fun (j : Nat) => Py.land (Py.land (s + (j : Int)) d.addrMask) mask
  | _ => []

/-- `do_add_breakpoint` / `do_delete_breakpoint` down to the list operation. -/
def doAb (P : Parser) (toks : List Str) (bps : List (Option Int)) : String × List (Option Int) :=
  match toks with
  | [t] =>
    match numberL P t with
    | .ok a => let r := addBp bps a; (bpOutStr r.1, r.2)
    | .key => ("key", bps)
    | .overflow => ("overflow", bps)
    | .other => ("other", bps)
  | _ => ("syntax", bps)

def doDb (toks : List Str) (bps : List (Option Int)) : String × List (Option Int) :=
  match toks with
  | [t] =>
    match pyIntL t 10 with                     -- int(split[0])
    | some k => let r := delBp bps k; (bpOutStr r.1, r.2)
    | none => ("illegal", bps)
  | _ => ("syntax", bps)

def monCmd (st : MonSt) (tok : String) : Option MonSt :=
  match tok.splitOn "/" with
  | ["fill", ts] =>
    let r := doFill monReply st.d st.P (parseToks ts) st.m
    some { st with m := r.2, outs := outStrMon r.1 :: st.outs,
                   cand := fillCand st.d st.m.physMask r.1 ++ st.cand }
  | ["load", file, ts] =>
    let r := doLoad monReply st.d st.P (parseOctets file) (parseToks ts) st.pc st.m
    some { st with m := r.2, outs := outStrMon r.1 :: st.outs,
                   cand := fillCand st.d st.m.physMask r.1 ++ st.cand }
  | ["save", ts] =>
    let r := doSave monReply st.d st.P (parseToks ts) st.m
    some { st with m := r.2, outs := outStrMon r.1 :: st.outs }
  | ["mem", ts] =>
    let r := doMem monReply st.d st.P st.width (parseToks ts) st.m
    some { st with m := r.2, outs := outStrMon r.1 :: st.outs }
  | ["width", n] =>
    let w := doWidth st.width (parseInt! n)
    some { st with width := w, outs := s!"width:{w}" :: st.outs }
  | ["ab", ts] =>
    let r := doAb st.P (parseToks ts) st.bps
    some { st with bps := r.2, outs := r.1 :: st.outs }
  | ["db", ts] =>
    let r := doDb (parseToks ts) st.bps
    some { st with bps := r.2, outs := r.1 :: st.outs }
  | ["shb"] =>
    let l := (showBps st.bps).map fun p => s!"{p.1}={p.2}"
    some { st with outs := ("bps:" ++ (if l.isEmpty then "-" else ",".intercalate l)) :: st.outs }
  | ["pc", n] => some { st with pc := parseInt! n, outs := "pc" :: st.outs }
  | _ => none

def bpsStr (bps : List (Option Int)) : String :=
  if bps.isEmpty then "-" else
  ",".intercalate (bps.map fun b => match b with | some a => toString a | none => "x")

def dedupSortedI : List Int → List Int
  | a :: b :: rest => if a = b then dedupSortedI (b :: rest) else a :: dedupSortedI (b :: rest)
  | l => l

def runMon (args : List String) : String :=
  match args with
  | dev :: seed :: pc :: cmds =>
    match monDev dev with
    | none => "bad-dev"
    | some (d, W) =>
      let seed := parseInt! seed
      let cells : Int → Int := if seed = -1 then (fun _ => 0) else bg seed W
      let m0 := monMem d.AW cells
      let st0 : MonSt := { d := d, P := { width := d.AW, radix := 16, labels := [] }, m := m0,
                           width := 78, pc := parseInt! pc, bps := [], outs := [], cand := [] }
      let fin := cmds.foldl (fun (acc : Option MonSt) c => acc.bind fun st => monCmd st c) (some st0)
      match fin with
      | none => "bad-op"
      | some st =>
        let cells := dedupSortedI ((st.cand.toArray.qsort (· < ·)).toList)
        let putc := st.m.log.filterMap fun e => if e.cb = 1 then e.val else none
        let words (l : List String) := if l.isEmpty then "-" else " ".intercalate l
        " | ".intercalate st.outs.reverse ++ " || " ++
          words (cells.map fun a => s!"{a}={st.m.subject a}") ++ " || " ++
          words (putc.map toString) ++ " || " ++ bpsStr st.bps ++ " || " ++ s!"{st.width} {st.pc}"
  | _ => "bad-op"

end Py65.Driver
