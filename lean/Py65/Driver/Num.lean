/-
Protocol lines of the number models (C15 / C19):

  num <width> <radix> <labels> <hex(input)>   → ok <n> | key | overflow | other | init-overflow
  rng <width> <radix> <labels> <hex(input)>   → ok <a> <b> | key | overflow | other | init-overflow
  lbl <width> <labels> <address>              → some <hex(label)> | none | init-overflow
  pyint <base> <hex(string)>                  → some <n> | none
  fmt <kind> <width> <n | hex(string)>        → hex(text)
      kinds: hex dec oct bin binz (= itoa(n,2).zfill(width)) zfill rjust (fill ' ') rjust0 (fill '0')

<labels> is `-` or `k=v,k=v,…` with hex-encoded keys (`-` = the empty key) and decimal values,
in insertion order.  Strings are hex-encoded byte-per-character (ASCII / Latin-1).
-/
import Py65.Driver.Common
import Py65.Model.AddrParser

namespace Py65.Driver
open Py65.Model.PyStr Py65.Model.AddrParser

def parseLabels (s : String) : List (Str × Int) :=
  if s = "-" || s = "" then [] else
  (s.splitOn ",").filterMap fun kv =>
    match kv.splitOn "=" with
    | [k, v] => match v.toInt? with
      | some v => some ((unhex k).toList, v)
      | none => none
    | _ => none

def resStr : Res → String
  | .ok n => s!"ok {n}"
  | .key => "key"
  | .overflow => "overflow"
  | .other => "other"

def rresStr : RRes → String
  | .ok a b => s!"ok {a} {b}"
  | .key => "key"
  | .overflow => "overflow"
  | .other => "other"

def runNum (args : List String) : String :=
  match args with
  | ["num", w, r, ls, h] =>
    match Parser.init (parseInt! w).toNat (parseInt! r).toNat (parseLabels ls) with
    | some P => resStr (number P (unhex h))
    | none => "init-overflow"
  | ["rng", w, r, ls, h] =>
    match Parser.init (parseInt! w).toNat (parseInt! r).toNat (parseLabels ls) with
    | some P => rresStr (range P (unhex h))
    | none => "init-overflow"
  | ["lbl", w, ls, a] =>
    match Parser.init (parseInt! w).toNat 16 (parseLabels ls) with
    | some P =>
      match labelFor P (parseInt! a) with
      | some l => "some " ++ tohex (String.ofList l)
      | none => "none"
    | none => "init-overflow"
  | ["pyint", b, h] =>
    match pyInt (unhex h) (parseInt! b).toNat with
    | some n => s!"some {n}"
    | none => "none"
  | ["fmt", kind, w, x] =>
    let w := (parseInt! w).toNat
    let n := (parseInt! x).toNat
    match kind with
    | "hex" => tohex (fmtHex w n)
    | "dec" => tohex (fmtDec n)
    | "oct" => tohex (fmtOct w n)
    | "bin" => tohex (fmtBin n)
    | "binz" => tohex (zfill (fmtBin n) w)
    | "zfill" => tohex (zfill (unhex x) w)
    | "rjust" => tohex (rjust (unhex x) w ' ')
    | "rjust0" => tohex (rjust (unhex x) w '0')
    | _ => "bad-op"
  | _ => "bad-op"

end Py65.Driver
