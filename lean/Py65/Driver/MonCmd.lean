/-
Protocol lines of the monitor models (C18 / C19 / C20).  Strings travel hex-encoded
byte-per-character (`-` = empty), lists comma-separated (`-` = empty).

  pre <hex(line)>                                  → hex(_preprocess_line(line))
  shlex <hex(s)>                                   → E | <n> <hex(tok)> …
  regpairs <hex(s)>                                 → <n> <hex(name)>=<hex(value)> …      (re.findall of do_registers)
  cmdline <dev> <regs> <radix> <width> <labels> <bps> <hex(lastcmd)> <item> …
      regs  = a,x,y,sp,p,pc      labels = k=v,k=v (hex keys)      bps = n|N,…
      item  = L<hex(line)>                      one `Monitor.onecmd(line)`
            | S<a>,<x>,<y>,<sp>,<p>,<pc>        registers observed on the real monitor after the
                                                preceding line; used only when that line ran an
                                                `Ext` command (assemble/fill/load/goto/step/return)
      → one segment per L item, joined by `|`:
        <class> <hex(word)> <exit> <verdict> <viaExt> <pairs> <status> <memfx> ; <dev> <regs> <radix> <width> <labels> <bps> <hex(lastcmd)>
        class = cmd | nocmd | empty | repeat | norepeat     verdict = ok | <reject kind>
        pairs = per-pair outcomes of `registers` (`-` if none): ok / <reject kind>, comma-separated
  repr <dev> <pc> <a> <x> <y> <sp> <p>             → hex(repr(mpu))   <parse-back ok: 0|1>
  fmtdis <dev> <address> <length> <cells a:v,…> <hex(disasm)> → hex(_format_disassembly(…))
  cyc <n>                                          → hex(str(n))
  io <addrWidth> <hex(-i)|N|K<int>|KN> <hex(-o)|N|K<int>|KN> <cmds> <pending> <cells a:v,…> <log>
      cmds = r | m<hex(name)>, comma-separated     log = r:<a> | w:<a>:<v>, comma-separated
      → E  (constructor raised)  |  <observed> <addrWidth> <getc> <putc> | <values read, N for writes> | <output> | <pending left>
-/
import Py65.Driver.Common
import Py65.Driver.Num
import Py65.Model.MonIO
import Py65.Model.Fmt
import Py65.Model.MonCmd

namespace Py65.Driver
open Py65 Py65.Model.PyStr Py65.Model.AddrParser

section cmdline
open Py65.Model.MonCmd

def devOfTok (t : String) : Dev :=
  if t = "65C02" then .d65c02 else if t = "65Org16" then .d65org16 else .d6502

def devTok : Dev → String
  | .d6502 => "6502"
  | .d65c02 => "65C02"
  | .d65org16 => "65Org16"

def parseRegs (t : String) : Regs :=
  match (t.splitOn ",").map parseInt! with
  | [a, x, y, sp, p, pc] => { a := a, x := x, y := y, sp := sp, p := p, pc := pc }
  | _ => { a := 0, x := 0, y := 0, sp := 0, p := 0, pc := 0 }

def regsTok (r : Regs) : String := s!"{r.a},{r.x},{r.y},{r.sp},{r.p},{r.pc}"

def parseBpsCmd (t : String) : List (Option Int) :=
  if t = "-" || t = "" then [] else (t.splitOn ",").map fun x => if x = "N" then none else x.toInt?

def bpsTok (l : List (Option Int)) : String :=
  if l.isEmpty then "-" else
  ",".intercalate (l.map fun x => match x with | none => "N" | some v => toString v)

def labelsTok (l : Labels) : String :=
  if l.isEmpty then "-" else
  ",".intercalate (l.map fun kv => tohex (String.ofList kv.1) ++ "=" ++ toString kv.2)

def rejectTok : Reject → String
  | .unknownSyntax => "unknown"
  | .syntaxErr => "syntax"
  | .usage => "usage"
  | .label => "label"
  | .overflow => "overflow"
  | .illegal => "illegal"
  | .raised => "raised"

def verdictTok : Verdict → String
  | .ok => "ok"
  | .rejected r => rejectTok r

def pairsTok (l : List (Except Reject (RegName × Int))) : String :=
  if l.isEmpty then "-" else
  ",".intercalate (l.map fun o => match o with | .ok _ => "ok" | .error e => rejectTok e)

/-- The driver's `Ext`: nothing is known about these commands here; the harness supplies the
registers afterwards (`S` item) and compares everything the type of `Ext` says they leave alone. -/
def opaqueExt : Ext := { run := fun _ c _ => (.ok, c.regs, c.mem) }

def classTok (s : State) (line : Str) : String :=
  match parseline (preprocessL line) with
  | .cmd _ _ _ => "cmd"
  | .noCmd _ => "nocmd"
  | .empty =>
    if s.lastcmd = [] then "empty" else
    match parseline (preprocessL s.lastcmd) with
    | .empty => "norepeat"
    | _ => "repeat"

def memfxTok : MemFx → String
  | .same => "same"
  | .zeroed => "zero"
  | .ext => "ext"

/-- Whether the real monitor's output ends with the status print: always, unless the preprocessed
line starts with `quit` (an empty line is not such a line, whatever it repeats). -/
def statusFlag (_s : State) (line : Str) : Bool := printsStatus line

def stateTok (s : State) : String :=
  s!"{devTok s.core.dev} {regsTok s.core.regs} {s.core.radix} {s.core.width} {labelsTok s.core.labels} {bpsTok s.core.breakpoints} {tohex (String.ofList s.lastcmd)}"

def runItems : State → Bool → List String → List String → List String
  | _, _, [], acc => acc.reverse
  | s, lastExt, it :: rest, acc =>
    if it.startsWith "L" then
      let line := (unhex (it.drop 1).toString).toList
      let r := onecmdL opaqueExt s line
      let w := match dispatchWord s line with | some w => tohex (String.ofList w) | none => "N"
      let seg := s!"{classTok s line} {w} {if r.1.exit then 1 else 0} {verdictTok r.1.verdict} {if r.1.viaExt then 1 else 0} {pairsTok r.1.pairs} {if statusFlag s line then 1 else 0} {memfxTok r.1.memfx} ; {stateTok r.2}"
      runItems r.2 r.1.viaExt rest (seg :: acc)
    else if it.startsWith "S" then
      if lastExt then
        let s' : State := { s with core := { s.core with regs := parseRegs (it.drop 1).toString } }
        -- the segment of the preceding line shows the state after the sync
        match acc with
        | seg :: acc' =>
          let head := (seg.splitOn " ; ").headD ""
          runItems s' false rest ((head ++ " ; " ++ stateTok s') :: acc')
        | [] => runItems s' false rest acc
      else runItems s lastExt rest acc
    else runItems s lastExt rest acc

def runCmdline (args : List String) : String :=
  match args with
  | dev :: regs :: radix :: width :: labels :: bps :: lastcmd :: items =>
    let core : Core :=
      { dev := devOfTok dev, regs := parseRegs regs, mem := fun _ => 0, labels := parseLabels labels,
        breakpoints := parseBpsCmd bps, radix := (parseInt! radix).toNat, width := parseInt! width }
    let s : State := { core := core, lastcmd := (unhex lastcmd).toList }
    "|".intercalate (runItems s false items [])
  | _ => "bad-op"

end cmdline

section fmt
open Py65.Model.Fmt

def fmtDevOfTok (t : String) : Dev :=
  if t = "65C02" then dev65c02 else if t = "65Org16" then dev65org16 else dev6502

def runFmt (args : List String) : String :=
  match args with
  | ["repr", dev, pc, a, x, y, sp, p] =>
    let d := fmtDevOfTok dev
    let r : Regs := { pc := (parseInt! pc).toNat, a := (parseInt! a).toNat, x := (parseInt! x).toNat,
                      y := (parseInt! y).toNat, sp := (parseInt! sp).toNat, p := (parseInt! p).toNat }
    let txt := repr d r
    let back := parseLine2 d (afterNewline txt)
    tohex (String.ofList txt) ++ " " ++ (if back = some r then "1" else "0")
  | ["fmtdis", dev, address, length, cells, disasm] =>
    let d := fmtDevOfTok dev
    let ov := parsePairs cells
    let mem : Nat → Nat := fun k => ((lookup ov (k : Int)).getD 0).toNat
    tohex (String.ofList (formatDisassembly d mem (parseInt! address).toNat (parseInt! length).toNat
      (unhex disasm).toList))
  | ["cyc", n] => tohex (String.ofList (cyclesText (parseInt! n).toNat))
  | _ => "bad-op"

end fmt

section io
open Py65.Model.MonIO

def parseIoCmd (t : String) : Option Cmd :=
  if t = "r" then some .reset
  else if t.startsWith "m" then some (.mpu (unhex (t.drop 1).toString).toList)
  else none

def parseEv (t : String) : Option MemEv :=
  match t.splitOn ":" with
  | ["r", a] => some (.r (parseInt! a))
  | ["w", a, v] => some (.w (parseInt! a) (parseInt! v))
  | _ => none

def listOf (t : String) : List String := if t = "-" || t = "" then [] else t.splitOn ","

def optStr (t : String) : Option Str :=
  if t = "N" || t.startsWith "K" then none else some (unhex t).toList

/-- Keyword argument of the constructor: `K<int>` / `KN` (None); anything else = the default. -/
def kwArg (t : String) (dflt : Int) : Option Int :=
  if t = "KN" then none else if t.startsWith "K" then (t.drop 1).toString.toInt? else some dflt

def optIntTok : Option Int → String
  | none => "N"
  | some v => toString v

def intsTok (l : List Int) : String := if l.isEmpty then "-" else ",".intercalate (l.map toString)

def runIo (args : List String) : String :=
  match args with
  | [aw, i, o, cmds, pending, cells, log] =>
    match construct (parseInt! aw) (kwArg i 0xF004) (kwArg o 0xF001) (optStr i) (optStr o) with
    | none => "E"
    | some s0 =>
      let s := applyCmds s0 ((listOf cmds).filterMap parseIoCmd)
      let ov := parsePairs cells
      let st : MState := { cells := fun k => (lookup ov k).getD 0, io := { pending := (listOf pending).map parseInt!, output := [] } }
      let r := replay s st ((listOf log).filterMap parseEv)
      let vals := if r.1.isEmpty then "-" else
        ",".intercalate (r.1.map fun v => match v with | none => "N" | some x => toString x)
      s!"{if s.observed then 1 else 0} {s.addrWidth} {optIntTok s.getcAddr} {optIntTok s.putcAddr} | {vals} | {intsTok r.2.io.output} | {r.2.io.pending.length}"
  | _ => "bad-op"

end io

def runMonCmd (toks : List String) : Option String :=
  match toks with
  | ["pre", h] => some (tohex (Py65.Model.MonCmd.preprocess (unhex h)))
  | ["shlex", h] =>
    match Py65.Model.MonCmd.shlexSplit (unhex h).toList with
    | none => some "E"
    | some l => some (" ".intercalate (toString l.length :: l.map fun t => tohex (String.ofList t)))
  | ["regpairs", h] =>
    let l := Py65.Model.MonCmd.findPairs (unhex h).toList
    some (" ".intercalate (toString l.length ::
      l.map fun p => tohex (String.ofList p.1) ++ "=" ++ tohex (String.ofList p.2)))
  | "cmdline" :: rest => some (runCmdline rest)
  | "repr" :: _ => some (runFmt toks)
  | "fmtdis" :: _ => some (runFmt toks)
  | "cyc" :: _ => some (runFmt toks)
  | "io" :: rest => some (runIo rest)
  | _ => none

end Py65.Driver
