/-
`cpu` protocol line: run the *generated* device model (tie 1 validation).
  cpu <dev> <ops> a x y sp p pc cycles excycles addcycles waiting seed startpc|- overrides|-
-/
import Py65.Driver.Common
import Py65.Gen.Devices

namespace Py65.Driver
open Py65 Py65.Gen

structure DevOps where
  W : Nat
  step : St → St
  irq : St → St
  nmi : St → St
  reset : Option Int → St → St

def devOps (name : String) : Option DevOps :=
  match name with
  | "6502" => some ⟨8, dev6502.step, dev6502.irq, dev6502.nmi, dev6502.reset⟩
  | "65C02" => some ⟨8, dev65c02.step, dev65c02.irq, dev65c02.nmi, dev65c02.reset⟩
  | "65Org16" => some ⟨16, dev65org16.step, dev65org16.irq, dev65org16.nmi, dev65org16.reset⟩
  | _ => none

def parseState (W : Nat) (f : List String) : Option (St × Option Int) :=
  match f with
  | [a, x, y, sp, p, pc, cyc, ex, ad, wt, seed, spc, ov] =>
    some ({ a := parseInt! a, x := parseInt! x, y := parseInt! y, sp := parseInt! sp,
            p := parseInt! p, pc := parseInt! pc, cycles := parseInt! cyc,
            excycles := parseInt! ex, addcycles := parseInt! ad, waiting := wt = "1",
            mem := mkMem (parseInt! seed) W (parsePairs ov), log := [] },
          parseInt spc)
  | _ => none

def runCpu (args : List String) : String :=
  match args with
  | dev :: ops :: rest =>
    match devOps dev with
    | none => "bad-dev"
    | some d =>
      match parseState d.W rest with
      | none => "bad-state"
      | some (s0, spc) =>
        -- harness convention: a `step` whose opcode cell is not a list index 0..255 (possible
        -- only on the 16-bit device) is outside the well-formed states; both sides stop there.
        let step (acc : St × List String × Bool) (op : String) : St × List String × Bool :=
          let (s, outs, stopped) := acc
          if stopped then acc else
          if op = "step" ∧ ¬ s.waiting ∧ (s.mem s.pc < 0 ∨ s.mem s.pc > 255) then
            (s, "oob" :: outs, true)
          else
          let s' := match op with
            | "step" => d.step s
            | "irq" => d.irq s
            | "nmi" => d.nmi s
            | "reset" => d.reset spc s
            | _ => s
          (s', regsStr s' :: outs, false)
        let (sf, outs, _) := (ops.splitOn ",").foldl step (s0, [], false)
        ";".intercalate outs.reverse ++ " | " ++ logStr sf.log
  | _ => "bad-op"

end Py65.Driver
