/-
Shared helpers of the line-protocol driver (no Mathlib).
-/
import Py65.Machine

namespace Py65.Driver
open Py65

/-- Background memory contents shared with the Python harness: every address of the address
space has a defined cell in `[0, 2^W)` without shipping the memory. -/
def bg (seed : Int) (W : Nat) (addr : Int) : Int :=
  let h := ((addr + 1) * 2654435761 + seed * 2246822519 + 97) % 4294967296
  let h2 := (h * (h / 65536 + 1)) % 4294967296
  (h2 / 8192) % (2 ^ W)

def parseInt (s : String) : Option Int := s.toInt?

def parseInt! (s : String) : Int := (s.toInt?).getD 0

/-- "k:v,k:v" -/
def parsePairs (s : String) : List (Int × Int) :=
  if s = "-" || s = "" then [] else
  (s.splitOn ",").filterMap fun kv =>
    match kv.splitOn ":" with
    | [k, v] => match k.toInt?, v.toInt? with
      | some k, some v => some (k, v)
      | _, _ => none
    | _ => none

def lookup (ov : List (Int × Int)) (k : Int) : Option Int :=
  match ov with
  | [] => none
  | (a, v) :: rest => if a = k then some v else lookup rest k

def mkMem (seed : Int) (W : Nat) (ov : List (Int × Int)) : Int → Int :=
  fun k => match lookup ov k with
    | some v => v
    | none => bg seed W k

def evStr : MemEv → String
  | .r a => s!"r:{a}"
  | .w a v => s!"w:{a}:{v}"

def logStr (l : List MemEv) : String :=
  " ".intercalate (l.reverse.map evStr)

def regsStr (s : St) : String :=
  s!"{s.a} {s.x} {s.y} {s.sp} {s.p} {s.pc} {s.cycles} {s.excycles} {s.addcycles} {if s.waiting then 1 else 0}"

def hexVal (c : Char) : Option Nat :=
  if '0' ≤ c ∧ c ≤ '9' then some (c.toNat - '0'.toNat)
  else if 'a' ≤ c ∧ c ≤ 'f' then some (c.toNat - 'a'.toNat + 10)
  else if 'A' ≤ c ∧ c ≤ 'F' then some (c.toNat - 'A'.toNat + 10)
  else none

/-- Decode a hex-encoded ASCII/Latin-1 string ("-" = empty). -/
def unhex (s : String) : String :=
  if s = "-" then "" else
  let rec go : List Char → List Char → List Char
    | a :: b :: rest, acc =>
      match hexVal a, hexVal b with
      | some x, some y => go rest (Char.ofNat (x * 16 + y) :: acc)
      | _, _ => acc
    | _, acc => acc
  String.ofList (go s.toList []).reverse

def hexDigit (n : Nat) : Char :=
  if n < 10 then Char.ofNat (n + '0'.toNat) else Char.ofNat (n - 10 + 'a'.toNat)

def tohex (s : String) : String :=
  if s.isEmpty then "-" else
  String.ofList (s.toList.flatMap fun c => [hexDigit (c.toNat / 16 % 16), hexDigit (c.toNat % 16)])

end Py65.Driver
