/-
Protocol line `rt <helper> <arg> …`: ONE call of ONE named run-time helper (the "modelled, not verified"
CPython library vocabulary of the generated models: `Model/{PyStr,PyRt,PyData,GenRt,AsmRt,MonGenRt,MonMemRt,
MonIORt,ShowRt}.lean`, `PyInt.lean`, and the library parts of the hand models `Asm`, `AddrParser`, `ObsMem`,
`MonCmd`, `MonMem`, `Show`, `Fmt`).  `harness/rtcheck.py` sends the same arguments to the real CPython
function and compares the canonical replies (differential validation of the library models; DESIGN §0.8).

Wire format (every token is free of blanks):
  S   string      hex, byte per character (Latin-1), `-` = empty
  C   character   S of length 1
  I   int         decimal            N (Nat) likewise
  B   bool        `T` / `F`
  O x option      `N` = none / None, else x
  L x list        `_` = empty, else the items joined by `,`
  D   dict        L of `<S>=<I>` in insertion order
  tuple           components joined by `|`
  a raise         `E:<ExceptionClass>`;  `U:<why>` = the helper declares the input outside its modelled domain
                  (`Unmodelled` / `other`: never an approximation of a Python result)
Unknown helper name or wrong arity: `bad-op`.   No Mathlib.
-/
import Py65.Driver.Common
import Py65.Model.PyRt
import Py65.Model.PyData
import Py65.Model.GenRt
import Py65.Model.AsmRt
import Py65.Model.MonGenRt
import Py65.Model.MonMemRt
import Py65.Model.MonIORt
import Py65.Model.ShowRt
import Py65.Model.MonCmd
import Py65.Model.Show
import Py65.Model.Fmt

namespace Py65.Driver.Rt
open Py65 Py65.Driver Py65.Model Py65.Model.PyStr

/-! ### decoding -/

def dS (t : String) : Str := (unhex t).toList
def dI (t : String) : Int := parseInt! t
def dN (t : String) : Nat := (parseInt! t).toNat
def dC (t : String) : Char := match dS t with | c :: _ => c | [] => ' '
def dOI (t : String) : Option Int := if t = "N" then none else t.toInt?
def dL {α : Type} (f : String → α) (t : String) : List α :=
  if t = "_" then [] else (t.splitOn ",").map f
def dLI : String → List Int := dL dI
def dLS : String → List Str := dL dS
def dD (t : String) : List (Str × Int) :=
  dL (fun kv => match kv.splitOn "=" with | [k, v] => (dS k, dI v) | _ => ([], 0)) t
def dSS1 (kv : String) : Str × Str :=
  match kv.splitOn "=" with | [k, v] => (dS k, dS v) | _ => ([], [])
def dSS : String → List (Str × Str) := dL dSS1

/-! ### encoding -/

def eS (s : Str) : String := tohex (String.ofList s)
def eI (n : Int) : String := toString n
def eN (n : Nat) : String := toString n
def eB (b : Bool) : String := if b then "T" else "F"
def eO {α : Type} (f : α → String) : Option α → String
  | none => "N"
  | some v => f v
def eL {α : Type} (f : α → String) (l : List α) : String :=
  if l.isEmpty then "_" else ",".intercalate (l.map f)
def eLI : List Int → String := eL eI
def eLS : List Str → String := eL eS
def eD (d : List (Str × Int)) : String := eL (fun kv => eS kv.1 ++ "=" ++ eI kv.2) d
def e2 {α β : Type} (f : α → String) (g : β → String) (p : α × β) : String := f p.1 ++ "|" ++ g p.2
def e3 {α β γ : Type} (f : α → String) (g : β → String) (h : γ → String) (p : α × β × γ) : String :=
  f p.1 ++ "|" ++ g p.2.1 ++ "|" ++ h p.2.2

def ePyRt {α : Type} (f : α → String) : PyRt.M α → String
  | .ok v => f v
  | .error .valueError => "E:ValueError"
  | .error .keyError => "E:KeyError"
  | .error .overflowError => "E:OverflowError"
  | .error .recursionError => "E:RecursionError"

def excAsm : AsmRt.Exc → String
  | .syntaxError => "E:SyntaxError"
  | .overflowError => "E:OverflowError"
  | .keyError => "E:KeyError"
  | .valueError _ => "E:ValueError"
  | .indexError => "E:IndexError"
  | .typeError _ => "E:TypeError"
  | .other w => "U:" ++ w

def eAsm {α : Type} (f : α → String) : AsmRt.PyM Unit α → String
  | .ok v => f v
  | .error (.exc e) => excAsm e
  | .error .cont => "X:continue"
  | .error (.ret _) => "X:return"

def eGen {α : Type} (f : α → String) : GenRt.PyM α → String
  | .ok v => f v
  | .error .IndexError => "E:IndexError"
  | .error (.NotImplementedError _) => "E:NotImplementedError"
  | .error (.ValueError _) => "E:ValueError"
  | .error (.Unmodelled w) => "U:" ++ w

def excIO : MonIORt.Exc → String
  | .IndexError => "E:IndexError" | .TypeError => "E:TypeError" | .ValueError => "E:ValueError"
  | .KeyError => "E:KeyError" | .AttributeError => "E:AttributeError"
  | .UnicodeEncodeError => "E:UnicodeEncodeError" | .KeyboardInterrupt => "E:KeyboardInterrupt"
  | .UnicodeDecodeError => "E:UnicodeDecodeError" | .LookupError => "E:LookupError" | .OSError => "E:OSError"
  | .SystemExit _ => "E:SystemExit" | .GetoptError _ => "E:GetoptError"

/-- A Python list given by its items as the total function the models use (junk 0 outside). -/
def cellsOf (l : List Int) : Int → Int := fun k => if k < 0 then 0 else l.getD k.toNat 0

def firstCells (cells : Int → Int) (n : Int) : List Int :=
  (List.range n.toNat).map fun (k : Nat) => cells (k : Int)

/-- The encodable set of a stream encoding, by codec name. -/
def encOf (name : String) : Int → Bool :=
  if name = "ascii" then fun c => decide (0 ≤ c ∧ c < 128)
  else if name = "latin-1" then fun c => decide (0 ≤ c ∧ c < 256)
  else fun c => decide (0 ≤ c ∧ c < 0x110000 ∧ ¬ (0xD800 ≤ c ∧ c ≤ 0xDFFF))     -- utf-8

/-- `W<cp>.<cp>…` = `stdout.write(s)`, `F` = `stdout.flush()`; reply: one `ok`/`E` per op, then the stream. -/
def runStdout (enc : Int → Bool) (ops : List String) : String :=
  let step := fun (acc : List String × MonIORt.OutStream) (op : String) =>
    if op = "F" then (acc.1 ++ ["ok"], MonIORt.stdoutFlush acc.2)
    else
      let body := (op.drop 1).toString
      let cps : List Int := if body = "" then [] else (body.splitOn ".").map dI
      match MonIORt.stdoutWrite enc cps acc.2 with
      | some o => (acc.1 ++ ["ok"], o)
      | none => (acc.1 ++ ["E"], acc.2)
  let r := ops.foldl step ([], ({ written := [], flushed := 0 } : MonIORt.OutStream))
  eL id r.1 ++ "|" ++ eLI r.2.written ++ "|" ++ eN r.2.flushed

def mpuCls (t : String) : MonIORt.MpuCls :=
  if t = "65C02" then .mpu65c02 else if t = "65Org16" then .mpu65org16 else .mpu6502

def pexcOf (a : List String) : Option MonMemRt.PExc :=
  match a with
  | ["Other", t] => some (.Other (dS t))
  | ["OSError", e, s] => some (.OSError (dI e) (dS s))
  | ["ZeroDivisionError"] => some .ZeroDivisionError
  | ["OverflowError", v] => some (.OverflowError (dI v))
  | ["KeyError", t] => some (.KeyError (dS t))
  | ["IndexError"] => some .IndexError
  | ["TypeError"] => some .TypeError
  | ["ValueError"] => some .ValueError
  | _ => none

def eParsed : MonCmd.Parsed → String
  | .empty => "empty"
  | .noCmd l => "nocmd|" ++ eS l
  | .cmd w a l => "cmd|" ++ eS w ++ "|" ++ eS a ++ "|" ++ eS l

/-! ### the helpers, by family (kept in separate functions so that each `match` stays small) -/

def rtPyStr (name : String) (a : List String) : Option String :=
  match name, a with
  | "PyStr.isCSpace", [c] => some (eB (isCSpace (dC c)))
  | "PyStr.isReSpace", [c] => some (eB (isReSpace (dC c)))
  | "PyStr.isDigit", [c] => some (eB (isDigit (dC c)))
  | "PyStr.isHexDigit", [c] => some (eB (isHexDigit (dC c)))
  | "PyStr.digitVal", [c] => some (eO eN (digitVal (dC c)))
  | "PyStr.digitChar", [d] => some (eS [digitChar (dN d)])
  | "PyStr.upper", [c] => some (eS [upper (dC c)])
  | "PyStr.lower", [c] => some (eS [lower (dC c)])
  | "PyStr.startsWithChar", [s, c] => some (eB (startsWithChar (dS s) (dC c)))
  | "PyStr.startsWith", [s, p] => some (eB (startsWith (dS s) (dS p)))
  | "PyStr.rjustL", [s, w, c] => some (eS (rjustL (dS s) (dN w) (dC c)))
  | "PyStr.rjust", [s, w, c] => some (eS (rjust (unhex s) (dN w) (dC c)).toList)
  | "PyStr.zfillL", [s, w] => some (eS (zfillL (dS s) (dN w)))
  | "PyStr.zfill", [s, w] => some (eS (zfill (unhex s) (dN w)).toList)
  | "PyStr.pyIntL", [s, b] => some (eO eI (pyIntL (dS s) (dN b)))
  | "PyStr.pyInt", [s, b] => some (eO eI (pyInt (unhex s) (dN b)))
  | "PyStr.toDigits", [b, n] => some (eS (toDigits (dN b) (dN n)))
  | "PyStr.fmtHexL", [w, n] => some (eS (fmtHexL (dN w) (dN n)))
  | "PyStr.fmtHex", [w, n] => some (eS (fmtHex (dN w) (dN n)).toList)
  | "PyStr.fmtDecL", [n] => some (eS (fmtDecL (dN n)))
  | "PyStr.fmtDec", [n] => some (eS (fmtDec (dN n)).toList)
  | "PyStr.fmtOctL", [w, n] => some (eS (fmtOctL (dN w) (dN n)))
  | "PyStr.fmtOct", [w, n] => some (eS (fmtOct (dN w) (dN n)).toList)
  | "PyStr.fmtOct4", [n] => some (eS (fmtOct4 (dN n)).toList)
  | "PyStr.fmtBinL", [n] => some (eS (fmtBinL (dN n)))
  | "PyStr.fmtBin", [n] => some (eS (fmtBin (dN n)).toList)
  | _, _ => none

def rtPyRt (name : String) (a : List String) : Option String :=
  match name, a with
  | "PyRt.int", [s, b] => some (ePyRt eI (PyRt.int (dS s) (dN b)))
  | "PyRt.sliceFrom", [s, n] => some (eS (PyRt.sliceFrom (dS s) (dN n)))
  | "PyRt.dictIn", [k, d] => some (eB (PyRt.dictIn (dS k) (dD d)))
  | "PyRt.dictGetItem", [d, k] => some (ePyRt eI (PyRt.dictGetItem (dD d) (dS k)))
  | "PyRt.dictGet", [d, k, x] => some (eO eI (PyRt.dictGet (dD d) (dS k) (dOI x)))
  | "PyRt.dictSetItem", [d, k, v] => some (eD (PyRt.dictSetItem (dD d) (dS k) (dI v)))
  | "PyRt.reMatchLabelOffset", [s] => some (eO (e3 eS eS eS) (PyRt.reMatchLabelOffset (dS s)))
  | "PyRt.reMatchRange", [s] => some (eO (e2 eS eS) (PyRt.reMatchRange (dS s)))
  | "AddrParser.lookup", [d, k] => some (eO eI (AddrParser.lookup (dD d) (dS k)))
  | "AddrParser.insert", [d, k, v] => some (eD (AddrParser.insert (dD d) (dS k) (dI v)))
  | "AddrParser.matchOffset", [s] =>
    some (eO (e3 eS (fun (c : Char) => eS [c]) eS) (AddrParser.matchOffset (dS s)))
  | "AddrParser.matchRange", [s] => some (eO (e2 eS eS) (AddrParser.matchRange (dS s)))
  | _, _ => none

def rtPyData (name : String) (a : List String) : Option String :=
  match name, a with
  | "Py.listRepeat", [n, xs] =>
    let r := Py.listRepeat (dI n) (dLI xs)
    some (eI r.len ++ "|" ++ eLI (firstCells r.cells r.len))
  | "Py.listSetItem", [l, i, v] =>
    let l := dLI l
    some (eLI (firstCells (Py.listSetItem (cellsOf l) (dI i) (dI v)) l.length))
  | "Py.listSliceAssign", [l, lo, hi, vals] =>
    let l := dLI l
    let r := Py.listSliceAssign (cellsOf l) l.length (dI lo) (dI hi) (dLI vals)
    some (eI r.2 ++ "|" ++ eLI (firstCells r.1 r.2))
  | "ObsMem.sliceRange", [x, y, z, len] =>
    some (eO eLI (ObsMem.sliceRange ⟨dOI x, dOI y, dOI z⟩ (dI len)))
  | "ObsMem.sliceIndices", [x, y, z, len] => some (eO eLI (ObsMem.sliceIndices (dI len) (dOI x) (dOI y) (dOI z)))
  | "ObsMem.sliceTriple", [x, y, z, len] =>
    some (eO (e3 eI eI eI) (ObsMem.sliceTriple (dI len) (dOI x) (dOI y) (dOI z)))
  | "ObsMem.clampBound", [len, lo, up, x] => some (eI (ObsMem.clampBound (dI len) (dI lo) (dI up) (dI x)))
  | "ObsMem.pyRange", [x, y, z] => some (eLI (ObsMem.pyRange (dI x) (dI y) (dI z)))
  | "ObsMem.rangeLen", [x, y, z] => some (eN (ObsMem.rangeLen (dI x) (dI y) (dI z)))
  | "ObsMem.Subs.set", [keys, lens, qs] =>
    let d := ((dLI keys).zip (dLI lens)).foldl
      (fun (d : ObsMem.Subs) kl => ObsMem.Subs.set d kl.1 (List.range kl.2.toNat)) ObsMem.Subs.empty
    some (eLI ((dLI qs).map fun q => ((d.of q).length : Int)))
  | _, _ => none

def rtGenRt (name : String) (a : List String) : Option String :=
  match name, a with
  | "GenRt.listGet", [l, i] => some (eGen eI (GenRt.listGet (dLI l) (dI i)))
  | "GenRt.dictGet", [ks, vs, x] => some (eO eI (GenRt.dictGet ((dLI ks).zip (dLI vs)) (dI x)))
  | "GenRt.pctInt", [f, n] => some (eGen eS (GenRt.pctInt (dS f) (dI n)))
  | "GenRt.intDigits", [b, n] => some (eS (GenRt.intDigits (dN b) (dI n)))
  | "GenRt.strFormat1", [f, n] => some (eGen eS (GenRt.strFormat1 (dS f) (dI n)))
  | "GenRt.pctStr", [f, s] => some (eGen eS (GenRt.pctStr (dS f) (dS s)))
  | "GenRt.fracOfDiv", [x, y] => some (eI (GenRt.fracToInt (GenRt.fracOfDiv (dI x) (dI y))))
  | "GenRt.fracToInt", [x, y] => some (eI (GenRt.fracToInt ⟨dI x, dI y⟩))
  | "GenRt.fracAddInt", [n, x, y] =>
    some (eI (GenRt.fracToInt (GenRt.fracAddInt (dI n) (GenRt.fracOfDiv (dI x) (dI y)))))
  | "GenRt.pyReprInt", [n] => some (eS (GenRt.pyReprInt (dI n)))
  | "GenRt.pyReprStr", [s] => some (eS (GenRt.pyReprStr (dS s)))
  | "GenRt.pyStrInt", [n] => some (eS (GenRt.pyStrInt (dI n)))
  | _, _ => none

def rtAsmRt (name : String) (a : List String) : Option String :=
  match name, a with
  | "AsmRt.split", [s] => some (eLS (AsmRt.split (dS s)))
  | "AsmRt.join", [sep, l] => some (eS (AsmRt.join (dS sep) (dLS l)))
  | "AsmRt.startswith", [s, p] => some (eB (AsmRt.startswith (dS s) (dS p)))
  | "AsmRt.strGet", [s, i] => some (eAsm eS (AsmRt.strGet (dS s) (dN i)))
  | "AsmRt.sliceFrom", [s, i] => some (eS (AsmRt.sliceFrom (dS s) (dN i)))
  | "AsmRt.listGet", [l, i] => some (eAsm eS (AsmRt.listGet (dLS l) (dN i)))
  | "AsmRt.ord", [s] => some (eAsm eI (AsmRt.ord (dS s)))
  | "AsmRt.len", [l] => some (eI (AsmRt.len (dLS l)))
  | "AsmRt.splitSp1L", [s] => some (eLS (AsmRt.splitSp1L (dS s)))
  | "AsmRt.unpack2", [l] => some (eAsm (e2 eS eS) (AsmRt.unpack2 (dLS l)))
  | "AsmRt.fmt", [f, n] => some (eAsm eS (AsmRt.fmt (dS f) (dI n)))
  | "AsmRt.int", [s, b] => some (eAsm eI (AsmRt.int (dS s) (dN b)))
  | "AsmRt.index", [l, x] => some (eAsm eI (AsmRt.index (dSS l) (dSS1 x)))
  | "AsmRt.truedivD", [x, y] => some (eN (AsmRt.truedivD (dN x) (dN y)))
  | "AsmRt.reStatement", [s] => some (eO (e3 eS eS eS) (AsmRt.reStatement (dS s)))
  | "AsmRt.templatePattern", [n, f, s] => some (eO eLS (AsmRt.templatePattern (dN n) (dS f) (dS s)))
  | "Asm.pySplit", [s] => some (eLS (Asm.pySplit (dS s)))
  | "Asm.joinSp", [l] => some (eS (Asm.joinSp (dLS l)))
  | "Asm.normWs", [s] => some (eS (Asm.normWs (dS s)))
  | "Asm.removeWs", [s] => some (eS (Asm.removeWs (dS s)))
  | "Asm.strip", [s] => some (eS (Asm.strip (dS s)))
  | "Asm.upperS", [s] => some (eS (Asm.upperS (dS s)))
  | "Asm.splitSp1", [s] => some (e2 eS (eO eS) (Asm.splitSp1 (dS s)))
  | "Asm.decVal", [s] => some (eN (Asm.decVal (dS s)))
  | "Asm.pctFmt", [f, n] => some (eO eS (Asm.pctFmt (dS f) (dN n)))
  | "Asm.matchStatement", [s] => some (eO (e3 eS eS eS) (Asm.matchStatement (dS s)))
  | "Asm.matchItems", [n, f, s] => some (eO eLS (Asm.matchItems (dN n) (Asm.compileTemplate (dS f)) (dS s)))
  | "Asm.indexOf", [l, x] => some (eO eN (Asm.indexOf (dSS l) (dSS1 x)))
  | _, _ => none

def rtMonGenRt (name : String) (a : List String) : Option String :=
  match name, a with
  | "MonGenRt.pyFmtD", [v] => some (eS (MonGenRt.pyFmtD (dI v)))
  | "MonGenRt.pyFmtX", [w, v] => some (eS (MonGenRt.pyFmtX (dN w) (dI v)))
  | "MonGenRt.pyFmtUX", [w, v] => some (eS (MonGenRt.pyFmtUX (dN w) (dI v)))
  | "MonMem.fmtHexInt", [w, v] => some (eS (MonMem.fmtHexInt (dN w) (dI v)))
  | "MonGenRt.pyNormIndex", [len, i] => some (eI (MonGenRt.pyNormIndex (dN len) (dI i)))
  | "MonGenRt.pyGetItem", [l, i] => some (eO eI (MonGenRt.pyGetItem (dLI l) (dI i)))
  | "MonGenRt.pyListSet", [l, i, v] => some (eO eLI (MonGenRt.pyListSet (dLI l) (dI i) (dI v)))
  | "MonGenRt.pyIndex", [l, x] => some (eO eI (MonGenRt.pyIndex (dLI l) (dI x)))
  | "MonGenRt.pyIn", [x, l] => some (eB (MonGenRt.pyIn (dI x) (dLI l)))
  | "MonGenRt.pySet", [l, ps] =>      -- `set(l)` as far as emptiness and membership go
    let s := MonGenRt.pySet (dLI l)
    some (eB (!s.isEmpty) ++ "|" ++ eL eB ((dLI ps).map fun p => MonGenRt.pyIn p s))
  | "MonGenRt.pySliceBound", [len, i] => some (eN (MonGenRt.pySliceBound (dN len) (dI i)))
  | "MonGenRt.pySliceTo", ["S", s, i] => some (eS (MonGenRt.pySliceTo (dS s) (dI i)))
  | "MonGenRt.pySliceTo", ["L", l, i] => some (eLI (MonGenRt.pySliceTo (dLI l) (dI i)))
  | "MonGenRt.pySliceFrom", ["S", s, i] => some (eS (MonGenRt.pySliceFrom (dS s) (dI i)))
  | "MonGenRt.pySliceFrom", ["L", l, i] => some (eLI (MonGenRt.pySliceFrom (dLI l) (dI i)))
  | "MonGenRt.pyLstripChars", [cs, s] => some (eS (MonGenRt.pyLstripChars (dS cs) (dS s)))
  | "MonGenRt.pyRstripChars", [cs, s] => some (eS (MonGenRt.pyRstripChars (dS cs) (dS s)))
  | "MonGenRt.pyStripChars", [cs, s] => some (eS (MonGenRt.pyStripChars (dS cs) (dS s)))
  | "MonGenRt.reMatchLitSpaces", [lit, line] =>
    some (eO (e2 eI eI) (MonGenRt.reMatchLitSpaces (dS lit) (dS line)))
  | "MonCmd.dropPrefix?", [s, p] => some (eO eS (MonCmd.dropPrefix? (dS s) (dS p)))
  | _, _ => none

def rtMonMemRt (name : String) (a : List String) : Option String :=
  match name, a with
  | "MonMemRt.PExc.str", args => (pexcOf args).map fun e => eS e.str
  | "MonMemRt.pyByteArray", [l] => some (eO eLI (MonMemRt.pyByteArray (dLI l)))
  | "MonMemRt.pyFloorDiv", [x, y] => some (eO eI (MonMemRt.pyFloorDiv (dI x) (dI y)))
  | "MonMemRt.pyShr", [x, k] => some (eO eI (MonMemRt.pyShr (dI x) (dI k)))
  | "MonMemRt.pyShl", [x, k] => some (eO eI (MonMemRt.pyShl (dI x) (dI k)))
  | "MonMemRt.pyStrIn", [sub, s] => some (eB (MonMemRt.pyStrIn (dS sub) (dS s)))
  | "MonMemRt.everyNth", [step, n, l] => some (eLI (MonMemRt.everyNth (dN step) (dN n) (dLI l)))
  | "MonMemRt.pySliceFromStep", [l, i, step] => some (eLI (MonMemRt.pySliceFromStep (dLI l) (dI i) (dN step)))
  | "MonMemRt.pyMap2", [x, y] =>
    some (eLI (MonMemRt.pyMap2 (fun (p q : Int) => p * 1000003 + q) (dLI x) (dLI y)))
  | "MonMemRt.pyFileWrite", [nm, old, octets] =>
    some (eLI (MonMemRt.pyFileWrite (dS nm, dLI old) (dLI octets)).2)
  | _, _ => none

def rtMonIORt (name : String) (a : List String) : Option String :=
  match name, a with
  | "MonIORt.pyChr", [v] => some (eO eLI (MonIORt.pyChr (dI v)))
  | "MonIORt.pyOrd", [l] => some (eO eI (MonIORt.pyOrd (dLI l)))
  | "MonIORt.pyCodes", [s] => some (eLI (MonIORt.pyCodes (dS s)))
  | "MonIORt.pyLower", [s] => some (eS (MonIORt.pyLower (dS s)))
  | "MonIORt.strLt", [x, y] => some (eB (MonIORt.strLt (dS x) (dS y)))
  | "MonIORt.insertSorted", [x, l] => some (eLS (MonIORt.insertSorted (dS x) (dLS l)))
  | "MonIORt.pySorted", [l] => some (eLS (MonIORt.pySorted (dLS l)))
  | "MonIORt.pyJoin", [sep, l] => some (eS (MonIORt.pyJoin (dS sep) (dLS l)))
  | "MonIORt.pyKeys", [d] => some (eLS (MonIORt.pyKeys (dD d)))
  | "MonIORt.pyList", [l] => some (eLI (MonIORt.pyList (dLI l)))
  | "MonIORt.isCont", [b] => some (eB (MonIORt.isCont (dI b)))
  | "MonIORt.utf8Decode", [bs] => some (eO eLI (MonIORt.utf8Decode (dLI bs)))
  | "MonIORt.pyDecode", [bs, enc] =>
    some (match MonIORt.pyDecode (dLI bs) (dS enc) with | .ok l => eLI l | .error e => excIO e)
  | "MonIORt.stdoutWrite", [enc, ops] => some (runStdout (encOf enc) (dL id ops))
  | "MonIORt.stdoutFlush", [enc, ops] => some (runStdout (encOf enc) (dL id ops))
  | "MonIORt.MpuCls", [cls, attr] =>
    let c := mpuCls cls
    match attr with
    | "name" => some (eS c.name)
    | "ADDR_WIDTH" => some (eI c.ADDR_WIDTH)
    | "BYTE_WIDTH" => some (eI c.BYTE_WIDTH)
    | "ADDR_FORMAT" => some (eS c.ADDR_FORMAT)
    | "BYTE_FORMAT" => some (eS c.BYTE_FORMAT)
    | "addrMask" => some (eI c.addrMask)
    | "byteMask" => some (eI c.byteMask)
    | _ => none
  | _, _ => none

def rtMisc (name : String) (a : List String) : Option String :=
  match name, a with
  | "ShowRt.pyFmtO", [w, v] => some (eS (ShowRt.pyFmtO (dN w) (dI v)))
  | "ShowRt.pyRjust", [s, w, c] => some (eS (ShowRt.pyRjust (dS s) (dI w) (dC c)))
  | "ShowRt.pyZfill", [s, w] => some (eS (ShowRt.pyZfill (dS s) (dI w)))
  | "ShowRt.pyStrMul", [s, n] => some (eS (ShowRt.pyStrMul (dS s) (dI n)))
  | "ShowRt.pySplitChar", [sep, s] => some (eLS (ShowRt.pySplitChar (dC sep) (dS s)))
  | "MonCmd.shlexSplit", [s] => some (eO eLS (MonCmd.shlexSplit (dS s)))
  | "MonCmd.pyStrip", [s] => some (eS (MonCmd.pyStrip (dS s)))
  | "MonCmd.stripBlank", [s] => some (eS (MonCmd.stripBlank (dS s)))
  | "MonCmd.findPairs", [s] => some (eL (fun (p : Str × Str) => eS p.1 ++ "=" ++ eS p.2) (MonCmd.findPairs (dS s)))
  | "MonCmd.isIdentChar", [c] => some (eB (MonCmd.isIdentChar (dC c)))
  | "MonCmd.parseline", [s] => some (eParsed (MonCmd.parseline (dS s)))
  | "Py.land", [x, y] => some (eI (Py.land (dI x) (dI y)))
  | "Py.lor", [x, y] => some (eI (Py.lor (dI x) (dI y)))
  | "Py.lxor", [x, y] => some (eI (Py.lxor (dI x) (dI y)))
  | "Py.lnot", [x] => some (eI (Py.lnot (dI x)))
  | "Py.shl", [x, k] => some (eI (Py.shl (dI x) (dN k)))
  | "Py.shr", [x, k] => some (eI (Py.shr (dI x) (dN k)))
  | "Show.digitsInt", [b, v] => some (eS (Show.digitsInt (dN b) (dI v)))
  | "Show.fmtOctInt", [w, v] => some (eS (Show.fmtOctInt (dN w) (dI v)))
  | "Fmt.ljustL", [s, w] => some (eS (Fmt.ljustL (dS s) (dN w)))
  | "MonMem.words", [s] => some (eLS (MonMem.words (dS s)))
  | _, _ => none

def runRt (args : List String) : String :=
  match args with
  | name :: a =>
    let r := (rtPyStr name a).orElse fun _ => (rtPyRt name a).orElse fun _ => (rtPyData name a).orElse fun _ =>
      (rtGenRt name a).orElse fun _ => (rtAsmRt name a).orElse fun _ => (rtMonGenRt name a).orElse fun _ =>
      (rtMonMemRt name a).orElse fun _ => (rtMonIORt name a).orElse fun _ => rtMisc name a
    r.getD "bad-op"
  | [] => "bad-op"

end Py65.Driver.Rt
