/-
Protocol lines of the assembler / disassembler models (C07 / C08 / C09):

  asm <dev> <pc> <radix> <labels|-> <hex(statement)>  → ok b0,b1,… | syntax | overflow | key | other:<what>
  nas <dev> <radix> <labels|-> <hex(statement)>       → ok <hex(opcode)> <hex(operand)> | syntax | overflow | key | other:<what>
  stm <hex(text)>                                     → none | some <hex(g1)> <hex(g2)> <hex(g3)>
  dis <dev> <pc> <labels|-> <b0> <b1> <b2>            → <len> <hex(text)> | notimpl | index | other:<what>
        b0 b1 b2 = the cells at pc, pc+1, pc+2 (addresses already wrapped by the harness)
  spc <dev> <pc> <hex(mnemonic)> <shape> <value>      → ok b0,b1,… | syntax | overflow | key      (Spec.Asm.encode)
  spa … (same)                                        → the absolute twin (Spec.Asm.encodeAbs)
  spp <hex(text)>                                     → none | some <hex(MNEMONIC)> <shape> <hex(word)>  (Spec.Asm.parse)

<dev> is 6502 | 65C02 | 65Org16; the parser is `AddressParser(maxwidth=ADDR_WIDTH, radix, labels)`.
<labels> as in Driver/Num.lean.  Strings are hex-encoded byte-per-character.
-/
import Py65.Driver.Num
import Py65.Model.Asm
import Py65.Model.Disasm
import Py65.Spec.Asm

namespace Py65.Driver
open Py65.Model.PyStr Py65.Model.AddrParser Py65.Model.Asm Py65.Model.Disasm

def bytesStr (l : List Int) : String := ",".intercalate (l.map toString)

def aresStr : ARes → String
  | .ok bs => "ok " ++ bytesStr bs
  | .syntax => "syntax"
  | .overflow => "overflow"
  | .key => "key"
  | .other w => "other:" ++ w

def hx (s : Str) : String := tohex (String.ofList s)

def variantOf (dev : String) : Py65.Spec.Variant := if dev = "65C02" then .cmos else .nmos

def shapeOfStr (s : String) : Option Py65.Spec.Asm.Shape :=
  match s with
  | "none" => some .none | "acc" => some .acc | "imm" => some .imm | "dir" => some .dir
  | "dirX" => some .dirX | "dirY" => some .dirY | "ind" => some .ind | "indX" => some .indX
  | "indY" => some .indY | _ => none

def shapeStr : Py65.Spec.Asm.Shape → String
  | .none => "none" | .acc => "acc" | .imm => "imm" | .dir => "dir" | .dirX => "dirX" | .dirY => "dirY"
  | .ind => "ind" | .indX => "indX" | .indY => "indY"

def outcomeStr : Py65.Spec.Asm.Outcome → String
  | .ok bs => "ok " ++ bytesStr bs
  | .refuse .syntax => "syntax"
  | .refuse .overflow => "overflow"
  | .refuse .key => "key"

def runAsm (args : List String) : String :=
  match args with
  | ["asm", dev, pc, radix, ls, h] =>
    match devByName dev with
    | none => "other:device"
    | some d =>
      match Parser.init d.addrWidth (parseInt! radix).toNat (parseLabels ls) with
      | none => "other:init-overflow"
      | some P => aresStr (assemble d P (unhex h) (parseInt! pc))
  | ["nas", dev, radix, ls, h] =>
    match devByName dev with
    | none => "other:device"
    | some d =>
      match Parser.init d.addrWidth (parseInt! radix).toNat (parseLabels ls) with
      | none => "other:init-overflow"
      | some P =>
        match normalizeAndSplit d P (unhex h).toList with
        | .ok a b => s!"ok {hx a} {hx b}"
        | .syntax => "syntax"
        | .overflow => "overflow"
        | .key => "key"
        | .other w => "other:" ++ w
  | ["stm", h] =>
    match matchStatement (unhex h).toList with
    | some (a, b, c) => s!"some {hx a} {hx b} {hx c}"
    | none => "none"
  | ["spp", h] =>
    match Py65.Spec.Asm.parse (unhex h).toList with
    | some (m, sh, w) => s!"some {hx m} {shapeStr sh} {hx w}"
    | none => "none"
  | ["dis", dev, pc, ls, b0, b1, b2] =>
    match devByName dev with
    | none => "other:device"
    | some d =>
      match Parser.init d.addrWidth 16 (parseLabels ls) with
      | none => "other:init-overflow"
      | some P =>
        let pc := parseInt! pc
        let am := d.addrMask
        let a0 := Py.land pc am
        let a1 := Py.land (pc + 1) am
        let a2 := Py.land (pc + 2) am
        let v0 := parseInt! b0; let v1 := parseInt! b1; let v2 := parseInt! b2
        -- later cells win when addresses coincide (cannot happen: the address space has ≥ 3 cells)
        let mem : Int → Int := fun a => if a = a0 then v0 else if a = a1 then v1 else if a = a2 then v2 else 0
        match instructionAt d P mem pc with
        | .ok n t => s!"{n} {hx t}"
        | .notImplemented => "notimpl"
        | .index => "index"
        | .other w => "other:" ++ w
  | [op, dev, pc, m, sh, v] =>
    match shapeOfStr sh with
    | none => "bad-op"
    | some shape =>
      let W := if dev = "65Org16" then 16 else 8
      let st : Py65.Spec.Asm.Stmt := { mn := (unhex m).toList, shape := shape, val := parseInt! v }
      if op = "spc" then outcomeStr (Py65.Spec.Asm.encode (variantOf dev) W st (parseInt! pc))
      else if op = "spa" then outcomeStr (Py65.Spec.Asm.encodeAbs (variantOf dev) W st (parseInt! pc))
      else "bad-op"
  | _ => "bad-op"

end Py65.Driver
