/-
Hand-written executable model of `py65/disassembler.py` (`Disassembler.instruction_at`), mirroring
the source branch by branch.  Tied to the code by the correspondence of harness/props/c09.py (`dis`
protocol line).  Imports nothing outside Lean core; opcode tables, widths and formats come from the
GENERATED `Py65.Gen.Tables` through `Model.Asm.Dev`.

Memory: `mem : Int → Int` is the `__getitem__` of a memory object that spans the address space (as
under the monitor: `ObservableMemory` reduces every address with its `physMask`, a mask that
divides the address space).  `ByteAt(a)` is therefore modelled as `mem (a & addrMask)`:
`instruction_at` calls `ByteAt(pc + 1)` with an UNMASKED `pc + 1`, which is where the wrap of the
memory object matters (on a plain list the same call raises `IndexError` at the last address; that
memory kind is outside C09).  `WordAt(a) = ByteAt(a) + (ByteAt((a + 1) & addrMask) << BYTE_WIDTH)`
as the repaired devices compute it.

`mpu.disassemble[instruction]` is a list index: a cell outside `0 … 255` (possible on the 65Org16,
whose cells are 16 bits wide) is an `IndexError` in the code and `DRes.index` here; C09 quantifies
over opcode bytes `0 … 255`.
-/
import Py65.Model.Asm

namespace Py65.Model.Disasm
open Py65.Model.PyStr Py65.Model.AddrParser Py65.Model.Asm

inductive DRes where
  | ok (length : Nat) (text : Str)
  | notImplemented          -- `raise NotImplementedError("Addressing mode: …")`
  | index                   -- `mpu.disassemble[instruction]`: IndexError
  | other (what : String)
  deriving DecidableEq, Repr

/-- `self._mpu.ByteAt(a)` on a memory spanning the address space. -/
def byteAt (d : Dev) (mem : Int → Int) (a : Int) : Int := mem (Py.land a d.addrMask)

/-- `self._mpu.WordAt(a)` -/
def wordAt (d : Dev) (mem : Int → Int) (a : Int) : Int :=
  byteAt d mem a + Py.shl (byteAt d mem (Py.land (a + 1) d.addrMask)) d.byteWidth

/-- `self._address_parser.label_for(address, '$' + fmt % address)` (`none`: unmodelled format) -/
def labelOr (P : Parser) (fmt : Str) (address : Int) : Option Str :=
  match labelFor P address with
  | some l => some l
  | none =>
    match pctFmt fmt address.toNat with
    | some t => some ('$' :: t)
    | none => none

/-- The displayed target of a relative branch at `pc` with operand byte `opv`. -/
def relTarget (d : Dev) (pc opv : Int) : Int :=
  let targ := pc + 2
  let targ :=
    if Py.land opv (Py.shl 1 (d.byteWidth - 1)) ≠ 0 then targ - (Py.lxor opv d.byteMask + 1)
    else targ + opv
  Py.land targ d.addrMask

def sp (m : Str) (t : Str) : Str := m ++ ' ' :: t

/-- `instruction_at(pc)` → `(length, disasm)` -/
def instructionAt (d : Dev) (P : Parser) (mem : Int → Int) (pc : Int) : DRes :=
  let instruction := byteAt d mem pc
  if instruction < 0 ∨ instruction ≥ (d.table.length : Int) then .index else
  match d.table[instruction.toNat]? with
  | none => .index
  | some (disasm, addressing) =>
    let withAddr (length : Nat) (pre post : Str) (t : Option Str) : DRes :=
      match t with
      | some a => .ok length (sp disasm (pre ++ a ++ post))
      | none => .other "format"
    let word := labelOr P d.addrFmt (wordAt d mem (pc + 1))
    let zp := labelOr P d.byteFmt (byteAt d mem (pc + 1))
    if addressing = "acc".toList then .ok 1 (sp disasm ['A'])
    else if addressing = "abs".toList then withAddr 3 [] [] word
    else if addressing = "abx".toList then withAddr 3 [] [',', 'X'] word
    else if addressing = "aby".toList then withAddr 3 [] [',', 'Y'] word
    else if addressing = "imm".toList then
      match pctFmt d.byteFmt (byteAt d mem (pc + 1)).toNat with
      | some t => .ok 2 (sp disasm ('#' :: '$' :: t))
      | none => .other "format"
    else if addressing = "imp".toList then .ok 1 disasm
    else if addressing = "ind".toList then withAddr 3 ['('] [')'] word
    else if addressing = "iny".toList then withAddr 2 ['('] [')', ',', 'Y'] zp
    else if addressing = "inx".toList then withAddr 2 ['('] [',', 'X', ')'] zp
    else if addressing = "iax".toList then withAddr 3 ['('] [',', 'X', ')'] word
    else if addressing = "rel".toList then
      withAddr 2 [] [] (labelOr P d.addrFmt (relTarget d pc (byteAt d mem (pc + 1))))
    else if addressing = "zpi".toList then withAddr 2 ['('] [')'] zp
    else if addressing = "zpg".toList then withAddr 2 [] [] zp
    else if addressing = "zpx".toList then withAddr 2 [] [',', 'X'] zp
    else if addressing = "zpy".toList then withAddr 2 [] [',', 'Y'] zp
    else .notImplemented

end Py65.Model.Disasm
