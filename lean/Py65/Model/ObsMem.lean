/-
Hand-written executable model of `py65/memory.py` (`ObservableMemory`), mirroring the Python
source line by line (DESIGN.md §2.5, §3 C10/C11/C18).  Tied to the real class by the
correspondence run of `harness/props/c10.py` (protocol line `obs …`, `Py65/Driver/Obs.lean`).

What an `ObservableMemory` instance *is*, functionally:

* `physMask`   – `0xffff`, or `0x3ffff` when `addrWidth > 16`;
* `_subject`   – the backing Python list, seen as a total function `subject : Int → Int` plus its
                 current length `subjLen` (only indices `0 … subjLen-1` exist in Python; item
                 access only ever touches `0 … physMask`; `write()` can make the list *longer*);
* `_read_subscribers`, `_write_subscribers` – per masked address, the ordered list of callbacks.
  Callbacks are opaque ids (`Nat`).  What a callback returns is not part of the memory: it is
  supplied by an oracle `reply cb callIndex addr value` (`value = none` for a read callback
  `cb(address)`, `some v` for a write callback `cb(address, v)`); `callIndex` is the number of
  callback calls made so far on this memory, so a callback may answer differently each time;
* `log` – every callback call made so far, oldest first (the observable behaviour C10 is about).

Python facts assumed, not modelled (DESIGN.md §2.9): `defaultdict`/`setdefault` (an absent key is
the empty list), `callback not in callbacks` is identity of callback objects, `slice.indices`,
`range`, `zip`, list slice assignment.  `__getattr__` (delegation of unknown attributes to the
backing list) is not modelled.

No Mathlib import: linked into the driver executable.
-/
import Py65.PyInt

namespace Py65.Model.ObsMem

/-- One callback call: `cb(address)` (`val = none`) or `cb(address, v)` (`val = some v`). -/
structure Ev where
  cb : Nat
  addr : Int
  val : Option Int
  deriving DecidableEq, Repr, Inhabited

/-- What the callbacks answer: `reply cb callIndex addr value`; `none` is Python's `None`. -/
abbrev Reply := Nat → Nat → Int → Option Int → Option Int

/-- A subscriber dictionary (`defaultdict(list)`): masked address ↦ ordered callback list.
(A one-field structure rather than a bare function so that the compiled driver builds each
dictionary update as a closure over already computed values.) -/
structure Subs where
  of : Int → List Nat

structure OM where
  physMask : Int
  subject : Int → Int
  subjLen : Int
  rsubs : Subs
  wsubs : Subs
  log : List Ev

/-- `ObservableMemory(subject, addrWidth)`; `cells` is the content of the backing list, which is
assumed to have the default length `physMask + 1`. -/
def init (addrWidth : Int) (cells : Int → Int) : OM :=
  let physMask : Int := if addrWidth > 16 then 0x3ffff else 0xffff
  { physMask := physMask, subject := cells, subjLen := physMask + 1,
    rsubs := ⟨fun _ => []⟩, wsubs := ⟨fun _ => []⟩, log := [] }

/-- Body of the `for address in address_range` loop of `subscribe_to_read/_write`:
```
address &= self.physMask
callbacks = subscribers.setdefault(address, [])
if callback not in callbacks: callbacks.append(callback)
``` -/
def subOne (mask : Int) (cb : Nat) (subs : Subs) (address : Int) : Subs :=
  let address := Py.land address mask
  let callbacks := subs.of address
  if cb ∈ callbacks then subs
  else { of := fun k => if k = address then callbacks ++ [cb] else subs.of k }

def subscribeRead (m : OM) (addrs : List Int) (cb : Nat) : OM :=
  { m with rsubs := addrs.foldl (subOne m.physMask cb) m.rsubs }

def subscribeWrite (m : OM) (addrs : List Int) (cb : Nat) : OM :=
  { m with wsubs := addrs.foldl (subOne m.physMask cb) m.wsubs }

/-- The `for callback in callbacks` loop of `__getitem__`; `fin` is `final_result`. -/
def readLoop (reply : Reply) (address : Int) : List Nat → Option Int → List Ev → Option Int × List Ev
  | [], fin, log => (fin, log)
  | cb :: rest, fin, log =>
    let result := reply cb log.length address none
    readLoop reply address rest
      (match result with | some r => some r | none => fin)
      (log ++ [{ cb := cb, addr := address, val := none }])

/-- `self[address]` for an integer address. -/
def get (reply : Reply) (m : OM) (address : Int) : Int × OM :=
  let address := Py.land address m.physMask
  let r := readLoop reply address (m.rsubs.of address) none m.log
  (match r.1 with
   | none => m.subject address
   | some v => v,
   { m with log := r.2 })

/-- The `for callback in callbacks` loop of `__setitem__`; `value` is rebound on non-`None`. -/
def writeLoop (reply : Reply) (address : Int) : List Nat → Int → List Ev → Int × List Ev
  | [], value, log => (value, log)
  | cb :: rest, value, log =>
    let result := reply cb log.length address (some value)
    writeLoop reply address rest
      (match result with | some r => r | none => value)
      (log ++ [{ cb := cb, addr := address, val := some value }])

/-- `self[address] = value` for an integer address. -/
def set (reply : Reply) (m : OM) (address value : Int) : OM :=
  let address := Py.land address m.physMask
  let r := writeLoop reply address (m.wsubs.of address) value m.log
  { m with subject := fun k => if k = address then r.1 else m.subject k, log := r.2 }

/-! ### `slice.indices(length)` and `range(start, stop, step)` (CPython `sliceobject.c`,
`rangeobject.c`) -/

/-- Clamp of one given slice bound (CPython `evaluate_slice_index` + the clipping in
`_PySlice_GetLongIndices`). -/
def clampBound (length lower upper : Int) (x : Int) : Int :=
  if x < 0 then
    (if x + length < lower then lower else x + length)
  else
    (if x > upper then upper else x)

/-- `slice(start, stop, step).indices(length)`; `none` = `ValueError` (step 0). -/
def sliceTriple (length : Int) (start stop step : Option Int) : Option (Int × Int × Int) :=
  let step := step.getD 1
  if step = 0 then none else
  let lower : Int := if step < 0 then -1 else 0
  let upper : Int := if step < 0 then length - 1 else length
  let start' := match start with
    | none => if step < 0 then upper else lower
    | some x => clampBound length lower upper x
  let stop' := match stop with
    | none => if step < 0 then lower else upper
    | some x => clampBound length lower upper x
  some (start', stop', step)

/-- `len(range(start, stop, step))` for `step ≠ 0`. -/
def rangeLen (start stop step : Int) : Nat :=
  if step > 0 then
    (if start < stop then ((stop - start - 1) / step + 1).toNat else 0)
  else
    (if stop < start then ((start - stop - 1) / (-step) + 1).toNat else 0)

/-- `list(range(start, stop, step))`. -/
def pyRange (start stop step : Int) : List Int :=
  (List.range (rangeLen start stop step)).map fun (i : Nat) => start + (i : Int) * step

/-- `list(range(*slice(start, stop, step).indices(length)))`. -/
def sliceIndices (length : Int) (start stop step : Option Int) : Option (List Int) :=
  (sliceTriple length start stop step).map fun t => pyRange t.1 t.2.1 t.2.2

/-- `[ self[n] for n in r ]`. -/
def getMany (reply : Reply) : List Int → OM → List Int × OM
  | [], m => ([], m)
  | n :: ns, m =>
    let r1 := get reply m n
    let r2 := getMany reply ns r1.2
    (r1.1 :: r2.1, r2.2)

/-- `for n, v in zip(r, value): self[n] = v`. -/
def setMany (reply : Reply) : List Int → List Int → OM → OM
  | n :: ns, v :: vs, m => setMany reply ns vs (set reply m n v)
  | _, _, m => m

/-- `self[start:stop:step]`; `none` = `ValueError` raised before anything happened. -/
def getSlice (reply : Reply) (m : OM) (start stop step : Option Int) : Option (List Int × OM) :=
  (sliceIndices (m.physMask + 1) start stop step).map fun r => getMany reply r m

/-- `self[start:stop:step] = value`; `none` = `ValueError` raised before anything happened. -/
def setSlice (reply : Reply) (m : OM) (start stop step : Option Int) (value : List Int) : Option OM :=
  (sliceIndices (m.physMask + 1) start stop step).map fun r => setMany reply r value m

/-- `write(start_address, bytes)`:
```
start_address &= self.physMask
self._subject[start_address:start_address + len(bytes)] = bytes
```
on a Python *list* of current length `L = subjLen`: the slice bounds are clipped to `L`, the
clipped segment `[s, min(s+n, L))` (with `s = min(start, L)`) is removed and all `n` items are
inserted at `s`.  Because the segment is shorter than `n` only when it reaches the end of the
list, no surviving element ever moves: positions `s … s+n-1` receive the bytes, everything else
keeps its value, and the list grows to `max(L, s+n)`.  No callback is involved. -/
def write (m : OM) (start_address : Int) (bytes : List Int) : OM :=
  let start_address := Py.land start_address m.physMask
  let s := if start_address > m.subjLen then m.subjLen else start_address
  let n : Int := bytes.length
  { m with
    subject := fun k => if s ≤ k ∧ k < s + n then bytes.getD (k - s).toNat 0 else m.subject k,
    subjLen := if m.subjLen < s + n then s + n else m.subjLen }

/-! ### Histories -/

inductive Op where
  | subR (addrs : List Int) (cb : Nat)
  | subW (addrs : List Int) (cb : Nat)
  | get (a : Int)
  | set (a v : Int)
  | getSlice (start stop step : Option Int)
  | setSlice (start stop step : Option Int) (vals : List Int)
  | write (start : Int) (bytes : List Int)
  deriving Repr, Inhabited

/-- What an operation hands back to its caller. -/
inductive Out where
  | unit
  | val (v : Int)
  | vals (vs : List Int)
  | valueError
  deriving Repr, DecidableEq, Inhabited

/-- One operation: result and next state (a raising operation leaves the state unchanged: the
only exception the model knows is the `ValueError` of a zero slice step, raised before the
first element is touched). -/
def apply (reply : Reply) (m : OM) : Op → Out × OM
  | .subR addrs cb => (.unit, subscribeRead m addrs cb)
  | .subW addrs cb => (.unit, subscribeWrite m addrs cb)
  | .get a => let r := get reply m a; (.val r.1, r.2)
  | .set a v => (.unit, set reply m a v)
  | .getSlice s e st =>
    match getSlice reply m s e st with
    | some r => (.vals r.1, r.2)
    | none => (.valueError, m)
  | .setSlice s e st vs =>
    match setSlice reply m s e st vs with
    | some m' => (.unit, m')
    | none => (.valueError, m)
  | .write s bs => (.unit, write m s bs)

/-- State after a history. -/
def run (reply : Reply) (m : OM) (hist : List Op) : OM :=
  hist.foldl (fun m op => (apply reply m op).2) m

/-- Results of a history, in order, and the final state. -/
def runOut (reply : Reply) : OM → List Op → List Out × OM
  | m, [] => ([], m)
  | m, op :: rest =>
    let r := apply reply m op
    let r2 := runOut reply r.2 rest
    (r.1 :: r2.1, r2.2)

end Py65.Model.ObsMem
