/-
Run-time support for the model GENERATED from `py65/utils/addressing.py` by
`harness/py2lean_addr.py` (`lean/Py65/Gen/AddrParserGen.lean`).

The translator emits the control flow, the order of statements, the operators, comparisons and
constants from the Python AST.  What it does NOT translate is library behaviour; every library
call the module makes is mapped to one NAMED function of this file (or of `Model/PyStr.lean` /
`Model/AddrParser.lean`), so that what is modelled rather than regenerated is listed in one place:

  Python                                   Lean
  ---------------------------------------  -------------------------------------------------------
  exceptions (raise / try..except)         `M = Except Exc`, `raise`, `tryExcept`
  `int(s, base)`                           `int`  (`PyStr.pyIntL`; `ValueError` = `Exc.valueError`)
  `s.startswith(t)`                        `PyStr.startsWith`
  `s[n:]`                                  `sliceFrom`
  `k in d`, `d[k]`, `d.get(k, default)`    `dictIn`, `dictGetItem` (`KeyError`), `dictGet`
  `d[k] = v`, `{}`, `d.items()`            `dictSetItem` (= `AddrParser.insert`), `[]`, the list itself
  `re.match(<pattern 1>, s)`               `reMatchLabelOffset`  (scanner `AddrParser.matchOffset`)
  `re.match(<pattern 2>, s)`               `reMatchRange`        (scanner `AddrParser.matchRange`)
  `m.groups()`                             the tuple inside the `some`
  a self-recursive method                  fuel `recursionLimit`; running out = `Exc.recursionError`
  `for x in xs: if c: return e`            `List.findSome?`
  `for x in xs: <body>`                    `List.foldlM` in `M`

Imports nothing outside Lean core (Gen files must be Mathlib-free).
-/
import Py65.Model.AddrParser

namespace Py65.Model.PyRt
open Py65.Model.PyStr Py65.Model.AddrParser

/-- The exception classes the translated module raises or catches. -/
inductive Exc where
  | valueError
  | keyError
  | overflowError
  | recursionError
  deriving DecidableEq, Repr

/-- A Python computation that returns an `α` or raises. -/
abbrev M (α : Type) := Except Exc α

deriving instance DecidableEq for Except

/-- `raise E(...)` (the message is not modelled). -/
def raise {α : Type} (e : Exc) : M α := .error e

/-- `try: body / except E: handler` (no `as`, no `else`, no `finally`). -/
def tryExcept {α : Type} (body : M α) (exc : Exc) (handler : M α) : M α :=
  match body with
  | .ok v => .ok v
  | .error e => if e = exc then handler else .error e

/-- CPython's default `sys.getrecursionlimit()`: the fuel given to a self-recursive method. -/
def recursionLimit : Nat := 1000

/-- `int(s, base)`; `ValueError` when CPython refuses the text. -/
def int (s : Str) (base : Nat) : M Int :=
  match pyIntL s base with
  | some v => .ok v
  | none => .error .valueError

/-- `s[n:]` for a literal `n ≥ 0`. -/
def sliceFrom (s : Str) (n : Nat) : Str := s.drop n

/-- `k in d` -/
def dictIn (k : Str) (d : Labels) : Bool := (lookup d k).isSome

/-- `d[k]`; `KeyError` when absent. -/
def dictGetItem (d : Labels) (k : Str) : M Int :=
  match lookup d k with
  | some v => .ok v
  | none => .error .keyError

/-- `d.get(k, default)` -/
def dictGet (d : Labels) (k : Str) (dflt : Option Int) : Option Int :=
  match lookup d k with
  | some v => some v
  | none => dflt

/-- `d[k] = v` -/
def dictSetItem (d : Labels) (k : Str) (v : Int) : Labels := AddrParser.insert d k v

/-- `re.match(r'^([^\s+-]+)\s*([+\-])\s*([$+%]?[0-9a-fA-F]+)$', s)`: `None`, or the three groups
(all three always participate). -/
def reMatchLabelOffset (s : Str) : Option (Str × Str × Str) :=
  match matchOffset s with
  | some (label, sign, offset) => some (label, [sign], offset)
  | none => none

/-- `re.match(r'^([^:,]+)\s*[:,]+\s*([^:,]+)$', s)`: `None`, or the two groups (both always
participate, so the default of `groups(default)` is never used). -/
def reMatchRange (s : Str) : Option (Str × Str) := matchRange s

end Py65.Model.PyRt
