/-
Hand-written executable model of the memory commands of `py65/monitor.py`:
`_fill`, `do_fill`, `do_load`, `do_save`, `do_mem` (DESIGN.md §2.5, §3 C16), mirroring the Python
source line by line.  Tied to the real `Monitor` by the correspondence of `harness/props/c16.py`
(protocol line `mon …`, `Py65/Driver/Mon.lean`).  Imports nothing outside Lean core.

What is modelled and how:

* the monitor's memory is the `ObservableMemory` of `Py65.Model.ObsMem` (`OM` + the callback oracle
  `reply`): `self._mpu.memory[a]` is `get`, `self._mpu.memory[a] = v` is `set` (ITEM access: the
  address is taken modulo the physical size), `self._mpu.memory[a:b]` is `getSlice` (SLICE access:
  the bounds are CLIPPED at the physical size).  `fill`, `load`, `mem` use item access, `save`
  uses a slice -- exactly as the code;
* commands work on TOKENISED arguments (`shlex.split` is Python's, not modelled): a token is a
  `Str`; numbers and ranges go through `Py65.Model.AddrParser.numberL / rangeL` with the
  monitor's parser `P` (`AddressParser(maxwidth = ADDR_WIDTH)`);
* a command yields an outcome (what is printed, as data: the "Wrote +n bytes from $a to $b"
  triple, the saved file, the printed lines, or the kind of error) and the new memory;
* an exception that escapes a `do_*` method is caught by `Monitor.onecmd`, which prints the
  traceback: that is the outcome `key` / `overflow` / `indexError` with the memory as it was when
  the exception was raised (for all commands here: unchanged, every raise precedes the first
  write);
* the filesystem is not modelled: `load` is given the octets of the file, `save` yields them.
-/
import Py65.Model.ObsMem
import Py65.Model.AddrParser

namespace Py65.Model.MonMem
open Py65.Model.PyStr Py65.Model.AddrParser Py65.Model.ObsMem

/-- The attributes `_reset` copies from the device: `ADDR_WIDTH`, `BYTE_WIDTH`, and the field
widths of `ADDR_FORMAT` / `BYTE_FORMAT` (`"%04x"`, `"%02x"` / `"%08x"`, `"%04x"`). -/
structure Dev where
  AW : Nat
  BW : Nat
  addrFmtW : Nat
  byteFmtW : Nat
  deriving DecidableEq, Repr

/-- `self.addrMask` -/
def Dev.addrMask (d : Dev) : Int := 2 ^ d.AW - 1
/-- `self.byteMask` -/
def Dev.byteMask (d : Dev) : Int := 2 ^ d.BW - 1

/-- 6502 and 65C02 -/
def dev8 : Dev := { AW := 16, BW := 8, addrFmtW := 4, byteFmtW := 2 }
/-- 65Org16 -/
def dev16 : Dev := { AW := 32, BW := 16, addrFmtW := 8, byteFmtW := 4 }

/-- `"%0<w>x" % v` for any Python int (`'%04x' % -1 = '-001'`: the sign counts in the width). -/
def fmtHexInt (w : Nat) (v : Int) : Str :=
  if v < 0 then '-' :: fmtHexL (w - 1) (-v).toNat else fmtHexL w v.toNat

/-! ### `_fill` -/

/-- The `while address <= end:` loop of `_fill`:
```
while address <= end:
    address &= self.addrMask
    self._mpu.memory[address] = (filler[index] & self.byteMask)
    index += 1
    if index == length: index = 0
    address += 1
```
`fuel` bounds the number of iterations; `fill` passes `end + 1 - start`, which always suffices
(`fillLoop_fuel` in Proofs/MonLemmas): every iteration moves `address` up by at least one. -/
def fillLoop (reply : Reply) (d : Dev) (filler : List Int) (stop : Int) :
    Nat → Int → Nat → OM → OM
  | 0, _, _, m => m
  | fuel + 1, address, index, m =>
    if address ≤ stop then
      let address := Py.land address d.addrMask
      let m := set reply m address (Py.land (filler.getD index 0) d.byteMask)
      let index := index + 1
      let index := if index = filler.length then 0 else index
      fillLoop reply d filler stop fuel (address + 1) index m
    else m

/-- What `_fill` printed: the triple of `"Wrote +%d bytes from $a to $b" % (end - start + 1, start, end)`,
or the `IndexError` of `filler[0]` on an empty filler (raised in the first iteration, before any
write; cannot happen through `do_fill` / `do_load`, see `doFill`, `doLoad`). -/
inductive FillRes where
  | wrote (count start stop : Int)
  | indexError
  deriving DecidableEq, Repr

/-- `_fill(start, end, filler)` -/
def fill (reply : Reply) (d : Dev) (start stop : Int) (filler : List Int) (m : OM) : FillRes × OM :=
  let length : Int := filler.length
  let stop :=
    if start = stop then
      (if start + length - 1 > d.addrMask then d.addrMask else start + length - 1)
    else stop
  if filler = [] ∧ start ≤ stop then (.indexError, m)
  else (.wrote (stop - start + 1) start stop,
        fillLoop reply d filler stop (stop + 1 - start).toNat start 0 m)

/-! ### `do_fill` -/

/-- Printed outcome of a command that can fail in the address parser. -/
inductive Out where
  | help                                   -- the usage text (wrong number of arguments)
  | syntaxError                            -- "Syntax error: …"
  | key                                    -- KeyError  ("Label not found: …" / traceback)
  | overflow                               -- OverflowError ("Overflow: $…" / traceback)
  | other                                  -- any other exception (the parser model never yields it)
  | indexError                             -- `filler[0]` on an empty filler
  | wrote (count start stop : Int)         -- "Wrote +%d bytes from $%x to $%x"
  | saved (count : Nat) (file : List Int)  -- "Saved +%d bytes to …" and the octets written
  | lines (ls : List Str)                  -- the lines `mem` printed
  deriving DecidableEq, Repr

def Out.ofRes : Res → Out
  | .ok _ => .other
  | .key => .key
  | .overflow => .overflow
  | .other => .other

def Out.ofFill : FillRes → Out
  | .wrote c s e => .wrote c s e
  | .indexError => .indexError

/-- The loop over the data pieces:
```
for piece in split[1:]:
    value = self._address_parser.number(piece)
    if value > self.byteMask: raise OverflowError(value)
    filler.append(value)
```
`Sum.inl` = the exception that ended it. -/
def parseFiller (d : Dev) (P : Parser) : List Str → List Int → Sum Out (List Int)
  | [], acc => .inr acc.reverse
  | piece :: rest, acc =>
    match numberL P piece with
    | .ok value => if value > d.byteMask then .inl .overflow else parseFiller d P rest (value :: acc)
    | r => .inl (Out.ofRes r)

/-- `do_fill` on `split = shlex.split(args)`. -/
def doFill (reply : Reply) (d : Dev) (P : Parser) (split : List Str) (m : OM) : Out × OM :=
  match split with
  | [] => (.help, m)
  | [_] => (.help, m)
  | r :: pieces =>
    match rangeL P r with
    | .ok start stop =>
      match parseFiller d P pieces [] with
      | .inr filler => let res := fill reply d start stop filler m; (Out.ofFill res.1, res.2)
      | .inl e => (e, m)
    | .key => (.key, m)
    | .overflow => (.overflow, m)
    | .other => (.other, m)

/-! ### `do_load` -/

/-- `list(map(format, bytes[0::2], bytes[1::2]))` with `format(msb, lsb) = (msb << 8) + lsb`:
`zip` stops at the shorter list, so an odd trailing octet is dropped. -/
def pairs : List Int → List Int
  | msb :: lsb :: rest => (Py.shl msb 8 + lsb) :: pairs rest
  | _ => []

/-- The data preparation of `do_load`: 8-bit devices take the octets, 16-bit devices big-endian
pairs (any other width would leave the octets as they are). -/
def loadData (d : Dev) (bytes : List Int) : List Int :=
  if d.BW = 8 then bytes else if d.BW = 16 then pairs bytes else bytes

/-- The start address `do_load` computes from the tokens after the file name (`pc` is
`self._mpu.pc`), or the exception / syntax error that ends the command before anything is written:
```
if len(split) == 2:
    if split[1] == "top": start = self.addrMask - len(bytes) // (self.byteWidth // 8) + 1
    else: start = self._address_parser.number(split[1])
else: start = self._mpu.pc
``` -/
def loadStart (d : Dev) (P : Parser) (file : List Int) (rest : List Str) (pc : Int) : Sum Out Int :=
  match rest with
  | [] => .inr pc
  | [t] =>
    if t = ['t', 'o', 'p'] then
      .inr (d.addrMask - ((file.length : Int) / ((d.BW : Int) / 8)) + 1)
    else
      match numberL P t with
      | .ok a => .inr a
      | r => .inl (Out.ofRes r)
  | _ => .inl .syntaxError

/-- `do_load` on the file's octets and the tokens after the file name: the prepared data goes
through `self._fill(start, start, bytes)` -- a one-address range, so it extends to the length of
the data and is clipped at the top of the address space; an EMPTY file gives `end = start - 1`,
the loop body never runs and "Wrote +0 bytes from $start to $start-1" is printed. -/
def doLoad (reply : Reply) (d : Dev) (P : Parser) (file : List Int) (rest : List Str) (pc : Int)
    (m : OM) : Out × OM :=
  match loadStart d P file rest pc with
  | .inl e => (e, m)
  | .inr start =>
    let res := fill reply d start start (loadData d file) m
    (Out.ofFill res.1, res.2)

/-! ### `do_save` -/

/-- `for shift in range(self.byteWidth - 8, -1, -8): f.write(bytearray([(m >> shift) & 0xff]))` -/
def octets (d : Dev) (v : Int) : List Int :=
  (List.range (d.BW / 8)).map fun i => Py.land (Py.shr v (d.BW - 8 - 8 * i)) 0xff

/-- `do_save` on the two tokens after the file name.  The cells are read one by one,
`[self._mpu.memory[addr] for addr in range(start, end + 1)]` -- item access, like `mem`, `fill`
and `load` (before the repair "monitor save reads the range cell by cell" it was ONE SLICE
`memory[start:end + 1]`, which ObservableMemory clips at its physical size:
findings/C16-save-slice-prefix.json). -/
def doSave (reply : Reply) (d : Dev) (P : Parser) (args : List Str) (m : OM) : Out × OM :=
  match args with
  | [s, e] =>
    match numberL P s with
    | .ok start =>
      match numberL P e with
      | .ok stop =>
        let rd := getMany reply (pyRange start (stop + 1) 1) m
        (.saved rd.1.length (rd.1.flatMap (octets d)), rd.2)
      | r => (Out.ofRes r, m)
    | r => (Out.ofRes r, m)
  | _ => (.syntaxError, m)

/-! ### `do_mem` -/

/-- The body of the `for address in range(start, end + 1)` loop of `do_mem`, the bytes already read:
```
more = "  " + self.byteFmt % byte
exceeded = len(line) + len(more) > self._width
if exceeded:
    self._output(line)
    line = self.addrFmt % address + ":"
line += more
```
and the final `self._output(line)`. -/
def memLoop (d : Dev) (width : Nat) : Str → List (Int × Int) → List Str
  | line, [] => [line]
  | line, (address, byte) :: rest =>
    let more := ' ' :: ' ' :: fmtHexInt d.byteFmtW byte
    if line.length + more.length > width then
      line :: memLoop d width (fmtHexInt d.addrFmtW address ++ [':'] ++ more) rest
    else memLoop d width (line ++ more) rest

/-- `do_mem` on `split = shlex.split(args)`; `width` is `self._width`. -/
def doMem (reply : Reply) (d : Dev) (P : Parser) (width : Nat) (split : List Str) (m : OM) : Out × OM :=
  match split with
  | [r] =>
    match rangeL P r with
    | .ok start stop =>
      let addrs := pyRange start (stop + 1) 1
      let rd := getMany reply addrs m
      (.lines (memLoop d width (fmtHexInt d.addrFmtW start ++ [':']) (addrs.zip rd.1)), rd.2)
    | .key => (.key, m)
    | .overflow => (.overflow, m)
    | .other => (.other, m)
  | _ => (.help, m)

/-! ### `do_width` -/

/-- `do_width` on an argument that `int()` accepts: `if new_width >= 10: self._width = new_width`. -/
def doWidth (width : Nat) (new_width : Int) : Nat :=
  if new_width ≥ 10 then new_width.toNat else width

/-! ### reading the printed lines back (used by the property statement `mem_exact`) -/

/-- Split at blanks, dropping empty pieces (`str.split()` on a string of digits and spaces). -/
def wordsAux : Str → Str → List Str
  | cur, [] => if cur = [] then [] else [cur]
  | cur, c :: cs =>
    if c = ' ' then (if cur = [] then wordsAux [] cs else cur :: wordsAux [] cs)
    else wordsAux (cur ++ [c]) cs

def words (s : Str) : List Str := wordsAux [] s

/-- All-or-nothing `map`. -/
def allSome : List (Option Int) → Option (List Int)
  | [] => some []
  | none :: _ => none
  | some v :: rest => (allSome rest).map (v :: ·)

/-- Read one line of `mem` output back: `int(addr, 16)` before the colon, `int(word, 16)` for every
blank-separated word after it. -/
def parseMemLine (line : Str) : Option (Int × List Int) :=
  let a := line.takeWhile (· ≠ ':')
  match line.dropWhile (· ≠ ':') with
  | [] => none
  | _ :: body =>
    match pyIntL a 16, allSome ((words body).map fun w => pyIntL w 16) with
    | some addr, some bytes => some (addr, bytes)
    | _, _ => none

/-- Read a whole `mem` output back: one `(address, bytes)` group per line. -/
def parseMem : List Str → Option (List (Int × List Int))
  | [] => some []
  | l :: ls =>
    match parseMemLine l, parseMem ls with
    | some g, some gs => some (g :: gs)
    | _, _ => none

end Py65.Model.MonMem
