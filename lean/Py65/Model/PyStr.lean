/-
Executable model of the CPython 3.12 string behaviours that `py65/utils/addressing.py`,
`py65/utils/conversions.py` (`itoa`) and the monitor's number display rely on, for the alphabet
"printable ASCII + tab" (the model is in fact exact on all of ASCII 0..127; see the notes at
`isCSpace` / `isReSpace`).  Imports nothing outside Lean core: it is linked into the driver.

Everything is defined on `List Char` (`Str`) -- that is what the proofs work on -- with thin
`String` wrappers (`pyInt`, `fmtHex`, ...) for users and for the driver.

Behaviours pinned by experiment against /venv/bin/python (CPython 3.12.1), re-checked on every run
by the `pyint` / `fmt` correspondence of harness/props/c15.py:

* `int(s, base)` (Objects/longobject.c `PyLong_FromString`, `long_from_string_base`):
  leading C-`isspace` characters are skipped (space \t \n \v \f \r -- NOT \x1c..\x1f, although
  `str.isspace()` and the regex `\s` accept those); one optional `+` or `-`; then, only when it
  matches the base, a prefix `0x`/`0o`/`0b` in either case (base 16/8/2) optionally followed by ONE
  underscore; then a non-empty run of digits `< base` (letters in either case) in which single
  underscores may separate digits (no leading, trailing or doubled underscore); then trailing
  C-`isspace` characters; then the end of the string.  Anything else is `ValueError` (`none`).
  `'0b101'` in base 16 is the hex number 0xb101, `'0x1'` in base 10 fails.
* CPython >= 3.11 refuses conversions with more than 4300 digits (underscores, sign, prefix not
  counted; leading zeros counted) in bases that are not a power of two
  (`sys.get_int_max_str_digits()`, default 4300): `int('0'*4301, 10)` is a `ValueError` whereas
  `int('0'*4301, 16)` is 0.  The same limit makes `"%d" % n` raise for `n >= 10**4300`.
* `"%0Nx" % n`, `"%04o" % n`, `"%u" % n`, `"{0:b}".format(n)` for `n >= 0`: the canonical digits
  (lower case, `"0"` for zero), left-padded with `'0'` to the minimum width.
* `str.zfill(w)` pads after a leading sign; `str.rjust(w, c)` pads on the left.
-/

namespace Py65.Model.PyStr

abbrev Str := List Char

/-! ### character classes -/

/-- C `isspace` in the "C" locale (`Py_ISSPACE`), the set `int()` strips: space \t \n \v \f \r. -/
def isCSpace (c : Char) : Bool :=
  c.toNat = 32 || (9 ≤ c.toNat && c.toNat ≤ 13)

/-- `str.isspace()` = what `\s` matches in a `str` pattern, restricted to ASCII:
additionally the separators \x1c..\x1f. -/
def isReSpace (c : Char) : Bool :=
  isCSpace c || (28 ≤ c.toNat && c.toNat ≤ 31)

/-- `\d` restricted to ASCII. -/
def isDigit (c : Char) : Bool := 48 ≤ c.toNat && c.toNat ≤ 57

/-- `[0-9a-fA-F]` -/
def isHexDigit (c : Char) : Bool :=
  isDigit c || (97 ≤ c.toNat && c.toNat ≤ 102) || (65 ≤ c.toNat && c.toNat ≤ 70)

/-- Value of a character as a digit in base 36 (`_PyLong_DigitValue`), `none` for a non-digit. -/
def digitVal (c : Char) : Option Nat :=
  let n := c.toNat
  if 48 ≤ n ∧ n ≤ 57 then some (n - 48)
  else if 97 ≤ n ∧ n ≤ 122 then some (n - 87)
  else if 65 ≤ n ∧ n ≤ 90 then some (n - 55)
  else none

/-- The lower-case digit character of `d < 36` (what `%x`, `%o`, `%d`, `{:b}` print). -/
def digitChar (d : Nat) : Char :=
  if d < 10 then Char.ofNat (48 + d) else Char.ofNat (87 + d)

/-- ASCII `str.upper()` on one character. -/
def upper (c : Char) : Char :=
  if 97 ≤ c.toNat ∧ c.toNat ≤ 122 then Char.ofNat (c.toNat - 32) else c

/-- ASCII `str.lower()` on one character. -/
def lower (c : Char) : Char :=
  if 65 ≤ c.toNat ∧ c.toNat ≤ 90 then Char.ofNat (c.toNat + 32) else c

/-! ### small `str` methods -/

/-- `s.startswith(c)` for a one-character prefix. -/
def startsWithChar (s : Str) (c : Char) : Bool :=
  match s with
  | d :: _ => d == c
  | [] => false

/-- `s.startswith(p)` -/
def startsWith : Str → Str → Bool
  | _, [] => true
  | [], _ :: _ => false
  | c :: s, d :: p => c == d && startsWith s p

/-- `s.rjust(w, fill)` -/
def rjustL (s : Str) (w : Nat) (fill : Char) : Str :=
  List.replicate (w - s.length) fill ++ s

/-- `s.zfill(w)`: zeros go after a leading sign. -/
def zfillL (s : Str) (w : Nat) : Str :=
  match s with
  | c :: r =>
    if c = '+' ∨ c = '-' then c :: (List.replicate (w - s.length) '0' ++ r)
    else List.replicate (w - s.length) '0' ++ s
  | [] => List.replicate w '0'

/-! ### `int(s, base)` -/

/-- CPython's default `sys.get_int_max_str_digits()`. -/
def maxStrDigits : Nat := 4300

/-- `(base & (base - 1)) == 0` for the bases 2..36. -/
def isPow2Base (base : Nat) : Bool :=
  base = 2 || base = 4 || base = 8 || base = 16 || base = 32

/-- The letter of the literal prefix that `int(s, base)` accepts for this base. -/
def isPrefixLetter (base : Nat) (c : Char) : Bool :=
  (base = 16 && (c = 'x' || c = 'X')) ||
  (base = 8 && (c = 'o' || c = 'O')) ||
  (base = 2 && (c = 'b' || c = 'B'))

/-- Skip `0x` / `0o` / `0b` when it matches the base, and then at most one underscore. -/
def dropPrefix (base : Nat) (s : Str) : Str :=
  match s with
  | z :: l :: r =>
    if z = '0' ∧ isPrefixLetter base l = true then
      match r with
      | u :: r' => if u = '_' then r' else r
      | [] => r
    else s
  | _ => s

/-- The digit loop of `long_from_string_base`: consume digits `< base` and single underscores.
Returns the value, the number of digit characters and the unconsumed rest; `none` when an
underscore is doubled or ends the run.  `prevUS`: the previous character was an underscore. -/
def scanDigits (base : Nat) : Str → Nat → Nat → Bool → Option (Nat × Nat × Str)
  | [], acc, cnt, prevUS => if prevUS then none else some (acc, cnt, [])
  | c :: cs, acc, cnt, prevUS =>
    if c = '_' then
      if prevUS then none else scanDigits base cs acc cnt true
    else
      match digitVal c with
      | some d =>
        if d < base then scanDigits base cs (acc * base + d) (cnt + 1) false
        else if prevUS then none else some (acc, cnt, c :: cs)
      | none => if prevUS then none else some (acc, cnt, c :: cs)

/-- `int(s, base)` for `2 ≤ base ≤ 36` (`none` = `ValueError`).  Base 0 (literal syntax) is not
modelled and, like the bases CPython rejects (1, > 36), yields `none`. -/
def pyIntL (s : Str) (base : Nat) : Option Int :=
  if base < 2 ∨ 36 < base then none else
  let s := s.dropWhile isCSpace
  let (neg, s) : Bool × Str :=
    match s with
    | c :: r => if c = '+' then (false, r) else if c = '-' then (true, r) else (false, s)
    | [] => (false, s)
  let s := dropPrefix base s
  if startsWithChar s '_' then none else
  match scanDigits base s 0 0 false with
  | none => none
  | some (v, cnt, rest) =>
    if cnt = 0 then none
    else if !isPow2Base base && maxStrDigits < cnt then none
    else if rest.all isCSpace then some (if neg then -(v : Int) else (v : Int))
    else none

def pyInt (s : String) (base : Nat) : Option Int := pyIntL s.toList base

/-! ### formatting -/

/-- Canonical digits of `n` in base `b` (most significant first, lower case, `"0"` for 0). -/
def toDigits (b : Nat) (n : Nat) : Str :=
  if _h : b < 2 ∨ n < b then [digitChar n]
  else toDigits b (n / b) ++ [digitChar (n % b)]
termination_by n
decreasing_by
  have hb : 2 ≤ b := by omega
  have hn : 0 < n := by omega
  exact Nat.div_lt_self hn hb

/-- `"%0<width>x" % n` -/
def fmtHexL (width n : Nat) : Str := rjustL (toDigits 16 n) width '0'
/-- `"%u" % n`, `"%d" % n`, `str(n)` (for `n < 10^4300`; beyond that CPython raises) -/
def fmtDecL (n : Nat) : Str := toDigits 10 n
/-- `"%0<width>o" % n` -/
def fmtOctL (width n : Nat) : Str := rjustL (toDigits 8 n) width '0'
/-- `"{0:b}".format(n)` = `itoa(n, 2)` -/
def fmtBinL (n : Nat) : Str := toDigits 2 n

def fmtHex (width n : Nat) : String := String.ofList (fmtHexL width n)
def fmtDec (n : Nat) : String := String.ofList (fmtDecL n)
def fmtOct (width n : Nat) : String := String.ofList (fmtOctL width n)
def fmtOct4 (n : Nat) : String := fmtOct 4 n
def fmtBin (n : Nat) : String := String.ofList (fmtBinL n)
def zfill (s : String) (w : Nat) : String := String.ofList (zfillL s.toList w)
def rjust (s : String) (w : Nat) (fill : Char) : String := String.ofList (rjustL s.toList w fill)

/-! ### spellings (used by the property statements) -/

/-- Upper-case the positions selected by the mask (a mask shorter than the string leaves the
rest as is): every mixture of letter cases of a digit string is `mixCase m` of it for some `m`. -/
def mixCase : List Bool → Str → Str
  | _, [] => []
  | [], cs => cs
  | b :: m, c :: cs => (if b then upper c else c) :: mixCase m cs

/-- `z` leading zeros, then the digits of `n` in base `b` with the letter cases chosen by `m`. -/
def spelling (b : Nat) (z : Nat) (m : List Bool) (n : Nat) : Str :=
  List.replicate z '0' ++ mixCase m (toDigits b n)

end Py65.Model.PyStr
