/-
CPython container behaviours that `py65/memory.py` relies on, as named Lean helpers for the
REGENERATED model `Py65/Gen/ObsMemGen.lean` (written by `harness/py2lean_mem.py`).  Nothing here
is `memory.py` logic: each definition is the meaning of one Python library operation on the
representation the hand model `Py65/Model/ObsMem.lean` already uses:

* a Python `list` of ints is a total function `cells : Int → Int` plus its length `len`
  (`PyList`); only positions `0 … len-1` mean anything, the others are junk that no Python
  program can observe;
* a `slice` object is its three optional fields (`PySlice`);
* a `defaultdict(list)` of callbacks is a `Subs` (absent key = empty list).

Modelled, not verified (trusted base; differentially exercised by the `obs` correspondence of
`harness/props/c10.py`).  No Mathlib import.
-/
import Py65.Model.ObsMem

namespace Py

/-- A Python list of ints: contents as a total function, and `len()`. -/
structure PyList where
  cells : Int → Int
  len : Int

/-- A Python `slice(start, stop, step)` object; `none` is `None`. -/
structure PySlice where
  start : Option Int
  stop : Option Int
  step : Option Int

/-- `n * xs` / `xs * n` for an int `n` and a list display `xs`: `xs` repeated `max n 0` times. -/
def listRepeat (n : Int) (xs : List Int) : PyList :=
  { cells := fun k => xs.getD (k.toNat % xs.length) 0,
    len := (if n < 0 then 0 else n) * (xs.length : Int) }

/-- `lst[i] = v` for an index `0 ≤ i < len(lst)` (no `IndexError`, no from-the-end index: the
callers mask the index first). -/
def listSetItem (cells : Int → Int) (i v : Int) : Int → Int :=
  fun k => if k = i then v else cells k

/-- `lst[lo:hi] = vals` (no step) on a list of length `L`, for `0 ≤ lo` and `0 ≤ hi` (no
from-the-end bounds).  CPython (`list_ass_slice`): the bounds are clipped to `L`, `hi` is raised
to `lo` when smaller, the segment `[s, e)` is removed and all of `vals` is inserted at `s`; the
tail moves by `len(vals) - (e - s)`.  Result: new contents and new length.  (A position that
would be filled from beyond the old end is junk either way; it keeps its old junk value so that
no observable position ever depends on it.) -/
def listSliceAssign (cells : Int → Int) (L lo hi : Int) (vals : List Int) : (Int → Int) × Int :=
  let s := if lo > L then L else lo
  let e := if hi > L then L else hi
  let e := if e < s then s else e
  let n : Int := vals.length
  (fun k =>
     if k < s then cells k
     else if k < s + n then vals.getD (k - s).toNat 0
     else if k - n + (e - s) < L then cells (k - n + (e - s)) else cells k,
   L - (e - s) + n)

end Py

namespace Py65.Model.ObsMem

/-- `defaultdict(list)`. -/
def Subs.empty : Subs := ⟨fun _ => []⟩

/-- The dictionary after the list stored under `key` became `l` (the effect of
`d.setdefault(key, []).append(x)` / `d[key].append(x)` when the list was `l` without `x`). -/
def Subs.set (d : Subs) (key : Int) (l : List Nat) : Subs :=
  ⟨fun k => if k = key then l else d.of k⟩

/-- `list(range(*sl.indices(length)))`; `none` = `ValueError` (step 0). -/
def sliceRange (sl : Py.PySlice) (length : Int) : Option (List Int) :=
  sliceIndices length sl.start sl.stop sl.step

end Py65.Model.ObsMem
