/-
Hand-written executable model of the run control of `py65/monitor.py`: `_run`, `do_goto`,
`do_return`, `do_step` and the breakpoint list (`do_add_breakpoint`, `do_delete_breakpoint`,
`do_show_breakpoints`), mirroring the Python source (DESIGN.md §2.5, §3 C17).  Generic in the
device: `step : St → St` is ANY function (the driver instantiates it with the generated
`Py65.Gen.devXXXX.step`, the theorems hold for every `step`).  Imports only `Py65.Machine`.

```
def _run(self, stopcodes):
    stopcodes = set(stopcodes)
    breakpoints = set(self._breakpoints)
    mpu = self._mpu;  mem = self._mpu.memory
    if not breakpoints:
        while True:
            mpu.step()
            if mem[mpu.pc] in stopcodes: break
    else:
        while True:
            mpu.step()
            pc = mpu.pc
            if mem[pc] in stopcodes: break
            if pc in breakpoints:
                self._output("Breakpoint %d reached." % self._breakpoints.index(pc))
                break
```
`self._breakpoints` is a Python list of addresses with `None` in the slot of a deleted breakpoint:
`List (Option Int)`.  `set(self._breakpoints)` is empty iff the list is empty (a list holding only
`None`s gives the non-empty set `{None}`, so the second loop runs -- and never matches, an `int`
is never `None`).  The monitor's own peek `mem[mpu.pc]` is the pure read `s.mem s.pc` (it is not a
device access and is not put into `St.log`).
-/
import Py65.Machine

namespace Py65.Model.MonRun
open Py65

/-! ### the do-while loop -/

/-- `while True: mpu.step(); if stop: break` -- at least one step, then stop at the first state
in which `stop` holds.  `some (n, s')`: the loop ended after `n` iterations in state `s'`;
`none`: not within `fuel` iterations (the Python loop may run forever; the harness bounds it). -/
def runLoop (step : St → St) (stop : St → Bool) : Nat → St → Option (Nat × St)
  | 0, _ => none
  | fuel + 1, s =>
    let s' := step s
    if stop s' then some (1, s')
    else (runLoop step stop fuel s').map fun r => (r.1 + 1, r.2)

/-- `mem[mpu.pc] in stopcodes` -/
def atStopcode (stopcodes : List Int) (s : St) : Bool := stopcodes.contains (s.mem s.pc)

/-- `pc in breakpoints` (`breakpoints = set(self._breakpoints)`; `pc` is an int, never `None`) -/
def atBreakpoint (bps : List (Option Int)) (s : St) : Bool := bps.contains (some s.pc)

/-- Exit test of the first loop (no breakpoint was ever added). -/
def stopPlain (stopcodes : List Int) (s : St) : Bool := atStopcode stopcodes s

/-- Exit test of the second loop: stop code first, then breakpoint. -/
def stopBp (stopcodes : List Int) (bps : List (Option Int)) (s : St) : Bool :=
  atStopcode stopcodes s || atBreakpoint bps s

/-- `self._breakpoints.index(pc)`: position of the first occurrence. -/
def indexOf (bps : List (Option Int)) (pc : Int) : Nat := bps.idxOf (some pc)

/-- The number printed by "Breakpoint %d reached." when the second loop ends in `s`, if it is
printed at all: only when the stop-code test failed and the breakpoint test succeeded. -/
def hitReport (stopcodes : List Int) (bps : List (Option Int)) (s : St) : Option Nat :=
  if atStopcode stopcodes s then none
  else if atBreakpoint bps s then some (indexOf bps s.pc)
  else none

structure RunRes where
  steps : Nat                 -- number of `mpu.step()` calls
  st : St                     -- the device afterwards
  hit : Option Nat            -- "Breakpoint <n> reached."

/-- `_run(stopcodes)` with `self._breakpoints = bps`. -/
def run (step : St → St) (stopcodes : List Int) (bps : List (Option Int)) (fuel : Nat) (s : St) :
    Option RunRes :=
  if bps.isEmpty then
    (runLoop step (stopPlain stopcodes) fuel s).map fun r => { steps := r.1, st := r.2, hit := none }
  else
    (runLoop step (stopBp stopcodes bps) fuel s).map fun r =>
      { steps := r.1, st := r.2, hit := hitReport stopcodes bps r.2 }

/-- `do_goto` with an address that parsed: `self._mpu.pc = a; self._run(stopcodes=[0x00])` -/
def goto (step : St → St) (bps : List (Option Int)) (fuel : Nat) (a : Int) (s : St) : Option RunRes :=
  run step [0x00] bps fuel { s with pc := a }

/-- `do_return`: `self._run(stopcodes=[0x60, 0x40])` -/
def ret (step : St → St) (bps : List (Option Int)) (fuel : Nat) (s : St) : Option RunRes :=
  run step [0x60, 0x40] bps fuel s

/-- `do_step`: `self._mpu.step()` (then a disassembly of the next instruction, which only reads). -/
def stepCmd (step : St → St) (s : St) : RunRes := { steps := 1, st := step s, hit := none }

/-! ### the breakpoint list -/

/-- What a breakpoint command printed. -/
inductive BpOut where
  | added (number : Nat) (address : Int)     -- "Breakpoint %d added at $%04X"
  | present (address : Int)                  -- "Breakpoint already present at $%04X"
  | removed (number : Nat)                   -- "Breakpoint %d removed"
  | already (number : Nat)                   -- "Breakpoint %d already removed"
  | typeError     -- `self._output("Invalid breakpoint number %d", number)`: two arguments → TypeError
  | indexError    -- `self._breakpoints[number]` with `number == len(self._breakpoints)`
  deriving DecidableEq, Repr

/-- `do_add_breakpoint` with an address that parsed:
```
if address in self._breakpoints: "already present"
else: self._breakpoints.append(address); report len(self._breakpoints) - 1
``` -/
def addBp (bps : List (Option Int)) (address : Int) : BpOut × List (Option Int) :=
  if bps.contains (some address) then (.present address, bps)
  else (.added bps.length address, bps ++ [some address])

/-- `do_delete_breakpoint` with an argument that `int()` accepts:
```
if number < 0 or number > len(self._breakpoints):
    self._output("Invalid breakpoint number %d", number)     # TypeError: _output takes one argument
    return
if self._breakpoints[number] is not None: …[number] = None; "removed"
else: "already removed"
```
The bound is off by one: `number == len` passes the test and `self._breakpoints[number]` raises
`IndexError`.  Both exceptions are caught by `onecmd`; the list is unchanged in either case. -/
def delBp (bps : List (Option Int)) (number : Int) : BpOut × List (Option Int) :=
  if number < 0 ∨ number > bps.length then (.typeError, bps)
  else
    match bps[number.toNat]? with
    | none => (.indexError, bps)
    | some (some _) => (.removed number.toNat, bps.set number.toNat none)
    | some none => (.already number.toNat, bps)

/-- `do_show_breakpoints`: `(i, address)` for every slot that is not `None`. -/
def showBps (bps : List (Option Int)) : List (Nat × Int) :=
  (bps.zipIdx).filterMap fun p => p.1.map fun a => (p.2, a)

/-- A breakpoint command with arguments that parsed. -/
inductive BpCmd where
  | add (address : Int)
  | del (number : Int)
  deriving DecidableEq, Repr

def applyBp (bps : List (Option Int)) : BpCmd → BpOut × List (Option Int)
  | .add a => addBp bps a
  | .del k => delBp bps k

/-- A whole history from the empty list: what was printed, in order, and the final list. -/
def runBps : List (Option Int) → List BpCmd → List BpOut × List (Option Int)
  | bps, [] => ([], bps)
  | bps, c :: rest =>
    let r := applyBp bps c
    let r2 := runBps r.2 rest
    (r.1 :: r2.1, r2.2)

end Py65.Model.MonRun
