/-
Hand-written model of the monitor commands `assemble` (one-line and interactive), `help`, `version`,
`cd`, `pwd` of `py65/monitor.py` (`Monitor.do_assemble`, `_interactive_assemble`, `do_help`, `do_version`,
`do_cd`, `do_pwd`).  DESIGN.md §3 C20 ("rejected commands change nothing") and what C07 / C19 need of
the `assemble` command.  No Mathlib.

Tied to the source by REGENERATION: `harness/py2lean_monasm.py` translates the six methods on every
run of C20 into `Py65/Gen/MonAsmGen.lean`, and `Py65/Proofs/MonAsmGenEq.lean` proves the generated
functions EQUAL to the definitions below, for all arguments, states and parameters.

What the model says, in words:

* `assemble <address> <statement>` (exactly two pieces of `args.split(None, 1)`): the address goes
  through the address parser, the statement through the assembler (parameter `asm`) AT that address;
  the bytes are stored by ONE SLICE STORE `memory[start:start+len] = bytes` on the ObservableMemory
  (`sliceStore`: `slice.indices(physMask + 1)` CLIPS the range to the physical size -- on the 65Org16
  a range at or above `$40000` stores nothing although item access would alias; inside the physical
  size it is the element-wise store, write subscribers included); then `disassemble $<start>` prints
  the instruction now in memory.  A `KeyError` / `OverflowError` / `SyntaxError` raised ANYWHERE in
  that sequence prints one line ("Label not found: …" = the exception's argument, "Overflow error:
  <args>", "Syntax error: <statement>") and the command ends normally; any other exception leaves
  the command (`Monitor.onecmd` prints the traceback).
* any other number of pieces: interactive assembly (`interactiveAssemble`): start at the PC (no
  argument) or at the parsed address (`KeyError` → its text, end; another exception leaves the
  command); then, per line typed (`iaLoop`): prompt; a blank line ends the session with a newline;
  otherwise assemble at the running address, slice store, show the instruction (`iat`, `fmtdis`),
  advance by the number of bytes and wrap to 0 at `2 ** ADDR_WIDTH` (`wrapTop`); the three
  exceptions print `?Label` / `?Overflow` / `?Syntax` and the address stays.
* `version`, `pwd`, `help`: print only; `cd`: `os.chdir`, an `OSError` is reported, then `pwd`.
-/
import Py65.Model.MonAsmRt

namespace Py65.Model.MonAsm
open Py65 Py65.Model.PyStr Py65.Model.ObsMem Py65.Model.AddrParser Py65.Model.MonMem Py65.Model.MonGenRt
open Py65.Model.ShowRt Py65.Model.MonAsmRt

/-- `self.stdout.write(x)` -/
def write (σ : AsmSt) (x : Str) : AsmSt := { σ with out := σ.out ++ [x] }

/-- `self._output(x)` = `self.stdout.write("%s\n" % x)` -/
def print (σ : AsmSt) (x : Str) : AsmSt := { σ with out := σ.out ++ [x ++ "\n".toList] }

/-! ### the slice store -/

/-- One bound of `slice(a, b).indices(physMask + 1)`: negative bounds count from the end, then
everything is clipped into `[0, physMask + 1]`. -/
def clip (m : OM) (x : Int) : Int := clampBound (m.physMask + 1) 0 (m.physMask + 1) x

/-- `memory[start:start + len(bytes)] = bytes` on the ObservableMemory (py65/memory.py
`__setitem__` with a slice): `for n, v in zip(range(*slice.indices(physMask + 1)), bytes): self[n] = v`. -/
def sliceStore (reply : Reply) (m : OM) (start : Int) (bytes : List Int) : OM :=
  setMany reply (pyRange (clip m start) (clip m (start + (bytes.length : Int))) 1) bytes m

/-! ### `assemble <address> <statement>` -/

/-- The three handlers of `do_assemble`. -/
def asmHandlers (args statement : Str) (e : AExc) (σ : AsmSt) : AFlow AsmSt Unit :=
  match e with
  | .KeyError t => .ok () (print σ t)
  | .OverflowError => .ok () (print σ ("Overflow error: ".toList ++ args))
  | .SyntaxError => .ok () (print σ ("Syntax error: ".toList ++ statement))
  | e => .raise e σ

/-- The handlers around a call made inside the `try` (here: `self.do_disassemble`). -/
def catchAsm (args statement : Str) : AFlow AsmSt Unit → AFlow AsmSt Unit
  | .raise e σ' => asmHandlers args statement e σ'
  | r => r

/-- `do_assemble(args)`; `interactive` = `self._interactive_assemble`. -/
def doAssemble (asm : Parser → Str → Int → Except AExc (List Int)) (dis : Str → AsmSt → AFlow AsmSt Unit)
    (interactive : Str → AsmSt → AFlow AsmSt Unit) (reply : Reply) (d : Dev) (args : Str) (σ : AsmSt) :
    AFlow AsmSt Unit :=
  match pySplitWs1 args with
  | [a, statement] =>
    match parseNumberA σ.parser a with
    | .error e => asmHandlers args statement e σ
    | .ok start =>
      match asm σ.parser statement start with
      | .error e => asmHandlers args statement e σ
      | .ok bytes =>
        catchAsm args statement
          (dis ("$".toList ++ pyFmtX d.addrFmtW start) { σ with memory := sliceStore reply σ.memory start bytes })
  | _ => interactive args σ

/-! ### interactive assembly -/

/-- `int(1 + self.byteWidth / 4) * 3` blanks: the width of the byte column of a disassembly line. -/
def promptPad (d : Dev) : Str := pyStrMul (pyStrMul " ".toList (1 + (d.BW : Int) / 4)) 3

/-- The prompt: carriage return, `$`, the address, three blanks and the (empty) byte column. -/
def prompt (d : Dev) (start : Int) : Str :=
  (("\r$".toList ++ pyFmtX d.addrFmtW start) ++ "   ".toList) ++ promptPad d

/-- `if start >= 2 ** ADDR_WIDTH: start = 0` -/
def wrapTop (d : Dev) (a : Int) : Int := if a ≥ (2 : Int) ^ d.AW then 0 else a

/-- What is written over the typed line: `"\r" + indent + "\r"`. -/
def eraseLine (pr line : Str) : Str :=
  ("\r".toList ++ pyStrMul " ".toList (((pr ++ line).length : Int) + 5)) ++ "\r".toList

/-- The rest of the `try` body once the line has assembled to `bytes`: slice store, show the
instruction now at `start`, advance (and wrap).  The value is the next address. -/
def iaAccept (iat : AsmSt → Int → Except AExc (Int × Str)) (fmtdis : AsmSt → Int → Int → Str → Except AExc Str)
    (reply : Reply) (d : Dev) (start : Int) (pr line : Str) (bytes : List Int) (σ : AsmSt) : AFlow AsmSt Int :=
  let σ1 : AsmSt := { σ with memory := sliceStore reply σ.memory start bytes }
  match iat σ1 start with
  | .error e => .raise e σ1
  | .ok r =>
    match fmtdis σ1 start (bytes.length : Int) r.2 with
    | .error e => .raise e σ1
    | .ok text =>
      .ok (wrapTop d (start + (bytes.length : Int))) (write (write σ1 (eraseLine pr line)) (text ++ "\n".toList))

/-- The three handlers of the loop: the text after `"\r$<address>  "`. -/
def iaMark : AExc → Option Str
  | .KeyError _ => some "?Label\n".toList
  | .OverflowError => some "?Overflow\n".toList
  | .SyntaxError => some "?Syntax\n".toList
  | _ => none

/-- The `try` body for one typed line: assemble at the running address, then `iaAccept`. -/
def iaTry (asm : Parser → Str → Int → Except AExc (List Int)) (iat : AsmSt → Int → Except AExc (Int × Str))
    (fmtdis : AsmSt → Int → Int → Str → Except AExc Str) (reply : Reply) (d : Dev) (start : Int) (pr line : Str)
    (σ : AsmSt) : AFlow AsmSt Int :=
  match asm σ.parser line start with
  | .error e => .raise e σ
  | .ok bytes => iaAccept iat fmtdis reply d start pr line bytes σ

/-- One typed, non-blank line at the running address: the next address and the state. -/
def iaLine (asm : Parser → Str → Int → Except AExc (List Int)) (iat : AsmSt → Int → Except AExc (Int × Str))
    (fmtdis : AsmSt → Int → Int → Str → Except AExc Str) (reply : Reply) (d : Dev) (start : Int) (pr line : Str)
    (σ : AsmSt) : AFlow AsmSt Int :=
  match iaTry asm iat fmtdis reply d start pr line σ with
  | .raise e σ' =>
    match iaMark e with
    | some mark => .ok start (write σ' ("\r$".toList ++ pyFmtX d.addrFmtW start ++ ' ' :: ' ' :: mark))
    | none => .raise e σ'
  | r => r

/-- The `while True:` loop: the value is the address when the blank line came. -/
def iaLoop (asm : Parser → Str → Int → Except AExc (List Int)) (iat : AsmSt → Int → Except AExc (Int × Str))
    (fmtdis : AsmSt → Int → Int → Str → Except AExc Str) (reply : Reply) (d : Dev) :
    Nat → Int → AsmSt → AFlow AsmSt Int
  | 0, _, _ => .nofuel
  | fuel + 1, start, σ =>
    match σ.inp with
    | [] => .nofuel
    | line :: rest =>
      let pr := prompt d start
      let σ : AsmSt := { σ with inp := rest, out := σ.out ++ [pr, line] }
      if MonCmd.pyStrip line = [] then .ok start (write σ "\n".toList)
      else (iaLine asm iat fmtdis reply d start pr line σ).bind fun a σ' => iaLoop asm iat fmtdis reply d fuel a σ'

/-- `_interactive_assemble(args)` -/
def interactiveAssemble (asm : Parser → Str → Int → Except AExc (List Int))
    (iat : AsmSt → Int → Except AExc (Int × Str)) (fmtdis : AsmSt → Int → Int → Str → Except AExc Str)
    (reply : Reply) (d : Dev) (fuel : Nat) (args : Str) (σ : AsmSt) : AFlow AsmSt Unit :=
  if args = [] then (iaLoop asm iat fmtdis reply d fuel σ.regs.pc σ).bind fun _ σ' => .ok () σ'
  else
    match parseNumberA σ.parser args with
    | .ok start => (iaLoop asm iat fmtdis reply d fuel start σ).bind fun _ σ' => .ok () σ'
    | .error (.KeyError t) => .ok () (print σ t)
    | .error e => .raise e σ

/-! ### the display commands -/

/-- `do_version` -/
def doVersion (σ : AsmSt) : AFlow AsmSt Unit := .ok () (print σ "\nPy65 Monitor".toList)

/-- `do_pwd` -/
def doPwd (σ : AsmSt) : AFlow AsmSt Unit := .ok () (print σ σ.cwd)

/-- `help_cd` -/
def helpCd (σ : AsmSt) : AsmSt := print (print σ "cd <directory>".toList) "Change the working directory.".toList

/-- `do_cd(args)` -/
def doCd (w : AWorld) (args : Str) (σ : AsmSt) : AFlow AsmSt Unit :=
  if args = [] then .ok () (helpCd σ)
  else
    match w.chdir σ.cwd args with
    | .ok nd => doPwd { σ with cwd := nd }
    | .error (.OSError errno strerror) =>
      doPwd (print σ ("Cannot change directory: [".toList ++ pyFmtD errno ++ "] ".toList ++ strerror))
    | .error e => .raise e σ

/-- `do_help(args)`: a shortcut is replaced by its command, then `cmd.Cmd.do_help`. -/
def doHelp (cmdhelp : Str → AsmSt → AFlow AsmSt Unit) (args : Str) (σ : AsmSt) : AFlow AsmSt Unit :=
  cmdhelp (pyDictGetD MonCmd.shortcuts (MonCmd.pyStrip args) args) σ

end Py65.Model.MonAsm
