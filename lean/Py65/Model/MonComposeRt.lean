/-
State adapters for the COMPOSITION of the regenerated monitor commands (`Py65/Proofs/MonCompose.lean`,
`Py65/Props/C20h.lean`).  Hand-written glue; no Mathlib; imports NO generated file.

The units that regenerate the monitor's commands each have their own state record -- the slice of the
`Monitor` object the unit's methods can touch:

* `MonCmdRt.CmdSt`  (unit `cmds`: dispatcher, registers / radix / width / labels): the session `Core`
  of `Model/MonCmd.lean` (device, registers, memory cells, labels, breakpoints, radix, width), `lastcmd`, `out`;
* `MonMemRt.MemSt`  (unit `memcmd`: `do_fill / do_load / do_save / do_mem`): the ObservableMemory object,
  `self._mpu.pc`, `self._width`, `out`, the files written;
* `MonGenRt.RunSt`  (unit `run`: `do_step / do_goto / do_return`, the breakpoint commands): the device
  state `St`, `self._breakpoints`, `out`;
* `ShowRt.ShowSt`   (unit `show`: `do_cycles / do_tilde / do_disassemble`): the device state `St`, `out`;
* `MonIORt.IoSt`    (unit `io`: `do_reset / do_mpu`): the monitor's attributes as objects with identities.

`Monitor.onecmd` (generated over `CmdSt`) reaches the commands of the other units through its parameter
`oth : Str → Str → CmdSt → Flow CmdSt PyRet`.  To plug a generated command of another unit in, its state
is BUILT from the session core (`…StOf`), the command is run, and the core is READ BACK from the state
the command ended in (`coreOf…`).  What each field maps to:

| unit state field            | built from the core `c`                                  | read back into the core            |
|-----------------------------|----------------------------------------------------------|------------------------------------|
| `MemSt.memory`              | `G.omOf c` (any object whose cells are `c.mem`: `GlueOK`)  | `mem := memory.subject` (the cells)|
| `MemSt.pc / width`          | `c.regs.pc`, `c.width`                                   | not read back (the unit only reads them) |
| `MemSt.files`               | `[]`                                                     | dropped (the core has no file system) |
| `RunSt.mpu`, `ShowSt.mpu`   | `stOf c`: the six registers, `mem := c.mem`; `cycles = excycles = addcycles = 0`, `waiting = false`, empty access log (the core does not have these) | `regs := regsOfSt mpu`, `mem := mpu.mem` |
| `RunSt.breakpoints`         | `c.breakpoints`                                          | `breakpoints := …`                 |
| `IoSt.mpu_type`, `_mpu.cls` | `clsOf c.dev`                                            | `dev := devOfCls _mpu.cls`         |
| `IoSt.memory`               | `none` (`Monitor(memory=None)`: ASSUMPTION of C20)       | --                                 |
| `IoSt.putc_addr / getc_addr`| `G.putc`, `G.getc`                                       | --                                 |
| `IoSt._mpu`                 | object 0 of class `clsOf c.dev` with memory `.obs (G.omOf c)` | `mem` := the cells of its memory object; `regs` := `c.regs` if it is still object 0, else the registers of a NEW device (`resetRegs`: the constructor resets) |
| `IoSt._address_parser`      | object 1, `maxwidth` = the address width                 | `labels`, `radix` := `c`'s if it is still object 1, else `[]`, `16` (a NEW `AddressParser`) |
| `IoSt.addrWidth … byteMask` | the class attributes                                     | --                                 |
| `IoSt.stdin / stdout`       | empty                                                    | --                                 |
| `out` (every unit)          | `[]`                                                     | APPENDED to the session's `out`    |

Every unit command is run with an EMPTY output list and what it printed is appended to the session's
output.  The value every such command returns to `onecmd` is `None` (none of them has a `return <value>`).
Exceptions keep their class where `MonGenRt.Exc` has it, everything else is `Exc.Other` (the class only
reaches the uninterpreted traceback text `tb`).

The verdicts of the commands behind `MonCmd.Ext` (what "REJECTED" means for them) are defined here from
what the generated command DID (`fillVerdict`, `gotoVerdict`, `runVerdict`), see below.
-/
import Py65.Model.MonCmdRt
import Py65.Model.MonMemRt
import Py65.Model.ShowRt
import Py65.Model.MonIORt

namespace Py65.Model.MonComposeRt
open Py65 Py65.Model.PyStr Py65.Model.ObsMem Py65.Model.AddrParser Py65.Model.MonCmd Py65.Model.MonGenRt
open Py65.Model.MonCmdRt Py65.Model.MonMemRt Py65.Model.ShowRt

/-! ### devices -/

/-- The attributes `_reset` copies from the device (`MonMem.Dev`) for a session device. -/
def memDev : MonCmd.Dev → MonMem.Dev
  | .d65org16 => MonMem.dev16
  | _ => MonMem.dev8

/-- The device class of a session device. -/
def clsOf : MonCmd.Dev → MonIORt.MpuCls
  | .d6502 => .mpu6502
  | .d65c02 => .mpu65c02
  | .d65org16 => .mpu65org16

/-- The session device of a device class. -/
def devOfCls : MonIORt.MpuCls → MonCmd.Dev
  | .mpu6502 => .d6502
  | .mpu65c02 => .d65c02
  | .mpu65org16 => .d65org16

/-! ### the device state -/

/-- The device object of the units `run` / `show` built from the session core: registers and cells;
the counters, the WAI flag and the access log are not part of the core. -/
def stOf (c : Core) : St :=
  { a := c.regs.a, x := c.regs.x, y := c.regs.y, sp := c.regs.sp, p := c.regs.p, pc := c.regs.pc,
    excycles := 0, addcycles := 0, cycles := 0, waiting := false, mem := c.mem, log := [] }

/-- The six registers of a device state. -/
def regsOfSt (s : St) : Regs := { a := s.a, x := s.x, y := s.y, sp := s.sp, p := s.p, pc := s.pc }

/-! ### glue parameters -/

/-- What the composition needs to know about the monitor OBJECT that the session core does not say:
how the ObservableMemory object around the cells looks (subscribers), what its callbacks answer, and the
two configured I/O addresses. -/
structure Glue where
  reply : Reply
  omOf : Core → OM
  getc : Option Int
  putc : Option Int

/-- The memory object is an object AROUND the session's cells. -/
def GlueOK (G : Glue) : Prop := ∀ c : Core, (G.omOf c).subject = c.mem

/-! ### unit `memcmd` -/

def memStOf (G : Glue) (c : Core) : MemSt :=
  { memory := G.omOf c, pc := c.regs.pc, width := c.width, out := [], files := [] }

def coreOfMem (c : Core) (s : MemSt) : Core := { c with mem := s.memory.subject }

/-- The class of an exception with arguments, as far as `MonGenRt.Exc` has it. -/
def excOfP : PExc → Exc
  | .IndexError => .IndexError
  | .TypeError => .TypeError
  | .ValueError => .ValueError
  | .KeyError _ => .KeyError
  | .OverflowError _ => .OverflowError
  | _ => .Other

/-- A command of unit `memcmd` as a command of the dispatcher. -/
def liftMem (c : Core) (σ : CmdSt) : MFlow MemSt Unit → Flow CmdSt PyRet
  | .ok _ s => .ok none { σ with core := coreOfMem c s, out := σ.out ++ s.out }
  | .raise e s => .raise (excOfP e) { σ with core := coreOfMem c s, out := σ.out ++ s.out }
  | .nofuel => .nofuel

/-! ### units `run` and `show` -/

def runStOf (c : Core) : RunSt := { mpu := stOf c, breakpoints := c.breakpoints, out := [] }

def coreOfRun (c : Core) (s : RunSt) : Core :=
  { c with regs := regsOfSt s.mpu, mem := s.mpu.mem, breakpoints := s.breakpoints }

/-- A command of unit `run` as a command of the dispatcher. -/
def liftRun (c : Core) (σ : CmdSt) : Flow RunSt Unit → Flow CmdSt PyRet
  | .ok _ s => .ok none { σ with core := coreOfRun c s, out := σ.out ++ s.out }
  | .raise e s => .raise e { σ with core := coreOfRun c s, out := σ.out ++ s.out }
  | .nofuel => .nofuel

def showStOf (c : Core) : ShowSt := { mpu := stOf c, out := [] }

def coreOfShow (c : Core) (s : ShowSt) : Core := { c with regs := regsOfSt s.mpu, mem := s.mpu.mem }

/-- A command of unit `show` as a command of the dispatcher. -/
def liftShow (c : Core) (σ : CmdSt) : Flow ShowSt Unit → Flow CmdSt PyRet
  | .ok _ s => .ok none { σ with core := coreOfShow c s, out := σ.out ++ s.out }
  | .raise e s => .raise e { σ with core := coreOfShow c s, out := σ.out ++ s.out }
  | .nofuel => .nofuel

/-! ### unit `io` -/

def ioStOf (G : Glue) (c : Core) : MonIORt.IoSt :=
  let cls := clsOf c.dev
  { mpu_type := cls, memory := none, putc_addr := G.putc, getc_addr := G.getc,
    _mpu := { id := 0, cls := cls, memory := .obs (G.omOf c) },
    addrWidth := cls.ADDR_WIDTH, byteWidth := cls.BYTE_WIDTH, addrFmt := cls.ADDR_FORMAT, byteFmt := cls.BYTE_FORMAT,
    addrMask := cls.addrMask, byteMask := cls.byteMask,
    _address_parser := { id := 1, maxwidth := cls.ADDR_WIDTH },
    _disassembler := { id := 2, mpu := 0, parser := 1 }, _assembler := { id := 3, mpu := 0, parser := 1 },
    stdin := [], stdout := { written := [], flushed := 0 }, out := [], nextId := 4 }

/-- The cells of a device's memory object. -/
def cellsOfMemObj : MonIORt.MemObj → (Int → Int)
  | .plain cells => cells
  | .obs m => m.subject

def coreOfIo (c : Core) (s : MonIORt.IoSt) : Core :=
  let d := devOfCls s._mpu.cls
  { c with
    dev := d,
    regs := if s._mpu.id = 0 then c.regs else resetRegs d,
    mem := cellsOfMemObj s._mpu.memory,
    labels := if s._address_parser.id = 1 then c.labels else [],
    radix := if s._address_parser.id = 1 then c.radix else 16 }

/-- The class of an exception of unit `io`, as far as `MonGenRt.Exc` has it. -/
def excOfIo : MonIORt.Exc → Exc
  | .IndexError => .IndexError
  | .TypeError => .TypeError
  | .ValueError => .ValueError
  | .KeyError => .KeyError
  | _ => .Other

/-- A command of unit `io` as a command of the dispatcher. -/
def liftIo (c : Core) (σ : CmdSt) : MonIORt.Flow MonIORt.IoSt Unit → Flow CmdSt PyRet
  | .ok _ s => .ok none { σ with core := coreOfIo c s, out := σ.out ++ s.out }
  | .raise e s => .raise (excOfIo e) { σ with core := coreOfIo c s, out := σ.out ++ s.out }
  | .nofuel => .nofuel

/-! ### what REJECTED means for the commands behind `MonCmd.Ext`

`fill`, `load`: the command is ACCEPTED exactly when it ended normally and the last line it printed is the
report `Wrote +<n> bytes from $<a> to $<b>`; every other end is a refusal: an exception that leaves the
method (`ValueError` of `shlex.split`, the parser's exception for `load`'s address, the `IndexError` of an
empty filler) or any other printed text (`Overflow: $…`, `Label not found: …`, `Syntax error: …`,
`Cannot load file: …`, `Cannot fetch remote file: …`, the usage text).
`goto`: refused when an exception leaves the method (the address parser's) or the argument is empty (usage
text).  `step`, `return`: refused when an exception leaves the method (it never does).
A command that does not end within the fuel is not judged (`ok`, core as it was): the model's verdict says
nothing about it. -/

/-- The reason recorded for an exception that leaves a command. -/
def rejectOfExc : Exc → Reject
  | .KeyError => .label
  | .OverflowError => .overflow
  | _ => .raised

/-- `line.startswith("Wrote +")` -/
def isWrote (l : Str) : Bool := startsWith l "Wrote +".toList

/-- The reason recorded for a printed refusal. -/
def rejectOfLines (ls : List Str) : Reject :=
  match ls.getLast? with
  | some l =>
    if startsWith l "Overflow".toList then .overflow
    else if startsWith l "Syntax error".toList then .syntaxErr
    else if startsWith l "Label not found".toList then .label
    else .usage
  | none => .usage

/-- Whether the lines a command printed end with the report "Wrote +…". -/
def endsWrote (ls : List Str) : Bool :=
  match ls.getLast? with
  | some l => isWrote l
  | none => false

def fillVerdict : MFlow MemSt Unit → Verdict
  | .ok _ s => if endsWrote s.out = true then .ok else .rejected (rejectOfLines s.out)
  | .raise e _ => .rejected (rejectOfExc (excOfP e))
  | .nofuel => .ok

def gotoVerdict (arg : Str) : Flow RunSt Unit → Verdict
  | .ok _ _ => if arg = [] then .rejected .usage else .ok
  | .raise e _ => .rejected (rejectOfExc e)
  | .nofuel => .ok

def runVerdict : Flow RunSt Unit → Verdict
  | .raise e _ => .rejected (rejectOfExc e)
  | _ => .ok

/-- Registers and cells after a command of unit `memcmd` (a command out of fuel is not judged). -/
def memAfter (c : Core) : MFlow MemSt Unit → Regs × (Int → Int)
  | .ok _ s => (c.regs, s.memory.subject)
  | .raise _ s => (c.regs, s.memory.subject)
  | .nofuel => (c.regs, c.mem)

/-- Registers and cells after a command of unit `run`. -/
def runAfter (c : Core) : Flow RunSt Unit → Regs × (Int → Int)
  | .ok _ s => (regsOfSt s.mpu, s.mpu.mem)
  | .raise _ s => (regsOfSt s.mpu, s.mpu.mem)
  | .nofuel => (c.regs, c.mem)

end Py65.Model.MonComposeRt
