/-
Hand-written run-time library of the GENERATED disassembler model (`Py65/Gen/DisasmGen.lean`,
produced by `harness/py2lean_dis.py` from `py65/disassembler.py`, `py65/utils/conversions.py` and
`AddressParser.label_for`).  The translator turns Python statements, operators, constants and
control flow into Lean text itself; what it cannot compute from the AST is LIBRARY behaviour of
CPython, and each such building block is one named function here (or in `Model/PyStr.lean` /
`Model/Asm.lean`).  These are modelled, not verified:

* exceptions: `Except PyErr`; `Unmodelled w` marks an input outside the modelled domain of a library
  call (never an approximation of a Python result);
* `l[i]` on a list (`listGet`): `IndexError` outside `-len … len-1`, negative indices count from
  the end;
* `d.get(k)` on a dict literal (`dictGet`): first (= only) entry with that key, else `None`;
* `fmt % n` for a format string that is a run-time value (`pctInt`, the device constants
  `ADDR_FORMAT` / `BYTE_FORMAT`): the formats `"%0<w>x"` through `Asm.pctFmt`; as in the hand model
  the argument is taken `toNat` (cells and addresses are never negative; CPython would print a sign);
* `fmt.format(n)` for the three format strings of `_itoa_fmts` (`strFormat1`);
* `fmt % s` for a run-time format string `"%-<w>s"` applied to a str (`pctStr`: left-justify, never truncates);
* `a / b` (true division by a positive literal), `n + <float>`, `int(<float>)`: floats that are exact small
  rationals, kept as fractions (`PyFrac`; exact while numerator and denominator stay below 2^53);
* `mpu.memory[a]` is a total function `Int → Int` (as in `Py65/Machine.lean`; range discipline is C05's job);
* `'%r' % x` for an int (`pyReprInt`) and for a str without quote, backslash or non-printable
  characters (`pyReprStr`) -- used only for exception messages.

Imports no Mathlib and nothing generated except (through `Model.Asm`) the device tables.
-/
import Py65.Model.Asm

namespace Py65.Model.GenRt
open Py65.Model.PyStr Py65.Model.AddrParser

inductive PyErr where
  | IndexError
  | NotImplementedError (msg : Str)
  | ValueError (msg : Str)
  | Unmodelled (what : String)
  deriving DecidableEq, Repr

/-- A Python computation that returns a value or raises. -/
abbrev PyM (α : Type) := Except PyErr α

/-- `l[i]` -/
def listGet {α : Type} (l : List α) (i : Int) : PyM α :=
  let j : Int := if i < 0 then i + (l.length : Int) else i
  if j < 0 then .error .IndexError
  else match l[j.toNat]? with
    | some v => .ok v
    | none => .error .IndexError

/-- `d.get(k)` for a dict given by its items (unique keys). -/
def dictGet {κ β : Type} [DecidableEq κ] : List (κ × β) → κ → Option β
  | [], _ => none
  | (k, v) :: rest, x => if k = x then some v else dictGet rest x

/-- `fmt % n`, `fmt` a run-time string of the form `"%0<w>x"`. -/
def pctInt (fmt : Str) (n : Int) : PyM Str :=
  match Py65.Model.Asm.pctFmt fmt n.toNat with
  | some t => .ok t
  | none => .error (.Unmodelled "format")

/-- sign and digits of an int in base `b` -/
def intDigits (b : Nat) (n : Int) : Str :=
  if n < 0 then '-' :: toDigits b (-n).toNat else toDigits b n.toNat

/-- `fmt.format(n)` for `"{0:b}"`, `"{0}"`, `"{0:x}"` (`"{0}"`: below CPython's 4300-digit limit). -/
def strFormat1 (fmt : Str) (n : Int) : PyM Str :=
  if fmt = "{0:b}".toList then .ok (intDigits 2 n)
  else if fmt = "{0}".toList then .ok (intDigits 10 n)
  else if fmt = "{0:x}".toList then .ok (intDigits 16 n)
  else .error (.Unmodelled "str.format")

/-- `fmt % s`, `fmt` a run-time string of the form `"%-<w>s"` -/
def pctStr (fmt : Str) (s : Str) : PyM Str :=
  match fmt with
  | '%' :: '-' :: r =>
    let ds := r.takeWhile isDigit
    if ds ≠ [] ∧ r.dropWhile isDigit = ['s'] then
      .ok (s ++ List.replicate (Py65.Model.Asm.decVal ds - s.length) ' ')
    else .error (.Unmodelled "format")
  | _ => .error (.Unmodelled "format")

/-- a Python float that is an exact rational `num / den` with `den > 0` -/
structure PyFrac where
  num : Int
  den : Int
  deriving DecidableEq, Repr

/-- `a / b` for a positive literal `b` -/
def fracOfDiv (a b : Int) : PyFrac := ⟨a, b⟩
/-- `n + x` / `x + n` -/
def fracAddInt (n : Int) (x : PyFrac) : PyFrac := ⟨n * x.den + x.num, x.den⟩
/-- `int(x)`: truncation toward zero -/
def fracToInt (x : PyFrac) : Int := Int.tdiv x.num x.den

/-- `'%r' % n` (`repr` of an int) -/
def pyReprInt (n : Int) : Str := intDigits 10 n

/-- `'%r' % s` (`repr` of a str without quotes, backslashes or non-printable characters) -/
def pyReprStr (s : Str) : Str := '\'' :: (s ++ ['\''])

/-- `str(n)` / `'%s' % n` / `'%d' % n` -/
def pyStrInt (n : Int) : Str := intDigits 10 n

end Py65.Model.GenRt
