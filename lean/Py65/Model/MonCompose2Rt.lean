/-
State adapter `AsmSt <-> CmdSt / Core` for plugging the commands of unit `asmc` (`do_assemble` with
`_interactive_assemble`, `do_help`, `do_version`, `do_cd`, `do_pwd`: `Gen/MonAsmGen.lean`, state record
`MonAsmRt.AsmSt`) into the composed dispatcher (`Proofs/MonCompose2.lean`, `Props/C20i.lean`).  Same style as
`Model/MonComposeRt.lean`; hand-written glue; no Mathlib; imports NO generated file.

| `AsmSt` field   | built from the session core `c`                                        | read back into the core           |
|-----------------|------------------------------------------------------------------------|-----------------------------------|
| `memory`        | `G.omOf c` (any object around the cells `c.mem`: `GlueOK`)             | `mem := memory.subject`           |
| `regs`          | `c.regs`                                                               | `regs := regs`                    |
| `parser`        | `c.parser` (width of the device, `c.radix`, `c.labels`)                | `labels`, `radix` := the parser's |
| `breakpoints`   | `c.breakpoints`                                                        | `breakpoints := …`                |
| `width`         | `c.width`                                                              | `width := …`                      |
| `out`           | `[]`                                                                   | APPENDED to the session's `out`   |
| `inp`           | `I.lines c arg`: the INPUT ORACLE = the lines that will be typed on stdin while the command `arg` runs in core `c` | what is left is dropped |
| `cwd`           | `I.cwd c` (the core has no working directory)                          | dropped                           |

EVERY field of `AsmSt` that the session core has is read back (nothing is "unchanged by construction of the
adapter" here; that labels, radix, breakpoints, width and the registers survive `assemble` is PROVED in
`Proofs/MonCompose2.lean`).  The device `c.dev` is not in `AsmSt` (no method of the unit can replace `self._mpu`: a
store outside the unit's attribute table is a translator refusal).  The value returned to `onecmd` is `None`.

An interactive session that runs out of typed lines: `console.line_input` on an exhausted stdin does not return
(`getch` polls for ever); the generated loop answers `AFlow.nofuel`, the adapter hands that on as `Flow.nofuel`
(NOT as a return), the verdict function does not look at the run at all, and `asmAfter` reports the core as it
was.  So such a command is never "a refused command that returned" -- it is a command that does not return, about
which `rejected_unchanged_fully_composed` says what it says about `goto` on a program without BRK: if the MODEL
refuses the line (start address not parsable), the generated command is proved to END (no prompt is ever shown);
otherwise the line is not refused and the theorem does not apply.

What REJECTED means for `assemble` (`asmVerdict`, a function of the address parser and the assembler only):
* `assemble <address> <statement>` (two pieces of `split(None, 1)`): refused ⇔ `number(<address>)` raises, or it
  gives `start` and `assemble(<statement>, start)` raises -- ANY exception class (`KeyError` = `.label`,
  `OverflowError` = `.overflow`, `SyntaxError` = `.syntaxErr`, others `.raised`);
* interactive (`assemble`, `assemble <address>`): refused ⇔ the argument is non-empty and `number(<address>)`
  raises.  A session that was started is ACCEPTED whatever happens to its lines (a refused LINE of a session
  stores nothing -- `C20a.interactive_assemble_refused` -- but the session is not a refused command).
-/
import Py65.Model.MonComposeRt
import Py65.Model.MonAsmRt

namespace Py65.Model.MonCompose2Rt
open Py65 Py65.Model.PyStr Py65.Model.ObsMem Py65.Model.AddrParser Py65.Model.MonCmd Py65.Model.MonGenRt
open Py65.Model.MonCmdRt Py65.Model.MonComposeRt Py65.Model.MonAsmRt

/-- What the session core does not say about the process: the lines that will be typed while a command runs
(the INPUT ORACLE of interactive assembly) and the working directory. -/
structure Inputs where
  lines : Core → Str → List Str
  cwd : Core → Str

/-- The state of unit `asmc` built from the session core, for the command argument `arg`. -/
def asmStOf (G : Glue) (I : Inputs) (c : Core) (arg : Str) : AsmSt :=
  { memory := G.omOf c, regs := c.regs, parser := c.parser, breakpoints := c.breakpoints, width := c.width,
    out := [], inp := I.lines c arg, cwd := I.cwd c }

/-- The session core read back from a state of unit `asmc`: every field the core has. -/
def coreOfAsm (c : Core) (s : AsmSt) : Core :=
  { c with regs := s.regs, mem := s.memory.subject, labels := s.parser.labels, radix := s.parser.radix,
           breakpoints := s.breakpoints, width := s.width }

/-- The class of an exception of unit `asmc`, as far as `MonGenRt.Exc` has it. -/
def excOfA : AExc → Exc
  | .IndexError => .IndexError
  | .TypeError => .TypeError
  | .ValueError => .ValueError
  | .KeyError _ => .KeyError
  | .OverflowError => .OverflowError
  | _ => .Other

/-- An exception of the units `show` / `run` seen from unit `asmc` (`kt` = `exc.args[0]` of a `KeyError`). -/
def aexcOf (kt : Str) : Exc → AExc
  | .IndexError => .IndexError
  | .TypeError => .TypeError
  | .ValueError => .ValueError
  | .KeyError => .KeyError kt
  | .OverflowError => .OverflowError
  | .Other => .Other

/-- A command of unit `asmc` as a command of the dispatcher. -/
def liftAsm (c : Core) (σ : CmdSt) : AFlow AsmSt Unit → Flow CmdSt PyRet
  | .ok _ s => .ok none { σ with core := coreOfAsm c s, out := σ.out ++ s.out }
  | .raise e s => .raise (excOfA e) { σ with core := coreOfAsm c s, out := σ.out ++ s.out }
  | .nofuel => .nofuel

/-- `self.do_disassemble(arg)` called from `do_assemble`: a command of unit `show` (run on the `ShowSt` built
from the core the `AsmSt` denotes) seen from unit `asmc`.  Only what it printed comes back: the device object of
the `ShowSt` is not read back (`C20i.disassemble_inside_assemble_kept`: it is unchanged at every end). -/
def liftShowA (kt : Str) (σ : AsmSt) : Flow ShowRt.ShowSt Unit → AFlow AsmSt Unit
  | .ok _ s => .ok () { σ with out := σ.out ++ s.out }
  | .raise e s => .raise (aexcOf kt e) { σ with out := σ.out ++ s.out }
  | .nofuel => .nofuel

/-- The reason recorded for an exception of the address parser / the assembler. -/
def rejectOfA : AExc → Reject
  | .KeyError _ => .label
  | .OverflowError => .overflow
  | .SyntaxError => .syntaxErr
  | _ => .raised

/-- The verdict of `assemble <arg>` in core `c` (see the header): a function of the address parser and the
assembler `asm` only. -/
def asmVerdict (asm : Parser → Str → Int → Except AExc (List Int)) (c : Core) (arg : Str) : Verdict :=
  match pySplitWs1 arg with
  | [a, statement] =>
    match parseNumberA c.parser a with
    | .error e => .rejected (rejectOfA e)
    | .ok start =>
      match asm c.parser statement start with
      | .error e => .rejected (rejectOfA e)
      | .ok _ => .ok
  | _ =>
    if arg = [] then .ok
    else
      match parseNumberA c.parser arg with
      | .error e => .rejected (rejectOfA e)
      | .ok _ => .ok

/-- Registers and cells after a command of unit `asmc` (a command that does not return is not judged). -/
def asmAfter (c : Core) : AFlow AsmSt Unit → Regs × (Int → Int)
  | .ok _ s => (s.regs, s.memory.subject)
  | .raise _ s => (s.regs, s.memory.subject)
  | .nofuel => (c.regs, c.mem)

end Py65.Model.MonCompose2Rt
