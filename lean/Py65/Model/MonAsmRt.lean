/-
Run-time vocabulary of the GENERATED module `Py65/Gen/MonAsmGen.lean` (produced by
`harness/py2lean_monasm.py` from `Monitor.do_assemble`, `_interactive_assemble`, `do_help`, `do_version`,
`do_cd`, `do_pwd` and their `help_*` methods of `/repo/py65/monitor.py` on every run of C20).
Hand-written; no Mathlib.  Extends `Py65/Model/MonGenRt.lean`, `MonCmdRt.lean`, `ShowRt.lean`.

Everything here is LIBRARY / OS behaviour, "modelled, not verified":

* exceptions (`AExc`): the classes the six commands name in a handler or can let through
  (`KeyError` with its `args[0]`, `OverflowError`, `SyntaxError`, `OSError(errno, strerror)`, ...);
  `AFlow` is `MonGenRt.Flow` over these exceptions.  `.nofuel` = the call does not return: a `while`
  loop out of fuel, or `console.line_input` on an exhausted stdin (`getch` polls for ever);
* the part of the monitor the commands can reach (`AsmSt`): the memory object (`ObservableMemory`
  model), the registers (only `pc` is read), the address parser (radix, labels: read by `number()`
  and by the assembler), breakpoints and width (never touched: they are there so that the property
  theorems can SAY so), everything written to `self.stdout` (one entry per `write` call, verbatim;
  `self._output(x)` writes `x + "\n"`), the lines still to come on `self.stdin`, the process's
  working directory;
* `args.split(None, 1)` (`pySplitWs1`), `dict.get(k, default)` on the shortcut table (`pyDictGetD`),
  `console.line_input(prompt, stdin=..., stdout=...)` (`pyLineInput`: writes the prompt, returns the next
  typed line and echoes it; editing keys are not modelled), `os.chdir` / `os.getcwd` (`AWorld.chdir`,
  `AsmSt.cwd`), `int(1 + self.byteWidth / 4)` (true division: `GenRt.PyFrac`), `str * int`
  (`ShowRt.pyStrMul`), the ObservableMemory SLICE store (`ObsMem.setSlice`, C10).

What is NOT library but other translated code enters the generated functions as PARAMETERS:
  `asm`     `self._assembler.assemble(statement, pc)` (generated in `Gen/AsmGen.lean`, C07),
  `iat`     `self._disassembler.instruction_at` (generated in `Gen/DisasmGen.lean`, C09),
  `fmtdis`  `self._format_disassembly` (generated in `Gen/DisasmGen.lean`, C19),
  `dis`     `self.do_disassemble` (generated in `Gen/MonShowGen.lean`, C19),
  `cmdhelp` `cmd.Cmd.do_help(self, arg)` of the standard library (NOT translated: `dir()`, `getattr` of
            every `help_*` method, `columnize`); it returns `None` on every path.
`Py65/Props/C20a.lean` instantiates `asm` with the generated assembler.
-/
import Py65.Model.MonCmdRt
import Py65.Model.ShowRt
import Py65.Model.GenRt

namespace Py65.Model.MonAsmRt
open Py65 Py65.Model.PyStr Py65.Model.ObsMem Py65.Model.AddrParser Py65.Model.MonMem Py65.Model.MonGenRt

/-- The exceptions the translated commands can meet. -/
inductive AExc where
  | IndexError | TypeError | ValueError | SyntaxError | OverflowError
  | KeyError (arg : Str)                      -- `exc.args[0]`: "Label not found: …"
  | OSError (errno : Int) (strerror : Str)
  | Other
  deriving DecidableEq, Repr

/-- How a translated command / loop / `try` body ends (`MonGenRt.Flow` with `AExc`). -/
inductive AFlow (σ : Type) (α : Type) where
  | ok (v : α) (s : σ)
  | raise (e : AExc) (s : σ)
  | nofuel

def AFlow.bind {σ α β : Type} (x : AFlow σ α) (f : α → σ → AFlow σ β) : AFlow σ β :=
  match x with
  | .ok v s => f v s
  | .raise e s => .raise e s
  | .nofuel => .nofuel

@[simp] theorem AFlow.bind_ok {σ α β : Type} (v : α) (s : σ) (f : α → σ → AFlow σ β) :
    (AFlow.ok v s).bind f = f v s := rfl
@[simp] theorem AFlow.bind_raise {σ α β : Type} (e : AExc) (s : σ) (f : α → σ → AFlow σ β) :
    (AFlow.raise e s : AFlow σ α).bind f = .raise e s := rfl
@[simp] theorem AFlow.bind_nofuel {σ α β : Type} (f : α → σ → AFlow σ β) :
    (AFlow.nofuel : AFlow σ α).bind f = .nofuel := rfl

/-- What `do_assemble`, `_interactive_assemble`, `do_help`, `do_version`, `do_cd`, `do_pwd` can reach. -/
structure AsmSt where
  memory : OM                        -- `self._mpu.memory`
  regs : MonCmd.Regs                 -- `self._mpu`'s registers (only `pc` is read)
  parser : Parser                    -- `self._address_parser` (radix, labels; only read)
  breakpoints : List (Option Int)    -- `self._breakpoints` (never touched)
  width : Int                        -- `self._width` (never touched)
  out : List Str                     -- the arguments of `self.stdout.write(...)`, oldest first
  inp : List Str                     -- the lines still to be typed on `self.stdin`
  cwd : Str                          -- the working directory of the process

/-- The world outside the monitor as far as `cd` goes: `os.chdir(path)` in the working directory
`cwd` gives the new working directory, or raises (`OSError(errno, strerror)`, `ValueError` for an
embedded NUL, ...). -/
structure AWorld where
  chdir : Str → Str → Except AExc Str

/-- `os.chdir(path)`; the value is the new working directory. -/
def pyChdir (w : AWorld) (cwd path : Str) : Except AExc Str := w.chdir cwd path

/-! ### the address parser with the argument of its `KeyError` -/

/-- `self._address_parser.number(s)` -/
def parseNumberA (P : Parser) (s : Str) : Except AExc Int :=
  match numberL P s with
  | .ok v => .ok v
  | .key => .error (.KeyError (MonCmdRt.keyErrorArg0 P s))
  | .overflow => .error .OverflowError
  | .other => .error .Other

/-! ### strings and tables -/

/-- `s.split(None, 1)`: at most two pieces; leading white space is dropped, the second piece keeps
its trailing white space; no empty piece. -/
def pySplitWs1 (s : Str) : List Str :=
  match s.dropWhile isReSpace with
  | [] => []
  | t =>
    let word := t.takeWhile fun c => !isReSpace c
    let rest := (t.dropWhile fun c => !isReSpace c).dropWhile isReSpace
    if rest = [] then [word] else [word, rest]

/-- `d.get(k, default)` for a `str: str` dict. -/
def pyDictGetD (d : List (Str × Str)) (k dflt : Str) : Str :=
  match d.find? (fun kv => kv.1 = k) with
  | some kv => kv.2
  | none => dflt

/-- `console.line_input(prompt, stdin=self.stdin, stdout=self.stdout)`: writes the prompt, reads
characters up to the end of the line, echoing them; returns the line (without the line end).
`none` = stdin is exhausted: `getch` polls for ever, the call does not return. -/
def pyLineInput (prompt : Str) (σ : AsmSt) : Option (Str × AsmSt) :=
  match σ.inp with
  | [] => none
  | line :: rest => some (line, { σ with inp := rest, out := σ.out ++ [prompt, line] })

end Py65.Model.MonAsmRt
