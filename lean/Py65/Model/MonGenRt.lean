/-
Run-time vocabulary of the GENERATED monitor modules `Py65/Gen/MonFillGen.lean`,
`MonRunGen.lean`, `MonPreGen.lean` (produced by `harness/py2lean_mon.py` from
`/repo/py65/monitor.py` on every run of C16 / C17 / C20).  Hand-written; no Mathlib.

The translator emits, statement by statement, a shallow embedding of the Python method bodies.
Everything that is LIBRARY behaviour (not the monitor's own code) is a named helper, either from
the existing hand models (`ObsMem.set`, `AddrParser.numberL / labelFor`, `MonCmd.shlexSplit`,
`PyStr.pyIntL / startsWith / isReSpace`, `MonMem.fmtHexInt`) or from this file:

* control: `Flow σ α` = how a method (or one of its loops) ends -- normally with a value and the
  monitor state, by an exception (which one, and the state at that moment: `Monitor.onecmd` catches
  it and goes on with that state), or not within the fuel (`while` loops only; Python has no fuel,
  the generated loop functions are bounded so that they are total);
* the monitor state a unit can touch: `FillSt` (`self._mpu.memory` as the ObservableMemory model,
  the lines given to `self._output`), `RunSt` (`self._mpu` as the device state `St` -- its memory
  peeked at as the pure function `St.mem`, exactly as `Model/MonRun.lean` does --,
  `self._breakpoints`, the output lines);
* `%`-formatting with a CONSTANT template is split by the translator at the conversion
  specifiers; the conversions are `pyFmtD` (`%d`), `pyFmtX w` (`%0<w>x`), `pyFmtUX w` (`%0<w>X`),
  `%s` of a string is the string;
* sequence operations with Python's index conventions: `pyGetItem`, `pyListSet`, `pyIndex`,
  `pySliceTo` (`s[:i]`), `pySliceFrom` (`s[i:]`), `pyStripChars`, `pyLstripChars`;
* the one regular expression of `_preprocess_line`, `r'^%s\s+' % re.escape(lit)`, used with
  `re.match(...).span()`: `reMatchLitSpaces`.
-/
import Py65.Machine
import Py65.Model.MonMem
import Py65.Model.MonCmd

namespace Py65.Model.MonGenRt
open Py65 Py65.Model.PyStr Py65.Model.ObsMem Py65.Model.AddrParser Py65.Model.MonMem

/-- The exception classes the translated code can raise. -/
inductive Exc where
  | IndexError | TypeError | ValueError | KeyError | OverflowError | Other
  deriving DecidableEq, Repr

/-- How a translated method / loop ends. -/
inductive Flow (σ : Type) (α : Type) where
  | ok (v : α) (s : σ)         -- normal completion: value (loops: the loop-carried variables), state
  | raise (e : Exc) (s : σ)    -- an exception left the method; the state when it was raised
  | nofuel                     -- a `while` loop did not end within the fuel

/-- Sequencing of a call (of a loop function or of another translated method). -/
def Flow.bind {σ α β : Type} (x : Flow σ α) (f : α → σ → Flow σ β) : Flow σ β :=
  match x with
  | .ok v s => f v s
  | .raise e s => .raise e s
  | .nofuel => .nofuel

@[simp] theorem Flow.bind_ok {σ α β : Type} (v : α) (s : σ) (f : α → σ → Flow σ β) :
    (Flow.ok v s).bind f = f v s := rfl
@[simp] theorem Flow.bind_raise {σ α β : Type} (e : Exc) (s : σ) (f : α → σ → Flow σ β) :
    (Flow.raise e s : Flow σ α).bind f = .raise e s := rfl
@[simp] theorem Flow.bind_nofuel {σ α β : Type} (f : α → σ → Flow σ β) :
    (Flow.nofuel : Flow σ α).bind f = .nofuel := rfl

/-- What `_fill` can touch. -/
structure FillSt where
  memory : OM              -- `self._mpu.memory`
  out : List Str           -- the arguments of `self._output(...)`, oldest first

/-- What the run-control and breakpoint commands can touch. -/
structure RunSt where
  mpu : St                           -- `self._mpu`
  breakpoints : List (Option Int)    -- `self._breakpoints`
  out : List Str

/-! ### `%` conversions -/

/-- `"%d" % v` -/
def pyFmtD (v : Int) : Str := if v < 0 then '-' :: fmtDecL (-v).toNat else fmtDecL v.toNat

/-- `"%0<w>x" % v` -/
def pyFmtX (w : Nat) (v : Int) : Str := fmtHexInt w v

/-- `"%0<w>X" % v` -/
def pyFmtUX (w : Nat) (v : Int) : Str := (fmtHexInt w v).map upper

/-! ### sequences -/

/-- Python's index normalisation: a negative index counts from the end. -/
def pyNormIndex (len : Nat) (i : Int) : Int := if i < 0 then i + len else i

/-- `l[i]`; `none` = `IndexError`. -/
def pyGetItem {α : Type} (l : List α) (i : Int) : Option α :=
  let j := pyNormIndex l.length i
  if 0 ≤ j then l[j.toNat]? else none

/-- `l[i] = v`; `none` = `IndexError`. -/
def pyListSet {α : Type} (l : List α) (i : Int) (v : α) : Option (List α) :=
  let j := pyNormIndex l.length i
  if 0 ≤ j ∧ j < l.length then some (l.set j.toNat v) else none

/-- `l.index(x)`; `none` = `ValueError`. -/
def pyIndex {α : Type} [BEq α] (l : List α) (x : α) : Option Int :=
  if l.contains x then some (l.idxOf x : Nat) else none

/-- `x in l` (list, tuple or a `set` built from a list) -/
def pyIn {α : Type} [BEq α] (x : α) (l : List α) : Bool := l.contains x

/-- `set(l)` as far as membership and emptiness go: the elements of `l`. -/
def pySet {α : Type} (l : List α) : List α := l

/-- Bound of a slice: negative counts from the end, then clipped into `[0, len]`. -/
def pySliceBound (len : Nat) (i : Int) : Nat :=
  let j := pyNormIndex len i
  if j < 0 then 0 else if j > len then len else j.toNat

/-- `s[:i]` -/
def pySliceTo {α : Type} (s : List α) (i : Int) : List α := s.take (pySliceBound s.length i)

/-- `s[i:]` -/
def pySliceFrom {α : Type} (s : List α) (i : Int) : List α := s.drop (pySliceBound s.length i)

/-- `s.lstrip(chars)` -/
def pyLstripChars (chars s : Str) : Str := s.dropWhile fun c => chars.contains c

/-- `s.rstrip(chars)` -/
def pyRstripChars (chars s : Str) : Str := (s.reverse.dropWhile fun c => chars.contains c).reverse

/-- `s.strip(chars)` -/
def pyStripChars (chars s : Str) : Str := pyRstripChars chars (pyLstripChars chars s)

/-! ### the regular expression of `_preprocess_line` -/

/-- `re.match(r'^%s\s+' % re.escape(lit), line)`: `line` starts with the literal text `lit`
followed by at least one whitespace character (`\s`, ASCII: `isReSpace`).  `some (start, end)` is
`matches.span()`: `start = 0`, `end` = the end of the whole (greedy) whitespace run. -/
def reMatchLitSpaces (lit line : Str) : Option (Int × Int) :=
  match MonCmd.dropPrefix? line lit with
  | some rest =>
    let ws := rest.takeWhile isReSpace
    if ws = [] then none else some (0, ((lit.length + ws.length : Nat) : Int))
  | none => none

/-! ### library calls that raise -/

/-- `self._address_parser.number(s)` -/
def parseNumber (P : Parser) (s : Str) : Except Exc Int :=
  match numberL P s with
  | .ok v => .ok v
  | .key => .error .KeyError
  | .overflow => .error .OverflowError
  | .other => .error .Other

end Py65.Model.MonGenRt
