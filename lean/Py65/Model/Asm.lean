/-
Hand-written executable model of `py65/assembler.py` (`Assembler`), mirroring the source line by
line.  Tied to the code by the correspondence of harness/props/c07.py (`asm`, `nas`, `stm` protocol
lines).  Imports nothing outside Lean core; the opcode tables, widths and formats of the three
devices come from the GENERATED `Py65.Gen.Tables` (live class attributes of the device modules), so
a change of a device table moves every theorem about this model.

What is modelled rather than translated (CPython behaviours pinned by experiment, re-checked on
every run by the correspondence):

* `' '.join(statement.split())`: `str.split()` without argument splits at runs of characters with
  `str.isspace()` (ASCII: space, \t \n \v \f \r and \x1c..\x1f = `isReSpace`) and drops empty pieces.
* `Statement = ^([A-z]{3}[0-7]?\s+\(?\s*)([^,\s\)]+)(\s*[,xXyY\s]*\)?[,xXyY\s]*)$` as the
  deterministic scanner `matchStatement`, extensionally `re.match` on ASCII input:
  - `[A-z]` is the code range 65..122, i.e. the letters and `[ \ ] ^ _ backquote`;
  - `[0-7]?` must take a digit that is there (otherwise `\s+` would have to match the digit);
  - `\s+` takes the whole blank run (what it gives back `\s*` takes; both lie in group 1);
  - group 3 is the language `C* ( ')' C* )?` with `C = [,xXyY\s]` (the leading `\s*` is absorbed by
    `C*`), which is closed under taking suffixes.  Group 2 is a greedy run over `[^,\s)]`; if the
    rest after the maximal run is not in the group-3 language, no shorter group 2 helps (its rest
    would have the failing rest as a suffix).  So for a fixed group 1 only the maximal run counts;
  - `\(?` first takes a parenthesis that is there and `\s*` the blanks after it.  Only when that
    attempt fails (empty group 2, or the rest not in the group-3 language) the engine retries with
    `\(?` empty; group 2 then starts AT the parenthesis (`(` is not excluded from `[^,\s)]`), e.g.
    `LDA (` gives group 2 = `(`, `LDA ( ,X` gives groups `LDA ` / `(` / ` ,X`;
  - `$` also matches before a final `\n`, but `\n` is in `C`, and the scanner is only ever applied
    to whitespace-normalised text.
* `before.split(" ", 1)`: split at the first blank (always present after normalisation).
* `''.join(x.split())` removes every `isReSpace` character; `.strip()` trims them; `.upper()` is
  the ASCII upper-casing (`PyStr.upper`).
* the templates: `re.escape` only protects the literal characters; `'00'` becomes `0{n}` and
  `'FF'` becomes `([0-9A-F]{n})` with `n = BYTE_WIDTH / 4` ("%d" of the float quotient truncates):
  `compileTemplate` / `matchItems`.
* `"%0Nx" % k` (`pctFmt`, from `PyStr.fmtHexL`) and `int(hex, 16)` (`PyStr.pyIntL`).
* `list.index(x)`: first position, `ValueError` (here `none`) when absent.
-/
import Py65.PyInt
import Py65.Model.AddrParser
import Py65.Gen.Tables

namespace Py65.Model.Asm
open Py65.Model.PyStr Py65.Model.AddrParser

/-! ### devices -/

/-- The attributes of an MPU instance that assembler and disassembler read. -/
structure Dev where
  name : String
  /-- `mpu.disassemble`: 256 pairs (mnemonic, addressing mode) -/
  table : List (Str × Str)
  byteWidth : Nat
  addrWidth : Nat
  byteFmt : Str
  addrFmt : Str

def strPair (p : String × String) : Str × Str := (p.1.toList, p.2.toList)

def dev6502 : Dev :=
  { name := Py65.Gen.dev6502.name, table := Py65.Gen.dev6502.disassembleL.map strPair,
    byteWidth := Py65.Gen.dev6502.BYTE_WIDTH, addrWidth := Py65.Gen.dev6502.ADDR_WIDTH,
    byteFmt := Py65.Gen.dev6502.BYTE_FORMAT.toList, addrFmt := Py65.Gen.dev6502.ADDR_FORMAT.toList }

def dev65c02 : Dev :=
  { name := Py65.Gen.dev65c02.name, table := Py65.Gen.dev65c02.disassembleL.map strPair,
    byteWidth := Py65.Gen.dev65c02.BYTE_WIDTH, addrWidth := Py65.Gen.dev65c02.ADDR_WIDTH,
    byteFmt := Py65.Gen.dev65c02.BYTE_FORMAT.toList, addrFmt := Py65.Gen.dev65c02.ADDR_FORMAT.toList }

def dev65org16 : Dev :=
  { name := Py65.Gen.dev65org16.name, table := Py65.Gen.dev65org16.disassembleL.map strPair,
    byteWidth := Py65.Gen.dev65org16.BYTE_WIDTH, addrWidth := Py65.Gen.dev65org16.ADDR_WIDTH,
    byteFmt := Py65.Gen.dev65org16.BYTE_FORMAT.toList,
    addrFmt := Py65.Gen.dev65org16.ADDR_FORMAT.toList }

def devByName (n : String) : Option Dev :=
  if n = "6502" then some dev6502 else if n = "65C02" then some dev65c02
  else if n = "65Org16" then some dev65org16 else none

/-- `self.byteMask = (1 << BYTE_WIDTH) - 1` -/
def Dev.byteMask (d : Dev) : Int := Py.shl 1 d.byteWidth - 1
/-- `self.addrMask = (1 << ADDR_WIDTH) - 1` -/
def Dev.addrMask (d : Dev) : Int := Py.shl 1 d.addrWidth - 1
/-- `numchars = mpu.BYTE_WIDTH / 4` as printed by `%d` -/
def Dev.numchars (d : Dev) : Nat := d.byteWidth / 4

/-! ### small `str` methods -/

/-- `s.split()`: pieces between runs of white space, no empty piece.  `cur` = piece being read,
reversed. -/
def pySplitAux : Str → Str → List Str
  | [], cur => if cur = [] then [] else [cur.reverse]
  | c :: cs, cur =>
    if isReSpace c then (if cur = [] then pySplitAux cs [] else cur.reverse :: pySplitAux cs [])
    else pySplitAux cs (c :: cur)

def pySplit (s : Str) : List Str := pySplitAux s []

/-- `' '.join(l)` -/
def joinSp : List Str → Str
  | [] => []
  | [a] => a
  | a :: rest => a ++ ' ' :: joinSp rest

/-- `' '.join(s.split())` -/
def normWs (s : Str) : Str := joinSp (pySplit s)

/-- `''.join(s.split())` -/
def removeWs (s : Str) : Str := s.filter fun c => !isReSpace c

/-- `s.strip()` -/
def strip (s : Str) : Str := ((s.dropWhile isReSpace).reverse.dropWhile isReSpace).reverse

/-- `s.upper()` (ASCII) -/
def upperS (s : Str) : Str := s.map upper

/-- `s.split(" ", 1)`: `(s, none)` when there is no blank, else the text before the first blank
and the text after it. -/
def splitSp1 : Str → Str × Option Str
  | [] => ([], none)
  | c :: cs =>
    if c = ' ' then ([], some cs)
    else match splitSp1 cs with
      | (a, b) => (c :: a, b)

/-- The decimal value of a digit string (the width in a format). -/
def decVal (ds : Str) : Nat := ds.foldl (fun a c => a * 10 + (c.toNat - 48)) 0

/-- `fmt % n` for the formats `"%0<width>x"` the devices use (`none`: some other format, not
modelled). -/
def pctFmt (fmt : Str) (n : Nat) : Option Str :=
  match fmt with
  | '%' :: '0' :: r =>
    let ds := r.takeWhile isDigit
    if r.dropWhile isDigit = ['x'] then some (fmtHexL (decVal ds) n) else none
  | _ => none

/-! ### the `Statement` pattern -/

/-- `[A-z]` -/
def isAz (c : Char) : Bool := 65 ≤ c.toNat && c.toNat ≤ 122
/-- `[0-7]` -/
def isOct (c : Char) : Bool := 48 ≤ c.toNat && c.toNat ≤ 55
/-- `[^,\s\)]` -/
def isTargetChar (c : Char) : Bool := !(c = ',' || isReSpace c || c = ')')
/-- `[,xXyY\s]` -/
def isAfterChar (c : Char) : Bool :=
  c = ',' || c = 'x' || c = 'X' || c = 'y' || c = 'Y' || isReSpace c

/-- Membership in the language of group 3, `\s*[,xXyY\s]*\)?[,xXyY\s]*` up to the end. -/
def inAfter (r : Str) : Bool :=
  match r.dropWhile isAfterChar with
  | [] => true
  | c :: r2 => c = ')' && r2.all isAfterChar

/-- Groups 2 and 3 at `rest`, group 1 being `before`: maximal target run, rest in the group-3
language. -/
def tryTarget (before rest : Str) : Option (Str × Str × Str) :=
  let g := rest.takeWhile isTargetChar
  let r := rest.dropWhile isTargetChar
  if g ≠ [] ∧ inAfter r = true then some (before, g, r) else none

/-- `Statement.match(s)` → `(before, target, after)`. -/
def matchStatement (s : Str) : Option (Str × Str × Str) :=
  match s with
  | c1 :: c2 :: c3 :: r0 =>
    if isAz c1 && isAz c2 && isAz c3 then
      let dr : Str × Str :=
        match r0 with
        | c :: r => if isOct c then ([c], r) else ([], r0)
        | [] => ([], [])
      let ws := dr.2.takeWhile isReSpace
      if ws = [] then none else
      let r2 := dr.2.dropWhile isReSpace
      let head := c1 :: c2 :: c3 :: (dr.1 ++ ws)
      match r2 with
      | p :: r3 =>
        if p = '(' then
          match tryTarget (head ++ '(' :: r3.takeWhile isReSpace) (r3.dropWhile isReSpace) with
          | some m => some m
          | none => tryTarget head r2
        else tryTarget head r2
      | [] => none
    else none
  | _ => none

/-! ### `normalize_and_split` -/

/-- Result of assembling: the bytes, one of the three documented refusals, or any other
exception (never produced for the real devices; `what` names it). -/
inductive ARes where
  | ok (bytes : List Int)
  | syntax
  | overflow
  | key
  | other (what : String)
  deriving DecidableEq, Repr

/-- Result of `normalize_and_split`. -/
inductive NRes where
  | ok (opcode operand : Str)
  | syntax
  | overflow
  | key
  | other (what : String)
  deriving DecidableEq, Repr

/-- The `target` rewriting: `(new target)` or the exception raised. -/
inductive TRes where
  | ok (target : Str)
  | syntax
  | overflow
  | key
  | other (what : String)
  deriving DecidableEq, Repr

def TRes.ofRes (r : Res) (k : Int → TRes) : TRes :=
  match r with
  | .ok n => k n
  | .key => .key
  | .overflow => .overflow
  | .other => .other "number"

/-- `'#$' + BYTE_FORMAT % number` after the range check of the immediate branch. -/
def immText (d : Dev) (number : Int) : TRes :=
  if number < 0 ∨ number > d.byteMask then .overflow
  else match pctFmt d.byteFmt number.toNat with
    | some t => .ok ('#' :: '$' :: t)
    | none => .other "format"

/-- `'$' + ADDR_FORMAT % address` -/
def addrText (d : Dev) (address : Int) : TRes :=
  if address < 0 then .other "format"      -- cannot happen: `number` constrains its result
  else match pctFmt d.addrFmt address.toNat with
    | some t => .ok ('$' :: t)
    | none => .other "format"

/-- The three branches on `target` in `normalize_and_split`. -/
def retarget (d : Dev) (P : Parser) (target : Str) : TRes :=
  match target with
  | '#' :: rest =>
    match rest with
    | [] => .syntax                                        -- target[1]: IndexError
    | q :: rest2 =>
      if q = '\'' ∨ q = '"' then
        match rest2 with
        | [] => .syntax                                    -- target[2]: IndexError
        | ch :: rest3 =>                                   -- ord(target[2])
          -- only the closing quote may follow the character: `target[3:] not in ('', target[1])`
          if rest3 = [] ∨ rest3 = [q] then immText d (ch.toNat : Int) else .syntax
      else TRes.ofRes (numberL P rest) (immText d)
  | _ =>
    if target = ['a'] ∨ target = ['A'] then .ok target
    else TRes.ofRes (numberL P target) (addrText d)

def normalizeAndSplit (d : Dev) (P : Parser) (statement : Str) : NRes :=
  let statement := normWs statement
  match matchStatement statement with
  | some (before, target, after) =>
    match retarget d P target with
    | .ok target =>
      match splitSp1 before with
      | (opcode, some lead) =>
        let operand := removeWs (lead ++ target ++ after)
        .ok (upperS (strip opcode)) (upperS (strip operand))
      | (_, none) => .other "unpack"
    | .syntax => .syntax
    | .overflow => .overflow
    | .key => .key
    | .other w => .other w
  | none =>
    match splitSp1 statement with
    | (opcode, some operand) => .ok (upperS (strip opcode)) (upperS (strip operand))
    | (opcode, none) => .ok (upperS (strip opcode)) []

/-! ### the addressing templates -/

/-- `Assembler.Addressing`, in order. -/
def addressing : List (Str × Str) :=
  [ ("zpi".toList, "($00FF)".toList),
    ("zpx".toList, "$00FF,X".toList),
    ("zpy".toList, "$00FF,Y".toList),
    ("zpg".toList, "$00FF".toList),
    ("inx".toList, "($00FF,X)".toList),
    ("iax".toList, "($FFFF,X)".toList),
    ("iny".toList, "($00FF),Y".toList),
    ("ind".toList, "($FFFF)".toList),
    ("abx".toList, "$FFFF,X".toList),
    ("aby".toList, "$FFFF,Y".toList),
    ("abs".toList, "$FFFF".toList),
    ("rel".toList, "$FFFF".toList),
    ("imp".toList, "".toList),
    ("acc".toList, "".toList),
    ("acc".toList, "A".toList),
    ("imm".toList, "#$FF".toList) ]

/-- One element of a compiled template. -/
inductive TItem where
  | lit (c : Char)     -- an (escaped) literal character
  | zeros              -- `0{n}`
  | hex                -- `([0-9A-F]{n})`
  deriving DecidableEq, Repr

/-- `pat.replace('00', '0{n}').replace('FF', '([0-9A-F]{n})')` on the escaped template. -/
def compileTemplate : Str → List TItem
  | '0' :: '0' :: r => .zeros :: compileTemplate r
  | 'F' :: 'F' :: r => .hex :: compileTemplate r
  | c :: r => .lit c :: compileTemplate r
  | [] => []

/-- `[0-9A-F]` -/
def isHexUpper (c : Char) : Bool := isDigit c || (65 ≤ c.toNat && c.toNat ≤ 70)

/-- `pattern.match(s)` for a compiled template `^…$`: the captured groups in order, or `none`. -/
def matchItems (n : Nat) : List TItem → Str → Option (List Str)
  | [], s => if s = [] then some [] else none
  | .lit c :: items, s =>
    match s with
    | c' :: s' => if c' = c then matchItems n items s' else none
    | [] => none
  | .zeros :: items, s =>
    if s.length ≥ n ∧ (s.take n).all (· = '0') then matchItems n items (s.drop n) else none
  | .hex :: items, s =>
    if s.length ≥ n ∧ (s.take n).all isHexUpper then
      match matchItems n items (s.drop n) with
      | some gs => some (s.take n :: gs)
      | none => none
    else none

/-- `self._addressing`: (mode, compiled pattern) in order. -/
def compiled : List (Str × List TItem) := addressing.map fun p => (p.1, compileTemplate p.2)

/-! ### `assemble` -/

/-- `l.index(x)` (`none` = ValueError). -/
def indexOf (l : List (Str × Str)) (x : Str × Str) : Option Nat :=
  let i := l.findIdx (· = x)
  if i < l.length then some i else none

/-- The relative-branch computation (`none` = OverflowError). -/
def relOperand (d : Dev) (absolute pc : Int) : Option Int :=
  let relative := Py.land (absolute - pc - 2) d.addrMask
  let relative := if relative > Py.shr d.addrMask 1 then relative - (d.addrMask + 1) else relative
  let limit := Py.shr (d.byteMask + 1) 1
  if relative < -limit ∨ relative ≥ limit then none
  else some (Py.land relative d.byteMask)

/-- `[int(hex, 16) for hex in operands]` -/
def hexInts : List Str → Option (List Int)
  | [] => some []
  | h :: rest =>
    match pyIntL h 16, hexInts rest with
    | some v, some vs => some (v :: vs)
    | _, _ => none

/-- The top-of-memory check and the result. -/
def finish (d : Dev) (pc : Int) (bytes : List Int) : ARes :=
  if pc + (bytes.length : Int) > (2 : Int) ^ d.addrWidth then .overflow else .ok bytes

/-- The body of the `for mode, pattern` loop after the pattern matched with the captured
`groups`: `none` = `continue`. -/
def emit (d : Dev) (opcode : Str) (pc : Int) (mode : Str) (groups : List Str) : Option ARes :=
  if opcode = "???".toList then none         -- placeholder of undefined opcodes
  else match indexOf d.table (opcode, mode) with
    | none => none                           -- `index` raised ValueError
    | some op =>
      if mode = "rel".toList then
        match pyIntL groups.flatten 16 with
        | none => some (.other "int")
        | some absolute =>
          match relOperand d absolute pc with
          | none => some .overflow
          | some relative =>
            match pctFmt d.byteFmt relative.toNat with
            | none => some (.other "format")
            | some t =>
              match hexInts [t] with
              | some ops => some (finish d pc ((op : Int) :: ops))
              | none => some (.other "int")
      else
        let operands : List Str :=
          match groups with
          | [a, b] => [b, a]              -- swap bytes
          | gs => gs
        match hexInts operands with
        | some ops => some (finish d pc ((op : Int) :: ops))
        | none => some (.other "int")

/-- The body of the `for mode, pattern` loop for one template: `none` = `continue`. -/
def tryMode (d : Dev) (opcode operand : Str) (pc : Int) (mode : Str) (items : List TItem) :
    Option ARes :=
  match matchItems d.numchars items operand with
  | none => none
  | some groups => emit d opcode pc mode groups

/-- The loop over the templates; falling off the end is `SyntaxError`. -/
def tryModes (d : Dev) (opcode operand : Str) (pc : Int) : List (Str × List TItem) → ARes
  | [] => .syntax
  | (mode, items) :: rest =>
    match tryMode d opcode operand pc mode items with
    | some r => r
    | none => tryModes d opcode operand pc rest

/-- `assemble` after `normalize_and_split`. -/
def backend (d : Dev) (opcode operand : Str) (pc : Int) : ARes :=
  tryModes d opcode operand pc compiled

/-- `Assembler(mpu, parser).assemble(statement, pc)` -/
def assembleL (d : Dev) (P : Parser) (statement : Str) (pc : Int) : ARes :=
  match normalizeAndSplit d P statement with
  | .ok opcode operand => backend d opcode operand pc
  | .syntax => .syntax
  | .overflow => .overflow
  | .key => .key
  | .other w => .other w

def assemble (d : Dev) (P : Parser) (statement : String) (pc : Int) : ARes :=
  assembleL d P statement.toList pc

end Py65.Model.Asm
