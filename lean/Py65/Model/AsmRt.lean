/-
Run-time support for the GENERATED shallow embedding of `py65/assembler.py`
(`lean/Py65/Gen/AsmGen.lean`, written by `harness/py2lean_asm.py`).  Hand-written, stable, imports
nothing outside Lean core + the hand model; it contains

* the statement monad of the embedding: `PyM ρ α = Except (Sig ρ) α`, where a statement either
  completes normally with a value or completes abruptly with a signal `Sig ρ` -- a raised Python
  exception (`Exc`), `continue`, or `return v` (`v : ρ`, the function's result type);
* the control-flow combinators the translator emits: `raise`, `continue_`, `return_`, `tryExcept`
  (one handler, one exception class), `forEach` (a `for` loop without `break`/`else`), `listComp`
  (a one-generator list comprehension), `runFn` (a function body), `call` (a call of another
  translated method);
* the LIBRARY behaviours the assembler source uses, each as a NAMED helper that maps to the hand
  model's definition of that behaviour (`Model/Asm.lean`, `Model/PyStr.lean`, `Model/AddrParser.lean`):
  `str.split()`, `sep.join`, `s[i]`, `s[i:]`, `ord`, `startswith`, `split(" ", 1)`, tuple unpacking,
  `fmt % n`, `int(s, base)`, `list.index`, `len`, `AddressParser.number`, the `Statement` regular
  expression (`reStatement`, keyed by its exact pattern text in the translator's table) and the
  template patterns built by `Assembler.__init__` (`templatePattern`).

These helpers are what remains MODELLED (tied by the sampled correspondence of C07/C08/C15); the
control flow, the order of statements, the operators, the constants and the `Addressing` table of
the generated file are TRANSLATED from the current source on every run.
-/
import Py65.Model.Asm

namespace Py65.Model.AsmRt
open Py65.Model.PyStr Py65.Model.AddrParser Py65.Model.Asm

/-! ### exceptions and abrupt completion -/

/-- The Python exceptions the assembler source can raise.  `valueError` carries the place it comes
from (`""` for an explicit `raise ValueError`); `other` is a behaviour outside the modelled library
subset (a format that is not `%0Nx`, a negative number to format, the `number` model out of fuel). -/
inductive Exc where
  | syntaxError
  | overflowError
  | keyError
  | valueError (why : String)
  | indexError
  | typeError (why : String)
  | other (why : String)
  deriving DecidableEq, Repr

/-- `except ValueError:` -/
def Exc.isValueError : Exc → Bool
  | .valueError _ => true
  | _ => false

/-- `except IndexError:` -/
def Exc.isIndexError : Exc → Bool
  | .indexError => true
  | _ => false

/-- Abrupt completion of a statement inside a function whose result type is `ρ`. -/
inductive Sig (ρ : Type) where
  | exc (e : Exc)
  | cont
  | ret (v : ρ)

/-- A statement / an expression that may raise. -/
abbrev PyM (ρ α : Type) := Except (Sig ρ) α

section
variable {ρ α β : Type}

/-- `raise E` -/
def raise (e : Exc) : PyM ρ α := .error (.exc e)
/-- `continue` -/
def continue_ : PyM ρ α := .error .cont
/-- `return v` -/
def return_ (v : ρ) : PyM ρ α := .error (.ret v)

/-- `try: body / except T: handler` (the handler sees exceptions of class `T` only; `continue`
and `return` inside the body pass through). -/
def tryExcept (body : PyM ρ α) (isT : Exc → Bool) (handler : PyM ρ α) : PyM ρ α :=
  match body with
  | .error (.exc e) => if isT e then handler else .error (.exc e)
  | r => r

/-- `for x in xs: body` (no `break`, no `else`): `continue` ends one iteration, an exception or a
`return` ends the loop. -/
def forEach : List β → (β → PyM ρ Unit) → PyM ρ Unit
  | [], _ => .ok ()
  | x :: rest, body =>
    match body x with
    | .ok () => forEach rest body
    | .error .cont => forEach rest body
    | .error s => .error s

/-- `[f(x) for x in xs]`, left to right. -/
def listComp (f : β → PyM ρ α) : List β → PyM ρ (List α)
  | [] => .ok []
  | x :: rest =>
    match f x with
    | .error s => .error s
    | .ok v =>
      match listComp f rest with
      | .error s => .error s
      | .ok vs => .ok (v :: vs)

/-- A function body: the value returned, or the exception that escapes.  Falling off the end
(`None`) and a stray `continue` cannot happen for a body the translator accepts. -/
def runFn (body : PyM ρ Unit) : Except Exc ρ :=
  match body with
  | .error (.ret v) => .ok v
  | .error (.exc e) => .error e
  | .error .cont => .error (.other "continue outside a loop")
  | .ok () => .error (.other "fell off the end of the function")

/-- A call of another translated method inside a statement. -/
def call (r : Except Exc α) : PyM ρ α :=
  match r with
  | .ok v => .ok v
  | .error e => .error (.exc e)

/-! ### library behaviours (named helpers; see the header) -/

/-- `s.split()` -/
def split (s : Str) : List Str := pySplit s

/-- `sep.join(l)` -/
def join (sep : Str) : List Str → Str
  | [] => []
  | [a] => a
  | a :: rest => a ++ sep ++ join sep rest

/-- `s.startswith(p)` -/
def startswith (s p : Str) : Bool := startsWith s p

/-- `s[i]` for a literal index `i ≥ 0`: a one-character string, `IndexError` past the end. -/
def strGet (s : Str) (i : Nat) : PyM ρ Str :=
  match s[i]? with
  | some c => .ok [c]
  | none => raise .indexError

/-- `s[i:]` for a literal `i ≥ 0` (slices never raise). -/
def sliceFrom (s : Str) (i : Nat) : Str := s.drop i

/-- `l[i]` on a list / tuple for a literal index `i ≥ 0`. -/
def listGet (l : List α) (i : Nat) : PyM ρ α :=
  match l[i]? with
  | some x => .ok x
  | none => raise .indexError

/-- `ord(c)` -/
def ord (s : Str) : PyM ρ Int :=
  match s with
  | [c] => .ok (c.toNat : Int)
  | _ => raise (.typeError "ord")

/-- `len(l)` -/
def len (l : List α) : Int := (l.length : Int)

/-- `s.split(" ", 1)`: one piece when there is no blank, else two. -/
def splitSp1L (s : Str) : List Str :=
  match splitSp1 s with
  | (a, some b) => [a, b]
  | (a, none) => [a]

/-- `a, b = l` -/
def unpack2 (l : List α) : PyM ρ (α × α) :=
  match l with
  | [a, b] => .ok (a, b)
  | _ => raise (.valueError "unpack")

/-- `fmt % n` for the device formats `"%0<width>x"`. -/
def fmt (f : Str) (n : Int) : PyM ρ Str :=
  if n < 0 then raise (.other "format")
  else match pctFmt f n.toNat with
    | some t => .ok t
    | none => raise (.other "format")

/-- `int(s, base)` -/
def int (s : Str) (base : Nat) : PyM ρ Int :=
  match pyIntL s base with
  | some v => .ok v
  | none => raise (.valueError "int")

/-- `table.index(x)` -/
def index (l : List (Str × Str)) (x : Str × Str) : PyM ρ Int :=
  match indexOf l x with
  | some i => .ok (i : Int)
  | none => raise (.valueError "index")

/-- `self._address_parser.number(s)` (the hand model of `AddressParser.number`, C15). -/
def number (P : Parser) (s : Str) : PyM ρ Int :=
  match numberL P s with
  | .ok n => .ok n
  | .key => raise .keyError
  | .overflow => raise .overflowError
  | .other => raise (.other "number")

end

/-- `a / b` (true division) of two non-negative ints as `"%d"` prints it: the quotient truncated. -/
def truedivD (a b : Nat) : Nat := a / b

/-- `re.compile(r'^([A-z]{3}[0-7]?\s+\(?\s*)([^,\s\)]+)(\s*[,xXyY\s]*\)?[,xXyY\s]*)$').match`: the
three groups, or `None`. -/
def reStatement : Str → Option (Str × Str × Str) := matchStatement

/-- What `Assembler.__init__` builds from one template `format`:
`re.compile(("^" + re.escape(format) + "$").replace('00', '0{%d}' % n).replace('FF', '([0-9A-F]{%d})' % n)).match`,
as a function from the operand text to the captured groups (`None` = no match). -/
def templatePattern (numchars : Nat) (format : Str) : Str → Option (List Str) :=
  matchItems numchars (compileTemplate format)

/-! ### results in the hand model's result types -/

/-- The outcome of the generated `normalize_and_split` as the hand model's `NRes`. -/
def nresOf : Except Exc (Str × Str) → NRes
  | .ok (a, b) => .ok a b
  | .error .syntaxError => .syntax
  | .error .overflowError => .overflow
  | .error .keyError => .key
  | .error (.valueError w) => .other w
  | .error .indexError => .other "index"
  | .error (.typeError w) => .other w
  | .error (.other w) => .other w

/-- The outcome of the generated `assemble` as the hand model's `ARes`. -/
def aresOf : Except Exc (List Int) → ARes
  | .ok bs => .ok bs
  | .error .syntaxError => .syntax
  | .error .overflowError => .overflow
  | .error .keyError => .key
  | .error (.valueError w) => .other w
  | .error .indexError => .other "index"
  | .error (.typeError w) => .other w
  | .error (.other w) => .other w

end Py65.Model.AsmRt
