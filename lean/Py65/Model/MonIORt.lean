/-
Run-time vocabulary of the GENERATED module `Py65/Gen/MonIOGen.lean` (produced by
`harness/py2lean_monio.py` from `/repo/py65/monitor.py` on every run of C18).  Hand-written; no Mathlib.

The translator emits, statement by statement, a shallow embedding of `Monitor.__init__` (the slice that
sets `mpu_type / memory / putc_addr / getc_addr`, parses the arguments and calls `_reset`),
`_parse_args`, `_reset`, `_get_mpu`, `_install_mpu_observers` with its two closures `putc` / `getc`,
`do_reset` and `do_mpu` with its nested `available_mpus`.  Everything that is LIBRARY or OPERATING
SYSTEM behaviour is a named helper of this file -- MODELLED, NOT VERIFIED:

* control: `Flow σ α` / `Exc` (the same shape as `MonGenRt.Flow`, with the exception classes this unit
  needs: `SystemExit code`, `GetoptError msg`, `UnicodeEncodeError`);
* the monitor state the unit can touch: `IoSt` (the attributes `mpu_type`, `memory`, `putc_addr`,
  `getc_addr`, `_mpu`, `addrWidth … byteMask`, `_address_parser`, `_disassembler`, `_assembler`, the two
  streams `stdin` / `stdout`, the lines given to `self._output`, an allocation counter that gives every
  object the constructors create a fresh identity);
* the device classes the monitor imports (`MpuCls`: `name`, `ADDR_WIDTH`, `BYTE_WIDTH`, `ADDR_FORMAT`,
  `BYTE_FORMAT`, `addrMask`, `byteMask` -- class / instance attributes of `py65.devices.*`; the two widths
  are proved equal to the CPU-generated `Cfg` in `Proofs/MonIOGenEq.lean`) and their constructor
  `mpu_type(memory=…)` (`mpuNew`: a `None` memory is a fresh zeroed list);
* `ObservableMemory(subject=…, addrWidth=…)` (`omNew`, on the hand model `ObsMem.init`, itself proved
  equal to the regenerated `memory.py` in `Proofs/ObsMemGenEq.lean`; a subject list is assumed to have
  the default length, as there), `subscribe_to_write / _read` are `ObsMem.subscribeWrite / Read`;
  `AddressParser(maxwidth=…)`, `Disassembler(mpu, parser)`, `Assembler(mpu, parser)` only record what
  they were given (`parserNew`, `toolNew`);
* the terminal: `self.stdout` is the list of code points written so far and how many of them have
  been flushed; which code points its encoding accepts is the parameter `Env.enc`
  (`stdoutWrite` = `None` stands for `UnicodeEncodeError`, nothing written); `self.stdin` is the queue
  of pending bytes; `console.getch_noblock(stdin)` (`getchNoblock`) pops one pending byte, decoded as
  Latin-1, LF delivered as CR, or answers `''` -- select / read / termios are not modelled;
* `chr` / `ord` on one-character strings, which are represented by their code-point lists (`pyChr`,
  `pyOrd`); `str.lower` (`pyLower`), `sorted` / `list.sort` of strings (`pySorted`), `str.join`
  (`pyJoin`), `dict.keys / items` on a table in insertion order (`pyKeys`), `int(s, 16)`
  (`PyStr.pyIntL`), `l[1:]` (`MonGenRt.pySliceFrom`);
* the environment `Env`: `getopt.getopt` (uninterpreted: ANY function from the argument list, the
  short and the long option table to options or a `GetoptError` message), `sys.argv`, the usage text,
  and the start-up actions `-l / -g / -r` of `__init__` (uninterpreted state transformers; they run
  AFTER `_reset`, and only when the option is present).
-/
import Py65.Machine
import Py65.Model.ObsMem
import Py65.Model.PyStr
import Py65.Model.MonGenRt

namespace Py65.Model.MonIORt
open Py65 Py65.Model.PyStr Py65.Model.ObsMem

export Py65.Model.MonGenRt (pyFmtD pyFmtX pyFmtUX pyGetItem pyIn pySet pySliceTo pySliceFrom)

/-- The exception classes the translated code can raise. -/
inductive Exc where
  | IndexError | TypeError | ValueError | KeyError | AttributeError | UnicodeEncodeError
  | KeyboardInterrupt | UnicodeDecodeError | LookupError | OSError
  | SystemExit (code : Int)
  | GetoptError (msg : Str)
  deriving DecidableEq, Repr

/-- How a translated method / closure ends (`nofuel` is never produced by this unit: it has no
`while` loop; kept so that the shape is that of `MonGenRt.Flow`). -/
inductive Flow (σ : Type) (α : Type) where
  | ok (v : α) (s : σ)
  | raise (e : Exc) (s : σ)
  | nofuel

def Flow.bind {σ α β : Type} (x : Flow σ α) (f : α → σ → Flow σ β) : Flow σ β :=
  match x with
  | .ok v s => f v s
  | .raise e s => .raise e s
  | .nofuel => .nofuel

@[simp] theorem Flow.bind_ok {σ α β : Type} (v : α) (s : σ) (f : α → σ → Flow σ β) :
    (Flow.ok v s).bind f = f v s := rfl
@[simp] theorem Flow.bind_raise {σ α β : Type} (e : Exc) (s : σ) (f : α → σ → Flow σ β) :
    (Flow.raise e s : Flow σ α).bind f = .raise e s := rfl
@[simp] theorem Flow.bind_nofuel {σ α β : Type} (f : α → σ → Flow σ β) :
    (Flow.nofuel : Flow σ α).bind f = .nofuel := rfl

/-! ### the device classes `monitor.py` imports -/

/-- `py65.devices.mpu6502.MPU`, `py65.devices.mpu65c02.MPU`, `py65.devices.mpu65org16.MPU`. -/
inductive MpuCls where
  | mpu6502 | mpu65c02 | mpu65org16
  deriving DecidableEq, Repr

/-- `mpu.name` (set by each class's `__init__`). -/
def MpuCls.name : MpuCls → Str
  | .mpu6502 => "6502".toList
  | .mpu65c02 => "65C02".toList
  | .mpu65org16 => "65Org16".toList

def MpuCls.ADDR_WIDTH : MpuCls → Int
  | .mpu65org16 => 32
  | _ => 16

def MpuCls.BYTE_WIDTH : MpuCls → Int
  | .mpu65org16 => 16
  | _ => 8

def MpuCls.ADDR_FORMAT : MpuCls → Str
  | .mpu65org16 => "%08x".toList
  | _ => "%04x".toList

def MpuCls.BYTE_FORMAT : MpuCls → Str
  | .mpu65org16 => "%04x".toList
  | _ => "%02x".toList

/-- `(1 << ADDR_WIDTH) - 1` -/
def MpuCls.addrMask : MpuCls → Int
  | .mpu65org16 => 0xffffffff
  | _ => 0xffff

/-- `(1 << BYTE_WIDTH) - 1` -/
def MpuCls.byteMask : MpuCls → Int
  | .mpu65org16 => 0xffff
  | _ => 0xff

/-! ### objects -/

/-- The device's `memory` attribute: the plain list the device constructor keeps / creates, or the
`ObservableMemory` the monitor puts in its place. -/
inductive MemObj where
  | plain (cells : Int → Int)
  | obs (m : OM)

def MemObj.isObs : MemObj → Bool
  | .obs _ => true
  | .plain _ => false

/-- A device instance: identity, class, memory object. -/
structure MpuObj where
  id : Nat
  cls : MpuCls
  memory : MemObj

/-- `mpu_type(memory=memory)`: `None` = a fresh zeroed list. -/
def mpuNew (cls : MpuCls) (memory : Option (Int → Int)) (id : Nat) : MpuObj :=
  { id := id, cls := cls, memory := .plain (memory.getD fun _ => 0) }

/-- `ObservableMemory(subject=subject, addrWidth=addrWidth)`. -/
def omNew (subject : Option (Int → Int)) (addrWidth : Int) : OM :=
  ObsMem.init addrWidth (subject.getD fun _ => 0)

/-- An `AddressParser`: identity and the `maxwidth` it was built with. -/
structure ParserObj where
  id : Nat
  maxwidth : Int
  deriving DecidableEq, Repr

def parserNew (maxwidth : Int) (id : Nat) : ParserObj := { id := id, maxwidth := maxwidth }

/-- A `Disassembler` / `Assembler`: identity and the identities of the device and the parser it was
given. -/
structure ToolObj where
  id : Nat
  mpu : Nat
  parser : Nat
  deriving DecidableEq, Repr

def toolNew (mpu : MpuObj) (parser : ParserObj) (id : Nat) : ToolObj :=
  { id := id, mpu := mpu.id, parser := parser.id }

/-- `self.stdout` as far as the observers go: code points written, how many of them flushed. -/
structure OutStream where
  written : List Int
  flushed : Nat
  deriving DecidableEq, Repr

/-- `stdout.write(s)` for a string given by its code points; `none` = `UnicodeEncodeError` (a text
stream encodes the whole string first: nothing is written then). -/
def stdoutWrite (enc : Int → Bool) (s : List Int) (o : OutStream) : Option OutStream :=
  if s.all enc then some { o with written := o.written ++ s } else none

/-- `stdout.flush()` -/
def stdoutFlush (o : OutStream) : OutStream := { o with flushed := o.written.length }

/-- What the unit can touch of a `Monitor` instance. -/
structure IoSt where
  mpu_type : MpuCls
  memory : Option (Int → Int)
  putc_addr : Option Int
  getc_addr : Option Int
  _mpu : MpuObj
  addrWidth : Int
  byteWidth : Int
  addrFmt : Str
  byteFmt : Str
  addrMask : Int
  byteMask : Int
  _address_parser : ParserObj
  _disassembler : ToolObj
  _assembler : ToolObj
  stdin : List Int
  stdout : OutStream
  out : List Str
  nextId : Nat

/-- The environment of the unit (see the file comment). -/
structure Env where
  enc : Int → Bool
  getopt : List Str → Str → List Str → Except Str (List (Str × Str) × List Str)
  sys_argv : List Str
  usage : Str
  startup : Nat → Str → IoSt → Flow IoSt Unit

/-! ### characters -/

/-- `chr(v)` as the code-point list of the one-character string; `none` = `ValueError`. -/
def pyChr (v : Int) : Option (List Int) :=
  if 0 ≤ v ∧ v < 0x110000 then some [v] else none

/-- `ord(s)`; `none` = `TypeError` (not a string of length 1). -/
def pyOrd : List Int → Option Int
  | [c] => some c
  | _ => none

/-- The code points of an (ASCII) string constant. -/
def pyCodes (s : Str) : List Int := s.map fun c => (c.toNat : Int)

/-- `console.getch_noblock(stdin)` on the queue of pending bytes: the string read (empty or one
character) and the queue afterwards. -/
def getchNoblock (pending : List Int) : List Int × List Int :=
  match pending with
  | [] => ([], [])
  | b :: rest => ([if b = 10 then 13 else b], rest)

/-! ### strings and tables -/

/-- `s.lower()` (ASCII letters; the names compared are ASCII). -/
def pyLower (s : Str) : Str := s.map lower

/-- `a < b` on strings (code-point order). -/
def strLt : Str → Str → Bool
  | [], [] => false
  | [], _ :: _ => true
  | _ :: _, [] => false
  | a :: as, b :: bs =>
    if a.toNat < b.toNat then true else if b.toNat < a.toNat then false else strLt as bs

def insertSorted (x : Str) : List Str → List Str
  | [] => [x]
  | y :: ys => if strLt x y then x :: y :: ys else y :: insertSorted x ys

/-- `sorted(l)` / `l.sort()` for a list of strings (stable). -/
def pySorted (l : List Str) : List Str := l.foldl (fun acc x => insertSorted x acc) []

/-- `sep.join(l)` -/
def pyJoin (sep : Str) : List Str → Str
  | [] => []
  | x :: xs => xs.foldl (fun acc y => acc ++ sep ++ y) x

/-- `d.keys()` of a table kept in insertion order. -/
def pyKeys {α β : Type} (d : List (α × β)) : List α := d.map Prod.fst

/-- `list(x)` -/
def pyList {α : Type} (l : List α) : List α := l

/-! ### the vocabulary of `Py65/Gen/ConsoleGen.lean` (`py65/utils/console.py: getch_noblock`, POSIX branch,
and `py65/compat.py: as_string`, Python-3 branch)

The operating system during ONE call of `getch_noblock(stdin)` is the queue of pending bytes plus the
answers `ConEnv` it may give out of the ordinary:
* `select([stdin], [], [], t)` (`osSelect`) raises `selectFault` if there is one; else `stdin` is readable
  iff a byte is pending (or the write end is closed: `eofReadable`, the read then returns `b''`);
* `stdin.read(1)` (`osRead`) raises `readFault` if there is one; else it pops at most one pending byte and
  returns it as a `bytes` object -- the monitor's stdin is `os.fdopen(os.dup(fd), 'rb', 0)` -- or, in
  `textMode` (the fallback when that fails), as a `str`;
* `bytes.decode(encoding)` (`pyDecode`) for the codec literals the translator accepts: `'latin-1'` (every
  byte is the code point of the same number) and `'utf-8'` (strict; an invalid sequence is
  `UnicodeDecodeError`); any other name is `LookupError` here, and the translator refuses it before;
* `noncanonical_mode(stdin)` (termios; every error swallowed) has no effect on this state. -/

/-- A value `stdin.read(1)` can return. -/
inductive PyVal where
  | str (cps : List Int)
  | bytes (bs : List Int)
  deriving DecidableEq, Repr

/-- The terminal as far as `getch_noblock` goes: the pending bytes. -/
structure ConSt where
  pending : List Int
  deriving DecidableEq, Repr

/-- What the OS may do out of the ordinary during one call. -/
structure ConEnv where
  selectFault : Option Exc
  readFault : Option Exc
  eofReadable : Bool
  textMode : Bool
  deriving DecidableEq, Repr

/-- The ordinary case: a binary, open stdin and no error. -/
def ConEnv.plain : ConEnv := { selectFault := none, readFault := none, eofReadable := false, textMode := false }

/-- `select([stdin], [], [], t)`: the three lists (`rd` holds `stdin` or nothing). -/
def osSelect (F : ConEnv) (σ : ConSt) : Except Exc (List Unit × List Unit × List Unit) :=
  match F.selectFault with
  | some e => .error e
  | none => .ok (if σ.pending ≠ [] ∨ F.eofReadable = true then [()] else [], [], [])

/-- `stdin.read(n)` on an unbuffered stream: at most `n` of the pending bytes (`n ≤ 0`: none). -/
def osRead (F : ConEnv) (σ : ConSt) (n : Int) : Except Exc (PyVal × ConSt) :=
  match F.readFault with
  | some e => .error e
  | none =>
    let got : List Int := σ.pending.take n.toNat
    let rest : List Int := σ.pending.drop n.toNat
    .ok (if F.textMode then .str got else .bytes got, { pending := rest })

/-- Continuation byte `10xxxxxx`. -/
def isCont (b : Int) : Bool := decide (0x80 ≤ b ∧ b ≤ 0xBF)

/-- Strict UTF-8 decoding (no overlong forms, no surrogates, at most U+10FFFF); `none` =
`UnicodeDecodeError`. -/
def utf8Decode : List Int → Option (List Int)
  | [] => some []
  | b :: rest =>
    if 0 ≤ b ∧ b < 0x80 then (utf8Decode rest).map (b :: ·)
    else if 0xC2 ≤ b ∧ b ≤ 0xDF then
      match rest with
      | c :: rest2 =>
        if isCont c then (utf8Decode rest2).map (((b - 0xC0) * 64 + (c - 0x80)) :: ·) else none
      | _ => none
    else if 0xE0 ≤ b ∧ b ≤ 0xEF then
      match rest with
      | c :: d :: rest3 =>
        let cp := (b - 0xE0) * 4096 + (c - 0x80) * 64 + (d - 0x80)
        if isCont c ∧ isCont d ∧ 0x800 ≤ cp ∧ ¬ (0xD800 ≤ cp ∧ cp ≤ 0xDFFF) then
          (utf8Decode rest3).map (cp :: ·)
        else none
      | _ => none
    else if 0xF0 ≤ b ∧ b ≤ 0xF4 then
      match rest with
      | c :: d :: e :: rest4 =>
        let cp := (b - 0xF0) * 262144 + (c - 0x80) * 4096 + (d - 0x80) * 64 + (e - 0x80)
        if isCont c ∧ isCont d ∧ isCont e ∧ 0x10000 ≤ cp ∧ cp ≤ 0x10FFFF then
          (utf8Decode rest4).map (cp :: ·)
        else none
      | _ => none
    else none

/-- `bs.decode(encoding)` for the accepted codec literals. -/
def pyDecode (bs : List Int) (encoding : Str) : Except Exc (List Int) :=
  if encoding = "latin-1".toList then .ok bs
  else if encoding = "utf-8".toList then
    match utf8Decode bs with
    | some cps => .ok cps
    | none => .error .UnicodeDecodeError
  else .error .LookupError

end Py65.Model.MonIORt
