/-
Run-time vocabulary of the GENERATED display modules `Py65/Gen/ReprGen.lean` (the `__repr__` /
`reprformat` methods of the three device classes) and `Py65/Gen/MonShowGen.lean`
(`Monitor._output_mpu_status`, `do_cycles`, `do_tilde`, `do_disassemble` and their help texts),
both produced by `harness/py2lean_show.py` on every run of C19.  Hand-written; no Mathlib.

The translator reuses the machinery and vocabulary of `harness/py2lean_mon.py` /
`Model/MonGenRt.lean` (`Flow`, `Exc`, `pyFmtD/pyFmtX`, `pyGetItem`, `parseNumber`, …).  This file adds
only what the display functions need in addition -- every entry is LIBRARY behaviour of CPython,
modelled, not verified:

* `ShowSt`: what the monitor's display commands can touch: the device (`self._mpu`, read only)
  and the lines given to `self._output`;
* `%`-conversions `%04o` (`pyFmtO`); `%u` is `%d` (`pyFmtD`) in Python 3; `str(n)` is `pyFmtD`;
* `str.rjust(w, c)`, `str.zfill(w)`, `str * n`, `str.split(sep)` for a one-character `sep`.

What is NOT library but other translated code enters the generated functions as PARAMETERS, so
that the generated files do not import one another:
  `itoa`     `py65.utils.conversions.itoa` (generated in `Gen/DisasmGen.lean`),
  `mpurepr`  `repr(self._mpu)`, i.e. the device's `__repr__` (generated in `Gen/ReprGen.lean`),
  `iat`      `self._disassembler.instruction_at` (generated in `Gen/DisasmGen.lean`),
  `fmtdis`   `self._format_disassembly` (generated in `Gen/DisasmGen.lean`);
`Py65/Proofs/ReprGenEq.lean` and `Py65/Props/C19g.lean` instantiate them with the generated functions.
-/
import Py65.Model.MonGenRt

namespace Py65.Model.ShowRt
open Py65 Py65.Model.PyStr Py65.Model.MonMem Py65.Model.MonGenRt

/-- What the display commands can touch. -/
structure ShowSt where
  mpu : St                 -- `self._mpu` (only read)
  out : List Str           -- the arguments of `self._output(...)`, oldest first

/-- `"%0<w>o" % v` (the sign counts in the width, as for `%x`) -/
def pyFmtO (w : Nat) (v : Int) : Str :=
  if v < 0 then '-' :: fmtOctL (w - 1) (-v).toNat else fmtOctL w v.toNat

/-- `s.rjust(w, c)` (a width `≤ len(s)`, also a negative one, leaves `s` as it is) -/
def pyRjust (s : Str) (w : Int) (c : Char) : Str := rjustL s w.toNat c

/-- `s.zfill(w)` -/
def pyZfill (s : Str) (w : Int) : Str := zfillL s w.toNat

/-- `s * n` (`n ≤ 0` gives the empty string) -/
def pyStrMul (s : Str) (n : Int) : Str := (List.replicate n.toNat s).flatten

/-- `s.split(sep)` for a one-character separator: never empty, `''.split(':') == ['']`. -/
def pySplitChar (sep : Char) : Str → List Str
  | [] => [[]]
  | c :: cs =>
    if c = sep then [] :: pySplitChar sep cs
    else match pySplitChar sep cs with
      | [] => [[c]]
      | h :: t => (c :: h) :: t

end Py65.Model.ShowRt
