/-
Hand-written executable model of the monitor's character I/O (`py65/monitor.py`:
`__init__`/`_parse_args` for `-i / -o`, `_reset`, `_install_mpu_observers`, `do_reset`, `do_mpu`)
on top of the `ObservableMemory` model of C10 (`Py65/Model/ObsMem.lean`).  DESIGN.md §3 C18.
Tied to the real `Monitor` by the correspondence of `harness/props/c18.py` (protocol line `io`).

What the real code does (read off the source, pinned by experiment, see harness/props/c18.py):

* `Monitor.__init__(…, putc_addr=0xF001, getc_addr=0xF004)` stores the two keyword arguments
  (`None` = "no character I/O", documented by `test_external_memory`); `-i X` / `-o X` overwrite them
  with `int(X, 16)`; then `_reset(self.mpu_type, self.getc_addr, self.putc_addr)`.
* `_reset(mpu_type, getc_addr, putc_addr)` builds a new device and, `if getc_addr is not None and
  putc_addr is not None`, calls `_install_mpu_observers`, which builds a new
  `ObservableMemory(addrWidth=self.addrWidth)`, subscribes `putc` to writes of `[self.putc_addr]`, then
  `getc` to reads of `[self.getc_addr]`, and makes it the device's memory.  Otherwise the device keeps
  its plain list.
* `do_reset` calls `_reset(klass, self.getc_addr, self.putc_addr)`; `do_mpu name` calls
  `_reset(new_mpu, self.getc_addr, self.putc_addr)` for a known name (case-insensitive) and changes
  nothing otherwise.
  (Before the repairs "fix: monitor maps getc/putc also at address 0 and keeps the mapping on reset"
  the test was `if getc_addr and putc_addr` and `do_reset` passed the defaults: `-i 0` / `-o 0` gave no
  mapping until the first `reset`; findings/C18-G2-prefix.json.)
* `putc(address, value)` writes `chr(value)` to the monitor's stdout and returns `None`;
  `getc(address)` = `console.getch_noblock`: one non-blocking `read(1)` of the unbuffered stdin,
  decoded as Latin-1 (so every byte 0..255 is a character), LF turned into CR, `ord` of it, or 0
  when there is no character.  (Before "fix: console delivers input bytes >= 0x80 to the program"
  the byte was decoded as UTF-8 and bytes >= 0x80 came out as 0; findings/C18-G3-prefix.json.)

The OS side (select / read on a descriptor) is replaced by an explicit queue of pending bytes.
No Mathlib import: linked into the driver.
-/
import Py65.Model.ObsMem
import Py65.Model.PyStr
import Py65.Machine

namespace Py65.Model.MonIO
open Py65 Py65.Model.ObsMem Py65.Model.PyStr

/-- Callback identities on the monitor's `ObservableMemory`. -/
def putcId : Nat := 0
def getcId : Nat := 1

/-- The explicit state the two callbacks close over: the bytes waiting on stdin and the code
points written to stdout so far. -/
structure IO where
  pending : List Int
  output : List Int
  deriving Repr, DecidableEq

/-- What `getc` returns for one pending byte `b`: `read(1)`, Latin-1 decode, LF → CR, `ord`. -/
def getchByte (b : Int) : Int :=
  if b = 10 then 13 else b

/-- What `getc` returns in I/O state `io`. -/
def getcVal (io : IO) : Int :=
  match io.pending with
  | b :: _ => getchByte b
  | [] => 0

/-- The callbacks' answers in I/O state `io` (a `Reply` of the C10 model): `getc` answers the
next byte or 0, `putc` answers `None`. -/
def replyOf (io : IO) : Reply := fun cb _ _ _ =>
  if cb = getcId then some (getcVal io) else none

/-- The effect of the callback calls `evs` (the call log of one access) on the I/O state:
each `getc` call consumes one pending byte (if any), each `putc(address, v)` appends `v`. -/
def absorb (io : IO) : List Ev → IO
  | [] => io
  | e :: es =>
    if e.cb = getcId then absorb { io with pending := io.pending.tail } es
    else
      match e.val with
      | some v => absorb { io with output := io.output ++ [v] } es
      | none => absorb io es

/-! ### the session's configuration: `-i / -o`, `_reset`, `reset`, `mpu` -/

/-- The part of a `Monitor` instance the mapping depends on. -/
structure Sess where
  addrWidth : Int        -- `self.addrWidth` of the current device (16 or 32)
  getcAddr : Option Int  -- `self.getc_addr` (`none` = Python's `None`)
  putcAddr : Option Int  -- `self.putc_addr`
  observed : Bool        -- the device's memory is the `ObservableMemory` carrying the observers
  deriving Repr, DecidableEq

/-- `_get_mpu(name)`: the device's address width for a known name (compared case-insensitively
with the keys '6502', '65C02', '65Org16'), `none` for an unknown one. -/
def devAddrWidth (name : Str) : Option Int :=
  let n := name.map lower
  if n = ['6', '5', '0', '2'] then some 16
  else if n = ['6', '5', 'c', '0', '2'] then some 16
  else if n = ['6', '5', 'o', 'r', 'g', '1', '6'] then some 32
  else none

/-- `_reset(mpu_type, getc_addr, putc_addr)`: new device; `if getc_addr is not None and putc_addr
is not None:` install the observers (at `self.getc_addr` / `self.putc_addr`). -/
def resetWith (s : Sess) (addrWidth : Int) (getcParam putcParam : Option Int) : Sess :=
  { s with addrWidth := addrWidth, observed := (getcParam.isSome && putcParam.isSome) }

/-- `Monitor(argv=['py65mon', '-m', dev, '-i', i, '-o', o], getc_addr=kg, putc_addr=kp)`: `kg`, `kp` are
the keyword arguments (default `some 0xF004` / `some 0xF001`); `i`, `o` are `none` when the option is
absent and go through `int(value, 16)` otherwise (`none` result = `ValueError` out of the constructor). -/
def construct (addrWidth : Int) (kg kp : Option Int) (i o : Option Str) : Option Sess :=
  let gi : Option (Option Int) := match i with | none => some kg | some t => (pyIntL t 16).map some
  let po : Option (Option Int) := match o with | none => some kp | some t => (pyIntL t 16).map some
  match gi, po with
  | some g, some p =>
    some (resetWith { addrWidth := addrWidth, getcAddr := g, putcAddr := p, observed := false }
            addrWidth g p)
  | _, _ => none

inductive Cmd where
  | reset                 -- `reset`
  | mpu (name : Str)      -- `mpu <name>` (`mpu` alone: `name = []`)
  deriving Repr, DecidableEq

/-- `do_reset` / `do_mpu`. -/
def applyCmd (s : Sess) : Cmd → Sess
  | .reset => resetWith s s.addrWidth s.getcAddr s.putcAddr
  | .mpu name =>
    if name = [] then s else
    match devAddrWidth name with
    | none => s
    | some w => resetWith s w s.getcAddr s.putcAddr

def applyCmds (s : Sess) (cmds : List Cmd) : Sess := cmds.foldl applyCmd s

/-- The subscriptions `_install_mpu_observers` makes, in its order. -/
def installOps (s : Sess) : List Op :=
  match s.observed, s.putcAddr, s.getcAddr with
  | true, some p, some g => [.subW [p] putcId, .subR [g] getcId]
  | _, _, _ => []

/-- The device's memory object of session `s` with backing cells `cells`
(`ObservableMemory(addrWidth=self.addrWidth)` + the subscriptions). -/
def memOf (s : Sess) (reply : Reply) (cells : Int → Int) : OM :=
  run reply (init s.addrWidth cells) (installOps s)

/-! ### accesses of a running program -/

/-- Backing cells and I/O state. -/
structure MState where
  cells : Int → Int
  io : IO

/-- One item access of the device on the session's memory.  With the observers installed it is
the `ObservableMemory` access of C10 whose callbacks answer from the current I/O state and whose
calls are then absorbed into it; without them the memory is the device's plain list. -/
def access (s : Sess) (st : MState) : MemEv → Option Int × MState
  | .r a =>
    if s.observed then
      let r := get (replyOf st.io) (memOf s (replyOf st.io) st.cells) a
      (some r.1, { cells := r.2.subject, io := absorb st.io r.2.log })
    else (some (st.cells a), st)
  | .w a v =>
    if s.observed then
      let m' := set (replyOf st.io) (memOf s (replyOf st.io) st.cells) a v
      (none, { cells := m'.subject, io := absorb st.io m'.log })
    else (none, { st with cells := fun k => if k = a then v else st.cells k })

/-- Replay an access log: values read (`none` for writes), in order, and the final state. -/
def replay (s : Sess) : MState → List MemEv → List (Option Int) × MState
  | st, [] => ([], st)
  | st, e :: es =>
    let r := access s st e
    let r2 := replay s r.2 es
    (r.1 :: r2.1, r2.2)

end Py65.Model.MonIO
