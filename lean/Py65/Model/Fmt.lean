/-
Hand-written executable model of what the monitor displays about the machine (DESIGN.md §3 C19):

* `MPU.__repr__` of the three devices (`py65/devices/mpu6502.py`, `mpu65org16.py: reprformat`;
  the 65C02 inherits the 6502's format):
  ```
  flags  = itoa(self.p, 2).rjust(self.BYTE_WIDTH, '0')        -- rjust never truncates
  indent = ' ' * (len(self.name) + 2)
  return self.reprformat() % (indent, self.name, self.pc, self.a, self.x, self.y, self.sp, flags)
  ```
  with `reprformat` = `"%s PC  AC XR YR SP NV-BDIZC\n%s: %04x %02x %02x %02x %02x %s"` resp.
  `"%s   PC     AC   XR   YR   SP  NV---------BDIZC\n%s: %08x %04x %04x %04x %04x %s"`;
* the status print of `Monitor.onecmd`: `"\n" + repr(self._mpu)` and a final newline;
* `do_cycles`: `str(self._mpu.processorCycles)`;
* `_format_disassembly(address, length, disasm)`: `"$" + addrFmt % address + "  " +
  ("%-<fw>s" % dump) + disasm` where `dump` is `byteFmt % memory[cur] + " "` for `length` cells
  starting at `address`, `cur` wrapping to 0 after the top of the address space, and
  `fw = 1 + int(1 + byteWidth / 4) * 3`.

Tied to the real code by `harness/props/c19.py` (protocol lines `repr`, `dis`, `cyc`), byte for byte.
Imports nothing outside Lean core.
-/
import Py65.Model.PyStr

namespace Py65.Model.Fmt
open Py65.Model.PyStr

/-- The class constants of a device that the displays depend on. -/
structure Dev where
  name : Str             -- `self.name`
  byteWidth : Nat        -- `BYTE_WIDTH`
  addrWidth : Nat        -- `ADDR_WIDTH`
  byteDigits : Nat       -- `N` of `BYTE_FORMAT = "%0Nx"`
  addrDigits : Nat       -- `N` of `ADDR_FORMAT = "%0Nx"`
  header : Str           -- first line of `reprformat()` after the leading `%s`
  deriving Repr, DecidableEq

def header8 : Str :=
  [' ', 'P', 'C', ' ', ' ', 'A', 'C', ' ', 'X', 'R', ' ', 'Y', 'R', ' ', 'S', 'P', ' ',
   'N', 'V', '-', 'B', 'D', 'I', 'Z', 'C']

def header16 : Str :=
  [' ', ' ', ' ', 'P', 'C', ' ', ' ', ' ', ' ', ' ', 'A', 'C', ' ', ' ', ' ', 'X', 'R', ' ', ' ', ' ',
   'Y', 'R', ' ', ' ', ' ', 'S', 'P', ' ', ' ',
   'N', 'V', '-', '-', '-', '-', '-', '-', '-', '-', '-', 'B', 'D', 'I', 'Z', 'C']

def dev6502 : Dev :=
  { name := ['6', '5', '0', '2'], byteWidth := 8, addrWidth := 16, byteDigits := 2, addrDigits := 4,
    header := header8 }

def dev65c02 : Dev :=
  { name := ['6', '5', 'C', '0', '2'], byteWidth := 8, addrWidth := 16, byteDigits := 2, addrDigits := 4,
    header := header8 }

def dev65org16 : Dev :=
  { name := ['6', '5', 'O', 'r', 'g', '1', '6'], byteWidth := 16, addrWidth := 32, byteDigits := 4,
    addrDigits := 8, header := header16 }

def devices : List Dev := [dev6502, dev65c02, dev65org16]

/-- The register attributes `__repr__` prints. -/
structure Regs where
  pc : Nat
  a : Nat
  x : Nat
  y : Nat
  sp : Nat
  p : Nat
  deriving Repr, DecidableEq

/-- Registers within the device's widths. -/
def Regs.WF (d : Dev) (r : Regs) : Prop :=
  r.pc < 2 ^ d.addrWidth ∧ r.a < 2 ^ d.byteWidth ∧ r.x < 2 ^ d.byteWidth ∧ r.y < 2 ^ d.byteWidth ∧
  r.sp < 2 ^ d.byteWidth ∧ r.p < 2 ^ d.byteWidth

/-- `itoa(p, 2).rjust(BYTE_WIDTH, '0')` -/
def flags (d : Dev) (p : Nat) : Str := rjustL (fmtBinL p) d.byteWidth '0'

/-- `indent` -/
def indent (d : Dev) : Str := List.replicate (d.name.length + 2) ' '

/-- First line of `repr(mpu)`. -/
def reprLine1 (d : Dev) : Str := indent d ++ d.header

/-- Second line of `repr(mpu)`: `"%s: %04x %02x %02x %02x %02x %s"`. -/
def reprLine2 (d : Dev) (r : Regs) : Str :=
  d.name ++ [':', ' '] ++ fmtHexL d.addrDigits r.pc ++ [' '] ++ fmtHexL d.byteDigits r.a ++ [' '] ++
  fmtHexL d.byteDigits r.x ++ [' '] ++ fmtHexL d.byteDigits r.y ++ [' '] ++ fmtHexL d.byteDigits r.sp ++
  [' '] ++ flags d r.p

/-- `repr(mpu)` -/
def repr (d : Dev) (r : Regs) : Str := reprLine1 d ++ ['\n'] ++ reprLine2 d r

/-- What `_output_mpu_status` writes: `"\n" + repr(mpu)` and `_output`'s newline. -/
def status (d : Dev) (r : Regs) : Str := ['\n'] ++ repr d r ++ ['\n']

/-- `str(processorCycles)` (what `do_cycles` prints, without `_output`'s newline). -/
def cyclesText (n : Nat) : Str := fmtDecL n

/-! ### `_format_disassembly` -/

/-- The `while bytes_remaining:` loop: `cur` is `cur_address`, `n` is `bytes_remaining`. -/
def dumpLoop (d : Dev) (mem : Nat → Nat) : Nat → Nat → Str
  | _, 0 => []
  | cur, n + 1 =>
    let cur := if cur > 2 ^ d.addrWidth - 1 then 0 else cur
    fmtHexL d.byteDigits (mem cur) ++ [' '] ++ dumpLoop d mem (cur + 1) n

/-- `fieldwidth = 1 + int(1 + self.byteWidth / 4) * 3` -/
def fieldWidth (d : Dev) : Nat := 1 + (1 + d.byteWidth / 4) * 3

/-- `"%-<w>s" % s`: left-justify in a field of `w` (never truncates). -/
def ljustL (s : Str) (w : Nat) : Str := s ++ List.replicate (w - s.length) ' '

/-- `_format_disassembly(address, length, disasm)`; `mem` is what `self._mpu.memory[cur]` yields. -/
def formatDisassembly (d : Dev) (mem : Nat → Nat) (address length : Nat) (disasm : Str) : Str :=
  ['$'] ++ fmtHexL d.addrDigits address ++ [' ', ' '] ++
    ljustL (dumpLoop d mem address length) (fieldWidth d) ++ disasm

/-! ### reading the displays back (used by the property statements and by the driver's self-check) -/

/-- Split off a fixed-width column. -/
def takeCol (w : Nat) (s : Str) : Str × Str := (s.take w, s.drop w)

/-- Read the second line of `repr` by its fixed columns: skip `name: `, then hex fields of the
device's widths separated by one blank, then `BYTE_WIDTH` flag characters to the end of the line.
`none` when a field does not parse or the line is longer than that. -/
def parseLine2 (d : Dev) (line : Str) : Option Regs :=
  let s := line.drop (d.name.length + 2)
  let (fpc, s) := takeCol d.addrDigits s
  let (fa, s) := takeCol d.byteDigits (s.drop 1)
  let (fx, s) := takeCol d.byteDigits (s.drop 1)
  let (fy, s) := takeCol d.byteDigits (s.drop 1)
  let (fsp, s) := takeCol d.byteDigits (s.drop 1)
  let fp := s.drop 1
  if fp.length ≠ d.byteWidth then none else
  match pyIntL fpc 16, pyIntL fa 16, pyIntL fx 16, pyIntL fy 16, pyIntL fsp 16, pyIntL fp 2 with
  | some pc, some a, some x, some y, some sp, some p =>
    some { pc := pc.toNat, a := a.toNat, x := x.toNat, y := y.toNat, sp := sp.toNat, p := p.toNat }
  | _, _, _, _, _, _ => none

/-- The text after the first newline (the second line of a two-line text). -/
def afterNewline : Str → Str
  | [] => []
  | c :: cs => if c = '\n' then cs else afterNewline cs

/-- Bit `i` (0 = least significant) of `p` as the flag character shown for it. -/
def flagChar (p i : Nat) : Char := if p / 2 ^ i % 2 = 1 then '1' else '0'

end Py65.Model.Fmt
