/-
Run-time vocabulary of the GENERATED dispatcher / command module `Py65/Gen/MonCmdGen.lean`
(produced by `harness/py2lean_moncmd.py` from `/repo/py65/monitor.py` -- `Monitor.onecmd`,
`_output_mpu_status`, `do_registers`, `do_radix`, `do_width`, `do_add_label`, `do_delete_label`,
`do_show_labels`, `do_quit` and the `help_*` they call -- and from the INSTALLED standard library's
`cmd.py` -- `cmd.Cmd.onecmd / parseline / default / emptyline` -- on every run of C20).
Hand-written; no Mathlib.  Everything here is LIBRARY behaviour: "modelled, not verified".

* `CmdSt`: what the translated methods can touch -- the session core of `Model/MonCmd.lean`
  (`self._mpu`'s registers, `self._address_parser.radix / labels`, `self._width`; device, memory and
  breakpoints are only touched by the commands that are NOT translated here), `self.lastcmd`, and the
  lines written to `self.stdout` (`self._output(x)` = `self.stdout.write('%s\n' % x)`: one entry per
  call, the entry is the text before the final newline; an entry may itself contain newlines).
* `PyRet`: the value a command method / `onecmd` returns: `None` or an `int` (`do_quit` returns `1`);
  `PyRet.truthy` is what `cmd.Cmd.cmdloop` tests (`stop`).
* the control vocabulary (`Flow`, `Exc`) and the sequence / `%` helpers are those of `MonGenRt.lean`.
* methods that are not translated (`do_help`, `do_mpu`, `do_assemble`, ...) are reached through the
  parameter `oth : Str → Str → CmdSt → Flow CmdSt PyRet` of the generated functions (attribute name,
  argument string); `tb : Exc → Str` is the text `traceback.format_exception(*sys.exc_info())` joins up
  (file names and line numbers: uninterpreted), `mpuRepr : Core → Str` is `repr(self._mpu)` (builder
  `repr` owns `MPU.__repr__`).
-/
import Py65.Model.MonGenRt

namespace Py65.Model.MonCmdRt
open Py65 Py65.Model.PyStr Py65.Model.AddrParser Py65.Model.MonCmd Py65.Model.MonGenRt

/-- The value returned by a command method / by `onecmd`: `None` or an `int`. -/
abbrev PyRet := Option Int

/-- `bool(result)`: what `cmdloop` tests to stop. -/
def PyRet.truthy : PyRet → Bool
  | some n => n != 0
  | none => false

/-- What the dispatcher and the translated commands can touch. -/
structure CmdSt where
  core : Core            -- device, registers, memory, labels, breakpoints, radix, width
  lastcmd : Str          -- `self.lastcmd` (cmd.Cmd)
  out : List Str         -- the texts given to `self._output` / written (with a newline) to `self.stdout`

/-- `ADDR_FORMAT` of the device (`"%04x"`, 65Org16: `"%08x"`): the width of the hex field. -/
def addrFmtW (d : Dev) : Nat := d.addrWidth / 4

/-! ### attribute lookup on the monitor object -/

/-- `getattr(self, name)` for a name `'do_' + ...`: the monitor has exactly the `do_*` attributes that
are methods of `Monitor` or `cmd.Cmd` (the table `doNames` is collected by the translator);
`none` = `AttributeError`.  The value is the attribute name (the bound method is called by name). -/
def pyGetattrDo (names : List Str) (name : Str) : Option Str :=
  if names.contains name then some name else none

/-- `hasattr(self, name)` for a `do_*` name. -/
def pyHasattrDo (names : List Str) (name : Str) : Bool := names.contains name

/-- `setattr(self._mpu, name, v)` for the six register attributes of an MPU object; `none` = any other
name (the model has no such attribute; the generated code ends with `Exc.Other` there -- the real
`setattr` would create the attribute). -/
def pySetattrMpu (r : Regs) (name : Str) (v : Int) : Option Regs :=
  match regOfName name with
  | some n => some (r.set n v)
  | none => none

/-! ### `repr` of a `str` (`%r`) -/

def hexDigitLower (n : Nat) : Char := digitChar n

/-- One character inside `repr(str)` with quote character `q` (ASCII). -/
def reprChar (q : Char) (c : Char) : Str :=
  if c = q ∨ c = '\\' then ['\\', c]
  else if c = '\t' then ['\\', 't']
  else if c = '\n' then ['\\', 'n']
  else if c = '\r' then ['\\', 'r']
  else if c.toNat < 32 ∨ c.toNat = 127 then
    ['\\', 'x', hexDigitLower (c.toNat / 16), hexDigitLower (c.toNat % 16)]
  else [c]

/-- `repr(s)` / `'%r' % s` for an ASCII `str`: single quotes unless the text contains `'` and no `"`. -/
def pyReprStr (s : Str) : Str :=
  let q : Char := if s.contains '\'' && !s.contains '"' then '"' else '\''
  q :: (s.flatMap (reprChar q)) ++ [q]

/-! ### `KeyError.args[0]` of `AddressParser.number` -/

/-- `exc.args[0]` of the `KeyError` that `self._address_parser.number(num)` raises (only meaningful
when `numberL P num = .key`): `"Label not found: <x>"` where `<x>` is the label of a `label±offset`
text whose label is unknown, the offset when the label is known (the inner `number(offset)` raised),
and `num` itself otherwise. -/
def keyErrorArg0 (P : Parser) (num : Str) : Str :=
  let pfx : Str := "Label not found: ".toList
  if startsWithChar num '$' || startsWithChar num '+' || startsWithChar num '%' then pfx ++ num
  else
    match lookup P.labels num with
    | some _ => pfx ++ num
    | none =>
      match matchOffset num with
      | some (label, _, offset) =>
        match lookup P.labels label with
        | none => pfx ++ label
        | some _ => pfx ++ offset
      | none => pfx ++ num

/-! ### dictionaries (`self._address_parser.labels`) and lists -/

/-- `k in d` -/
def pyDictHas (d : Labels) (k : Str) : Bool := (lookup d k).isSome

/-- `del d[k]`; `none` = `KeyError`. -/
def pyDictDel (d : Labels) (k : Str) : Option Labels :=
  if (lookup d k).isSome then some (d.filter fun kv => kv.1 ≠ k) else none

/-- `d[k] = v` -/
def pyDictSet (d : Labels) (k : Str) (v : Int) : Labels := insert d k v

/-- `list(d.values())` -/
def pyDictValues (d : Labels) : List Int := d.map (·.2)

/-- `list(d.keys())` -/
def pyDictKeys (d : Labels) : List Str := d.map (·.1)

/-- `list(zip(a, b))` -/
def pyZip {α β : Type} (a : List α) (b : List β) : List (α × β) := List.zip a b

/-- `s1 <= s2` on `str` (code points, lexicographic). -/
def strLe : Str → Str → Bool
  | [], _ => true
  | _ :: _, [] => false
  | a :: s, b :: t => if a.toNat < b.toNat then true else if b.toNat < a.toNat then false else strLe s t

/-- `(a1, s1) <= (a2, s2)` on tuples `(int, str)`. -/
def pairLe (p q : Int × Str) : Bool :=
  if p.1 < q.1 then true else if q.1 < p.1 then false else strLe p.2 q.2

/-- Insert into a sorted list, after the elements `≤` it (stable). -/
def sortInsert (x : Int × Str) : List (Int × Str) → List (Int × Str)
  | [] => [x]
  | y :: ys => if pairLe y x then y :: sortInsert x ys else x :: y :: ys

/-- `l.sort()` on a list of `(int, str)` tuples (ascending; stable). -/
def pySortPairs (l : List (Int × Str)) : List (Int × Str) :=
  l.foldl (fun acc x => sortInsert x acc) []

end Py65.Model.MonCmdRt
