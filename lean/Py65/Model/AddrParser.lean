/-
Hand-written executable model of `py65/utils/addressing.py` (`AddressParser`), mirroring the
source line by line.  Tied to the code by the correspondence of harness/props/c15.py
(`num` / `rng` / `lbl` protocol lines).  Imports nothing outside Lean core.

The two regular expressions are replaced by deterministic scanners that are extensionally
`re.match` on ASCII input.  Why a single left-to-right scan is enough although `re` backtracks:

`^([^\s+-]+)\s*([+\-])\s*([$+%]?[0-9a-fA-F]+)$`
  * group 1 is a greedy run over a class that excludes blanks and signs; giving back a character
    would leave a group-1 character in front of `\s*([+\-])`, which can match neither -- so group
    1 is the maximal run;
  * each `\s*` is followed by something that cannot start with a blank, the optional `[$+%]` is
    followed by a hex digit, and `[0-9a-fA-F]+` is followed by `$`: in every case giving back a
    character leaves a character the continuation cannot match.  So every quantifier takes its
    maximal run;
  * `$` (no MULTILINE) matches at the end and just before a final `'\n'`.
  Hence e.g. `'a+b-1'` and `'foo+bar'` do not match, `'a  +  1'`, `'a\t-\t1'`, `'a+1\n'`, `'a-b'`,
  `'foo+bad'` do (the offset `b` / `bad` then goes through `number`: a label of that name wins,
  else it is a number in the default radix), `'a+1 '` does not.

`^([^:,]+)\s*[:,]+\s*([^:,]+)$`
  * group 1 (the class contains the blanks) takes the maximal run of non-separators, so the first
    `\s*` is always empty; `[:,]+` takes the maximal run of separators;
  * the rest `t` must be non-empty and free of separators (else `$` cannot be reached); the second
    `\s*` takes the leading blanks of `t` and group 2 the remainder -- unless `t` is all blanks, in
    which case `\s*` gives back exactly one character and group 2 is the last character of `t`;
  * group 2's class contains `'\n'`, so group 2 runs to the very end (`'a:b\n'` gives `'b\n'`).

The class of the offset digits is isolated in `offsetClass`: `[0-9a-fA-F]` since the repair
"fix: label+offset / label-offset accept offsets with hex digits" (`\d` before it, which made
`foo+$1a` a KeyError: replays/C15-F7-prefix.json).
-/
import Py65.Model.PyStr

namespace Py65.Model.AddrParser
open Py65.Model.PyStr

/-- Outcome of `number`: a value, `KeyError`, `OverflowError`, or any other exception. -/
inductive Res where
  | ok (n : Int)
  | key
  | overflow
  | other
  deriving DecidableEq, Repr

/-- Outcome of `range`. -/
inductive RRes where
  | ok (a b : Int)
  | key
  | overflow
  | other
  deriving DecidableEq, Repr

/-- `self.labels`: an insertion-ordered dictionary as an association list with unique keys. -/
abbrev Labels := List (Str × Int)

/-- `labels.get(k)` -/
def lookup : Labels → Str → Option Int
  | [], _ => none
  | (k, v) :: rest, x => if k = x then some v else lookup rest x

/-- `labels[k] = v`: an existing key keeps its position, a new key goes to the end. -/
def insert : Labels → Str → Int → Labels
  | [], k, v => [(k, v)]
  | (k', v') :: rest, k, v => if k' = k then (k', v) :: rest else (k', v') :: insert rest k v

structure Parser where
  width : Nat            -- `maxwidth`
  radix : Nat            -- `radix`
  labels : Labels
  deriving DecidableEq, Repr

/-- `self._maxaddr = pow(2, width) - 1` -/
def Parser.maxaddr (P : Parser) : Int := (2 : Int) ^ P.width - 1

/-- The label table of a parser built by `__init__` / filled by the monitor: every value went through
`_constrain`. -/
def Parser.WF (P : Parser) : Prop :=
  ∀ k v, lookup P.labels k = some v → 0 ≤ v ∧ v ≤ P.maxaddr

/-- `_constrain`: `if address < 0 or address > self._maxaddr: raise OverflowError`. -/
def constrain (P : Parser) (a : Int) : Res :=
  if a < 0 ∨ a > P.maxaddr then .overflow else .ok a

/-- `AddressParser.__init__`: every label value goes through `_constrain`
(`none` = the constructor raised `OverflowError`). -/
def Parser.init (width radix : Nat) (labels : List (Str × Int)) : Option Parser :=
  let P0 : Parser := { width := width, radix := radix, labels := [] }
  labels.foldl (fun acc kv =>
    match acc with
    | none => none
    | some P =>
      match constrain P0 kv.2 with
      | .ok v => some { P with labels := insert P.labels kv.1 v }
      | _ => none) (some P0)

/-- `label_for(address)`: first label (in insertion order) bound to that address. -/
def labelFor (P : Parser) (address : Int) : Option Str :=
  match P.labels.find? (fun kv => kv.2 == address) with
  | some kv => some kv.1
  | none => none

/-- `address_for(label)` -/
def addressFor (P : Parser) (label : Str) : Option Int := lookup P.labels label

/-! ### the label±offset pattern -/

/-- `[^\s+-]` -/
def isLabelChar (c : Char) : Bool := !(isReSpace c || c = '+' || c = '-')

/-- `[$+%]` -/
def isPrefixChar (c : Char) : Bool := c = '$' || c = '+' || c = '%'

/-- The class of the offset's digits in the pattern: `[0-9a-fA-F]`.  (Isolated so that a change of
the pattern is a one-line change here; the proofs only use that the class lies between `\d` and
`[0-9a-fA-F]`.) -/
def offsetClass (c : Char) : Bool := isHexDigit c

/-- `[$+%]?` in front of the digits: split off an optional prefix character. -/
def splitPrefix (r : Str) : Str × Str :=
  match r with
  | p :: r' => if isPrefixChar p then ([p], r') else ([], r)
  | [] => ([], [])

/-- The part of the pattern after the sign: `\s*([$+%]?[0-9a-fA-F]+)$`. -/
def matchOffsetTail (label : Str) (sign : Char) (r : Str) : Option (Str × Char × Str) :=
  let pr := splitPrefix (r.dropWhile isReSpace)
  let ds := pr.2.takeWhile offsetClass
  let tail := pr.2.dropWhile offsetClass
  if ds = [] then none
  else if tail = [] ∨ tail = ['\n'] then some (label, sign, pr.1 ++ ds)
  else none

/-- `re.match(r'^([^\s+-]+)\s*([+\-])\s*([$+%]?[0-9a-fA-F]+)$', s)` → `(label, sign, offset)`. -/
def matchOffset (s : Str) : Option (Str × Char × Str) :=
  let label := s.takeWhile isLabelChar
  if label = [] then none else
  match (s.dropWhile isLabelChar).dropWhile isReSpace with
  | [] => none
  | sign :: r => if sign = '+' ∨ sign = '-' then matchOffsetTail label sign r else none

/-- `sp` is a string the third group `([$+%]?[0-9a-fA-F]+)` of the pattern can capture: an optional prefix
character and a non-empty run of `offsetClass` characters. -/
def OffsetPat (sp : Str) : Prop :=
  ∃ pre ds, sp = pre ++ ds ∧ (pre = [] ∨ ∃ p, pre = [p] ∧ isPrefixChar p = true) ∧
    ds ≠ [] ∧ ∀ c ∈ ds, offsetClass c = true

/-- The first character is none of `$ + %` (the string is not taken by a number prefix). -/
def NoPrefix (s : Str) : Prop :=
  startsWithChar s '$' = false ∧ startsWithChar s '+' = false ∧ startsWithChar s '%' = false

instance (s : Str) : Decidable (NoPrefix s) := by unfold NoPrefix; infer_instance

/-- `try: return self._constrain(int(text, base)) / except ValueError: raise KeyError` -/
def ofInt (P : Parser) : Option Int → Res
  | none => .key
  | some v => constrain P v

/-- `number` with an explicit bound on the depth of the `self.number(offset)` recursion;
running out of fuel is reported as `other`.  `numberF_fuel` (Proofs/NumLemmas) shows that depth 2
is never exceeded: the offset handed to the inner call cannot match the pattern again. -/
def numberF (P : Parser) : Nat → Str → Res
  | 0, _ => .other
  | fuel + 1, num =>
    if startsWithChar num '$' then ofInt P (pyIntL (num.drop 1) 16)        -- hexadecimal
    else if startsWithChar num '+' then ofInt P (pyIntL (num.drop 1) 10)   -- decimal
    else if startsWithChar num '%' then ofInt P (pyIntL (num.drop 1) 2)    -- binary
    else
      match lookup P.labels num with
      | some a => .ok a                                                      -- label name
      | none =>
        match matchOffset num with
        | some (label, sign, offset) =>
          match lookup P.labels label with
          | none => .key                                                     -- "Label not found"
          | some base =>
            match numberF P fuel offset with
            | .ok off => constrain P (if sign = '+' then base + off else base - off)
            | .key => .key
            | .overflow => .overflow
            | .other => .other
        | none => ofInt P (pyIntL num P.radix)

/-- `AddressParser.number` -/
def numberL (P : Parser) (num : Str) : Res := numberF P 2 num

def number (P : Parser) (num : String) : Res := numberL P num.toList

/-! ### ranges -/

/-- `[:,]` -/
def isSep (c : Char) : Bool := c = ':' || c = ','

/-- `re.match(r'^([^:,]+)\s*[:,]+\s*([^:,]+)$', s)` → `(start, end)`. -/
def matchRange (s : Str) : Option (Str × Str) :=
  let a := s.takeWhile (fun c => !isSep c)
  if a = [] then none else
  let r := s.dropWhile (fun c => !isSep c)
  if r.takeWhile isSep = [] then none else
  let t := r.dropWhile isSep
  if t.any isSep then none else
  match t.getLast? with
  | none => none
  | some last =>
    let b := t.dropWhile isReSpace
    if b = [] then some (a, [last]) else some (a, b)

/-- `if start > end: start, end = end, start; return (start, end)` -/
def ordered (x y : Int) : RRes := if x > y then .ok y x else .ok x y

/-- `AddressParser.range` -/
def rangeL (P : Parser) (s : Str) : RRes :=
  match matchRange s with
  | some (a, b) =>
    match numberL P a with                 -- `start, end = map(self.number, groups)`: start first
    | .ok x =>
      match numberL P b with
      | .ok y => ordered x y
      | .key => .key
      | .overflow => .overflow
      | .other => .other
    | .key => .key
    | .overflow => .overflow
    | .other => .other
  | none =>
    match numberL P s with
    | .ok x => ordered x x
    | .key => .key
    | .overflow => .overflow
    | .other => .other

def range (P : Parser) (s : String) : RRes := rangeL P s.toList

end Py65.Model.AddrParser
