/-
Hand-written executable model of the monitor's command line (`py65/monitor.py`: `onecmd`,
`_preprocess_line`, `_shortcuts`, and the commands that own session state) together with the parts
of CPython 3.12 it runs on (`cmd.Cmd.parseline/onecmd/emptyline/default`, `shlex.split`,
`re.findall` / `re.match` for the two patterns used, `str.strip/lstrip`).  DESIGN.md §3 C20.
Tied to the real `Monitor.onecmd` by the correspondence of `harness/props/c20.py`
(protocol lines `pre`, `cmdline`).  Alphabet: ASCII.

Behaviours pinned by experiment (and re-checked on every run by the correspondence):

* `Monitor.onecmd(line)`: `line = _preprocess_line(line)`; `cmd.Cmd.onecmd` inside
  `try … except KeyboardInterrupt … except Exception` (traceback printed, nothing re-raised);
  status print unless the *preprocessed* line starts with `quit`; returns the command's result.
* `_preprocess_line`: cut at the first `;` seen while the quote flag is off (the flag toggles on
  every `'` **and** `"`, without distinguishing them); `strip(' \t')`; `lstrip('.')`; a leading `~`
  becomes `tilde ` + the rest (the blanks after `~` are kept); then the shortcut table in dict order,
  first hit wins: `line == shortcut` → command, or `re.match('^' + re.escape(shortcut) + r'\s+')` →
  command + `' '` + the text after the matched blanks.  `\s` on ASCII = space \t \n \v \f \r and
  \x1c–\x1f (`PyStr.isReSpace`); `re.escape` only matters for `?` and `~`, which it escapes.
* `cmd.Cmd.parseline`: `str.strip()` (same class as `\s`); empty → (None, None, ''); `?x` → `help x`;
  `!x` → (None, None, line) because there is no `do_shell`; command word = maximal prefix over
  `[A-Za-z0-9_]`; argument = the rest, stripped.
* `cmd.Cmd.onecmd`: empty line → `emptyline()` → `self.onecmd(self.lastcmd)` -- that is
  `Monitor.onecmd` again (preprocess + status) -- when `lastcmd` is non-empty; `!…` → `default()`
  *without* touching `lastcmd`; otherwise `lastcmd = line` (`''` when the line is `EOF`), then
  `default()` for an empty word or a word without `do_<word>`, else `do_<word>(arg)`.
  `default()` prints `*** Unknown syntax: <line>`.
* A `lastcmd` that preprocesses to an empty line (e.g. `.` left by the line `"\v."`) makes the empty
  line recurse until `RecursionError`, which the catch-all absorbs: nothing changes, `None` returned.
* `shlex.split(args)` (posix, `whitespace_split`, no commenters): blanks are space \t \r \n; `'…'`
  literal; `"…"` with `\"` and `\\` escapes (any other `\c` keeps the backslash); `\c` outside quotes
  is `c`; `""` yields an empty token; an open quote or a trailing backslash is `ValueError`.
* `re.findall(r'([^=,\s]*)=([^=,\s]*)', args)`: at each position the first group is the maximal run
  of field characters and must be followed by `=` (giving a character back can never help); a
  failed position advances by one; matches never overlap and are never empty.
* `int(args)` (width, breakpoint number): `PyStr.pyIntL _ 10` (blanks, sign, underscores, 4300 digits).

Commands whose effect on registers and memory is modelled elsewhere (`assemble`, `fill`, `load`,
`goto`, `step`, `return`) are parameters of the dispatcher (`Ext`); by their type they cannot touch
labels, breakpoints, radix, width or the device.  No Mathlib import: linked into the driver.
-/
import Py65.PyInt
import Py65.Model.PyStr
import Py65.Model.AddrParser

namespace Py65.Model.MonCmd
open Py65 Py65.Model.PyStr Py65.Model.AddrParser

/-! ### string helpers -/

/-- The characters `strip(' \t')` removes. -/
def isBlank (c : Char) : Bool := c = ' ' || c = '\t'

/-- `'` or `"` -/
def isQuote (c : Char) : Bool := c = '"' || c = '\''

/-- `cmd.Cmd.identchars` -/
def isIdentChar (c : Char) : Bool :=
  (97 ≤ c.toNat && c.toNat ≤ 122) || (65 ≤ c.toNat && c.toNat ≤ 90) || (48 ≤ c.toNat && c.toNat ≤ 57) || c = '_'

/-- `s.lstrip(chars)` -/
def lstripP (p : Char → Bool) (s : Str) : Str := s.dropWhile p

/-- `s.rstrip(chars)` -/
def rstripP (p : Char → Bool) (s : Str) : Str := (s.reverse.dropWhile p).reverse

/-- `s.strip(' \t')` -/
def stripBlank (s : Str) : Str := rstripP isBlank (lstripP isBlank s)

/-- `s.strip()` (ASCII) -/
def pyStrip (s : Str) : Str := rstripP isReSpace (lstripP isReSpace s)

/-- `s[len(p):]` when `s.startswith(p)` -/
def dropPrefix? : Str → Str → Option Str
  | s, [] => some s
  | [], _ :: _ => none
  | c :: s, d :: p => if c = d then dropPrefix? s p else none

/-! ### `_preprocess_line` -/

/-- The comment loop; `quoted` is the flag *before* the character is looked at. -/
def stripComment : Bool → Str → Str
  | _, [] => []
  | quoted, c :: cs =>
    let quoted := if isQuote c then !quoted else quoted
    if !quoted && c = ';' then [] else c :: stripComment quoted cs

def quit : Str := "quit".toList
def tilde : Str := "tilde".toList
def help : Str := "help".toList

/-- `self._shortcuts`, in dict (insertion) order. -/
def shortcuts : List (Str × Str) :=
  [("EOF".toList, quit), ("~".toList, tilde), ("a".toList, "assemble".toList),
   ("ab".toList, "add_breakpoint".toList), ("al".toList, "add_label".toList),
   ("d".toList, "disassemble".toList), ("db".toList, "delete_breakpoint".toList),
   ("dl".toList, "delete_label".toList), ("exit".toList, quit), ("f".toList, "fill".toList),
   (">".toList, "fill".toList), ("g".toList, "goto".toList), ("h".toList, help), ("?".toList, help),
   ("l".toList, "load".toList), ("m".toList, "mem".toList), ("q".toList, quit),
   ("r".toList, "registers".toList), ("ret".toList, "return".toList), ("rad".toList, "radix".toList),
   ("s".toList, "save".toList), ("shb".toList, "show_breakpoints".toList),
   ("shl".toList, "show_labels".toList), ("x".toList, quit), ("z".toList, "step".toList)]

/-- One round of the shortcut loop: `line == shortcut`, or `^shortcut\s+` matches. -/
def applyShortcut (sc cmd line : Str) : Option Str :=
  if line = sc then some cmd else
  match dropPrefix? line sc with
  | some rest =>
    if (rest.takeWhile isReSpace) = [] then none
    else some (cmd ++ ' ' :: rest.dropWhile isReSpace)
  | none => none

/-- `for shortcut, command in self._shortcuts.items(): … break` -/
def shortcutLoop : List (Str × Str) → Str → Str
  | [], line => line
  | (sc, cmd) :: rest, line =>
    match applyShortcut sc cmd line with
    | some l => l
    | none => shortcutLoop rest line

/-- `if line.startswith('~'): line = self._shortcuts['~'] + ' ' + line[1:]` -/
def tildeCase (line : Str) : Str :=
  match line with
  | c :: rest => if c = '~' then tilde ++ ' ' :: rest else line
  | [] => line

/-- The line after comment, blank and dot removal. -/
def cleaned (line : Str) : Str := lstripP (· = '.') (stripBlank (stripComment false line))

/-- `Monitor._preprocess_line` -/
def preprocessL (line : Str) : Str := shortcutLoop shortcuts (tildeCase (cleaned line))

def preprocess (line : String) : String := String.ofList (preprocessL line.toList)

/-! ### `cmd.Cmd.parseline` -/

inductive Parsed where
  | empty                              -- `(None, None, '')`
  | noCmd (line : Str)                 -- `(None, None, line)`: a `!` line
  | cmd (word arg line : Str)
  deriving Repr, DecidableEq

def parseline (line : Str) : Parsed :=
  match pyStrip line with
  | [] => .empty
  | c :: rest =>
    if c = '!' then .noCmd (c :: rest) else
    let line := if c = '?' then help ++ ' ' :: rest else c :: rest
    .cmd (line.takeWhile isIdentChar) (pyStrip (line.dropWhile isIdentChar)) line

/-! ### `shlex.split` -/

inductive ShState where
  | ws                       -- `' '`
  | word                     -- `'a'`
  | quote (q : Char)         -- inside `'…'` or `"…"`
  | esc (back : Option Char) -- after a backslash; `back` = the quote to return to (`escapedstate`)
  deriving Repr, DecidableEq

/-- `' \t\r\n'` -/
def isShWs (c : Char) : Bool := c = ' ' || c = '\t' || c = '\r' || c = '\n'

/-- The `read_token` state machine run over the whole input.  `quoted`/`tok` are the flag and the
token under construction, `acc` the tokens emitted so far; `none` = `ValueError`. -/
def shlexGo : ShState → Bool → Str → List Str → Str → Option (List Str)
  | .ws, _, _, acc, [] => some acc
  | .word, quoted, tok, acc, [] => if tok = [] ∧ quoted = false then some acc else some (acc ++ [tok])
  | .quote _, _, _, _, [] => none                       -- "No closing quotation"
  | .esc _, _, _, _, [] => none                         -- "No escaped character"
  | .ws, quoted, tok, acc, c :: cs =>
    if isShWs c then shlexGo .ws quoted tok acc cs
    else if c = '\\' then shlexGo (.esc none) quoted tok acc cs
    else if isQuote c then shlexGo (.quote c) quoted tok acc cs
    else shlexGo .word quoted [c] acc cs
  | .word, quoted, tok, acc, c :: cs =>
    if isShWs c then
      (if tok ≠ [] ∨ quoted = true then shlexGo .ws false [] (acc ++ [tok]) cs
       else shlexGo .ws quoted tok acc cs)
    else if isQuote c then shlexGo (.quote c) quoted tok acc cs
    else if c = '\\' then shlexGo (.esc none) quoted tok acc cs
    else shlexGo .word quoted (tok ++ [c]) acc cs
  | .quote q, _, tok, acc, c :: cs =>
    if c = q then shlexGo .word true tok acc cs
    else if c = '\\' ∧ q = '"' then shlexGo (.esc (some q)) true tok acc cs
    else shlexGo (.quote q) true (tok ++ [c]) acc cs
  | .esc back, quoted, tok, acc, c :: cs =>
    match back with
    | some q =>
      let tok := if c ≠ '\\' ∧ c ≠ q then tok ++ ['\\', c] else tok ++ [c]
      shlexGo (.quote q) quoted tok acc cs
    | none => shlexGo .word quoted (tok ++ [c]) acc cs

/-- `shlex.split(s)`; `none` = `ValueError`. -/
def shlexSplit (s : Str) : Option (List Str) := shlexGo .ws false [] [] s

/-! ### session state -/

inductive Dev where
  | d6502 | d65c02 | d65org16
  deriving Repr, DecidableEq

def Dev.byteWidth : Dev → Nat
  | .d65org16 => 16
  | _ => 8

def Dev.addrWidth (d : Dev) : Nat := 2 * d.byteWidth

def Dev.byteMask (d : Dev) : Int := 2 ^ d.byteWidth - 1

/-- `_get_mpu(name)` -/
def devOfName (name : Str) : Option Dev :=
  let n := name.map lower
  if n = "6502".toList then some .d6502
  else if n = "65c02".toList then some .d65c02
  else if n = "65org16".toList then some .d65org16
  else none

structure Regs where
  a : Int
  x : Int
  y : Int
  sp : Int
  p : Int
  pc : Int
  deriving Repr, DecidableEq

/-- Everything C20 says a rejected line must leave alone. -/
structure Core where
  dev : Dev
  regs : Regs
  mem : Int → Int
  labels : Labels
  breakpoints : List (Option Int)
  radix : Nat
  width : Int

structure State where
  core : Core
  lastcmd : Str

/-- The monitor's `AddressParser`. -/
def Core.parser (c : Core) : Parser :=
  { width := c.dev.addrWidth, radix := c.radix, labels := c.labels }

/-- Why a line (or one `name=value` pair) was refused. -/
inductive Reject where
  | unknownSyntax          -- `*** Unknown syntax`
  | syntaxErr              -- `Syntax error: …`
  | usage                  -- wrong argument count answered with the help text
  | label                  -- `Label not found: …`
  | overflow               -- `Overflow…`
  | illegal                -- `Illegal radix/width/number`, `Invalid register`, `Minimum terminal width`, `Unknown MPU`
  | raised                 -- an exception absorbed by `onecmd`'s catch-all
  deriving Repr, DecidableEq

inductive Verdict where
  | ok
  | rejected (why : Reject)
  deriving Repr, DecidableEq

def Verdict.isRejected : Verdict → Bool
  | .ok => false
  | .rejected _ => true

/-- Map a refusal of `number()` that the command does not catch onto the catch-all. -/
def rejectOfRes : Res → Reject
  | .key => .label
  | .overflow => .overflow
  | _ => .raised

/-! ### `do_registers` -/

/-- `[^=,\s]` -/
def isFieldChar (c : Char) : Bool := !(c = '=' || c = ',' || isReSpace c)

/-- `re.findall(r'([^=,\s]*)=([^=,\s]*)', s)` with an explicit bound on the number of steps. -/
def findPairsF : Nat → Str → List (Str × Str)
  | 0, _ => []
  | _, [] => []
  | fuel + 1, c :: cs =>
    match (c :: cs).dropWhile isFieldChar with
    | e :: r2 =>
      if e = '=' then
        ((c :: cs).takeWhile isFieldChar, r2.takeWhile isFieldChar) :: findPairsF fuel (r2.dropWhile isFieldChar)
      else findPairsF fuel cs
    | [] => findPairsF fuel cs

def findPairs (s : Str) : List (Str × Str) := findPairsF (s.length + 1) s

inductive RegName where
  | pc | sp | a | x | y | p
  deriving Repr, DecidableEq

/-- `register in ('pc', 'sp', 'a', 'x', 'y', 'p')` -/
def regOfName (n : Str) : Option RegName :=
  if n = "pc".toList then some .pc
  else if n = "sp".toList then some .sp
  else if n = "a".toList then some .a
  else if n = "x".toList then some .x
  else if n = "y".toList then some .y
  else if n = "p".toList then some .p
  else none

def Regs.get (r : Regs) : RegName → Int
  | .pc => r.pc | .sp => r.sp | .a => r.a | .x => r.x | .y => r.y | .p => r.p

/-- `setattr(self._mpu, register, intval)` -/
def Regs.set (r : Regs) (n : RegName) (v : Int) : Regs :=
  match n with
  | .pc => { r with pc := v } | .sp => { r with sp := v } | .a => { r with a := v }
  | .x => { r with x := v } | .y => { r with y := v } | .p => { r with p := v }

/-- What happens to one `name=value` pair: `some (reg, v)` = assigned. -/
def pairOutcome (d : Dev) (P : Parser) (pair : Str × Str) : Except Reject (RegName × Int) :=
  match regOfName pair.1 with
  | none => .error .illegal                                   -- "Invalid register"
  | some reg =>
    match numberL P pair.2 with
    | .ok v =>
      if reg ≠ .pc ∧ v ≠ Py.land v d.byteMask then .error .overflow   -- too wide for the register
      else .ok (reg, v)
    | .key => .error .label
    | .overflow => .error .overflow
    | .other => .error .raised

/-- The `for register, value in pairs` loop. -/
def regsLoop (d : Dev) (P : Parser) : List (Str × Str) → Regs → List (Except Reject (RegName × Int)) × Regs
  | [], r => ([], r)
  | pair :: rest, r =>
    let o := pairOutcome d P pair
    let r' := match o with | .ok (reg, v) => r.set reg v | .error _ => r
    let t := regsLoop d P rest r'
    (o :: t.1, t.2)

/-- The pair was assigned. -/
def pairAssigned (o : Except Reject (RegName × Int)) : Bool :=
  match o with
  | .ok _ => true
  | .error _ => false

/-- `do_registers(args)`: per-pair outcomes and the new registers.  An empty argument displays
only; no pair at all is a syntax error. -/
def doRegisters (d : Dev) (P : Parser) (r : Regs) (args : Str) :
    Verdict × List (Except Reject (RegName × Int)) × Regs :=
  if args = [] then (.ok, [], r) else
  let pairs := findPairs args
  if pairs = [] then (.rejected .syntaxErr, [], r) else
  let t := regsLoop d P pairs r
  -- the line as a whole counts as rejected when not a single pair was assigned
  let anyOk := t.1.any pairAssigned
  (if anyOk then .ok else .rejected (match t.1.head? with | some (.error e) => e | _ => .illegal), t.1, t.2)

/-! ### the other commands that own session state -/

/-- `do_radix(args)` -/
def doRadix (c : Core) (args : Str) : Verdict × Core :=
  match args with
  | [] => (.ok, c)
  | ch :: _ =>
    let new := lower ch
    if new = 'h' then (.ok, { c with radix := 16 })
    else if new = 'd' then (.ok, { c with radix := 10 })
    else if new = 'o' then (.ok, { c with radix := 8 })
    else if new = 'b' then (.ok, { c with radix := 2 })
    else (.rejected .illegal, c)

/-- `do_width(args)` -/
def doWidth (c : Core) (args : Str) : Verdict × Core :=
  if args = [] then (.ok, c) else
  match pyIntL args 10 with
  | some w => if w ≥ 10 then (.ok, { c with width := w }) else (.rejected .illegal, c)
  | none => (.rejected .illegal, c)

/-- `do_add_label(args)` -/
def doAddLabel (c : Core) (args : Str) : Verdict × Core :=
  match shlexSplit args with
  | none => (.rejected .raised, c)
  | some [addr, label] =>
    match numberL c.parser addr with
    | .ok a => (.ok, { c with labels := insert c.labels label a })
    | r => (.rejected (rejectOfRes r), c)
  | some _ => (.rejected .syntaxErr, c)

/-- `del d[k]` -/
def deleteLabel (l : Labels) (k : Str) : Labels := l.filter fun kv => kv.1 ≠ k

/-- `do_delete_label(args)` -/
def doDeleteLabel (c : Core) (args : Str) : Verdict × Core :=
  if args = [] then (.rejected .usage, c)
  else (.ok, { c with labels := deleteLabel c.labels args })

/-- `do_add_breakpoint(args)` -/
def doAddBreakpoint (c : Core) (args : Str) : Verdict × Core :=
  match shlexSplit args with
  | none => (.rejected .raised, c)
  | some [addr] =>
    match numberL c.parser addr with
    | .ok a =>
      if some a ∈ c.breakpoints then (.ok, c)                       -- "already present"
      else (.ok, { c with breakpoints := c.breakpoints ++ [some a] })
    | r => (.rejected (rejectOfRes r), c)                            -- uncaught → catch-all
  | some _ => (.rejected .syntaxErr, c)

/-- `do_delete_breakpoint(args)` -/
def doDeleteBreakpoint (c : Core) (args : Str) : Verdict × Core :=
  match shlexSplit args with
  | none => (.rejected .raised, c)
  | some [num] =>
    match pyIntL num 10 with
    | none => (.rejected .illegal, c)                                -- "Illegal number"
    | some n =>
      -- `self._output("Invalid breakpoint number %d", number)` is a TypeError (two arguments);
      -- `number == len` passes the test and is an IndexError.  Both end in the catch-all.
      if n < 0 ∨ n ≥ c.breakpoints.length then (.rejected .raised, c)
      else (.ok, { c with breakpoints := c.breakpoints.set n.toNat none })
  | some _ => (.rejected .syntaxErr, c)

/-- The registers a fresh device has (`reset()` with the default `pc=0x0000`). -/
def resetRegs (d : Dev) : Regs := { a := 0, x := 0, y := 0, sp := d.byteMask, p := 0x30, pc := 0 }

/-- `_reset(mpu_type)` with `Monitor(memory=None)`: new device on a zeroed memory, new
`AddressParser` (labels gone, radix 16); breakpoints and width stay. -/
def resetCore (c : Core) (d : Dev) : Core :=
  { c with dev := d, regs := resetRegs d, mem := fun _ => 0, labels := [], radix := 16 }

/-- `do_mpu(args)` -/
def doMpu (c : Core) (args : Str) : Verdict × Core :=
  if args = [] then (.ok, c) else
  match devOfName args with
  | none => (.rejected .illegal, c)
  | some d => (.ok, resetCore c d)

/-! ### dispatch -/

inductive Command where
  | help | version | reset | mpu | quit | assemble | disassemble | step | ret | goto | cycles
  | radix | tilde | registers | cd | pwd | load | save | fill | mem | add_label | show_labels
  | delete_label | width | add_breakpoint | delete_breakpoint | show_breakpoints
  deriving Repr, DecidableEq

/-- The `do_<word>` attributes of a `Monitor`. -/
def commandTable : List (Str × Command) :=
  [("help".toList, .help), ("version".toList, .version), ("reset".toList, .reset), ("mpu".toList, .mpu),
   ("quit".toList, .quit), ("assemble".toList, .assemble), ("disassemble".toList, .disassemble),
   ("step".toList, .step), ("return".toList, .ret), ("goto".toList, .goto), ("cycles".toList, .cycles),
   ("radix".toList, .radix), ("tilde".toList, .tilde), ("registers".toList, .registers),
   ("cd".toList, .cd), ("pwd".toList, .pwd), ("load".toList, .load), ("save".toList, .save),
   ("fill".toList, .fill), ("mem".toList, .mem), ("add_label".toList, .add_label),
   ("show_labels".toList, .show_labels), ("delete_label".toList, .delete_label),
   ("width".toList, .width), ("add_breakpoint".toList, .add_breakpoint),
   ("delete_breakpoint".toList, .delete_breakpoint), ("show_breakpoints".toList, .show_breakpoints)]

def commandOf (word : Str) : Option Command :=
  match commandTable.find? (fun kv => kv.1 = word) with
  | some kv => some kv.2
  | none => none

/-- The commands whose effect on registers and memory is modelled elsewhere. -/
inductive ExtCmd where
  | assemble | fill | load | goto | step | ret
  deriving Repr, DecidableEq

/-- Their semantics as a parameter: verdict, new registers, new memory. -/
structure Ext where
  run : ExtCmd → Core → Str → Verdict × Regs × (Int → Int)

/-- An `Ext` that honours "rejected ⇒ unchanged". -/
def Ext.Honest (ext : Ext) : Prop :=
  ∀ k c arg, (ext.run k c arg).1.isRejected = true →
    (ext.run k c arg).2.1 = c.regs ∧ (ext.run k c arg).2.2 = c.mem

/-- What a command does to the memory: nothing, a fresh zeroed memory, or whatever `Ext` says. -/
inductive MemFx where
  | same | zeroed | ext
  deriving Repr, DecidableEq

/-- Result of one command / one line. -/
structure Res where
  verdict : Verdict
  exit : Bool                 -- the value `onecmd` returns is true
  core : Core
  viaExt : Bool               -- registers/memory came from `Ext`
  pairs : List (Except Reject (RegName × Int))   -- per-pair outcomes of `registers`
  memfx : MemFx

def Res.plain (v : Verdict) (c : Core) : Res :=
  { verdict := v, exit := false, core := c, viaExt := false, pairs := [], memfx := .same }

def runExt (ext : Ext) (k : ExtCmd) (c : Core) (arg : Str) : Res :=
  let r := ext.run k c arg
  { verdict := r.1, exit := false, core := { c with regs := r.2.1, mem := r.2.2 }, viaExt := true, pairs := [],
    memfx := .ext }

/-- `do_<word>(arg)` -/
def runCommand (ext : Ext) (c : Core) (cmd : Command) (arg : Str) : Res :=
  match cmd with
  | .quit => { verdict := .ok, exit := true, core := c, viaExt := false, pairs := [], memfx := .same }
  | .reset => { Res.plain .ok (resetCore c c.dev) with memfx := .zeroed }
  | .mpu =>
    let r := doMpu c arg
    { Res.plain r.1 r.2 with memfx := if arg ≠ [] ∧ (devOfName arg).isSome then .zeroed else .same }
  | .radix => let r := doRadix c arg; .plain r.1 r.2
  | .width => let r := doWidth c arg; .plain r.1 r.2
  | .add_label => let r := doAddLabel c arg; .plain r.1 r.2
  | .delete_label => let r := doDeleteLabel c arg; .plain r.1 r.2
  | .add_breakpoint => let r := doAddBreakpoint c arg; .plain r.1 r.2
  | .delete_breakpoint => let r := doDeleteBreakpoint c arg; .plain r.1 r.2
  | .registers =>
    let r := doRegisters c.dev c.parser c.regs arg
    { verdict := r.1, exit := false, core := { c with regs := r.2.2 }, viaExt := false, pairs := r.2.1,
      memfx := .same }
  | .assemble => runExt ext .assemble c arg
  | .fill => runExt ext .fill c arg
  | .load => runExt ext .load c arg
  | .goto => runExt ext .goto c arg
  | .step => runExt ext .step c arg
  | .ret => runExt ext .ret c arg
  -- display only: whatever they print (or raise into the catch-all), they assign nothing
  | .help | .version | .disassemble | .cycles | .tilde | .cd | .pwd | .save | .mem | .show_labels
  | .show_breakpoints => .plain .ok c

/-- `cmd.Cmd.onecmd` on an already preprocessed, non-empty line. -/
def cmdOnecmd (ext : Ext) (s : State) (line : Str) : Res × Str :=
  match parseline line with
  | .empty => (.plain .ok s.core, s.lastcmd)                        -- not reached through `onecmd`
  | .noCmd _ => (.plain (.rejected .unknownSyntax) s.core, s.lastcmd)
  | .cmd word arg l =>
    let lastcmd := if l = "EOF".toList then [] else l
    if word = [] then (.plain (.rejected .unknownSyntax) s.core, lastcmd) else
    match commandOf word with
    | none => (.plain (.rejected .unknownSyntax) s.core, lastcmd)
    | some cmd => (runCommand ext s.core cmd arg, lastcmd)

/-- `Monitor.onecmd(line)`: result and new state. -/
def onecmdL (ext : Ext) (s : State) (line : Str) : Res × State :=
  let l := preprocessL line
  match parseline l with
  | .empty =>
    -- `emptyline()`: repeat `lastcmd` through `Monitor.onecmd`
    if s.lastcmd = [] then (.plain .ok s.core, s) else
    let l2 := preprocessL s.lastcmd
    match parseline l2 with
    | .empty => (.plain (.rejected .raised) s.core, s)             -- unbounded recursion → RecursionError, absorbed
    | _ => let r := cmdOnecmd ext s l2; (r.1, { core := r.1.core, lastcmd := r.2 })
  | _ => let r := cmdOnecmd ext s l; (r.1, { core := r.1.core, lastcmd := r.2 })

/-- The command word a line is dispatched on (after preprocessing and `parseline`), if any;
for an empty line: the word of the repeated `lastcmd`. -/
def dispatchWord (s : State) (line : Str) : Option Str :=
  match parseline (preprocessL line) with
  | .cmd w _ _ => some w
  | .noCmd _ => none
  | .empty =>
    if s.lastcmd = [] then none else
    match parseline (preprocessL s.lastcmd) with
    | .cmd w _ _ => some w
    | _ => none

/-- Whether the status lines are printed: `not line.startswith("quit")` on the preprocessed line. -/
def printsStatus (line : Str) : Bool := !(startsWith (preprocessL line) quit)

end Py65.Model.MonCmd
