/-
Run-time vocabulary of the GENERATED module `Py65/Gen/MonMemGen.lean` (produced by
`harness/py2lean_monmem.py` from `Monitor.do_fill / do_load / do_save / do_mem` and their
`help_*` methods of `/repo/py65/monitor.py` on every run of C16).  Hand-written; no Mathlib.
Extends `Py65/Model/MonGenRt.lean` (whose helpers the generated text also uses).

Everything here is LIBRARY / OS behaviour, "modelled, not verified":

* exceptions WITH their arguments (`PExc`): `do_fill` prints `exc.args[0]` of the `KeyError` /
  `OverflowError` it catches, `do_load` / `do_save` print `exc.errno` / `exc.strerror` of an
  `OSError`; `MFlow` is `MonGenRt.Flow` over these exceptions;
* the world outside the monitor (`World`): what `open(name, 'rb').read()` returns (the octets, or
  the `OSError(errno, strerror)`), whether `open(name, 'wb')` succeeds, what `urlopen(url).read()`
  returns, and the ARGUMENT the address parser's exceptions carry (the hand model of C15
  `AddrParser.numberL / rangeL` only says which exception it is);
* the part of the monitor the four commands can touch (`MemSt`): the memory object, `self._mpu.pc`
  and `self._width` (read only), the lines given to `self._output`, the files closed after
  writing;
* Python operators and builtins with their failure cases: `//` (`pyFloorDiv`, ZeroDivisionError),
  `>>` / `<<` by a computed amount (`pyShr` / `pyShl`, ValueError for a negative count),
  `bytearray(list)` (`pyByteArray`, ValueError outside 0..255), `sub in s` on strings (`pyStrIn`),
  `l[i::step]` (`pySliceFromStep`), `map(f, a, b)` consumed by `list` (`pyMap2`: stops at the
  shorter argument), `str(exc)`.
-/
import Py65.Model.MonGenRt

namespace Py65.Model.MonMemRt
open Py65 Py65.Model.PyStr Py65.Model.ObsMem Py65.Model.AddrParser Py65.Model.MonMem Py65.Model.MonGenRt

/-- The exceptions the translated command front ends can meet, with the arguments the code looks
at (`exc.args[0]`, `exc.errno`, `exc.strerror`, `str(exc)`). -/
inductive PExc where
  | IndexError | TypeError | ValueError | ZeroDivisionError
  | KeyError (arg : Str)                      -- `exc.args[0]`: "Label not found: …"
  | OverflowError (arg : Int)                 -- `exc.args[0]`: the offending number
  | OSError (errno : Int) (strerror : Str)
  | Other (text : Str)                        -- any other `Exception`; `text` is `str(exc)`
  deriving DecidableEq, Repr

/-- `str(exc)` as far as the commands use it (only for what `urlopen` raised). -/
def PExc.str : PExc → Str
  | .IndexError => "IndexError".toList
  | .TypeError => "TypeError".toList
  | .ValueError => "ValueError".toList
  | .ZeroDivisionError => "integer division or modulo by zero".toList
  | .KeyError a => a
  | .OverflowError a => pyFmtD a
  | .OSError e s => "[Errno ".toList ++ pyFmtD e ++ "] ".toList ++ s
  | .Other t => t

/-- The exception without its arguments (what matters once it has left the command: `onecmd`
prints a traceback). -/
def PExc.strip : PExc → PExc
  | .KeyError _ => .KeyError []
  | .OverflowError _ => .OverflowError 0
  | .OSError _ _ => .OSError 0 []
  | .Other _ => .Other []
  | e => e

/-- How a translated command / loop / `try` body ends (`MonGenRt.Flow` with `PExc`). -/
inductive MFlow (σ : Type) (α : Type) where
  | ok (v : α) (s : σ)
  | raise (e : PExc) (s : σ)
  | nofuel

def MFlow.bind {σ α β : Type} (x : MFlow σ α) (f : α → σ → MFlow σ β) : MFlow σ β :=
  match x with
  | .ok v s => f v s
  | .raise e s => .raise e s
  | .nofuel => .nofuel

@[simp] theorem MFlow.bind_ok {σ α β : Type} (v : α) (s : σ) (f : α → σ → MFlow σ β) :
    (MFlow.ok v s).bind f = f v s := rfl
@[simp] theorem MFlow.bind_raise {σ α β : Type} (e : PExc) (s : σ) (f : α → σ → MFlow σ β) :
    (MFlow.raise e s : MFlow σ α).bind f = .raise e s := rfl
@[simp] theorem MFlow.bind_nofuel {σ α β : Type} (f : α → σ → MFlow σ β) :
    (MFlow.nofuel : MFlow σ α).bind f = .nofuel := rfl

/-- The same end with the exception's arguments forgotten. -/
def MFlow.forget {σ α : Type} : MFlow σ α → MFlow σ α
  | .raise e s => .raise e.strip s
  | x => x

/-- The world outside the monitor, as far as `load` / `save` / the parser's error texts go. -/
structure World where
  /-- `open(name, 'rb').read()`: the octets of the file, or `OSError(errno, strerror)` -/
  openR : Str → Except (Int × Str) (List Int)
  /-- `open(name, 'wb')`: `none` = the file can be written, else `OSError(errno, strerror)` -/
  openW : Str → Option (Int × Str)
  /-- `urlopen(url).read()`: the octets, or `str(exc)` of whatever was raised -/
  urlopen : Str → Except Str (List Int)
  /-- `exc.args[0]` of the `KeyError` that `number(tok)` / `range(tok)` raises -/
  keyText : Str → Str
  /-- `exc.args[0]` of the `OverflowError` that `number(tok)` / `range(tok)` raises -/
  ovfArg : Str → Int

/-- A file object opened for writing: its name and what has been written to it. -/
abbrev WFile := Str × List Int

/-- What `do_fill / do_load / do_save / do_mem` can touch. -/
structure MemSt where
  memory : OM              -- `self._mpu.memory`
  pc : Int                 -- `self._mpu.pc` (only read)
  width : Int              -- `self._width` (only read)
  out : List Str           -- the arguments of `self._output(...)`, oldest first
  files : List WFile       -- files closed after `open(name, 'wb')`, oldest first

/-- An exception of the `fill` unit (`MonGenRt.Exc`, no arguments) as a `PExc`. -/
def excOfFill : Exc → PExc
  | .IndexError => .IndexError
  | .TypeError => .TypeError
  | .ValueError => .ValueError
  | .KeyError => .KeyError []
  | .OverflowError => .OverflowError 0
  | .Other => .Other []

/-- A call of a method of the `fill` unit (`self._fill(...)`, generated in
`Py65/Gen/MonFillGen.lean`) from a command: it runs on the part of the state it can touch. -/
def liftFill (f : FillSt → Flow FillSt Unit) (σ : MemSt) : MFlow MemSt Unit :=
  match f { memory := σ.memory, out := σ.out } with
  | .ok v s => .ok v { σ with memory := s.memory, out := s.out }
  | .raise e s => .raise (excOfFill e) { σ with memory := s.memory, out := s.out }
  | .nofuel => .nofuel

/-! ### the address parser with the arguments of its exceptions -/

/-- `self._address_parser.number(s)` -/
def parseNumberX (w : World) (P : Parser) (s : Str) : Except PExc Int :=
  match numberL P s with
  | .ok v => .ok v
  | .key => .error (.KeyError (w.keyText s))
  | .overflow => .error (.OverflowError (w.ovfArg s))
  | .other => .error (.Other [])

/-- `self._address_parser.range(s)` -/
def parseRangeX (w : World) (P : Parser) (s : Str) : Except PExc (Int × Int) :=
  match rangeL P s with
  | .ok a b => .ok (a, b)
  | .key => .error (.KeyError (w.keyText s))
  | .overflow => .error (.OverflowError (w.ovfArg s))
  | .other => .error (.Other [])

/-! ### files -/

/-- `f = open(name, 'rb')`: the value stands for the file object, `f.read()` is its content
(read once), `f.close()` does nothing to the modelled state. -/
def pyOpenR (w : World) (name : Str) : Except PExc (List Int) :=
  match w.openR name with
  | .ok bs => .ok bs
  | .error e => .error (.OSError e.1 e.2)

/-- `f = urlopen(url)` followed by `f.read()`; any failure is an `Exception` with text `str(exc)`. -/
def pyUrlopen (w : World) (url : Str) : Except PExc (List Int) :=
  match w.urlopen url with
  | .ok bs => .ok bs
  | .error t => .error (.Other t)

/-- `f = open(name, 'wb')` -/
def pyOpenW (w : World) (name : Str) : Except PExc WFile :=
  match w.openW name with
  | none => .ok (name, [])
  | some e => .error (.OSError e.1 e.2)

/-- `f.write(octets)` -/
def pyFileWrite (f : WFile) (octets : List Int) : WFile := (f.1, f.2 ++ octets)

/-- `bytearray(l)` for a list of ints; `none` = `ValueError` (an item outside `range(256)`). -/
def pyByteArray (l : List Int) : Option (List Int) :=
  if l.all (fun v => decide (0 ≤ v) && decide (v ≤ 255)) then some l else none

/-! ### operators and builtins -/

/-- `a // b`; `none` = `ZeroDivisionError`. -/
def pyFloorDiv (a b : Int) : Option Int := if b = 0 then none else some (Int.fdiv a b)

/-- `x >> k`; `none` = `ValueError` (negative shift count). -/
def pyShr (x k : Int) : Option Int := if k < 0 then none else some (Py.shr x k.toNat)

/-- `x << k`; `none` = `ValueError` (negative shift count). -/
def pyShl (x k : Int) : Option Int := if k < 0 then none else some (Py.shl x k.toNat)

/-- `sub in s` for strings: `sub` occurs as a contiguous piece of `s`. -/
def pyStrIn (sub : Str) : Str → Bool
  | [] => sub.isEmpty
  | c :: cs => startsWith (c :: cs) sub || pyStrIn sub cs

/-- every `step`-th item from the front (`step ≥ 1`), bounded by the length of the list. -/
def everyNth {α : Type} (step : Nat) : Nat → List α → List α
  | 0, _ => []
  | _ + 1, [] => []
  | n + 1, x :: xs => x :: everyNth step n (xs.drop (step - 1))

/-- `l[i::step]` for a constant `step ≥ 1`. -/
def pySliceFromStep {α : Type} (l : List α) (i : Int) (step : Nat) : List α :=
  everyNth step l.length (pySliceFrom l i)

/-- `list(map(f, a, b))`: `map` stops at the shorter argument. -/
def pyMap2 {α β γ : Type} (f : α → β → γ) (a : List α) (b : List β) : List γ := List.zipWith f a b

end Py65.Model.MonMemRt
