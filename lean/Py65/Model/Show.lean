/-
Hand-written model of the monitor's display COMMANDS that `Py65/Model/Fmt.lean` does not cover
(DESIGN.md §3 C19): `do_tilde` as a whole and the range walk of `do_disassemble`
(py65/monitor.py).  `Fmt.lean` models the texts (`repr`, the status print, `cyclesText`,
`formatDisassembly`); this file models which texts the two commands print, in which order.

```
def do_tilde(self, args):
    if args == '':
        return self.help_tilde()
    try:
        num = self._address_parser.number(args)
        self._output("+%u" % num)
        self._output("$" + self.byteFmt % num)
        self._output("%04o" % num)
        self._output(itoa(num, 2).zfill(8))
    except KeyError:
        self._output("Bad label: %s" % args)
    except OverflowError:
        self._output("Overflow error: %s" % args)

def do_disassemble(self, args):
    splitted = shlex.split(args)
    if len(splitted) != 1:
        return self.help_disassemble()
    address_parts = splitted[0].split(":")
    start = self._address_parser.number(address_parts[0])
    if len(address_parts) > 1:
        end = self._address_parser.number(address_parts[1])
    else:
        end = start
    max_address = (2 ** self._mpu.ADDR_WIDTH) - 1
    cur_address = start
    needs_wrap = start > end
    while needs_wrap or cur_address <= end:
        length, disasm = self._disassembler.instruction_at(cur_address)
        self._output(self._format_disassembly(cur_address, length, disasm))
        remaining = length
        while remaining:
            remaining -= 1
            cur_address += 1
            if start > end and cur_address > max_address:
                needs_wrap = False
                cur_address = 0
```
Tied to the real code by REGENERATION: `Py65/Proofs/ReprGenEq.lean` proves the functions generated
from the Python text (`Py65/Gen/MonShowGen.lean`) equal to these, for all arguments.
No Mathlib.
-/
import Py65.Model.Fmt
import Py65.Model.ShowRt

namespace Py65.Model.Show
open Py65.Model.PyStr Py65.Model.AddrParser Py65.Model.MonMem

/-! ### `~ <number>` -/

/-- sign and digits: how `%u`, `str()`, `"{0:b}".format` print an int in base `b` -/
def digitsInt (b : Nat) (v : Int) : Str := if v < 0 then '-' :: toDigits b (-v).toNat else toDigits b v.toNat

/-- `"%0<w>o" % v` (the sign counts in the width) -/
def fmtOctInt (w : Nat) (v : Int) : Str := if v < 0 then '-' :: fmtOctL (w - 1) (-v).toNat else fmtOctL w v.toNat

/-- The four lines of `~ n`: `"+%u"`, `"$" + byteFmt`, `"%04o"`, `itoa(n, 2).zfill(8)`; `bw` is the
`N` of `BYTE_FORMAT = "%0Nx"`. -/
def tildeLines (bw : Nat) (n : Int) : List Str :=
  ['+' :: digitsInt 10 n, '$' :: fmtHexInt bw n, fmtOctInt 4 n, zfillL (digitsInt 2 n) 8]

/-- For a number that is not negative (every address the parser returns for a literal is not):
the plain formatters of `PyStr`, the ones `C19.tilde_consistent` is about. -/
theorem tildeLines_nat (bw n : Nat) :
    tildeLines bw (n : Int) = ['+' :: fmtDecL n, '$' :: fmtHexL bw n, fmtOctL 4 n, zfillL (fmtBinL n) 8] := by
  have h : ¬ ((n : Int) < 0) := by omega
  simp only [tildeLines, digitsInt, fmtHexInt, fmtOctInt, h, if_false, Int.toNat_natCast, fmtDecL, fmtBinL]

def helpTilde : List Str :=
  ["~ <number>".toList, "Display a number in decimal, hex, octal, and binary.".toList]

/-- What `do_tilde` does: lines printed, or an exception of the address parser that the command does
not catch (none exists in the model of the parser except the fuel value `other`). -/
inductive TildeOut where
  | lines (l : List Str)
  | raised (r : Res)
  deriving DecidableEq, Repr

/-- `do_tilde(args)`; `bw` as above, `P` the monitor's address parser. -/
def doTilde (bw : Nat) (P : Parser) (args : Str) : TildeOut :=
  if args = [] then .lines helpTilde
  else match numberL P args with
    | .ok n => .lines (tildeLines bw n)
    | .key => .lines ["Bad label: ".toList ++ args]
    | .overflow => .lines ["Overflow error: ".toList ++ args]
    | .other => .raised .other

/-! ### `disassemble <range>` -/

/-- The `while remaining:` loop: `n` increments of the current address.  In a wrapping walk
(`start > end`) an address beyond the top of the address space becomes 0, and that also ends the
phase in which the walk goes on although `cur_address > end` (`needs_wrap`). -/
def advance (maxA : Int) (wrapping : Bool) : Nat → Int → Bool → Int × Bool
  | 0, cur, nw => (cur, nw)
  | n + 1, cur, nw =>
    if wrapping = true ∧ cur + 1 > maxA then advance maxA wrapping n 0 false
    else advance maxA wrapping n (cur + 1) nw

/-- How a walk ends. -/
inductive WalkEnd (ε : Type) where
  | done                 -- the address passed `end`
  | raised (e : ε)       -- `instruction_at` or `_format_disassembly` raised
  | nofuel               -- not within the fuel (Python: the loop does not end, e.g. a length < 0)
  deriving DecidableEq, Repr

/-- The outer loop of `do_disassemble`: the lines printed (oldest first) and how it ended.
`iat` is `self._disassembler.instruction_at`, `fmt` is `self._format_disassembly`, `maxA` is
`2 ** ADDR_WIDTH - 1`; `cur` is `cur_address`, `nw` is `needs_wrap`.  Fuel: one unit per instruction
and, so that the generated loops (which are bounded the same way) agree for EVERY fuel, the inner loop
of an instruction of length `len` must fit into what is left (`len < fuel`); Python has no fuel. -/
def walk {ε : Type} (iat : Int → Except ε (Int × Str)) (fmt : Int → Int → Str → Except ε Str)
    (maxA start end_ : Int) : Nat → Int → Bool → List Str × WalkEnd ε
  | 0, _, _ => ([], .nofuel)
  | fuel + 1, cur, nw =>
    if nw = true ∨ cur ≤ end_ then
      match iat cur with
      | .error e => ([], .raised e)
      | .ok (len, text) =>
        match fmt cur len text with
        | .error e => ([], .raised e)
        | .ok line =>
          if 0 ≤ len ∧ len < fuel then
            let a := advance maxA (decide (start > end_)) len.toNat cur nw
            let r := walk iat fmt maxA start end_ fuel a.1 a.2
            (line :: r.1, r.2)
          else ([line], .nofuel)
    else ([], .done)

def helpDisassemble : List Str :=
  ["disassemble <address_range>".toList, "Disassemble instructions in the address range.".toList,
   "Range is specified like \"<start>:<end>\".".toList]

/-- The range `do_disassemble` walks, or why it does not walk. -/
inductive RangeOut where
  | help                              -- not exactly one token: the usage text
  | shlexError                        -- `shlex.split` raised ValueError (open quote)
  | refused (r : Res)                 -- the address parser raised on start or end
  | range (start end_ : Int)          -- `start`, `end` (a single address: `end = start`)
  deriving DecidableEq, Repr

/-- The argument handling of `do_disassemble`: one shell token, split at `:`, the first two parts
parsed by the monitor's address parser (more parts are ignored, as the code does). -/
def disRange (P : Parser) (args : Str) : RangeOut :=
  match MonCmd.shlexSplit args with
  | none => .shlexError
  | some [tok] =>
    match ShowRt.pySplitChar ':' tok with
    | [] => .refused .other          -- (`str.split` never returns an empty list)
    | s0 :: rest =>
      match numberL P s0 with
      | .ok start =>
        match (match rest with | [] => Res.ok start | s1 :: _ => numberL P s1) with
        | .ok end_ => .range start end_
        | r => .refused r
      | r => .refused r
  | some _ => .help

/-- What `do_disassemble` does. -/
inductive DisOut (ε : Type) where
  | help
  | shlexError
  | refused (r : Res)
  | walked (lines : List Str) (e : WalkEnd ε)      -- the walk from `start`
  deriving DecidableEq, Repr

/-- `do_disassemble(args)`; `aw` = `ADDR_WIDTH`. -/
def doDisassemble {ε : Type} (iat : Int → Except ε (Int × Str)) (fmt : Int → Int → Str → Except ε Str)
    (aw : Nat) (P : Parser) (fuel : Nat) (args : Str) : DisOut ε :=
  match disRange P args with
  | .help => .help
  | .shlexError => .shlexError
  | .refused r => .refused r
  | .range start end_ =>
    let r := walk iat fmt ((2 : Int) ^ aw - 1) start end_ fuel start (decide (start > end_))
    .walked r.1 r.2

/-! ### what a completed walk has visited (used by the property statements) -/

/-- `Visits iat maxA start end_ cur nw vs`: from the address `cur` (flag `needs_wrap = nw`) the walk
visits exactly the instructions `vs = [(address, length, text), …]`: each is what the disassembler
returns at its address, the next address is `length` cells on (`advance`), and the walk stops at the
first address beyond `end_` once it no longer has to wrap. -/
inductive Visits {ε : Type} (iat : Int → Except ε (Int × Str)) (maxA start end_ : Int) :
    Int → Bool → List (Int × Int × Str) → Prop where
  | stop {cur : Int} {nw : Bool} : ¬ (nw = true ∨ cur ≤ end_) → Visits iat maxA start end_ cur nw []
  | step {cur : Int} {nw : Bool} {len : Int} {text : Str} {rest : List (Int × Int × Str)} :
      (nw = true ∨ cur ≤ end_) → iat cur = .ok (len, text) → 0 ≤ len →
      Visits iat maxA start end_ (advance maxA (decide (start > end_)) len.toNat cur nw).1
        (advance maxA (decide (start > end_)) len.toNat cur nw).2 rest →
      Visits iat maxA start end_ cur nw ((cur, len, text) :: rest)

/-- The same for an ordinary range (`start ≤ end`): the next address is `address + length`. -/
inductive Steps {ε : Type} (iat : Int → Except ε (Int × Str)) (end_ : Int) : Int → List (Int × Int × Str) → Prop where
  | stop {cur : Int} : end_ < cur → Steps iat end_ cur []
  | step {cur : Int} {len : Int} {text : Str} {rest : List (Int × Int × Str)} :
      cur ≤ end_ → iat cur = .ok (len, text) → 0 ≤ len → Steps iat end_ (cur + len) rest →
      Steps iat end_ cur ((cur, len, text) :: rest)

end Py65.Model.Show
