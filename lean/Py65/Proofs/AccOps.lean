import Py65.Proofs.AccLog
set_option linter.unusedSimpArgs false
namespace Py65.Proofs
open Py65 Py65.Gen Py65.Spec Py

/-- What the properties demand of a handler, aspect *log*: the events it appends are, as a multiset,
the operand fetches and data accesses of the instruction's definition. -/
def HandlerAcc (c : Cfg) (v : Variant) (h : St → St) (mn : Mn) (mo : Mode) : Prop :=
  ∀ s, WF c s → ∃ T : List Acc, acl (h s) = T.reverse ++ acl s ∧
    T.Perm (instrAccesses c.BYTE_WIDTH v mn mo (core s))

def Mode.isData : Mode → Bool
  | .imm | .zpg | .zpx | .zpy | .abs | .abx | .aby | .inx | .iny | .zpi => true
  | _ => false

theorem trace_read (W : Nat) (v : Variant) (mn : Mn) (mo : Mode) (s : AState)
    (hmn : mn.isRead = true) (hmo : Mode.isData mo = true) :
    modeTrace W mo s ++ [Acc.r (ea W mo s)] = instrAccesses W v mn mo s := by
  cases mn <;> simp [Mn.isRead] at hmn <;> cases mo <;> simp [Mode.isData] at hmo <;>
    simp [modeTrace, instrAccesses, fetched, dataAccesses, operandAddrs, pointerReads, Mode.len, ea,
      Mn.isRead, Mn.isStore, Mn.isRmw]

theorem trace_store (W : Nat) (v : Variant) (mn : Mn) (mo : Mode) (s : AState)
    (hmn : mn.isStore = true) (hmo : Mode.isData mo = true) (hi : mo ≠ .imm) :
    modeTrace W mo s ++ [Acc.w (ea W mo s)] = instrAccesses W v mn mo s := by
  cases mn <;> simp [Mn.isStore] at hmn <;> cases mo <;> simp [Mode.isData] at hmo hi <;>
    simp [modeTrace, instrAccesses, fetched, dataAccesses, operandAddrs, pointerReads, Mode.len, ea,
      Mn.isRead, Mn.isStore, Mn.isRmw]

theorem trace_rmw (W : Nat) (v : Variant) (mn : Mn) (mo : Mode) (s : AState)
    (hmn : mn.isRmw = true) (hmo : Mode.isData mo = true) (hi : mo ≠ .imm) :
    modeTrace W mo s ++ [Acc.r (ea W mo s), Acc.w (ea W mo s)] = instrAccesses W v mn mo s := by
  cases mn <;> simp [Mn.isRmw] at hmn <;> cases mo <;> simp [Mode.isData] at hmo hi <;>
    simp [modeTrace, instrAccesses, fetched, dataAccesses, operandAddrs, pointerReads, Mode.len, ea,
      Mn.isRead, Mn.isStore, Mn.isRmw]

theorem read_acc (c : Cfg) (v : Variant) (f : St → St) (x : St → Int × St) (mn : Mn) (mo : Mode) (k : Int)
    (hmn : mn.isRead = true) (hmo : Mode.isData mo = true)
    (hx : ModeSem c x mo) (hl : ModeAcc c x mo)
    (hop : ∀ s, acl (f s) = Acc.r (x s).1 :: acl (x s).2) :
    HandlerAcc c v (fun s => bump k (f s)) mn mo := by
  intro s hs
  refine ⟨modeTrace c.BYTE_WIDTH mo (core s) ++ [Acc.r (ea c.BYTE_WIDTH mo (core s))], ?_,
    List.Perm.of_eq (trace_read _ v mn mo _ hmn hmo)⟩
  have e : acl (bump k (f s)) = acl (f s) := rfl
  rw [e, hop, (hx s hs).1, hl s hs]
  simp

theorem store_acc (c : Cfg) (v : Variant) (f : St → St) (x : St → Int × St) (mn : Mn) (mo : Mode) (k : Int)
    (hmn : mn.isStore = true) (hmo : Mode.isData mo = true) (hi : mo ≠ .imm)
    (hx : ModeSem c x mo) (hl : ModeAcc c x mo)
    (hop : ∀ s, acl (f s) = Acc.w (x s).1 :: acl (x s).2) :
    HandlerAcc c v (fun s => bump k (f s)) mn mo := by
  intro s hs
  refine ⟨modeTrace c.BYTE_WIDTH mo (core s) ++ [Acc.w (ea c.BYTE_WIDTH mo (core s))], ?_,
    List.Perm.of_eq (trace_store _ v mn mo _ hmn hmo hi)⟩
  have e : acl (bump k (f s)) = acl (f s) := rfl
  rw [e, hop, (hx s hs).1, hl s hs]
  simp

theorem rmw_acc (c : Cfg) (v : Variant) (f : St → St) (x : St → Int × St) (mn : Mn) (mo : Mode) (k : Int)
    (hmn : mn.isRmw = true) (hmo : Mode.isData mo = true) (hi : mo ≠ .imm)
    (hx : ModeSem c x mo) (hl : ModeAcc c x mo)
    (hop : ∀ s, acl (f s) = Acc.w (x s).1 :: Acc.r (x s).1 :: acl (x s).2) :
    HandlerAcc c v (fun s => bump k (f s)) mn mo := by
  intro s hs
  refine ⟨modeTrace c.BYTE_WIDTH mo (core s) ++ [Acc.r (ea c.BYTE_WIDTH mo (core s)), Acc.w (ea c.BYTE_WIDTH mo (core s))], ?_,
    List.Perm.of_eq (trace_rmw _ v mn mo _ hmn hmo hi)⟩
  have e : acl (bump k (f s)) = acl (f s) := rfl
  rw [e, hop, (hx s hs).1, hl s hs]
  simp

/-- Instructions that touch no memory beyond their opcode. -/
theorem none_acc (c : Cfg) (v : Variant) (h : St → St) (mn : Mn) (mo : Mode)
    (hlog : ∀ s, acl (h s) = acl s)
    (hspec : ∀ s, instrAccesses c.BYTE_WIDTH v mn mo s = []) : HandlerAcc c v h mn mo := by
  intro s _
  exact ⟨[], by simp [hlog], by rw [hspec]⟩

/-! ### what each operation helper appends to the log -/

set_option hygiene false in
macro "op_acl" "[" ls:Lean.Parser.Tactic.simpLemma,* "]" : tactic =>
  `(tactic| (
    intro s
    dsimp +instances only [$ls,*, Mpu6502.FlagsNZ, Mpu6502.ByteAt, memGet, memSet, acl]
    simp +instances only [apply_ite Prod.snd, apply_ite Prod.fst, apply_ite St.log, ite_self,
      List.map_cons, accOf]))

variable (c : Cfg) (x : St → Int × St)

theorem opORA_acl : ∀ s, acl (Mpu6502.opORA c x s) = Acc.r (x s).1 :: acl (x s).2 := by op_acl [Mpu6502.opORA]
theorem opAND_acl : ∀ s, acl (Mpu6502.opAND c x s) = Acc.r (x s).1 :: acl (x s).2 := by op_acl [Mpu6502.opAND]
theorem opEOR_acl : ∀ s, acl (Mpu6502.opEOR c x s) = Acc.r (x s).1 :: acl (x s).2 := by op_acl [Mpu6502.opEOR]
theorem opADC_acl : ∀ s, acl (Mpu6502.opADC c x s) = Acc.r (x s).1 :: acl (x s).2 := by op_acl [Mpu6502.opADC]
theorem opSBC_acl : ∀ s, acl (Mpu6502.opSBC c x s) = Acc.r (x s).1 :: acl (x s).2 := by op_acl [Mpu6502.opSBC]
theorem opLDA_acl : ∀ s, acl (Mpu6502.opLDA c x s) = Acc.r (x s).1 :: acl (x s).2 := by op_acl [Mpu6502.opLDA]
theorem opLDX_acl : ∀ s, acl (Mpu6502.opLDX c x s) = Acc.r (x s).1 :: acl (x s).2 := by op_acl [Mpu6502.opLDX]
theorem opLDY_acl : ∀ s, acl (Mpu6502.opLDY c x s) = Acc.r (x s).1 :: acl (x s).2 := by op_acl [Mpu6502.opLDY]
theorem opBIT_acl : ∀ s, acl (Mpu6502.opBIT c x s) = Acc.r (x s).1 :: acl (x s).2 := by op_acl [Mpu6502.opBIT]
theorem opCMPR_acl (r : St → Int) : ∀ s, acl (Mpu6502.opCMPR c x (r s) s) = Acc.r (x s).1 :: acl (x s).2 := by
  op_acl [Mpu6502.opCMPR]
theorem opSTA_acl : ∀ s, acl (Mpu6502.opSTA c x s) = Acc.w (x s).1 :: acl (x s).2 := by op_acl [Mpu6502.opSTA]
theorem opSTX_acl : ∀ s, acl (Mpu6502.opSTX c x s) = Acc.w (x s).1 :: acl (x s).2 := by op_acl [Mpu6502.opSTX]
theorem opSTY_acl : ∀ s, acl (Mpu6502.opSTY c x s) = Acc.w (x s).1 :: acl (x s).2 := by op_acl [Mpu6502.opSTY]
theorem opSTZ_acl : ∀ s, acl (Mpu65c02.opSTZ c x s) = Acc.w (x s).1 :: acl (x s).2 := by op_acl [Mpu65c02.opSTZ]
theorem opASL_mem_acl : ∀ s, acl (Mpu6502.opASL_mem c x s) = Acc.w (x s).1 :: Acc.r (x s).1 :: acl (x s).2 := by op_acl [Mpu6502.opASL_mem]
theorem opLSR_mem_acl : ∀ s, acl (Mpu6502.opLSR_mem c x s) = Acc.w (x s).1 :: Acc.r (x s).1 :: acl (x s).2 := by op_acl [Mpu6502.opLSR_mem]
theorem opROL_mem_acl : ∀ s, acl (Mpu6502.opROL_mem c x s) = Acc.w (x s).1 :: Acc.r (x s).1 :: acl (x s).2 := by op_acl [Mpu6502.opROL_mem]
theorem opROR_mem_acl : ∀ s, acl (Mpu6502.opROR_mem c x s) = Acc.w (x s).1 :: Acc.r (x s).1 :: acl (x s).2 := by op_acl [Mpu6502.opROR_mem]
theorem opINCR_mem_acl : ∀ s, acl (Mpu6502.opINCR_mem c x s) = Acc.w (x s).1 :: Acc.r (x s).1 :: acl (x s).2 := by op_acl [Mpu6502.opINCR_mem]
theorem opDECR_mem_acl : ∀ s, acl (Mpu6502.opDECR_mem c x s) = Acc.w (x s).1 :: Acc.r (x s).1 :: acl (x s).2 := by op_acl [Mpu6502.opDECR_mem]
theorem opTSB_acl : ∀ s, acl (Mpu65c02.opTSB c x s) = Acc.w (x s).1 :: Acc.r (x s).1 :: acl (x s).2 := by op_acl [Mpu65c02.opTSB]
theorem opTRB_acl : ∀ s, acl (Mpu65c02.opTRB c x s) = Acc.w (x s).1 :: Acc.r (x s).1 :: acl (x s).2 := by op_acl [Mpu65c02.opTRB]
theorem opRMB_acl (m : Int) : ∀ s, acl (Mpu65c02.opRMB c x m s) = Acc.w (x s).1 :: Acc.r (x s).1 :: acl (x s).2 := by op_acl [Mpu65c02.opRMB]
theorem opSMB_acl (m : Int) : ∀ s, acl (Mpu65c02.opSMB c x m s) = Acc.w (x s).1 :: Acc.r (x s).1 :: acl (x s).2 := by op_acl [Mpu65c02.opSMB]

theorem opASL_acc_acl : ∀ s, acl (Mpu6502.opASL_acc c s) = acl s := by op_acl [Mpu6502.opASL_acc]
theorem opLSR_acc_acl : ∀ s, acl (Mpu6502.opLSR_acc c s) = acl s := by op_acl [Mpu6502.opLSR_acc]
theorem opROL_acc_acl : ∀ s, acl (Mpu6502.opROL_acc c s) = acl s := by op_acl [Mpu6502.opROL_acc]
theorem opROR_acc_acl : ∀ s, acl (Mpu6502.opROR_acc c s) = acl s := by op_acl [Mpu6502.opROR_acc]
theorem opINCR_acc_acl : ∀ s, acl (Mpu6502.opINCR_acc c s) = acl s := by op_acl [Mpu6502.opINCR_acc]
theorem opDECR_acc_acl : ∀ s, acl (Mpu6502.opDECR_acc c s) = acl s := by op_acl [Mpu6502.opDECR_acc]

end Py65.Proofs
