/-
Common definitions for the CPU proofs: which configurations are devices, well-formed states,
the abstraction from a generated-model state to a specification state, the addressing-mode
contract.
-/
import Py65.Proofs.CpuTac
import Py65.Gen.Devices
import Py65.Spec.Cycles

namespace Py65.Proofs
open Py65 Py65.Gen Py65.Spec Py

/-- The 65C02 instance has the same numeric configuration as the 6502 instance. -/
theorem dev65c02_cfg : dev65c02.cfg = dev6502.cfg := rfl

/-- The two distinct configurations (byte width 8 and 16). -/
def IsDev (c : Cfg) : Prop := c = dev6502.cfg ∨ c = dev65org16.cfg

/-- Well-formed machine state: registers within the byte, PC within the address space, every
memory cell within the byte ("any memory contents" is literally quantified: `mem` is an
arbitrary total function). -/
structure WF (c : Cfg) (s : St) : Prop where
  a : 0 ≤ s.a ∧ s.a ≤ c.byteMask
  x : 0 ≤ s.x ∧ s.x ≤ c.byteMask
  y : 0 ≤ s.y ∧ s.y ≤ c.byteMask
  sp : 0 ≤ s.sp ∧ s.sp ≤ c.byteMask
  p : 0 ≤ s.p ∧ s.p ≤ c.byteMask
  pc : 0 ≤ s.pc ∧ s.pc ≤ c.addrMask
  mem : ∀ k, 0 ≤ s.mem k ∧ s.mem k ≤ c.byteMask

/-- What the properties observe of a model state, status register as stored. -/
def core (s : St) : AState :=
  { a := s.a, x := s.x, y := s.y, sp := s.sp, p := s.p, pc := s.pc, mem := s.mem, waiting := s.waiting }

/-- Abstraction: forget `cycles / excycles / addcycles / log`, force status bits 4 and 5. -/
def abs (s : St) : AState := { core s with p := normP s.p }

/-- Abstraction of the state a handler leaves (PC not yet reduced modulo the address space;
`step()` does that right after). -/
def absH (c : Cfg) (s : St) : AState := { core s with p := normP s.p, pc := s.pc % (c.addrMask + 1) }

/-- Contract of an addressing-mode helper: it returns the specification's effective address and
changes nothing the properties observe (it may log reads and bump `excycles`). -/
def ModeSem (c : Cfg) (x : St → Int × St) (mo : Mode) : Prop :=
  ∀ s, WF c s → (x s).1 = ea c.BYTE_WIDTH mo (core s) ∧ core (x s).2 = core s

end Py65.Proofs

namespace Py65.Proofs
open Py65 Py65.Gen Py65.Spec Py

/-! ### configuration constants as rewrite rules (the structure itself is never unfolded) -/

section
variable (c : Cfg)
@[pyarith, pyconst] theorem cfg8_BYTE_WIDTH : dev6502.cfg.BYTE_WIDTH = 8 := rfl
@[pyarith, pyconst] theorem cfg8_ADDR_WIDTH : dev6502.cfg.ADDR_WIDTH = 16 := rfl
@[pyarith, pyconst] theorem cfg8_byteMask : dev6502.cfg.byteMask = 255 := rfl
@[pyarith, pyconst] theorem cfg8_addrMask : dev6502.cfg.addrMask = 65535 := rfl
@[pyarith, pyconst] theorem cfg8_addrHighMask : dev6502.cfg.addrHighMask = 65280 := rfl
@[pyarith, pyconst] theorem cfg8_spBase : dev6502.cfg.spBase = 256 := rfl
@[pyarith, pyconst] theorem cfg8_RESET : dev6502.cfg.RESET = 65532 := rfl
@[pyarith, pyconst] theorem cfg8_NMI : dev6502.cfg.NMI = 65530 := rfl
@[pyarith, pyconst] theorem cfg8_IRQ : dev6502.cfg.IRQ = 65534 := rfl
@[pyarith, pyconst] theorem cfg8_NEGATIVE : dev6502.cfg.NEGATIVE = 128 := rfl
@[pyarith, pyconst] theorem cfg8_OVERFLOW : dev6502.cfg.OVERFLOW = 64 := rfl
@[pyarith, pyconst] theorem cfg8_UNUSED : dev6502.cfg.UNUSED = 32 := rfl
@[pyarith, pyconst] theorem cfg8_BREAK : dev6502.cfg.BREAK = 16 := rfl
@[pyarith, pyconst] theorem cfg8_DECIMAL : dev6502.cfg.DECIMAL = 8 := rfl
@[pyarith, pyconst] theorem cfg8_INTERRUPT : dev6502.cfg.INTERRUPT = 4 := rfl
@[pyarith, pyconst] theorem cfg8_ZERO : dev6502.cfg.ZERO = 2 := rfl
@[pyarith, pyconst] theorem cfg8_CARRY : dev6502.cfg.CARRY = 1 := rfl
@[pyarith, pyconst] theorem cfg16_BYTE_WIDTH : dev65org16.cfg.BYTE_WIDTH = 16 := rfl
@[pyarith, pyconst] theorem cfg16_ADDR_WIDTH : dev65org16.cfg.ADDR_WIDTH = 32 := rfl
@[pyarith, pyconst] theorem cfg16_byteMask : dev65org16.cfg.byteMask = 65535 := rfl
@[pyarith, pyconst] theorem cfg16_addrMask : dev65org16.cfg.addrMask = 4294967295 := rfl
@[pyarith, pyconst] theorem cfg16_addrHighMask : dev65org16.cfg.addrHighMask = 4294901760 := rfl
@[pyarith, pyconst] theorem cfg16_spBase : dev65org16.cfg.spBase = 65536 := rfl
@[pyarith, pyconst] theorem cfg16_RESET : dev65org16.cfg.RESET = 65532 := rfl
@[pyarith, pyconst] theorem cfg16_NMI : dev65org16.cfg.NMI = 65530 := rfl
@[pyarith, pyconst] theorem cfg16_IRQ : dev65org16.cfg.IRQ = 65534 := rfl
@[pyarith, pyconst] theorem cfg16_NEGATIVE : dev65org16.cfg.NEGATIVE = 32768 := rfl
@[pyarith, pyconst] theorem cfg16_OVERFLOW : dev65org16.cfg.OVERFLOW = 16384 := rfl
@[pyarith, pyconst] theorem cfg16_UNUSED : dev65org16.cfg.UNUSED = 32 := rfl
@[pyarith, pyconst] theorem cfg16_BREAK : dev65org16.cfg.BREAK = 16 := rfl
@[pyarith, pyconst] theorem cfg16_DECIMAL : dev65org16.cfg.DECIMAL = 8 := rfl
@[pyarith, pyconst] theorem cfg16_INTERRUPT : dev65org16.cfg.INTERRUPT = 4 := rfl
@[pyarith, pyconst] theorem cfg16_ZERO : dev65org16.cfg.ZERO = 2 := rfl
@[pyarith, pyconst] theorem cfg16_CARRY : dev65org16.cfg.CARRY = 1 := rfl
end

/-- Field-wise reading of `core s' = core s`. -/
theorem core_fields {s' s : St} (h : core s' = core s) :
    s'.a = s.a ∧ s'.x = s.x ∧ s'.y = s.y ∧ s'.sp = s.sp ∧ s'.p = s.p ∧ s'.pc = s.pc ∧
    s'.mem = s.mem ∧ s'.waiting = s.waiting := by
  simp only [core, AState.mk.injEq] at h
  exact h

/-- Field-wise reading of `core s' = A`. -/
theorem core_eq {s' : St} {A : AState} (h : core s' = A) :
    s'.a = A.a ∧ s'.x = A.x ∧ s'.y = A.y ∧ s'.sp = A.sp ∧ s'.p = A.p ∧ s'.pc = A.pc ∧
    s'.mem = A.mem ∧ s'.waiting = A.waiting := by
  subst h; exact ⟨rfl, rfl, rfl, rfl, rfl, rfl, rfl, rfl⟩

/-- WF only looks at the core. -/
theorem WF_of_core {c : Cfg} {s' s : St} (h : core s' = core s) (hs : WF c s) : WF c s' := by
  obtain ⟨ha, hx, hy, hsp, hp, hpc, hmem, _⟩ := core_fields h
  exact ⟨ha ▸ hs.a, hx ▸ hs.x, hy ▸ hs.y, hsp ▸ hs.sp, hp ▸ hs.p, hpc ▸ hs.pc, hmem ▸ hs.mem⟩

/-- closing tactic: linear arithmetic, possibly under a few layers of function application -/
macro "pyclose" : tactic =>
  `(tactic| (repeat' (first | omega | with_reducible rfl | congr 1)))

end Py65.Proofs


namespace Py65.Proofs

theorem setFlag_congr {a a' : Int} {k : Nat} {b b' : Bool} (h1 : a = a') (h2 : b = b') :
    Py65.Spec.setFlag a k b = Py65.Spec.setFlag a' k b' := by rw [h1, h2]

theorem true_eq_decide (P : Prop) [Decidable P] : (true = decide P) = P := by
  by_cases h : P <;> simp [h]
theorem false_eq_decide (P : Prop) [Decidable P] : (false = decide P) = ¬P := by
  by_cases h : P <;> simp [h]

/-- Boolean goal about decidable linear-arithmetic facts. -/
macro "bool_omega" : tactic =>
  `(tactic| (
    simp only [Py65.Spec.flag, Py65.Spec.eqB, Py65.Spec.geB, Py65.Spec.ltB, true_eq_decide, false_eq_decide, decide_eq_true_eq, decide_eq_false_iff_not,
      decide_eq_decide, Bool.not_eq_true, Bool.or_eq_true, Bool.and_eq_true, Bool.not_eq_true']
    first | omega | (constructor <;> intro _ <;> omega)))

/-- Fold configuration constants and widths definitionally (also inside `Decidable` instances,
which `simp` does not rewrite). -/
syntax (name := constfoldL) "constfold" "[" Lean.Parser.Tactic.simpLemma,* "]" (Lean.Parser.Tactic.location)? : tactic
syntax (name := constfoldN) "constfold" (Lean.Parser.Tactic.location)? : tactic
macro_rules (kind := constfoldL)
  | `(tactic| constfold [$ls,*] $[$loc]?) =>
    `(tactic| try dsimp only [$ls,*, Py65.Spec.BM, Py65.Spec.AM, Py65.Spec.bitN, Py65.Spec.bitV,
      Py65.Spec.bitC, Py65.Spec.bitZ, Py65.Spec.bitI, Py65.Spec.bitD, Py65.Spec.bitB,
      Py65.Spec.bitU, pyconst, Int.reducePow, Nat.reduceSub, Nat.reduceMul, Int.reduceNeg,
      Int.reduceAdd, Int.reduceSub] $[$loc]?)
macro_rules (kind := constfoldN)
  | `(tactic| constfold $[$loc]?) =>
    `(tactic| try dsimp only [Py65.Spec.BM, Py65.Spec.AM, Py65.Spec.bitN, Py65.Spec.bitV,
      Py65.Spec.bitC, Py65.Spec.bitZ, Py65.Spec.bitI, Py65.Spec.bitD, Py65.Spec.bitB,
      Py65.Spec.bitU, pyconst, Int.reducePow, Nat.reduceSub, Nat.reduceMul, Int.reduceNeg,
      Int.reduceAdd, Int.reduceSub] $[$loc]?)

/-- Close goals that are equalities of `setFlag` chains / Boolean flag values / small linear
arithmetic, possibly under contradictory hypotheses. -/
macro "flag_close" : tactic =>
  `(tactic| (
    try simp only [Py65.Spec.flag, Py65.Spec.eqB, Py65.Spec.geB, Py65.Spec.ltB, decide_eq_true_eq, decide_eq_false_iff_not, Bool.not_eq_true,
      Int.reducePow] at *
    repeat' (first | with_reducible rfl | apply setFlag_congr)
    all_goals (first | omega | bool_omega | (simp <;> omega) | (exfalso; omega))))
end Py65.Proofs
