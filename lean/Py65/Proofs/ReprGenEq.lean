/-
Tie by regeneration, C19: the GENERATED display functions

* `Py65/Gen/ReprGen.lean`    -- `MPU.__repr__` / `reprformat` of the three device classes
                                (py65/devices/mpu6502.py, mpu65c02.py, mpu65org16.py),
* `Py65/Gen/MonShowGen.lean` -- `Monitor._output_mpu_status`, `do_cycles`, `do_tilde`, `do_disassemble`
                                (py65/monitor.py),

both translated by `harness/py2lean_show.py` on every run, equal the hand-written models
`Py65.Model.Fmt` (`repr`, `status`, `cyclesText`) and `Py65.Model.Show` (`doTilde`, `walk`,
`doDisassemble`), for ALL arguments.  Other translated code enters the generated functions as
parameters (`itoa`, `mpurepr`, `iat`, `fmtdis`); the equalities hold for EVERY value of the parameters
that are only called (`iat`, `fmtdis`: any disassembler, any line formatter), and for every `itoa` /
`mpurepr` that is what `DisasmGenEq.itoa_eq_*` resp. `repr_eq_*` below prove of the generated ones
(`Py65/Props/C19g.lean` does the instantiation).
These are the proof obligations a change of those Python functions breaks.
-/
import Py65.Gen.ReprGen
import Py65.Gen.MonShowGen
import Py65.Model.Show
import Py65.Proofs.FmtLemmas
import Py65.Proofs.MonRunLemmas

set_option linter.unusedSimpArgs false
set_option linter.unusedVariables false

namespace Py65.Proofs.ReprGenEq
open Py65 Py65.Model Py65.Model.PyStr Py65.Model.AddrParser Py65.Model.MonMem Py65.Model.MonGenRt
open Py65.Model.ShowRt Py65.Model.Show Py65.Gen

/-! ### the library helpers on the arguments the hand models are stated for -/

theorem pyFmtX_nat (w n : Nat) : pyFmtX w (n : Int) = fmtHexL w n := by
  have h : ¬ ((n : Int) < 0) := by omega
  simp only [pyFmtX, fmtHexInt, h, if_false, Int.toNat_natCast]

theorem pyFmtD_nat (n : Nat) : pyFmtD (n : Int) = fmtDecL n := by
  have h : ¬ ((n : Int) < 0) := by omega
  simp only [pyFmtD, h, if_false, Int.toNat_natCast]

theorem pyFmtD_eq (v : Int) : pyFmtD v = digitsInt 10 v := rfl

theorem pyFmtO_eq (w : Nat) (v : Int) : pyFmtO w v = fmtOctInt w v := rfl

theorem pyStrMul_blank (n : Nat) : pyStrMul " ".toList (n : Int) = List.replicate n ' ' := by
  simp only [pyStrMul, Int.toNat_natCast]
  induction n with
  | zero => rfl
  | succ k ih => rw [List.replicate_succ, List.flatten_cons, ih]; rfl

theorem pySplitChar_ne_nil (sep : Char) (s : Str) : pySplitChar sep s ≠ [] := by
  induction s with
  | nil => simp [pySplitChar]
  | cons c cs ih =>
    unfold pySplitChar
    by_cases h : c = sep
    · simp [h]
    · simp only [h, if_false]
      cases hh : pySplitChar sep cs <;> simp

/-- The exception a refusal of `AddressParser.number` is (as in `MonRunGenEq`). -/
def numberExc : Res → Exc
  | .key => .KeyError
  | .overflow => .OverflowError
  | _ => .Other

theorem parseNumber_eq (P : Parser) (s : Str) :
    parseNumber P s = match numberL P s with
      | .ok v => .ok v
      | r => .error (numberExc r) := by
  unfold parseNumber
  cases numberL P s <;> rfl

/-! ### `MPU.__repr__` -/

/-- The registers `__repr__` prints, as the display model's record. -/
def regsOf (s : St) : Fmt.Regs :=
  { pc := s.pc.toNat, a := s.a.toNat, x := s.x.toNat, y := s.y.toNat, sp := s.sp.toNat, p := s.p.toNat }

/-- No register attribute is negative (C05: every register stays within its width). -/
def NonNeg (s : St) : Prop := 0 ≤ s.pc ∧ 0 ≤ s.a ∧ 0 ≤ s.x ∧ 0 ≤ s.y ∧ 0 ≤ s.sp ∧ 0 ≤ s.p

/-- What the equalities assume of the parameter `itoa`: base 2 prints the binary digits.  True of the
generated `itoa` (`DisasmGenEq.itoa_eq_bin`). -/
def ItoaBin (itoa : Int → Int → Except Exc Str) : Prop := ∀ n : Nat, itoa (n : Int) 2 = .ok (fmtBinL n)

/-- The class constants the translator resolved along the class statements are those of the display
model's device records, and the two `reprformat` templates are the model's header lines between
the conversion specifiers. -/
theorem repr_consts_eq :
    ReprGen.dev6502.name = Fmt.dev6502.name ∧ ReprGen.dev6502.BYTE_WIDTH = (Fmt.dev6502.byteWidth : Int) ∧
    ReprGen.dev65c02.name = Fmt.dev65c02.name ∧ ReprGen.dev65c02.BYTE_WIDTH = (Fmt.dev65c02.byteWidth : Int) ∧
    ReprGen.dev65org16.name = Fmt.dev65org16.name ∧ ReprGen.dev65org16.BYTE_WIDTH = (Fmt.dev65org16.byteWidth : Int) ∧
    ReprGen.Mpu6502.reprformat =
      "%s".toList ++ Fmt.header8 ++ "\n%s: %04x %02x %02x %02x %02x %s".toList ∧
    ReprGen.Mpu65org16.reprformat =
      "%s".toList ++ Fmt.header16 ++ "\n%s: %08x %04x %04x %04x %04x %s".toList := by
  refine ⟨rfl, rfl, rfl, rfl, rfl, rfl, ?_, ?_⟩ <;> decide

theorem repr_model (d : Fmt.Dev) (r : Fmt.Regs) :
    Fmt.repr d r = List.replicate (d.name.length + 2) ' ' ++ d.header ++ ['\n'] ++ d.name ++ [':', ' '] ++
      fmtHexL d.addrDigits r.pc ++ [' '] ++ fmtHexL d.byteDigits r.a ++ [' '] ++ fmtHexL d.byteDigits r.x ++ [' '] ++
      fmtHexL d.byteDigits r.y ++ [' '] ++ fmtHexL d.byteDigits r.sp ++ [' '] ++
      rjustL (fmtBinL r.p) d.byteWidth '0' := by
  simp only [Fmt.repr, Fmt.reprLine1, Fmt.reprLine2, Fmt.indent, Fmt.flags, List.append_assoc]

/-- `GenEq` for `__repr__` on a `py65.devices.mpu6502.MPU`: the display model's two lines. -/
theorem repr_eq_6502 (itoa : Int → Int → Except Exc Str) (hit : ItoaBin itoa) (s : St) (hs : NonNeg s) :
    ReprGen.dev6502.__repr__ itoa s = .ok (Fmt.repr Fmt.dev6502 (regsOf s)) s := by
  obtain ⟨h1, h2, h3, h4, h5, h6⟩ := hs
  obtain ⟨pc, hpc⟩ := Int.eq_ofNat_of_zero_le h1
  obtain ⟨a, ha⟩ := Int.eq_ofNat_of_zero_le h2
  obtain ⟨x, hx⟩ := Int.eq_ofNat_of_zero_le h3
  obtain ⟨y, hy⟩ := Int.eq_ofNat_of_zero_le h4
  obtain ⟨sp, hsp⟩ := Int.eq_ofNat_of_zero_le h5
  obtain ⟨p, hp⟩ := Int.eq_ofNat_of_zero_le h6
  have hl : ((ReprGen.dev6502.name.length : Int) + 2) = ((ReprGen.dev6502.name.length + 2 : Nat) : Int) := by
    push_cast; rfl
  unfold ReprGen.dev6502.__repr__
  rw [hp, hit p, hl, pyStrMul_blank]
  simp only [repr_model, regsOf, hpc, ha, hx, hy, hsp, hp, pyFmtX_nat, pyRjust, Int.toNat_natCast]
  rfl

/-- `GenEq` for `__repr__` on a `py65.devices.mpu65c02.MPU` (inherits both methods). -/
theorem repr_eq_65c02 (itoa : Int → Int → Except Exc Str) (hit : ItoaBin itoa) (s : St) (hs : NonNeg s) :
    ReprGen.dev65c02.__repr__ itoa s = .ok (Fmt.repr Fmt.dev65c02 (regsOf s)) s := by
  obtain ⟨h1, h2, h3, h4, h5, h6⟩ := hs
  obtain ⟨pc, hpc⟩ := Int.eq_ofNat_of_zero_le h1
  obtain ⟨a, ha⟩ := Int.eq_ofNat_of_zero_le h2
  obtain ⟨x, hx⟩ := Int.eq_ofNat_of_zero_le h3
  obtain ⟨y, hy⟩ := Int.eq_ofNat_of_zero_le h4
  obtain ⟨sp, hsp⟩ := Int.eq_ofNat_of_zero_le h5
  obtain ⟨p, hp⟩ := Int.eq_ofNat_of_zero_le h6
  have hl : ((ReprGen.dev65c02.name.length : Int) + 2) = ((ReprGen.dev65c02.name.length + 2 : Nat) : Int) := by
    push_cast; rfl
  unfold ReprGen.dev65c02.__repr__
  rw [hp, hit p, hl, pyStrMul_blank]
  simp only [repr_model, regsOf, hpc, ha, hx, hy, hsp, hp, pyFmtX_nat, pyRjust, Int.toNat_natCast]
  rfl

/-- `GenEq` for `__repr__` on a `py65.devices.mpu65org16.MPU` (inherits `__repr__`, overrides
`reprformat`; `BYTE_WIDTH = 16`). -/
theorem repr_eq_65org16 (itoa : Int → Int → Except Exc Str) (hit : ItoaBin itoa) (s : St) (hs : NonNeg s) :
    ReprGen.dev65org16.__repr__ itoa s = .ok (Fmt.repr Fmt.dev65org16 (regsOf s)) s := by
  obtain ⟨h1, h2, h3, h4, h5, h6⟩ := hs
  obtain ⟨pc, hpc⟩ := Int.eq_ofNat_of_zero_le h1
  obtain ⟨a, ha⟩ := Int.eq_ofNat_of_zero_le h2
  obtain ⟨x, hx⟩ := Int.eq_ofNat_of_zero_le h3
  obtain ⟨y, hy⟩ := Int.eq_ofNat_of_zero_le h4
  obtain ⟨sp, hsp⟩ := Int.eq_ofNat_of_zero_le h5
  obtain ⟨p, hp⟩ := Int.eq_ofNat_of_zero_le h6
  have hl : ((ReprGen.dev65org16.name.length : Int) + 2) = ((ReprGen.dev65org16.name.length + 2 : Nat) : Int) := by
    push_cast; rfl
  unfold ReprGen.dev65org16.__repr__
  rw [hp, hit p, hl, pyStrMul_blank]
  simp only [repr_model, regsOf, hpc, ha, hx, hy, hsp, hp, pyFmtX_nat, pyRjust, Int.toNat_natCast]
  rfl

/-- `repr(mpu)` as the monitor calls it: the value, or the exception that left `__repr__`. -/
def reprOf (f : St → Flow St Str) (s : St) : Except Exc Str :=
  match f s with
  | .ok v _ => .ok v
  | .raise e _ => .error e
  | .nofuel => .error .Other

/-! ### `_output_mpu_status`, `do_cycles` -/

/-- `GenEq` for `_output_mpu_status`: for every `mpurepr` that returns the display model's `repr`
(as the three generated `__repr__` do: `repr_eq_*`), one more output "line" `"\n" + repr(mpu)`; with
`_output`'s newline that is `Fmt.status` (`status_text`). -/
theorem output_mpu_status_eq (itoa : Int → Int → Except Exc Str) (mpurepr : St → Except Exc Str)
    (iat : St → Int → Except Exc (Int × Str)) (fmtdis : St → Int → Int → Str → Except Exc Str) (d : Dev) (P : Parser)
    (fd : Fmt.Dev) (σ : ShowSt) (hr : mpurepr σ.mpu = .ok (Fmt.repr fd (regsOf σ.mpu))) :
    MonShowGen._output_mpu_status itoa mpurepr iat fmtdis d P σ =
      .ok () { mpu := σ.mpu, out := σ.out ++ ['\n' :: Fmt.repr fd (regsOf σ.mpu)] } := by
  unfold MonShowGen._output_mpu_status
  rw [hr]
  rfl

/-- ... and if `repr` raises, `_output_mpu_status` raises the same, nothing printed. -/
theorem output_mpu_status_raise (itoa : Int → Int → Except Exc Str) (mpurepr : St → Except Exc Str)
    (iat : St → Int → Except Exc (Int × Str)) (fmtdis : St → Int → Int → Str → Except Exc Str) (d : Dev) (P : Parser)
    (σ : ShowSt) (e : Exc) (hr : mpurepr σ.mpu = .error e) :
    MonShowGen._output_mpu_status itoa mpurepr iat fmtdis d P σ = .raise e σ := by
  unfold MonShowGen._output_mpu_status
  rw [hr]

theorem status_text (fd : Fmt.Dev) (r : Fmt.Regs) : ('\n' :: Fmt.repr fd r) ++ ['\n'] = Fmt.status fd r := by
  simp [Fmt.status]

/-- `GenEq` for `do_cycles`: one line, `str(processorCycles)` = the display model's `cyclesText`
(no hypothesis on the parameters; the counter is not negative). -/
theorem do_cycles_eq (itoa : Int → Int → Except Exc Str) (mpurepr : St → Except Exc Str)
    (iat : St → Int → Except Exc (Int × Str)) (fmtdis : St → Int → Int → Str → Except Exc Str) (d : Dev) (P : Parser)
    (args : Str) (σ : ShowSt) (hc : 0 ≤ σ.mpu.cycles) :
    MonShowGen.do_cycles itoa mpurepr iat fmtdis d P args σ =
      .ok () { mpu := σ.mpu, out := σ.out ++ [Fmt.cyclesText σ.mpu.cycles.toNat] } := by
  obtain ⟨n, hn⟩ := Int.eq_ofNat_of_zero_le hc
  unfold MonShowGen.do_cycles
  rw [hn, pyFmtD_nat]
  rfl

/-! ### `do_tilde` -/

/-- What the equality assumes of `itoa` here: base 2 prints sign and binary digits of ANY int. -/
def ItoaBinInt (itoa : Int → Int → Except Exc Str) : Prop := ∀ v : Int, itoa v 2 = .ok (digitsInt 2 v)

/-- The model's outcome of `do_tilde` as the end of the generated method. -/
def tildeFlow (σ : ShowSt) : TildeOut → Flow ShowSt Unit
  | .lines l => .ok () { mpu := σ.mpu, out := σ.out ++ l }
  | .raised r => .raise (numberExc r) σ

/-- `GenEq` for `do_tilde`, for ALL argument strings, parsers and monitor states: the usage text for
an empty argument; the four lines of the model for a number; "Bad label" / "Overflow error" for the
two exceptions the command catches; any other exception of the parser leaves the command. -/
theorem do_tilde_eq (itoa : Int → Int → Except Exc Str) (hit : ItoaBinInt itoa) (mpurepr : St → Except Exc Str)
    (iat : St → Int → Except Exc (Int × Str)) (fmtdis : St → Int → Int → Str → Except Exc Str) (d : Dev) (P : Parser)
    (args : Str) (σ : ShowSt) :
    MonShowGen.do_tilde itoa mpurepr iat fmtdis d P args σ = tildeFlow σ (doTilde d.byteFmtW P args) := by
  unfold MonShowGen.do_tilde doTilde
  have hnil : "".toList = ([] : Str) := rfl
  rw [hnil]
  by_cases h : args = []
  · simp only [h, if_true, MonShowGen.help_tilde, tildeFlow, helpTilde, List.append_assoc, List.cons_append,
      List.nil_append]
  · simp only [h, if_false, parseNumber_eq]
    cases hn : numberL P args with
    | ok n =>
      simp only [hit n, tildeFlow, tildeLines, pyFmtD_eq, pyFmtO_eq, pyFmtX, pyZfill, List.append_assoc,
        List.cons_append, List.nil_append]
      rfl
    | key => simp [numberExc, tildeFlow]
    | overflow => simp [numberExc, tildeFlow]
    | other => simp [numberExc, tildeFlow]

/-! ### `do_disassemble` -/

section Disassemble
variable (itoa : Int → Int → Except Exc Str) (mpurepr : St → Except Exc Str)
  (iat : St → Int → Except Exc (Int × Str)) (fmtdis : St → Int → Int → Str → Except Exc Str) (d : Dev) (P : Parser)

/-- The inner loop `while remaining:` on a length `n ≥ 0` that fits into the fuel: `n` increments of the
address, exactly the model's `advance`; the monitor state is not touched. -/
theorem while2_run (start end_ maxA : Int) :
    ∀ (n fuel : Nat) (cur : Int) (nw : Bool) (σ : ShowSt), n < fuel →
      MonShowGen.do_disassemble_while2 itoa mpurepr iat fmtdis d P start end_ maxA fuel (n : Int) cur nw σ =
        .ok (0, (advance maxA (decide (start > end_)) n cur nw).1,
                (advance maxA (decide (start > end_)) n cur nw).2) σ := by
  intro n
  induction n with
  | zero =>
    intro fuel cur nw σ hf
    obtain ⟨f, rfl⟩ : ∃ f, fuel = f + 1 := ⟨fuel - 1, by omega⟩
    simp [MonShowGen.do_disassemble_while2, advance]
  | succ n ih =>
    intro fuel cur nw σ hf
    obtain ⟨f, rfl⟩ : ∃ f, fuel = f + 1 := ⟨fuel - 1, by omega⟩
    have hne : ((n + 1 : Nat) : Int) ≠ 0 := by omega
    have hsub : ((n + 1 : Nat) : Int) - 1 = (n : Int) := by omega
    unfold MonShowGen.do_disassemble_while2
    simp only [hne, ne_eq, not_false_eq_true, if_true, hsub]
    by_cases hc : start > end_ ∧ cur + 1 > maxA
    · have hc' : (decide (start > end_) = true ∧ cur + 1 > maxA) := by simpa using hc
      have hadv : advance maxA (decide (start > end_)) (n + 1) cur nw =
          advance maxA (decide (start > end_)) n 0 false := by
        simp only [advance, hc', and_self, if_true]
      rw [hadv, if_pos hc]
      exact ih f 0 false σ (by omega)
    · have hc' : ¬ (decide (start > end_) = true ∧ cur + 1 > maxA) := by simpa using hc
      have hadv : advance maxA (decide (start > end_)) (n + 1) cur nw =
          advance maxA (decide (start > end_)) n (cur + 1) nw := by
        simp only [advance, hc', if_false]
      rw [hadv, if_neg hc]
      exact ih f (cur + 1) nw σ (by omega)

/-- A negative length never ends the inner loop (Python: it does not terminate). -/
theorem while2_neg (start end_ maxA : Int) :
    ∀ (fuel : Nat) (r cur : Int) (nw : Bool) (σ : ShowSt), r < 0 →
      MonShowGen.do_disassemble_while2 itoa mpurepr iat fmtdis d P start end_ maxA fuel r cur nw σ = .nofuel := by
  intro fuel
  induction fuel with
  | zero => intro r cur nw σ _; rfl
  | succ f ih =>
    intro r cur nw σ hr
    have hne : r ≠ 0 := by omega
    unfold MonShowGen.do_disassemble_while2
    simp only [hne, ne_eq, not_false_eq_true, if_true]
    exact ih _ _ _ σ (by omega)

/-- A length that does not fit into the fuel: out of fuel. -/
theorem while2_short (start end_ maxA : Int) :
    ∀ (fuel n : Nat) (cur : Int) (nw : Bool) (σ : ShowSt), fuel ≤ n →
      MonShowGen.do_disassemble_while2 itoa mpurepr iat fmtdis d P start end_ maxA fuel (n : Int) cur nw σ = .nofuel := by
  intro fuel
  induction fuel with
  | zero => intro n cur nw σ _; rfl
  | succ f ih =>
    intro n cur nw σ hn
    obtain ⟨m, rfl⟩ : ∃ m, n = m + 1 := ⟨n - 1, by omega⟩
    have hne : ((m + 1 : Nat) : Int) ≠ 0 := by omega
    have hsub : ((m + 1 : Nat) : Int) - 1 = (m : Int) := by omega
    unfold MonShowGen.do_disassemble_while2
    simp only [hne, ne_eq, not_false_eq_true, if_true, hsub]
    exact ih m _ _ σ (by omega)

/-- The model's walk as the end of the generated outer loop / of `do_disassemble`. -/
def walkFlow (σ : ShowSt) (r : List Str × WalkEnd Exc) : Flow ShowSt Unit :=
  match r.2 with
  | .done => .ok () { mpu := σ.mpu, out := σ.out ++ r.1 }
  | .raised e => .raise e { mpu := σ.mpu, out := σ.out ++ r.1 }
  | .nofuel => .nofuel

theorem walkFlow_cons (σ : ShowSt) (line : Str) (r : List Str × WalkEnd Exc) :
    walkFlow σ (line :: r.1, r.2) = walkFlow { mpu := σ.mpu, out := σ.out ++ [line] } r := by
  unfold walkFlow
  cases r.2 <;> simp

/-- The outer loop `while needs_wrap or cur_address <= end:` (its final loop variables dropped, as
`do_disassemble` does) is the model's `walk`, for every fuel, address, flag, state, disassembler and
line formatter. -/
theorem while1_eq (start end_ maxA : Int) :
    ∀ (fuel : Nat) (cur : Int) (nw : Bool) (σ : ShowSt),
      (MonShowGen.do_disassemble_while1 itoa mpurepr iat fmtdis d P end_ start maxA fuel cur nw σ).bind
          (fun _ σ => Flow.ok () σ) =
        walkFlow σ (walk (iat σ.mpu) (fmtdis σ.mpu) maxA start end_ fuel cur nw) := by
  intro fuel
  induction fuel with
  | zero => intro cur nw σ; rfl
  | succ f ih =>
    intro cur nw σ
    unfold MonShowGen.do_disassemble_while1 walk
    by_cases hc : nw = true ∨ cur ≤ end_
    · simp only [hc, if_true]
      cases hi : iat σ.mpu cur with
      | error e => simp [walkFlow]
      | ok t =>
        obtain ⟨len, text⟩ := t
        simp only []
        cases hf : fmtdis σ.mpu cur len text with
        | error e => simp [walkFlow]
        | ok line =>
          simp only []
          by_cases hl : 0 ≤ len ∧ len < (f : Int)
          · obtain ⟨n, rfl⟩ := Int.eq_ofNat_of_zero_le hl.1
            have hnf : n < f := by omega
            rw [while2_run itoa mpurepr iat fmtdis d P start end_ maxA n f cur nw _ hnf]
            simp only [Flow.bind_ok, hl, and_self, if_true, Int.toNat_natCast]
            rw [ih]
            exact (walkFlow_cons σ line _).symm
          · simp only [hl, if_false]
            by_cases hneg : len < 0
            · rw [while2_neg itoa mpurepr iat fmtdis d P start end_ maxA f len cur nw _ hneg]
              simp [walkFlow]
            · obtain ⟨n, rfl⟩ := Int.eq_ofNat_of_zero_le (by omega : 0 ≤ len)
              rw [while2_short itoa mpurepr iat fmtdis d P start end_ maxA f n cur nw _ (by omega)]
              simp [walkFlow]
    · simp [hc, walkFlow]

def helpDis : List Str := helpDisassemble

/-- The model's outcome of `do_disassemble` as the end of the generated method. -/
def disFlow (σ : ShowSt) : DisOut Exc → Flow ShowSt Unit
  | .help => .ok () { mpu := σ.mpu, out := σ.out ++ helpDisassemble }
  | .shlexError => .raise .ValueError σ
  | .refused r => .raise (numberExc r) σ
  | .walked lines e => walkFlow σ (lines, e)

theorem pyGetItem_zero {α : Type} (l : List α) : pyGetItem l 0 = l.head? := by
  cases l <;> simp [pyGetItem, pyNormIndex]

theorem pyGetItem_one {α : Type} (l : List α) : pyGetItem l 1 = l[1]? := by
  simp [pyGetItem, pyNormIndex]

/-- `GenEq` for `do_disassemble`, for ALL argument strings, parsers, monitor states, fuels and for every
disassembler `iat` and line formatter `fmtdis`: `shlex.split` raising is the `ValueError`; anything but
one token is the usage text; a start or end the address parser refuses is that exception (nothing
printed); otherwise the model's walk from `start`. -/
theorem do_disassemble_eq (fuel : Nat) (args : Str) (σ : ShowSt) :
    MonShowGen.do_disassemble itoa mpurepr iat fmtdis d P fuel args σ =
      disFlow σ (doDisassemble (iat σ.mpu) (fmtdis σ.mpu) d.AW P fuel args) := by
  unfold MonShowGen.do_disassemble doDisassemble disRange
  cases hs : MonCmd.shlexSplit args with
  | none => rfl
  | some toks =>
    simp only []
    match toks with
    | [] => simp [disFlow, MonShowGen.help_disassemble, helpDisassemble]
    | a :: b :: t =>
      have hlen : (((a :: b :: t : List Str).length : Int) ≠ 1) := by
        simp only [List.length_cons]; omega
      rw [if_pos hlen]
      simp [disFlow, MonShowGen.help_disassemble, helpDisassemble]
    | [tok] =>
      simp only [List.length_singleton, Nat.cast_one, ne_eq, not_true_eq_false, if_false, pyGetItem_zero,
        List.head?_cons]
      cases hp : pySplitChar ':' tok with
      | nil => exact absurd hp (pySplitChar_ne_nil _ _)
      | cons s0 rest =>
        simp only [List.head?_cons, parseNumber_eq]
        cases h0 : numberL P s0 with
        | key => rfl
        | overflow => rfl
        | other => rfl
        | ok start =>
          simp only []
          match rest with
          | [] =>
            have hlen : ¬ ((([s0] : List Str).length : Int) > 1) := by simp
            simp only [hlen, if_false, Flow.bind_ok]
            have := while1_eq itoa mpurepr iat fmtdis d P start start ((2 : Int) ^ d.AW - 1) fuel start
              (decide (start > start)) σ
            simpa [disFlow, Flow.bind] using this
          | s1 :: more =>
            have hlen : (((s0 :: s1 :: more : List Str).length : Int) > 1) := by
              simp only [List.length_cons]; omega
            simp only [hlen, if_true, pyGetItem_one, List.getElem?_cons_succ, List.getElem?_cons_zero, parseNumber_eq]
            cases h1 : numberL P s1 with
            | key => rfl
            | overflow => rfl
            | other => rfl
            | ok end_ =>
              simp only [Flow.bind_ok]
              have := while1_eq itoa mpurepr iat fmtdis d P start end_ ((2 : Int) ^ d.AW - 1) fuel start
                (decide (start > end_)) σ
              simpa [disFlow, Flow.bind] using this

end Disassemble

end Py65.Proofs.ReprGenEq
