/-
Helper lemmas for C06h (pairing at any nesting depth): the four frame kinds (JSR, BRK, irq(),
nmi()), what the GENERATED devices do at a frame entry / exit in terms of the programming model,
and the uniform pairing lemma obtained from `Proofs/Pairing.lean`.
-/
import Py65.Proofs.HistStep
import Py65.Proofs.Pairing

set_option linter.unusedSimpArgs false

namespace Py65.Proofs.Hist
open Py65 Py65.Gen Py65.Spec Py65.Proofs Py

/-- The four ways a frame is opened. -/
inductive Kind where
  | jsr | brk | irq | nmi
  deriving DecidableEq, Repr

/-- The stack cells the frame entry writes, given the stack pointer before the entry
(wrap-around inside the stack page included). -/
def cells (W : Nat) : Kind → Int → List Int
  | .jsr, sp => frame2 W sp
  | _, sp => frame3 W sp

/-- The programming model's frame entry, on the abstraction of the state the call is made in. -/
def entryA (W : Nat) (v : Variant) : Kind → AState → AState
  | .jsr, a => exec W v .JSR .abs { a with pc := (a.pc + 1) % AM W }
  | .brk, a => exec W v .BRK .imp { a with pc := (a.pc + 1) % AM W }
  | .irq, a => interrupt W irqVector a
  | .nmi, a => interrupt W nmiVector a

/-- The instruction that closes a frame of the kind. -/
def exitMn : Kind → Mn
  | .jsr => .RTS
  | _ => .RTI

/-- Where execution resumes, from the PC at which the entry happened: after the three-byte JSR,
two bytes after the BRK opcode, at the interrupted instruction. -/
def resumePc (W : Nat) : Kind → Int → Int
  | .jsr, pc => (pc + 3) % AM W
  | .brk, pc => (pc + 2) % AM W
  | _, pc => pc

/-- Uniform pairing lemma (from `rts_after_jsr`, `rti_after_brk`, `rti_after_interrupt`): whatever
state `a'` has the stack pointer and the frame cells the entry left, the matching exit instruction
resumes at the right place with the caller's stack pointer (and flags, for the interrupt kinds). -/
theorem pairing (W : Nat) (hW : W = 8 ∨ W = 16) (v : Variant) (k : Kind) (a a' : AState)
    (ha : AWF W a) (hf : SameFrame (cells W k a.sp) (entryA W v k a) a') :
    (exec W v (exitMn k) .imp a').pc = resumePc W k a.pc ∧
    (exec W v (exitMn k) .imp a').sp = a.sp ∧
    (k ≠ .jsr → (exec W v (exitMn k) .imp a').p = a.p) := by
  have hpc1 : 0 ≤ (a.pc + 1) % AM W ∧ (a.pc + 1) % AM W < AM W := by
    rcases hW with rfl | rfl <;> (simp only [AM]; omega)
  have ha1 : AWF W { a with pc := (a.pc + 1) % AM W } := ⟨ha.sp, hpc1, ha.p, ha.pn⟩
  cases k with
  | jsr =>
    obtain ⟨h1, h2⟩ := rts_after_jsr W hW v _ a' ha1 hf
    refine ⟨?_, h2, fun h => absurd rfl h⟩
    simp only [exitMn, resumePc]
    rw [h1]
    rcases hW with rfl | rfl <;> (simp only [AM]; omega)
  | brk =>
    obtain ⟨h1, h2, h3⟩ := rti_after_brk W hW v _ a' ha1 hf
    refine ⟨?_, h2, fun _ => h3⟩
    simp only [exitMn, resumePc]
    rw [h1]
    rcases hW with rfl | rfl <;> (simp only [AM]; omega)
  | irq =>
    obtain ⟨h1, h2, h3⟩ := rti_after_interrupt W hW v irqVector a a' ha hf
    exact ⟨h1, h2, fun _ => h3⟩
  | nmi =>
    obtain ⟨h1, h2, h3⟩ := rti_after_interrupt W hW v nmiVector a a' ha hf
    exact ⟨h1, h2, fun _ => h3⟩

/-- A frame entry changes no cell outside its frame. -/
theorem entryA_mem_other (W : Nat) (v : Variant) (k : Kind) (a : AState) (c : Int)
    (hc : c ∉ cells W k a.sp) : (entryA W v k a).mem c = a.mem c := by
  cases k with
  | jsr =>
    simp only [cells, frame2, List.mem_cons, List.mem_nil_iff, or_false, not_or] at hc
    obtain ⟨h1, h2⟩ := hc
    dsimp +instances only [entryA, exec, push, write]
    rw [if_neg h2, if_neg h1]
  | brk =>
    simp only [cells, frame3, List.mem_cons, List.mem_nil_iff, or_false, not_or] at hc
    obtain ⟨h1, h2, h3⟩ := hc
    dsimp +instances only [entryA, exec, push, write]
    rw [if_neg h3, if_neg h2, if_neg h1]
  | irq =>
    simp only [cells, frame3, List.mem_cons, List.mem_nil_iff, or_false, not_or] at hc
    obtain ⟨h1, h2, h3⟩ := hc
    dsimp +instances only [entryA, interrupt, push, write]
    rw [if_neg h3, if_neg h2, if_neg h1]
  | nmi =>
    simp only [cells, frame3, List.mem_cons, List.mem_nil_iff, or_false, not_or] at hc
    obtain ⟨h1, h2, h3⟩ := hc
    dsimp +instances only [entryA, interrupt, push, write]
    rw [if_neg h3, if_neg h2, if_neg h1]

/-- RTS and RTI write no memory. -/
theorem exit_mem (W : Nat) (v : Variant) (k : Kind) (a : AState) :
    (exec W v (exitMn k) .imp a).mem = a.mem := by
  cases k <;> rfl

/-! ### what the generated devices do at entries and exits -/

theorem AWF_abs {c : Cfg} (hc : IsDev c) {s : St} (hs : WF c s) : AWF c.BYTE_WIDTH (abs s) := by
  have h := aclosed_abs hc hs
  exact ⟨h.sp, h.pc, h.p, normP_idem _⟩

/-- A non-waiting step at a declared opcode that is not ADC / SBC / JSR is the programming model's
`exec` (C01 / C02 / C03, whose side conditions concern only those three). -/
theorem step_spec (d : Dev) (s : St) (hi : Inv d s) (hw : s.waiting = false) (mn : Mn) (mo : Mode)
    (hd : decode d.variant (s.mem s.pc) = some (mn, mo)) (hna : ¬ isArith mn = true) :
    abs (d.step s) = exec d.W d.variant mn mo { abs s with pc := (s.pc + 1) % AM d.W } := by
  obtain ⟨h1, h2⟩ := not_arith_hyps hna
  have e1 : (abs s).waiting = false := hw
  have e2 : (abs s).mem (abs s).pc = s.mem s.pc := rfl
  have key : ∀ (W : Nat) (v : Variant), decode v (s.mem s.pc) = some (mn, mo) →
      Spec.step W v (abs s) = exec W v mn mo { abs s with pc := (s.pc + 1) % AM W } := by
    intro W v hd
    simp only [Spec.step, e1, e2, hd, Bool.false_eq_true, if_false]
    rfl
  cases d with
  | nmos =>
    exact (Py65.Props.C01.C01_full s hi.1 hw mn mo hd (fun h => absurd h h1) (fun h => absurd h h2)).trans
      (key 8 .nmos hd)
  | cmos =>
    exact (Py65.Props.C02.C02_full s hi.1 hw mn mo hd (fun h => absurd h h1) (fun h => absurd h h2)).trans
      (key 8 .cmos hd)
  | org16 =>
    exact (Py65.Props.C03.C03_full s hi.1 hw mn mo hd (fun h => absurd h h1) (fun h => absurd h h2)).trans
      (key 16 .nmos hd)

/-- `d.step` of a non-waiting state is the shared `Mpu6502.step`. -/
theorem step_eq (d : Dev) (s : St) (hw : s.waiting = false) :
    d.step s = Mpu6502.step d.cfg d.tbl s := by
  cases d with
  | nmos => rfl
  | cmos => exact Py65.Props.C02.step_not_waiting s hw
  | org16 => simp only [Dev.step, dev65org16.step, Mpu65org16.step, hw]; rfl

theorem instruct_20 (d : Dev) : d.tbl.instruct 0x20 = Mpu6502.inst_0x20 d.cfg := by
  cases d
  · exact dev6502.instruct_20
  · exact dev65c02.instruct_20
  · exact dev65org16.instruct_20

/-- JSR on the generated device, with NO condition on where the stack is (also when the pushes hit
the instruction's own operand bytes): stack pointer and memory are those of the programming model's
JSR (only the jump target may differ in that corner, and pairing does not depend on it). -/
theorem jsr_core (c : Cfg) (hc : IsDev c) (t : Tbl) (v : Variant) (s : St) (hs : WF c s) :
    (Mpu6502.inst_0x20 c (afterFetch c t s)).sp = (entryA c.BYTE_WIDTH v .jsr (abs s)).sp ∧
    (Mpu6502.inst_0x20 c (afterFetch c t s)).mem = (entryA c.BYTE_WIDTH v .jsr (abs s)).mem := by
  have hpc := hs.pc
  simp only [Mpu6502.inst_0x20, WordAt_sp, WordAt_mem]
  have hpush := stPushWord_core c hc (land ((afterFetch c t s).pc + 1) c.addrMask) (afterFetch c t s)
  obtain ⟨_, _, _, hsp, _, _, hmem, _⟩ := core_eq hpush
  rw [hsp, hmem]
  rcases hc with rfl | rfl
  · constfold at hpc ⊢
    dsimp +instances only [entryA, exec, push, write, core, abs, afterFetch]
    constfold
    simp only [pyarith]
    have e1 : ((s.pc + 1) % 65536 + 1) % 65536 / 256 % 256 = ((s.pc + 1) % 65536 + 1) % 65536 / 256 := by omega
    rw [e1]
    exact ⟨trivial, rfl⟩
  · constfold at hpc ⊢
    dsimp +instances only [entryA, exec, push, write, core, abs, afterFetch]
    constfold
    simp only [pyarith]
    have e2 : ((s.pc + 1) % 4294967296 + 1) % 4294967296 / 65536 % 65536 =
        ((s.pc + 1) % 4294967296 + 1) % 4294967296 / 65536 := by omega
    rw [e2]
    exact ⟨trivial, rfl⟩

theorem jsr_step (d : Dev) (s : St) (hi : Inv d s) (hw : s.waiting = false) (hop : s.mem s.pc = 0x20) :
    (d.step s).sp = (entryA d.W d.variant .jsr (abs s)).sp ∧
    (d.step s).mem = (entryA d.W d.variant .jsr (abs s)).mem := by
  have h := jsr_core d.cfg d.isDev d.tbl d.variant s hi.1
  rw [d.W_eq] at h
  rw [step_eq d s hw, step_unfold]
  simp only [hop, instruct_20]
  exact h

/-! ### ordinary instructions leave the stack alone -/

/-- Mnemonics that neither move SP nor touch the stack page through SP. -/
def keepsStack : Mn → Bool
  | .PHA | .PHP | .PHX | .PHY | .PLA | .PLP | .PLX | .PLY | .TXS | .JSR | .RTS | .RTI | .BRK => false
  | _ => true

theorem exec_sp (W : Nat) (v : Variant) (mn : Mn) (mo : Mode) (a : AState) (h : keepsStack mn = true) :
    (exec W v mn mo a).sp = a.sp := by
  cases mn <;> first
    | (exfalso; revert h; decide)
    | rfl
    | (simp only [exec, write]; (repeat' split) <;> rfl)

/-- ... and write at most the cell at their effective address. -/
theorem exec_mem_other (W : Nat) (v : Variant) (mn : Mn) (mo : Mode) (a : AState) (h : keepsStack mn = true)
    (c : Int) (hc : c ≠ ea W mo a) : (exec W v mn mo a).mem c = a.mem c := by
  cases mn <;> first
    | (exfalso; revert h; decide)
    | rfl
    | (simp only [exec, write]; (repeat' split) <;> first | rfl | (exfalso; exact hc ‹_›) | simp [hc])

/-! ### frame entries and exits as calls on the device -/

/-- The call `o`, made in state `s`, opens a frame of kind `k`: a (non-waiting) step at a JSR / BRK
opcode, an `irq()` that is taken (I clear), an `nmi()`. -/
def Entry (k : Kind) (o : Op) (s : St) : Prop :=
  match k with
  | .jsr => o = .step ∧ s.waiting = false ∧ s.mem s.pc = 0x20
  | .brk => o = .step ∧ s.waiting = false ∧ s.mem s.pc = 0x00
  | .irq => o = .irq ∧ flag s.p bitI = false
  | .nmi => o = .nmi

/-- The call `o`, made in state `s`, closes a frame of kind `k`: a (non-waiting) step at RTS (for JSR)
or RTI (for BRK, irq(), nmi()). -/
def Exit (k : Kind) (o : Op) (s : St) : Prop :=
  o = .step ∧ s.waiting = false ∧ s.mem s.pc = (if k = .jsr then 0x60 else 0x40)

instance (k : Kind) (o : Op) (s : St) : Decidable (Entry k o s) := by
  unfold Entry; cases k <;> infer_instance
instance (k : Kind) (o : Op) (s : St) : Decidable (Exit k o s) := by
  unfold Exit; infer_instance

theorem Entry.opOK {d : Dev} {k : Kind} {o : Op} {s : St} (h : Entry k o s) : OpOK d o s := by
  cases k with
  | jsr => obtain ⟨rfl, _, h⟩ := h; intro _; rw [h]; decide
  | brk => obtain ⟨rfl, _, h⟩ := h; intro _; rw [h]; decide
  | irq => obtain ⟨rfl, _⟩ := h; trivial
  | nmi => cases h; trivial

theorem Exit.opOK {d : Dev} {k : Kind} {o : Op} {s : St} (h : Exit k o s) : OpOK d o s := by
  obtain ⟨rfl, _, h⟩ := h
  intro _; rw [h]; split <;> decide

/-- Stack pointer and memory after a frame entry on the generated device are those of the
programming model's entry (`entryA`) on the abstraction of the state. -/
theorem entry_abs (d : Dev) (k : Kind) (e : Op) (s : St) (hi : Inv d s) (he : Entry k e s) :
    (apply d e s).sp = (entryA d.W d.variant k (abs s)).sp ∧
    (apply d e s).mem = (entryA d.W d.variant k (abs s)).mem := by
  cases k with
  | jsr =>
    obtain ⟨rfl, hw, hop⟩ := he
    exact jsr_step d s hi hw hop
  | brk =>
    obtain ⟨rfl, hw, hop⟩ := he
    have hd : decode d.variant (s.mem s.pc) = some (.BRK, .imp) := by rw [hop]; cases d <;> decide
    have h := step_spec d s hi hw .BRK .imp hd (by decide)
    exact ⟨congrArg AState.sp h, congrArg AState.mem h⟩
  | irq =>
    obtain ⟨rfl, hI⟩ := he
    have e : flag (abs s).p bitI = false := (flag_normP _ _ (by decide)).trans hI
    have h : abs (apply d .irq s) = interrupt d.W irqVector (abs s) := by
      cases d with
      | nmos =>
        have := irq_sem dev6502.cfg (Or.inl rfl) s hi.1 (hi.2 (by decide))
        simp only [Spec.irq, e, Bool.false_eq_true, if_false] at this
        exact this
      | org16 =>
        have := irq_sem dev65org16.cfg (Or.inr rfl) s hi.1 (hi.2 (by decide))
        simp only [Spec.irq, e, Bool.false_eq_true, if_false] at this
        exact this
      | cmos =>
        have := irq65c02_sem s hi.1
        simp only [Spec.irq, e, Bool.false_eq_true, if_false] at this
        exact this
    exact ⟨congrArg AState.sp h, congrArg AState.mem h⟩
  | nmi =>
    cases he
    have h : abs (apply d .nmi s) = interrupt d.W nmiVector (abs s) := by
      cases d with
      | nmos => exact nmi_sem dev6502.cfg (Or.inl rfl) s hi.1 (hi.2 (by decide))
      | org16 => exact nmi_sem dev65org16.cfg (Or.inr rfl) s hi.1 (hi.2 (by decide))
      | cmos => exact nmi65c02_sem s hi.1
    exact ⟨congrArg AState.sp h, congrArg AState.mem h⟩

/-- A frame exit on the generated device is the programming model's RTS / RTI. -/
theorem exit_abs (d : Dev) (k : Kind) (x : Op) (s : St) (hi : Inv d s) (hx : Exit k x s) :
    abs (apply d x s) = exec d.W d.variant (exitMn k) .imp { abs s with pc := (s.pc + 1) % AM d.W } := by
  obtain ⟨rfl, hw, hop⟩ := hx
  cases k with
  | jsr =>
    have hd : decode d.variant (s.mem s.pc) = some (.RTS, .imp) := by rw [hop]; cases d <;> decide
    exact step_spec d s hi hw .RTS .imp hd (by decide)
  | brk =>
    have hd : decode d.variant (s.mem s.pc) = some (.RTI, .imp) := by rw [hop]; cases d <;> decide
    exact step_spec d s hi hw .RTI .imp hd (by decide)
  | irq =>
    have hd : decode d.variant (s.mem s.pc) = some (.RTI, .imp) := by rw [hop]; cases d <;> decide
    exact step_spec d s hi hw .RTI .imp hd (by decide)
  | nmi =>
    have hd : decode d.variant (s.mem s.pc) = some (.RTI, .imp) := by rw [hop]; cases d <;> decide
    exact step_spec d s hi hw .RTI .imp hd (by decide)

end Py65.Proofs.Hist
