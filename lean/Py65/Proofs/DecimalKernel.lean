/-
The decimal branches of the generated `opADC` / `opSBC`, run on a minimal state: the pure
function (A, M, C) ↦ (A', P') that C04's table theorems evaluate.
-/
import Py65.Gen.Devices
import Py65.Spec.Decimal

namespace Py65.Proofs.Dec
open Py65 Py65.Gen Py65.Spec.Decimal

/-- state with accumulator `a`, decimal flag set, carry `c`, every cell = `m` -/
def st (a m : Int) (c : Bool) : St :=
  { (default : St) with a := a, p := 8 + (if c then 1 else 0), mem := fun _ => m }

def rd : St → Int × St := fun s => (0, s)

def flagsOf (s : St) : Res :=
  { a := s.a, c := decide (s.p % 2 = 1), n := decide (s.p / 128 % 2 = 1),
    v := decide (s.p / 64 % 2 = 1), z := decide (s.p / 2 % 2 = 1) }

def pyAdc (a m : Int) (c : Bool) : Res := flagsOf (Mpu6502.opADC dev6502.cfg rd (st a m c))
def pySbc (a m : Int) (c : Bool) : Res := flagsOf (Mpu6502.opSBC dev6502.cfg rd (st a m c))

end Py65.Proofs.Dec
