import Lean
/-- Rewriting set that turns the masked integer expressions of the device code into linear
arithmetic with `/`, `%`, `min`, `max` by literals (then `omega`). -/
register_simp_attr pyarith
