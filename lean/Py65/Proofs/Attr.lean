import Lean
/-- Rewriting set that turns the masked integer expressions of the device code into linear
arithmetic with `/`, `%`, `min`, `max` by literals (then `omega`). -/
register_simp_attr pyarith

/-- Rewriting set for the status-register idioms of the device code: `p & ~MASK`, `p | FLAG`,
`p | (v & FLAG)` become `Spec.setFlag`/`Spec.flag` chains in a canonical order. -/
register_simp_attr flagalg

/-- Configuration constants and evaluation of ground `Py.land/lor/lxor/lnot` terms. -/
register_simp_attr pyconst
