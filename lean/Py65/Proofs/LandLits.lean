/- GENERATED ONCE by harness/gen_landlits.py (static file; proofs are checked by the kernel).
   `Py.land x LIT` as linear arithmetic, for every sign of `x`. -/
import Py65.Proofs.PyIntLemmas
import Py65.Proofs.Attr

namespace Py

@[pyarith] theorem land_lit_1 (x : Int) : land x 1 = x % 2 := by
  have := land_mask x 1; simpa using this

@[pyarith] theorem land_lit_2 (x : Int) : land x 2 = x / 2 % 2 * 2 := by
  have := land_two_pow x 1; simpa using this

@[pyarith] theorem land_lit_4 (x : Int) : land x 4 = x / 4 % 2 * 4 := by
  have := land_two_pow x 2; simpa using this

@[pyarith] theorem land_lit_8 (x : Int) : land x 8 = x / 8 % 2 * 8 := by
  have := land_two_pow x 3; simpa using this

@[pyarith] theorem land_lit_16 (x : Int) : land x 16 = x / 16 % 2 * 16 := by
  have := land_two_pow x 4; simpa using this

@[pyarith] theorem land_lit_32 (x : Int) : land x 32 = x / 32 % 2 * 32 := by
  have := land_two_pow x 5; simpa using this

@[pyarith] theorem land_lit_64 (x : Int) : land x 64 = x / 64 % 2 * 64 := by
  have := land_two_pow x 6; simpa using this

@[pyarith] theorem land_lit_128 (x : Int) : land x 128 = x / 128 % 2 * 128 := by
  have := land_two_pow x 7; simpa using this

@[pyarith] theorem land_lit_256 (x : Int) : land x 256 = x / 256 % 2 * 256 := by
  have := land_two_pow x 8; simpa using this

@[pyarith] theorem land_lit_512 (x : Int) : land x 512 = x / 512 % 2 * 512 := by
  have := land_two_pow x 9; simpa using this

@[pyarith] theorem land_lit_1024 (x : Int) : land x 1024 = x / 1024 % 2 * 1024 := by
  have := land_two_pow x 10; simpa using this

@[pyarith] theorem land_lit_2048 (x : Int) : land x 2048 = x / 2048 % 2 * 2048 := by
  have := land_two_pow x 11; simpa using this

@[pyarith] theorem land_lit_4096 (x : Int) : land x 4096 = x / 4096 % 2 * 4096 := by
  have := land_two_pow x 12; simpa using this

@[pyarith] theorem land_lit_8192 (x : Int) : land x 8192 = x / 8192 % 2 * 8192 := by
  have := land_two_pow x 13; simpa using this

@[pyarith] theorem land_lit_16384 (x : Int) : land x 16384 = x / 16384 % 2 * 16384 := by
  have := land_two_pow x 14; simpa using this

@[pyarith] theorem land_lit_32768 (x : Int) : land x 32768 = x / 32768 % 2 * 32768 := by
  have := land_two_pow x 15; simpa using this

@[pyarith] theorem land_lit_3 (x : Int) : land x 3 = x % 4 := by
  have := land_mask x 2; simpa using this

@[pyarith] theorem land_lit_15 (x : Int) : land x 15 = x % 16 := by
  have := land_mask x 4; simpa using this

@[pyarith] theorem land_lit_255 (x : Int) : land x 255 = x % 256 := by
  have := land_mask x 8; simpa using this

@[pyarith] theorem land_lit_65535 (x : Int) : land x 65535 = x % 65536 := by
  have := land_mask x 16; simpa using this

@[pyarith] theorem land_lit_4294967295 (x : Int) : land x 4294967295 = x % 4294967296 := by
  have := land_mask x 32; simpa using this

@[pyarith] theorem land_lit_3_left (x : Int) : land 3 x = x % 4 := by
  rw [land_comm]; exact land_lit_3 x

@[pyarith] theorem land_lit_15_left (x : Int) : land 15 x = x % 16 := by
  rw [land_comm]; exact land_lit_15 x

@[pyarith] theorem land_lit_255_left (x : Int) : land 255 x = x % 256 := by
  rw [land_comm]; exact land_lit_255 x

@[pyarith] theorem land_lit_65535_left (x : Int) : land 65535 x = x % 65536 := by
  rw [land_comm]; exact land_lit_65535 x

@[pyarith] theorem land_lit_4294967295_left (x : Int) : land 4294967295 x = x % 4294967296 := by
  rw [land_comm]; exact land_lit_4294967295 x

@[pyarith] theorem land_lit_65280 (x : Int) : land x 65280 = x % 65536 - x % 256 := by
  have h := land_add_disjoint x 65280 255 8 (by decide) (by decide) (by decide) (by decide)
  have e : (65280 : Int) + 255 = 65535 := by decide
  rw [e] at h
  have h1 := land_lit_65535 x
  have h2 := land_lit_255 x
  omega

@[pyarith] theorem land_lit_4294901760 (x : Int) : land x 4294901760 = x % 4294967296 - x % 65536 := by
  have h := land_add_disjoint x 4294901760 65535 16 (by decide) (by decide) (by decide) (by decide)
  have e : (4294901760 : Int) + 65535 = 4294967295 := by decide
  rw [e] at h
  have h1 := land_lit_4294967295 x
  have h2 := land_lit_65535 x
  omega

@[pyarith] theorem land_lit_130 (x : Int) : land x 130 = x / 2 % 2 * 2 + x / 128 % 2 * 128 := by
  have a1 := land_add_disjoint x 128 2 7 (by decide) (by decide) (by decide) (by decide)
  have e1 : (128 : Int) + 2 = 130 := by decide
  rw [e1] at a1
  have b1 := land_lit_2 x
  have b7 := land_lit_128 x
  omega

@[pyarith] theorem land_lit_131 (x : Int) : land x 131 = x % 2 + x / 2 % 2 * 2 + x / 128 % 2 * 128 := by
  have a1 := land_add_disjoint x 128 3 7 (by decide) (by decide) (by decide) (by decide)
  have e1 : (128 : Int) + 3 = 131 := by decide
  rw [e1] at a1
  have a2 := land_add_disjoint x 2 1 1 (by decide) (by decide) (by decide) (by decide)
  have e2 : (2 : Int) + 1 = 3 := by decide
  rw [e2] at a2
  have b0 := land_lit_1 x
  have b1 := land_lit_2 x
  have b7 := land_lit_128 x
  omega

@[pyarith] theorem land_lit_194 (x : Int) : land x 194 = x / 2 % 2 * 2 + x / 64 % 2 * 64 + x / 128 % 2 * 128 := by
  have a1 := land_add_disjoint x 128 66 7 (by decide) (by decide) (by decide) (by decide)
  have e1 : (128 : Int) + 66 = 194 := by decide
  rw [e1] at a1
  have a2 := land_add_disjoint x 64 2 6 (by decide) (by decide) (by decide) (by decide)
  have e2 : (64 : Int) + 2 = 66 := by decide
  rw [e2] at a2
  have b1 := land_lit_2 x
  have b6 := land_lit_64 x
  have b7 := land_lit_128 x
  omega

@[pyarith] theorem land_lit_195 (x : Int) : land x 195 = x % 2 + x / 2 % 2 * 2 + x / 64 % 2 * 64 + x / 128 % 2 * 128 := by
  have a1 := land_add_disjoint x 128 67 7 (by decide) (by decide) (by decide) (by decide)
  have e1 : (128 : Int) + 67 = 195 := by decide
  rw [e1] at a1
  have a2 := land_add_disjoint x 64 3 6 (by decide) (by decide) (by decide) (by decide)
  have e2 : (64 : Int) + 3 = 67 := by decide
  rw [e2] at a2
  have a3 := land_add_disjoint x 2 1 1 (by decide) (by decide) (by decide) (by decide)
  have e3 : (2 : Int) + 1 = 3 := by decide
  rw [e3] at a3
  have b0 := land_lit_1 x
  have b1 := land_lit_2 x
  have b6 := land_lit_64 x
  have b7 := land_lit_128 x
  omega

@[pyarith] theorem land_lit_192 (x : Int) : land x 192 = x / 64 % 2 * 64 + x / 128 % 2 * 128 := by
  have a1 := land_add_disjoint x 128 64 7 (by decide) (by decide) (by decide) (by decide)
  have e1 : (128 : Int) + 64 = 192 := by decide
  rw [e1] at a1
  have b6 := land_lit_64 x
  have b7 := land_lit_128 x
  omega

@[pyarith] theorem land_lit_48 (x : Int) : land x 48 = x / 16 % 2 * 16 + x / 32 % 2 * 32 := by
  have a1 := land_add_disjoint x 32 16 5 (by decide) (by decide) (by decide) (by decide)
  have e1 : (32 : Int) + 16 = 48 := by decide
  rw [e1] at a1
  have b4 := land_lit_16 x
  have b5 := land_lit_32 x
  omega

@[pyarith] theorem land_lit_254 (x : Int) : land x 254 = x / 2 % 2 * 2 + x / 4 % 2 * 4 + x / 8 % 2 * 8 + x / 16 % 2 * 16 + x / 32 % 2 * 32 + x / 64 % 2 * 64 + x / 128 % 2 * 128 := by
  have a1 := land_add_disjoint x 128 126 7 (by decide) (by decide) (by decide) (by decide)
  have e1 : (128 : Int) + 126 = 254 := by decide
  rw [e1] at a1
  have a2 := land_add_disjoint x 64 62 6 (by decide) (by decide) (by decide) (by decide)
  have e2 : (64 : Int) + 62 = 126 := by decide
  rw [e2] at a2
  have a3 := land_add_disjoint x 32 30 5 (by decide) (by decide) (by decide) (by decide)
  have e3 : (32 : Int) + 30 = 62 := by decide
  rw [e3] at a3
  have a4 := land_add_disjoint x 16 14 4 (by decide) (by decide) (by decide) (by decide)
  have e4 : (16 : Int) + 14 = 30 := by decide
  rw [e4] at a4
  have a5 := land_add_disjoint x 8 6 3 (by decide) (by decide) (by decide) (by decide)
  have e5 : (8 : Int) + 6 = 14 := by decide
  rw [e5] at a5
  have a6 := land_add_disjoint x 4 2 2 (by decide) (by decide) (by decide) (by decide)
  have e6 : (4 : Int) + 2 = 6 := by decide
  rw [e6] at a6
  have b1 := land_lit_2 x
  have b2 := land_lit_4 x
  have b3 := land_lit_8 x
  have b4 := land_lit_16 x
  have b5 := land_lit_32 x
  have b6 := land_lit_64 x
  have b7 := land_lit_128 x
  omega

@[pyarith] theorem land_lit_253 (x : Int) : land x 253 = x % 2 + x / 4 % 2 * 4 + x / 8 % 2 * 8 + x / 16 % 2 * 16 + x / 32 % 2 * 32 + x / 64 % 2 * 64 + x / 128 % 2 * 128 := by
  have a1 := land_add_disjoint x 128 125 7 (by decide) (by decide) (by decide) (by decide)
  have e1 : (128 : Int) + 125 = 253 := by decide
  rw [e1] at a1
  have a2 := land_add_disjoint x 64 61 6 (by decide) (by decide) (by decide) (by decide)
  have e2 : (64 : Int) + 61 = 125 := by decide
  rw [e2] at a2
  have a3 := land_add_disjoint x 32 29 5 (by decide) (by decide) (by decide) (by decide)
  have e3 : (32 : Int) + 29 = 61 := by decide
  rw [e3] at a3
  have a4 := land_add_disjoint x 16 13 4 (by decide) (by decide) (by decide) (by decide)
  have e4 : (16 : Int) + 13 = 29 := by decide
  rw [e4] at a4
  have a5 := land_add_disjoint x 8 5 3 (by decide) (by decide) (by decide) (by decide)
  have e5 : (8 : Int) + 5 = 13 := by decide
  rw [e5] at a5
  have a6 := land_add_disjoint x 4 1 2 (by decide) (by decide) (by decide) (by decide)
  have e6 : (4 : Int) + 1 = 5 := by decide
  rw [e6] at a6
  have b0 := land_lit_1 x
  have b2 := land_lit_4 x
  have b3 := land_lit_8 x
  have b4 := land_lit_16 x
  have b5 := land_lit_32 x
  have b6 := land_lit_64 x
  have b7 := land_lit_128 x
  omega

@[pyarith] theorem land_lit_251 (x : Int) : land x 251 = x % 2 + x / 2 % 2 * 2 + x / 8 % 2 * 8 + x / 16 % 2 * 16 + x / 32 % 2 * 32 + x / 64 % 2 * 64 + x / 128 % 2 * 128 := by
  have a1 := land_add_disjoint x 128 123 7 (by decide) (by decide) (by decide) (by decide)
  have e1 : (128 : Int) + 123 = 251 := by decide
  rw [e1] at a1
  have a2 := land_add_disjoint x 64 59 6 (by decide) (by decide) (by decide) (by decide)
  have e2 : (64 : Int) + 59 = 123 := by decide
  rw [e2] at a2
  have a3 := land_add_disjoint x 32 27 5 (by decide) (by decide) (by decide) (by decide)
  have e3 : (32 : Int) + 27 = 59 := by decide
  rw [e3] at a3
  have a4 := land_add_disjoint x 16 11 4 (by decide) (by decide) (by decide) (by decide)
  have e4 : (16 : Int) + 11 = 27 := by decide
  rw [e4] at a4
  have a5 := land_add_disjoint x 8 3 3 (by decide) (by decide) (by decide) (by decide)
  have e5 : (8 : Int) + 3 = 11 := by decide
  rw [e5] at a5
  have a6 := land_add_disjoint x 2 1 1 (by decide) (by decide) (by decide) (by decide)
  have e6 : (2 : Int) + 1 = 3 := by decide
  rw [e6] at a6
  have b0 := land_lit_1 x
  have b1 := land_lit_2 x
  have b3 := land_lit_8 x
  have b4 := land_lit_16 x
  have b5 := land_lit_32 x
  have b6 := land_lit_64 x
  have b7 := land_lit_128 x
  omega

@[pyarith] theorem land_lit_247 (x : Int) : land x 247 = x % 2 + x / 2 % 2 * 2 + x / 4 % 2 * 4 + x / 16 % 2 * 16 + x / 32 % 2 * 32 + x / 64 % 2 * 64 + x / 128 % 2 * 128 := by
  have a1 := land_add_disjoint x 128 119 7 (by decide) (by decide) (by decide) (by decide)
  have e1 : (128 : Int) + 119 = 247 := by decide
  rw [e1] at a1
  have a2 := land_add_disjoint x 64 55 6 (by decide) (by decide) (by decide) (by decide)
  have e2 : (64 : Int) + 55 = 119 := by decide
  rw [e2] at a2
  have a3 := land_add_disjoint x 32 23 5 (by decide) (by decide) (by decide) (by decide)
  have e3 : (32 : Int) + 23 = 55 := by decide
  rw [e3] at a3
  have a4 := land_add_disjoint x 16 7 4 (by decide) (by decide) (by decide) (by decide)
  have e4 : (16 : Int) + 7 = 23 := by decide
  rw [e4] at a4
  have a5 := land_add_disjoint x 4 3 2 (by decide) (by decide) (by decide) (by decide)
  have e5 : (4 : Int) + 3 = 7 := by decide
  rw [e5] at a5
  have a6 := land_add_disjoint x 2 1 1 (by decide) (by decide) (by decide) (by decide)
  have e6 : (2 : Int) + 1 = 3 := by decide
  rw [e6] at a6
  have b0 := land_lit_1 x
  have b1 := land_lit_2 x
  have b2 := land_lit_4 x
  have b4 := land_lit_16 x
  have b5 := land_lit_32 x
  have b6 := land_lit_64 x
  have b7 := land_lit_128 x
  omega

@[pyarith] theorem land_lit_239 (x : Int) : land x 239 = x % 2 + x / 2 % 2 * 2 + x / 4 % 2 * 4 + x / 8 % 2 * 8 + x / 32 % 2 * 32 + x / 64 % 2 * 64 + x / 128 % 2 * 128 := by
  have a1 := land_add_disjoint x 128 111 7 (by decide) (by decide) (by decide) (by decide)
  have e1 : (128 : Int) + 111 = 239 := by decide
  rw [e1] at a1
  have a2 := land_add_disjoint x 64 47 6 (by decide) (by decide) (by decide) (by decide)
  have e2 : (64 : Int) + 47 = 111 := by decide
  rw [e2] at a2
  have a3 := land_add_disjoint x 32 15 5 (by decide) (by decide) (by decide) (by decide)
  have e3 : (32 : Int) + 15 = 47 := by decide
  rw [e3] at a3
  have a4 := land_add_disjoint x 8 7 3 (by decide) (by decide) (by decide) (by decide)
  have e4 : (8 : Int) + 7 = 15 := by decide
  rw [e4] at a4
  have a5 := land_add_disjoint x 4 3 2 (by decide) (by decide) (by decide) (by decide)
  have e5 : (4 : Int) + 3 = 7 := by decide
  rw [e5] at a5
  have a6 := land_add_disjoint x 2 1 1 (by decide) (by decide) (by decide) (by decide)
  have e6 : (2 : Int) + 1 = 3 := by decide
  rw [e6] at a6
  have b0 := land_lit_1 x
  have b1 := land_lit_2 x
  have b2 := land_lit_4 x
  have b3 := land_lit_8 x
  have b5 := land_lit_32 x
  have b6 := land_lit_64 x
  have b7 := land_lit_128 x
  omega

@[pyarith] theorem land_lit_223 (x : Int) : land x 223 = x % 2 + x / 2 % 2 * 2 + x / 4 % 2 * 4 + x / 8 % 2 * 8 + x / 16 % 2 * 16 + x / 64 % 2 * 64 + x / 128 % 2 * 128 := by
  have a1 := land_add_disjoint x 128 95 7 (by decide) (by decide) (by decide) (by decide)
  have e1 : (128 : Int) + 95 = 223 := by decide
  rw [e1] at a1
  have a2 := land_add_disjoint x 64 31 6 (by decide) (by decide) (by decide) (by decide)
  have e2 : (64 : Int) + 31 = 95 := by decide
  rw [e2] at a2
  have a3 := land_add_disjoint x 16 15 4 (by decide) (by decide) (by decide) (by decide)
  have e3 : (16 : Int) + 15 = 31 := by decide
  rw [e3] at a3
  have a4 := land_add_disjoint x 8 7 3 (by decide) (by decide) (by decide) (by decide)
  have e4 : (8 : Int) + 7 = 15 := by decide
  rw [e4] at a4
  have a5 := land_add_disjoint x 4 3 2 (by decide) (by decide) (by decide) (by decide)
  have e5 : (4 : Int) + 3 = 7 := by decide
  rw [e5] at a5
  have a6 := land_add_disjoint x 2 1 1 (by decide) (by decide) (by decide) (by decide)
  have e6 : (2 : Int) + 1 = 3 := by decide
  rw [e6] at a6
  have b0 := land_lit_1 x
  have b1 := land_lit_2 x
  have b2 := land_lit_4 x
  have b3 := land_lit_8 x
  have b4 := land_lit_16 x
  have b6 := land_lit_64 x
  have b7 := land_lit_128 x
  omega

@[pyarith] theorem land_lit_191 (x : Int) : land x 191 = x % 2 + x / 2 % 2 * 2 + x / 4 % 2 * 4 + x / 8 % 2 * 8 + x / 16 % 2 * 16 + x / 32 % 2 * 32 + x / 128 % 2 * 128 := by
  have a1 := land_add_disjoint x 128 63 7 (by decide) (by decide) (by decide) (by decide)
  have e1 : (128 : Int) + 63 = 191 := by decide
  rw [e1] at a1
  have a2 := land_add_disjoint x 32 31 5 (by decide) (by decide) (by decide) (by decide)
  have e2 : (32 : Int) + 31 = 63 := by decide
  rw [e2] at a2
  have a3 := land_add_disjoint x 16 15 4 (by decide) (by decide) (by decide) (by decide)
  have e3 : (16 : Int) + 15 = 31 := by decide
  rw [e3] at a3
  have a4 := land_add_disjoint x 8 7 3 (by decide) (by decide) (by decide) (by decide)
  have e4 : (8 : Int) + 7 = 15 := by decide
  rw [e4] at a4
  have a5 := land_add_disjoint x 4 3 2 (by decide) (by decide) (by decide) (by decide)
  have e5 : (4 : Int) + 3 = 7 := by decide
  rw [e5] at a5
  have a6 := land_add_disjoint x 2 1 1 (by decide) (by decide) (by decide) (by decide)
  have e6 : (2 : Int) + 1 = 3 := by decide
  rw [e6] at a6
  have b0 := land_lit_1 x
  have b1 := land_lit_2 x
  have b2 := land_lit_4 x
  have b3 := land_lit_8 x
  have b4 := land_lit_16 x
  have b5 := land_lit_32 x
  have b7 := land_lit_128 x
  omega

@[pyarith] theorem land_lit_127 (x : Int) : land x 127 = x % 2 + x / 2 % 2 * 2 + x / 4 % 2 * 4 + x / 8 % 2 * 8 + x / 16 % 2 * 16 + x / 32 % 2 * 32 + x / 64 % 2 * 64 := by
  have a1 := land_add_disjoint x 64 63 6 (by decide) (by decide) (by decide) (by decide)
  have e1 : (64 : Int) + 63 = 127 := by decide
  rw [e1] at a1
  have a2 := land_add_disjoint x 32 31 5 (by decide) (by decide) (by decide) (by decide)
  have e2 : (32 : Int) + 31 = 63 := by decide
  rw [e2] at a2
  have a3 := land_add_disjoint x 16 15 4 (by decide) (by decide) (by decide) (by decide)
  have e3 : (16 : Int) + 15 = 31 := by decide
  rw [e3] at a3
  have a4 := land_add_disjoint x 8 7 3 (by decide) (by decide) (by decide) (by decide)
  have e4 : (8 : Int) + 7 = 15 := by decide
  rw [e4] at a4
  have a5 := land_add_disjoint x 4 3 2 (by decide) (by decide) (by decide) (by decide)
  have e5 : (4 : Int) + 3 = 7 := by decide
  rw [e5] at a5
  have a6 := land_add_disjoint x 2 1 1 (by decide) (by decide) (by decide) (by decide)
  have e6 : (2 : Int) + 1 = 3 := by decide
  rw [e6] at a6
  have b0 := land_lit_1 x
  have b1 := land_lit_2 x
  have b2 := land_lit_4 x
  have b3 := land_lit_8 x
  have b4 := land_lit_16 x
  have b5 := land_lit_32 x
  have b6 := land_lit_64 x
  omega

@[pyarith] theorem land_lit_32770 (x : Int) : land x 32770 = x / 2 % 2 * 2 + x / 32768 % 2 * 32768 := by
  have a1 := land_add_disjoint x 32768 2 15 (by decide) (by decide) (by decide) (by decide)
  have e1 : (32768 : Int) + 2 = 32770 := by decide
  rw [e1] at a1
  have b1 := land_lit_2 x
  have b15 := land_lit_32768 x
  omega

@[pyarith] theorem land_lit_32771 (x : Int) : land x 32771 = x % 2 + x / 2 % 2 * 2 + x / 32768 % 2 * 32768 := by
  have a1 := land_add_disjoint x 32768 3 15 (by decide) (by decide) (by decide) (by decide)
  have e1 : (32768 : Int) + 3 = 32771 := by decide
  rw [e1] at a1
  have a2 := land_add_disjoint x 2 1 1 (by decide) (by decide) (by decide) (by decide)
  have e2 : (2 : Int) + 1 = 3 := by decide
  rw [e2] at a2
  have b0 := land_lit_1 x
  have b1 := land_lit_2 x
  have b15 := land_lit_32768 x
  omega

@[pyarith] theorem land_lit_49154 (x : Int) : land x 49154 = x / 2 % 2 * 2 + x / 16384 % 2 * 16384 + x / 32768 % 2 * 32768 := by
  have a1 := land_add_disjoint x 32768 16386 15 (by decide) (by decide) (by decide) (by decide)
  have e1 : (32768 : Int) + 16386 = 49154 := by decide
  rw [e1] at a1
  have a2 := land_add_disjoint x 16384 2 14 (by decide) (by decide) (by decide) (by decide)
  have e2 : (16384 : Int) + 2 = 16386 := by decide
  rw [e2] at a2
  have b1 := land_lit_2 x
  have b14 := land_lit_16384 x
  have b15 := land_lit_32768 x
  omega

@[pyarith] theorem land_lit_49155 (x : Int) : land x 49155 = x % 2 + x / 2 % 2 * 2 + x / 16384 % 2 * 16384 + x / 32768 % 2 * 32768 := by
  have a1 := land_add_disjoint x 32768 16387 15 (by decide) (by decide) (by decide) (by decide)
  have e1 : (32768 : Int) + 16387 = 49155 := by decide
  rw [e1] at a1
  have a2 := land_add_disjoint x 16384 3 14 (by decide) (by decide) (by decide) (by decide)
  have e2 : (16384 : Int) + 3 = 16387 := by decide
  rw [e2] at a2
  have a3 := land_add_disjoint x 2 1 1 (by decide) (by decide) (by decide) (by decide)
  have e3 : (2 : Int) + 1 = 3 := by decide
  rw [e3] at a3
  have b0 := land_lit_1 x
  have b1 := land_lit_2 x
  have b14 := land_lit_16384 x
  have b15 := land_lit_32768 x
  omega

@[pyarith] theorem land_lit_49152 (x : Int) : land x 49152 = x / 16384 % 2 * 16384 + x / 32768 % 2 * 32768 := by
  have a1 := land_add_disjoint x 32768 16384 15 (by decide) (by decide) (by decide) (by decide)
  have e1 : (32768 : Int) + 16384 = 49152 := by decide
  rw [e1] at a1
  have b14 := land_lit_16384 x
  have b15 := land_lit_32768 x
  omega

@[pyarith] theorem lor_lit_1 (x : Int) : lor x 1 = x + 1 - land x 1 := lor_eq x 1

@[pyarith] theorem lor_lit_2 (x : Int) : lor x 2 = x + 2 - land x 2 := lor_eq x 2

@[pyarith] theorem lor_lit_3 (x : Int) : lor x 3 = x + 3 - land x 3 := lor_eq x 3

@[pyarith] theorem lor_lit_4 (x : Int) : lor x 4 = x + 4 - land x 4 := lor_eq x 4

@[pyarith] theorem lor_lit_8 (x : Int) : lor x 8 = x + 8 - land x 8 := lor_eq x 8

@[pyarith] theorem lor_lit_16 (x : Int) : lor x 16 = x + 16 - land x 16 := lor_eq x 16

@[pyarith] theorem lor_lit_32 (x : Int) : lor x 32 = x + 32 - land x 32 := lor_eq x 32

@[pyarith] theorem lor_lit_48 (x : Int) : lor x 48 = x + 48 - land x 48 := lor_eq x 48

@[pyarith] theorem lor_lit_64 (x : Int) : lor x 64 = x + 64 - land x 64 := lor_eq x 64

@[pyarith] theorem lor_lit_128 (x : Int) : lor x 128 = x + 128 - land x 128 := lor_eq x 128

@[pyarith] theorem lor_lit_256 (x : Int) : lor x 256 = x + 256 - land x 256 := lor_eq x 256

@[pyarith] theorem lor_lit_512 (x : Int) : lor x 512 = x + 512 - land x 512 := lor_eq x 512

@[pyarith] theorem lor_lit_1024 (x : Int) : lor x 1024 = x + 1024 - land x 1024 := lor_eq x 1024

@[pyarith] theorem lor_lit_2048 (x : Int) : lor x 2048 = x + 2048 - land x 2048 := lor_eq x 2048

@[pyarith] theorem lor_lit_4096 (x : Int) : lor x 4096 = x + 4096 - land x 4096 := lor_eq x 4096

@[pyarith] theorem lor_lit_8192 (x : Int) : lor x 8192 = x + 8192 - land x 8192 := lor_eq x 8192

@[pyarith] theorem lor_lit_16384 (x : Int) : lor x 16384 = x + 16384 - land x 16384 := lor_eq x 16384

@[pyarith] theorem lor_lit_32768 (x : Int) : lor x 32768 = x + 32768 - land x 32768 := lor_eq x 32768

@[pyarith] theorem lxor_lit_255 (x : Int) : lxor x 255 = x + 255 - 2 * land x 255 := lxor_eq x 255

@[pyarith] theorem lxor_lit_65535 (x : Int) : lxor x 65535 = x + 65535 - 2 * land x 65535 := lxor_eq x 65535

@[pyarith] theorem bitv_land_1 (x y : Int) : land x y % 2 = min (x % 2) (y % 2) := by
  have := bitv_land x y 0; simpa using this

@[pyarith] theorem bitv_lor_1 (x y : Int) : lor x y % 2 = max (x % 2) (y % 2) := by
  have := bitv_lor x y 0; simpa using this

@[pyarith] theorem bitv_lxor_1 (x y : Int) : lxor x y % 2 = (x % 2 + y % 2) % 2 := by
  have := bitv_lxor x y 0; simpa using this

@[pyarith] theorem bitv_lnot_1 (x : Int) : lnot x % 2 = 1 - x % 2 := by
  have := bitv_lnot x 0; simpa using this

@[pyarith] theorem bitv_land_2 (x y : Int) : land x y / 2 % 2 = min (x / 2 % 2) (y / 2 % 2) := by
  have := bitv_land x y 1; simpa using this

@[pyarith] theorem bitv_lor_2 (x y : Int) : lor x y / 2 % 2 = max (x / 2 % 2) (y / 2 % 2) := by
  have := bitv_lor x y 1; simpa using this

@[pyarith] theorem bitv_lxor_2 (x y : Int) : lxor x y / 2 % 2 = (x / 2 % 2 + y / 2 % 2) % 2 := by
  have := bitv_lxor x y 1; simpa using this

@[pyarith] theorem bitv_lnot_2 (x : Int) : lnot x / 2 % 2 = 1 - x / 2 % 2 := by
  have := bitv_lnot x 1; simpa using this

@[pyarith] theorem bitv_land_4 (x y : Int) : land x y / 4 % 2 = min (x / 4 % 2) (y / 4 % 2) := by
  have := bitv_land x y 2; simpa using this

@[pyarith] theorem bitv_lor_4 (x y : Int) : lor x y / 4 % 2 = max (x / 4 % 2) (y / 4 % 2) := by
  have := bitv_lor x y 2; simpa using this

@[pyarith] theorem bitv_lxor_4 (x y : Int) : lxor x y / 4 % 2 = (x / 4 % 2 + y / 4 % 2) % 2 := by
  have := bitv_lxor x y 2; simpa using this

@[pyarith] theorem bitv_lnot_4 (x : Int) : lnot x / 4 % 2 = 1 - x / 4 % 2 := by
  have := bitv_lnot x 2; simpa using this

@[pyarith] theorem bitv_land_8 (x y : Int) : land x y / 8 % 2 = min (x / 8 % 2) (y / 8 % 2) := by
  have := bitv_land x y 3; simpa using this

@[pyarith] theorem bitv_lor_8 (x y : Int) : lor x y / 8 % 2 = max (x / 8 % 2) (y / 8 % 2) := by
  have := bitv_lor x y 3; simpa using this

@[pyarith] theorem bitv_lxor_8 (x y : Int) : lxor x y / 8 % 2 = (x / 8 % 2 + y / 8 % 2) % 2 := by
  have := bitv_lxor x y 3; simpa using this

@[pyarith] theorem bitv_lnot_8 (x : Int) : lnot x / 8 % 2 = 1 - x / 8 % 2 := by
  have := bitv_lnot x 3; simpa using this

@[pyarith] theorem bitv_land_16 (x y : Int) : land x y / 16 % 2 = min (x / 16 % 2) (y / 16 % 2) := by
  have := bitv_land x y 4; simpa using this

@[pyarith] theorem bitv_lor_16 (x y : Int) : lor x y / 16 % 2 = max (x / 16 % 2) (y / 16 % 2) := by
  have := bitv_lor x y 4; simpa using this

@[pyarith] theorem bitv_lxor_16 (x y : Int) : lxor x y / 16 % 2 = (x / 16 % 2 + y / 16 % 2) % 2 := by
  have := bitv_lxor x y 4; simpa using this

@[pyarith] theorem bitv_lnot_16 (x : Int) : lnot x / 16 % 2 = 1 - x / 16 % 2 := by
  have := bitv_lnot x 4; simpa using this

@[pyarith] theorem bitv_land_32 (x y : Int) : land x y / 32 % 2 = min (x / 32 % 2) (y / 32 % 2) := by
  have := bitv_land x y 5; simpa using this

@[pyarith] theorem bitv_lor_32 (x y : Int) : lor x y / 32 % 2 = max (x / 32 % 2) (y / 32 % 2) := by
  have := bitv_lor x y 5; simpa using this

@[pyarith] theorem bitv_lxor_32 (x y : Int) : lxor x y / 32 % 2 = (x / 32 % 2 + y / 32 % 2) % 2 := by
  have := bitv_lxor x y 5; simpa using this

@[pyarith] theorem bitv_lnot_32 (x : Int) : lnot x / 32 % 2 = 1 - x / 32 % 2 := by
  have := bitv_lnot x 5; simpa using this

@[pyarith] theorem bitv_land_64 (x y : Int) : land x y / 64 % 2 = min (x / 64 % 2) (y / 64 % 2) := by
  have := bitv_land x y 6; simpa using this

@[pyarith] theorem bitv_lor_64 (x y : Int) : lor x y / 64 % 2 = max (x / 64 % 2) (y / 64 % 2) := by
  have := bitv_lor x y 6; simpa using this

@[pyarith] theorem bitv_lxor_64 (x y : Int) : lxor x y / 64 % 2 = (x / 64 % 2 + y / 64 % 2) % 2 := by
  have := bitv_lxor x y 6; simpa using this

@[pyarith] theorem bitv_lnot_64 (x : Int) : lnot x / 64 % 2 = 1 - x / 64 % 2 := by
  have := bitv_lnot x 6; simpa using this

@[pyarith] theorem bitv_land_128 (x y : Int) : land x y / 128 % 2 = min (x / 128 % 2) (y / 128 % 2) := by
  have := bitv_land x y 7; simpa using this

@[pyarith] theorem bitv_lor_128 (x y : Int) : lor x y / 128 % 2 = max (x / 128 % 2) (y / 128 % 2) := by
  have := bitv_lor x y 7; simpa using this

@[pyarith] theorem bitv_lxor_128 (x y : Int) : lxor x y / 128 % 2 = (x / 128 % 2 + y / 128 % 2) % 2 := by
  have := bitv_lxor x y 7; simpa using this

@[pyarith] theorem bitv_lnot_128 (x : Int) : lnot x / 128 % 2 = 1 - x / 128 % 2 := by
  have := bitv_lnot x 7; simpa using this

@[pyarith] theorem bitv_land_256 (x y : Int) : land x y / 256 % 2 = min (x / 256 % 2) (y / 256 % 2) := by
  have := bitv_land x y 8; simpa using this

@[pyarith] theorem bitv_lor_256 (x y : Int) : lor x y / 256 % 2 = max (x / 256 % 2) (y / 256 % 2) := by
  have := bitv_lor x y 8; simpa using this

@[pyarith] theorem bitv_lxor_256 (x y : Int) : lxor x y / 256 % 2 = (x / 256 % 2 + y / 256 % 2) % 2 := by
  have := bitv_lxor x y 8; simpa using this

@[pyarith] theorem bitv_lnot_256 (x : Int) : lnot x / 256 % 2 = 1 - x / 256 % 2 := by
  have := bitv_lnot x 8; simpa using this

@[pyarith] theorem bitv_land_512 (x y : Int) : land x y / 512 % 2 = min (x / 512 % 2) (y / 512 % 2) := by
  have := bitv_land x y 9; simpa using this

@[pyarith] theorem bitv_lor_512 (x y : Int) : lor x y / 512 % 2 = max (x / 512 % 2) (y / 512 % 2) := by
  have := bitv_lor x y 9; simpa using this

@[pyarith] theorem bitv_lxor_512 (x y : Int) : lxor x y / 512 % 2 = (x / 512 % 2 + y / 512 % 2) % 2 := by
  have := bitv_lxor x y 9; simpa using this

@[pyarith] theorem bitv_lnot_512 (x : Int) : lnot x / 512 % 2 = 1 - x / 512 % 2 := by
  have := bitv_lnot x 9; simpa using this

@[pyarith] theorem bitv_land_1024 (x y : Int) : land x y / 1024 % 2 = min (x / 1024 % 2) (y / 1024 % 2) := by
  have := bitv_land x y 10; simpa using this

@[pyarith] theorem bitv_lor_1024 (x y : Int) : lor x y / 1024 % 2 = max (x / 1024 % 2) (y / 1024 % 2) := by
  have := bitv_lor x y 10; simpa using this

@[pyarith] theorem bitv_lxor_1024 (x y : Int) : lxor x y / 1024 % 2 = (x / 1024 % 2 + y / 1024 % 2) % 2 := by
  have := bitv_lxor x y 10; simpa using this

@[pyarith] theorem bitv_lnot_1024 (x : Int) : lnot x / 1024 % 2 = 1 - x / 1024 % 2 := by
  have := bitv_lnot x 10; simpa using this

@[pyarith] theorem bitv_land_2048 (x y : Int) : land x y / 2048 % 2 = min (x / 2048 % 2) (y / 2048 % 2) := by
  have := bitv_land x y 11; simpa using this

@[pyarith] theorem bitv_lor_2048 (x y : Int) : lor x y / 2048 % 2 = max (x / 2048 % 2) (y / 2048 % 2) := by
  have := bitv_lor x y 11; simpa using this

@[pyarith] theorem bitv_lxor_2048 (x y : Int) : lxor x y / 2048 % 2 = (x / 2048 % 2 + y / 2048 % 2) % 2 := by
  have := bitv_lxor x y 11; simpa using this

@[pyarith] theorem bitv_lnot_2048 (x : Int) : lnot x / 2048 % 2 = 1 - x / 2048 % 2 := by
  have := bitv_lnot x 11; simpa using this

@[pyarith] theorem bitv_land_4096 (x y : Int) : land x y / 4096 % 2 = min (x / 4096 % 2) (y / 4096 % 2) := by
  have := bitv_land x y 12; simpa using this

@[pyarith] theorem bitv_lor_4096 (x y : Int) : lor x y / 4096 % 2 = max (x / 4096 % 2) (y / 4096 % 2) := by
  have := bitv_lor x y 12; simpa using this

@[pyarith] theorem bitv_lxor_4096 (x y : Int) : lxor x y / 4096 % 2 = (x / 4096 % 2 + y / 4096 % 2) % 2 := by
  have := bitv_lxor x y 12; simpa using this

@[pyarith] theorem bitv_lnot_4096 (x : Int) : lnot x / 4096 % 2 = 1 - x / 4096 % 2 := by
  have := bitv_lnot x 12; simpa using this

@[pyarith] theorem bitv_land_8192 (x y : Int) : land x y / 8192 % 2 = min (x / 8192 % 2) (y / 8192 % 2) := by
  have := bitv_land x y 13; simpa using this

@[pyarith] theorem bitv_lor_8192 (x y : Int) : lor x y / 8192 % 2 = max (x / 8192 % 2) (y / 8192 % 2) := by
  have := bitv_lor x y 13; simpa using this

@[pyarith] theorem bitv_lxor_8192 (x y : Int) : lxor x y / 8192 % 2 = (x / 8192 % 2 + y / 8192 % 2) % 2 := by
  have := bitv_lxor x y 13; simpa using this

@[pyarith] theorem bitv_lnot_8192 (x : Int) : lnot x / 8192 % 2 = 1 - x / 8192 % 2 := by
  have := bitv_lnot x 13; simpa using this

@[pyarith] theorem bitv_land_16384 (x y : Int) : land x y / 16384 % 2 = min (x / 16384 % 2) (y / 16384 % 2) := by
  have := bitv_land x y 14; simpa using this

@[pyarith] theorem bitv_lor_16384 (x y : Int) : lor x y / 16384 % 2 = max (x / 16384 % 2) (y / 16384 % 2) := by
  have := bitv_lor x y 14; simpa using this

@[pyarith] theorem bitv_lxor_16384 (x y : Int) : lxor x y / 16384 % 2 = (x / 16384 % 2 + y / 16384 % 2) % 2 := by
  have := bitv_lxor x y 14; simpa using this

@[pyarith] theorem bitv_lnot_16384 (x : Int) : lnot x / 16384 % 2 = 1 - x / 16384 % 2 := by
  have := bitv_lnot x 14; simpa using this

@[pyarith] theorem bitv_land_32768 (x y : Int) : land x y / 32768 % 2 = min (x / 32768 % 2) (y / 32768 % 2) := by
  have := bitv_land x y 15; simpa using this

@[pyarith] theorem bitv_lor_32768 (x y : Int) : lor x y / 32768 % 2 = max (x / 32768 % 2) (y / 32768 % 2) := by
  have := bitv_lor x y 15; simpa using this

@[pyarith] theorem bitv_lxor_32768 (x y : Int) : lxor x y / 32768 % 2 = (x / 32768 % 2 + y / 32768 % 2) % 2 := by
  have := bitv_lxor x y 15; simpa using this

@[pyarith] theorem bitv_lnot_32768 (x : Int) : lnot x / 32768 % 2 = 1 - x / 32768 % 2 := by
  have := bitv_lnot x 15; simpa using this

end Py
