import Py65.Proofs.AccSpecial
set_option linter.unusedSimpArgs false
namespace Py65.Proofs
open Py65 Py65.Gen Py65.Spec Py

set_option hygiene false in
/-- a handler whose accesses are exactly the specification's list, in order -/
macro "exact_acc" "[" ls:Lean.Parser.Tactic.simpLemma,* "]" : tactic =>
  `(tactic| (
    intro s hs
    refine ⟨_, ?_, List.Perm.refl _⟩
    have hsp := hs.sp; have hpc := hs.pc; have hx := hs.x
    have hm0 := hs.mem s.pc; have hm1 := hs.mem ((s.pc + 1) % AM c.BYTE_WIDTH)
    inst_acl [$ls,*]
    rcases hc with rfl | rfl <;>
    · simp [instrAccesses, fetched, dataAccesses, operandAddrs, Mode.len, stackAddr, core, irqVector,
        opnd16, opnd1, opnd2, AM, BM, pyarith] at hsp hpc hx hm0 hm1 ⊢
      try omega))

theorem a_48 (c : Cfg) (hc : IsDev c) (v : Variant) : HandlerAcc c v (Mpu6502.inst_0x48 c) .PHA .imp := by
  exact_acc [Mpu6502.inst_0x48]
theorem a_08 (c : Cfg) (hc : IsDev c) (v : Variant) : HandlerAcc c v (Mpu6502.inst_0x08 c) .PHP .imp := by
  exact_acc [Mpu6502.inst_0x08]
theorem a_68 (c : Cfg) (hc : IsDev c) (v : Variant) : HandlerAcc c v (Mpu6502.inst_0x68 c) .PLA .imp := by
  exact_acc [Mpu6502.inst_0x68]
theorem a_28 (c : Cfg) (hc : IsDev c) (v : Variant) : HandlerAcc c v (Mpu6502.inst_0x28 c) .PLP .imp := by
  exact_acc [Mpu6502.inst_0x28]
theorem a_4c (c : Cfg) (hc : IsDev c) (v : Variant) : HandlerAcc c v (Mpu6502.inst_0x4c c) .JMP .abs := by
  exact_acc [Mpu6502.inst_0x4c]
theorem a_60 (c : Cfg) (hc : IsDev c) (v : Variant) : HandlerAcc c v (Mpu6502.inst_0x60 c) .RTS .imp := by
  exact_acc [Mpu6502.inst_0x60]
theorem a_40 (c : Cfg) (hc : IsDev c) (v : Variant) : HandlerAcc c v (Mpu6502.inst_0x40 c) .RTI .imp := by
  exact_acc [Mpu6502.inst_0x40]
theorem a_00 (c : Cfg) (hc : IsDev c) (v : Variant) : HandlerAcc c v (Mpu6502.inst_0x00 c) .BRK .imp := by
  exact_acc [Mpu6502.inst_0x00]

/-- JSR pushes the return address before it fetches its operand: same multiset, other order. -/
theorem a_20 (c : Cfg) (hc : IsDev c) (v : Variant) : HandlerAcc c v (Mpu6502.inst_0x20 c) .JSR .abs := by
  intro s hs
  refine ⟨dataAccesses c.BYTE_WIDTH v .JSR .abs (core s) ++ (fetched c.BYTE_WIDTH .JSR .abs (core s)).map Acc.r,
    ?_, List.perm_append_comm⟩
  have hsp := hs.sp; have hpc := hs.pc
  inst_acl [Mpu6502.inst_0x20]
  rcases hc with rfl | rfl <;>
  · simp [fetched, dataAccesses, operandAddrs, Mode.len, stackAddr, core, AM, BM, pyarith] at hsp hpc ⊢
    try omega

/-- JMP (ind), NMOS: the pointer's high byte comes from the same page. -/
theorem a_6c (c : Cfg) (hc : IsDev c) : HandlerAcc c .nmos (Mpu6502.inst_0x6c c) .JMP .ind := by
  intro s hs
  refine ⟨_, ?_, List.Perm.refl _⟩
  have hm0 := hs.mem s.pc; have hm1 := hs.mem ((s.pc + 1) % AM c.BYTE_WIDTH)
  inst_acl [Mpu6502.inst_0x6c]
  rcases hc with rfl | rfl <;>
  · simp [instrAccesses, fetched, dataAccesses, operandAddrs, Mode.len, core,
      opnd16, opnd1, opnd2, AM, BM, pyarith] at hm0 hm1 ⊢
    try omega
end Py65.Proofs
