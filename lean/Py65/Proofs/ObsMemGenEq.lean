/-
Tie 1 for `py65/memory.py`: the definitions REGENERATED from the current source by
`harness/py2lean_mem.py` (`Py65/Gen/ObsMemGen.lean`) are equal, for ALL arguments, to the
hand-written model `Py65/Model/ObsMem.lean` that the C10/C11 theorems are proved about.  These
equalities are the proof obligations a change of `memory.py` breaks: the generated text changes
with the source (masks, comparisons, the order "mask – look up – loop – store", the `is not None`
tests, the loop bodies, the slice bounds of `write`, …) and the proofs below no longer check.

Also here (hand-written glue, not translated): what a *history* means for the generated
definitions (`apply`, `run`: one method call per `Op`) and the replay of device accesses
(`obsStep`, `replayObs`), with their equalities, so that `Props/C10g.lean` and `Props/C11g.lean`
can restate the property theorems for the generated definitions.

Nothing outside this file, `Props/C10g.lean` and `Props/C11g.lean` imports the generated file.
-/
import Py65.Gen.ObsMemGen
import Py65.Proofs.ObsMemLemmas

namespace Py65.Proofs.ObsMemGenEq
open Py65 Py65.Model.ObsMem Py65.Spec.ObsMem Py65.Gen

/-! ### `__init__` -/

/-- The default length of the backing list for address width `w`. -/
def defaultLen (w : Int) : Int := (if w > 16 then 0x3ffff else 0xffff) + 1

/-- `ObservableMemory(subject, addrWidth)` with a backing list `cells` of the default length:
what `Model.ObsMem.init` denotes. -/
def initOf (w : Int) (cells : Int → Int) : OM :=
  ObsMemGen.init (some { cells := cells, len := defaultLen w }) w

/-- generated `__init__` with an explicit backing list of the default length = hand model. -/
theorem init_eq : initOf = init := rfl

/-- generated `__init__` with `subject=None`: a fresh list of `physMask + 1` zeros. -/
theorem init_none_eq (w : Int) : ObsMemGen.init none w = init w (fun _ => 0) := by
  unfold ObsMemGen.init init Py.listRepeat
  by_cases h : w > 16 <;> simp [h, Subs.empty]

/-- the default arguments of `__init__`: `subject=None, addrWidth=16`. -/
theorem init_defaults : ObsMemGen.init.default_1 = none ∧ ObsMemGen.init.default_2 = 16 := ⟨rfl, rfl⟩

/-! ### `__setitem__` / `__getitem__`, int index -/

/-- generated `__setitem__` (int index) = `Model.ObsMem.set`. -/
theorem setitem_int_eq : ObsMemGen.setitem_int = set := by
  funext reply m a v
  have key : ∀ (a' : Int) (cbs : List Nat) (v : Int) (s : OM),
      cbs.foldl (fun (acc : Int × OM) (cb : Nat) =>
          ((match (ObsMemGen.call reply acc.2 cb a' (some acc.1)).1 with
            | none => acc.1
            | some r => r), (ObsMemGen.call reply acc.2 cb a' (some acc.1)).2)) (v, s)
        = ((writeLoop reply a' cbs v s.log).1, { s with log := (writeLoop reply a' cbs v s.log).2 }) := by
    intro a' cbs
    induction cbs with
    | nil => intro v s; rfl
    | cons cb rest ih =>
      intro v s
      rw [List.foldl_cons, ih, writeLoop]
      simp only [ObsMemGen.call]
      cases reply cb s.log.length a' (some v) <;> rfl
  unfold ObsMemGen.setitem_int Model.ObsMem.set
  exact congrArg (fun (r : Int × OM) =>
    ({ r.2 with subject := Py.listSetItem r.2.subject (Py.land a m.physMask) r.1 } : OM))
    (key (Py.land a m.physMask) (m.wsubs.of (Py.land a m.physMask)) v m)

/-- generated `__getitem__` (int index) = `Model.ObsMem.get`. -/
theorem getitem_int_eq : ObsMemGen.getitem_int = get := by
  funext reply m a
  have key : ∀ (a' : Int) (cbs : List Nat) (fin : Option Int) (s : OM),
      cbs.foldl (fun (acc : Option Int × OM) (cb : Nat) =>
          ((match (ObsMemGen.call reply acc.2 cb a' none).1 with
            | none => acc.1
            | some r => some r), (ObsMemGen.call reply acc.2 cb a' none).2)) (fin, s)
        = ((readLoop reply a' cbs fin s.log).1, { s with log := (readLoop reply a' cbs fin s.log).2 }) := by
    intro a' cbs
    induction cbs with
    | nil => intro fin s; rfl
    | cons cb rest ih =>
      intro fin s
      rw [List.foldl_cons, ih, readLoop]
      simp only [ObsMemGen.call]
      cases reply cb s.log.length a' none <;> rfl
  unfold ObsMemGen.getitem_int Model.ObsMem.get
  refine Eq.trans (congrArg (fun (r : Option Int × OM) =>
    (match r.1 with
     | none => (r.2.subject (Py.land a m.physMask), r.2)
     | some x => (x, r.2) : Int × OM))
    (key (Py.land a m.physMask) (m.rsubs.of (Py.land a m.physMask)) none m)) ?_
  simp only []
  cases (readLoop reply (Py.land a m.physMask) (m.rsubs.of (Py.land a m.physMask)) none m.log).1 <;> rfl

/-! ### slices -/

/-- generated `__setitem__` (slice index) = `Model.ObsMem.setSlice`. -/
theorem setitem_slice_eq (reply : Reply) (m : OM) (sl : Py.PySlice) (vals : List Int) :
    ObsMemGen.setitem_slice reply m sl vals = setSlice reply m sl.start sl.stop sl.step vals := by
  unfold ObsMemGen.setitem_slice setSlice sliceRange
  rw [setitem_int_eq]
  cases sliceIndices (m.physMask + 1) sl.start sl.stop sl.step with
  | none => rfl
  | some r => simp only [Option.bind_some, Option.map_some, setMany_eq_foldl]

/-- generated `__getitem__` (slice index) = `Model.ObsMem.getSlice`. -/
theorem getitem_slice_eq (reply : Reply) (m : OM) (sl : Py.PySlice) :
    ObsMemGen.getitem_slice reply m sl = getSlice reply m sl.start sl.stop sl.step := by
  unfold ObsMemGen.getitem_slice getSlice sliceRange
  rw [getitem_int_eq]
  cases sliceIndices (m.physMask + 1) sl.start sl.stop sl.step with
  | none => rfl
  | some r => simp only [Option.bind_some, Option.map_some, getMany_eq_foldl]

/-! ### subscription -/

/-- generated `subscribe_to_write` = `Model.ObsMem.subscribeWrite`. -/
theorem subscribe_to_write_eq : ObsMemGen.subscribe_to_write = subscribeWrite := by
  funext m addrs cb
  unfold ObsMemGen.subscribe_to_write subscribeWrite
  have key : ∀ (addrs : List Int) (s : OM),
      addrs.foldl (fun (s : OM) (address : Int) =>
          if ¬ (cb ∈ s.wsubs.of (Py.land address s.physMask))
          then { s with wsubs := Subs.set s.wsubs (Py.land address s.physMask)
                                   (s.wsubs.of (Py.land address s.physMask) ++ [cb]) }
          else s) s
        = { s with wsubs := addrs.foldl (subOne s.physMask cb) s.wsubs } := by
    intro addrs
    induction addrs with
    | nil => intro s; rfl
    | cons x rest ih =>
      intro s
      rw [List.foldl_cons, ih, List.foldl_cons]
      by_cases h : cb ∈ s.wsubs.of (Py.land x s.physMask) <;> simp [h, subOne, Subs.set]
  exact key addrs m

/-- generated `subscribe_to_read` = `Model.ObsMem.subscribeRead`. -/
theorem subscribe_to_read_eq : ObsMemGen.subscribe_to_read = subscribeRead := by
  funext m addrs cb
  unfold ObsMemGen.subscribe_to_read subscribeRead
  have key : ∀ (addrs : List Int) (s : OM),
      addrs.foldl (fun (s : OM) (address : Int) =>
          if ¬ (cb ∈ s.rsubs.of (Py.land address s.physMask))
          then { s with rsubs := Subs.set s.rsubs (Py.land address s.physMask)
                                   (s.rsubs.of (Py.land address s.physMask) ++ [cb]) }
          else s) s
        = { s with rsubs := addrs.foldl (subOne s.physMask cb) s.rsubs } := by
    intro addrs
    induction addrs with
    | nil => intro s; rfl
    | cons x rest ih =>
      intro s
      rw [List.foldl_cons, ih, List.foldl_cons]
      by_cases h : cb ∈ s.rsubs.of (Py.land x s.physMask) <;> simp [h, subOne, Subs.set]
  exact key addrs m

/-! ### `write` -/

/-- CPython list slice assignment `lst[s : s + len(vals)] = vals` is the overlay the hand model
uses: positions `min s L … + len(vals)` receive `vals`, nothing else changes, the list grows to
`max L (min s L + len(vals))`. -/
theorem listSliceAssign_overlay (cells : Int → Int) (L s : Int) (vals : List Int) :
    Py.listSliceAssign cells L s (s + (vals.length : Int)) vals =
      (fun k => if (if s > L then L else s) ≤ k ∧ k < (if s > L then L else s) + (vals.length : Int)
                then vals.getD (k - (if s > L then L else s)).toNat 0 else cells k,
       if L < (if s > L then L else s) + (vals.length : Int)
       then (if s > L then L else s) + (vals.length : Int) else L) := by
  unfold Py.listSliceAssign
  have hn : (0 : Int) ≤ (vals.length : Int) := Int.natCast_nonneg _
  refine Prod.ext ?_ ?_
  · funext k
    simp only []
    split_ifs <;> first | rfl | omega | (congr 1; omega)
  · simp only []
    split_ifs <;> omega

/-- generated `write` = `Model.ObsMem.write`. -/
theorem write_eq : ObsMemGen.write = write := by
  funext m s bytes
  unfold ObsMemGen.write write
  simp only [listSliceAssign_overlay]

/-! ### histories of method calls on the generated definitions (hand-written glue) -/

/-- One operation of a history, performed with the generated methods. -/
def apply (reply : Reply) (m : OM) : Op → Out × OM
  | .subR addrs cb => (.unit, ObsMemGen.subscribe_to_read m addrs cb)
  | .subW addrs cb => (.unit, ObsMemGen.subscribe_to_write m addrs cb)
  | .get a => let r := ObsMemGen.getitem_int reply m a; (.val r.1, r.2)
  | .set a v => (.unit, ObsMemGen.setitem_int reply m a v)
  | .getSlice s e st =>
    match ObsMemGen.getitem_slice reply m ⟨s, e, st⟩ with
    | some r => (.vals r.1, r.2)
    | none => (.valueError, m)
  | .setSlice s e st vs =>
    match ObsMemGen.setitem_slice reply m ⟨s, e, st⟩ vs with
    | some m' => (.unit, m')
    | none => (.valueError, m)
  | .write s bs => (.unit, ObsMemGen.write m s bs)

/-- State after a history. -/
def run (reply : Reply) (m : OM) (hist : List Op) : OM :=
  hist.foldl (fun m op => (apply reply m op).2) m

theorem apply_eq : apply = Model.ObsMem.apply := by
  funext reply m op
  cases op <;>
    simp only [apply, Model.ObsMem.apply, subscribe_to_read_eq, subscribe_to_write_eq, getitem_int_eq,
      setitem_int_eq, getitem_slice_eq, setitem_slice_eq, write_eq] <;> rfl

theorem run_eq : run = Model.ObsMem.run := by
  funext reply m hist
  unfold run Model.ObsMem.run
  rw [apply_eq]

/-- One device access on the generated `ObservableMemory`. -/
def obsStep (reply : Reply) (m : OM) : MemEv → Option Int × OM
  | .r a => let r := ObsMemGen.getitem_int reply m a; (some r.1, r.2)
  | .w a v => (none, ObsMemGen.setitem_int reply m a v)

def replayObs (reply : Reply) : OM → List MemEv → List (Option Int) × OM
  | m, [] => ([], m)
  | m, e :: es =>
    let r := obsStep reply m e
    let r2 := replayObs reply r.2 es
    (r.1 :: r2.1, r2.2)

theorem obsStep_eq : obsStep = Spec.ObsMem.obsStep := by
  funext reply m e
  cases e <;> simp only [obsStep, Spec.ObsMem.obsStep, getitem_int_eq, setitem_int_eq]

theorem replayObs_eq : replayObs = Spec.ObsMem.replayObs := by
  funext reply m evs
  induction evs generalizing m with
  | nil => rfl
  | cons e es ih => simp only [replayObs, Spec.ObsMem.replayObs, ih, obsStep_eq]

end Py65.Proofs.ObsMemGenEq
