/- GENERATED (static): one of 64 slices of the 2^17-row decimal-mode table, decided by kernel evaluation. -/
import Py65.Proofs.DecimalKernel
namespace Py65.Proofs.Dec
open Py65.Spec.Decimal
theorem adc_chunk59 : ∀ a : Fin 4, ∀ m : Fin 256, ∀ c : Bool,
    pyAdc (Int.ofNat (236 + a.val)) (Int.ofNat m.val) c = adcNmos (Int.ofNat (236 + a.val)) (Int.ofNat m.val) c := by
  decide +kernel
end Py65.Proofs.Dec
