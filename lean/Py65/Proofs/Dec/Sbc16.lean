/- GENERATED (static): one of 64 slices of the 2^17-row decimal-mode table, decided by kernel evaluation. -/
import Py65.Proofs.DecimalKernel
namespace Py65.Proofs.Dec
open Py65.Spec.Decimal
theorem sbc_chunk16 : ∀ a : Fin 4, ∀ m : Fin 256, ∀ c : Bool,
    pySbc (Int.ofNat (64 + a.val)) (Int.ofNat m.val) c = sbcNmos (Int.ofNat (64 + a.val)) (Int.ofNat m.val) c := by
  decide +kernel
end Py65.Proofs.Dec
