import Py65.Proofs.AccStack
set_option linter.unusedSimpArgs false
namespace Py65.Proofs
open Py65 Py65.Gen Py65.Spec Py

/-! ### handlers the 65C02 adds or overrides (byte width 8 only) -/
section
variable (v : Variant)
theorem ac_00 (c : Cfg) (hc : IsDev c) : HandlerAcc c v (Mpu65c02.inst_0x00 c) .BRK .imp := by
  exact_acc [Mpu65c02.inst_0x00]
theorem ac_da (c : Cfg) (hc : IsDev c) : HandlerAcc c v (Mpu65c02.inst_0xda c) .PHX .imp := by
  exact_acc [Mpu65c02.inst_0xda]
theorem ac_5a (c : Cfg) (hc : IsDev c) : HandlerAcc c v (Mpu65c02.inst_0x5a c) .PHY .imp := by
  exact_acc [Mpu65c02.inst_0x5a]
theorem ac_fa (c : Cfg) (hc : IsDev c) : HandlerAcc c v (Mpu65c02.inst_0xfa c) .PLX .imp := by
  exact_acc [Mpu65c02.inst_0xfa]
theorem ac_7a (c : Cfg) (hc : IsDev c) : HandlerAcc c v (Mpu65c02.inst_0x7a c) .PLY .imp := by
  exact_acc [Mpu65c02.inst_0x7a]
theorem ac_89 (c : Cfg) (hc : IsDev c) : HandlerAcc c v (Mpu65c02.inst_0x89 c) .BIT .imm := by
  exact_acc [Mpu65c02.inst_0x89]
theorem ac_cb (c : Cfg) : HandlerAcc c v (Mpu65c02.inst_0xcb c) .WAI .imp :=
  none_acc c v _ _ _ (fun _ => rfl) (fun _ => rfl)
theorem ac_1a (c : Cfg) : HandlerAcc c v (Mpu65c02.inst_0x1a c) .INC .acc :=
  none_acc c v _ _ _ (opINCR_acc_acl c) (fun _ => rfl)
theorem ac_3a (c : Cfg) : HandlerAcc c v (Mpu65c02.inst_0x3a c) .DEC .acc :=
  none_acc c v _ _ _ (opDECR_acc_acl c) (fun _ => rfl)
theorem ac_80 (c : Cfg) : HandlerAcc c v (Mpu65c02.inst_0x80 c) .BRA .rel :=
  branch_acc c v _ .BRA (fun _ => true) (fun _ => rfl) (fun _ => rfl) (fun _ => rfl)
end

/-- JMP (ind), 65C02: the pointer's high byte comes from the next address. -/
theorem ac_6c (c : Cfg) (hc : IsDev c) : HandlerAcc c .cmos (Mpu65c02.inst_0x6c c) .JMP .ind := by
  intro s hs
  refine ⟨_, ?_, List.Perm.refl _⟩
  have hm0 := hs.mem s.pc; have hm1 := hs.mem ((s.pc + 1) % AM c.BYTE_WIDTH)
  inst_acl [Mpu65c02.inst_0x6c]
  rcases hc with rfl | rfl <;>
  · simp [instrAccesses, fetched, dataAccesses, operandAddrs, Mode.len, core,
      opnd16, opnd1, opnd2, AM, BM, pyarith] at hm0 hm1 ⊢
    try omega

theorem ac_7c (c : Cfg) (hc : IsDev c) (v : Variant) : HandlerAcc c v (Mpu65c02.inst_0x7c c) .JMP .iax := by
  intro s hs
  refine ⟨_, ?_, List.Perm.refl _⟩
  have hm0 := hs.mem s.pc; have hm1 := hs.mem ((s.pc + 1) % AM c.BYTE_WIDTH); have hx := hs.x
  inst_acl [Mpu65c02.inst_0x7c, Mpu65c02.IndirectAbsXAddr]
  rcases hc with rfl | rfl <;>
  · simp [instrAccesses, fetched, dataAccesses, operandAddrs, Mode.len, core,
      opnd16, opnd1, opnd2, AM, BM, pyarith] at hm0 hm1 hx ⊢
    try omega
end Py65.Proofs
