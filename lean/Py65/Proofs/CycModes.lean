import Py65.Proofs.AccCmos
import Py65.Proofs.CyclesOps
set_option linter.unusedSimpArgs false
namespace Py65.Proofs
open Py65 Py65.Gen Py65.Spec Py

/-- The variable part of an instruction's cycle count as the handlers compute it: the page-crossing
cycle of an indexed address (only when the opcode's `extracycles` entry, copied into `addcycles`
by `step()`, is non-zero) and the taken-branch cycles. -/
def varCycles (W : Nat) (mn : Mn) (mo : Mode) (add : Prop) [Decidable add] (s : AState) : Int :=
  (if add ∧ readCrosses W mo s = true then 1 else 0) +
  (if isBranch mn = true ∧ branchCond W mn s.p = true then
     1 + (if page W (branchTarget W s) ≠ page W (nextPc W mo s) then 1 else 0)
   else 0)

def HandlerCyc (c : Cfg) (h : St → St) (mn : Mn) (mo : Mode) : Prop :=
  ∀ s, WF c s → (h s).cycles = s.cycles ∧
    (h s).excycles = s.excycles + varCycles c.BYTE_WIDTH mn mo (s.addcycles ≠ 0) (core s)

def ModeCyc (c : Cfg) (x : St → Int × St) (mo : Mode) : Prop :=
  ∀ s, WF c s → (x s).2.cycles = s.cycles ∧
    (x s).2.excycles = s.excycles + (if s.addcycles ≠ 0 ∧ readCrosses c.BYTE_WIDTH mo (core s) = true then 1 else 0)

set_option hygiene false in
macro "mode_cyc" : tactic =>
  `(tactic| (
    intro s _
    dsimp +instances only [Mpu6502.ProgramCounter, Mpu6502.ZeroPageAddr, Mpu6502.ZeroPageXAddr, Mpu6502.ZeroPageYAddr,
      Mpu6502.AbsoluteAddr, Mpu6502.IndirectXAddr, Mpu65c02.ZeroPageIndirectAddr, Mpu65c02.IndirectAbsXAddr,
      Mpu6502.WordAt, Mpu6502.WrapAt, Mpu6502.ByteAt, memGet, readCrosses]
    simp))

theorem ProgramCounter_cyc (c : Cfg) : ModeCyc c (Mpu6502.ProgramCounter c) .imm := by mode_cyc
theorem ZeroPageAddr_cyc (c : Cfg) : ModeCyc c (Mpu6502.ZeroPageAddr c) .zpg := by mode_cyc
theorem ZeroPageXAddr_cyc (c : Cfg) : ModeCyc c (Mpu6502.ZeroPageXAddr c) .zpx := by mode_cyc
theorem ZeroPageYAddr_cyc (c : Cfg) : ModeCyc c (Mpu6502.ZeroPageYAddr c) .zpy := by mode_cyc
theorem AbsoluteAddr_cyc (c : Cfg) : ModeCyc c (Mpu6502.AbsoluteAddr c) .abs := by mode_cyc
theorem IndirectXAddr_cyc (c : Cfg) : ModeCyc c (Mpu6502.IndirectXAddr c) .inx := by mode_cyc
theorem ZeroPageIndirectAddr_cyc (c : Cfg) : ModeCyc c (Mpu65c02.ZeroPageIndirectAddr c) .zpi := by mode_cyc
theorem IndirectAbsXAddr_cyc (c : Cfg) : ModeCyc c (Mpu65c02.IndirectAbsXAddr c) .iax := by mode_cyc

theorem AbsoluteXAddr_cycles (c : Cfg) (s : St) : (Mpu6502.AbsoluteXAddr c s).2.cycles = s.cycles := by
  dsimp +instances only [Mpu6502.AbsoluteXAddr, Mpu6502.WordAt, Mpu6502.ByteAt, memGet]
  simp +instances only [apply_ite Prod.snd, apply_ite St.cycles, ite_self]
theorem AbsoluteYAddr_cycles (c : Cfg) (s : St) : (Mpu6502.AbsoluteYAddr c s).2.cycles = s.cycles := by
  dsimp +instances only [Mpu6502.AbsoluteYAddr, Mpu6502.WordAt, Mpu6502.ByteAt, memGet]
  simp +instances only [apply_ite Prod.snd, apply_ite St.cycles, ite_self]
theorem IndirectYAddr_cycles (c : Cfg) (s : St) : (Mpu6502.IndirectYAddr c s).2.cycles = s.cycles := by
  dsimp +instances only [Mpu6502.IndirectYAddr, Mpu6502.WrapAt, Mpu6502.ByteAt, memGet]
  simp +instances only [apply_ite Prod.snd, apply_ite St.cycles, ite_self]

theorem AbsoluteXAddr_cyc' (c : Cfg) (hc : IsDev c) : ModeCyc c (Mpu6502.AbsoluteXAddr c) .abx := by
  intro s hs
  refine ⟨AbsoluteXAddr_cycles c s, ?_⟩
  rw [AbsoluteX_cyc c hc s hs]
theorem AbsoluteYAddr_cyc' (c : Cfg) (hc : IsDev c) : ModeCyc c (Mpu6502.AbsoluteYAddr c) .aby := by
  intro s hs
  refine ⟨AbsoluteYAddr_cycles c s, ?_⟩
  rw [AbsoluteY_cyc c hc s hs]
theorem IndirectYAddr_cyc' (c : Cfg) (hc : IsDev c) : ModeCyc c (Mpu6502.IndirectYAddr c) .iny := by
  intro s hs
  refine ⟨IndirectYAddr_cycles c s, ?_⟩
  rw [IndirectY_cyc c hc s hs]
end Py65.Proofs
