import Py65.Proofs.OpsRot
set_option linter.unusedSimpArgs false
namespace Py65.Proofs
open Py65 Py65.Gen Py65.Spec Py

/-- The hardware's signed-overflow test `~(a ^ d) & (a ^ r) & signbit`, bit by bit. -/
theorem ovf_test (a d r : Int) (k : Nat) :
    (land (land (lnot (lxor a d)) (lxor a r)) (2 ^ k) = 0) =
      ¬ (a / 2 ^ k % 2 = d / 2 ^ k % 2 ∧ a / 2 ^ k % 2 ≠ r / 2 ^ k % 2) := by
  rw [land_two_pow, bitv_land, bitv_lnot, bitv_lxor, bitv_lxor]
  have h2 : (2 : Int) ^ k ≠ 0 := by
    have : (0 : Int) < 2 ^ k := Int.pow_pos (by decide)
    omega
  generalize a / 2 ^ k = A
  generalize d / 2 ^ k = D
  generalize r / 2 ^ k = R
  have ha : A % 2 = 0 ∨ A % 2 = 1 := by omega
  have hd : D % 2 = 0 ∨ D % 2 = 1 := by omega
  have hr : R % 2 = 0 ∨ R % 2 = 1 := by omega
  apply propext
  rw [Int.mul_eq_zero]
  rcases ha with ha | ha <;> rcases hd with hd | hd <;> rcases hr with hr | hr <;>
    simp [ha, hd, hr, h2] <;> decide

theorem ovf_test8 (a d r : Int) :
    (land (land (lnot (lxor a d)) (lxor a r)) 128 = 0) =
      ¬ (a / 128 % 2 = d / 128 % 2 ∧ a / 128 % 2 ≠ r / 128 % 2) := ovf_test a d r 7
theorem ovf_test16 (a d r : Int) :
    (land (land (lnot (lxor a d)) (lxor a r)) 32768 = 0) =
      ¬ (a / 32768 % 2 = d / 32768 % 2 ∧ a / 32768 % 2 ≠ r / 32768 % 2) := ovf_test a d r 15

theorem land8_zero (p : Int) : (land p 8 = 0) = (flag p 3 = false) := by
  simp only [flagalg]
  by_cases h : flag p 3 = true <;> simp_all

def adcP (W : Nat) (p a m : Int) : Int :=
  setNZ W (setCV W p (addBin W a m (flag p bitC)).2.1 (addBin W a m (flag p bitC)).2.2) (addBin W a m (flag p bitC)).1

set_option maxHeartbeats 1600000 in
theorem opADC_core (c : Cfg) (hc : IsDev c) (x : St → Int × St) (mo : Mode) (hx : ModeSem c x mo)
    (s : St) (hs : WF c s) (hD : flag s.p bitD = false) :
    core (Mpu6502.opADC c x s) =
      { core s with
        a := (addBin c.BYTE_WIDTH s.a (s.mem (ea c.BYTE_WIDTH mo (core s))) (flag s.p bitC)).1,
        p := adcP c.BYTE_WIDTH s.p s.a (s.mem (ea c.BYTE_WIDTH mo (core s))) } := by
  obtain ⟨hv, hcore⟩ := hx s hs
  obtain ⟨ha', hxx, hy, hsp, hp', hpc, hmem, hw⟩ := core_fields hcore
  have hm := hs.mem (ea c.BYTE_WIDTH mo (core s))
  have hp := hs.p
  have ha := hs.a
  generalize ea c.BYTE_WIDTH mo (core s) = e at hv hm
  have e8 : c.DECIMAL = 8 := by rcases hc with rfl | rfl <;> rfl
  have hd : land s.p c.DECIMAL = 0 := by rw [e8, land8_zero]; exact hD
  by_cases h1 : land s.p c.CARRY = 0 <;>
  · simp +instances only [Mpu6502.opADC, core, ByteAt_val, ByteAt_p, ByteAt_a, ByteAt_mem, ByteAt_x, ByteAt_y, ByteAt_sp,
      ByteAt_pc, ByteAt_waiting, hp', ha', hmem, hv, hxx, hy, hsp, hpc, hw,
      hd, h1, ne_eq, if_true, if_false, not_true_eq_false, not_false_eq_true,
      apply_ite Prod.fst, apply_ite Prod.snd, apply_ite St.a, apply_ite St.x, apply_ite St.y, apply_ite St.sp,
      apply_ite St.p, apply_ite St.pc, apply_ite St.mem, apply_ite St.waiting, ite_self]
    generalize s.mem e = m at hm
    generalize s.p = p at hp h1 hD
    generalize s.a = a at ha
    rcases hc with rfl | rfl
    · constfold [adcP, addBin, setCV, setNZ, signed] at hm hp ha h1 ⊢
      rw [land1_zero] at h1
      try simp only [Bool.not_eq_false] at h1
      simp only [bitC, h1, Bool.false_eq_true, if_true, if_false, ovf_test8]
      clear h1 hD
      simp only [flagalg]
      simp only [pyarith, Int.reducePow, Int.reduceMul]
      split_ifs <;> (try simp [flagalg, *])
      all_goals (try (refine ⟨by omega, ?_⟩))
      all_goals (try flag_close)
    · constfold [adcP, addBin, setCV, setNZ, signed] at hm hp ha h1 ⊢
      rw [land1_zero] at h1
      try simp only [Bool.not_eq_false] at h1
      simp only [bitC, h1, Bool.false_eq_true, if_true, if_false, ovf_test16]
      clear h1 hD
      simp only [flagalg]
      simp only [pyarith, Int.reducePow, Int.reduceMul]
      split_ifs <;> (try simp [flagalg, *])
      all_goals (try (refine ⟨by omega, ?_⟩))
      all_goals (try flag_close)

theorem sbc_ovf_test (a d r : Int) (k : Nat) :
    (land (land (lxor a d) (lxor a r)) (2 ^ k) = 0) =
      ¬ (a / 2 ^ k % 2 ≠ d / 2 ^ k % 2 ∧ a / 2 ^ k % 2 ≠ r / 2 ^ k % 2) := by
  rw [land_two_pow, bitv_land, bitv_lxor, bitv_lxor]
  have h2 : (2 : Int) ^ k ≠ 0 := by
    have : (0 : Int) < 2 ^ k := Int.pow_pos (by decide)
    omega
  generalize a / 2 ^ k = A
  generalize d / 2 ^ k = D
  generalize r / 2 ^ k = R
  have ha : A % 2 = 0 ∨ A % 2 = 1 := by omega
  have hd : D % 2 = 0 ∨ D % 2 = 1 := by omega
  have hr : R % 2 = 0 ∨ R % 2 = 1 := by omega
  apply propext
  rw [Int.mul_eq_zero]
  rcases ha with ha | ha <;> rcases hd with hd | hd <;> rcases hr with hr | hr <;>
    simp [ha, hd, hr, h2] <;> decide
theorem sbc_ovf_test8 (a d r : Int) :
    (land (land (lxor a d) (lxor a r)) 128 = 0) =
      ¬ (a / 128 % 2 ≠ d / 128 % 2 ∧ a / 128 % 2 ≠ r / 128 % 2) := sbc_ovf_test a d r 7
theorem sbc_ovf_test16 (a d r : Int) :
    (land (land (lxor a d) (lxor a r)) 32768 = 0) =
      ¬ (a / 32768 % 2 ≠ d / 32768 % 2 ∧ a / 32768 % 2 ≠ r / 32768 % 2) := sbc_ovf_test a d r 15

def sbcP (W : Nat) (p a m : Int) : Int :=
  setNZ W (setCV W p (subBin W a m (flag p bitC)).2.1 (subBin W a m (flag p bitC)).2.2) (subBin W a m (flag p bitC)).1

set_option maxHeartbeats 3200000 in
theorem opSBC_core (c : Cfg) (hc : IsDev c) (x : St → Int × St) (mo : Mode) (hx : ModeSem c x mo)
    (s : St) (hs : WF c s) (hD : flag s.p bitD = false) :
    core (Mpu6502.opSBC c x s) =
      { core s with
        a := (subBin c.BYTE_WIDTH s.a (s.mem (ea c.BYTE_WIDTH mo (core s))) (flag s.p bitC)).1,
        p := sbcP c.BYTE_WIDTH s.p s.a (s.mem (ea c.BYTE_WIDTH mo (core s))) } := by
  obtain ⟨hv, hcore⟩ := hx s hs
  obtain ⟨ha', hxx, hy, hsp, hp', hpc, hmem, hw⟩ := core_fields hcore
  have hm := hs.mem (ea c.BYTE_WIDTH mo (core s))
  have hp := hs.p
  have ha := hs.a
  generalize ea c.BYTE_WIDTH mo (core s) = e at hv hm
  have e8 : c.DECIMAL = 8 := by rcases hc with rfl | rfl <;> rfl
  have hd : land s.p c.DECIMAL = 0 := by rw [e8, land8_zero]; exact hD
  have e1 : c.CARRY = 1 := by rcases hc with rfl | rfl <;> rfl
  have hcases : land s.p 1 = 0 ∨ land s.p 1 = 1 := by
    rw [land_lit_1]; omega
  rcases hcases with h1 | h1 <;>
  · simp +instances only [Mpu6502.opSBC, sbcP, core, ByteAt_val, ByteAt_p, ByteAt_a, ByteAt_mem, ByteAt_x, ByteAt_y, ByteAt_sp,
      ByteAt_pc, ByteAt_waiting, hp', ha', hmem, hv, hxx, hy, hsp, hpc, hw, e1, h1,
      hd, ne_eq, if_true, if_false, not_true_eq_false, not_false_eq_true,
      apply_ite Prod.fst, apply_ite Prod.snd, apply_ite St.a, apply_ite St.x, apply_ite St.y, apply_ite St.sp,
      apply_ite St.p, apply_ite St.pc, apply_ite St.mem, apply_ite St.waiting, ite_self]
    have hf : flag s.p bitC = (if land s.p 1 = 0 then false else true) := by
      have := land1_zero s.p
      by_cases h : land s.p 1 = 0 <;> simp_all [bitC]
    rw [hf, h1]
    generalize s.mem e = m at hm
    generalize s.p = p at hp hD h1
    generalize s.a = a at ha
    clear hD h1 hf
    rcases hc with rfl | rfl
    · constfold [sbcP, subBin, setCV, setNZ, signed] at hm hp ha ⊢
      simp only [sbc_ovf_test8, Int.reduceEq, if_true, if_false, Bool.false_eq_true, one_ne_zero]
      have el : land (lnot m) 255 = 255 - m := by
        have := land_mask (lnot m) 8
        simp only [Int.reducePow, Int.reduceSub] at this
        rw [this]; simp only [Py.lnot]; omega
      have em : ∀ z : Int, land z 255 = z % 256 := fun z => by
        have := land_mask z 8
        simpa using this
      simp only [el, em]
      split_ifs
      all_goals (try simp only [flagalg])
      all_goals (try simp only [pyarith, Py.lnot, Int.reducePow, Int.reduceMul])
      all_goals (try simp [flagalg, *])
      all_goals (try (refine ⟨by omega, ?_⟩))
      all_goals (try flag_close)
    · constfold [sbcP, subBin, setCV, setNZ, signed] at hm hp ha ⊢
      simp only [sbc_ovf_test16, Int.reduceEq, if_true, if_false, Bool.false_eq_true, one_ne_zero]
      have el : land (lnot m) 65535 = 65535 - m := by
        have := land_mask (lnot m) 16
        simp only [Int.reducePow, Int.reduceSub] at this
        rw [this]; simp only [Py.lnot]; omega
      have em : ∀ z : Int, land z 65535 = z % 65536 := fun z => by
        have := land_mask z 16
        simpa using this
      simp only [el, em]
      split_ifs
      all_goals (try simp only [flagalg])
      all_goals (try simp only [pyarith, Py.lnot, Int.reducePow, Int.reduceMul])
      all_goals (try simp [flagalg, *])
      all_goals (try (refine ⟨by omega, ?_⟩))
      all_goals (try flag_close)

theorem normP_setCV (W : Nat) (hW : W = 8 ∨ W = 16) (p : Int) (c v : Bool) :
    normP (setCV W p c v) = setCV W (normP p) c v := by
  rcases hW with rfl | rfl <;>
  · simp only [setCV, bitC, bitV, Nat.reduceSub]
    rw [normP_setFlag _ _ _ (by decide), normP_setFlag _ _ _ (by decide)]

theorem normP_adcP (W : Nat) (hW : W = 8 ∨ W = 16) (p a m : Int) :
    normP (adcP W p a m) = adcP W (normP p) a m := by
  simp only [adcP, normP_setNZ _ hW, normP_setCV _ hW,
    flag_normP _ _ (by decide : bitC ∈ [0, 1, 2, 3, 6, 7, 14, 15])]
theorem normP_sbcP (W : Nat) (hW : W = 8 ∨ W = 16) (p a m : Int) :
    normP (sbcP W p a m) = sbcP W (normP p) a m := by
  simp only [sbcP, normP_setNZ _ hW, normP_setCV _ hW,
    flag_normP _ _ (by decide : bitC ∈ [0, 1, 2, 3, 6, 7, 14, 15])]

/-- Precondition of the binary ADC/SBC theorems (decimal mode is C04). -/
def BinaryMode (s : St) : Prop := flag s.p bitD = false

theorem opADC_okp (c : Cfg) (hc : IsDev c) (v : Variant) (x : St → Int × St) (mo : Mode)
    (hx : ModeSem c x mo) :
    HandlerOKp c v (fun s => bump (mo.len - 1) (Mpu6502.opADC c x s)) .ADC mo BinaryMode := by
  intro s hs hD
  obtain ⟨ha, hxx, hy, hsp, hp, hpc, hmem, hw⟩ := core_eq (opADC_core c hc x mo hx s hs hD)
  simp only [exec, ea_abs, nextPc_abs]
  simp only [absH, abs, bump, core, nextPc, ha, hxx, hy, hsp, hp, hpc, hmem, hw,
    addrMask_succ hc, normP_adcP _ hc.W]
  simp only [adcP, flag_normP _ _ (by decide : bitC ∈ [0, 1, 2, 3, 6, 7, 14, 15])]

theorem opSBC_okp (c : Cfg) (hc : IsDev c) (v : Variant) (x : St → Int × St) (mo : Mode)
    (hx : ModeSem c x mo) :
    HandlerOKp c v (fun s => bump (mo.len - 1) (Mpu6502.opSBC c x s)) .SBC mo BinaryMode := by
  intro s hs hD
  obtain ⟨ha, hxx, hy, hsp, hp, hpc, hmem, hw⟩ := core_eq (opSBC_core c hc x mo hx s hs hD)
  simp only [exec, ea_abs, nextPc_abs]
  simp only [absH, abs, bump, core, nextPc, ha, hxx, hy, hsp, hp, hpc, hmem, hw,
    addrMask_succ hc, normP_sbcP _ hc.W]
  simp only [sbcP, flag_normP _ _ (by decide : bitC ∈ [0, 1, 2, 3, 6, 7, 14, 15])]
end Py65.Proofs
