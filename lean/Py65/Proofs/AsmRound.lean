/-
C08 helper lemmas: decode / encode are inverse on the documented tables (`spec_roundtrip`), the
operand text the disassembler prints is read back by `AddressParser.number` (`number_shown`), and
the two composed with `asm_text_*` and `asm_core_gen` (`roundtrip_gen`).
-/
import Py65.Proofs.AsmText
import Py65.Proofs.AsmTables

namespace Py65.Proofs.Asm
set_option linter.unusedSimpArgs false
open Py65.Model Py65.Model.PyStr Py65.Model.AddrParser Py65.Model.Asm Py65.Model.Disasm Py65.Proofs.Num
open Py65.Spec (Mode Mn Variant decode)
open Py65.Spec.Asm (opcodeOf Shape Outcome Refusal Stmt encode encodeIn encodeAbs Documented disp isZp fits
  operandBytes mnText shapeOf operandValue instrBytes signed)

theorem rowFacts_all (v : Variant) (n : Nat) (hn : n < 256) : rowFacts v n = true := by
  have h : (List.range 256).all (rowFacts v) = true := by
    cases v
    · exact rowFacts_nmos
    · exact rowFacts_cmos
  rw [List.all_eq_true] at h
  exact h n (List.mem_range.mpr hn)

/-- zero-page twin of an absolute mode -/
def zpTwin : Mode → Option Mode
  | .abs => some .zpg
  | .abx => some .zpx
  | .aby => some .zpy
  | _ => none

/-- What C08 allows as the result of re-assembling the instruction `op b1 b2`: the original bytes,
or -- for an absolute, absolute,X or absolute,Y operand below one page whose mnemonic has the
zero-page form -- that zero-page form. -/
def RoundTrip (v : Variant) (mn : Mn) (mo : Mode) (op b1 b2 : Int) (r : List Int) : Prop :=
  r = instrBytes mo op b1 b2 ∨
  ∃ zp opz, zpTwin mo = some zp ∧ b2 = 0 ∧ opcodeOf v (mnText mn) zp = some opz ∧ r = [(opz : Int), b1]

theorem disp_signed {W : Nat} (hW : W = 8 ∨ W = 16) (pc b1 : Int) (hb1 : 0 ≤ b1 ∧ b1 < 2 ^ W) :
    disp W ((pc + 2 + signed W b1) % 2 ^ (2 * W)) pc = signed W b1 := by
  unfold disp signed
  rcases hW with rfl | rfl
  · norm_num at hb1 ⊢
    split_ifs <;> omega
  · norm_num at hb1 ⊢
    split_ifs <;> omega

/-- decode / encode are inverse: the documented encoding of the statement that the bytes
`op b1 b2` at `pc` denote is those bytes again, or their zero-page twin. -/
theorem spec_roundtrip (v : Variant) {W : Nat} (hW : W = 8 ∨ W = 16) (n : Nat) (hn : n < 256)
    (mn : Mn) (mo : Mode) (hdec : decode v (n : Int) = some (mn, mo)) (pc b1 b2 : Int)
    (hb1 : 0 ≤ b1 ∧ b1 < 2 ^ W) (hb2 : 0 ≤ b2 ∧ b2 < 2 ^ W) (hpc : pc + mo.len ≤ 2 ^ (2 * W)) :
    ∃ r, encode v W ⟨mnText mn, shapeOf mo, operandValue W mo pc b1 b2⟩ pc = .ok r ∧
      RoundTrip v mn mo n b1 b2 r := by
  have hf := rowFacts_all v n hn
  simp only [rowFacts, hdec, Bool.and_eq_true, decide_eq_true_eq, Bool.or_eq_true, bne_iff_ne, ne_eq] at hf
  obtain ⟨⟨⟨⟨⟨f1, _⟩, _⟩, f2⟩, f3⟩, f4⟩ := hf
  have hword : 0 ≤ b1 + b2 * 2 ^ W ∧ b1 + b2 * 2 ^ W < 2 ^ (2 * W) ∧
      (b1 + b2 * 2 ^ W) % 2 ^ W = b1 ∧ (b1 + b2 * 2 ^ W) / 2 ^ W = b2 := by
    rcases hW with rfl | rfl
    · norm_num at hb1 hb2 ⊢; omega
    · norm_num at hb1 hb2 ⊢; omega
  have hb1w : b1 < 2 ^ (2 * W) := by
    rcases hW with rfl | rfl
    · norm_num at hb1 ⊢; omega
    · norm_num at hb1 ⊢; omega
  have hmod0 : (0 : Int) ≤ (pc + 2 + signed W b1) % 2 ^ (2 * W) ∧ (pc + 2 + signed W b1) % 2 ^ (2 * W) < 2 ^ (2 * W) :=
    ⟨Int.emod_nonneg _ (by positivity), Int.emod_lt_of_pos _ (by positivity)⟩
  cases mo
  case imp =>
    refine ⟨[(n : Int)], ?_, Or.inl (by simp [instrBytes, Mode.len])⟩
    have hl : Mode.imp.len = 1 := rfl
    rw [hl] at hpc
    have : ¬ (2 : Int) ^ (2 * W) < pc + 1 := by omega
    simp [encode, shapeOf, Shape.inRange, Shape.modes, encodeIn, f1, fits, isZp, operandBytes, operandValue, instrBytes, Mode.len, this, hb1, hb1w, hword]
  case acc =>
    refine ⟨[(n : Int)], ?_, Or.inl (by simp [instrBytes, Mode.len])⟩
    have hl : Mode.acc.len = 1 := rfl
    rw [hl] at hpc
    have : ¬ (2 : Int) ^ (2 * W) < pc + 1 := by omega
    simp [encode, shapeOf, Shape.inRange, Shape.modes, encodeIn, f1, fits, isZp, operandBytes, operandValue, instrBytes, Mode.len, this, hb1, hb1w, hword]
  case imm =>
    refine ⟨[(n : Int), b1], ?_, Or.inl (by simp [instrBytes, Mode.len])⟩
    have hl : Mode.imm.len = 2 := rfl
    rw [hl] at hpc
    have : ¬ (2 : Int) ^ (2 * W) < pc + 2 := by omega
    simp [encode, shapeOf, Shape.inRange, Shape.modes, encodeIn, f1, fits, isZp, operandBytes, operandValue, instrBytes, Mode.len, this, hb1, hb1w, hword]
  case zpg =>
    refine ⟨[(n : Int), b1], ?_, Or.inl (by simp [instrBytes, Mode.len])⟩
    have hl : Mode.zpg.len = 2 := rfl
    rw [hl] at hpc
    have : ¬ (2 : Int) ^ (2 * W) < pc + 2 := by omega
    simp [encode, shapeOf, Shape.inRange, Shape.modes, encodeIn, f1, fits, isZp, operandBytes, operandValue, instrBytes, Mode.len, this, hb1, hb1w, hword]
  case zpx =>
    refine ⟨[(n : Int), b1], ?_, Or.inl (by simp [instrBytes, Mode.len])⟩
    have hl : Mode.zpx.len = 2 := rfl
    rw [hl] at hpc
    have : ¬ (2 : Int) ^ (2 * W) < pc + 2 := by omega
    simp [encode, shapeOf, Shape.inRange, Shape.modes, encodeIn, f1, fits, isZp, operandBytes, operandValue, instrBytes, Mode.len, this, hb1, hb1w, hword]
  case zpy =>
    refine ⟨[(n : Int), b1], ?_, Or.inl (by simp [instrBytes, Mode.len])⟩
    have hl : Mode.zpy.len = 2 := rfl
    rw [hl] at hpc
    have : ¬ (2 : Int) ^ (2 * W) < pc + 2 := by omega
    simp [encode, shapeOf, Shape.inRange, Shape.modes, encodeIn, f1, fits, isZp, operandBytes, operandValue, instrBytes, Mode.len, this, hb1, hb1w, hword]
  case inx =>
    refine ⟨[(n : Int), b1], ?_, Or.inl (by simp [instrBytes, Mode.len])⟩
    have hl : Mode.inx.len = 2 := rfl
    rw [hl] at hpc
    have : ¬ (2 : Int) ^ (2 * W) < pc + 2 := by omega
    simp [encode, shapeOf, Shape.inRange, Shape.modes, encodeIn, f1, fits, isZp, operandBytes, operandValue, instrBytes, Mode.len, this, hb1, hb1w, hword]
  case iny =>
    refine ⟨[(n : Int), b1], ?_, Or.inl (by simp [instrBytes, Mode.len])⟩
    have hl : Mode.iny.len = 2 := rfl
    rw [hl] at hpc
    have : ¬ (2 : Int) ^ (2 * W) < pc + 2 := by omega
    simp [encode, shapeOf, Shape.inRange, Shape.modes, encodeIn, f1, fits, isZp, operandBytes, operandValue, instrBytes, Mode.len, this, hb1, hb1w, hword]
  case zpi =>
    refine ⟨[(n : Int), b1], ?_, Or.inl (by simp [instrBytes, Mode.len])⟩
    have hl : Mode.zpi.len = 2 := rfl
    rw [hl] at hpc
    have : ¬ (2 : Int) ^ (2 * W) < pc + 2 := by omega
    simp [encode, shapeOf, Shape.inRange, Shape.modes, encodeIn, f1, fits, isZp, operandBytes, operandValue, instrBytes, Mode.len, this, hb1, hb1w, hword]
  case abs =>
    have hl : Mode.abs.len = 3 := rfl
    rw [hl] at hpc
    have hnot : ¬ (2 : Int) ^ (2 * W) < pc + 3 := by omega
    have hnot2 : ¬ (2 : Int) ^ (2 * W) < pc + 2 := by omega
    by_cases hb : b2 = 0
    · cases hz : opcodeOf v (mnText mn) .zpg with
      | none =>
        refine ⟨[(n : Int), b1, b2], ?_, Or.inl (by simp [instrBytes, Mode.len])⟩
        simp [encode, shapeOf, Shape.inRange, Shape.modes, encodeIn, f1, fits, isZp, operandBytes, operandValue, instrBytes, Mode.len, hz, hnot, hword]
      | some opz =>
        refine ⟨[(opz : Int), b1], ?_, Or.inr ⟨.zpg, opz, rfl, hb, hz, rfl⟩⟩
        subst hb
        simp [encode, shapeOf, Shape.inRange, Shape.modes, encodeIn, f1, fits, isZp, operandBytes, operandValue, instrBytes, Mode.len, hz, hnot2, hb1, hb1w]
    · refine ⟨[(n : Int), b1, b2], ?_, Or.inl (by simp [instrBytes, Mode.len])⟩
      have hge : ¬ b1 + b2 * 2 ^ W < 2 ^ W := by
        rcases hW with rfl | rfl
        · norm_num at hb1 hb2 ⊢; omega
        · norm_num at hb1 hb2 ⊢; omega
      cases hz : opcodeOf v (mnText mn) .zpg <;>
        simp [encode, shapeOf, Shape.inRange, Shape.modes, encodeIn, f1, fits, isZp, operandBytes, operandValue, instrBytes, Mode.len, hz, hnot, hword, hge]
  case abx =>
    have hl : Mode.abx.len = 3 := rfl
    rw [hl] at hpc
    have hnot : ¬ (2 : Int) ^ (2 * W) < pc + 3 := by omega
    have hnot2 : ¬ (2 : Int) ^ (2 * W) < pc + 2 := by omega
    by_cases hb : b2 = 0
    · cases hz : opcodeOf v (mnText mn) .zpx with
      | none =>
        refine ⟨[(n : Int), b1, b2], ?_, Or.inl (by simp [instrBytes, Mode.len])⟩
        simp [encode, shapeOf, Shape.inRange, Shape.modes, encodeIn, f1, fits, isZp, operandBytes, operandValue, instrBytes, Mode.len, hz, hnot, hword]
      | some opz =>
        refine ⟨[(opz : Int), b1], ?_, Or.inr ⟨.zpx, opz, rfl, hb, hz, rfl⟩⟩
        subst hb
        simp [encode, shapeOf, Shape.inRange, Shape.modes, encodeIn, f1, fits, isZp, operandBytes, operandValue, instrBytes, Mode.len, hz, hnot2, hb1, hb1w]
    · refine ⟨[(n : Int), b1, b2], ?_, Or.inl (by simp [instrBytes, Mode.len])⟩
      have hge : ¬ b1 + b2 * 2 ^ W < 2 ^ W := by
        rcases hW with rfl | rfl
        · norm_num at hb1 hb2 ⊢; omega
        · norm_num at hb1 hb2 ⊢; omega
      cases hz : opcodeOf v (mnText mn) .zpx <;>
        simp [encode, shapeOf, Shape.inRange, Shape.modes, encodeIn, f1, fits, isZp, operandBytes, operandValue, instrBytes, Mode.len, hz, hnot, hword, hge]
  case aby =>
    have hl : Mode.aby.len = 3 := rfl
    rw [hl] at hpc
    have hnot : ¬ (2 : Int) ^ (2 * W) < pc + 3 := by omega
    have hnot2 : ¬ (2 : Int) ^ (2 * W) < pc + 2 := by omega
    by_cases hb : b2 = 0
    · cases hz : opcodeOf v (mnText mn) .zpy with
      | none =>
        refine ⟨[(n : Int), b1, b2], ?_, Or.inl (by simp [instrBytes, Mode.len])⟩
        simp [encode, shapeOf, Shape.inRange, Shape.modes, encodeIn, f1, fits, isZp, operandBytes, operandValue, instrBytes, Mode.len, hz, hnot, hword]
      | some opz =>
        refine ⟨[(opz : Int), b1], ?_, Or.inr ⟨.zpy, opz, rfl, hb, hz, rfl⟩⟩
        subst hb
        simp [encode, shapeOf, Shape.inRange, Shape.modes, encodeIn, f1, fits, isZp, operandBytes, operandValue, instrBytes, Mode.len, hz, hnot2, hb1, hb1w]
    · refine ⟨[(n : Int), b1, b2], ?_, Or.inl (by simp [instrBytes, Mode.len])⟩
      have hge : ¬ b1 + b2 * 2 ^ W < 2 ^ W := by
        rcases hW with rfl | rfl
        · norm_num at hb1 hb2 ⊢; omega
        · norm_num at hb1 hb2 ⊢; omega
      cases hz : opcodeOf v (mnText mn) .zpy <;>
        simp [encode, shapeOf, Shape.inRange, Shape.modes, encodeIn, f1, fits, isZp, operandBytes, operandValue, instrBytes, Mode.len, hz, hnot, hword, hge]
  case ind =>
    have hl : Mode.ind.len = 3 := rfl
    rw [hl] at hpc
    have hnot : ¬ (2 : Int) ^ (2 * W) < pc + 3 := by omega
    have hz := f3.resolve_left (by simp)
    refine ⟨[(n : Int), b1, b2], ?_, Or.inl (by simp [instrBytes, Mode.len])⟩
    simp [encode, shapeOf, Shape.inRange, Shape.modes, encodeIn, f1, fits, isZp, operandBytes, operandValue, instrBytes, Mode.len, hz, hnot, hword]
  case iax =>
    have hl : Mode.iax.len = 3 := rfl
    rw [hl] at hpc
    have hnot : ¬ (2 : Int) ^ (2 * W) < pc + 3 := by omega
    have hz := f4.resolve_left (by simp)
    refine ⟨[(n : Int), b1, b2], ?_, Or.inl (by simp [instrBytes, Mode.len])⟩
    simp [encode, shapeOf, Shape.inRange, Shape.modes, encodeIn, f1, fits, isZp, operandBytes, operandValue, instrBytes, Mode.len, hz, hnot, hword]
  case rel =>
    have hl : Mode.rel.len = 2 := rfl
    rw [hl] at hpc
    have hnot : ¬ (2 : Int) ^ (2 * W) < pc + 2 := by omega
    have hz := f2.resolve_left (by simp)
    have hd := disp_signed hW pc b1 hb1
    have hrange : -(2 ^ (W - 1)) ≤ signed W b1 ∧ signed W b1 < 2 ^ (W - 1) ∧ signed W b1 % 2 ^ W = b1 := by
      unfold signed
      rcases hW with rfl | rfl
      · norm_num at hb1 ⊢; split_ifs <;> omega
      · norm_num at hb1 ⊢; split_ifs <;> omega
    refine ⟨[(n : Int), b1], ?_, Or.inl (by simp [instrBytes, Mode.len])⟩
    simp [encode, shapeOf, Shape.inRange, Shape.modes, encodeIn, f1, fits, isZp, operandBytes, operandValue, instrBytes, Mode.len, hz.1, hz.2, hnot, hmod0, hd, hrange]


section round
variable {d : Dev} {v : Variant} {W : Nat}

/-- Label tables the round trip is claimed for: parser of the device's address width, in-range
values, and every label that `label_for` can return is an identifier-like word (no blank, comma or
parenthesis, not `A`/`a`, not starting with `# ( $ + %`) that `address_for` maps back to the
address. -/
structure GoodLabels (P : Parser) (W : Nat) : Prop where
  width : P.width = 2 * W
  wf : P.WF
  ident : ∀ a l, labelFor P a = some l → AddrWord l ∧ NoPrefix l ∧ lookup P.labels l = some a

theorem digitChar_target : ∀ k, k < 16 → isTargetChar (digitChar k) = true := by decide

theorem fmtHexL_target (k n : Nat) : ∀ c ∈ fmtHexL k n, isTargetChar c = true := by
  unfold fmtHexL rjustL
  intro c hc
  rw [List.mem_append] at hc
  rcases hc with hc | hc
  · rw [List.mem_replicate] at hc
    rw [hc.2]; decide
  · obtain ⟨k', hk', rfl⟩ := toDigits_digCh (b := 16) (by decide) n c hc
    exact digitChar_target k' hk'

/-- `AddressParser.number` reads `$` followed by `"%0kx" % n` back as `n`. -/
theorem numberL_dollar_hex (P : Parser) (k n : Nat) (hn : (n : Int) ≤ P.maxaddr) :
    numberL P ('$' :: fmtHexL k n) = .ok (n : Int) := by
  rw [(numberL_prefix P _).1, pyIntL_fmtHexL]
  exact constrain_in (Int.natCast_nonneg n) hn

/-- The operand text the disassembler shows for the address `a` is an operand word that
`AddressParser.number` values at `a` again -- as `$hex` and as a label. -/
theorem number_shown {P : Parser} (hg : GoodLabels P W) (k : Nat) (a : Int) (ha : 0 ≤ a ∧ a < 2 ^ (2 * W)) :
    AddrWord (shown P k a) ∧ numberL P (shown P k a) = .ok a := by
  unfold shown
  cases hl : labelFor P a with
  | some l =>
    obtain ⟨h1, h2, h3⟩ := hg.ident a l hl
    exact ⟨h1, numberL_label P h2 h3⟩
  | none =>
    have hmax : P.maxaddr = 2 ^ (2 * W) - 1 := by unfold Parser.maxaddr; rw [hg.width]
    have hcast : ((a.toNat : Nat) : Int) = a := Int.toNat_of_nonneg ha.1
    refine ⟨⟨by simp, ?_, by simp, by simp, by simp, by simp⟩, ?_⟩
    · intro c hc
      simp only [List.mem_cons] at hc
      rcases hc with rfl | hc
      · decide
      · exact fmtHexL_target _ _ c hc
    · have := numberL_dollar_hex P k a.toNat (by rw [hcast, hmax]; omega)
      rw [hcast] at this
      exact this

theorem afterOf_ok (sh : Shape) :
    (∀ c, (afterOf sh).head? = some c → isTargetChar c = false) ∧ inAfter (afterOf sh) = true ∧
    upperS (removeWs (afterOf sh)) = afterOf sh := by
  cases sh <;> refine ⟨?_, by decide, by decide⟩ <;> intro c hc <;> simp [afterOf] at hc <;> subst hc <;> decide

/-- re-assembling `MNE <lead><shown address><after>` -/
theorem reasm_addr (h : DevOK d v W) {P : Parser} (hg : GoodLabels P W) (M : Str) (hM : IsMnem M)
    (hMu : upperS M = M) (sh : Shape) (hsh : Shape.isAddr sh = true) (k : Nat) (a : Int)
    (ha : 0 ≤ a ∧ a < 2 ^ (2 * W)) (pc : Int) :
    assembleL d P (M ++ ' ' :: (leadOf sh ++ (shown P k a ++ afterOf sh))) pc =
      toARes (encode v W ⟨M, sh, a⟩ pc) := by
  obtain ⟨hw, hn⟩ := number_shown hg k a ha
  obtain ⟨a1, a2, a3⟩ := afterOf_ok sh
  have hsp : Blank [' '] := by intro c hc; simp at hc; subst hc; decide
  have hnil : Blank [] := by intro c hc; cases hc
  have := asm_text_addr h P hg.width hg.wf sh hsh [] M [' '] [] (shown P k a) (afterOf sh) [] pc
    hnil hsp (by simp) hnil hnil hM hw a1 a2 a3
  simp only [List.nil_append, List.append_nil, List.singleton_append, hn, hMu] at this
  rw [this, asm_core_gen h]

/-- re-assembling `MNE #$hh` -/
theorem reasm_imm (h : DevOK d v W) {P : Parser} (hg : GoodLabels P W) (M : Str) (hM : IsMnem M)
    (hMu : upperS M = M) (b : Int) (hb : 0 ≤ b ∧ b < 2 ^ W) (pc : Int) :
    assembleL d P (M ++ ' ' :: '#' :: '$' :: fmtHexL (W / 4) b.toNat) pc =
      toARes (encode v W ⟨M, .imm, b⟩ pc) := by
  have hsp : Blank [' '] := by intro c hc; simp at hc; subst hc; decide
  have hnil : Blank [] := by intro c hc; cases hc
  have hcast : ((b.toNat : Nat) : Int) = b := Int.toNat_of_nonneg hb.1
  have hmax : P.maxaddr = 2 ^ (2 * W) - 1 := by unfold Parser.maxaddr; rw [hg.width]
  have hbw : b < 2 ^ (2 * W) := by
    rcases h.hW with rfl | rfl
    · norm_num at hb ⊢; omega
    · norm_num at hb ⊢; omega
  have hn := numberL_dollar_hex P (W / 4) b.toNat (by rw [hcast, hmax]; omega)
  rw [hcast] at hn
  have hwc : ∀ c ∈ '$' :: fmtHexL (W / 4) b.toNat, isTargetChar c = true := by
    intro c hc
    simp only [List.mem_cons] at hc
    rcases hc with rfl | hc
    · decide
    · exact fmtHexL_target _ _ c hc
  have := asm_text_imm h P [] M [' '] ('$' :: fmtHexL (W / 4) b.toNat) [] pc hnil hsp (by simp) hnil hM
    (by simp) hwc (by simp)
  simp only [List.nil_append, List.append_nil, List.singleton_append, hn, hMu, List.cons_append] at this
  rw [this, asm_core_gen h]

theorem relTarget_eq (h : DevOK d v W) (pc b : Int) (hb : 0 ≤ b ∧ b < 2 ^ W) :
    relTarget d pc b = (pc + 2 + signed W b) % 2 ^ (2 * W) := by
  unfold relTarget Dev.addrMask Dev.byteMask signed
  rw [h.bw, h.aw]
  simp only [Py.shl, Int.one_mul, Py.land_mask, Py.land_two_pow]
  rcases h.hW with rfl | rfl
  · have hx := Py.lxor_mask b 8 hb.1 hb.2
    norm_num at hx hb ⊢
    rw [hx]
    split_ifs <;> omega
  · have hx := Py.lxor_mask b 16 hb.1 hb.2
    norm_num at hx hb ⊢
    rw [hx]
    split_ifs <;> omega

theorem wordAt_eq (h : DevOK d v W) (mem : Int → Int) (a : Int) :
    wordAt d mem a = byteAt d mem a + byteAt d mem (a + 1) * 2 ^ W := by
  unfold wordAt byteAt Dev.addrMask
  rw [h.aw, h.bw]
  simp only [Py.shl, Int.one_mul, Py.land_mask, Int.emod_emod_of_dvd _ (dvd_refl _)]

/-- C08, generic device: the text the disassembler produces for a declared opcode at `pc` (with
any label table of identifier-like names) re-assembles at `pc` to the original bytes or their
zero-page twin. -/
theorem roundtrip_gen (h : DevOK d v W) {P : Parser} (hg : GoodLabels P W) (mem : Int → Int) (pc : Int)
    (n : Nat) (hn : n < 256) (hop : byteAt d mem pc = (n : Int)) (mn : Mn) (mo : Mode)
    (hdec : decode v (n : Int) = some (mn, mo))
    (hb1 : 0 ≤ byteAt d mem (pc + 1) ∧ byteAt d mem (pc + 1) < 2 ^ W)
    (hb2 : 0 ≤ byteAt d mem (pc + 2) ∧ byteAt d mem (pc + 2) < 2 ^ W)
    (hfit : pc + mo.len ≤ 2 ^ (2 * W)) :
    ∃ text r, instructionAt d P mem pc = .ok mo.len.toNat text ∧ assembleL d P text pc = .ok r ∧
      RoundTrip v mn mo n (byteAt d mem (pc + 1)) (byteAt d mem (pc + 2)) r := by
  have hopr : 0 ≤ byteAt d mem pc ∧ byteAt d mem pc < 256 := by rw [hop]; omega
  have hf := rowFacts_all v n hn
  simp only [rowFacts, hdec, Bool.and_eq_true, decide_eq_true_eq] at hf
  obtain ⟨⟨⟨⟨⟨_, fM⟩, fU⟩, _⟩, _⟩, _⟩ := hf
  have hM := isMnemB_sound fM
  obtain ⟨r, henc, hrt⟩ := spec_roundtrip v h.hW n hn mn mo hdec pc _ _ hb1 hb2 hfit
  refine ⟨disText d P W (mnText mn) mo pc (byteAt d mem (pc + 1)) (wordAt d mem (pc + 1)), r, ?_, ?_, hrt⟩
  · rw [dis_spec h P mem pc hopr, hop, hdec]
  · set b1 := byteAt d mem (pc + 1) with hb1d
    set b2 := byteAt d mem (pc + 2) with hb2d
    have hw : wordAt d mem (pc + 1) = b1 + b2 * 2 ^ W := by
      have e : pc + 1 + 1 = pc + 2 := by omega
      rw [wordAt_eq h, e]
    have hword : 0 ≤ b1 + b2 * 2 ^ W ∧ b1 + b2 * 2 ^ W < 2 ^ (2 * W) := by
      rcases h.hW with rfl | rfl
      · norm_num at hb1 hb2 ⊢; omega
      · norm_num at hb1 hb2 ⊢; omega
    have hb1w : 0 ≤ b1 ∧ b1 < 2 ^ (2 * W) := by
      rcases h.hW with rfl | rfl
      · norm_num at hb1 ⊢; omega
      · norm_num at hb1 ⊢; omega
    have hrel : 0 ≤ (pc + 2 + signed W b1) % 2 ^ (2 * W) ∧ (pc + 2 + signed W b1) % 2 ^ (2 * W) < 2 ^ (2 * W) :=
      ⟨Int.emod_nonneg _ (by positivity), Int.emod_lt_of_pos _ (by positivity)⟩
    have hsp : Blank [' '] := by intro c hc; simp at hc; subst hc; decide
    have hnil : Blank [] := by intro c hc; cases hc
    have hgoal : ARes.ok r = toARes (encode v W ⟨mnText mn, shapeOf mo, operandValue W mo pc b1 b2⟩ pc) := by
      rw [henc]; rfl
    rw [hgoal]
    clear hgoal henc hrt
    cases mo
    case imp =>
      have := asm_text_none (d := d) P [] (mnText mn) [] pc hnil hnil hM
      simp only [List.nil_append, List.append_nil, fU] at this
      simp only [disText, this, asm_core_gen h, shapeOf, operandValue]
    case acc =>
      have := asm_text_acc (d := d) P [] (mnText mn) [' '] [] 'A' pc hnil hsp (by simp) hnil hM (Or.inl rfl)
      simp only [List.nil_append, List.append_nil, List.singleton_append, fU] at this
      simp only [disText, List.cons_append, List.nil_append] at this ⊢
      have e : mnText mn ++ [' ', 'A'] = mnText mn ++ ' ' :: ['A'] := rfl
      rw [e, this, asm_core_gen h]
      rfl
    case imm =>
      simp only [disText, shapeOf, operandValue]
      exact reasm_imm h hg _ hM fU b1 hb1 pc
    case zpg =>
      have := reasm_addr h hg _ hM fU .dir rfl (W / 4) b1 hb1w pc
      simp only [leadOf, afterOf, List.nil_append, List.append_nil] at this
      exact this
    case zpx => exact reasm_addr h hg _ hM fU .dirX rfl _ b1 hb1w pc
    case zpy => exact reasm_addr h hg _ hM fU .dirY rfl _ b1 hb1w pc
    case abs =>
      simp only [disText, shapeOf, operandValue, hw]
      have := reasm_addr h hg _ hM fU .dir rfl (W / 2) _ hword pc
      simp only [leadOf, afterOf, List.nil_append, List.append_nil] at this
      exact this
    case abx =>
      simp only [disText, shapeOf, operandValue, hw]
      exact reasm_addr h hg _ hM fU .dirX rfl _ _ hword pc
    case aby =>
      simp only [disText, shapeOf, operandValue, hw]
      exact reasm_addr h hg _ hM fU .dirY rfl _ _ hword pc
    case ind =>
      simp only [disText, shapeOf, operandValue, hw]
      exact reasm_addr h hg _ hM fU .ind rfl _ _ hword pc
    case inx => exact reasm_addr h hg _ hM fU .indX rfl _ b1 hb1w pc
    case iny => exact reasm_addr h hg _ hM fU .indY rfl _ b1 hb1w pc
    case rel =>
      simp only [disText, shapeOf, operandValue, relTarget_eq h pc b1 hb1]
      have := reasm_addr h hg _ hM fU .dir rfl (W / 2) _ hrel pc
      simp only [leadOf, afterOf, List.nil_append, List.append_nil] at this
      exact this
    case zpi => exact reasm_addr h hg _ hM fU .ind rfl _ b1 hb1w pc
    case iax =>
      simp only [disText, shapeOf, operandValue, hw]
      exact reasm_addr h hg _ hM fU .indX rfl _ _ hword pc


theorem lookup_of_mem_nodup (L : Labels) (l : Str) (a : Int) (hmem : (l, a) ∈ L)
    (hnd : (L.map Prod.fst).Nodup) : lookup L l = some a := by
  induction L with
  | nil => cases hmem
  | cons kv L ih =>
    obtain ⟨k, x⟩ := kv
    simp only [List.map_cons, List.nodup_cons] at hnd
    simp only [List.mem_cons, Prod.mk.injEq] at hmem
    rcases hmem with ⟨rfl, rfl⟩ | hmem
    · simp [lookup]
    · have hne : k ≠ l := by
        intro e
        subst e
        exact hnd.1 (List.mem_map.mpr ⟨(k, a), hmem, rfl⟩)
      simp only [lookup, hne, if_false]
      exact ih hmem hnd.2

/-- `GoodLabels` from what the monitor guarantees (dictionary: unique names; values constrained)
and the claim's restriction to identifier-like names. -/
theorem goodLabels_of {P : Parser} {W : Nat} (hw : P.width = 2 * W) (hwf : P.WF)
    (hnd : (P.labels.map Prod.fst).Nodup)
    (hid : ∀ kv ∈ P.labels, AddrWord kv.1 ∧ NoPrefix kv.1) : GoodLabels P W := by
  refine ⟨hw, hwf, ?_⟩
  intro a l hl
  unfold labelFor at hl
  cases hf : P.labels.find? (fun kv => kv.2 == a) with
  | none => rw [hf] at hl; cases hl
  | some kv =>
    rw [hf] at hl
    cases hl
    have hmem := List.mem_of_find?_eq_some hf
    have hv : kv.2 = a := by
      have := List.find?_some hf
      simpa using this
    obtain ⟨k, x⟩ := kv
    simp only at hv
    subst hv
    exact ⟨(hid _ hmem).1, (hid _ hmem).2, lookup_of_mem_nodup _ _ _ hmem hnd⟩

/-! ### totality: never any exception but the three refusals -/

theorem toARes_ne_other (o : Outcome) (w : String) : toARes o ≠ .other w := by
  cases o with
  | ok bs => simp [toARes]
  | refuse r => cases r <;> simp [toARes]

/-- the back end never ends in any exception other than the three documented refusals -/
theorem backend_ne_other (h : DevOK d v W) (oc od : Str) (pc : Int) (w : String) :
    backend d oc od pc ≠ .other w := by
  intro hb
  obtain ⟨mode, items, gs, hmem, hm⟩ := tryModes_matched oc od pc compiled _ hb (by simp)
  rw [h.numchars] at hm
  obtain ⟨sh, x, hin, rfl⟩ := match_canonical h od mode items gs hmem hm
  rw [← assembleVal_canon h oc sh x pc hin, asm_core_gen h] at hb
  exact toARes_ne_other _ _ hb

theorem nrmAux_blank_is_space (p : Bool) (u : Str) : ∀ c ∈ nrmAux p u, isReSpace c = true → c = ' ' := by
  induction u generalizing p with
  | nil => intro c hc; simp [nrmAux_nil] at hc
  | cons x u ih =>
    intro c hc hs
    by_cases hx : isReSpace x = true
    · simp only [nrmAux, hx, if_true] at hc
      exact ih true c hc hs
    · have hx' : isReSpace x = false := by simpa using hx
      cases p
      · simp only [nrmAux, hx', Bool.false_eq_true, if_false, List.mem_cons] at hc
        rcases hc with rfl | hc
        · rw [hx'] at hs; cases hs
        · exact ih false c hc hs
      · simp only [nrmAux, hx', Bool.false_eq_true, if_false, if_true, List.mem_cons] at hc
        rcases hc with rfl | rfl | hc
        · rfl
        · rw [hx'] at hs; cases hs
        · exact ih false c hc hs

theorem splitSp1_some (b : Str) (h : ' ' ∈ b) : ∃ x y, splitSp1 b = (x, some y) := by
  induction b with
  | nil => cases h
  | cons c b ih =>
    by_cases hc : c = ' '
    · exact ⟨[], b, by simp [splitSp1, hc]⟩
    · have : ' ' ∈ b := by
        simp only [List.mem_cons] at h
        rcases h with e | e
        · exact absurd e.symm hc
        · exact e
      obtain ⟨x, y, hxy⟩ := ih this
      exact ⟨c :: x, y, by simp [splitSp1, hc, hxy]⟩

theorem tryTarget_before {b0 rest b t a : Str} (h : tryTarget b0 rest = some (b, t, a)) : b = b0 := by
  unfold tryTarget at h
  simp only at h
  split_ifs at h
  cases h
  rfl

/-- the part of the Statement scanner after the mnemonic `mnm` (3 or 4 characters), on `tl` -/
theorem matchTail_before (mnm tl b t a : Str)
    (h : (if tl.takeWhile isReSpace = [] then none
          else match tl.dropWhile isReSpace with
            | p :: r3 =>
              if p = '(' then
                match tryTarget (mnm ++ tl.takeWhile isReSpace ++ '(' :: r3.takeWhile isReSpace)
                    (r3.dropWhile isReSpace) with
                | some m => some m
                | none => tryTarget (mnm ++ tl.takeWhile isReSpace) (tl.dropWhile isReSpace)
              else tryTarget (mnm ++ tl.takeWhile isReSpace) (tl.dropWhile isReSpace)
            | [] => none) = some (b, t, a)) :
    ∃ c, c ∈ b ∧ isReSpace c = true ∧ c ∈ tl := by
  split_ifs at h with hws
  obtain ⟨c, ws', hcw⟩ := List.exists_cons_of_ne_nil hws
  have hcmem : c ∈ tl.takeWhile isReSpace := by rw [hcw]; simp
  have hcs : isReSpace c = true := mem_takeWhile_true hcmem
  have hcin : c ∈ tl := (List.takeWhile_sublist _).subset hcmem
  have hhead : ∀ b', (∃ tail, b' = mnm ++ tl.takeWhile isReSpace ++ tail) →
      ∃ c, c ∈ b' ∧ isReSpace c = true ∧ c ∈ tl := by
    rintro b' ⟨tail, rfl⟩
    exact ⟨c, by simp [hcmem], hcs, hcin⟩
  cases hr2 : tl.dropWhile isReSpace with
  | nil => rw [hr2] at h; simp at h
  | cons p r3 =>
    rw [hr2] at h
    simp only at h
    split_ifs at h with hp
    · cases ht : tryTarget (mnm ++ tl.takeWhile isReSpace ++ '(' :: r3.takeWhile isReSpace)
          (r3.dropWhile isReSpace) with
      | some m =>
        rw [ht] at h
        simp only at h
        injection h with h
        subst h
        exact hhead b ⟨_, tryTarget_before ht⟩
      | none =>
        rw [ht] at h
        simp only at h
        exact hhead b ⟨[], by simp [tryTarget_before h]⟩
    · exact hhead b ⟨[], by simp [tryTarget_before h]⟩

/-- group 1 of a match contains a white-space character of the matched text -/
theorem matchStatement_before (s b t a : Str) (h : matchStatement s = some (b, t, a)) :
    ∃ c, c ∈ b ∧ isReSpace c = true ∧ c ∈ s := by
  rcases s with _ | ⟨c1, _ | ⟨c2, _ | ⟨c3, r0⟩⟩⟩
  · simp [matchStatement] at h
  · simp [matchStatement] at h
  · simp [matchStatement] at h
  · rcases r0 with _ | ⟨c4, r⟩
    · simp [matchStatement] at h
    · by_cases ho : isOct c4 = true
      · simp only [matchStatement, ho, if_true] at h
        by_cases haz : (isAz c1 && isAz c2 && isAz c3) = true
        · rw [if_pos haz] at h
          have := matchTail_before [c1, c2, c3, c4] r b t a h
          obtain ⟨c, h1, h2, h3⟩ := this
          exact ⟨c, h1, h2, by simp [h3]⟩
        · rw [if_neg haz] at h; cases h
      · simp only [matchStatement, ho, Bool.false_eq_true, if_false] at h
        by_cases haz : (isAz c1 && isAz c2 && isAz c3) = true
        · rw [if_pos haz] at h
          have := matchTail_before [c1, c2, c3] (c4 :: r) b t a h
          obtain ⟨c, h1, h2, h3⟩ := this
          exact ⟨c, h1, h2, by simp at h3 ⊢; tauto⟩
        · rw [if_neg haz] at h; cases h

theorem immText_ne_other (h : DevOK d v W) (x : Int) (w : String) : immText d x ≠ .other w := by
  unfold immText
  split_ifs
  · simp
  · rw [h.bfmt]; simp

theorem addrText_ne_other (h : DevOK d v W) (x : Int) (hx : 0 ≤ x) (w : String) : addrText d x ≠ .other w := by
  unfold addrText
  rw [if_neg (by omega), h.afmt]
  simp

theorem retarget_ne_other (h : DevOK d v W) (P : Parser) (hwf : P.WF) (T : Str) (w : String) :
    retarget d P T ≠ .other w := by
  have key : ∀ (s : Str) (k : Int → TRes), (∀ x, 0 ≤ x → k x ≠ .other w) → TRes.ofRes (numberL P s) k ≠ .other w := by
    intro s k hk
    cases hn : numberL P s with
    | ok x => simp only [TRes.ofRes]; exact hk x (numberL_bounded hwf hn).1
    | key => simp [TRes.ofRes]
    | overflow => simp [TRes.ofRes]
    | other => exact absurd hn (numberL_ne_other P s)
  unfold retarget
  split
  · rename_i rest
    split
    · simp
    · rename_i q rest2
      split_ifs
      · split
        · simp
        · split_ifs
          · exact immText_ne_other h _ w
          · simp
      · exact key _ _ (fun x _ => immText_ne_other h x w)
  · split_ifs
    · simp
    · exact key _ _ (fun x hx => addrText_ne_other h x hx w)

/-- `asm_total`: for EVERY statement text, label table (in-range values) and address the model ends
in bytes or in one of the three documented refusals -- never in any other exception. -/
theorem assembleL_ne_other (h : DevOK d v W) (P : Parser) (hwf : P.WF) (s : Str) (pc : Int) (w : String) :
    assembleL d P s pc ≠ .other w := by
  unfold assembleL
  cases hn : normalizeAndSplit d P s with
  | ok oc od => exact backend_ne_other h oc od pc w
  | «syntax» => simp
  | overflow => simp
  | key => simp
  | other w' =>
    exfalso
    unfold normalizeAndSplit at hn
    simp only at hn
    cases hm : matchStatement (normWs s) with
    | none =>
      rw [hm] at hn
      simp only at hn
      rcases hsp : splitSp1 (normWs s) with ⟨a, _ | b⟩ <;> rw [hsp] at hn <;> simp at hn
    | some m =>
      obtain ⟨b, t, a⟩ := m
      rw [hm] at hn
      simp only at hn
      cases hr : retarget d P t with
      | ok t' =>
        rw [hr] at hn
        simp only at hn
        obtain ⟨c, hcb, hcs, hcin⟩ := matchStatement_before _ b t a hm
        rw [normWs_eq] at hcin
        have hc : c = ' ' := nrmAux_blank_is_space _ _ c hcin hcs
        subst hc
        obtain ⟨x, y, hxy⟩ := splitSp1_some b hcb
        rw [hxy] at hn
        simp at hn
      | «syntax» => rw [hr] at hn; simp at hn
      | overflow => rw [hr] at hn; simp at hn
      | key => rw [hr] at hn; simp at hn
      | other w'' => exact retarget_ne_other h P hwf t w'' hr


end round

end Py65.Proofs.Asm
