/-
Helper lemmas for C20 (`Py65/Props/C20.lean`) about the command-line model
`Py65/Model/MonCmd.lean`: `strip` / `lstrip` / `rstrip`, the comment scanner, the shortcut loop,
`parseline`, the register loop, and "a refusing path returns the state it was given" for each
command model.
-/
import Py65.Model.MonCmd
import Py65.Proofs.NumLemmas
import Py65.Proofs.PyIntLemmas
import Mathlib.Tactic.SplitIfs
import Mathlib.Data.List.Induction
import Mathlib.Tactic.Positivity

namespace Py65.Proofs.MonCmd
open Py65 Py65.Model.PyStr Py65.Model.AddrParser Py65.Model.MonCmd

/-! ### `rstrip` / `lstrip` -/

theorem rstripP_snoc (p : Char → Bool) (l : Str) (c : Char) :
    rstripP p (l ++ [c]) = if p c then rstripP p l else l ++ [c] := by
  unfold rstripP
  rw [List.reverse_append, List.reverse_singleton, List.singleton_append, List.dropWhile_cons]
  split_ifs <;> simp

theorem rstripP_nil (p : Char → Bool) : rstripP p [] = [] := rfl

/-- `rstrip` leaves everything up to a character it does not strip. -/
theorem rstripP_append_keep (p : Char → Bool) (xs : Str) (c : Char) (ys : Str) (hc : p c = false) :
    rstripP p (xs ++ c :: ys) = xs ++ c :: rstripP p ys := by
  induction ys using List.reverseRecOn with
  | nil =>
    rw [rstripP_nil, show xs ++ [c] = xs ++ [c] from rfl, rstripP_snoc, hc]
    simp
  | append_singleton ys d ih =>
    rw [show xs ++ c :: (ys ++ [d]) = (xs ++ c :: ys) ++ [d] by simp, rstripP_snoc, rstripP_snoc, ih]
    split_ifs <;> simp

theorem rstripP_all (p : Char → Bool) (l : Str) (h : ∀ c ∈ l, p c = true) : rstripP p l = [] := by
  induction l using List.reverseRecOn with
  | nil => rfl
  | append_singleton l d ih =>
    rw [rstripP_snoc, h d (by simp), if_pos rfl]
    exact ih (fun c hc => h c (by simp [hc]))

/-- What `rstrip` removes is a run of strippable characters. -/
theorem rstripP_split (p : Char → Bool) (l : Str) : ∃ t, l = rstripP p l ++ t ∧ ∀ c ∈ t, p c = true := by
  induction l using List.reverseRecOn with
  | nil => exact ⟨[], rfl, by simp⟩
  | append_singleton l d ih =>
    obtain ⟨t, ht, hp⟩ := ih
    rw [rstripP_snoc]
    by_cases hd : p d = true
    · rw [if_pos hd]
      refine ⟨t ++ [d], ?_, ?_⟩
      · rw [← List.append_assoc, ← ht]
      · intro c hc
        rcases List.mem_append.mp hc with h | h
        · exact hp c h
        · simp at h; rw [h]; exact hd
    · rw [if_neg hd]
      exact ⟨[], by simp, by simp⟩

theorem lstripP_cons_keep (p : Char → Bool) (c : Char) (l : Str) (hc : p c = false) :
    lstripP p (c :: l) = c :: l := by
  simp [lstripP, List.dropWhile_cons, hc]

theorem lstripP_append_all (p : Char → Bool) (xs ys : Str) (h : ∀ c ∈ xs, p c = true) :
    lstripP p (xs ++ ys) = lstripP p ys := by
  induction xs with
  | nil => rfl
  | cons c cs ih =>
    have hc : p c = true := h c (by simp)
    simp only [lstripP, List.cons_append, List.dropWhile_cons, hc, if_true]
    exact ih (fun c hc => h c (by simp [hc]))

/-- `strip` of blanks + a core that starts and ends with unstrippable characters + blanks. -/
theorem strip_core (p : Char → Bool) (ws1 ws2 : Str) (a : Char) (mid : Str) (z : Char)
    (h1 : ∀ c ∈ ws1, p c = true) (h2 : ∀ c ∈ ws2, p c = true) (ha : p a = false) (hz : p z = false) :
    rstripP p (lstripP p (ws1 ++ (a :: mid ++ [z]) ++ ws2)) = a :: mid ++ [z] := by
  rw [List.append_assoc, lstripP_append_all p ws1 _ h1]
  rw [show (a :: mid ++ [z]) ++ ws2 = a :: (mid ++ [z] ++ ws2) by simp, lstripP_cons_keep p a _ ha]
  rw [show a :: (mid ++ [z] ++ ws2) = (a :: mid) ++ z :: ws2 by simp, rstripP_append_keep p _ z ws2 hz,
    rstripP_all p ws2 h2]

/-- … and a one-character core. -/
theorem strip_core1 (p : Char → Bool) (ws1 ws2 : Str) (a : Char)
    (h1 : ∀ c ∈ ws1, p c = true) (h2 : ∀ c ∈ ws2, p c = true) (ha : p a = false) :
    rstripP p (lstripP p (ws1 ++ [a] ++ ws2)) = [a] := by
  rw [List.append_assoc, lstripP_append_all p ws1 _ h1]
  rw [show [a] ++ ws2 = a :: ws2 from rfl, lstripP_cons_keep p a _ ha]
  rw [show a :: ws2 = [] ++ a :: ws2 from rfl, rstripP_append_keep p _ a ws2 ha, rstripP_all p ws2 h2]
  rfl

/-! ### the comment scanner -/

/-- The quote flag after scanning `xs`. -/
def quoteState : Bool → Str → Bool
  | q, [] => q
  | q, c :: cs => quoteState (if isQuote c then !q else q) cs

/-- No `;` is met with the quote flag off while scanning `xs` (starting with flag `q`). -/
def semiFree : Bool → Str → Bool
  | _, [] => true
  | q, c :: cs =>
    let q' := if isQuote c then !q else q
    !(!q' && c = ';') && semiFree q' cs

theorem stripComment_append (q : Bool) (xs ys : Str) (h : semiFree q xs = true) :
    stripComment q (xs ++ ys) = xs ++ stripComment (quoteState q xs) ys := by
  induction xs generalizing q with
  | nil => rfl
  | cons c cs ih =>
    simp only [semiFree, Bool.and_eq_true, Bool.not_eq_true'] at h
    obtain ⟨h1, h2⟩ := h
    simp only [List.cons_append, stripComment, quoteState]
    rw [if_neg (by simpa using h1)]
    rw [ih _ h2]

theorem stripComment_semicolon (rest : Str) : stripComment false (';' :: rest) = [] := by
  simp [stripComment, isQuote]

theorem stripComment_nil (q : Bool) : stripComment q [] = [] := rfl

/-- Neither a quote nor a semicolon. -/
def isPlain (c : Char) : Bool := !isQuote c && !(c = ';')

theorem semiFree_plain (q : Bool) (xs : Str) (h : ∀ c ∈ xs, isPlain c = true) :
    semiFree q xs = true ∧ quoteState q xs = q := by
  induction xs generalizing q with
  | nil => exact ⟨rfl, rfl⟩
  | cons c cs ih =>
    have hc := h c (by simp)
    simp only [isPlain, Bool.and_eq_true, Bool.not_eq_true', decide_eq_false_iff_not] at hc
    obtain ⟨i1, i2⟩ := ih q (fun c hc => h c (by simp [hc]))
    simp only [semiFree, quoteState, hc.1, Bool.false_eq_true, if_false]
    exact ⟨by simp [hc.2, i1], i2⟩

theorem semiFree_append (q : Bool) (xs ys : Str) :
    semiFree q (xs ++ ys) = (semiFree q xs && semiFree (quoteState q xs) ys) := by
  induction xs generalizing q with
  | nil => simp [semiFree, quoteState]
  | cons c cs ih => simp [semiFree, quoteState, ih, Bool.and_assoc]

theorem quoteState_append (q : Bool) (xs ys : Str) :
    quoteState q (xs ++ ys) = quoteState (quoteState q xs) ys := by
  induction xs generalizing q with
  | nil => rfl
  | cons c cs ih => simp [quoteState, ih]

theorem isPlain_of_isReSpace {c : Char} (h : isReSpace c = true) : isPlain c = true := by
  have : ∀ n : Nat, n < 128 → (n = 32 ∨ (9 ≤ n ∧ n ≤ 13) ∨ (28 ≤ n ∧ n ≤ 31)) → n ≠ 34 ∧ n ≠ 39 ∧ n ≠ 59 := by decide
  simp only [isReSpace, isCSpace, Bool.or_eq_true, decide_eq_true_eq, Bool.and_eq_true] at h
  have hn : c.toNat = 32 ∨ (9 ≤ c.toNat ∧ c.toNat ≤ 13) ∨ (28 ≤ c.toNat ∧ c.toNat ≤ 31) := by
    rcases h with (h | h) | h
    · exact Or.inl h
    · exact Or.inr (Or.inl h)
    · exact Or.inr (Or.inr h)
  have hlt : c.toNat < 128 := by omega
  obtain ⟨a, b, d⟩ := this c.toNat hlt hn
  simp only [isPlain, isQuote, Bool.and_eq_true, Bool.not_eq_true', Bool.or_eq_false_iff, decide_eq_false_iff_not]
  refine ⟨⟨?_, ?_⟩, ?_⟩
  · exact fun e => a (by rw [e]; rfl)
  · exact fun e => b (by rw [e]; rfl)
  · exact fun e => d (by rw [e]; rfl)

theorem isReSpace_of_isBlank {c : Char} (h : isBlank c = true) : isReSpace c = true := by
  simp only [isBlank, Bool.or_eq_true, decide_eq_true_eq] at h
  rcases h with rfl | rfl <;> decide

/-! ### the shortcut loop -/

/-- A non-empty string without blanks of any kind (every shortcut and every command name is one). -/
def IsWord (w : Str) : Prop := w ≠ [] ∧ ∀ c ∈ w, isReSpace c = false

/-- Nothing, or something that starts with a blank: what may follow a word. -/
def IsTail (t : Str) : Prop := t = [] ∨ ∃ b r, t = b :: r ∧ isReSpace b = true

theorem dropPrefix?_eq_some {s p r : Str} : dropPrefix? s p = some r ↔ s = p ++ r := by
  induction p generalizing s with
  | nil => cases s <;> simp [dropPrefix?, eq_comm]
  | cons d p ih =>
    cases s with
    | nil => simp [dropPrefix?]
    | cons c s =>
      simp only [dropPrefix?, List.cons_append, List.cons.injEq]
      by_cases h : c = d
      · simp [h, ih]
      · simp [h]

theorem dropWhile_head_false (p : Char → Bool) (l : Str) (c : Char) (r : Str) (h : l.dropWhile p = c :: r) :
    p c = false := by
  induction l with
  | nil => simp at h
  | cons d l ih =>
    rw [List.dropWhile_cons] at h
    split_ifs at h with hd
    · exact ih h
    · simp only [List.cons.injEq] at h
      rw [← h.1]; simpa using hd

/-- What a successful round of the loop looks like. -/
theorem applyShortcut_some {sc cmd line res : Str} (h : applyShortcut sc cmd line = some res) :
    (line = sc ∧ res = cmd) ∨
    ∃ rest, line = sc ++ rest ∧ rest.takeWhile isReSpace ≠ [] ∧ res = cmd ++ ' ' :: rest.dropWhile isReSpace := by
  unfold applyShortcut at h
  split_ifs at h with h1
  · left; exact ⟨h1, by simpa using h.symm⟩
  · cases hd : dropPrefix? line sc with
    | none => simp [hd] at h
    | some rest =>
      simp only [hd] at h
      split_ifs at h with h2
      right
      exact ⟨rest, dropPrefix?_eq_some.mp hd, h2, by simpa using h.symm⟩

theorem shortcutLoop_cases (tbl : List (Str × Str)) (line : Str) :
    shortcutLoop tbl line = line ∨ ∃ p ∈ tbl, applyShortcut p.1 p.2 line = some (shortcutLoop tbl line) := by
  induction tbl with
  | nil => left; rfl
  | cons p tbl ih =>
    obtain ⟨sc, cmd⟩ := p
    simp only [shortcutLoop]
    cases ha : applyShortcut sc cmd line with
    | some l => right; exact ⟨(sc, cmd), by simp, ha⟩
    | none =>
      rcases ih with h | ⟨q, hq, hq2⟩
      · left; exact h
      · right; exact ⟨q, by simp [hq], hq2⟩

/-- One round on a line that is a word followed by nothing or by a blank. -/
theorem applyShortcut_word (sc cmd w tail : Str) (hsc : IsWord sc) (hw : IsWord w) (ht : IsTail tail) :
    applyShortcut sc cmd (w ++ tail) =
      if sc = w then some (match tail with | [] => cmd | _ :: _ => cmd ++ ' ' :: tail.dropWhile isReSpace) else none := by
  have key : w ++ tail = sc → sc = w ∧ tail = [] := by
    intro e
    rcases ht with rfl | ⟨b, r, rfl, hb⟩
    · simp at e; exact ⟨e.symm, rfl⟩
    · have : b ∈ sc := by rw [← e]; simp
      have := hsc.2 b this
      rw [hb] at this; cases this
  unfold applyShortcut
  by_cases h1 : w ++ tail = sc
  · obtain ⟨e1, e2⟩ := key h1
    subst e1; subst e2
    simp
  · rw [if_neg h1]
    by_cases h2 : sc = w
    · subst h2
      rw [if_pos rfl]
      rcases ht with rfl | ⟨b, r, rfl, hb⟩
      · exact absurd (by simp) h1
      · have : dropPrefix? (sc ++ b :: r) sc = some (b :: r) := dropPrefix?_eq_some.mpr rfl
        simp [this, List.takeWhile_cons, hb]
    · rw [if_neg h2]
      cases hd : dropPrefix? (w ++ tail) sc with
      | none => rfl
      | some rest =>
        have e := dropPrefix?_eq_some.mp hd
        simp only
        rw [List.append_eq_append_iff] at e
        rcases e with ⟨a', e1, e2⟩ | ⟨c', e1, e2⟩
        · -- sc = w ++ a'
          have ha' : a' ≠ [] := by
            intro h; subst h; simp at e1; exact h2 e1
          rcases ht with rfl | ⟨b, r, rfl, hb⟩
          · simp at e2; exact absurd e2.1 ha'
          · obtain ⟨x, xs, rfl⟩ := List.exists_cons_of_ne_nil ha'
            simp only [List.cons_append, List.cons.injEq] at e2
            have : b ∈ sc := by rw [e1, e2.1]; simp
            have := hsc.2 b this
            rw [hb] at this; cases this
        · -- w = sc ++ c'
          have hc' : c' ≠ [] := by
            intro h; subst h; simp at e1; exact h2 e1.symm
          obtain ⟨x, xs, rfl⟩ := List.exists_cons_of_ne_nil hc'
          have hx : isReSpace x = false := hw.2 x (by rw [e1]; simp)
          rw [e2]
          simp [List.takeWhile_cons, hx]

/-- The whole loop on such a line: the first table entry whose key is the word decides. -/
theorem shortcutLoop_word (tbl : List (Str × Str)) (w tail : Str) (htbl : ∀ p ∈ tbl, IsWord p.1)
    (hw : IsWord w) (ht : IsTail tail) :
    shortcutLoop tbl (w ++ tail) =
      match tbl.find? (fun p => p.1 = w) with
      | some p => (match tail with | [] => p.2 | _ :: _ => p.2 ++ ' ' :: tail.dropWhile isReSpace)
      | none => w ++ tail := by
  induction tbl with
  | nil => rfl
  | cons p tbl ih =>
    obtain ⟨sc, cmd⟩ := p
    have hsc : IsWord sc := htbl (sc, cmd) (by simp)
    simp only [shortcutLoop, applyShortcut_word sc cmd w tail hsc hw ht, List.find?_cons]
    by_cases h : sc = w
    · simp [h]
    · simp only [h, if_false, decide_false]
      exact ih (fun p hp => htbl p (by simp [hp]))

theorem shortcuts_words : ∀ p ∈ shortcuts, IsWord p.1 := by
  intro p hp
  simp only [shortcuts, List.mem_cons, List.mem_nil_iff, or_false] at hp
  rcases hp with rfl | rfl | rfl | rfl | rfl | rfl | rfl | rfl | rfl | rfl | rfl | rfl | rfl | rfl | rfl | rfl | rfl
    | rfl | rfl | rfl | rfl | rfl | rfl | rfl | rfl <;> exact ⟨by decide, by decide⟩

/-! ### noise: blanks, dots, comments -/

theorem strip_core' (p : Char → Bool) (ws1 core ws2 : Str) (h1 : ∀ c ∈ ws1, p c = true) (h2 : ∀ c ∈ ws2, p c = true)
    (hne : core ≠ []) (hh : ∀ c, core.head? = some c → p c = false) (hl : ∀ c, core.getLast? = some c → p c = false) :
    rstripP p (lstripP p (ws1 ++ core ++ ws2)) = core := by
  obtain ⟨a, t, rfl⟩ := List.exists_cons_of_ne_nil hne
  have ha : p a = false := hh a rfl
  rcases List.eq_nil_or_concat t with rfl | ⟨mid, z, rfl⟩
  · exact strip_core1 p ws1 ws2 a h1 h2 ha
  · have hz : p z = false := hl z (by
      rw [List.concat_eq_append, show a :: (mid ++ [z]) = (a :: mid) ++ [z] from rfl, List.getLast?_append]; simp)
    have := strip_core p ws1 ws2 a mid z h1 h2 ha hz
    simpa using this

theorem isPlain_of_isBlank {c : Char} (h : isBlank c = true) : isPlain c = true :=
  isPlain_of_isReSpace (isReSpace_of_isBlank h)

/-- Leading blanks, leading dots, trailing blanks and a trailing `;` comment outside quotes are
removed, and nothing else, when the core starts with neither a blank nor a dot, does not end with a
blank, contains no `;` outside quotes and leaves the quote flag off. -/
theorem cleaned_noise (ws1 dots core ws2 comment : Str)
    (h1 : ∀ c ∈ ws1, isBlank c = true) (hd : ∀ c ∈ dots, c = '.') (h2 : ∀ c ∈ ws2, isBlank c = true)
    (hne : core ≠ []) (hh : ∀ c, core.head? = some c → isBlank c = false ∧ c ≠ '.')
    (hl : ∀ c, core.getLast? = some c → isBlank c = false)
    (hsf : semiFree false core = true) (hqs : quoteState false core = false)
    (hcom : comment = [] ∨ ∃ r, comment = ';' :: r) :
    cleaned (ws1 ++ dots ++ core ++ ws2 ++ comment) = core := by
  have pd : ∀ c ∈ dots, isPlain c = true := fun c hc => by rw [hd c hc]; decide
  have p1 : ∀ c ∈ ws1, isPlain c = true := fun c hc => isPlain_of_isBlank (h1 c hc)
  have p2 : ∀ c ∈ ws2, isPlain c = true := fun c hc => isPlain_of_isBlank (h2 c hc)
  obtain ⟨a1, b1⟩ := semiFree_plain false ws1 p1
  obtain ⟨a2, b2⟩ := semiFree_plain false dots pd
  obtain ⟨a3, b3⟩ := semiFree_plain false ws2 p2
  have sfree : semiFree false (ws1 ++ dots ++ core ++ ws2) = true := by
    simp [semiFree_append, quoteState_append, a1, b1, a2, b2, a3, hsf, hqs]
  have qst : quoteState false (ws1 ++ dots ++ core ++ ws2) = false := by
    simp [quoteState_append, b1, b2, b3, hqs]
  have sc : stripComment false (ws1 ++ dots ++ core ++ ws2 ++ comment) = ws1 ++ dots ++ core ++ ws2 := by
    rw [stripComment_append false _ comment sfree, qst]
    rcases hcom with rfl | ⟨r, rfl⟩
    · simp [stripComment_nil]
    · simp [stripComment_semicolon]
  unfold cleaned
  rw [sc]
  have hcore2 : dots ++ core ≠ [] := by simp [hne]
  have hh2 : ∀ c, (dots ++ core).head? = some c → isBlank c = false := by
    intro c hc
    cases dots with
    | nil => exact (hh c (by simpa using hc)).1
    | cons d ds =>
      simp at hc
      rw [← hc, hd d (by simp)]; decide
  have hl2 : ∀ c, (dots ++ core).getLast? = some c → isBlank c = false := by
    intro c hc
    rw [List.getLast?_append] at hc
    cases hy : core.getLast? with
    | none => simp [List.getLast?_eq_none_iff] at hy; exact absurd hy hne
    | some v => rw [hy] at hc; simp at hc; rw [← hc]; exact hl v hy
  have sb : stripBlank (ws1 ++ dots ++ core ++ ws2) = dots ++ core := by
    unfold stripBlank
    have := strip_core' isBlank ws1 (dots ++ core) ws2 h1 h2 hcore2 hh2 hl2
    simpa [List.append_assoc] using this
  rw [sb]
  have : lstripP (fun c => decide (c = '.')) (dots ++ core) = lstripP (fun c => decide (c = '.')) core :=
    lstripP_append_all _ dots core (fun c hc => by simp [hd c hc])
  rw [this]
  obtain ⟨a, t, rfl⟩ := List.exists_cons_of_ne_nil hne
  exact lstripP_cons_keep _ a t (by simpa using (hh a rfl).2)

theorem dropWhile_append_all (p : Char → Bool) (xs ys : Str) (h : ∀ c ∈ xs, p c = true) :
    (xs ++ ys).dropWhile p = ys.dropWhile p := lstripP_append_all p xs ys h

/-- Facts about every entry of the shortcut table, by evaluation. -/
theorem shortcuts_facts : ∀ p ∈ shortcuts,
    (∀ c ∈ p.1, isPlain c = true) ∧ (∀ c, p.1.head? = some c → isBlank c = false ∧ c ≠ '.') ∧
    (p.1 ≠ ['~'] → p.1.head? ≠ some '~') ∧ shortcuts.find? (fun q => q.1 = p.1) = some p ∧
    (∀ c, p.1.getLast? = some c → isBlank c = false) := by
  intro p hp
  simp only [shortcuts, List.mem_cons, List.mem_nil_iff, or_false] at hp
  rcases hp with rfl | rfl | rfl | rfl | rfl | rfl | rfl | rfl | rfl | rfl | rfl | rfl | rfl | rfl | rfl | rfl | rfl
    | rfl | rfl | rfl | rfl | rfl | rfl | rfl | rfl <;>
    exact ⟨by decide, by decide, by decide, by decide, by decide⟩

theorem tildeCase_id (line : Str) (h : line.head? ≠ some '~') : tildeCase line = line := by
  cases line with
  | nil => rfl
  | cons c r =>
    have : c ≠ '~' := fun e => h (by simp [e])
    simp [tildeCase, this]

/-- The shortcut loop on `sc`, blanks, arguments. -/
theorem preprocess_core_args (sc cmd : Str) (hmem : (sc, cmd) ∈ shortcuts) (hnt : sc ≠ ['~'])
    (bl args : Str) (hbl : bl ≠ []) (hblw : ∀ c ∈ bl, isReSpace c = true)
    (hargs : ∀ c, args.head? = some c → isReSpace c = false) :
    shortcutLoop shortcuts (tildeCase (sc ++ bl ++ args)) = cmd ++ ' ' :: args := by
  obtain ⟨-, -, f3, f4, -⟩ := shortcuts_facts (sc, cmd) hmem
  have hw : IsWord sc := shortcuts_words (sc, cmd) hmem
  obtain ⟨a, t, hsc⟩ := List.exists_cons_of_ne_nil hw.1
  rw [tildeCase_id _ (by
    have := f3 hnt
    simpa [hsc] using this)]
  obtain ⟨b, r, rfl⟩ := List.exists_cons_of_ne_nil hbl
  have hb : isReSpace b = true := hblw b (by simp)
  rw [List.append_assoc, shortcutLoop_word shortcuts sc (b :: r ++ args) shortcuts_words hw
    (Or.inr ⟨b, r ++ args, rfl, hb⟩)]
  rw [f4]
  simp only [List.cons_append]
  rw [show b :: (r ++ args) = (b :: r) ++ args from rfl, dropWhile_append_all isReSpace (b :: r) args hblw]
  congr 2
  cases args with
  | nil => rfl
  | cons c cs =>
    have := hargs c rfl
    simp [List.dropWhile_cons, this]

/-- The shortcut loop on `sc` alone. -/
theorem preprocess_core_alone (sc cmd : Str) (hmem : (sc, cmd) ∈ shortcuts) (hnt : sc ≠ ['~']) :
    shortcutLoop shortcuts (tildeCase sc) = cmd := by
  obtain ⟨-, -, f3, f4, -⟩ := shortcuts_facts (sc, cmd) hmem
  have hw : IsWord sc := shortcuts_words (sc, cmd) hmem
  rw [tildeCase_id _ (f3 hnt)]
  have := shortcutLoop_word shortcuts sc [] shortcuts_words hw (Or.inl rfl)
  rw [List.append_nil] at this
  rw [this, f4]

theorem tilde_not_shortcut : shortcuts.find? (fun q => q.1 = tilde) = none := by decide

theorem tilde_word : IsWord tilde := ⟨by decide, by decide⟩

/-- The `~` special case: the text after `~` is kept as it is (blanks included). -/
theorem preprocess_core_tilde (rest : Str) :
    shortcutLoop shortcuts (tildeCase ('~' :: rest)) = tilde ++ ' ' :: rest := by
  have : tildeCase ('~' :: rest) = tilde ++ ' ' :: rest := by simp [tildeCase]
  rw [this, shortcutLoop_word shortcuts tilde (' ' :: rest) shortcuts_words tilde_word
    (Or.inr ⟨' ', rest, rfl, by decide⟩), tilde_not_shortcut]

/-! ### `parseline` and the quit forms -/

theorem isIdent_not_space {c : Char} (h : isReSpace c = true) : isIdentChar c = false := by
  have : ∀ n : Nat, n < 128 → (n = 32 ∨ (9 ≤ n ∧ n ≤ 13) ∨ (28 ≤ n ∧ n ≤ 31)) →
      ¬ ((97 ≤ n ∧ n ≤ 122) ∨ (65 ≤ n ∧ n ≤ 90) ∨ (48 ≤ n ∧ n ≤ 57) ∨ n = 95) := by decide
  simp only [isReSpace, isCSpace, Bool.or_eq_true, decide_eq_true_eq, Bool.and_eq_true] at h
  have hn : c.toNat = 32 ∨ (9 ≤ c.toNat ∧ c.toNat ≤ 13) ∨ (28 ≤ c.toNat ∧ c.toNat ≤ 31) := by
    rcases h with (h | h) | h
    · exact Or.inl h
    · exact Or.inr (Or.inl h)
    · exact Or.inr (Or.inr h)
  have hlt : c.toNat < 128 := by omega
  have hno := this c.toNat hlt hn
  simp only [isIdentChar, Bool.or_eq_false_iff, Bool.and_eq_false_iff, decide_eq_false_iff_not]
  have hu : c ≠ '_' := fun e => hno (Or.inr (Or.inr (Or.inr (by rw [e]; rfl))))
  refine ⟨⟨⟨?_, ?_⟩, ?_⟩, hu⟩ <;> omega

/-- The five spellings that request exit. -/
def quitForms : List Str := [quit, "q".toList, "x".toList, "exit".toList, "EOF".toList]

/-- `t` is `f`, or `f` followed by a character that cannot continue a command word. -/
def StartsWithWord (f t : Str) : Prop :=
  ∃ rest, t = f ++ rest ∧ (rest = [] ∨ ∃ ch r, rest = ch :: r ∧ isIdentChar ch = false)

/-- A line that `parseline` dispatches on the word `quit` starts (after blanks) with `quit`. -/
theorem parseline_quit {l a l' : Str} (h : parseline l = .cmd quit a l') :
    StartsWithWord quit (lstripP isReSpace l) := by
  unfold parseline at h
  obtain ⟨t, ht, htw⟩ := rstripP_split isReSpace (lstripP isReSpace l)
  have hs : pyStrip l = rstripP isReSpace (lstripP isReSpace l) := rfl
  rw [hs] at h
  cases hps : rstripP isReSpace (lstripP isReSpace l) with
  | nil => rw [hps] at h; simp at h
  | cons c rest =>
    rw [hps] at h
    simp only at h
    split_ifs at h with h1 h2
    · -- `?…` is `help …`
      simp only [Parsed.cmd.injEq] at h
      have : (help ++ ' ' :: rest).takeWhile isIdentChar = help := by
        simp [help, List.takeWhile_cons, isIdentChar]
      rw [this] at h
      exact absurd h.1 (by decide)
    · simp only [Parsed.cmd.injEq] at h
      have hw := h.1
      have hsplit := List.takeWhile_append_dropWhile (p := isIdentChar) (l := c :: rest)
      rw [hw] at hsplit
      refine ⟨(c :: rest).dropWhile isIdentChar ++ t, ?_, ?_⟩
      · rw [ht, hps, ← List.append_assoc, hsplit]
      · cases hd : (c :: rest).dropWhile isIdentChar with
        | nil =>
          cases t with
          | nil => left; rfl
          | cons b r => right; exact ⟨b, r, rfl, isIdent_not_space (htw b (by simp))⟩
        | cons x xs =>
          right
          exact ⟨x, xs ++ t, rfl, dropWhile_head_false isIdentChar _ x xs hd⟩

theorem cmdwords_facts : ∀ p ∈ shortcuts,
    (∀ c ∈ p.2, isIdentChar c = true) ∧ (∀ c, p.2.head? = some c → isReSpace c = false) ∧ p.2 ≠ [] ∧
    (p.2 = quit → p.1 ∈ quitForms) := by
  intro p hp
  simp only [shortcuts, List.mem_cons, List.mem_nil_iff, or_false] at hp
  rcases hp with rfl | rfl | rfl | rfl | rfl | rfl | rfl | rfl | rfl | rfl | rfl | rfl | rfl | rfl | rfl | rfl | rfl
    | rfl | rfl | rfl | rfl | rfl | rfl | rfl | rfl <;> exact ⟨by decide, by decide, by decide, by decide⟩

theorem takeWhile_word (p : Char → Bool) (w rest : Str) (hw : ∀ c ∈ w, p c = true)
    (hr : rest = [] ∨ ∃ ch r, rest = ch :: r ∧ p ch = false) : (w ++ rest).takeWhile p = w := by
  induction w with
  | nil =>
    rcases hr with rfl | ⟨ch, r, rfl, hch⟩
    · rfl
    · simp [List.takeWhile_cons, hch]
  | cons c cs ih =>
    have hc := hw c (by simp)
    simp only [List.cons_append, List.takeWhile_cons, hc, if_true]
    rw [ih (fun c hc => hw c (by simp [hc]))]

/-- Only the quit forms reach `do_quit`: if the preprocessed line is dispatched on the word `quit`,
the cleaned line (comment, surrounding blanks and leading dots removed) starts — after blanks of any
kind — with `quit`, `q`, `x`, `exit` or `EOF` as a whole word. -/
theorem preprocess_quit_only {line a l' : Str} (h : parseline (preprocessL line) = .cmd quit a l') :
    ∃ f ∈ quitForms, StartsWithWord f (lstripP isReSpace (cleaned line)) := by
  have hq := parseline_quit h
  unfold preprocessL at hq
  rcases shortcutLoop_cases shortcuts (tildeCase (cleaned line)) with hno | ⟨p, hp, hap⟩
  · -- no shortcut applied
    rw [hno] at hq
    cases hc : cleaned line with
    | nil => rw [hc] at hq; exact ⟨quit, by simp [quitForms], hq⟩
    | cons c r =>
      rw [hc] at hq
      by_cases ht : c = '~'
      · subst ht
        obtain ⟨rest, e, -⟩ := hq
        simp [tildeCase, tilde, quit, lstripP, List.dropWhile_cons, isReSpace, isCSpace] at e
      · have : tildeCase (c :: r) = c :: r := by simp [tildeCase, ht]
        rw [this] at hq
        exact ⟨quit, by simp [quitForms], hq⟩
  · -- the shortcut `p` applied
    obtain ⟨sc, cmd⟩ := p
    obtain ⟨f1, f2, f3, f4⟩ := cmdwords_facts (sc, cmd) hp
    obtain ⟨hsplain, hshead, -, -, -⟩ := shortcuts_facts (sc, cmd) hp
    have hw : IsWord sc := shortcuts_words (sc, cmd) hp
    simp only at hap f1 f2 f3 f4
    -- the result starts with `cmd` as a whole word, and with `quit` as a whole word: `cmd = quit`
    have hres : ∃ tail, shortcutLoop shortcuts (tildeCase (cleaned line)) = cmd ++ tail ∧
        (tail = [] ∨ ∃ ch r, tail = ch :: r ∧ isIdentChar ch = false) ∧
        ((tildeCase (cleaned line) = sc) ∨ ∃ rest, tildeCase (cleaned line) = sc ++ rest ∧
          ∃ b r, rest = b :: r ∧ isReSpace b = true) := by
      rcases applyShortcut_some hap with ⟨e1, e2⟩ | ⟨rest, e1, e2, e3⟩
      · exact ⟨[], by simp [e2], Or.inl rfl, Or.inl e1⟩
      · refine ⟨' ' :: rest.dropWhile isReSpace, e3, Or.inr ⟨' ', _, rfl, by decide⟩, Or.inr ⟨rest, e1, ?_⟩⟩
        cases rest with
        | nil => simp at e2
        | cons b r =>
          refine ⟨b, r, rfl, ?_⟩
          by_contra hb
          simp [List.takeWhile_cons, hb] at e2
    obtain ⟨tail, eres, htail, hline⟩ := hres
    rw [eres] at hq
    obtain ⟨c0, t0, hcmd⟩ := List.exists_cons_of_ne_nil f3
    have hc0 : isReSpace c0 = false := f2 c0 (by simp [hcmd])
    have hl : lstripP isReSpace (cmd ++ tail) = cmd ++ tail := by
      rw [hcmd]; exact lstripP_cons_keep _ c0 _ hc0
    rw [hl] at hq
    obtain ⟨rest, e, hr⟩ := hq
    have t1 := takeWhile_word isIdentChar cmd tail f1 htail
    have t2 := takeWhile_word isIdentChar quit rest (by decide) hr
    rw [e, t2] at t1
    have hcq : cmd = quit := t1.symm
    have hform := f4 hcq
    -- the cleaned line itself starts with the shortcut
    have htl : tildeCase (cleaned line) = cleaned line := by
      apply tildeCase_id
      intro hh
      cases hcl : cleaned line with
      | nil => rw [hcl] at hh; simp at hh
      | cons c r =>
        rw [hcl] at hh
        simp at hh
        subst hh
        have e2 : tildeCase (cleaned line) = tilde ++ ' ' :: r := by rw [hcl]; simp [tildeCase]
        simp only [quitForms, List.mem_cons, List.mem_nil_iff, or_false] at hform
        rcases hline with e3 | ⟨rest', e3, -⟩ <;> rw [e2] at e3 <;>
          rcases hform with rfl | rfl | rfl | rfl | rfl <;> simp [tilde, quit] at e3
    rw [htl] at hline
    obtain ⟨s0, st, hs0⟩ := List.exists_cons_of_ne_nil hw.1
    have hs0w : isReSpace s0 = false := hw.2 s0 (by simp [hs0])
    refine ⟨sc, hform, ?_⟩
    rcases hline with e3 | ⟨rest', e3, b, r, hb, hbw⟩
    · rw [e3, hs0, lstripP_cons_keep _ s0 _ hs0w]
      exact ⟨[], by simp, Or.inl rfl⟩
    · rw [e3, hs0, List.cons_append, lstripP_cons_keep _ s0 _ hs0w]
      exact ⟨rest', by simp, Or.inr ⟨b, r, hb, isIdent_not_space hbw⟩⟩

/-! ### dispatch: only `do_quit` yields a true exit value -/

theorem commandOf_quit {w : Str} : commandOf w = some .quit ↔ w = quit := by
  constructor
  · intro h
    unfold commandOf at h
    cases hf : commandTable.find? (fun kv => kv.1 = w) with
    | none => simp [hf] at h
    | some kv =>
      simp only [hf, Option.some.injEq] at h
      have hm := List.mem_of_find?_eq_some hf
      have hk := List.find?_some hf
      simp only [decide_eq_true_eq] at hk
      obtain ⟨k, c⟩ := kv
      simp only at h hk
      subst h; subst hk
      simp only [commandTable, List.mem_cons, List.mem_nil_iff, or_false, Prod.mk.injEq] at hm
      rcases hm with h | h | h | h | h | h | h | h | h | h | h | h | h | h | h | h | h | h | h | h | h | h | h | h | h | h | h <;>
        first | exact h.1 | exact absurd h.2 (by decide)
  · rintro rfl; decide

theorem runCommand_exit (ext : Ext) (c : Core) (cmd : Command) (arg : Str) :
    (runCommand ext c cmd arg).exit = true ↔ cmd = .quit := by
  cases cmd <;> simp [runCommand, Res.plain, runExt]

theorem cmdOnecmd_exit (ext : Ext) (s : State) (l : Str) :
    (cmdOnecmd ext s l).1.exit = true ↔ ∃ a l', parseline l = .cmd quit a l' := by
  unfold cmdOnecmd
  cases hp : parseline l with
  | empty => simp [Res.plain]
  | noCmd x => simp [Res.plain]
  | cmd w a l' =>
    simp only
    by_cases hw : w = []
    · subst hw
      simp only [if_true, Res.plain]
      constructor
      · intro h; cases h
      · rintro ⟨a', l'', h⟩; simp only [Parsed.cmd.injEq] at h; exact absurd h.1 (by decide)
    · rw [if_neg hw]
      cases hc : commandOf w with
      | none =>
        simp only [Res.plain]
        constructor
        · intro h; cases h
        · rintro ⟨a', l'', h⟩
          simp only [Parsed.cmd.injEq] at h
          rw [h.1, commandOf_quit.mpr rfl] at hc; cases hc
      | some cmd =>
        simp only [runCommand_exit]
        constructor
        · rintro rfl
          exact ⟨a, l', by rw [commandOf_quit.mp hc]⟩
        · rintro ⟨a', l'', h⟩
          simp only [Parsed.cmd.injEq] at h
          rw [h.1, commandOf_quit.mpr rfl] at hc
          exact (Option.some.inj hc).symm

theorem onecmd_exit_iff (ext : Ext) (s : State) (line : Str) :
    (onecmdL ext s line).1.exit = true ↔ dispatchWord s line = some quit := by
  unfold onecmdL dispatchWord
  have key : ∀ l w a l', parseline l = .cmd w a l' → ((cmdOnecmd ext s l).1.exit = true ↔ w = quit) := by
    intro l w a l' hl
    rw [cmdOnecmd_exit, hl]
    simp only [Parsed.cmd.injEq]
    constructor
    · rintro ⟨a', l'', h, -⟩; exact h
    · intro h; exact ⟨a, l', h, rfl, rfl⟩
  have keyn : ∀ l x, parseline l = .noCmd x → ¬ (cmdOnecmd ext s l).1.exit = true := by
    intro l x hl
    rw [cmdOnecmd_exit, hl]; simp
  cases hp : parseline (preprocessL line) with
  | empty =>
    simp only [hp]
    by_cases hl : s.lastcmd = []
    · simp [hl, Res.plain]
    · simp only [hl, if_false]
      cases hp2 : parseline (preprocessL s.lastcmd) with
      | empty => simp [Res.plain]
      | noCmd x =>
        simp only [hp2]
        have := keyn _ x hp2
        simp [this]
      | cmd w a l' =>
        simp only [hp2, Option.some.injEq]
        exact key _ w a l' hp2
  | noCmd x =>
    simp only [hp]
    have := keyn _ x hp
    simp [this]
  | cmd w a l' =>
    simp only [hp, Option.some.injEq]
    exact key _ w a l' hp

/-! ### the register loop -/

theorem Regs.get_set (r : Regs) (n m : RegName) (v : Int) :
    (r.set n v).get m = if m = n then v else r.get m := by
  cases n <;> cases m <;> simp [Regs.set, Regs.get]

/-- The last value assigned to register `n` among the per-pair outcomes. -/
def lastAssigned (outs : List (Except Reject (RegName × Int))) (n : RegName) : Option Int :=
  (outs.filterMap fun o => match o with
    | .ok (reg, v) => if reg = n then some v else none
    | .error _ => none).getLast?

theorem regsLoop_spec (d : Dev) (P : Parser) (pairs : List (Str × Str)) (r : Regs) :
    (regsLoop d P pairs r).1 = pairs.map (pairOutcome d P) ∧
    ∀ n, (regsLoop d P pairs r).2.get n = (lastAssigned (pairs.map (pairOutcome d P)) n).getD (r.get n) := by
  induction pairs generalizing r with
  | nil => exact ⟨rfl, fun n => rfl⟩
  | cons pair rest ih =>
    simp only [regsLoop, List.map_cons]
    cases ho : pairOutcome d P pair with
    | error e =>
      obtain ⟨i1, i2⟩ := ih r
      refine ⟨by rw [i1], fun n => ?_⟩
      rw [i2 n]
      simp [lastAssigned]
    | ok rv =>
      obtain ⟨reg, v⟩ := rv
      obtain ⟨i1, i2⟩ := ih (r.set reg v)
      refine ⟨by rw [i1], fun n => ?_⟩
      rw [i2 n, Regs.get_set]
      unfold lastAssigned
      simp only [List.filterMap_cons]
      by_cases hn : reg = n
      · subst hn
        simp only [if_true]
        rw [List.getLast?_cons]
        simp
      · have hn' : ¬ n = reg := fun e => hn e.symm
        simp [hn, hn']

/-- No pair was assigned: the registers are what they were. -/
theorem regsLoop_none (d : Dev) (P : Parser) (pairs : List (Str × Str)) (r : Regs)
    (h : (regsLoop d P pairs r).1.any pairAssigned = false) :
    (regsLoop d P pairs r).2 = r := by
  induction pairs generalizing r with
  | nil => rfl
  | cons pair rest ih =>
    simp only [regsLoop, List.any_cons, Bool.or_eq_false_iff] at h ⊢
    obtain ⟨h1, h2⟩ := h
    cases ho : pairOutcome d P pair with
    | ok rv => rw [ho] at h1; simp [pairAssigned] at h1
    | error e =>
      rw [ho] at h2
      simp only at h2 ⊢
      exact ih r h2

/-- What an accepted pair guarantees: the name is a register, the text denotes `v`, and `v` fits. -/
theorem pairOutcome_ok {d : Dev} {P : Parser} {pair : Str × Str} {reg : RegName} {v : Int}
    (h : pairOutcome d P pair = .ok (reg, v)) :
    regOfName pair.1 = some reg ∧ numberL P pair.2 = .ok v ∧ (reg ≠ .pc → 0 ≤ v ∧ v ≤ d.byteMask) := by
  unfold pairOutcome at h
  cases hr : regOfName pair.1 with
  | none => simp [hr] at h
  | some reg' =>
    simp only [hr] at h
    cases hn : numberL P pair.2 with
    | ok v' =>
      simp only [hn] at h
      split_ifs at h with hc
      simp only [Except.ok.injEq, Prod.mk.injEq] at h
      obtain ⟨rfl, rfl⟩ := h
      refine ⟨rfl, rfl, fun hpc => ?_⟩
      have hv : v' = Py.land v' d.byteMask := by
        by_contra hne
        exact hc ⟨hpc, hne⟩
      have hm : d.byteMask = 2 ^ d.byteWidth - 1 := rfl
      rw [hm, Py.land_mask] at hv
      have hpos : (0 : Int) < 2 ^ d.byteWidth := by positivity
      have h1 := Int.emod_nonneg v' (ne_of_gt hpos)
      have h2 := Int.emod_lt_of_pos v' hpos
      rw [hm]
      omega
    | key => simp [hn] at h
    | overflow => simp [hn] at h
    | other => simp [hn] at h

/-! ### "a refusing path returns the state it was given", command by command -/

theorem doRadix_rejected (c : Core) (a : Str) (h : (doRadix c a).1.isRejected = true) : (doRadix c a).2 = c := by
  unfold doRadix at h ⊢
  cases a with
  | nil => rfl
  | cons ch t =>
    simp only at h ⊢
    split_ifs at h ⊢ <;> first | rfl | (simp [Verdict.isRejected] at h)

theorem doWidth_rejected (c : Core) (a : Str) (h : (doWidth c a).1.isRejected = true) : (doWidth c a).2 = c := by
  unfold doWidth at h ⊢
  split_ifs at h ⊢ with h1
  · rfl
  · cases hp : pyIntL a 10 with
    | none => rfl
    | some w =>
      simp only [hp] at h ⊢
      split_ifs at h ⊢ <;> first | rfl | (simp [Verdict.isRejected] at h)

theorem doAddLabel_rejected (c : Core) (a : Str) (h : (doAddLabel c a).1.isRejected = true) : (doAddLabel c a).2 = c := by
  unfold doAddLabel at h ⊢
  cases hs : shlexSplit a with
  | none => rfl
  | some toks =>
    match toks, hs with
    | [], _ => rfl
    | [_], _ => rfl
    | [addr, label], hs =>
      simp only [hs] at h ⊢
      cases hn : numberL c.parser addr <;> simp only [hn] at h ⊢ <;> first | rfl | (simp [Verdict.isRejected] at h)
    | _ :: _ :: _ :: _, _ => rfl

theorem doDeleteLabel_rejected (c : Core) (a : Str) (h : (doDeleteLabel c a).1.isRejected = true) :
    (doDeleteLabel c a).2 = c := by
  unfold doDeleteLabel at h ⊢
  split_ifs at h ⊢
  · rfl
  · simp [Verdict.isRejected] at h

theorem doAddBreakpoint_rejected (c : Core) (a : Str) (h : (doAddBreakpoint c a).1.isRejected = true) :
    (doAddBreakpoint c a).2 = c := by
  unfold doAddBreakpoint at h ⊢
  cases hs : shlexSplit a with
  | none => rfl
  | some toks =>
    match toks, hs with
    | [], _ => rfl
    | [addr], hs =>
      simp only [hs] at h ⊢
      cases hn : numberL c.parser addr <;> simp only [hn] at h ⊢
      · split_ifs at h ⊢ <;> first | rfl | (simp [Verdict.isRejected] at h)
      all_goals rfl
    | _ :: _ :: _, _ => rfl

theorem doDeleteBreakpoint_rejected (c : Core) (a : Str) (h : (doDeleteBreakpoint c a).1.isRejected = true) :
    (doDeleteBreakpoint c a).2 = c := by
  unfold doDeleteBreakpoint at h ⊢
  cases hs : shlexSplit a with
  | none => rfl
  | some toks =>
    match toks, hs with
    | [], _ => rfl
    | [num], hs =>
      simp only [hs] at h ⊢
      cases hn : pyIntL num 10 with
      | none => rfl
      | some n =>
        simp only [hn] at h ⊢
        split_ifs at h ⊢ <;> first | rfl | (simp [Verdict.isRejected] at h)
    | _ :: _ :: _, _ => rfl

theorem doMpu_rejected (c : Core) (a : Str) (h : (doMpu c a).1.isRejected = true) : (doMpu c a).2 = c := by
  unfold doMpu at h ⊢
  split_ifs at h ⊢
  · rfl
  · cases hd : devOfName a with
    | none => rfl
    | some d => simp [hd, Verdict.isRejected] at h

theorem doRegisters_rejected (d : Dev) (P : Parser) (r : Regs) (a : Str)
    (h : (doRegisters d P r a).1.isRejected = true) : (doRegisters d P r a).2.2 = r := by
  by_cases h1 : a = []
  · simp [doRegisters, h1]
  · by_cases h2 : findPairs a = []
    · simp [doRegisters, h1, h2]
    · simp only [doRegisters, h1, h2, if_false] at h ⊢
      by_cases h3 : (regsLoop d P (findPairs a) r).1.any pairAssigned = true
      · simp [h3, Verdict.isRejected] at h
      · exact regsLoop_none d P _ r (by simpa using h3)

theorem runCommand_rejected (ext : Ext) (hext : ext.Honest) (c : Core) (cmd : Command) (arg : Str)
    (h : (runCommand ext c cmd arg).verdict.isRejected = true) : (runCommand ext c cmd arg).core = c := by
  cases cmd
  case registers =>
    simp only [runCommand] at h ⊢
    rw [doRegisters_rejected c.dev c.parser c.regs arg h]
  case reset => simp [runCommand, Res.plain, Verdict.isRejected] at h
  case quit => rfl
  case mpu => exact doMpu_rejected c arg h
  case radix => exact doRadix_rejected c arg h
  case width => exact doWidth_rejected c arg h
  case add_label => exact doAddLabel_rejected c arg h
  case delete_label => exact doDeleteLabel_rejected c arg h
  case add_breakpoint => exact doAddBreakpoint_rejected c arg h
  case delete_breakpoint => exact doDeleteBreakpoint_rejected c arg h
  case assemble =>
    simp only [runCommand, runExt] at h ⊢
    obtain ⟨e1, e2⟩ := hext .assemble c arg h
    rw [e1, e2]
  case fill =>
    simp only [runCommand, runExt] at h ⊢
    obtain ⟨e1, e2⟩ := hext .fill c arg h
    rw [e1, e2]
  case load =>
    simp only [runCommand, runExt] at h ⊢
    obtain ⟨e1, e2⟩ := hext .load c arg h
    rw [e1, e2]
  case goto =>
    simp only [runCommand, runExt] at h ⊢
    obtain ⟨e1, e2⟩ := hext .goto c arg h
    rw [e1, e2]
  case step =>
    simp only [runCommand, runExt] at h ⊢
    obtain ⟨e1, e2⟩ := hext .step c arg h
    rw [e1, e2]
  case ret =>
    simp only [runCommand, runExt] at h ⊢
    obtain ⟨e1, e2⟩ := hext .ret c arg h
    rw [e1, e2]
  all_goals rfl

theorem cmdOnecmd_rejected (ext : Ext) (hext : ext.Honest) (s : State) (l : Str)
    (h : (cmdOnecmd ext s l).1.verdict.isRejected = true) : (cmdOnecmd ext s l).1.core = s.core := by
  unfold cmdOnecmd at h ⊢
  cases hp : parseline l with
  | empty => rfl
  | noCmd x => rfl
  | cmd w a l' =>
    simp only [hp] at h ⊢
    by_cases hw : w = []
    · simp only [hw, if_true] at h ⊢
      rfl
    · simp only [hw, if_false] at h ⊢
      cases hc : commandOf w with
      | none => rfl
      | some cmd =>
        simp only [hc] at h ⊢
        exact runCommand_rejected ext hext s.core cmd a h

theorem onecmd_rejected (ext : Ext) (hext : ext.Honest) (s : State) (line : Str)
    (h : (onecmdL ext s line).1.verdict.isRejected = true) : (onecmdL ext s line).2.core = s.core := by
  unfold onecmdL at h ⊢
  cases hp : parseline (preprocessL line) with
  | empty =>
    simp only [hp] at h ⊢
    split_ifs at h ⊢ with hl
    · rfl
    · cases hp2 : parseline (preprocessL s.lastcmd) with
      | empty => rfl
      | noCmd x =>
        simp only [hp2] at h ⊢
        exact cmdOnecmd_rejected ext hext s _ h
      | cmd w a l' =>
        simp only [hp2] at h ⊢
        exact cmdOnecmd_rejected ext hext s _ h
  | noCmd x =>
    simp only [hp] at h ⊢
    exact cmdOnecmd_rejected ext hext s _ h
  | cmd w a l' =>
    simp only [hp] at h ⊢
    exact cmdOnecmd_rejected ext hext s _ h

/-! ### a command word, blanks, arguments: the side conditions of `cleaned_noise` -/

/-- Arguments that the noise rules leave alone: non-empty, not starting with a blank of any kind,
not ending with a space or tab, no `;` outside quotes, quotes closed. -/
structure ArgsOK (args : Str) : Prop where
  ne : args ≠ []
  head : ∀ c, args.head? = some c → isReSpace c = false
  last : ∀ c, args.getLast? = some c → isBlank c = false
  semi : semiFree false args = true
  quotes : quoteState false args = false

/-- Surrounding noise: blanks, dots, blanks, comment. -/
structure Noise (ws1 dots ws2 comment : Str) : Prop where
  lead : ∀ c ∈ ws1, isBlank c = true
  dots : ∀ c ∈ dots, c = '.'
  trail : ∀ c ∈ ws2, isBlank c = true
  comment : comment = [] ∨ ∃ r, comment = ';' :: r

theorem cleaned_word_args (w bl args ws1 dots ws2 comment : Str) (hn : Noise ws1 dots ws2 comment)
    (hw : w ≠ []) (hwp : ∀ c ∈ w, isPlain c = true) (hwh : ∀ c, w.head? = some c → isBlank c = false ∧ c ≠ '.')
    (hbl : ∀ c ∈ bl, isReSpace c = true) (ha : ArgsOK args) :
    cleaned (ws1 ++ dots ++ (w ++ bl ++ args) ++ ws2 ++ comment) = w ++ bl ++ args := by
  obtain ⟨a1, b1⟩ := semiFree_plain false w hwp
  obtain ⟨a2, b2⟩ := semiFree_plain false bl (fun c hc => isPlain_of_isReSpace (hbl c hc))
  apply cleaned_noise ws1 dots (w ++ bl ++ args) ws2 comment hn.lead hn.dots hn.trail
  · simp [hw]
  · intro c hc
    obtain ⟨x, xs, rfl⟩ := List.exists_cons_of_ne_nil hw
    exact hwh c (by simpa using hc)
  · intro c hc
    rw [List.getLast?_append] at hc
    cases hy : args.getLast? with
    | none => simp [List.getLast?_eq_none_iff] at hy; exact absurd hy ha.ne
    | some v => rw [hy] at hc; simp at hc; rw [← hc]; exact ha.last v hy
  · simp [semiFree_append, quoteState_append, a1, b1, a2, b2, ha.semi]
  · simp [quoteState_append, b1, b2, ha.quotes]
  · exact hn.comment

theorem cleaned_word_alone (w ws1 dots ws2 comment : Str) (hn : Noise ws1 dots ws2 comment)
    (hw : w ≠ []) (hwp : ∀ c ∈ w, isPlain c = true) (hwh : ∀ c, w.head? = some c → isBlank c = false ∧ c ≠ '.')
    (hwl : ∀ c, w.getLast? = some c → isBlank c = false) :
    cleaned (ws1 ++ dots ++ w ++ ws2 ++ comment) = w := by
  obtain ⟨a1, b1⟩ := semiFree_plain false w hwp
  exact cleaned_noise ws1 dots w ws2 comment hn.lead hn.dots hn.trail hw hwh hwl a1 b1 hn.comment

/-! ### `parseline` on `word`, `word args` -/

theorem rstripP_cons_cases (p : Char → Bool) (c : Char) (l : Str) :
    rstripP p (c :: l) = [] ∨ ∃ r, rstripP p (c :: l) = c :: r := by
  obtain ⟨t, ht, -⟩ := rstripP_split p (c :: l)
  cases hr : rstripP p (c :: l) with
  | nil => left; rfl
  | cons x xs =>
    right
    rw [hr] at ht
    simp only [List.cons_append, List.cons.injEq] at ht
    exact ⟨xs, by rw [ht.1]⟩

/-- A line that is a command word, optionally followed by a blank and anything, is dispatched on
that word (for words that start with a letter other than… any identifier character, not `?`/`!`). -/
theorem parseline_word (w : Str) (tail : Str) (hw : w ≠ []) (hwi : ∀ c ∈ w, isIdentChar c = true)
    (ht : IsTail tail) : ∃ a l', parseline (w ++ tail) = .cmd w a l' := by
  have hidns : ∀ c, isIdentChar c = true → isReSpace c = false := by
    intro c hc
    by_contra h
    have := isIdent_not_space (by simpa using h)
    rw [hc] at this; cases this
  have hbang : ∀ c, isIdentChar c = true → c ≠ '!' ∧ c ≠ '?' := by
    intro c hc
    constructor <;> (rintro rfl; revert hc; decide)
  obtain ⟨ini, z, rfl⟩ : ∃ ini z, w = ini ++ [z] := by
    rcases List.eq_nil_or_concat w with h | ⟨ini, z, h⟩
    · exact absurd h hw
    · exact ⟨ini, z, by simpa using h⟩
  have hz : isIdentChar z = true := hwi z (by simp)
  -- strip: nothing in front, the word survives at the back
  have hstrip : ∃ rest, pyStrip (ini ++ [z] ++ tail) = ini ++ [z] ++ rest ∧
      (rest = [] ∨ ∃ ch r, rest = ch :: r ∧ isIdentChar ch = false) := by
    unfold pyStrip
    have hl : lstripP isReSpace (ini ++ [z] ++ tail) = ini ++ [z] ++ tail := by
      cases ini with
      | nil => exact lstripP_cons_keep _ z _ (hidns z hz)
      | cons x xs => exact lstripP_cons_keep _ x _ (hidns x (hwi x (by simp)))
    rw [hl, show ini ++ [z] ++ tail = ini ++ z :: tail by simp, rstripP_append_keep _ ini z tail (hidns z hz)]
    refine ⟨rstripP isReSpace tail, by simp, ?_⟩
    rcases ht with rfl | ⟨b, r, rfl, hb⟩
    · left; rfl
    · rcases rstripP_cons_cases isReSpace b r with h | ⟨r', h⟩
      · left; exact h
      · right; exact ⟨b, r', h, isIdent_not_space hb⟩
  obtain ⟨rest, hs, hr⟩ := hstrip
  unfold parseline
  rw [hs]
  cases hini : ini ++ [z] ++ rest with
  | nil => simp at hini
  | cons c cs =>
    have hc : isIdentChar c = true := by
      cases ini with
      | nil => simp at hini; rw [← hini.1]; exact hz
      | cons x xs => simp at hini; rw [← hini.1]; exact hwi x (by simp)
    obtain ⟨n1, n2⟩ := hbang c hc
    simp only [n1, n2, if_false]
    refine ⟨pyStrip (List.dropWhile isIdentChar (c :: cs)), c :: cs, ?_⟩
    have : List.takeWhile isIdentChar (c :: cs) = ini ++ [z] := by
      rw [← hini]; exact takeWhile_word isIdentChar (ini ++ [z]) rest hwi hr
    rw [this]

theorem quit_not_shortcut : shortcuts.find? (fun q => q.1 = quit) = none := by decide

theorem quit_word : IsWord quit := ⟨by decide, by decide⟩

/-- The preprocessed form of a quit form followed by nothing or by blanks and arguments. -/
theorem quit_form_core (f : Str) (hf : f ∈ quitForms) (tail : Str)
    (ht : tail = [] ∨ ∃ bl args, tail = bl ++ args ∧ bl ≠ [] ∧ (∀ c ∈ bl, isReSpace c = true) ∧
      ∀ c, args.head? = some c → isReSpace c = false) :
    ∃ tail', shortcutLoop shortcuts (tildeCase (f ++ tail)) = quit ++ tail' ∧ IsTail tail' := by
  simp only [quitForms, List.mem_cons, List.mem_nil_iff, or_false] at hf
  have hshort : ∀ sc, (sc, quit) ∈ shortcuts → sc ≠ ['~'] →
      ∃ tail', shortcutLoop shortcuts (tildeCase (sc ++ tail)) = quit ++ tail' ∧ IsTail tail' := by
    intro sc hm hnt
    rcases ht with rfl | ⟨bl, args, rfl, hbl, hblw, hargs⟩
    · exact ⟨[], by rw [List.append_nil, preprocess_core_alone sc quit hm hnt]; simp, Or.inl rfl⟩
    · refine ⟨' ' :: args, ?_, Or.inr ⟨' ', args, rfl, by decide⟩⟩
      rw [← List.append_assoc]
      exact preprocess_core_args sc quit hm hnt bl args hbl hblw hargs
  rcases hf with rfl | rfl | rfl | rfl | rfl
  · -- the long form: no shortcut is called `quit`
    have htl : IsTail tail := by
      rcases ht with rfl | ⟨bl, args, rfl, hbl, hblw, -⟩
      · exact Or.inl rfl
      · obtain ⟨b, r, rfl⟩ := List.exists_cons_of_ne_nil hbl
        exact Or.inr ⟨b, r ++ args, rfl, hblw b (by simp)⟩
    refine ⟨tail, ?_, htl⟩
    rw [tildeCase_id _ (by simp [quit]), shortcutLoop_word shortcuts quit tail shortcuts_words quit_word htl,
      quit_not_shortcut]
  · exact hshort "q".toList (by decide) (by decide)
  · exact hshort "x".toList (by decide) (by decide)
  · exact hshort "exit".toList (by decide) (by decide)
  · exact hshort "EOF".toList (by decide) (by decide)

end Py65.Proofs.MonCmd
