/-
"Memory changes only where the access log shows a write", for a step at a declared opcode that does not
transfer control - the form in which `Props/C09h.lean` states "the executed code does not store into the
listed range" as a hypothesis on the RUN (the generated model logs every `memory[a] = v`).

Composition of existing theorems, nothing re-derived from the generated handlers:
  * C12 (`accesses_nmos6502 / _cmos / _org16`): the events a step appends to the log are the opcode fetch
    and `Spec.instrAccesses`, as a multiset - no side condition, decimal mode included;
  * C01 / C02 / C03 through `Hist.step_spec`: the memory after the step is the programming model's;
    ADC / SBC (whose C01 - C03 statements are binary mode only) write no memory in either mode
    (`Compose2.step_adcsbc`);
  * here: the programming model changes a cell only if `Spec.dataAccesses` has a write to it
    (`exec_mem_cases`, `writes_logged`).
-/
import Py65.Props.C12
import Py65.Proofs.Compose2Follow

namespace Py65.Proofs.Compose2
open Py65 Py65.Gen Py65.Spec Py65.Proofs Py65.Proofs.Hist
open Py65.Model.PyStr Py65.Model.AddrParser Py65.Model.Show
open Py65.Props.C09 (isControl)

/-- The access log shows a write to the cell `a` (with whatever value). -/
def WritesTo (l : List MemEv) (a : Int) : Prop := ∃ v, MemEv.w a v ∈ l

theorem writesTo_iff_acl (s : St) (a : Int) : WritesTo s.log a ↔ Acc.w a ∈ acl s := by
  simp only [WritesTo, acl, List.mem_map]
  constructor
  · rintro ⟨v, hv⟩; exact ⟨_, hv, rfl⟩
  · rintro ⟨ev, hev, he⟩
    cases ev with
    | r b => cases he
    | w b v => simp only [accOf, Acc.w.injEq] at he; subst he; exact ⟨v, hev⟩

/-- "no logged write hits the cells selected by `p`" as a computed check. -/
def noWriteIn (l : List MemEv) (p : Int → Bool) : Bool :=
  l.all fun ev => match ev with
    | .w a _ => !(p a)
    | .r _ => true

theorem noWrite_of_check {l : List MemEv} {p : Int → Bool} (h : noWriteIn l p = true) (c : Int)
    (hc : p c = true) : ¬ WritesTo l c := by
  rintro ⟨v, hv⟩
  have := List.all_eq_true.1 h _ hv
  simp [hc] at this

/-! ### the programming model -/

def isPush : Mn → Bool
  | .PHA | .PHX | .PHY | .PHP => true
  | _ => false

/-- the instruction writes the cell at its effective address -/
def writesEa : Mn → Mode → Bool
  | .STA, _ | .STX, _ | .STY, _ | .STZ, _ | .TSB, _ | .TRB, _ | .RMB _, _ | .SMB _, _ => true
  | .ASL, mo | .LSR, mo | .ROL, mo | .ROR, mo | .INC, mo | .DEC, mo => !(mo == .acc)
  | _, _ => false

/-- An instruction that does not transfer control changes at most the cell at its effective address
(stores, read-modify-write on memory) or the cell the stack pointer points at (pushes). -/
theorem exec_mem_cases (W : Nat) (v : Variant) (mn : Mn) (mo : Mode) (A : AState) (c : Int)
    (hnc : isControl mn = false) :
    (exec W v mn mo A).mem c = A.mem c ∨ (c = ea W mo A ∧ writesEa mn mo = true) ∨
      (c = BM W + A.sp ∧ isPush mn = true) := by
  by_cases hp : c = BM W + A.sp ∧ isPush mn = true
  · exact Or.inr (Or.inr hp)
  by_cases hw : c = ea W mo A ∧ writesEa mn mo = true
  · exact Or.inr (Or.inl hw)
  left
  cases mn <;> first
    | (exact Bool.noConfusion hnc)
    | rfl
    | (have he : c ≠ ea W mo A := fun h => hw ⟨h, rfl⟩
       simp only [exec, write, if_neg he]; done)
    | (have he : c ≠ BM W + A.sp := fun h => hp ⟨h, rfl⟩
       simp only [exec, push, write, if_neg he]; done)
    | (cases mo <;> first
        | rfl
        | (have he : c ≠ ea W _ A := fun h => hw ⟨h, rfl⟩
           simp only [exec, write, if_neg he]; done))

/-- addressing modes with a data cell -/
def hasData : Mode → Bool
  | .imm | .imp | .acc | .rel => false
  | _ => true

/-- in the documented tables, an instruction that writes its effective address has a data cell -/
theorem writers_have_data : ∀ r ∈ cmosExtTable ++ nmosTable, writesEa r.2.1 r.2.2 = true → hasData r.2.2 = true := by
  decide +kernel

/-- ... and then `Spec.dataAccesses` (C12's oracle) has the write. -/
theorem writes_logged (W : Nat) (v : Variant) (mn : Mn) (mo : Mode) (A : AState)
    (hsp : 0 ≤ A.sp ∧ A.sp < BM W) (c : Int)
    (h : (c = ea W mo A ∧ writesEa mn mo = true ∧ hasData mo = true) ∨ (c = BM W + A.sp ∧ isPush mn = true)) :
    Acc.w c ∈ dataAccesses W v mn mo A := by
  rcases h with ⟨rfl, hw, hd⟩ | ⟨rfl, hp⟩
  · cases mn <;> first
      | (exact Bool.noConfusion hw)
      | (cases mo <;> first
          | (exact Bool.noConfusion hd)
          | (exact Bool.noConfusion hw)
          | (simp [dataAccesses, Mn.isRead, Mn.isStore, Mn.isRmw]))
  · have e : A.sp % BM W = A.sp := Int.emod_eq_of_lt hsp.1 hsp.2
    cases mn <;> first
      | (exact Bool.noConfusion hp)
      | (simp [dataAccesses, stackAddr, e])

theorem ea_p (W : Nat) (mo : Mode) (A : AState) (p : Int) : ea W mo { A with p := p } = ea W mo A := by
  cases mo <;> rfl

/-! ### one step of a generated device -/

/-- C12 for a `Hist.Dev`. -/
theorem step_accesses (d : Dev) (s : St) (hi : Inv d s) (hw : s.waiting = false) (mn : Mn) (mo : Mode)
    (hd : decode d.variant (s.mem s.pc) = some (mn, mo)) :
    Py65.Props.C12.StepAccesses d.W d.variant mn mo s (d.step s) := by
  cases d with
  | nmos => exact Py65.Props.C12.accesses_nmos6502 s hi.1 hw mn mo hd
  | cmos => exact Py65.Props.C12.accesses_cmos s hi.1 hw mn mo hd
  | org16 => exact Py65.Props.C12.accesses_org16 s hi.1 hw mn mo hd

/-- **Frame of one step.**  A running device at a declared opcode that does not transfer control:
writes already in the log stay in the log, and a cell to which the log shows no write afterwards has
kept its value. -/
theorem step_frame (d : Dev) (s : St) (hr : Running d s) (mn : Mn) (mo : Mode)
    (hd : decode d.variant (s.mem s.pc) = some (mn, mo)) (hnc : isControl mn = false) (c : Int) :
    (WritesTo s.log c → WritesTo (d.step s).log c) ∧
    (¬ WritesTo (d.step s).log c → (d.step s).mem c = s.mem c) := by
  obtain ⟨T, hT, hperm⟩ := step_accesses d s hr.1 hr.2 mn mo hd
  refine ⟨fun h => ?_, fun hno => ?_⟩
  · rw [writesTo_iff_acl] at h ⊢
    rw [hT]; exact List.mem_append_right _ h
  · by_cases ha : isAdcSbc mn = true
    · rw [(step_adcsbc d s hr.1 hr.2 mn mo hd ha).2.1]
    · have hna := not_arith_of hnc ha
      have h := step_spec d s hr.1 hr.2 mn mo hd hna
      have hmem : (d.step s).mem = (exec d.W d.variant mn mo { abs s with pc := (s.pc + 1) % AM d.W }).mem :=
        congrArg AState.mem h
      rw [hmem]
      have hsp : 0 ≤ s.sp ∧ s.sp < BM d.W := by
        have := hr.1.1.sp; rw [byteMask_eq] at this; simp only [BM]; omega
      have hlogged : ∀ (_ : (c = ea d.W mo { abs s with pc := (s.pc + 1) % AM d.W } ∧ writesEa mn mo = true) ∨
          (c = BM d.W + s.sp ∧ isPush mn = true)), False := by
        intro hc
        apply hno
        rw [writesTo_iff_acl, hT]
        apply List.mem_append_left
        rw [List.mem_reverse]
        apply hperm.symm.subset
        apply List.mem_cons_of_mem
        simp only [instrAccesses]
        apply List.mem_append_right
        apply writes_logged d.W d.variant mn mo { core s with pc := (s.pc + 1) % AM d.W } hsp c
        rcases hc with ⟨h1, h2⟩ | hc
        · left
          refine ⟨?_, h2, writers_have_data _ (decode_mem hd) h2⟩
          rw [h1]
          exact ea_p d.W mo { core s with pc := (s.pc + 1) % AM d.W } (normP s.p)
        · right; exact hc
      rcases exec_mem_cases d.W d.variant mn mo { abs s with pc := (s.pc + 1) % AM d.W } c hnc with h1 | h1 | h1
      · exact h1
      · exact (hlogged (Or.inl h1)).elim
      · exact (hlogged (Or.inr h1)).elim

/-! ### the listing against a run whose logged writes avoid the protected cells -/

/-- **Core induction, access-log form.**  `Prot` is a set of protected cells containing the opcode cell of
every listed instruction except possibly the last.  If, in the states the device passes through, the access
log never shows a write to a protected cell, then - besides the conclusion of `follow_core` - every
protected cell still holds its initial value in each of these states. -/
theorem follow_log (d : Dev) (P : Parser) (s0 : St) (start end_ : Int) (vs : List (Int × Int × Str))
    (Prot : Int → Prop) (hr : Running d s0) (hpc : s0.pc = start) (he : end_ ≤ topAddr d)
    (hv : Listing d P s0.mem start end_ vs)
    (hst : ∀ k (hk : k + 1 < vs.length), Straight d (s0.mem (vs[k]).1))
    (hprot : ∀ k (hk : k + 1 < vs.length), Prot (vs[k]).1)
    (hlog : ∀ i, i < vs.length → ∀ c, Prot c → ¬ WritesTo (d.step^[i] s0).log c) :
    ∀ k (hk : k < vs.length), (d.step^[k] s0).pc = (vs[k]).1 ∧ Running d (d.step^[k] s0) ∧
      ∀ c, Prot c → (d.step^[k] s0).mem c = s0.mem c := by
  have hrange := hr.pc_range
  rw [hpc] at hrange
  have key := visits_follow (iat d P s0.mem) (topAddr d) start end_ he d.step St.pc
    (fun s => Running d s ∧ ∀ c, Prot c → s.mem c = s0.mem c) vs start _ s0 hv
    hrange.1 hrange.2 (fun h => by simp [h]) hpc ⟨hr, fun _ _ => rfl⟩ ?_
  · intro k hk; exact ⟨(key k hk).1, (key k hk).2.1, (key k hk).2.2⟩
  intro k hk hp hg
  obtain ⟨hg1, hg2⟩ := hg
  have hmem : vs[k] ∈ vs := List.getElem_mem _
  have hi := visits_mem _ _ _ _ vs _ _ hv _ hmem
  have hfx := hg2 _ (hprot k hk)
  obtain ⟨l1, l2, l3, l4⟩ := at_listed d P s0.mem _ _ _ _ hg1 hp hi (hst k hk) hfx
  obtain ⟨mn, mo, hdec, hnc, _⟩ := hst k hk
  have hdec' : decode d.variant ((d.step^[k] s0).mem (d.step^[k] s0).pc) = some (mn, mo) := by
    rw [hp, hfx]; exact hdec
  rw [Function.iterate_succ_apply']
  refine ⟨l1, ?_, l3, l4, fun c hc => ?_⟩
  · have : (3 : Int) ≤ topAddr d + 1 := by
      rw [topAddr_succ]; rcases d.hW with h | h <;> (rw [h]; simp only [AM]; omega)
    omega
  · have hno := hlog (k + 1) hk c hc
    rw [Function.iterate_succ_apply'] at hno
    rw [(step_frame d _ hg1 mn mo hdec' hnc c).2 hno]
    exact hg2 c hc

end Py65.Proofs.Compose2
