/-
Tie by regeneration, C17: the GENERATED run control and breakpoint commands
(`Py65/Gen/MonRunGen.lean`, translated from `Monitor._run / do_step / do_goto / do_return /
do_add_breakpoint / do_delete_breakpoint / do_show_breakpoints` of py65/monitor.py by
`harness/py2lean_mon.py` on every run) equal the hand-written model `Py65.Model.MonRun`, for ALL
arguments, device states, breakpoint lists and fuels, and for ANY device step function `step`
(in particular the generated `Py65.Gen.devXXXX.step`).

The two `while True:` loops of `_run` have no bound in Python; the generated loop functions take a
`fuel` with exactly the accounting of the model's `runLoop` (one unit per `mpu.step()`), so the
equalities need no hypothesis: out of fuel on one side iff on the other.
These are the proof obligations a change of those methods breaks.
-/
import Py65.Gen.MonRunGen
import Py65.Proofs.MonRunLemmas

namespace Py65.Proofs.MonRunGenEq
open Py65 Py65.Model Py65.Model.PyStr Py65.Model.AddrParser Py65.Model.MonMem Py65.Model.MonRun
open Py65.Model.MonGenRt Py65.Gen

/-! ### how the model's results read as ends of the generated methods -/

/-- "Breakpoint %d reached." if the run reported a breakpoint. -/
def hitLines : Option Nat → List Str
  | some n => ["Breakpoint ".toList ++ pyFmtD (n : Int) ++ " reached.".toList]
  | none => []

/-- The model's `Option RunRes` as the end of `_run`: out of fuel, or normal completion with the
device where the run left it and the breakpoint report printed (the number of steps is not
something the Python code computes). -/
def runFlow (σ : RunSt) : Option RunRes → Flow RunSt Unit
  | none => .nofuel
  | some r => .ok () { mpu := r.st, breakpoints := σ.breakpoints, out := σ.out ++ hitLines r.hit }

/-- The line a breakpoint command prints for the model's outcome (`none`: it raised instead). -/
def bpText : BpOut → Option Str
  | .added n a => some ("Breakpoint ".toList ++ pyFmtD (n : Int) ++ " added at $".toList ++ pyFmtUX 4 a)
  | .present a => some ("Breakpoint already present at $".toList ++ pyFmtUX 4 a)
  | .removed n => some ("Breakpoint ".toList ++ pyFmtD (n : Int) ++ " removed".toList)
  | .already n => some ("Breakpoint ".toList ++ pyFmtD (n : Int) ++ " already removed".toList)
  | .typeError => none
  | .indexError => none

/-- The exception of the two failing outcomes of `do_delete_breakpoint`. -/
def bpExc : BpOut → Exc
  | .indexError => .IndexError
  | _ => .TypeError

/-- The model's outcome of a breakpoint command as the end of the generated method: the new list
and one more output line, or the exception with the list as the model leaves it. -/
def bpFlow (σ : RunSt) (r : BpOut × List (Option Int)) : Flow RunSt Unit :=
  match bpText r.1 with
  | some t => .ok () { mpu := σ.mpu, breakpoints := r.2, out := σ.out ++ [t] }
  | none => .raise (bpExc r.1) { mpu := σ.mpu, breakpoints := r.2, out := σ.out }

/-- The exception a refusal of `AddressParser.number` is. -/
def numberExc : Res → Exc
  | .key => .KeyError
  | .overflow => .OverflowError
  | _ => .Other

theorem parseNumber_eq (P : Parser) (s : Str) :
    parseNumber P s = match numberL P s with
      | .ok v => .ok v
      | r => .error (numberExc r) := by
  unfold parseNumber
  cases numberL P s <;> rfl

def helpGoto : List Str := ["goto <address>".toList, "Change the PC to address and continue execution.".toList]
def helpAddBp : List Str :=
  ["add_breakpoint <address|label>".toList, "Add a breakpoint on execution at the given address or label".toList]
def helpDelBp : List Str :=
  ["delete_breakpoint <number>".toList, "Delete the breakpoint on execution marked by the given number".toList]

/-! ### `_run` -/

theorem while1_eq (step : St → St) (dis : Str → St → List Str) (d : Dev) (P : Parser) (codes : List Int) :
    ∀ (fuel : Nat) (σ : RunSt),
      MonRunGen._run_while1 step dis d P codes fuel σ =
        match runLoop step (stopPlain codes) fuel σ.mpu with
        | none => .nofuel
        | some r => .ok () { mpu := r.2, breakpoints := σ.breakpoints, out := σ.out } := by
  intro fuel
  induction fuel with
  | zero => intro σ; rfl
  | succ f ih =>
    intro σ
    unfold MonRunGen._run_while1 runLoop
    by_cases hs : stopPlain codes (step σ.mpu) = true
    · have hs' : pyIn ((step σ.mpu).mem (step σ.mpu).pc) codes = true := hs
      simp only [hs, hs', if_true]
    · have hs' : ¬ (pyIn ((step σ.mpu).mem (step σ.mpu).pc) codes = true) := hs
      simp only [hs, hs', if_false, Bool.false_eq_true]
      rw [ih]
      cases runLoop step (stopPlain codes) f (step σ.mpu) <;> rfl

theorem pyIndex_of_contains (bps : List (Option Int)) (pc : Int) (h : bps.contains (some pc) = true) :
    pyIndex bps (some pc) = some ((indexOf bps pc : Nat) : Int) := by
  simp only [pyIndex, h, if_true, indexOf]

theorem while2_eq (step : St → St) (dis : Str → St → List Str) (d : Dev) (P : Parser) (codes : List Int)
    (bps : List (Option Int)) :
    ∀ (fuel : Nat) (σ : RunSt), σ.breakpoints = bps →
      MonRunGen._run_while2 step dis d P codes bps fuel σ =
        match runLoop step (stopBp codes bps) fuel σ.mpu with
        | none => .nofuel
        | some r => .ok () { mpu := r.2, breakpoints := σ.breakpoints,
                             out := σ.out ++ hitLines (hitReport codes bps r.2) } := by
  intro fuel
  induction fuel with
  | zero => intro σ _; rfl
  | succ f ih =>
    intro σ hσ
    unfold MonRunGen._run_while2 runLoop
    by_cases hs : atStopcode codes (step σ.mpu) = true
    · have hs' : pyIn ((step σ.mpu).mem (step σ.mpu).pc) codes = true := hs
      simp only [stopBp, hs, hs', if_true, Bool.true_or, hitReport, hitLines, List.append_nil]
    · have hs' : ¬ (pyIn ((step σ.mpu).mem (step σ.mpu).pc) codes = true) := hs
      have hsf : atStopcode codes (step σ.mpu) = false := by simpa using hs
      by_cases hb : atBreakpoint bps (step σ.mpu) = true
      · have hb' : pyIn (some (step σ.mpu).pc) bps = true := hb
        have hidx := pyIndex_of_contains bps (step σ.mpu).pc hb
        simp only [stopBp, hsf, hs', hb, hb', if_true, if_false, Bool.false_or, hσ, hidx, hitReport, hitLines,
          Bool.false_eq_true]
      · have hb' : ¬ (pyIn (some (step σ.mpu).pc) bps = true) := hb
        have hbf : atBreakpoint bps (step σ.mpu) = false := by simpa using hb
        simp only [stopBp, hsf, hs', hbf, hb', if_false, Bool.false_or, Bool.false_eq_true]
        rw [ih { mpu := step σ.mpu, breakpoints := σ.breakpoints, out := σ.out } hσ]
        cases h : runLoop step (stopBp codes bps) f (step σ.mpu) <;> simp

/-- `GenEq` for `_run`: for every step function, stop-code list, fuel and monitor state the
generated `_run` ends exactly as the model's `run` on the state's breakpoint list and device. -/
theorem run_eq (step : St → St) (dis : Str → St → List Str) (d : Dev) (P : Parser) (fuel : Nat)
    (codes : List Int) (σ : RunSt) :
    MonRunGen._run step dis d P fuel codes σ = runFlow σ (run step codes σ.breakpoints fuel σ.mpu) := by
  unfold MonRunGen._run run
  by_cases he : σ.breakpoints = []
  · have he' : σ.breakpoints.isEmpty = true := by rw [he]; rfl
    simp only [pySet, he, if_true, List.isEmpty_nil, while1_eq]
    cases runLoop step (stopPlain codes) fuel σ.mpu <;> simp [runFlow, hitLines, he]
  · have he' : ¬ (σ.breakpoints.isEmpty = true) := by
      intro h; exact he (List.isEmpty_iff.1 h)
    simp only [pySet, he, he', if_false, while2_eq step dis d P codes σ.breakpoints fuel σ rfl]
    cases runLoop step (stopBp codes σ.breakpoints) fuel σ.mpu <;> simp [runFlow]

/-- `GenEq` for `do_return`: `_run` with the stop codes RTS, RTI. -/
theorem do_return_eq (step : St → St) (dis : Str → St → List Str) (d : Dev) (P : Parser) (fuel : Nat)
    (args : Str) (σ : RunSt) :
    MonRunGen.do_return step dis d P fuel args σ = runFlow σ (ret step σ.breakpoints fuel σ.mpu) := by
  simp only [MonRunGen.do_return, ret, run_eq]
  cases run step [0x60, 0x40] σ.breakpoints fuel σ.mpu <;> rfl

/-- `GenEq` for `do_goto`: the usage text for an empty argument; the parser's exception (state
untouched) for an argument that is not a number; otherwise the model's `goto`: PC := the number,
then `_run` with the stop code BRK. -/
theorem do_goto_eq (step : St → St) (dis : Str → St → List Str) (d : Dev) (P : Parser) (fuel : Nat)
    (args : Str) (σ : RunSt) :
    MonRunGen.do_goto step dis d P fuel args σ =
      if args = [] then .ok () { mpu := σ.mpu, breakpoints := σ.breakpoints, out := σ.out ++ helpGoto }
      else match numberL P args with
        | .ok a => runFlow σ (goto step σ.breakpoints fuel a σ.mpu)
        | r => .raise (numberExc r) σ := by
  unfold MonRunGen.do_goto
  have hnil : "".toList = ([] : Str) := rfl
  rw [hnil]
  by_cases h : args = []
  · simp only [h, if_true, MonRunGen.help_goto, helpGoto, List.append_assoc, List.cons_append, List.nil_append]
  · simp only [h, if_false, parseNumber_eq]
    cases hn : numberL P args with
    | ok a =>
      simp only [run_eq, goto]
      cases run step [0x00] σ.breakpoints fuel { σ.mpu with pc := a } <;> rfl
    | key => rfl
    | overflow => rfl
    | other => rfl

/-- `GenEq` for `do_step`: exactly one `mpu.step()` (the model's `stepCmd`), then the lines
`do_disassemble('$' + addrFmt % pc)` prints for the NEW pc (an uninterpreted `dis`: it only reads). -/
theorem do_step_eq (step : St → St) (dis : Str → St → List Str) (d : Dev) (P : Parser) (args : Str) (σ : RunSt) :
    MonRunGen.do_step step dis d P args σ =
      .ok () { mpu := (stepCmd step σ.mpu).st, breakpoints := σ.breakpoints,
               out := σ.out ++ dis ("$".toList ++ fmtHexInt d.addrFmtW (stepCmd step σ.mpu).st.pc)
                        (stepCmd step σ.mpu).st } := rfl

/-! ### the breakpoint commands -/

theorem pyGetItem_nat {α : Type} (l : List α) (i : Nat) : pyGetItem l (i : Int) = l[i]? := by
  have h1 : ¬ ((i : Int) < 0) := by omega
  have h2 : (0 : Int) ≤ (i : Int) := by omega
  simp only [pyGetItem, pyNormIndex, h1, if_false, h2, if_true, Int.toNat_natCast]

theorem pyGetItem_nonneg {α : Type} (l : List α) (i : Int) (h : 0 ≤ i) : pyGetItem l i = l[i.toNat]? := by
  obtain ⟨n, rfl⟩ := Int.eq_ofNat_of_zero_le h
  rw [pyGetItem_nat]; rfl

/-- `GenEq` for `do_add_breakpoint`, for ALL argument strings: `shlex.split` raising (open quote) is
the `ValueError`; anything but exactly one token is the syntax error plus usage text; a token the
address parser refuses is that exception (list untouched); otherwise the model's `addBp`. -/
theorem do_add_breakpoint_eq (step : St → St) (dis : Str → St → List Str) (d : Dev) (P : Parser)
    (args : Str) (σ : RunSt) :
    MonRunGen.do_add_breakpoint step dis d P args σ =
      match MonCmd.shlexSplit args with
      | none => .raise .ValueError σ
      | some [tok] =>
        (match numberL P tok with
         | .ok a => bpFlow σ (addBp σ.breakpoints a)
         | r => .raise (numberExc r) σ)
      | some _ => .ok () { mpu := σ.mpu, breakpoints := σ.breakpoints,
                           out := σ.out ++ ("Syntax error: ".toList ++ args) :: helpAddBp } := by
  unfold MonRunGen.do_add_breakpoint
  cases hs : MonCmd.shlexSplit args with
  | none => rfl
  | some split =>
    match split with
    | [] =>
      have hl : ¬ (((([] : List Str).length : Nat) : Int) = 1) := by simp
      simp only [ne_eq, hl, not_false_eq_true, if_true, MonRunGen.help_add_breakpoint, helpAddBp,
        List.append_assoc, List.cons_append, List.nil_append]
    | [tok] =>
      have hg : pyGetItem [tok] (0 : Int) = some tok := by simp [pyGetItem, pyNormIndex]
      have hl : ((([tok] : List Str).length : Nat) : Int) = 1 := rfl
      simp only [ne_eq, hl, not_true_eq_false, if_false, hg, parseNumber_eq]
      cases hn : numberL P tok with
      | ok a =>
        simp only [addBp, pyIn]
        by_cases hc : σ.breakpoints.contains (some a) = true
        · simp only [hc, if_true, bpFlow, bpText]
        · have hl2 : ((σ.breakpoints ++ [some a]).length : Int) - 1 = (σ.breakpoints.length : Int) := by
            simp
          simp only [hc, if_false, Bool.false_eq_true, bpFlow, bpText, hl2]
      | key => rfl
      | overflow => rfl
      | other => rfl
    | a :: b :: rest =>
      have hl : ¬ (((a :: b :: rest).length : Int) = 1) := by
        simp only [List.length_cons]; push_cast; omega
      simp only [ne_eq, hl, not_false_eq_true, if_true, MonRunGen.help_add_breakpoint, helpAddBp,
        List.append_assoc, List.cons_append, List.nil_append]

/-- `GenEq` for `do_delete_breakpoint`, for ALL argument strings: as above for the token count; a
token `int()` refuses prints "Illegal number" (the `except ValueError`); otherwise the model's
`delBp` -- including its two failing outcomes, the `TypeError` of the two-argument `_output` call
for a number `< 0` or `> len`, and the `IndexError` of `self._breakpoints[len]`. -/
theorem do_delete_breakpoint_eq (step : St → St) (dis : Str → St → List Str) (d : Dev) (P : Parser)
    (args : Str) (σ : RunSt) :
    MonRunGen.do_delete_breakpoint step dis d P args σ =
      match MonCmd.shlexSplit args with
      | none => .raise .ValueError σ
      | some [tok] =>
        (match pyIntL tok 10 with
         | none => .ok () { mpu := σ.mpu, breakpoints := σ.breakpoints,
                            out := σ.out ++ ["Illegal number: ".toList ++ args] }
         | some k => bpFlow σ (delBp σ.breakpoints k))
      | some _ => .ok () { mpu := σ.mpu, breakpoints := σ.breakpoints,
                           out := σ.out ++ ("Syntax error: ".toList ++ args) :: helpDelBp } := by
  unfold MonRunGen.do_delete_breakpoint
  cases hs : MonCmd.shlexSplit args with
  | none => rfl
  | some split =>
    match split with
    | [] =>
      have hl : ¬ (((([] : List Str).length : Nat) : Int) = 1) := by simp
      simp only [ne_eq, hl, not_false_eq_true, if_true, MonRunGen.help_delete_breakpoint, helpDelBp,
        List.append_assoc, List.cons_append, List.nil_append]
    | [tok] =>
      have hg : pyGetItem [tok] (0 : Int) = some tok := by simp [pyGetItem, pyNormIndex]
      have hl : ((([tok] : List Str).length : Nat) : Int) = 1 := rfl
      simp only [ne_eq, hl, not_true_eq_false, if_false, hg]
      cases hn : pyIntL tok 10 with
      | none => rfl
      | some k =>
        simp only [delBp]
        by_cases hbad : k < 0 ∨ k > (σ.breakpoints.length : Int)
        · simp only [hbad, if_true, bpFlow, bpText, bpExc]
        · have h0 : 0 ≤ k := by omega
          have hk : ((k.toNat : Nat) : Int) = k := Int.toNat_of_nonneg h0
          simp only [hbad, if_false, pyGetItem_nonneg _ _ h0]
          cases hget : σ.breakpoints[k.toNat]? with
          | none => simp only [bpFlow, bpText, bpExc]
          | some slot =>
            have hlt : k.toNat < σ.breakpoints.length := by
              by_contra hc
              rw [List.getElem?_eq_none (by omega)] at hget
              cases hget
            have hset : pyListSet σ.breakpoints k (none : Option Int) = some (σ.breakpoints.set k.toNat none) := by
              have h1 : ¬ (k < 0) := by omega
              have h2 : 0 ≤ k ∧ k < (σ.breakpoints.length : Int) := ⟨h0, by omega⟩
              simp only [pyListSet, pyNormIndex, h1, if_false, h2, and_self, if_true]
            cases slot with
            | none => simp only [not_true_eq_false, if_false, bpFlow, bpText, hk]
            | some v =>
              simp only [reduceCtorEq, not_false_eq_true, if_true, hset, bpFlow, bpText, hk]
    | a :: b :: rest =>
      have hl : ¬ (((a :: b :: rest).length : Int) = 1) := by
        simp only [List.length_cons]; push_cast; omega
      simp only [ne_eq, hl, not_false_eq_true, if_true, MonRunGen.help_delete_breakpoint, helpDelBp,
        List.append_assoc, List.cons_append, List.nil_append]

/-- The line `do_show_breakpoints` prints for slot `i` holding address `a`. -/
def showLine (P : Parser) (p : Nat × Int) : Str :=
  "Breakpoint ".toList ++ pyFmtD (p.1 : Int) ++ ": $".toList ++ pyFmtUX 4 p.2 ++
    (match labelFor P p.2 with
     | some l => " ".toList ++ l
     | none => [])

theorem show_for1_eq (step : St → St) (dis : Str → St → List Str) (d : Dev) (P : Parser) :
    ∀ (l : List (Option Int)) (n : Nat) (σ : RunSt),
      MonRunGen.do_show_breakpoints_for1 step dis d P (n : Int) l σ =
        .ok () { mpu := σ.mpu, breakpoints := σ.breakpoints,
                 out := σ.out ++ ((l.zipIdx n).filterMap fun p => p.1.map fun a => (p.2, a)).map (showLine P) } := by
  intro l
  induction l with
  | nil => intro n σ; simp [MonRunGen.do_show_breakpoints_for1]
  | cons x rest ih =>
    intro n σ
    have hn : (n : Int) + 1 = ((n + 1 : Nat) : Int) := by push_cast; rfl
    unfold MonRunGen.do_show_breakpoints_for1
    cases x with
    | none =>
      simp only [hn, ih, List.zipIdx_cons, List.filterMap_cons, Option.map_none]
    | some a =>
      have e : ∀ (x : Str) (r : List Str), (σ.out ++ [x]) ++ r = σ.out ++ x :: r := by intro x r; simp
      cases hl : labelFor P a with
      | none =>
        have hx : showLine P (n, a) =
            "Breakpoint ".toList ++ pyFmtD (n : Int) ++ ": $".toList ++ pyFmtUX 4 a := by
          unfold showLine
          rw [hl]
          exact List.append_nil _
        simp only [hn, ih, hl, List.zipIdx_cons, List.filterMap_cons, Option.map_some, List.map_cons, hx, e]
      | some lab =>
        have hx : showLine P (n, a) =
            "Breakpoint ".toList ++ pyFmtD (n : Int) ++ ": $".toList ++ pyFmtUX 4 a ++ (" ".toList ++ lab) := by
          unfold showLine
          rw [hl]
        simp only [hn, ih, hl, List.zipIdx_cons, List.filterMap_cons, Option.map_some, List.map_cons, hx, e]

/-- `GenEq` for `do_show_breakpoints`: one line per slot the model's `showBps` lists (the slots
that are not `None`, with their numbers), in order, each with the first label bound to the address. -/
theorem do_show_breakpoints_eq (step : St → St) (dis : Str → St → List Str) (d : Dev) (P : Parser)
    (args : Str) (σ : RunSt) :
    MonRunGen.do_show_breakpoints step dis d P args σ =
      .ok () { mpu := σ.mpu, breakpoints := σ.breakpoints,
               out := σ.out ++ (showBps σ.breakpoints).map (showLine P) } := by
  unfold MonRunGen.do_show_breakpoints
  have h := show_for1_eq step dis d P σ.breakpoints 0 σ
  change MonRunGen.do_show_breakpoints_for1 step dis d P 0 σ.breakpoints σ = _ at h
  rw [h]
  rfl

/-! ### breakpoint histories through the generated methods -/

/-- The state `Monitor.onecmd` goes on with after a command: the command's final state, or -- the
catch-all of `onecmd` absorbs any exception -- the state at the moment of the raise. -/
def stateAfter (σ : RunSt) : Flow RunSt Unit → RunSt
  | .ok _ s => s
  | .raise _ s => s
  | .nofuel => σ

/-- One breakpoint command line: the argument string of `add_breakpoint` / `delete_breakpoint`. -/
inductive BpLine where
  | add (args : Str)
  | del (args : Str)

/-- A history of breakpoint command lines run through the GENERATED methods. -/
def genBpHistory (step : St → St) (dis : Str → St → List Str) (d : Dev) (P : Parser) :
    RunSt → List BpLine → RunSt
  | σ, [] => σ
  | σ, .add args :: rest =>
    genBpHistory step dis d P (stateAfter σ (MonRunGen.do_add_breakpoint step dis d P args σ)) rest
  | σ, .del args :: rest =>
    genBpHistory step dis d P (stateAfter σ (MonRunGen.do_delete_breakpoint step dis d P args σ)) rest

/-- The argument string is one token that spells the command's argument: an address for `add`
(any spelling the address parser accepts), a decimal integer for `delete`. -/
def Spells (P : Parser) : BpLine → BpCmd → Prop
  | .add args, .add a => ∃ tok, MonCmd.shlexSplit args = some [tok] ∧ numberL P tok = .ok a
  | .del args, .del k => ∃ tok, MonCmd.shlexSplit args = some [tok] ∧ pyIntL tok 10 = some k
  | _, _ => False

theorem stateAfter_bpFlow (σ : RunSt) (r : BpOut × List (Option Int)) :
    stateAfter σ (bpFlow σ r) =
      { mpu := σ.mpu, breakpoints := r.2, out := σ.out ++ (bpText r.1).toList } := by
  unfold bpFlow
  cases bpText r.1 <;> simp [stateAfter]

/-- A history of lines that spell the commands `h` does, through the generated methods, what the
model's `runBps` does: same final list, one output line per command that did not raise, the
device untouched. -/
theorem genBpHistory_eq (step : St → St) (dis : Str → St → List Str) (d : Dev) (P : Parser) :
    ∀ (lines : List BpLine) (h : List BpCmd) (σ : RunSt), List.Forall₂ (Spells P) lines h →
      genBpHistory step dis d P σ lines =
        { mpu := σ.mpu, breakpoints := (runBps σ.breakpoints h).2,
          out := σ.out ++ (runBps σ.breakpoints h).1.flatMap fun o => (bpText o).toList } := by
  intro lines
  induction lines with
  | nil =>
    intro h σ hf
    cases hf
    simp [genBpHistory, runBps]
  | cons ln rest ih =>
    intro h σ hf
    cases hf with
    | cons hsp hrest =>
      rename_i c cs
      cases ln with
      | add args =>
        cases c with
        | del k => exact absurd hsp (by simp [Spells])
        | add a =>
          obtain ⟨tok, h1, h2⟩ := hsp
          have hcmd : MonRunGen.do_add_breakpoint step dis d P args σ = bpFlow σ (addBp σ.breakpoints a) := by
            rw [do_add_breakpoint_eq, h1]
            simp only [h2]
          simp only [genBpHistory, hcmd, stateAfter_bpFlow, ih cs _ hrest, runBps, applyBp, List.flatMap_cons,
            List.append_assoc]
      | del args =>
        cases c with
        | add a => exact absurd hsp (by simp [Spells])
        | del k =>
          obtain ⟨tok, h1, h2⟩ := hsp
          have hcmd : MonRunGen.do_delete_breakpoint step dis d P args σ = bpFlow σ (delBp σ.breakpoints k) := by
            rw [do_delete_breakpoint_eq, h1]
            simp only [h2]
          simp only [genBpHistory, hcmd, stateAfter_bpFlow, ih cs _ hrest, runBps, applyBp, List.flatMap_cons,
            List.append_assoc]

end Py65.Proofs.MonRunGenEq
