/-
Helper lemmas for C17 about the run-control model `Py65/Model/MonRun.lean`.
Property statements live in `Py65/Props/C17.lean`.
-/
import Py65.Model.MonRun
import Mathlib.Data.List.Nodup
import Mathlib.Logic.Function.Iterate
import Mathlib.Tactic.SplitIfs

namespace Py65.Model.MonRun
open Py65

/-! ### the loop -/

theorem iterate_succ' (f : St → St) (n : Nat) (s : St) : Nat.iterate f (n + 1) s = Nat.iterate f n (f s) := rfl

theorem runLoop_sound (step : St → St) (stop : St → Bool) :
    ∀ (fuel : Nat) (s : St) (n : Nat) (s' : St), runLoop step stop fuel s = some (n, s') →
      1 ≤ n ∧ n ≤ fuel ∧ s' = Nat.iterate step n s ∧ stop s' = true ∧
      ∀ m, 0 < m → m < n → stop (Nat.iterate step m s) = false := by
  intro fuel
  induction fuel with
  | zero => intro s n s' h; simp [runLoop] at h
  | succ fuel ih =>
    intro s n s' h
    unfold runLoop at h
    cases hs : stop (step s) with
    | true =>
      simp only [hs, if_true, Option.some.injEq, Prod.mk.injEq] at h
      obtain ⟨rfl, rfl⟩ := h
      refine ⟨Nat.le_refl _, by omega, rfl, hs, ?_⟩
      intro m h0 h1; omega
    | false =>
      simp only [hs, Bool.false_eq_true, if_false] at h
      cases hr : runLoop step stop fuel (step s) with
      | none => simp [hr] at h
      | some r =>
        obtain ⟨k, t⟩ := r
        obtain ⟨h1, h2, h3, h4, h5⟩ := ih (step s) k t hr
        simp only [hr, Option.map_some, Option.some.injEq, Prod.mk.injEq] at h
        obtain ⟨hk, ht⟩ := h
        subst hk
        subst ht
        refine ⟨by omega, by omega, ?_, h4, ?_⟩
        · rw [iterate_succ']; exact h3
        · intro m hm0 hm1
          cases m with
          | zero => omega
          | succ m =>
            rw [iterate_succ']
            cases m with
            | zero => exact hs
            | succ m => exact h5 (m + 1) (by omega) (by omega)

theorem runLoop_complete (step : St → St) (stop : St → Bool) :
    ∀ (fuel : Nat) (s : St) (n : Nat), 1 ≤ n → n ≤ fuel → stop (Nat.iterate step n s) = true →
      (∀ m, 0 < m → m < n → stop (Nat.iterate step m s) = false) →
      runLoop step stop fuel s = some (n, Nat.iterate step n s) := by
  intro fuel
  induction fuel with
  | zero => intro s n h1 h2; omega
  | succ fuel ih =>
    intro s n h1 h2 h3 h4
    unfold runLoop
    cases n with
    | zero => omega
    | succ n =>
      cases n with
      | zero =>
        have : stop (step s) = true := h3
        simp [this, Nat.iterate]
      | succ n =>
        have hns : stop (step s) = false := h4 1 (by omega) (by omega)
        simp only [hns, Bool.false_eq_true, if_false]
        rw [ih (step s) (n + 1) (by omega) (by omega) (by rw [← iterate_succ']; exact h3)
          (fun m hm0 hm1 => by rw [← iterate_succ']; exact h4 (m + 1) (by omega) (by omega))]
        rfl

/-- Two exit tests that agree on every state the loop visits give the same run. -/
theorem runLoop_congr (step : St → St) (stop1 stop2 : St → Bool) (h : ∀ s, stop1 s = stop2 s) :
    ∀ (fuel : Nat) (s : St), runLoop step stop1 fuel s = runLoop step stop2 fuel s := by
  have : stop1 = stop2 := funext h
  intro fuel s; rw [this]

/-! ### breakpoints -/

/-- No address is active twice. -/
def ActiveNodup (bps : List (Option Int)) : Prop :=
  ∀ (i j : Nat) (a : Int), bps[i]? = some (some a) → bps[j]? = some (some a) → i = j

theorem contains_some_iff (bps : List (Option Int)) (a : Int) :
    bps.contains (some a) = true ↔ ∃ i : Nat, bps[i]? = some (some a) := by
  rw [List.contains_iff_mem, List.mem_iff_getElem?]

theorem indexOf_eq (bps : List (Option Int)) (a : Int) (i : Nat) (hi : bps[i]? = some (some a))
    (hfirst : ∀ j : Nat, j < i → bps[j]? ≠ some (some a)) : indexOf bps a = i := by
  unfold indexOf
  induction bps generalizing i with
  | nil => simp at hi
  | cons b rest ih =>
    cases i with
    | zero =>
      simp only [List.getElem?_cons_zero, Option.some.injEq] at hi
      subst hi
      simp
    | succ i =>
      have hb : b ≠ some a := by
        intro hb
        exact hfirst 0 (by omega) (by simp [hb])
      rw [List.idxOf_cons_ne _ hb]
      congr 1
      apply ih i (by simpa using hi)
      intro j hj
      have := hfirst (j + 1) (by omega)
      simpa using this

theorem indexOf_of_nodup (bps : List (Option Int)) (hn : ActiveNodup bps) (a : Int) (i : Nat)
    (hi : bps[i]? = some (some a)) : indexOf bps a = i := by
  apply indexOf_eq bps a i hi
  intro j hj hja
  have := hn j i a hja hi
  omega

theorem addBp_nodup (bps : List (Option Int)) (a : Int) (hn : ActiveNodup bps) :
    ActiveNodup (addBp bps a).2 := by
  unfold addBp
  split_ifs with hc
  · exact hn
  · dsimp only
    have hno : ∀ i : Nat, bps[i]? ≠ some (some a) := by
      intro i hi
      exact hc ((contains_some_iff bps a).2 ⟨i, hi⟩)
    intro i j b hi hj
    rw [List.getElem?_append] at hi hj
    by_cases hil : i < bps.length <;> by_cases hjl : j < bps.length
    · simp only [hil, hjl, if_true] at hi hj; exact hn i j b hi hj
    · simp only [hil, hjl, if_true, if_false] at hi hj
      have : b = a := by
        cases hk : j - bps.length with
        | zero => simp [hk] at hj; exact hj.symm
        | succ k => simp [hk] at hj
      subst this
      exact absurd hi (hno i)
    · simp only [hil, hjl, if_true, if_false] at hi hj
      have : b = a := by
        cases hk : i - bps.length with
        | zero => simp [hk] at hi; exact hi.symm
        | succ k => simp [hk] at hi
      subst this
      exact absurd hj (hno j)
    · simp only [hil, hjl, if_false] at hi hj
      have e1 : i - bps.length = 0 := by
        cases hk : i - bps.length with
        | zero => rfl
        | succ k => simp [hk] at hi
      have e2 : j - bps.length = 0 := by
        cases hk : j - bps.length with
        | zero => rfl
        | succ k => simp [hk] at hj
      omega

theorem set_none_getElem? (bps : List (Option Int)) (k i : Nat) (a : Int)
    (h : (bps.set k none)[i]? = some (some a)) : bps[i]? = some (some a) ∧ i ≠ k := by
  rw [List.getElem?_set] at h
  by_cases hik : k = i
  · subst hik
    by_cases hl : k < bps.length <;> simp [hl] at h
  · simp only [hik, if_false] at h
    exact ⟨h, fun e => hik e.symm⟩

theorem delBp_nodup (bps : List (Option Int)) (k : Int) (hn : ActiveNodup bps) :
    ActiveNodup (delBp bps k).2 := by
  unfold delBp
  split_ifs
  · exact hn
  · split
    · exact hn
    · dsimp only
      intro i j a hi hj
      exact hn i j a (set_none_getElem? _ _ _ _ hi).1 (set_none_getElem? _ _ _ _ hj).1
    · exact hn

theorem applyBp_nodup (bps : List (Option Int)) (c : BpCmd) (hn : ActiveNodup bps) :
    ActiveNodup (applyBp bps c).2 := by
  cases c with
  | add a => exact addBp_nodup bps a hn
  | del k => exact delBp_nodup bps k hn

/-- The numbers of the successful adds reported in an output trace, with their addresses. -/
def addsOf : List BpOut → List (Nat × Int)
  | [] => []
  | .added n a :: rest => (n, a) :: addsOf rest
  | _ :: rest => addsOf rest

/-- Slot `i` holds `x` or has been emptied. -/
def SlotIs (bps : List (Option Int)) (i : Nat) (x : Option Int) : Prop :=
  bps[i]? = some x ∨ bps[i]? = some none

theorem delBp_length (bps : List (Option Int)) (k : Int) : (delBp bps k).2.length = bps.length := by
  unfold delBp
  split_ifs
  · rfl
  · split <;> simp

theorem delBp_slot (bps : List (Option Int)) (k : Int) (i : Nat) (x : Option Int) (h : SlotIs bps i x) :
    SlotIs (delBp bps k).2 i x := by
  unfold delBp
  split_ifs
  · exact h
  · split
    · exact h
    · rename_i a hk
      unfold SlotIs at *
      rw [List.getElem?_set]
      by_cases e : k.toNat = i
      · subst e
        have hl : k.toNat < bps.length := by
          by_contra hl
          rw [List.getElem?_eq_none (by omega)] at hk
          cases hk
        simp [hl]
      · simpa [e] using h
    · exact h

theorem delBp_not_added (bps : List (Option Int)) (k : Int) : addsOf [(delBp bps k).1] = [] := by
  unfold delBp
  split_ifs
  · rfl
  · split <;> rfl

/-- The invariant of a history run from `bps0`: see `bp_numbers_fresh` in Props/C17. -/
theorem runBps_inv : ∀ (h : List BpCmd) (bps0 : List (Option Int)), ActiveNodup bps0 →
    let r := runBps bps0 h
    ActiveNodup r.2 ∧
    r.2.length = bps0.length + (addsOf r.1).length ∧
    (∀ j (hj : j < (addsOf r.1).length), ((addsOf r.1)[j]).1 = bps0.length + j) ∧
    (∀ i x, SlotIs bps0 i x → SlotIs r.2 i x) ∧
    (∀ j (hj : j < (addsOf r.1).length), SlotIs r.2 (bps0.length + j) (some ((addsOf r.1)[j]).2)) := by
  intro h
  induction h with
  | nil =>
    intro bps0 hn
    simp only [runBps, addsOf, List.length_nil, Nat.add_zero]
    exact ⟨hn, trivial, fun j hj => absurd hj (by omega), fun i x hx => hx, fun j hj => absurd hj (by omega)⟩
  | cons c rest ih =>
    intro bps0 hn
    simp only [runBps]
    have hn1 := applyBp_nodup bps0 c hn
    obtain ⟨i1, i2, i3, i4, i5⟩ := ih (applyBp bps0 c).2 hn1
    cases c with
    | del k =>
      have hout : addsOf ((applyBp bps0 (.del k)).1 :: (runBps (applyBp bps0 (.del k)).2 rest).1) =
          addsOf (runBps (applyBp bps0 (.del k)).2 rest).1 := by
        have := delBp_not_added bps0 k
        simp only [applyBp] at this ⊢
        generalize (delBp bps0 k).1 = o at this ⊢
        cases o <;> simp_all [addsOf]
      have hlen : (applyBp bps0 (.del k)).2.length = bps0.length := delBp_length bps0 k
      simp only [hout]
      rw [hlen] at i2 i3 i5
      exact ⟨i1, i2, i3, fun i x hx => i4 i x (delBp_slot bps0 k i x hx), i5⟩
    | add a =>
      simp only [applyBp] at hn1 i1 i2 i3 i4 i5 ⊢
      unfold addBp at hn1 i1 i2 i3 i4 i5 ⊢
      by_cases hc : bps0.contains (some a) = true
      · simp only [hc, if_true] at hn1 i1 i2 i3 i4 i5 ⊢
        simp only [addsOf]
        exact ⟨i1, i2, i3, i4, i5⟩
      · simp only [hc, Bool.false_eq_true, if_false] at hn1 i1 i2 i3 i4 i5 ⊢
        simp only [addsOf, List.length_cons, List.length_append, List.length_nil] at i2 i3 i5 ⊢
        refine ⟨i1, by omega, ?_, ?_, ?_⟩
        · intro j hj
          cases j with
          | zero => simp
          | succ j =>
            have := i3 j (by simpa using hj)
            simp only [List.getElem_cons_succ]
            omega
        · intro i x hx
          apply i4
          unfold SlotIs at hx ⊢
          have hil : i < bps0.length := by
            rcases hx with hx | hx <;>
            · by_contra hl
              rw [List.getElem?_eq_none (by omega)] at hx
              cases hx
          rw [List.getElem?_append_left hil]
          exact hx
        · intro j hj
          cases j with
          | zero =>
            simp only [List.getElem_cons_zero, Nat.add_zero]
            apply i4
            unfold SlotIs
            left
            simp
          | succ j =>
            have := i5 j (by simpa using hj)
            simp only [List.getElem_cons_succ]
            have e : bps0.length + (j + 1) = bps0.length + 1 + j := by omega
            rw [e]
            exact this

theorem activeNodup_nil : ActiveNodup [] := by
  unfold ActiveNodup
  intro i j a hi; simp at hi

end Py65.Model.MonRun
