/-
Aspect *cyc*: where the cycle counter comes from.  `step()` adds `cycletime[op] + excycles`;
`excycles` is bumped only by the three indexed-read helpers (when the opcode's `extracycles`
entry is non-zero and the index crosses a page) and by the branch helper.
-/
import Py65.Proofs.Interrupts

set_option linter.unusedSimpArgs false

namespace Py65.Proofs
open Py65 Py65.Gen Py65.Spec Py

theorem cross8 (A1 x : Int) (h : 0 ≤ A1 ∧ A1 < 65536) (hx : 0 ≤ x ∧ x ≤ 255) :
    (A1 % 65536 - A1 % 256 ≠ (A1 + x) % 65536 % 65536 - (A1 + x) % 65536 % 256) =
      (A1 / 256 ≠ (A1 + x) % 65536 / 256) := by
  apply propext; constructor <;> intro h1 <;> omega
theorem cross16 (A1 x : Int) (h : 0 ≤ A1 ∧ A1 < 4294967296) (hx : 0 ≤ x ∧ x ≤ 65535) :
    (A1 % 4294967296 - A1 % 65536 ≠ (A1 + x) % 4294967296 % 4294967296 - (A1 + x) % 4294967296 % 65536) =
      (A1 / 65536 ≠ (A1 + x) % 4294967296 / 65536) := by
  apply propext; constructor <;> intro h1 <;> omega

/-- The structure of `step()`'s cycle accounting. -/
theorem step_cycles (c : Cfg) (t : Tbl) (s : St) :
    (Mpu6502.step c t s).cycles =
      (t.instruct (s.mem s.pc) (afterFetch c t s)).cycles + t.cycletime (s.mem s.pc) +
        (t.instruct (s.mem s.pc) (afterFetch c t s)).excycles := by
  simp only [step_unfold]; omega

/-- abs,X: one extra cycle exactly when the opcode asks for it and the index crosses a page. -/
theorem AbsoluteX_cyc (c : Cfg) (hc : IsDev c) (s : St) (hs : WF c s) :
    (Mpu6502.AbsoluteXAddr c s).2.excycles =
      s.excycles + (if s.addcycles ≠ 0 ∧ readCrosses c.BYTE_WIDTH .abx (core s) then 1 else 0) := by
  have h1 := hs.mem s.pc; have h2 := hs.mem ((s.pc + 1) % AM c.BYTE_WIDTH); have hx := hs.x
  simp only [Mpu6502.AbsoluteXAddr]
  split
  · rename_i hadd
    simp only [WordAt_val c hc, WordAt_x, WordAt_excycles]
    rcases hc with rfl | rfl
    · constfold [readCrosses, page, opnd16, opnd1, opnd2, core] at h1 h2 hx ⊢
      simp only [pyarith, Int.reducePow]
      have hr : 0 ≤ s.mem s.pc + s.mem ((s.pc + 1) % 65536) * 256 ∧
          s.mem s.pc + s.mem ((s.pc + 1) % 65536) * 256 < 65536 := by omega
      simp only [cross8 _ _ hr hx, decide_eq_true_eq, hadd, ne_eq, not_false_eq_true, true_and]
      split <;> simp_all
    · constfold [readCrosses, page, opnd16, opnd1, opnd2, core] at h1 h2 hx ⊢
      simp only [pyarith, Int.reducePow]
      have hr : 0 ≤ s.mem s.pc + s.mem ((s.pc + 1) % 4294967296) * 65536 ∧
          s.mem s.pc + s.mem ((s.pc + 1) % 4294967296) * 65536 < 4294967296 := by omega
      simp only [cross16 _ _ hr hx, decide_eq_true_eq, hadd, ne_eq, not_false_eq_true, true_and]
      split <;> simp_all
  · rename_i hadd
    simp only [WordAt_excycles]
    simp at hadd
    simp [hadd]

/-- abs,Y: one extra cycle exactly when the opcode asks for it and the index crosses a page. -/
theorem AbsoluteY_cyc (c : Cfg) (hc : IsDev c) (s : St) (hs : WF c s) :
    (Mpu6502.AbsoluteYAddr c s).2.excycles =
      s.excycles + (if s.addcycles ≠ 0 ∧ readCrosses c.BYTE_WIDTH .aby (core s) then 1 else 0) := by
  have h1 := hs.mem s.pc; have h2 := hs.mem ((s.pc + 1) % AM c.BYTE_WIDTH); have hx := hs.y
  simp only [Mpu6502.AbsoluteYAddr]
  split
  · rename_i hadd
    simp only [WordAt_val c hc, WordAt_y, WordAt_excycles]
    rcases hc with rfl | rfl
    · constfold [readCrosses, page, opnd16, opnd1, opnd2, core] at h1 h2 hx ⊢
      simp only [pyarith, Int.reducePow]
      have hr : 0 ≤ s.mem s.pc + s.mem ((s.pc + 1) % 65536) * 256 ∧
          s.mem s.pc + s.mem ((s.pc + 1) % 65536) * 256 < 65536 := by omega
      simp only [cross8 _ _ hr hx, decide_eq_true_eq, hadd, ne_eq, not_false_eq_true, true_and]
      split <;> simp_all
    · constfold [readCrosses, page, opnd16, opnd1, opnd2, core] at h1 h2 hx ⊢
      simp only [pyarith, Int.reducePow]
      have hr : 0 ≤ s.mem s.pc + s.mem ((s.pc + 1) % 4294967296) * 65536 ∧
          s.mem s.pc + s.mem ((s.pc + 1) % 4294967296) * 65536 < 4294967296 := by omega
      simp only [cross16 _ _ hr hx, decide_eq_true_eq, hadd, ne_eq, not_false_eq_true, true_and]
      split <;> simp_all
  · rename_i hadd
    simp only [WordAt_excycles]
    simp at hadd
    simp [hadd]


/-- (zp),Y -/
theorem IndirectY_cyc (c : Cfg) (hc : IsDev c) (s : St) (hs : WF c s) :
    (Mpu6502.IndirectYAddr c s).2.excycles =
      s.excycles + (if s.addcycles ≠ 0 ∧ readCrosses c.BYTE_WIDTH .iny (core s) then 1 else 0) := by
  have h0 := hs.mem s.pc
  have hl := hs.mem
  have hx := hs.y
  have hw : 0 ≤ s.mem s.pc ∧ s.mem s.pc ≤ c.addrMask := by
    rcases hc with rfl | rfl <;> (simp [pyarith] at h0 ⊢; omega)
  simp only [Mpu6502.IndirectYAddr]
  split
  · rename_i hadd
    simp only [ByteAt_val, WrapAt_y, ByteAt_y, WrapAt_excycles, ByteAt_excycles]
    simp only [WrapAt_val c hc _ _ hw, ByteAt_mem]
    rcases hc with rfl | rfl
    · constfold [readCrosses, page, zpPtr, word, opnd1, core] at h0 hx ⊢
      simp only [pyarith, Int.reducePow]
      have e : s.mem s.pc - s.mem s.pc % 256 + (s.mem s.pc + 1) % 256 = (s.mem s.pc + 1) % 256 := by omega
      rw [e]
      have h1 := hl (s.mem s.pc); have h2 := hl ((s.mem s.pc + 1) % 256)
      constfold at h1 h2
      have hr : 0 ≤ s.mem (s.mem s.pc) + s.mem ((s.mem s.pc + 1) % 256) * 256 ∧
          s.mem (s.mem s.pc) + s.mem ((s.mem s.pc + 1) % 256) * 256 < 65536 := by omega
      simp only [cross8 _ _ hr hx, decide_eq_true_eq, hadd, ne_eq, not_false_eq_true, true_and]
      split <;> simp_all
    · constfold [readCrosses, page, zpPtr, word, opnd1, core] at h0 hx ⊢
      simp only [pyarith, Int.reducePow]
      have e : s.mem s.pc - s.mem s.pc % 65536 + (s.mem s.pc + 1) % 65536 = (s.mem s.pc + 1) % 65536 := by omega
      rw [e]
      have h1 := hl (s.mem s.pc); have h2 := hl ((s.mem s.pc + 1) % 65536)
      constfold at h1 h2
      have hr : 0 ≤ s.mem (s.mem s.pc) + s.mem ((s.mem s.pc + 1) % 65536) * 65536 ∧
          s.mem (s.mem s.pc) + s.mem ((s.mem s.pc + 1) % 65536) * 65536 < 4294967296 := by omega
      simp only [cross16 _ _ hr hx, decide_eq_true_eq, hadd, ne_eq, not_false_eq_true, true_and]
      split <;> simp_all
  · rename_i hadd
    simp only [WrapAt_excycles, ByteAt_excycles]
    simp at hadd
    simp [hadd]

/-- Taken branch: one cycle, plus one when the target is in another page than the next instruction. -/
theorem BranchRelAddr_cyc (c : Cfg) (hc : IsDev c) (s : St) (hs : WF c s) :
    (Mpu6502.BranchRelAddr c s).excycles =
      s.excycles + 1 +
        (if page c.BYTE_WIDTH (branchTarget c.BYTE_WIDTH (core s)) ≠
            page c.BYTE_WIDTH (nextPc c.BYTE_WIDTH .rel (core s)) then 1 else 0) := by
  have hm := hs.mem s.pc
  have hpc := hs.pc
  simp only [Mpu6502.BranchRelAddr, Mpu6502.ImmediateByte, Mpu6502.ByteAt, memGet]
  rcases hc with rfl | rfl <;>
  · constfold [branchTarget, nextPc, Mode.len, page, signed, opnd1, core] at hm hpc ⊢
    simp only [pyarith, Int.reducePow, Int.reduceMul]
    split_ifs <;> simp_all <;> omega

end Py65.Proofs
