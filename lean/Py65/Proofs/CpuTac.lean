/-
Tactic support for the CPU proofs.
  `pyconst`  configuration constants + evaluation of closed `Py.land/lor/lxor/lnot` terms
  `flagalg`  status-register idioms → `Spec.setFlag` / `Spec.flag` chains (canonical order)
  `pyarith`  masked data arithmetic → linear arithmetic with `/ % min max` by literals
-/
import Py65.Proofs.FlagLits
import Py65.Machine
import Mathlib.Tactic.SplitIfs

namespace Py
open Lean Meta Simp

/-- `Py.lnot <literal>` ↦ literal (definitional). -/
dsimproc [pyarith, pyconst] reduceLnot (Py.lnot _) := fun e => do
  let_expr Py.lnot a := e | return .continue
  let some v ← Int.fromExpr? a | return .continue
  return .done (toExpr (-v - 1))

/-- `Py.lor <literal> <literal>` ↦ literal (definitional; kernel evaluates `Nat.lor`). -/
dsimproc [pyarith, pyconst] reduceLor (Py.lor _ _) := fun e => do
  let_expr Py.lor a b := e | return .continue
  let some x ← Int.fromExpr? a | return .continue
  let some y ← Int.fromExpr? b | return .continue
  return .done (toExpr (Py.lor x y))

dsimproc [pyarith, pyconst] reduceLand (Py.land _ _) := fun e => do
  let_expr Py.land a b := e | return .continue
  let some x ← Int.fromExpr? a | return .continue
  let some y ← Int.fromExpr? b | return .continue
  return .done (toExpr (Py.land x y))

dsimproc [pyarith, pyconst] reduceLxor (Py.lxor _ _) := fun e => do
  let_expr Py.lxor a b := e | return .continue
  let some x ← Int.fromExpr? a | return .continue
  let some y ← Int.fromExpr? b | return .continue
  return .done (toExpr (Py.lxor x y))

/-- `x & ~y = x - (x & y)` (TRB). -/
@[pyarith] theorem land_lnot_right' (x y : Int) : land x (lnot y) = x - land x y := by
  have := land_add_land_lnot x y; omega

/-- rotate-left data idiom `(t << 1) | 1` (must not be read as a flag update) -/
@[flagalg ↓, pyarith ↓] theorem lor_shl_one (x : Int) : lor (shl x 1) 1 = x * 2 + 1 := by
  rw [lor_lit_1, land_lit_1]; simp [shl]

/-- rotate-right data idioms `(t >> 1) | NEGATIVE` -/
@[flagalg ↓, pyarith ↓] theorem lor_shr_128 (x : Int) : lor (shr x 1) 128 = x / 2 + 128 - x / 2 / 128 % 2 * 128 := by
  rw [lor_lit_128, land_lit_128]; simp [shr]
@[flagalg ↓, pyarith ↓] theorem lor_shr_32768 (x : Int) :
    lor (shr x 1) 32768 = x / 2 + 32768 - x / 2 / 32768 % 2 * 32768 := by
  rw [lor_lit_32768, land_lit_32768]; simp [shr]

attribute [pyarith ↓] lor_land
attribute [pyarith] land_neg shl shr

end Py
