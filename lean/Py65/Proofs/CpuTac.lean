/-
Tactic support for the CPU proofs: literal evaluation of `Py.lnot`, the `pyarith` simp set,
and the closing tactic `pyomega`.
-/
import Py65.Proofs.LandLits
import Py65.Machine
import Mathlib.Tactic.SplitIfs

namespace Py
open Lean Meta Simp

/-- `Py.lnot <literal>` ↦ the literal `-n-1` (definitional). -/
dsimproc [pyarith] reduceLnot (Py.lnot _) := fun e => do
  let_expr Py.lnot a := e | return .continue
  let some v ← Int.fromExpr? a | return .continue
  return .done (toExpr (-v - 1))

/-- `x & ~y = x - (x & y)` (TRB; also every `p &= ~FLAG` whose flag is not a literal). -/
@[pyarith] theorem land_lnot_right' (x y : Int) : land x (lnot y) = x - land x y := by
  have := land_add_land_lnot x y; omega

/-- `x | (v & M)` — the idiom `p |= value & FLAG`. -/
@[pyarith ↓] theorem lor_land (x v M : Int) : lor x (land v M) = x + land v M - land (land x v) M := by
  rw [lor_eq, land_assoc]

attribute [pyarith] land_neg shl shr

end Py
