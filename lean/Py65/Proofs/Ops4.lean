/-
Stack helpers and the control-transfer / stack instructions.
-/
import Py65.Proofs.Ops3

set_option linter.unusedSimpArgs false

namespace Py65.Proofs
open Py65 Py65.Gen Py65.Spec Py

/-- two memory functions that differ only in how the updated address is written -/
theorem mem_update_congr (m : Int → Int) (a b v w : Int) (h1 : a = b) (h2 : v = w) :
    (fun k => if k = a then v else m k) = (fun k => if k = b then w else m k) := by
  rw [h1, h2]

theorem stPush_core (c : Cfg) (hc : IsDev c) (z : Int) (s : St) :
    core (Mpu6502.stPush c z s) = push c.BYTE_WIDTH (core s) (z % BM c.BYTE_WIDTH) := by
  rcases hc with rfl | rfl <;>
  · simp only [Mpu6502.stPush, memSet, push, write, core]
    constfold
    simp only [pyarith, Int.reducePow, Int.reduceMul]
    simp only [AState.mk.injEq, true_and, and_true]
    exact mem_update_congr _ _ _ _ _ (by omega) rfl

@[simp] theorem stPush_p (c : Cfg) (z : Int) (s : St) : (Mpu6502.stPush c z s).p = s.p := rfl
@[simp] theorem stPushWord_p (c : Cfg) (z : Int) (s : St) : (Mpu6502.stPushWord c z s).p = s.p := rfl

theorem stPop_val (c : Cfg) (hc : IsDev c) (s : St) :
    (Mpu6502.stPop c s).1 = (pull c.BYTE_WIDTH (core s)).1 := by
  rcases hc with rfl | rfl <;>
  · simp only [Mpu6502.stPop, Mpu6502.ByteAt, memGet, pull, core]
    constfold
    simp only [pyarith, Int.reducePow, Int.reduceMul]
    congr 1; omega

theorem stPop_core (c : Cfg) (hc : IsDev c) (s : St) :
    core (Mpu6502.stPop c s).2 = (pull c.BYTE_WIDTH (core s)).2 := by
  rcases hc with rfl | rfl <;>
  · simp only [Mpu6502.stPop, Mpu6502.ByteAt, memGet, pull, core]
    constfold
    simp only [pyarith, Int.reducePow, Int.reduceMul]


theorem absH_of_core (c : Cfg) (s' : St) (A : AState) (h : core s' = A) :
    absH c s' = { A with p := normP A.p, pc := A.pc % (c.addrMask + 1) } := by
  subst h; rfl

theorem byte_mod {c : Cfg} (hc : IsDev c) (x : Int) (hx : 0 ≤ x ∧ x ≤ c.byteMask) :
    x % BM c.BYTE_WIDTH = x := by
  rcases hc with rfl | rfl <;> (constfold at hx ⊢; omega)

theorem pc_mod {c : Cfg} (hc : IsDev c) (x : Int) (hx : 0 ≤ x ∧ x ≤ c.addrMask) :
    x % AM c.BYTE_WIDTH = x := by
  rcases hc with rfl | rfl <;> (constfold at hx ⊢; omega)

/-- PHA -/
theorem h_48 (c : Cfg) (hc : IsDev c) (v : Variant) : HandlerOK c v (Mpu6502.inst_0x48 c) .PHA .imp := by
  intro s hs
  simp only [Mpu6502.inst_0x48]
  rw [absH_of_core c _ _ (stPush_core c hc s.a s)]
  dsimp only [exec, abs, core, push, write, nextPc, Mode.len]
  simp only [byte_mod hc _ hs.a, addrMask_succ hc]
  first | rfl | simp

/-- PHP: pushes the status with bits 4 and 5 set. -/
theorem h_08 (c : Cfg) (hc : IsDev c) (v : Variant) : HandlerOK c v (Mpu6502.inst_0x08 c) .PHP .imp := by
  intro s hs
  have hp := hs.p
  have e : lor (lor s.p c.BREAK) c.UNUSED = normP s.p := by
    rcases hc with rfl | rfl <;> (constfold; simp only [flagalg, normP, bitB, bitU])
  have hr : 0 ≤ normP s.p ∧ normP s.p ≤ c.byteMask := by
    rcases hc with rfl | rfl
    · constfold at hp ⊢; exact normP_range8 _ hp
    · constfold at hp ⊢; exact normP_range16 _ hp
  simp only [Mpu6502.inst_0x08, e]
  rw [absH_of_core c _ _ (stPush_core c hc _ s)]
  dsimp only [exec, abs, core, push, write, nextPc, Mode.len]
  simp only [byte_mod hc _ hr, addrMask_succ hc]
  first | rfl | simp


theorem stPushWord_core (c : Cfg) (hc : IsDev c) (z : Int) (s : St) :
    core (Mpu6502.stPushWord c z s) =
      push c.BYTE_WIDTH (push c.BYTE_WIDTH (core s) (z / BM c.BYTE_WIDTH % BM c.BYTE_WIDTH))
        (z % BM c.BYTE_WIDTH) := by
  simp only [Mpu6502.stPushWord, stPush_core c hc]
  rcases hc with rfl | rfl <;>
  · constfold
    simp only [pyarith, Int.reducePow, Int.reduceMul, Int.emod_emod_of_dvd _ (dvd_refl _)]

theorem stPopWord_val (c : Cfg) (hc : IsDev c) (s : St) :
    (Mpu6502.stPopWord c s).1 =
      (pull c.BYTE_WIDTH (core s)).1 +
        (pull c.BYTE_WIDTH (pull c.BYTE_WIDTH (core s)).2).1 * BM c.BYTE_WIDTH := by
  simp only [Mpu6502.stPopWord, stPop_val c hc, stPop_core c hc]
  rcases hc with rfl | rfl <;> (constfold; simp only [pyarith, Int.reducePow])

theorem stPopWord_core (c : Cfg) (hc : IsDev c) (s : St) :
    core (Mpu6502.stPopWord c s).2 = (pull c.BYTE_WIDTH (pull c.BYTE_WIDTH (core s)).2).2 := by
  simp only [Mpu6502.stPopWord, stPop_core c hc]


theorem pull_val_range {c : Cfg} (s : St) (hs : WF c s) :
    0 ≤ (pull c.BYTE_WIDTH (core s)).1 ∧ (pull c.BYTE_WIDTH (core s)).1 ≤ c.byteMask := hs.mem _

/-- PLA -/
theorem h_68 (c : Cfg) (hc : IsDev c) (v : Variant) : HandlerOK c v (Mpu6502.inst_0x68 c) .PLA .imp := by
  intro s hs
  have hr := pull_val_range s hs
  obtain ⟨ha, hxx, hy, hsp, hp, hpc, hmem, hw⟩ := core_eq (stPop_core c hc s)
  simp only [Mpu6502.inst_0x68]
  dsimp only [exec, absH, abs, core, nextPc, Mode.len]
  rw [FlagsNZ_p c _ _ hc (by simpa [stPop_val c hc] using hr)]
  simp only [FlagsNZ_a, FlagsNZ_x, FlagsNZ_y, FlagsNZ_sp, FlagsNZ_pc, FlagsNZ_mem, FlagsNZ_waiting,
    stPop_val c hc, ha, hxx, hy, hsp, hp, hpc, hmem, hw, normP_setNZ _ hc.W, addrMask_succ hc]
  dsimp only [pull, core]
  first | rfl | simp

/-- PLP -/
theorem h_28 (c : Cfg) (hc : IsDev c) (v : Variant) : HandlerOK c v (Mpu6502.inst_0x28 c) .PLP .imp := by
  intro s hs
  obtain ⟨ha, hxx, hy, hsp, hp, hpc, hmem, hw⟩ := core_eq (stPop_core c hc s)
  have e : ∀ r : Int, lor (lor r c.BREAK) c.UNUSED = normP r := by
    intro r; rcases hc with rfl | rfl <;> (constfold; simp only [flagalg, normP, bitB, bitU])
  simp only [Mpu6502.inst_0x28, e]
  dsimp only [exec, absH, abs, core, nextPc, Mode.len]
  simp only [stPop_val c hc, ha, hxx, hy, hsp, hp, hpc, hmem, hw, normP_idem, addrMask_succ hc]
  dsimp only [pull, core]
  first | rfl | simp

/-- JMP abs -/
theorem h_4c (c : Cfg) (hc : IsDev c) (v : Variant) : HandlerOK c v (Mpu6502.inst_0x4c c) .JMP .abs := by
  intro s hs
  have h1 := hs.mem s.pc
  have h2 := hs.mem ((s.pc + 1) % AM c.BYTE_WIDTH)
  simp only [Mpu6502.inst_0x4c]
  dsimp only [exec, absH, abs, core, opnd16, opnd1, opnd2]
  simp only [WordAt_val c hc, WordAt_a, WordAt_x, WordAt_y, WordAt_sp, WordAt_p, WordAt_mem,
    WordAt_waiting, addrMask_succ hc]
  have : (s.mem s.pc + s.mem ((s.pc + 1) % AM c.BYTE_WIDTH) * BM c.BYTE_WIDTH) % AM c.BYTE_WIDTH =
      s.mem s.pc + s.mem ((s.pc + 1) % AM c.BYTE_WIDTH) * BM c.BYTE_WIDTH := by
    rcases hc with rfl | rfl <;> (constfold at h1 h2 ⊢; omega)
  rw [this]


/-- JMP (ind), NMOS: the pointer's high byte comes from the same page. -/
theorem h_6c (c : Cfg) (hc : IsDev c) : HandlerOK c .nmos (Mpu6502.inst_0x6c c) .JMP .ind := by
  intro s hs
  have h1 := hs.mem s.pc
  have h2 := hs.mem ((s.pc + 1) % AM c.BYTE_WIDTH)
  have hta : 0 ≤ (Mpu6502.WordAt c s.pc s).1 ∧ (Mpu6502.WordAt c s.pc s).1 ≤ c.addrMask := by
    rw [WordAt_val c hc]
    rcases hc with rfl | rfl <;> (constfold at h1 h2 ⊢; omega)
  simp only [Mpu6502.inst_0x6c]
  dsimp only [exec, absH, abs, core, opnd16, opnd1, opnd2, word]
  simp only [WrapAt_a, WrapAt_x, WrapAt_y, WrapAt_sp, WrapAt_p, WrapAt_mem, WrapAt_waiting,
    WordAt_a, WordAt_x, WordAt_y, WordAt_sp, WordAt_p, WordAt_mem, WordAt_waiting, addrMask_succ hc]
  rw [WrapAt_val c hc _ _ hta]
  simp only [WordAt_mem, WordAt_val c hc]
  generalize hptr : s.mem s.pc + s.mem ((s.pc + 1) % AM c.BYTE_WIDTH) * BM c.BYTE_WIDTH = ptr
  have hlo := hs.mem ptr
  have hhi := hs.mem (ptr - ptr % BM c.BYTE_WIDTH + (ptr + 1) % BM c.BYTE_WIDTH)
  have : (s.mem ptr + s.mem (ptr - ptr % BM c.BYTE_WIDTH + (ptr + 1) % BM c.BYTE_WIDTH) * BM c.BYTE_WIDTH)
      % AM c.BYTE_WIDTH =
      s.mem ptr + s.mem (ptr - ptr % BM c.BYTE_WIDTH + (ptr + 1) % BM c.BYTE_WIDTH) * BM c.BYTE_WIDTH := by
    rcases hc with rfl | rfl <;> (constfold at hlo hhi ⊢; omega)
  rw [this]

/-- RTS -/
theorem h_60 (c : Cfg) (hc : IsDev c) (v : Variant) : HandlerOK c v (Mpu6502.inst_0x60 c) .RTS .imp := by
  intro s hs
  obtain ⟨ha, hxx, hy, hsp, hp, hpc, hmem, hw⟩ := core_eq (stPopWord_core c hc s)
  simp only [Mpu6502.inst_0x60]
  dsimp only [exec, absH, abs, core]
  simp only [stPopWord_val c hc, ha, hxx, hy, hsp, hp, hpc, hmem, hw, addrMask_succ hc]
  try dsimp only [pull, core]
  try (first | rfl | simp)

/-- RTI -/
theorem h_40 (c : Cfg) (hc : IsDev c) (v : Variant) : HandlerOK c v (Mpu6502.inst_0x40 c) .RTI .imp := by
  intro s hs
  have e : ∀ r : Int, lor (lor r c.BREAK) c.UNUSED = normP r := by
    intro r; rcases hc with rfl | rfl <;> (constfold; simp only [flagalg, normP, bitB, bitU])
  obtain ⟨ha1, hx1, hy1, hsp1, hp1, hpc1, hmem1, hw1⟩ := core_eq (stPop_core c hc s)
  simp only [Mpu6502.inst_0x40, e]
  generalize hs1 : ({ (Mpu6502.stPop c s).2 with p := normP (Mpu6502.stPop c s).1 } : St) = s1
  have hc1 : core s1 = { (pull c.BYTE_WIDTH (core s)).2 with p := normP (pull c.BYTE_WIDTH (core s)).1 } := by
    subst hs1; simp only [core, stPop_val c hc, ha1, hx1, hy1, hsp1, hpc1, hmem1, hw1]
  obtain ⟨ha, hxx, hy, hsp, hp, hpc, hmem, hw⟩ := core_eq ((stPopWord_core c hc s1).trans (by rw [hc1]))
  have hl := hs.mem
  dsimp only [exec, absH, abs, core]
  simp only [stPopWord_val c hc, hc1, ha, hxx, hy, hsp, hp, hpc, hmem, hw, normP_idem, addrMask_succ hc]
  dsimp only [pull, core]
  simp only [AState.mk.injEq, true_and, and_true]
  refine ⟨normP_idem _, ?_⟩
  have h1 := hl (BM c.BYTE_WIDTH + ((s.sp + 1) % BM c.BYTE_WIDTH + 1) % BM c.BYTE_WIDTH)
  have h2 := hl (BM c.BYTE_WIDTH + (((s.sp + 1) % BM c.BYTE_WIDTH + 1) % BM c.BYTE_WIDTH + 1) % BM c.BYTE_WIDTH)
  rcases hc with rfl | rfl <;> (constfold at h1 h2 ⊢; omega)


/-- The precondition of JSR: the two stack cells it writes are not its own operand bytes
(the property's "instruction overwrites its own operand bytes" exclusion). -/
def NoSelfOverwriteJSR (c : Cfg) (s : St) : Prop :=
  let W := c.BYTE_WIDTH
  BM W + s.sp ≠ s.pc ∧ BM W + s.sp ≠ (s.pc + 1) % AM W ∧
  BM W + (s.sp - 1) % BM W ≠ s.pc ∧ BM W + (s.sp - 1) % BM W ≠ (s.pc + 1) % AM W

/-- JSR -/
theorem h_20 (c : Cfg) (hc : IsDev c) (v : Variant) :
    HandlerOKp c v (Mpu6502.inst_0x20 c) .JSR .abs (NoSelfOverwriteJSR c) := by
  intro s hs hP
  obtain ⟨hP1, hP2, hP3, hP4⟩ := hP
  have hpcr := hs.pc
  have eret : land (s.pc + 1) c.addrMask = (s.pc + 1) % AM c.BYTE_WIDTH := by
    rcases hc with rfl | rfl <;> (constfold; simp only [pyarith])
  have hpush := stPushWord_core c hc (land (s.pc + 1) c.addrMask) s
  rw [eret] at hpush
  obtain ⟨ha, hxx, hy, hsp, hp, hpc, hmem, hw⟩ := core_eq hpush
  have h1 := hs.mem s.pc
  have h2 := hs.mem ((s.pc + 1) % AM c.BYTE_WIDTH)
  simp only [Mpu6502.inst_0x20, eret]
  dsimp only [exec, absH, abs, core, opnd16, opnd1, opnd2]
  simp only [WordAt_val c hc, WordAt_a, WordAt_x, WordAt_y, WordAt_sp, WordAt_p, WordAt_mem,
    WordAt_waiting, ha, hxx, hy, hsp, hp, hpc, hmem, hw, addrMask_succ hc]
  dsimp only [push, write, core]
  simp only [AState.mk.injEq, true_and, and_true]
  have e1 : ∀ k, k ≠ BM c.BYTE_WIDTH + s.sp → k ≠ BM c.BYTE_WIDTH + (s.sp - 1) % BM c.BYTE_WIDTH →
      (if k = BM c.BYTE_WIDTH + (s.sp - 1) % BM c.BYTE_WIDTH then (s.pc + 1) % AM c.BYTE_WIDTH % BM c.BYTE_WIDTH
       else if k = BM c.BYTE_WIDTH + s.sp then (s.pc + 1) % AM c.BYTE_WIDTH / BM c.BYTE_WIDTH % BM c.BYTE_WIDTH
       else s.mem k) = s.mem k := by
    intro k hk1 hk2; simp [hk1, hk2]
  rw [e1 _ (Ne.symm hP1) (Ne.symm hP3), e1 _ (Ne.symm hP2) (Ne.symm hP4)]
  refine ⟨?_, ?_⟩
  · rcases hc with rfl | rfl <;> (constfold at h1 h2 ⊢; omega)
  · rcases hc with rfl | rfl <;>
    · constfold at hpcr ⊢
      funext k
      have : (s.pc + 1) % 1 = 0 := by omega
      split_ifs <;> first | rfl | omega


theorem push_mem_other (W : Nat) (A : AState) (v k : Int) (hk : k ≠ BM W + A.sp) :
    (push W A v).mem k = A.mem k := by
  simp [push, write, hk]

theorem push_sp (W : Nat) (A : AState) (v : Int) : (push W A v).sp = (A.sp - 1) % BM W := rfl

/-- Common part of BRK on both variants: the state before the final flag adjustments. -/
theorem brk_core (c : Cfg) (hc : IsDev c) (s : St) (hs : WF c s) :
    let s5 := ({ (Mpu6502.stPush c (lor (lor (lor (Mpu6502.stPushWord c (land (s.pc + 1) c.addrMask) s).p c.BREAK) c.BREAK) c.UNUSED)
                  { (Mpu6502.stPushWord c (land (s.pc + 1) c.addrMask) s) with
                    p := lor (Mpu6502.stPushWord c (land (s.pc + 1) c.addrMask) s).p c.BREAK }) with
                  p := lor (lor (Mpu6502.stPushWord c (land (s.pc + 1) c.addrMask) s).p c.BREAK) c.INTERRUPT } : St)
    core s5 =
      { push c.BYTE_WIDTH (push c.BYTE_WIDTH (push c.BYTE_WIDTH (core s)
          ((s.pc + 1) % AM c.BYTE_WIDTH / BM c.BYTE_WIDTH)) ((s.pc + 1) % AM c.BYTE_WIDTH % BM c.BYTE_WIDTH))
          (normP s.p) with p := setFlag (setFlag s.p bitB true) bitI true } := by
  intro s5
  have hpcr := hs.pc
  have hpr := hs.p
  have eret : land (s.pc + 1) c.addrMask = (s.pc + 1) % AM c.BYTE_WIDTH := by
    rcases hc with rfl | rfl <;> (constfold; simp only [pyarith])
  have hpush := stPushWord_core c hc (land (s.pc + 1) c.addrMask) s
  rw [eret] at hpush
  obtain ⟨ha, hxx, hy, hsp, hp, hpc, hmem, hw⟩ := core_eq hpush
  have ep : ∀ r : Int, lor (lor (lor r c.BREAK) c.BREAK) c.UNUSED = normP r := by
    intro r; rcases hc with rfl | rfl <;> (constfold; simp only [flagalg, normP, bitB, bitU])
  have ei : ∀ r : Int, lor (lor r c.BREAK) c.INTERRUPT = setFlag (setFlag r bitB true) bitI true := by
    intro r; rcases hc with rfl | rfl <;> (constfold; simp only [flagalg])
  have hnr : 0 ≤ normP s.p ∧ normP s.p ≤ c.byteMask := by
    rcases hc with rfl | rfl
    · constfold at hpr ⊢; exact normP_range8 _ hpr
    · constfold at hpr ⊢; exact normP_range16 _ hpr
  have hhi : (s.pc + 1) % AM c.BYTE_WIDTH / BM c.BYTE_WIDTH % BM c.BYTE_WIDTH =
      (s.pc + 1) % AM c.BYTE_WIDTH / BM c.BYTE_WIDTH := by
    rcases hc with rfl | rfl <;> (constfold at hpcr ⊢; omega)
  simp only [s5, eret] at *
  rw [ep, ei]
  have h4 := stPush_core c hc (normP (Mpu6502.stPushWord c ((s.pc + 1) % AM c.BYTE_WIDTH) s).p)
    { (Mpu6502.stPushWord c ((s.pc + 1) % AM c.BYTE_WIDTH) s) with
      p := lor (Mpu6502.stPushWord c ((s.pc + 1) % AM c.BYTE_WIDTH) s).p c.BREAK }
  obtain ⟨ha4, hx4, hy4, hsp4, hp4, hpc4, hmem4, hw4⟩ := core_eq h4
  simp only [core, ha4, hx4, hy4, hsp4, hpc4, hmem4, hw4]
  dsimp only [push, write, core] at ha hxx hy hsp hp hpc hmem hw ⊢
  simp only [ha, hxx, hy, hsp, hp, hpc, hmem, hw, hhi, byte_mod hc _ hnr]


/-- After the three pushes of BRK / IRQ / NMI the vector cells still hold their old contents. -/
theorem vector_untouched (c : Cfg) (hc : IsDev c) (A : AState) (hsp : 0 ≤ A.sp ∧ A.sp ≤ c.byteMask)
    (v1 v2 v3 k : Int) (hk : 65530 ≤ k ∧ k ≤ 65535) :
    (push c.BYTE_WIDTH (push c.BYTE_WIDTH (push c.BYTE_WIDTH A v1) v2) v3).mem k = A.mem k := by
  rcases hc with rfl | rfl
  · dsimp only [push, write]
    constfold at hsp ⊢
    have h1 : k ≠ 256 + A.sp := by omega
    have h2 : k ≠ 256 + (A.sp - 1) % 256 := by omega
    have h3 : k ≠ 256 + ((A.sp - 1) % 256 - 1) % 256 := by omega
    simp [h1, h2, h3]
    intro h; exfalso; omega
  · dsimp only [push, write]
    constfold at hsp ⊢
    have h1' : k ≠ 65536 + A.sp := by omega
    have h2' : k ≠ 65536 + (A.sp - 1) % 65536 := by omega
    have h3' : k ≠ 65536 + ((A.sp - 1) % 65536 - 1) % 65536 := by omega
    simp [h1', h2', h3']
    intro h; exfalso; omega

/-- BRK on the NMOS part. -/
theorem h_00 (c : Cfg) (hc : IsDev c) : HandlerOK c .nmos (Mpu6502.inst_0x00 c) .BRK .imp := by
  intro s hs
  have hb := brk_core c hc s hs
  obtain ⟨ha, hxx, hy, hsp, hp, hpc, hmem, hw⟩ := core_eq hb
  dsimp only at ha hxx hy hsp hp hpc hmem hw
  have hirq : c.IRQ = 65534 := by rcases hc with rfl | rfl <;> rfl
  have hv1 := hs.mem 65534
  have hv2 := hs.mem 65535
  simp only [Mpu6502.inst_0x00]
  dsimp only [exec, absH, abs, core, word, irqVector]
  simp only [WordAt_val c hc, WordAt_a, WordAt_x, WordAt_y, WordAt_sp, WordAt_p, WordAt_mem,
    WordAt_waiting, ha, hxx, hy, hsp, hp, hpc, hmem, hw, hirq, addrMask_succ hc]
  have e1 : ((65534 : Int) + 1) % AM c.BYTE_WIDTH = 65535 := by
    rcases hc with rfl | rfl <;> (constfold; omega)
  rw [e1, vector_untouched c hc (core s) hs.sp _ _ _ 65534 (by omega),
    vector_untouched c hc (core s) hs.sp _ _ _ 65535 (by omega)]
  have e2 : (s.mem 65534 + s.mem 65535 * BM c.BYTE_WIDTH) % AM c.BYTE_WIDTH =
      s.mem 65534 + s.mem 65535 * BM c.BYTE_WIDTH := by
    rcases hc with rfl | rfl <;> (constfold at hv1 hv2 ⊢; omega)
  have e3 : normP (setFlag (setFlag s.p bitB true) bitI true) = setFlag (normP s.p) bitI true := by
    simp only [normP, bitB, bitU, bitI, flagalg]
  dsimp only [core] at e2 ⊢
  simp only [e2, e3]
  have hpcr := hs.pc
  have hhi : (s.pc + 1) % AM c.BYTE_WIDTH / BM c.BYTE_WIDTH % BM c.BYTE_WIDTH =
      (s.pc + 1) % AM c.BYTE_WIDTH / BM c.BYTE_WIDTH := by
    rcases hc with rfl | rfl <;> (constfold at hpcr ⊢; omega)
  dsimp only [push, write]
  simp only [stPush_p, stPushWord_p, AState.mk.injEq, true_and, and_true]
  have ei : ∀ r : Int, lor (lor r c.BREAK) c.INTERRUPT = setFlag (setFlag r bitB true) bitI true := by
    intro r; rcases hc with rfl | rfl <;> (constfold; simp only [flagalg])
  rw [ei, e3]
  exact ⟨rfl, rfl⟩

end Py65.Proofs
