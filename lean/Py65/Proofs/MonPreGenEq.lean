/-
Tie by regeneration, C20: the GENERATED `_shortcuts` table and `_preprocess_line`
(`Py65/Gen/MonPreGen.lean`, translated from py65/monitor.py by `harness/py2lean_mon.py` on every
run) equal the hand-written model `Py65.Model.MonCmd.shortcuts / preprocessL`, for ALL lines.

These equalities are the proof obligations a change of `Monitor._add_shortcuts` /
`Monitor._preprocess_line` breaks; `Py65/Props/C20g.lean` rewrites the property theorems with them.
-/
import Py65.Gen.MonPreGen
import Py65.Proofs.MonCmdLemmas

namespace Py65.Proofs.MonPreGenEq
open Py65 Py65.Model Py65.Model.PyStr Py65.Model.MonCmd Py65.Model.MonGenRt Py65.Gen Py65.Proofs.MonCmd

/-- The generated shortcut table is the model's table: same entries, same (dict) order. -/
theorem shortcuts_eq : MonPreGen._shortcuts = MonCmd.shortcuts := by decide

/-! ### helpers: Python slices at a known non-negative bound -/

theorem pySliceTo_prefix (pre rest : Str) : pySliceTo (pre ++ rest) (pre.length : Int) = pre := by
  have h : pySliceBound (pre ++ rest).length (pre.length : Int) = pre.length := by
    simp only [pySliceBound, pyNormIndex, List.length_append]
    have h1 : ¬ ((pre.length : Int) < 0) := by omega
    have h2 : ¬ ((pre.length : Int) > ((pre.length + rest.length : Nat) : Int)) := by push_cast; omega
    simp only [h1, h2, if_false, Int.toNat_natCast]
  simp only [pySliceTo, h, List.take_left']

theorem pySliceFrom_prefix (pre rest : Str) : pySliceFrom (pre ++ rest) (pre.length : Int) = rest := by
  have h : pySliceBound (pre ++ rest).length (pre.length : Int) = pre.length := by
    simp only [pySliceBound, pyNormIndex, List.length_append]
    have h1 : ¬ ((pre.length : Int) < 0) := by omega
    have h2 : ¬ ((pre.length : Int) > ((pre.length + rest.length : Nat) : Int)) := by push_cast; omega
    simp only [h1, h2, if_false, Int.toNat_natCast]
  simp only [pySliceFrom, h, List.drop_left']

/-! ### the comment loop -/

/-- The generated `for pos, char in enumerate(line)` loop, started at position `|pre|` of the line
`pre ++ cs` with the characters `cs` still to come, leaves `pre` followed by what the model's
`stripComment` keeps of `cs`. -/
theorem for1_eq : ∀ (cs pre : Str) (quoted : Bool),
    (MonPreGen._preprocess_line_for1 (pre.length : Int) cs quoted (pre ++ cs)).2 =
      pre ++ stripComment quoted cs := by
  intro cs
  induction cs with
  | nil => intro pre quoted; simp [MonPreGen._preprocess_line_for1, stripComment]
  | cons c cs ih =>
    intro pre quoted
    have hq : (if c = '"' ∨ c = '\'' then !quoted else quoted) = (if isQuote c = true then !quoted else quoted) := by
      simp [isQuote]
    unfold MonPreGen._preprocess_line_for1
    simp only [stripComment]
    rw [hq]
    generalize (if isQuote c = true then !quoted else quoted) = q
    by_cases hc : (!q) = true ∧ c = ';'
    · obtain ⟨h1, h2⟩ := hc
      simp [h1, h2, pySliceTo_prefix]
    · have hc' : ¬ ((!q && decide (c = ';')) = true) := by
        simpa [Bool.and_eq_true] using hc
      simp only [hc, if_false, hc']
      have e : pre ++ c :: cs = (pre ++ [c]) ++ cs := by simp
      have el : ((pre.length : Int) + 1) = ((pre ++ [c]).length : Int) := by simp
      rw [e, el, ih (pre ++ [c]) q]
      simp

/-! ### the shortcut loop -/

/-- One round: the generated `line == shortcut` / `re.match` / `line[end:]` code is the model's
`applyShortcut`. -/
theorem for2_eq : ∀ (l : List (Str × Str)) (line : Str),
    MonPreGen._preprocess_line_for2 l line = shortcutLoop l line := by
  intro l
  induction l with
  | nil => intro line; rfl
  | cons p rest ih =>
    intro line
    obtain ⟨sc, cmd⟩ := p
    unfold MonPreGen._preprocess_line_for2 shortcutLoop applyShortcut
    by_cases h : line = sc
    · simp only [h, if_true]
    · simp only [h, if_false, reMatchLitSpaces]
      cases hd : dropPrefix? line sc with
      | none => simp only [ih]
      | some r =>
        have hl : line = sc ++ r := dropPrefix?_eq_some.mp hd
        by_cases hw : r.takeWhile isReSpace = []
        · simp only [hw, if_true, ih]
        · simp only [hw, if_false]
          have e1 : sc ++ r = (sc ++ r.takeWhile isReSpace) ++ r.dropWhile isReSpace := by
            rw [List.append_assoc, List.takeWhile_append_dropWhile]
          have e2 : ((sc.length + (r.takeWhile isReSpace).length : Nat) : Int) =
              ((sc ++ r.takeWhile isReSpace).length : Int) := by simp
          rw [hl]
          conv => lhs; rw [e1]
          simp only [e2, pySliceFrom_prefix]
          simp

/-! ### the straight-line part -/

theorem blank_pred : (fun c => " \t".toList.contains c) = isBlank := by
  funext c
  simp [isBlank, Bool.or_comm]

theorem stripBlank_eq (s : Str) : pyStripChars " \t".toList s = stripBlank s := by
  simp only [pyStripChars, pyRstripChars, pyLstripChars, stripBlank, rstripP, lstripP, blank_pred]

theorem lstripDot_eq (s : Str) : pyLstripChars ".".toList s = lstripP (· = '.') s := by
  simp only [pyLstripChars, lstripP]
  congr 1
  funext c
  simp

theorem tilde_eq (line : Str) :
    (if startsWith line "~".toList = true then ("tilde".toList ++ " ".toList) ++ pySliceFrom line 1 else line) =
      tildeCase line := by
  have ht : "~".toList = ['~'] := rfl
  rw [ht]
  cases line with
  | nil => simp [startsWith, tildeCase]
  | cons c rest =>
    have hs : pySliceFrom (c :: rest) 1 = rest := pySliceFrom_prefix [c] rest
    have hsw : startsWith (c :: rest) ['~'] = (c == '~') := by simp [startsWith]
    rw [hsw, hs]
    by_cases h : c = '~'
    · subst h; simp [tildeCase, tilde]
    · simp [tildeCase, h]

/-- `GenEq` for `_preprocess_line`: the generated function IS the model's `preprocessL`, for
every line (no hypothesis). -/
theorem preprocess_eq : MonPreGen._preprocess_line = preprocessL := by
  funext line
  unfold MonPreGen._preprocess_line preprocessL cleaned
  have h1 := for1_eq line [] false
  simp only [List.length_nil, Nat.cast_zero, List.nil_append] at h1
  simp only [h1, stripBlank_eq, lstripDot_eq, tilde_eq, for2_eq, shortcuts_eq]

end Py65.Proofs.MonPreGenEq
