import Py65.Proofs.CycModes
set_option linter.unusedSimpArgs false
namespace Py65.Proofs
open Py65 Py65.Gen Py65.Spec Py

/-- what an operation helper must leave alone for the cycle aspect -/
def KeepsCyc (f : St → St) (x : St → Int × St) : Prop :=
  ∀ s, (f s).cycles = (x s).2.cycles ∧ (f s).excycles = (x s).2.excycles

set_option hygiene false in
macro "op_cyc" "[" ls:Lean.Parser.Tactic.simpLemma,* "]" : tactic =>
  `(tactic| (
    intro s
    dsimp +instances only [$ls,*, Mpu6502.FlagsNZ, Mpu6502.ByteAt, Mpu6502.WordAt, Mpu6502.WrapAt,
      Mpu6502.stPush, Mpu6502.stPushWord, Mpu6502.stPop, Mpu6502.stPopWord, Mpu6502.opSET, Mpu6502.opCLR,
      memGet, memSet]
    try simp +instances only [apply_ite Prod.snd, apply_ite Prod.fst, apply_ite St.cycles, apply_ite St.excycles,
      ite_self, and_self]))

variable (c : Cfg) (x : St → Int × St)

theorem opORA_cyc : KeepsCyc (Mpu6502.opORA c x) x := by op_cyc [Mpu6502.opORA]
theorem opAND_cyc : KeepsCyc (Mpu6502.opAND c x) x := by op_cyc [Mpu6502.opAND]
theorem opEOR_cyc : KeepsCyc (Mpu6502.opEOR c x) x := by op_cyc [Mpu6502.opEOR]
theorem opADC_cyc : KeepsCyc (Mpu6502.opADC c x) x := by op_cyc [Mpu6502.opADC]
theorem opSBC_cyc : KeepsCyc (Mpu6502.opSBC c x) x := by op_cyc [Mpu6502.opSBC]
theorem opLDA_cyc : KeepsCyc (Mpu6502.opLDA c x) x := by op_cyc [Mpu6502.opLDA]
theorem opLDX_cyc : KeepsCyc (Mpu6502.opLDX c x) x := by op_cyc [Mpu6502.opLDX]
theorem opLDY_cyc : KeepsCyc (Mpu6502.opLDY c x) x := by op_cyc [Mpu6502.opLDY]
theorem opBIT_cyc : KeepsCyc (Mpu6502.opBIT c x) x := by op_cyc [Mpu6502.opBIT]
theorem opSTA_cyc : KeepsCyc (Mpu6502.opSTA c x) x := by op_cyc [Mpu6502.opSTA]
theorem opSTX_cyc : KeepsCyc (Mpu6502.opSTX c x) x := by op_cyc [Mpu6502.opSTX]
theorem opSTY_cyc : KeepsCyc (Mpu6502.opSTY c x) x := by op_cyc [Mpu6502.opSTY]
theorem opSTZ_cyc : KeepsCyc (Mpu65c02.opSTZ c x) x := by op_cyc [Mpu65c02.opSTZ]
theorem opASL_mem_cyc : KeepsCyc (Mpu6502.opASL_mem c x) x := by op_cyc [Mpu6502.opASL_mem]
theorem opLSR_mem_cyc : KeepsCyc (Mpu6502.opLSR_mem c x) x := by op_cyc [Mpu6502.opLSR_mem]
theorem opROL_mem_cyc : KeepsCyc (Mpu6502.opROL_mem c x) x := by op_cyc [Mpu6502.opROL_mem]
theorem opROR_mem_cyc : KeepsCyc (Mpu6502.opROR_mem c x) x := by op_cyc [Mpu6502.opROR_mem]
theorem opINCR_mem_cyc : KeepsCyc (Mpu6502.opINCR_mem c x) x := by op_cyc [Mpu6502.opINCR_mem]
theorem opDECR_mem_cyc : KeepsCyc (Mpu6502.opDECR_mem c x) x := by op_cyc [Mpu6502.opDECR_mem]
theorem opTSB_cyc : KeepsCyc (Mpu65c02.opTSB c x) x := by op_cyc [Mpu65c02.opTSB]
theorem opTRB_cyc : KeepsCyc (Mpu65c02.opTRB c x) x := by op_cyc [Mpu65c02.opTRB]
theorem opCMPR_cyc (r : St → Int) : KeepsCyc (fun s => Mpu6502.opCMPR c x (r s) s) x := by op_cyc [Mpu6502.opCMPR]
theorem opRMB_cyc (m : Int) : KeepsCyc (Mpu65c02.opRMB c x m) x := by op_cyc [Mpu65c02.opRMB]
theorem opSMB_cyc (m : Int) : KeepsCyc (Mpu65c02.opSMB c x m) x := by op_cyc [Mpu65c02.opSMB]
theorem opASL_acc_cyc : KeepsCyc (Mpu6502.opASL_acc c) (fun s => (0, s)) := by op_cyc [Mpu6502.opASL_acc]
theorem opLSR_acc_cyc : KeepsCyc (Mpu6502.opLSR_acc c) (fun s => (0, s)) := by op_cyc [Mpu6502.opLSR_acc]
theorem opROL_acc_cyc : KeepsCyc (Mpu6502.opROL_acc c) (fun s => (0, s)) := by op_cyc [Mpu6502.opROL_acc]
theorem opROR_acc_cyc : KeepsCyc (Mpu6502.opROR_acc c) (fun s => (0, s)) := by op_cyc [Mpu6502.opROR_acc]
theorem opINCR_acc_cyc : KeepsCyc (Mpu6502.opINCR_acc c) (fun s => (0, s)) := by op_cyc [Mpu6502.opINCR_acc]
theorem opDECR_acc_cyc : KeepsCyc (Mpu6502.opDECR_acc c) (fun s => (0, s)) := by op_cyc [Mpu6502.opDECR_acc]

/-- varCycles of a non-branch instruction is the indexed-read term alone -/
theorem varCycles_nobranch (W : Nat) (mn : Mn) (mo : Mode) (add : Prop) [Decidable add] (s : AState)
    (h : isBranch mn = false) :
    varCycles W mn mo add s = (if add ∧ readCrosses W mo s = true then 1 else 0) := by
  simp [varCycles, h]

/-- load / store / read-modify-write families: the handler's extra cycles are its mode helper's -/
theorem data_cyc (c : Cfg) (f : St → St) (x : St → Int × St) (mn : Mn) (mo : Mode) (k : Int)
    (hb : isBranch mn = false) (hx : ModeCyc c x mo) (hop : KeepsCyc f x) :
    HandlerCyc c (fun s => bump k (f s)) mn mo := by
  intro s hs
  have e1 : (bump k (f s)).cycles = (f s).cycles := rfl
  have e2 : (bump k (f s)).excycles = (f s).excycles := rfl
  rw [e1, e2, (hop s).1, (hop s).2, (hx s hs).1, (hx s hs).2, varCycles_nobranch _ _ _ _ _ hb]
  exact ⟨rfl, rfl⟩

/-- instructions without an addressing-mode helper and without a branch -/
theorem plain_cyc (c : Cfg) (h : St → St) (mn : Mn) (mo : Mode)
    (hb : isBranch mn = false) (hm : ∀ a, readCrosses c.BYTE_WIDTH mo a = false)
    (hk : KeepsCyc h (fun s => (0, s))) : HandlerCyc c h mn mo := by
  intro s _
  rw [(hk s).1, (hk s).2, varCycles_nobranch _ _ _ _ _ hb]
  simp [hm]

end Py65.Proofs
