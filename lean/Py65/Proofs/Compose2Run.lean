/-
`step^[n]` of a generated device (what `Monitor._run` computes, C17 `run_is_iterate`) against the history
theorems C13h (`cycles_history`, `cycles_history_65c02_exact`) and C05h (`closed_history`): helper lemmas
for `Props/C17h.lean`.  `Hist.run d (List.replicate n Op.step)` is `d.step^[n]` (`iter_eq_run`); the
per-call hypotheses of the history theorems (`CycOK`, `OpOK`) become hypotheses about the first `n` states
of the iteration.
-/
import Py65.Props.C13h
import Py65.Props.C05h
import Py65.Proofs.Compose2Step

namespace Py65.Proofs.Compose2
open Py65 Py65.Gen Py65.Spec Py65.Proofs Py65.Proofs.Hist
open Py65.Props.C13h (docCycles opCycles CycOK braCount)

/-- A property of every `step()` call of the history of `n` steps = of the first `n` states of the iteration. -/
theorem along_steps (d : Dev) (Q : Op → St → Prop) (n : Nat) (s : St) :
    Along d Q (steps n) s ↔ ∀ m, m < n → Q .step (d.step^[m] s) := by
  induction n generalizing s with
  | zero => simp [steps, Along]
  | succ n ih =>
    rw [steps_succ]
    simp only [Along, ih]
    constructor
    · rintro ⟨h0, h⟩ m hm
      cases m with
      | zero => exact h0
      | succ m => exact h m (by omega)
    · intro h
      exact ⟨h 0 (by omega), fun m hm => h (m + 1) (by omega)⟩

/-- 65Org16: the opcode cells the first `n` steps execute hold bytes 0..255 (above 255 the real `step()`
raises IndexError, DESIGN 0.5: outside the quantifiers of C05 / C13).  Nothing for the 6502 / 65C02. -/
def CellsOK (d : Dev) (n : Nat) (s : St) : Prop :=
  d = .org16 → ∀ m, m < n → (d.step^[m] s).mem (d.step^[m] s).pc < 256

/-- 65C02: none of the first `n` steps executes BRA `$80` (C13b's exclusion; the exact form needs no such
hypothesis).  Nothing for the 6502 / 65Org16. -/
def NoBra (d : Dev) (n : Nat) (s : St) : Prop :=
  d = .cmos → ∀ m, m < n → (d.step^[m] s).waiting = false → (d.step^[m] s).mem (d.step^[m] s).pc ≠ 0x80

theorem opOK_steps (d : Dev) (n : Nat) (s : St) (h : CellsOK d n s) : Along d (OpOK d) (steps n) s :=
  (along_steps d _ n s).2 fun m hm hd => h hd m hm

theorem cycOK_steps (d : Dev) (n : Nat) (s : St) (h1 : CellsOK d n s) (h2 : NoBra d n s) :
    Along d (CycOK d) (steps n) s :=
  (along_steps d _ n s).2 fun m hm => ⟨fun hd hw => h2 hd m hm hw, fun hd => h1 hd m hm⟩

theorem CellsOK.mono {d : Dev} {n m : Nat} {s : St} (h : CellsOK d n s) (hm : m ≤ n) : CellsOK d m s :=
  fun hd k hk => h hd k (by omega)

theorem NoBra.mono {d : Dev} {n m : Nat} {s : St} (h : NoBra d n s) (hm : m ≤ n) : NoBra d m s :=
  fun hd k hk => h hd k (by omega)

/-- C05h over an iteration: every state of the first `n` steps, and the state after them, is well-formed. -/
theorem iter_inv (d : Dev) (n : Nat) (s : St) (hi : Inv d s) (h : CellsOK d n s) :
    ∀ m, m ≤ n → Inv d (d.step^[m] s) := by
  intro m hm
  rw [iter_eq_run]
  exact (Py65.Props.C05h.closed_history d (steps m) s hi (opOK_steps d m s (h.mono hm))).2

/-- C13h over an iteration. -/
theorem iter_cycles (d : Dev) (n : Nat) (s : St) (hi : Inv d s) (h1 : CellsOK d n s) (h2 : NoBra d n s) :
    (d.step^[n] s).cycles = s.cycles + docCycles d (steps n) s := by
  rw [iter_eq_run]
  exact Py65.Props.C13h.cycles_history d (steps n) s hi (steps_noReset n) (cycOK_steps d n s h1 h2)

/-- ... and the counter never decreases on the way: start ≤ after `m` steps ≤ after `n` steps. -/
theorem iter_cycles_mono (d : Dev) (n : Nat) (s : St) (hi : Inv d s) (h1 : CellsOK d n s) (h2 : NoBra d n s)
    (m : Nat) (hm : m ≤ n) :
    s.cycles ≤ (d.step^[m] s).cycles ∧ (d.step^[m] s).cycles ≤ (d.step^[n] s).cycles := by
  have e : steps n = steps m ++ steps (n - m) := by
    simp only [steps, List.replicate_append_replicate]; congr 1; omega
  have := Py65.Props.C13h.cycles_monotone_prefix d (steps m) (steps (n - m)) s hi
    (by rw [← e]; exact steps_noReset n) (by rw [← e]; exact cycOK_steps d n s h1 h2)
  rw [← e, ← iter_eq_run, ← iter_eq_run] at this
  exact this

/-- 65C02, every iteration (BRA included): documented sum minus one per executed BRA. -/
theorem iter_cycles_65c02 (n : Nat) (s : St) (hs : WF dev65c02.cfg s) :
    ((Dev.step .cmos)^[n] s).cycles = s.cycles + docCycles .cmos (steps n) s - braCount (steps n) s := by
  rw [iter_eq_run]
  exact Py65.Props.C13h.cycles_history_65c02_exact (steps n) s hs (steps_noReset n)

theorem iter_cycles_mono_65c02 (n : Nat) (s : St) (hs : WF dev65c02.cfg s) (m : Nat) (hm : m ≤ n) :
    s.cycles ≤ ((Dev.step .cmos)^[m] s).cycles ∧ ((Dev.step .cmos)^[m] s).cycles ≤ ((Dev.step .cmos)^[n] s).cycles := by
  have hi : Inv .cmos s := ⟨hs, fun h => absurd rfl h⟩
  have him := iter_inv .cmos m s hi (fun h => by cases h) m (Nat.le_refl _)
  refine ⟨?_, ?_⟩
  · rw [iter_eq_run]
    exact Py65.Props.C13h.cycles_monotone_history_65c02 (steps m) s hs (steps_noReset m)
  · have e : (Dev.step .cmos)^[n] s = (Dev.step .cmos)^[n - m] ((Dev.step .cmos)^[m] s) := by
      rw [← Function.iterate_add_apply]; congr 1; omega
    rw [e, iter_eq_run .cmos (n - m)]
    exact Py65.Props.C13h.cycles_monotone_history_65c02 (steps (n - m)) _ him.1 (steps_noReset _)

end Py65.Proofs.Compose2
