/-
The access log along histories: every call (`step()` at any opcode byte, `irq()`, `nmi()`, `reset()`) of
every generated device appends only fine events (`LogOK`: address inside the address space, written
value inside the byte), hence so does every history.
-/
import Py65.Proofs.HistLogSteps
import Py65.Proofs.HistStep

namespace Py65.Proofs.Hist
open Py65 Py65.Gen Py65.Spec Py65.Proofs

theorem WF_clear_waiting {c : Cfg} {s : St} (hs : WF c s) : WF c { s with waiting := false } :=
  ⟨hs.a, hs.x, hs.y, hs.sp, hs.p, hs.pc, hs.mem⟩

/-- One call keeps the log fine. -/
theorem apply_log (d : Dev) (o : Op) (s : St) (hi : Inv d s) (hl : LogOK d.W s.log) :
    LogOK d.W (apply d o s).log := by
  obtain ⟨hs, hw⟩ := hi
  cases d with
  | nmos =>
    cases o with
    | step => exact step_log_dev6502 s hs hl
    | irq => exact irq_log _ (Or.inl rfl) s hs hl
    | nmi => exact nmi_log _ (Or.inl rfl) s hs hl
    | reset a =>
      cases a with
      | none => exact reset_vec_log _ (Or.inl rfl) s hs hl
      | some a => exact hl
  | org16 =>
    cases o with
    | step =>
      have e : dev65org16.step s = Mpu6502.step dev65org16.cfg dev65org16.tbl s := by
        simp only [dev65org16.step, Mpu65org16.step, hw (by decide)]; rfl
      show LogOK 16 (dev65org16.step s).log
      rw [e]
      exact step_log_dev65org16 s hs hl
    | irq => exact irq_log _ (Or.inr rfl) s hs hl
    | nmi => exact nmi_log _ (Or.inr rfl) s hs hl
    | reset a =>
      cases a with
      | none => exact reset_vec_log _ (Or.inr rfl) s hs hl
      | some a => exact hl
  | cmos =>
    cases o with
    | step =>
      cases hw' : s.waiting with
      | true =>
        have e : dev65c02.step s = { s with cycles := s.cycles + 1 } :=
          Py65.Proofs.wai_halts dev65c02.cfg dev65c02.tbl s hw'
        show LogOK 8 (dev65c02.step s).log
        rw [e]
        exact hl
      | false =>
        show LogOK 8 (dev65c02.step s).log
        rw [Py65.Props.C02.step_not_waiting s hw']
        exact step_log_dev65c02 s hs hl
    | irq => exact irq_log dev65c02.cfg (Or.inl rfl) { s with waiting := false } (WF_clear_waiting hs) hl
    | nmi => exact nmi_log dev65c02.cfg (Or.inl rfl) { s with waiting := false } (WF_clear_waiting hs) hl
    | reset a =>
      cases a with
      | none => exact reset_vec_log dev65c02.cfg (Or.inl rfl) s hs hl
      | some a => exact hl

/-- A history keeps the log fine. -/
theorem run_log (d : Dev) (ops : List Op) (s : St) (hi : Inv d s) (hok : Along d (OpOK d) ops s)
    (hl : LogOK d.W s.log) : LogOK d.W (run d ops s).log := by
  induction ops generalizing s with
  | nil => exact hl
  | cons o ops ih =>
    exact ih _ (apply_inv d o s hi hok.1) hok.2 (apply_log d o s hi hl)

end Py65.Proofs.Hist
