/-
Characterising theorems for `Py.land / lor / lxor / lnot` (so that the definitions in
`Py65/PyInt.lean` are not trusted: they are shown to be bit-wise AND/OR/XOR/NOT on the
infinite two's-complement representation) and the rewriting lemmas that turn the masked
expressions of the device code into linear arithmetic with `/` and `%` by literals.
-/
import Py65.PyInt
import Py65.Proofs.NatBits

namespace Py
open Py65.NatBits

/-- Bit `i` of the two's-complement representation, by sign case. -/
def tb : Int → Nat → Bool
  | .ofNat n, i => n.testBit i
  | .negSucc n, i => !n.testBit i

theorem natDiff_eq (m n : Nat) : natDiff m n = m - (m &&& n) := by
  apply Nat.eq_of_testBit_eq; intro i
  rw [testBit_sub_and]; unfold natDiff; rw [Nat.testBit_bitwise (by rfl)]

theorem testBit_natDiff (m n i : Nat) : (natDiff m n).testBit i = (m.testBit i && !n.testBit i) := by
  rw [natDiff_eq, testBit_sub_and]

/-! ### the definitions are the bit-wise operations -/

theorem tb_land (x y : Int) (i : Nat) : tb (land x y) i = (tb x i && tb y i) := by
  rcases x with m | m <;> rcases y with n | n <;>
    simp [land, tb, testBit_natDiff, Bool.and_comm]

theorem tb_lor (x y : Int) (i : Nat) : tb (lor x y) i = (tb x i || tb y i) := by
  rcases x with m | m <;> rcases y with n | n <;>
    simp [lor, tb, testBit_natDiff, Bool.or_comm]

theorem tb_lxor (x y : Int) (i : Nat) : tb (lxor x y) i = (tb x i ^^ tb y i) := by
  rcases x with m | m <;> rcases y with n | n <;> simp [lxor, tb]

theorem lnot_ofNat (n : Nat) : lnot (Int.ofNat n) = Int.negSucc n := by
  unfold lnot; simp [Int.negSucc_eq]; omega

theorem lnot_negSucc (n : Nat) : lnot (Int.negSucc n) = Int.ofNat n := by
  unfold lnot; simp [Int.negSucc_eq]

theorem tb_lnot (x : Int) (i : Nat) : tb (lnot x) i = !tb x i := by
  rcases x with m | m
  · rw [lnot_ofNat]; simp [tb]
  · rw [lnot_negSucc]; simp [tb]

/-- `tb` is the arithmetic bit `x / 2^i % 2`, also for negative `x`. -/
theorem tb_eq (x : Int) (i : Nat) : tb x i = decide (x / 2 ^ i % 2 = 1) := by
  rcases x with m | m
  · simp only [tb, Int.ofNat_eq_natCast, Nat.testBit_eq_decide_div_mod_eq]
    congr 1
    norm_cast
  · simp only [tb, Nat.testBit_eq_decide_div_mod_eq]
    have hp : (0 : Int) < 2 ^ i := Int.pow_pos (by decide)
    have h : (Int.negSucc m) / 2 ^ i = -(((m / 2 ^ i : Nat) : Int) + 1) := by
      rw [Int.negSucc_ediv m hp]; norm_cast
    rw [h]
    rcases Nat.mod_two_eq_zero_or_one (m / 2 ^ i) with h2 | h2
    · have h3 : (((m / 2 ^ i : Nat) : Int)) % 2 = 0 := by exact_mod_cast h2
      generalize ((m / 2 ^ i : Nat) : Int) = q at h3
      simp only [h2]
      simp; omega
    · have h3 : (((m / 2 ^ i : Nat) : Int)) % 2 = 1 := by exact_mod_cast h2
      generalize ((m / 2 ^ i : Nat) : Int) = q at h3
      simp only [h2]
      simp; omega

theorem bit_eq_tb (x : Int) (i : Nat) : bit x i = tb x i := by
  unfold bit; rw [tb_eq]

theorem bit_land (x y : Int) (i : Nat) : bit (land x y) i = (bit x i && bit y i) := by
  simp only [bit_eq_tb, tb_land]
theorem bit_lor (x y : Int) (i : Nat) : bit (lor x y) i = (bit x i || bit y i) := by
  simp only [bit_eq_tb, tb_lor]
theorem bit_lxor (x y : Int) (i : Nat) : bit (lxor x y) i = (bit x i ^^ bit y i) := by
  simp only [bit_eq_tb, tb_lxor]
theorem bit_lnot (x : Int) (i : Nat) : bit (lnot x) i = !bit x i := by
  simp only [bit_eq_tb, tb_lnot]

end Py

namespace Py
open Py65.NatBits

/-! ### arithmetic forms -/

private theorem negSucc_div_pow (m k : Nat) :
    (Int.negSucc m) / 2 ^ k = -(((m / 2 ^ k : Nat) : Int) + 1) := by
  have hp : (0 : Int) < 2 ^ k := Int.pow_pos (by decide)
  rw [Int.negSucc_ediv m hp]; norm_cast

private theorem negSucc_mod_pow (m k : Nat) :
    (Int.negSucc m) % 2 ^ k = 2 ^ k - 1 - ((m % 2 ^ k : Nat) : Int) := by
  have hp : (0 : Int) < 2 ^ k := Int.pow_pos (by decide)
  rw [Int.negSucc_emod m hp]; norm_cast

/-- `x & 2^k` isolates bit `k` (any sign of `x`). -/
theorem land_two_pow (x : Int) (k : Nat) : land x (2 ^ k) = x / 2 ^ k % 2 * 2 ^ k := by
  have h2 : ((2 : Int) ^ k) = Int.ofNat (2 ^ k) := by norm_cast
  rcases x with m | m
  · rw [h2]; simp only [land, Int.ofNat_eq_natCast]
    rw [and_two_pow']; push_cast; rfl
  · rw [h2]; simp only [land, natDiff_eq]
    rw [Nat.and_comm, and_two_pow']
    rw [← h2, negSucc_div_pow]
    have hb : m / 2 ^ k % 2 = 0 ∨ m / 2 ^ k % 2 = 1 := Nat.mod_two_eq_zero_or_one _
    have hc : (((m / 2 ^ k : Nat) : Int)) % 2 = ((m / 2 ^ k % 2 : Nat) : Int) := by norm_cast
    generalize hq : ((m / 2 ^ k : Nat) : Int) = q at hc ⊢
    rcases hb with hb | hb <;> rw [hb] at hc ⊢
    · have : (-(q + 1)) % 2 = 1 := by omega
      rw [this]; simp
    · have : (-(q + 1)) % 2 = 0 := by omega
      rw [this]; simp

/-- `x & (2^k - 1)` is `x mod 2^k` (any sign of `x`). -/
theorem land_mask (x : Int) (k : Nat) : land x (2 ^ k - 1) = x % 2 ^ k := by
  have hc : ((2 ^ k - 1 : Nat) : Int) = (2 : Int) ^ k - 1 := by
    rw [Int.natCast_sub Nat.one_le_two_pow]; norm_cast
  have h2 : ((2 : Int) ^ k - 1) = Int.ofNat (2 ^ k - 1) := by
    simp only [Int.ofNat_eq_natCast]; exact hc.symm
  rcases x with m | m
  · rw [h2]; simp only [land, Int.ofNat_eq_natCast]
    rw [Nat.and_two_pow_sub_one_eq_mod]; norm_cast
  · rw [h2]; simp only [land, natDiff_eq]
    rw [Nat.and_comm, Nat.and_two_pow_sub_one_eq_mod, negSucc_mod_pow]
    have hlt : m % 2 ^ k < 2 ^ k := Nat.mod_lt _ (Nat.two_pow_pos k)
    simp only [Int.ofNat_eq_natCast]
    rw [← hc]
    have hle : m % 2 ^ k ≤ 2 ^ k - 1 := by omega
    generalize 2 ^ k - 1 = M at hle ⊢
    generalize m % 2 ^ k = r at hle ⊢
    omega

end Py

namespace Py
open Py65.NatBits

theorem land_comm (x y : Int) : land x y = land y x := by
  rcases x with m | m <;> rcases y with n | n <;> simp [land, Nat.and_comm, Nat.or_comm]

/-- arithmetic bit as 0/1 -/
theorem bitv_eq (x : Int) (k : Nat) : x / 2 ^ k % 2 = if tb x k then 1 else 0 := by
  rw [tb_eq]
  have : x / 2 ^ k % 2 = 0 ∨ x / 2 ^ k % 2 = 1 := by omega
  rcases this with h | h <;> simp [h]

theorem bitv_land (x y : Int) (k : Nat) :
    land x y / 2 ^ k % 2 = min (x / 2 ^ k % 2) (y / 2 ^ k % 2) := by
  simp only [bitv_eq, tb_land]; cases tb x k <;> cases tb y k <;> simp <;> omega
theorem bitv_lor (x y : Int) (k : Nat) :
    lor x y / 2 ^ k % 2 = max (x / 2 ^ k % 2) (y / 2 ^ k % 2) := by
  simp only [bitv_eq, tb_lor]; cases tb x k <;> cases tb y k <;> simp <;> omega
theorem bitv_lxor (x y : Int) (k : Nat) :
    lxor x y / 2 ^ k % 2 = (x / 2 ^ k % 2 + y / 2 ^ k % 2) % 2 := by
  simp only [bitv_eq, tb_lxor]; cases tb x k <;> cases tb y k <;> simp
theorem bitv_lnot (x : Int) (k : Nat) : lnot x / 2 ^ k % 2 = 1 - x / 2 ^ k % 2 := by
  simp only [bitv_eq, tb_lnot]; cases tb x k <;> simp

/-- `x & M + ~x & M = M` for a non-negative mask. -/
theorem land_lnot_compl (x M : Int) (hM : 0 ≤ M) : land x M + land (lnot x) M = M := by
  obtain ⟨n, rfl⟩ := Int.eq_ofNat_of_zero_le hM
  rcases x with m | m
  · rw [lnot_ofNat]
    show land (Int.ofNat m) (Int.ofNat n) + land (Int.negSucc m) (Int.ofNat n) = _
    simp only [land, natDiff_eq, Int.ofNat_eq_natCast]
    have : n &&& m ≤ n := Nat.and_le_left
    rw [Nat.and_comm m n]; omega
  · rw [lnot_negSucc]
    show land (Int.negSucc m) (Int.ofNat n) + land (Int.ofNat m) (Int.ofNat n) = _
    simp only [land, natDiff_eq, Int.ofNat_eq_natCast]
    have : n &&& m ≤ n := Nat.and_le_left
    rw [Nat.and_comm m n]; omega

/-- `x & ~m = x - (x & m)` for non-negative `x`, `m` (flag clearing). -/
theorem land_lnot_right (x m : Int) (hx : 0 ≤ x) (hm : 0 ≤ m) : land x (lnot m) = x - land x m := by
  obtain ⟨a, rfl⟩ := Int.eq_ofNat_of_zero_le hx
  obtain ⟨b, rfl⟩ := Int.eq_ofNat_of_zero_le hm
  show land (Int.ofNat a) (lnot (Int.ofNat b)) = _
  rw [lnot_ofNat]
  show _ = Int.ofNat a - land (Int.ofNat a) (Int.ofNat b)
  simp only [land, natDiff_eq, Int.ofNat_eq_natCast]
  have : a &&& b ≤ a := Nat.and_le_left
  omega

theorem lor_eq_add (x y : Int) (hx : 0 ≤ x) (hy : 0 ≤ y) : lor x y = x + y - land x y := by
  obtain ⟨a, rfl⟩ := Int.eq_ofNat_of_zero_le hx
  obtain ⟨b, rfl⟩ := Int.eq_ofNat_of_zero_le hy
  show lor (Int.ofNat a) (Int.ofNat b) = Int.ofNat a + Int.ofNat b - land (Int.ofNat a) (Int.ofNat b)
  simp only [lor, land, Int.ofNat_eq_natCast]
  have := or_add_and a b
  omega

theorem lxor_eq_add (x y : Int) (hx : 0 ≤ x) (hy : 0 ≤ y) : lxor x y = x + y - 2 * land x y := by
  obtain ⟨a, rfl⟩ := Int.eq_ofNat_of_zero_le hx
  obtain ⟨b, rfl⟩ := Int.eq_ofNat_of_zero_le hy
  show lxor (Int.ofNat a) (Int.ofNat b) = Int.ofNat a + Int.ofNat b - 2 * land (Int.ofNat a) (Int.ofNat b)
  simp only [lxor, land, Int.ofNat_eq_natCast]
  have := xor_add_two_and a b
  omega

/-! ### ranges -/

theorem land_nonneg (x y : Int) (hy : 0 ≤ y) : 0 ≤ land x y := by
  obtain ⟨b, rfl⟩ := Int.eq_ofNat_of_zero_le hy
  rcases x with m | m <;> simp [land]

theorem land_le_right (x y : Int) (hy : 0 ≤ y) : land x y ≤ y := by
  obtain ⟨b, rfl⟩ := Int.eq_ofNat_of_zero_le hy
  rcases x with m | m
  · show land (Int.ofNat m) (Int.ofNat b) ≤ _
    simp only [land, Int.ofNat_eq_natCast]
    have : m &&& b ≤ b := Nat.and_le_right
    omega
  · show land (Int.negSucc m) (Int.ofNat b) ≤ _
    simp only [land, natDiff_eq, Int.ofNat_eq_natCast]
    omega

theorem land_le_left (x y : Int) (hx : 0 ≤ x) : land x y ≤ x := by
  rw [land_comm]; exact land_le_right y x hx

theorem lor_range (x y : Int) (k : Nat) (hx : 0 ≤ x) (hx' : x < 2 ^ k) (hy : 0 ≤ y) (hy' : y < 2 ^ k) :
    0 ≤ lor x y ∧ lor x y < 2 ^ k := by
  obtain ⟨a, rfl⟩ := Int.eq_ofNat_of_zero_le hx
  obtain ⟨b, rfl⟩ := Int.eq_ofNat_of_zero_le hy
  have ha : a < 2 ^ k := by exact_mod_cast hx'
  have hb : b < 2 ^ k := by exact_mod_cast hy'
  have := Nat.or_lt_two_pow ha hb
  show 0 ≤ lor (Int.ofNat a) (Int.ofNat b) ∧ lor (Int.ofNat a) (Int.ofNat b) < 2 ^ k
  simp only [lor, Int.ofNat_eq_natCast]
  constructor
  · omega
  · exact_mod_cast this

theorem lxor_range (x y : Int) (k : Nat) (hx : 0 ≤ x) (hx' : x < 2 ^ k) (hy : 0 ≤ y) (hy' : y < 2 ^ k) :
    0 ≤ lxor x y ∧ lxor x y < 2 ^ k := by
  obtain ⟨a, rfl⟩ := Int.eq_ofNat_of_zero_le hx
  obtain ⟨b, rfl⟩ := Int.eq_ofNat_of_zero_le hy
  have ha : a < 2 ^ k := by exact_mod_cast hx'
  have hb : b < 2 ^ k := by exact_mod_cast hy'
  have := Nat.xor_lt_two_pow ha hb
  show 0 ≤ lxor (Int.ofNat a) (Int.ofNat b) ∧ lxor (Int.ofNat a) (Int.ofNat b) < 2 ^ k
  simp only [lxor, Int.ofNat_eq_natCast]
  constructor
  · omega
  · exact_mod_cast this

/-- `x ^ (2^k - 1)` is the `k`-bit complement of an in-range `x`. -/
theorem lxor_mask (x : Int) (k : Nat) (hx : 0 ≤ x) (hx' : x < 2 ^ k) :
    lxor x (2 ^ k - 1) = 2 ^ k - 1 - x := by
  have hM : (0 : Int) ≤ 2 ^ k - 1 := by
    have : (0 : Int) < 2 ^ k := Int.pow_pos (by decide)
    omega
  rw [lxor_eq_add x _ hx hM, land_mask, Int.emod_eq_of_lt hx hx']
  omega

end Py

namespace Py
open Py65.NatBits

private theorem nat_disjoint (n m k : Nat) (hm : m < 2 ^ k) (hn : n % 2 ^ k = 0) : n &&& m = 0 := by
  apply Nat.eq_of_testBit_eq; intro j
  simp only [Nat.testBit_and, Nat.zero_testBit]
  by_cases hj : j < k
  · have : n.testBit j = false := by
      have h := Nat.testBit_mod_two_pow n k j
      rw [hn] at h; simp [hj] at h; exact h.symm ▸ rfl
    simp [this]
  · have : m.testBit j = false :=
      Nat.testBit_lt_two_pow (Nat.lt_of_lt_of_le hm (Nat.pow_le_pow_right (by decide) (by omega)))
    simp [this]

private theorem nat_and_add_disjoint (a n m k : Nat) (hm : m < 2 ^ k) (hn : n % 2 ^ k = 0) :
    a &&& (n + m) = (a &&& n) + (a &&& m) := by
  have hd := nat_disjoint n m k hm hn
  have h1 : n + m = n ||| m := by have := or_add_and n m; omega
  have h2 : (a &&& n) &&& (a &&& m) = 0 := by
    apply Nat.eq_of_testBit_eq; intro j
    have := congrArg (fun z => z.testBit j) hd
    simp only [Nat.testBit_and, Nat.zero_testBit] at this ⊢
    cases h : a.testBit j <;> simp_all
  have h3 := or_add_and (a &&& n) (a &&& m)
  rw [h1, Nat.and_or_distrib_left]; omega

/-- A mask that is the sum of a low part `m < 2^k` and a part `n` divisible by `2^k` splits. -/
theorem land_add_disjoint (x n m : Int) (k : Nat) (hm0 : 0 ≤ m) (hm : m < 2 ^ k) (hn0 : 0 ≤ n)
    (hn : n % 2 ^ k = 0) : land x (n + m) = land x n + land x m := by
  have pos : ∀ a : Nat, land (Int.ofNat a) (n + m) = land (Int.ofNat a) n + land (Int.ofNat a) m := by
    intro a
    obtain ⟨n', rfl⟩ := Int.eq_ofNat_of_zero_le hn0
    obtain ⟨m', rfl⟩ := Int.eq_ofNat_of_zero_le hm0
    have hm' : m' < 2 ^ k := by exact_mod_cast hm
    have hn' : n' % 2 ^ k = 0 := by exact_mod_cast hn
    have := nat_and_add_disjoint a n' m' k hm' hn'
    show land (Int.ofNat a) (Int.ofNat n' + Int.ofNat m') = land (Int.ofNat a) (Int.ofNat n') + land (Int.ofNat a) (Int.ofNat m')
    have e : Int.ofNat n' + Int.ofNat m' = Int.ofNat (n' + m') := rfl
    rw [e]; simp only [land, Int.ofNat_eq_natCast]; exact_mod_cast this
  rcases x with a | a
  · exact pos a
  · have c1 := land_lnot_compl (Int.negSucc a) (n + m) (by omega)
    have c2 := land_lnot_compl (Int.negSucc a) n hn0
    have c3 := land_lnot_compl (Int.negSucc a) m hm0
    rw [lnot_negSucc] at c1 c2 c3
    have := pos a
    omega

end Py

namespace Py
open Py65.NatBits

/-! ### unconditional forms (every sign): everything reduces to `land` -/

theorem lor_eq (x y : Int) : lor x y = x + y - land x y := by
  rcases x with a | a <;> rcases y with b | b
  · exact lor_eq_add _ _ (Int.natCast_nonneg a) (Int.natCast_nonneg b)
  · simp only [lor, land, natDiff_eq, Int.ofNat_eq_natCast, Int.negSucc_eq]
    have h1 : b &&& a ≤ b := Nat.and_le_left
    have h2 : a &&& b ≤ a := Nat.and_le_left
    rw [Nat.and_comm b a] at *; omega
  · simp only [lor, land, natDiff_eq, Int.ofNat_eq_natCast, Int.negSucc_eq]
    have h1 : b &&& a ≤ b := Nat.and_le_left
    have h2 : a &&& b ≤ a := Nat.and_le_left
    rw [Nat.and_comm b a] at *; omega
  · simp only [lor, land, Int.negSucc_eq]
    have := or_add_and a b; omega

theorem lxor_eq (x y : Int) : lxor x y = x + y - 2 * land x y := by
  rcases x with a | a <;> rcases y with b | b
  · exact lxor_eq_add _ _ (Int.natCast_nonneg a) (Int.natCast_nonneg b)
  · simp only [lxor, land, natDiff_eq, Int.ofNat_eq_natCast, Int.negSucc_eq]
    have h2 : a &&& b ≤ a := Nat.and_le_left
    have := xor_add_two_and a b; omega
  · simp only [lxor, land, natDiff_eq, Int.ofNat_eq_natCast, Int.negSucc_eq]
    have h2 : b &&& a ≤ b := Nat.and_le_left
    have := xor_add_two_and a b
    rw [Nat.and_comm b a] at *; omega
  · simp only [lxor, land, Int.ofNat_eq_natCast, Int.negSucc_eq]
    have := xor_add_two_and a b
    have := or_add_and a b; omega

/-- `x & y + x & ~y = x`. -/
theorem land_add_land_lnot (x y : Int) : land x y + land x (lnot y) = x := by
  have h := land_lnot_compl
  rcases x with a | a <;> rcases y with b | b
  · rw [lnot_ofNat]; simp only [land, natDiff_eq, Int.ofNat_eq_natCast]
    have : a &&& b ≤ a := Nat.and_le_left; omega
  · rw [lnot_negSucc]; simp only [land, natDiff_eq, Int.ofNat_eq_natCast]
    have : a &&& b ≤ a := Nat.and_le_left; omega
  · rw [lnot_ofNat]; simp only [land, natDiff_eq, Int.ofNat_eq_natCast, Int.negSucc_eq]
    have : b &&& a ≤ b := Nat.and_le_left
    have := or_add_and a b
    rw [Nat.and_comm b a] at *; omega
  · rw [lnot_negSucc]; simp only [land, natDiff_eq, Int.ofNat_eq_natCast, Int.negSucc_eq]
    have : b &&& a ≤ b := Nat.and_le_left
    have := or_add_and a b
    rw [Nat.and_comm b a] at *; omega

/-- `x & -m = x - (x & (m-1))`: the form a negative literal mask takes. -/
theorem land_neg (x m : Int) : land x (-m) = x - land x (m - 1) := by
  have := land_add_land_lnot x (m - 1)
  have e : lnot (m - 1) = -m := by unfold lnot; omega
  rw [e] at this; omega

end Py

namespace Py

theorem tb_ext (x y : Int) (h : ∀ i, tb x i = tb y i) : x = y := by
  rcases x with a | a <;> rcases y with b | b
  · have : a = b := Nat.eq_of_testBit_eq (fun i => by simpa [tb] using h i)
    rw [this]
  · exfalso
    have h1 := h (a + b)
    have ha : a.testBit (a + b) = false :=
      Nat.testBit_lt_two_pow (Nat.lt_of_le_of_lt (Nat.le_add_right a b) Nat.lt_two_pow_self)
    have hb : b.testBit (a + b) = false :=
      Nat.testBit_lt_two_pow (Nat.lt_of_le_of_lt (Nat.le_add_left b a) Nat.lt_two_pow_self)
    simp [tb, ha, hb] at h1
  · exfalso
    have h1 := h (a + b)
    have ha : a.testBit (a + b) = false :=
      Nat.testBit_lt_two_pow (Nat.lt_of_le_of_lt (Nat.le_add_right a b) Nat.lt_two_pow_self)
    have hb : b.testBit (a + b) = false :=
      Nat.testBit_lt_two_pow (Nat.lt_of_le_of_lt (Nat.le_add_left b a) Nat.lt_two_pow_self)
    simp [tb, ha, hb] at h1
  · have : a = b := Nat.eq_of_testBit_eq (fun i => by simpa [tb] using h i)
    rw [this]

theorem land_assoc (x y z : Int) : land (land x y) z = land x (land y z) := by
  apply tb_ext; intro i; simp only [tb_land, Bool.and_assoc]

end Py

namespace Py
/-- `x | (v & M)` — the idiom `p |= value & FLAG`. -/
theorem lor_land (x v M : Int) : lor x (land v M) = x + land v M - land (land x v) M := by
  rw [lor_eq, land_assoc]
end Py
