/-
One `step()` of a generated device at a declared opcode, as the composition theorems of
`Props/C09h.lean` / `C17h.lean` need it:

  * `step_straight`   at a declared opcode that does not transfer control, in ANY arithmetic mode, PC ends
                      exactly one documented instruction length further on (modulo the address space);
                      unless the instruction is WAI the device is still running afterwards;
  * `step_abs`        C01 / C02 / C03 for the device given as `Hist.Dev` (one statement for the three);
  * `iter_eq_run`     `d.step^[n]` (what `Monitor._run` does, C17) is the history of `n` `step()` calls
                      (`Hist.run`, what C05h / C13h are about).
-/
import Py65.Props.C09
import Py65.Proofs.HistPairing
import Py65.Proofs.Compose2ArithSteps

namespace Py65.Proofs.Compose2
open Py65 Py65.Gen Py65.Spec Py65.Proofs Py65.Proofs.Hist
open Py65.Props.C09 (isControl)

/-! ### the device records of the disassembler side -/

/-- The disassembler's device record (tables, widths, formats) of a device class. -/
def asmDev : Dev → Py65.Model.Asm.Dev
  | .nmos => Py65.Model.Asm.dev6502
  | .cmos => Py65.Model.Asm.dev65c02
  | .org16 => Py65.Model.Asm.dev65org16

theorem isDevice (d : Dev) : Py65.Proofs.Asm.IsDevice (asmDev d) d.variant d.W := by
  cases d
  · exact .d6502
  · exact .d65c02
  · exact .d65org16

theorem AM_pow (W : Nat) : AM W = 2 ^ (2 * W) := rfl

theorem addrMask_eq (d : Dev) : d.cfg.addrMask = 2 ^ (2 * d.W) - 1 := by cases d <;> rfl

theorem byteMask_eq (d : Dev) : d.cfg.byteMask = 2 ^ d.W - 1 := by cases d <;> rfl

/-! ### the programming model at a straight-line instruction -/

theorem exec_pc (W : Nat) (v : Variant) (mn : Mn) (mo : Mode) (s : AState)
    (hnc : isControl mn = false) : (exec W v mn mo s).pc = nextPc W mo s := by
  cases mn <;> first
    | (exact absurd hnc (by decide))
    | (simp only [exec]; done)
    | (simp only [exec]; split <;> rfl)
    | (simp only [exec]; cases mo <;> rfl)

theorem wrap_add {W : Nat} (hW : W = 8 ∨ W = 16) (a k : Int) :
    ((a + 1) % AM W + (k - 1)) % AM W = (a + k) % AM W := by
  rcases hW with rfl | rfl <;> (simp only [AM]; omega)

theorem isControl_not_adcsbc {mn : Mn} (h : isAdcSbc mn = true) : isControl mn = false := by
  cases mn <;> first | rfl | (exact Bool.noConfusion h)

theorem not_arith_of {mn : Mn} (hnc : isControl mn = false) (ha : ¬ isAdcSbc mn = true) :
    ¬ isArith mn = true := by
  cases mn <;> first | (exact absurd rfl ha) | (exact Bool.noConfusion hnc) | (intro h; exact Bool.noConfusion h)

/-! ### one step -/

/-- C01 / C02 / C03 for a `Hist.Dev`: one `step()` of the generated device at a declared opcode is one
step of the programming model (ADC / SBC: binary mode; JSR: the pushes do not hit its own operand bytes). -/
theorem step_abs (d : Dev) (s : St) (hi : Inv d s) (hw : s.waiting = false) (mn : Mn) (mo : Mode)
    (hd : decode d.variant (s.mem s.pc) = some (mn, mo))
    (hdec : (mn = .ADC ∨ mn = .SBC) → flag s.p bitD = false)
    (hjsr : mn = .JSR → NoSelfOverwriteJSR d.cfg (afterFetch d.cfg d.tbl s)) :
    abs (d.step s) = Spec.step d.W d.variant (abs s) := by
  cases d with
  | nmos => exact Py65.Props.C01.C01_full s hi.1 hw mn mo hd hdec hjsr
  | cmos => exact Py65.Props.C02.C02_full s hi.1 hw mn mo hd hdec hjsr
  | org16 => exact Py65.Props.C03.C03_full s hi.1 hw mn mo hd hdec hjsr

/-- A step at an ADC / SBC opcode, binary or decimal mode. -/
theorem step_adcsbc (d : Dev) (s : St) (hi : Inv d s) (hw : s.waiting = false) (mn : Mn) (mo : Mode)
    (hd : decode d.variant (s.mem s.pc) = some (mn, mo)) (ha : isAdcSbc mn = true) :
    (d.step s).pc = (s.pc + mo.len) % AM d.W ∧ (d.step s).mem = s.mem ∧ (d.step s).waiting = false := by
  have harith : isArith mn = true := by
    cases mn <;> first | rfl | (exact Bool.noConfusion ha)
  rw [step_eq d s hw]
  cases d with
  | nmos =>
    obtain ⟨h1, h2⟩ := adcsbc_step_dev6502 s hi.1 mn mo hd ha
    exact ⟨h1, h2, (arith_step_dev6502 s hi.1 (decode_arith hd harith)).2.trans hw⟩
  | cmos =>
    obtain ⟨h1, h2⟩ := adcsbc_step_dev65c02 s hi.1 mn mo hd ha
    exact ⟨h1, h2, (arith_step_dev65c02 s hi.1 (decode_arith hd harith)).2.trans hw⟩
  | org16 =>
    obtain ⟨h1, h2⟩ := adcsbc_step_dev65org16 s hi.1 mn mo hd ha
    exact ⟨h1, h2, (arith_step_dev65org16 s hi.1 (decode_arith hd harith)).2.trans hw⟩

/-- **One straight-line step.**  A running, well-formed generated device at a declared opcode that does
not transfer control (`isControl`: branches, JMP, JSR, RTS, RTI, BRK), in either arithmetic mode: PC ends
one documented instruction length further on, modulo the address space; and unless the instruction is
WAI the device is still running. -/
theorem step_straight (d : Dev) (s : St) (hi : Inv d s) (hw : s.waiting = false) (mn : Mn) (mo : Mode)
    (hd : decode d.variant (s.mem s.pc) = some (mn, mo)) (hnc : isControl mn = false) :
    (d.step s).pc = (s.pc + mo.len) % AM d.W ∧ (mn ≠ .WAI → (d.step s).waiting = false) := by
  by_cases ha : isAdcSbc mn = true
  · obtain ⟨h1, _, h3⟩ := step_adcsbc d s hi hw mn mo hd ha
    exact ⟨h1, fun _ => h3⟩
  · have hna := not_arith_of hnc ha
    have h := step_spec d s hi hw mn mo hd hna
    refine ⟨?_, fun hn => ?_⟩
    · have hpc := congrArg AState.pc h
      have e : (abs (d.step s)).pc = (d.step s).pc := rfl
      rw [e, exec_pc _ _ _ _ _ hnc] at hpc
      rw [hpc]
      show ((s.pc + 1) % AM d.W + (mo.len - 1)) % AM d.W = _
      exact wrap_add d.hW s.pc mo.len
    · have hwa := congrArg AState.waiting h
      rw [exec_waiting _ _ _ _ _ hn] at hwa
      exact hwa.trans hw

/-! ### `step^[n]` and histories -/

/-- The history of `n` calls of `step()`. -/
def steps (n : Nat) : List Op := List.replicate n Op.step

theorem iter_eq_run (d : Dev) (n : Nat) (s : St) : d.step^[n] s = run d (steps n) s := by
  induction n generalizing s with
  | zero => rfl
  | succ n ih => rw [Function.iterate_succ_apply, ih]; rfl

theorem steps_noReset (n : Nat) : NoReset (steps n) := by
  intro o ho
  rw [steps, List.mem_replicate] at ho
  rw [ho.2]; rfl

theorem steps_succ (n : Nat) : steps (n + 1) = Op.step :: steps n := rfl

theorem iter_succ' (d : Dev) (n : Nat) (s : St) : d.step^[n + 1] s = d.step (d.step^[n] s) :=
  Function.iterate_succ_apply' _ _ _

end Py65.Proofs.Compose2
