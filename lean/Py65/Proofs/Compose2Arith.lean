/-
PC and memory of the generated ADC / SBC instructions in BOTH arithmetic modes (binary and decimal).

C01 - C03 (`abs (step s) = Spec.step (abs s)`) cover ADC / SBC in binary mode only; the composition
theorems of `Props/C09h.lean` need just two facts of a step at an ADC / SBC opcode, and need them in
decimal mode too: PC advances by the instruction length, and no memory cell changes.  Proved directly on
the generated helpers `Mpu6502.opADC / opSBC` (as `Proofs/HistArith.lean` does for the register ranges),
then dispatched over the 16 (65C02: 18) opcodes with the translator's dispatch facts `devX.instruct_NN`.
-/
import Py65.Proofs.HistStep

set_option linter.unusedSimpArgs false

namespace Py65.Proofs.Compose2
open Py65 Py65.Gen Py65.Spec Py65.Proofs Py

/-- `opADC` moves neither PC nor memory, in either arithmetic mode. -/
theorem opADC_pcmem (c : Cfg) (x : St → Int × St)
    (hx : ∀ s, WF c s → core (x s).2 = core s) (s : St) (hs : WF c s) :
    (Mpu6502.opADC c x s).pc = s.pc ∧ (Mpu6502.opADC c x s).mem = s.mem := by
  obtain ⟨ha', hxx, hy', hsp', hp', hpc', hmem', hw'⟩ := core_fields (hx s hs)
  refine ⟨?_, ?_⟩ <;>
    simp +instances only [Mpu6502.opADC, Mpu6502.ByteAt, memGet, apply_ite Prod.fst, apply_ite Prod.snd,
      apply_ite St.pc, apply_ite St.mem, ite_self, hpc', hmem']

theorem opSBC_pcmem (c : Cfg) (x : St → Int × St)
    (hx : ∀ s, WF c s → core (x s).2 = core s) (s : St) (hs : WF c s) :
    (Mpu6502.opSBC c x s).pc = s.pc ∧ (Mpu6502.opSBC c x s).mem = s.mem := by
  obtain ⟨ha', hxx, hy', hsp', hp', hpc', hmem', hw'⟩ := core_fields (hx s hs)
  refine ⟨?_, ?_⟩ <;>
    simp +instances only [Mpu6502.opSBC, Mpu6502.ByteAt, memGet, apply_ite Prod.fst, apply_ite Prod.snd,
      apply_ite St.pc, apply_ite St.mem, ite_self, hpc', hmem']

/-- What a handler of an ADC / SBC opcode with `k` operand bytes does to PC and memory. -/
def Adv (c : Cfg) (k : Int) (h : St → St) : Prop :=
  ∀ s, WF c s → (h s).pc = s.pc + k ∧ (h s).mem = s.mem

theorem adc_adv (c : Cfg) (x : St → Int × St) (hx : ∀ s, WF c s → core (x s).2 = core s) (k : Int) :
    Adv c k (fun s => bump k (Mpu6502.opADC c x s)) := by
  intro s hs
  obtain ⟨h1, h2⟩ := opADC_pcmem c x hx s hs
  exact ⟨by simp only [bump, h1], h2⟩

theorem sbc_adv (c : Cfg) (x : St → Int × St) (hx : ∀ s, WF c s → core (x s).2 = core s) (k : Int) :
    Adv c k (fun s => bump k (Mpu6502.opSBC c x s)) := by
  intro s hs
  obtain ⟨h1, h2⟩ := opSBC_pcmem c x hx s hs
  exact ⟨by simp only [bump, h1], h2⟩

/-- `step()` for one dispatched opcode whose handler advances PC by `k` and writes nothing: PC ends
`k + 1` cells on (modulo the address space), memory is unchanged. -/
theorem step_adv (c : Cfg) (hc : IsDev c) (t : Tbl) (s : St) (hs : WF c s) (h : St → St) (k : Int)
    (hinst : t.instruct (s.mem s.pc) = h) (hh : Adv c k h) :
    (Mpu6502.step c t s).pc = (s.pc + (k + 1)) % AM c.BYTE_WIDTH ∧ (Mpu6502.step c t s).mem = s.mem := by
  subst hinst
  obtain ⟨h1, h2⟩ := hh _ (afterFetch_WF c hc t s hs)
  rw [step_unfold]
  refine ⟨?_, h2⟩
  show land (t.instruct (s.mem s.pc) (afterFetch c t s)).pc c.addrMask = _
  rw [h1]
  show land (land (s.pc + 1) c.addrMask + k) c.addrMask = _
  rcases hc with rfl | rfl <;> (constfold; simp only [pyarith, AM]; omega)

end Py65.Proofs.Compose2
