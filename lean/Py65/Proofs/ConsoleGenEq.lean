/-
Tie by regeneration for C18, console side: the definitions GENERATED from `py65/utils/console.py`
(`getch_noblock`, POSIX branch) and `py65/compat.py` (`as_string`, Python-3 branch)
(`Py65/Gen/ConsoleGen.lean`) are the step the monitor model uses for `console.getch_noblock`
(`MonIORt.getchNoblock`: pop one pending byte, LF delivered as CR, `''` when none is pending), for every
queue of pending bytes, under the OS model of `Py65/Model/MonIORt.lean` (`osSelect`, `osRead`, `pyDecode`).
-/
import Py65.Gen.ConsoleGen
import Mathlib.Tactic.SplitIfs

namespace Py65.Proofs.ConsoleGenEq
open Py65 Py65.Model.PyStr Py65.Model.MonIORt Py65.Gen.ConsoleGen

/-- GENERATED `as_string(s, encoding)`: a `str` is returned as it is, a `bytes` object is decoded with the
codec named `encoding`; a decoding error leaves the function. -/
theorem as_string_eq (F : ConEnv) (s : PyVal) (encoding : Str) (σ : ConSt) :
    as_string F s encoding σ =
      match s with
      | .str cps => .ok cps σ
      | .bytes bs =>
        match pyDecode bs encoding with
        | .ok cps => .ok cps σ
        | .error e => .raise e σ := by
  unfold as_string
  cases s with
  | str cps => rfl
  | bytes bs => dsimp only; cases pyDecode bs encoding <;> rfl

/-- The codec the call site names, `'latin-1'`: every byte is the code point of the same number. -/
theorem decode_latin1 (bs : List Int) : pyDecode bs "latin-1".toList = .ok bs := by
  simp [pyDecode]

theorem decode_latin1' (bs : List Int) : pyDecode bs ['l', 'a', 't', 'i', 'n', '-', '1'] = .ok bs :=
  decode_latin1 bs

/-- ... whereas `'utf-8'` (the default of `as_string`) rejects a lone byte `>= 0x80`. -/
theorem decode_utf8_high_byte (b : Int) (h : 0x80 ≤ b) (h' : b ≤ 0xFF) :
    pyDecode [b] "utf-8".toList = .error .UnicodeDecodeError := by
  have hne : ¬ ("utf-8".toList = "latin-1".toList) := by decide
  have h1 : ¬ (0 ≤ b ∧ b < 0x80) := by omega
  simp only [pyDecode, hne, if_false, if_true, utf8Decode, h1]
  split_ifs <;> rfl

/-- GENERATED `getch_noblock(stdin)` on an ordinary terminal (binary stdin, no error from `select` /
`read`) = the model's step, for EVERY queue of pending bytes: nothing pending: `''`, nothing consumed;
otherwise exactly the first byte is consumed and delivered as the character of the same number, LF as CR. -/
theorem getch_noblock_eq (σ : ConSt) :
    getch_noblock ConEnv.plain σ =
      .ok (getchNoblock σ.pending).1 { pending := (getchNoblock σ.pending).2 } := by
  obtain ⟨p⟩ := σ
  cases p with
  | nil => simp [getch_noblock, osSelect, ConEnv.plain, getchNoblock]
  | cons b rest =>
    simp only [getch_noblock, osSelect, osRead, ConEnv.plain, as_string_eq, decode_latin1, getchNoblock]
    by_cases hb : b = 10
    · subst hb; simp [pyOrd]
    · simp [pyOrd, hb]

/-- The same in text mode (the fallback when stdin cannot be re-opened unbuffered: `read(1)` returns a
`str`, which `as_string` passes through) and when the write end is closed (`select` says readable, `read`
returns `b''`). -/
theorem getch_noblock_eq_modes (text eof : Bool) (σ : ConSt) :
    getch_noblock { selectFault := none, readFault := none, eofReadable := eof, textMode := text } σ =
      .ok (getchNoblock σ.pending).1 { pending := (getchNoblock σ.pending).2 } := by
  obtain ⟨p⟩ := σ
  cases p with
  | nil => cases text <;> cases eof <;> simp [getch_noblock, osSelect, osRead, as_string_eq, decode_latin1', getchNoblock]
  | cons b rest =>
    by_cases hb : b = 10
    · subst hb
      cases text <;> cases eof <;>
        simp [getch_noblock, osSelect, osRead, as_string_eq, decode_latin1', getchNoblock, pyOrd]
    · cases text <;> cases eof <;>
        simp [getch_noblock, osSelect, osRead, as_string_eq, decode_latin1', getchNoblock, pyOrd, hb]

/-- An error out of `select` or `read`: `KeyboardInterrupt` is passed on, anything else is swallowed
(`except: pass`): `''`; an error out of `select` consumes nothing. -/
theorem getch_noblock_select_fault (F : ConEnv) (e : Exc) (h : F.selectFault = some e) (σ : ConSt) :
    getch_noblock F σ = if e = .KeyboardInterrupt then .raise e σ else .ok [] σ := by
  simp only [getch_noblock, osSelect, h, List.length_nil, Int.natCast_zero, ne_eq, not_true_eq_false, if_false]

end Py65.Proofs.ConsoleGenEq
