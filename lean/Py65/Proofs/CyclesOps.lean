/-
Aspect *cyc*, second half: no operation helper touches `excycles` (only the addressing-mode
helpers and the branch helper do), so a handler's extra cycles are those of its mode helper.
GENERATED list of one-line lemmas (harness: gen inline), each proved by unfolding.
-/
import Py65.Proofs.Cycles

set_option linter.unusedSimpArgs false

namespace Py65.Proofs
open Py65 Py65.Gen Py65.Spec Py

macro "excyc_tac" : tactic =>
  `(tactic| (dsimp only [Mpu6502.FlagsNZ, Mpu6502.ByteAt, memGet, memSet]; repeat' (first | rfl | split)))

theorem opORA_excycles (c : Cfg) (x : St → Int × St) (s : St) :
    (Mpu6502.opORA c x s).excycles = (x s).2.excycles := by
  dsimp only [Mpu6502.opORA]; excyc_tac

theorem opAND_excycles (c : Cfg) (x : St → Int × St) (s : St) :
    (Mpu6502.opAND c x s).excycles = (x s).2.excycles := by
  dsimp only [Mpu6502.opAND]; excyc_tac

theorem opEOR_excycles (c : Cfg) (x : St → Int × St) (s : St) :
    (Mpu6502.opEOR c x s).excycles = (x s).2.excycles := by
  dsimp only [Mpu6502.opEOR]; excyc_tac

theorem opSTA_excycles (c : Cfg) (x : St → Int × St) (s : St) :
    (Mpu6502.opSTA c x s).excycles = (x s).2.excycles := by
  dsimp only [Mpu6502.opSTA]; excyc_tac

theorem opSTY_excycles (c : Cfg) (x : St → Int × St) (s : St) :
    (Mpu6502.opSTY c x s).excycles = (x s).2.excycles := by
  dsimp only [Mpu6502.opSTY]; excyc_tac

theorem opSTX_excycles (c : Cfg) (x : St → Int × St) (s : St) :
    (Mpu6502.opSTX c x s).excycles = (x s).2.excycles := by
  dsimp only [Mpu6502.opSTX]; excyc_tac

theorem opLDA_excycles (c : Cfg) (x : St → Int × St) (s : St) :
    (Mpu6502.opLDA c x s).excycles = (x s).2.excycles := by
  dsimp only [Mpu6502.opLDA]; excyc_tac

theorem opLDY_excycles (c : Cfg) (x : St → Int × St) (s : St) :
    (Mpu6502.opLDY c x s).excycles = (x s).2.excycles := by
  dsimp only [Mpu6502.opLDY]; excyc_tac

theorem opLDX_excycles (c : Cfg) (x : St → Int × St) (s : St) :
    (Mpu6502.opLDX c x s).excycles = (x s).2.excycles := by
  dsimp only [Mpu6502.opLDX]; excyc_tac

theorem opROL_acc_excycles (c : Cfg) (s : St) : (Mpu6502.opROL_acc c s).excycles = s.excycles := by
  dsimp only [Mpu6502.opROL_acc]; excyc_tac

theorem opROR_acc_excycles (c : Cfg) (s : St) : (Mpu6502.opROR_acc c s).excycles = s.excycles := by
  dsimp only [Mpu6502.opROR_acc]; excyc_tac

theorem opSTZ_excycles (c : Cfg) (x : St → Int × St) (s : St) :
    (Mpu65c02.opSTZ c x s).excycles = (x s).2.excycles := by
  dsimp only [Mpu65c02.opSTZ]; excyc_tac

theorem opRMB_excycles (c : Cfg) (x : St → Int × St) (m : Int) (s : St) :
    (Mpu65c02.opRMB c x m s).excycles = (x s).2.excycles := by
  dsimp only [Mpu65c02.opRMB]; excyc_tac

theorem opSMB_excycles (c : Cfg) (x : St → Int × St) (m : Int) (s : St) :
    (Mpu65c02.opSMB c x m s).excycles = (x s).2.excycles := by
  dsimp only [Mpu65c02.opSMB]; excyc_tac

end Py65.Proofs
