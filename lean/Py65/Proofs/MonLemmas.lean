/-
Helper lemmas for C16 about the monitor memory-command model `Py65/Model/MonMem.lean`
(`_fill`, `do_fill`, `do_load`, `do_save`, `do_mem`).  Property statements live in
`Py65/Props/C16.lean`.
-/
import Py65.Spec.MonMem
import Py65.Proofs.ObsMemLemmas
import Py65.Proofs.NumLemmas
import Mathlib.Tactic.Linarith
import Mathlib.Tactic.SplitIfs

namespace Py65.Spec.MonMem
open Py65.Model.ObsMem Py65.Spec.ObsMem

theorem SameShape.refl (m : OM) : SameShape m m := ⟨rfl, rfl, rfl, rfl⟩

theorem SameShape.trans {a b c : OM} (h1 : SameShape a b) (h2 : SameShape b c) : SameShape a c :=
  ⟨h2.1.trans h1.1, h2.2.1.trans h1.2.1, h2.2.2.1.trans h1.2.2.1, h2.2.2.2.trans h1.2.2.2⟩

theorem SameShape.wf {m m' : OM} (h : SameShape m m') (hw : WF m) : WF m' := by
  unfold WF at *
  rw [h.1, h.2.1]; exact hw

theorem SameShape.wquiet {reply : Reply} {m m' : OM} (h : SameShape m m') (hq : WQuiet reply m) :
    WQuiet reply m' := by
  unfold WQuiet at *
  rw [h.2.2.2]; exact hq

end Py65.Spec.MonMem

namespace Py65.Model.MonMem
open Py65.Model.PyStr Py65.Model.AddrParser Py65.Model.ObsMem Py65.Spec.ObsMem Py65.Spec.MonMem Py65.Proofs.Num

/-! ### vocabulary -/

theorem set_sameShape (reply : Reply) (m : OM) (a v : Int) : SameShape m (ObsMem.set reply m a v) :=
  ⟨rfl, rfl, rfl, rfl⟩

/-- Under `WQuiet` a write is a plain update of the physical cell. -/
theorem set_subject_quiet {reply : Reply} {m : OM} (hw : WF m) (hq : WQuiet reply m) (a v : Int) :
    (ObsMem.set reply m a v).subject = upd m.subject (phys m.physMask a) v := by
  unfold ObsMem.set
  simp only [land_physMask hw]
  rw [writeLoop_quiet reply _ _ v m.log (fun cb hcb i x => hq _ cb hcb i _ x)]
  rfl

/-! ### masks -/

theorem land_addrMask (d : Dev) {a : Int} (h0 : 0 ≤ a) (h1 : a ≤ d.addrMask) : Py.land a d.addrMask = a := by
  unfold Dev.addrMask at *
  rw [Py.land_mask]
  exact Int.emod_eq_of_lt h0 (by omega)

theorem land_byteMask (d : Dev) {v : Int} (h0 : 0 ≤ v) (h1 : v ≤ d.byteMask) : Py.land v d.byteMask = v := by
  unfold Dev.byteMask at *
  rw [Py.land_mask]
  exact Int.emod_eq_of_lt h0 (by omega)

/-- Two different addresses less than the physical size apart hit different cells. -/
theorem phys_ne_of_window {m : OM} (hw : WF m) {x y : Int} (h1 : x < y) (h2 : y - x ≤ m.physMask) :
    phys m.physMask y ≠ phys m.physMask x := by
  unfold phys
  rcases hw.1 with h | h <;> rw [h] at h2 ⊢ <;> omega

/-! ### the `_fill` loop -/

theorem index_step (len index j : Nat) :
    ((if index + 1 = len then 0 else index + 1) + j) % len = (index + (j + 1)) % len := by
  by_cases h : index + 1 = len
  · simp only [h, if_true, Nat.zero_add]
    have : index + (j + 1) = j + len := by omega
    rw [this, Nat.add_mod_right]
  · simp only [h, if_false]
    congr 1; omega

theorem index_step_lt (len index : Nat) (hi : index < len) :
    (if index + 1 = len then 0 else index + 1) < len := by
  by_cases h : index + 1 = len
  · simp only [h, if_true]; omega
  · simp only [h, if_false]; omega

/-- The loop of `_fill` from an in-range `address`: the cells of `address … stop` (taken modulo
the physical size) receive the filler items cyclically from `index` on, masked with `byteMask`;
every other cell keeps its value; nothing else of the memory changes. -/
theorem fillLoop_spec (reply : Reply) (d : Dev) (filler : List Int) (stop : Int)
    (hstop : stop ≤ d.addrMask) :
    ∀ (fuel : Nat) (address : Int) (index : Nat) (m : OM), WF m → WQuiet reply m → 0 ≤ address →
      index < filler.length → stop + 1 - address ≤ fuel → stop - address ≤ m.physMask →
      SameShape m (fillLoop reply d filler stop fuel address index m) ∧
      (∀ j : Nat, address + j ≤ stop →
        (fillLoop reply d filler stop fuel address index m).subject (phys m.physMask (address + j)) =
          Py.land (filler.getD ((index + j) % filler.length) 0) d.byteMask) ∧
      (∀ k, (∀ j : Nat, address + j ≤ stop → phys m.physMask (address + j) ≠ k) →
        (fillLoop reply d filler stop fuel address index m).subject k = m.subject k) := by
  intro fuel
  induction fuel with
  | zero =>
    intro address index m _ _ _ _ hfuel _
    rw [show fillLoop reply d filler stop 0 address index m = m from rfl]
    refine ⟨SameShape.refl m, ?_, fun k _ => rfl⟩
    intro j hj
    have : (0 : Int) ≤ (j : Int) := Int.natCast_nonneg j
    have hf : stop + 1 - address ≤ ((0 : Nat) : Int) := hfuel
    simp only [Nat.cast_zero] at hf
    omega
  | succ fuel ih =>
    intro address index m hw hq ha hidx hfuel hwin
    by_cases hle : address ≤ stop
    · have hmask : Py.land address d.addrMask = address := land_addrMask d ha (by omega)
      have hunf : fillLoop reply d filler stop (fuel + 1) address index m =
          fillLoop reply d filler stop fuel (address + 1) (if index + 1 = filler.length then 0 else index + 1)
            (ObsMem.set reply m address (Py.land (filler.getD index 0) d.byteMask)) := by
        simp only [fillLoop, hle, if_true, hmask]
      rw [hunf]
      generalize hv : Py.land (filler.getD index 0) d.byteMask = v
      generalize hm1 : ObsMem.set reply m address v = m1
      have hs1 : SameShape m m1 := hm1 ▸ set_sameShape reply m address v
      have hw1 : WF m1 := hs1.wf hw
      have hq1 : WQuiet reply m1 := hs1.wquiet hq
      have hsub1 : m1.subject = upd m.subject (phys m.physMask address) v := hm1 ▸ set_subject_quiet hw hq address v
      have hpm : m1.physMask = m.physMask := hs1.1
      have hfuel' : stop + 1 - (address + 1) ≤ (fuel : Int) := by
        have : ((fuel + 1 : Nat) : Int) = (fuel : Int) + 1 := by push_cast; rfl
        rw [this] at hfuel
        omega
      obtain ⟨i1, i2, i3⟩ := ih (address + 1) (if index + 1 = filler.length then 0 else index + 1) m1 hw1 hq1
        (by omega) (index_step_lt _ _ hidx) hfuel' (by rw [hpm]; omega)
      rw [hpm] at i2 i3
      refine ⟨hs1.trans i1, ?_, ?_⟩
      · intro j hj
        cases j with
        | zero =>
          simp only [Nat.cast_zero, Int.add_zero, Nat.add_zero, Nat.mod_eq_of_lt hidx]
          rw [i3 (phys m.physMask address)]
          · rw [hsub1]
            show (if phys m.physMask address = phys m.physMask address then v else _) = _
            rw [if_pos rfl, hv]
          · intro j' hj'
            have : (0 : Int) ≤ (j' : Int) := Int.natCast_nonneg j'
            exact phys_ne_of_window hw (by omega) (by omega)
        | succ j =>
          have e : address + ((j + 1 : Nat) : Int) = address + 1 + (j : Int) := by push_cast; omega
          rw [e, i2 j (by rw [← e]; exact hj), index_step _ _ _]
      · intro k hk
        rw [i3 k]
        · rw [hsub1]
          have : phys m.physMask address ≠ k := by
            have := hk 0 (by simpa using hle)
            simpa using this
          simp [upd, Ne.symm this]
        · intro j hj
          have e : address + 1 + (j : Int) = address + ((j + 1 : Nat) : Int) := by push_cast; omega
          rw [e]
          exact hk (j + 1) (by rw [← e]; exact hj)
    · rw [show fillLoop reply d filler stop (fuel + 1) address index m = m by simp only [fillLoop, hle, if_false]]
      refine ⟨SameShape.refl m, ?_, fun k _ => rfl⟩
      intro j hj
      have : (0 : Int) ≤ (j : Int) := Int.natCast_nonneg j
      omega

theorem fill_spec (reply : Reply) (d : Dev) (start stop : Int) (filler : List Int) (m : OM)
    (hw : WF m) (hq : WQuiet reply m) (h0 : 0 ≤ start) (h1 : start ≤ stop) (h2 : stop ≤ d.addrMask)
    (hne : filler ≠ []) (hwin : fillStop d start stop filler.length - start ≤ m.physMask) :
    let E := fillStop d start stop filler.length
    let r := fill reply d start stop filler m
    start ≤ E ∧ E ≤ d.addrMask ∧
    r.1 = .wrote (E - start + 1) start E ∧ SameShape m r.2 ∧
    (∀ j : Nat, start + j ≤ E →
      r.2.subject (phys m.physMask (start + j)) = Py.land (filler.getD (j % filler.length) 0) d.byteMask) ∧
    (∀ k, (∀ j : Nat, start + j ≤ E → phys m.physMask (start + j) ≠ k) → r.2.subject k = m.subject k) := by
  intro E r
  have hlen : 0 < filler.length := List.length_pos_of_ne_nil hne
  have hE1 : start ≤ E := by
    simp only [E, fillStop]
    split_ifs <;> omega
  have hE2 : E ≤ d.addrMask := by
    simp only [E, fillStop]
    split_ifs <;> omega
  have hr : r = (.wrote (E - start + 1) start E,
      fillLoop reply d filler E (E + 1 - start).toNat start 0 m) := by
    simp only [r, fill, E, fillStop]
    have : ¬ (filler = [] ∧ start ≤ (if start = stop then
        (if start + (filler.length : Int) - 1 > d.addrMask then d.addrMask else start + (filler.length : Int) - 1)
        else stop)) := fun h => hne h.1
    simp only [this, if_false]
  obtain ⟨i1, i2, i3⟩ := fillLoop_spec reply d filler E hE2 (E + 1 - start).toNat start 0 m hw hq h0 hlen
    (by rw [Int.toNat_of_nonneg (by omega)]) hwin
  rw [hr]
  refine ⟨hE1, hE2, rfl, i1, ?_, i3⟩
  intro j hj
  have := i2 j hj
  simpa using this

/-- The loop of `_fill` without any assumption on the length of the range: a cell hit by several
addresses of the range (possible only when the range is longer than the physical memory) ends up
with the item of the LAST address that hits it. -/
theorem fillLoop_general (reply : Reply) (d : Dev) (filler : List Int) (stop : Int)
    (hstop : stop ≤ d.addrMask) :
    ∀ (fuel : Nat) (address : Int) (index : Nat) (m : OM), WF m → WQuiet reply m → 0 ≤ address →
      index < filler.length → stop + 1 - address ≤ fuel →
      SameShape m (fillLoop reply d filler stop fuel address index m) ∧
      (∀ (k : Int) (j : Nat), address + j ≤ stop → phys m.physMask (address + j) = k →
        (∀ j' : Nat, j < j' → address + j' ≤ stop → phys m.physMask (address + j') ≠ k) →
        (fillLoop reply d filler stop fuel address index m).subject k =
          Py.land (filler.getD ((index + j) % filler.length) 0) d.byteMask) ∧
      (∀ k, (∀ j : Nat, address + j ≤ stop → phys m.physMask (address + j) ≠ k) →
        (fillLoop reply d filler stop fuel address index m).subject k = m.subject k) := by
  intro fuel
  induction fuel with
  | zero =>
    intro address index m _ _ _ _ hfuel
    rw [show fillLoop reply d filler stop 0 address index m = m from rfl]
    refine ⟨SameShape.refl m, ?_, fun k _ => rfl⟩
    intro k j hj
    have : (0 : Int) ≤ (j : Int) := Int.natCast_nonneg j
    have hf : stop + 1 - address ≤ ((0 : Nat) : Int) := hfuel
    simp only [Nat.cast_zero] at hf
    omega
  | succ fuel ih =>
    intro address index m hw hq ha hidx hfuel
    by_cases hle : address ≤ stop
    · have hmask : Py.land address d.addrMask = address := land_addrMask d ha (by omega)
      have hunf : fillLoop reply d filler stop (fuel + 1) address index m =
          fillLoop reply d filler stop fuel (address + 1) (if index + 1 = filler.length then 0 else index + 1)
            (ObsMem.set reply m address (Py.land (filler.getD index 0) d.byteMask)) := by
        simp only [fillLoop, hle, if_true, hmask]
      rw [hunf]
      generalize hv : Py.land (filler.getD index 0) d.byteMask = v
      generalize hm1 : ObsMem.set reply m address v = m1
      have hs1 : SameShape m m1 := hm1 ▸ set_sameShape reply m address v
      have hw1 : WF m1 := hs1.wf hw
      have hq1 : WQuiet reply m1 := hs1.wquiet hq
      have hsub1 : m1.subject = upd m.subject (phys m.physMask address) v := hm1 ▸ set_subject_quiet hw hq address v
      have hpm : m1.physMask = m.physMask := hs1.1
      have hfuel' : stop + 1 - (address + 1) ≤ (fuel : Int) := by
        have : ((fuel + 1 : Nat) : Int) = (fuel : Int) + 1 := by push_cast; rfl
        rw [this] at hfuel
        omega
      obtain ⟨i1, i2, i3⟩ := ih (address + 1) (if index + 1 = filler.length then 0 else index + 1) m1 hw1 hq1
        (by omega) (index_step_lt _ _ hidx) hfuel'
      rw [hpm] at i2 i3
      have hshift : ∀ j : Nat, address + 1 + (j : Int) = address + ((j + 1 : Nat) : Int) := by
        intro j; push_cast; omega
      refine ⟨hs1.trans i1, ?_, ?_⟩
      · intro k j hj hk hlast
        cases j with
        | zero =>
          simp only [Nat.cast_zero, Int.add_zero] at hk
          simp only [Nat.add_zero, Nat.mod_eq_of_lt hidx]
          rw [i3 k]
          · rw [hsub1, ← hk]
            show (if phys m.physMask address = phys m.physMask address then v else _) = _
            rw [if_pos rfl, hv]
          · intro j' hj'
            rw [hshift]
            exact hlast (j' + 1) (by omega) (by rw [← hshift]; exact hj')
        | succ j =>
          rw [i2 k j (by rw [hshift]; exact hj) (by rw [hshift]; exact hk), index_step]
          intro j' hjj' hj'
          rw [hshift]
          exact hlast (j' + 1) (by omega) (by rw [← hshift]; exact hj')
      · intro k hk
        rw [i3 k]
        · rw [hsub1]
          have : phys m.physMask address ≠ k := by
            have := hk 0 (by simpa using hle)
            simpa using this
          simp [upd, Ne.symm this]
        · intro j hj
          rw [hshift]
          exact hk (j + 1) (by rw [← hshift]; exact hj)
    · rw [show fillLoop reply d filler stop (fuel + 1) address index m = m by simp only [fillLoop, hle, if_false]]
      refine ⟨SameShape.refl m, ?_, fun k _ => rfl⟩
      intro k j hj
      have : (0 : Int) ≤ (j : Int) := Int.natCast_nonneg j
      omega

theorem fill_general (reply : Reply) (d : Dev) (start stop : Int) (filler : List Int) (m : OM)
    (hw : WF m) (hq : WQuiet reply m) (h0 : 0 ≤ start) (h1 : start ≤ stop) (h2 : stop ≤ d.addrMask)
    (hne : filler ≠ []) :
    let E := fillStop d start stop filler.length
    let r := fill reply d start stop filler m
    start ≤ E ∧ E ≤ d.addrMask ∧
    r.1 = .wrote (E - start + 1) start E ∧ SameShape m r.2 ∧
    (∀ (k : Int) (j : Nat), start + j ≤ E → phys m.physMask (start + j) = k →
      (∀ j' : Nat, j < j' → start + j' ≤ E → phys m.physMask (start + j') ≠ k) →
      r.2.subject k = Py.land (filler.getD (j % filler.length) 0) d.byteMask) ∧
    (∀ k, (∀ j : Nat, start + j ≤ E → phys m.physMask (start + j) ≠ k) → r.2.subject k = m.subject k) := by
  intro E r
  have hlen : 0 < filler.length := List.length_pos_of_ne_nil hne
  have hE1 : start ≤ E := by
    simp only [E, fillStop]
    split_ifs <;> omega
  have hE2 : E ≤ d.addrMask := by
    simp only [E, fillStop]
    split_ifs <;> omega
  have hr : r = (.wrote (E - start + 1) start E,
      fillLoop reply d filler E (E + 1 - start).toNat start 0 m) := by
    simp only [r, fill, E, fillStop]
    have : ¬ (filler = [] ∧ start ≤ (if start = stop then
        (if start + (filler.length : Int) - 1 > d.addrMask then d.addrMask else start + (filler.length : Int) - 1)
        else stop)) := fun h => hne h.1
    simp only [this, if_false]
  obtain ⟨i1, i2, i3⟩ := fillLoop_general reply d filler E hE2 (E + 1 - start).toNat start 0 m hw hq h0 hlen
    (by rw [Int.toNat_of_nonneg (by omega)])
  rw [hr]
  refine ⟨hE1, hE2, rfl, i1, ?_, i3⟩
  intro k j hj hk hlast
  have := i2 k j hj hk hlast
  simpa using this

/-- Anything but "Wrote …" (the `IndexError` of an empty filler): nothing was written. -/
theorem fill_not_wrote (reply : Reply) (d : Dev) (start stop : Int) (filler : List Int) (m : OM)
    (h : ∀ c s e, Out.ofFill (fill reply d start stop filler m).1 ≠ .wrote c s e) :
    (fill reply d start stop filler m).2 = m := by
  unfold fill at h ⊢
  dsimp only at h ⊢
  split_ifs at h ⊢
  all_goals first
    | rfl
    | exact absurd rfl (h _ _ _)

/-! ### `do_fill` on tokens -/

theorem parseFiller_ok (d : Dev) (P : Parser) :
    ∀ (pieces : List Str) (data acc : List Int), PiecesOk d P pieces data →
      parseFiller d P pieces acc = .inr (acc.reverse ++ data) := by
  intro pieces
  induction pieces with
  | nil =>
    intro data acc h
    cases data with
    | nil => simp [parseFiller]
    | cons v vs => simp [PiecesOk] at h
  | cons p ps ih =>
    intro data acc h
    cases data with
    | nil => simp [PiecesOk] at h
    | cons v vs =>
      obtain ⟨h1, h2, h3⟩ := h
      have : ¬ v > d.byteMask := by omega
      simp only [parseFiller, h1, this, if_false]
      rw [ih vs (v :: acc) h3]
      simp

/-- Any outcome of the piece loop other than a complete list is an error that `do_fill` reports
without calling `_fill`. -/
theorem parseFiller_inl_not_wrote (d : Dev) (P : Parser) :
    ∀ (pieces : List Str) (acc : List Int) (e : Out), parseFiller d P pieces acc = .inl e →
      e = .key ∨ e = .overflow ∨ e = .other := by
  intro pieces
  induction pieces with
  | nil => intro acc e h; simp [parseFiller] at h
  | cons p ps ih =>
    intro acc e h
    simp only [parseFiller] at h
    cases hn : numberL P p with
    | ok v =>
      simp only [hn] at h
      by_cases hv : v > d.byteMask
      · simp only [hv, if_true, Sum.inl.injEq] at h
        exact Or.inr (Or.inl h.symm)
      · simp only [hv, if_false] at h
        exact ih _ _ h
    | key => simp [hn, Out.ofRes] at h; exact Or.inl h.symm
    | overflow => simp [hn, Out.ofRes] at h; exact Or.inr (Or.inl h.symm)
    | other => simp [hn, Out.ofRes] at h; exact Or.inr (Or.inr h.symm)

/-- A value wider than a byte among otherwise well-formed pieces: `OverflowError`. -/
theorem parseFiller_wide (d : Dev) (P : Parser) :
    ∀ (pre : List Str) (pdata : List Int) (p : Str) (post : List Str) (v : Int) (acc : List Int),
      PiecesOk d P pre pdata → numberL P p = .ok v → v > d.byteMask →
      parseFiller d P (pre ++ p :: post) acc = .inl .overflow := by
  intro pre
  induction pre with
  | nil =>
    intro pdata p post v acc _ hp hv
    simp [parseFiller, hp, hv]
  | cons q qs ih =>
    intro pdata p post v acc hpre hp hv
    cases pdata with
    | nil => simp [PiecesOk] at hpre
    | cons w ws =>
      obtain ⟨h1, h2, h3⟩ := hpre
      have : ¬ w > d.byteMask := by omega
      simp only [List.cons_append, parseFiller, h1, this, if_false]
      exact ih ws p post v _ h3 hp hv

/-! ### `do_load`: data preparation -/

theorem pairs_length : ∀ (l : List Int), (pairs l).length = l.length / 2
  | [] => rfl
  | [_] => by simp [pairs]
  | a :: b :: rest => by
    simp only [pairs, List.length_cons, pairs_length rest]
    omega

theorem pairs_getD : ∀ (l : List Int) (i : Nat), i < l.length / 2 →
    (pairs l).getD i 0 = l.getD (2 * i) 0 * 256 + l.getD (2 * i + 1) 0
  | [], i, h => by simp at h
  | [_], i, h => by simp at h
  | a :: b :: rest, i, h => by
    cases i with
    | zero => simp [pairs, Py.shl]
    | succ i =>
      have hi : i < rest.length / 2 := by
        simp only [List.length_cons] at h
        omega
      have := pairs_getD rest i hi
      have e1 : 2 * (i + 1) = 2 * i + 1 + 1 := by omega
      have e2 : 2 * (i + 1) + 1 = 2 * i + 1 + 1 + 1 := by omega
      simp only [pairs, List.getD_cons_succ, e1]
      exact this

theorem land_ff (x : Int) : Py.land x 0xff = x % 256 := by
  have := Py.land_mask x 8
  norm_num at this ⊢
  exact this

theorem octets_dev8 (v : Int) (h0 : 0 ≤ v) (h1 : v < 256) : octets dev8 v = [v] := by
  simp only [octets, dev8, List.range, List.range.loop, List.map, Py.shr, land_ff]
  norm_num
  omega

theorem octets_dev16 (v : Int) : octets dev16 v = [v / 256 % 256, v % 256] := by
  simp only [octets, dev16, List.range, List.range.loop, List.map, Py.shr, land_ff]
  norm_num

/-- What `save` writes, read back by `load`'s data preparation, is the list of cells again. -/
theorem loadData_octets (d : Dev) (hd : d = dev8 ∨ d = dev16) :
    ∀ (vals : List Int), (∀ v ∈ vals, 0 ≤ v ∧ v ≤ d.byteMask) → loadData d (vals.flatMap (octets d)) = vals := by
  rcases hd with rfl | rfl
  · intro vals hv
    have : vals.flatMap (octets dev8) = vals := by
      induction vals with
      | nil => rfl
      | cons v vs ih =>
        have hv0 := hv v (by simp)
        have : v < 256 := by
          have := hv0.2
          simp only [Dev.byteMask, dev8] at this
          omega
        rw [List.flatMap_cons, octets_dev8 v hv0.1 this, ih (fun x hx => hv x (by simp [hx]))]
        rfl
    rw [this]
    simp [loadData, dev8]
  · intro vals hv
    have : pairs (vals.flatMap (octets dev16)) = vals := by
      induction vals with
      | nil => rfl
      | cons v vs ih =>
        have hv0 := hv v (by simp)
        have h2 : v < 65536 := by
          have := hv0.2
          simp only [Dev.byteMask, dev16] at this
          omega
        rw [List.flatMap_cons, octets_dev16 v]
        simp only [List.cons_append, List.nil_append, pairs, Py.shl]
        rw [ih (fun x hx => hv x (by simp [hx]))]
        congr 1
        have := hv0.1
        omega
    simp only [loadData, dev16]
    norm_num
    exact this

/-! ### `do_save`, `do_mem`: reading -/

theorem pyRange_one (a e : Int) : pyRange a e 1 = addrRange a (e - 1) := by
  unfold pyRange rangeLen addrRange
  have h1 : (1 : Int) > 0 := by omega
  simp only [h1, if_true, Int.ediv_one, Int.mul_one]
  by_cases h : a < e
  · simp only [h, if_true]
    congr 2; omega
  · simp only [h, if_false]
    have : (e - 1 + 1 - a).toNat = 0 := by omega
    rw [this]

theorem addrRange_length (a b : Int) (h : a ≤ b + 1) : ((addrRange a b).length : Int) = b + 1 - a := by
  simp only [addrRange, List.length_map, List.length_range]
  omega

theorem mem_addrRange {a b x : Int} (h : x ∈ addrRange a b) : a ≤ x ∧ x ≤ b := by
  simp only [addrRange, List.mem_map, List.mem_range] at h
  obtain ⟨i, hi, rfl⟩ := h
  omega

/-- Reading cells no read subscriber watches returns the cells and changes only the call log
(which stays as it is, too: nobody is called). -/
theorem getMany_noSubs (reply : Reply) : ∀ (idx : List Int) (m : OM), WF m →
    (∀ x ∈ idx, m.rsubs.of (phys m.physMask x) = []) →
    (getMany reply idx m).1 = idx.map (fun x => m.subject (phys m.physMask x)) ∧ (getMany reply idx m).2 = m := by
  intro idx
  induction idx with
  | nil => intro m _ _; simp [getMany]
  | cons x xs ih =>
    intro m hw h
    have hx : m.rsubs.of (phys m.physMask x) = [] := h x (by simp)
    have hg : ObsMem.get reply m x = (m.subject (phys m.physMask x), m) := by
      unfold ObsMem.get
      simp only [land_physMask hw, hx, readLoop]
    simp only [getMany, hg]
    obtain ⟨i1, i2⟩ := ih m hw (fun y hy => h y (by simp [hy]))
    rw [i1, i2]
    simp

theorem getMany_shape (reply : Reply) (idx : List Int) (m : OM) : SameShape m (getMany reply idx m).2 := by
  obtain ⟨a, _, c, d, e⟩ := getMany_fields reply idx m
  exact ⟨a, c, d, e⟩

theorem getMany_subject (reply : Reply) (idx : List Int) (m : OM) : (getMany reply idx m).2.subject = m.subject :=
  (getMany_fields reply idx m).2.1

theorem getMany_len (reply : Reply) (idx : List Int) (m : OM) : (getMany reply idx m).1.length = idx.length :=
  getMany_length reply idx m

/-! ### `do_mem`: the printed text and reading it back -/

theorem fmtHexInt_nonneg (w : Nat) {v : Int} (h : 0 ≤ v) : fmtHexInt w v = fmtHexL w v.toNat := by
  unfold fmtHexInt
  simp [show ¬ v < 0 by omega]

theorem fmtHexL_eq (w n : Nat) : fmtHexL w n = List.replicate (w - (toDigits 16 n).length) '0' ++ toDigits 16 n := rfl

theorem fmtHexL_ne_nil (w n : Nat) : fmtHexL w n ≠ [] := by
  rw [fmtHexL_eq]
  intro h
  exact toDigits_ne_nil 16 n (List.append_eq_nil_iff.1 h).2

theorem hexChar_plain : ∀ d, d < 16 → digitChar d ≠ ' ' ∧ digitChar d ≠ ':' := by decide

theorem fmtHexL_chars (w n : Nat) : ∀ c ∈ fmtHexL w n, c ≠ ' ' ∧ c ≠ ':' := by
  intro c hc
  rw [fmtHexL_eq, List.mem_append] at hc
  rcases hc with hc | hc
  · have : c = '0' := (List.mem_replicate.1 hc).2
    subst this
    decide
  · obtain ⟨dg, hd, rfl⟩ := toDigits_digCh (b := 16) (by decide) n c hc
    exact hexChar_plain dg hd

theorem pyIntL_fmtHexL (w n : Nat) : pyIntL (fmtHexL w n) 16 = some (n : Int) := by
  simp only [fmtHexL, rjustL_toDigits]
  exact pyIntL_spelling (by decide) (by decide) _ _ _ (Or.inl rfl)

theorem wordsAux_word (w : Str) (hw : ∀ c ∈ w, c ≠ ' ') : ∀ (cur rest : Str),
    wordsAux cur (w ++ rest) = wordsAux (cur ++ w) rest := by
  induction w with
  | nil => intro cur rest; simp
  | cons c w ih =>
    intro cur rest
    have hc : c ≠ ' ' := hw c (by simp)
    simp only [List.cons_append, wordsAux, hc, if_false]
    rw [ih (fun x hx => hw x (by simp [hx]))]
    simp

/-- The byte part of a printed line: `"  " + byteFmt % b` for every byte. -/
def bodyOf (d : Dev) (bytes : List Int) : Str :=
  bytes.flatMap fun b => ' ' :: ' ' :: fmtHexInt d.byteFmtW b

theorem wordsAux_body (d : Dev) : ∀ (bytes : List Int) (cur : Str), cur ≠ [] →
    wordsAux cur (bodyOf d bytes) = cur :: wordsAux [] (bodyOf d bytes) := by
  intro bytes cur hcur
  cases bytes with
  | nil => simp [bodyOf, wordsAux, hcur]
  | cons b bs => simp [bodyOf, wordsAux, hcur]

theorem words_body (d : Dev) : ∀ (bytes : List Int), (∀ b ∈ bytes, 0 ≤ b) →
    words (bodyOf d bytes) = bytes.map fun b => fmtHexL d.byteFmtW b.toNat := by
  intro bytes
  induction bytes with
  | nil => intro _; rfl
  | cons b bs ih =>
    intro h
    have hb : 0 ≤ b := h b (by simp)
    have e : bodyOf d (b :: bs) = ' ' :: ' ' :: (fmtHexL d.byteFmtW b.toNat ++ bodyOf d bs) := by
      simp [bodyOf, fmtHexInt_nonneg _ hb]
    unfold words at ih ⊢
    rw [e]
    simp only [wordsAux, if_true]
    rw [wordsAux_word _ (fun c hc => (fmtHexL_chars _ _ c hc).1), List.nil_append,
      wordsAux_body d bs _ (fmtHexL_ne_nil _ _), ih (fun x hx => h x (by simp [hx]))]
    rfl

theorem allSome_hex (w : Nat) : ∀ (bytes : List Int), (∀ b ∈ bytes, 0 ≤ b) →
    allSome ((bytes.map fun b => fmtHexL w b.toNat).map fun s => pyIntL s 16) = some bytes := by
  intro bytes
  induction bytes with
  | nil => intro _; rfl
  | cons b bs ih =>
    intro h
    have hb : 0 ≤ b := h b (by simp)
    simp only [List.map_cons, pyIntL_fmtHexL, allSome, ih (fun x hx => h x (by simp [hx])), Option.map_some]
    rw [Int.toNat_of_nonneg hb]

theorem mkLine_eq (d : Dev) (addr : Int) (bytes : List Int) :
    mkLine d addr bytes = fmtHexInt d.addrFmtW addr ++ (':' :: bodyOf d bytes) := by
  simp [mkLine, bodyOf]

/-- One printed line reads back as its address and its bytes. -/
theorem parseMemLine_mkLine (d : Dev) (addr : Int) (bytes : List Int) (ha : 0 ≤ addr)
    (hb : ∀ b ∈ bytes, 0 ≤ b) : parseMemLine (mkLine d addr bytes) = some (addr, bytes) := by
  rw [mkLine_eq, fmtHexInt_nonneg _ ha]
  have hsp := span_stop (p := fun c => decide (c ≠ ':')) (l := fmtHexL d.addrFmtW addr.toNat)
    (r := ':' :: bodyOf d bytes)
    (fun c hc => by simpa using (fmtHexL_chars _ _ c hc).2)
    (fun c hc => by
      simp only [List.head?_cons, Option.some.injEq] at hc
      subst hc; simp)
  unfold parseMemLine
  simp only [hsp.1, hsp.2, pyIntL_fmtHexL, words_body d bytes hb, allSome_hex _ bytes hb]
  rw [Int.toNat_of_nonneg ha]

theorem parseMem_lines (d : Dev) : ∀ (groups : List (Int × List Int)),
    (∀ g ∈ groups, 0 ≤ g.1 ∧ ∀ b ∈ g.2, 0 ≤ b) →
    parseMem (groups.map fun g => mkLine d g.1 g.2) = some groups := by
  intro groups
  induction groups with
  | nil => intro _; rfl
  | cons g gs ih =>
    intro h
    obtain ⟨h1, h2⟩ := h g (by simp)
    simp only [List.map_cons, parseMem, parseMemLine_mkLine d g.1 g.2 h1 h2,
      ih (fun x hx => h x (by simp [hx]))]

/-- `(address, value)` pairs of consecutive addresses from `a` on. -/
def ItemsFrom : Int → List (Int × Int) → Prop
  | _, [] => True
  | a, (x, _) :: rest => x = a ∧ ItemsFrom (a + 1) rest

theorem mkLine_snoc (d : Dev) (addr : Int) (bs : List Int) (v : Int) :
    mkLine d addr bs ++ (' ' :: ' ' :: fmtHexInt d.byteFmtW v) = mkLine d addr (bs ++ [v]) := by
  simp [mkLine]

theorem mkLine_single (d : Dev) (addr v : Int) :
    fmtHexInt d.addrFmtW addr ++ [':'] ++ (' ' :: ' ' :: fmtHexInt d.byteFmtW v) = mkLine d addr [v] := by
  simp [mkLine]

/-- The line-wrapping loop: whatever the width, the printed lines are `mkLine` of groups that
together hold exactly the pending bytes and the remaining items, in order, and every group is
labelled with the address of its first byte. -/
theorem memLoop_spec (d : Dev) (width : Nat) : ∀ (items : List (Int × Int)) (addr : Int) (bs : List Int),
    ItemsFrom (addr + bs.length) items → 0 ≤ addr → (∀ b ∈ bs, 0 ≤ b) → (∀ it ∈ items, 0 ≤ it.2) →
    ∃ groups : List (Int × List Int),
      memLoop d width (mkLine d addr bs) items = groups.map (fun g => mkLine d g.1 g.2) ∧
      groups.flatMap (·.2) = bs ++ items.map (·.2) ∧
      GroupsFrom addr groups ∧
      (∀ g ∈ groups, 0 ≤ g.1 ∧ ∀ b ∈ g.2, 0 ≤ b) := by
  intro items
  induction items with
  | nil =>
    intro addr bs _ ha hbs _
    refine ⟨[(addr, bs)], by simp [memLoop], by simp, ⟨rfl, trivial⟩, ?_⟩
    intro g hg
    simp only [List.mem_singleton] at hg
    subst hg
    exact ⟨ha, hbs⟩
  | cons it rest ih =>
    intro addr bs hfrom ha hbs hits
    obtain ⟨x, v⟩ := it
    obtain ⟨hx, hrest⟩ := hfrom
    subst hx
    have hv : 0 ≤ v := hits (addr + bs.length, v) (by simp)
    have hits' : ∀ it ∈ rest, 0 ≤ it.2 := fun it h => hits it (by simp [h])
    simp only [memLoop]
    split_ifs with hex
    · -- the line is full: print it, start a new one at this address
      rw [mkLine_single]
      obtain ⟨groups, g1, g2, g3, g4⟩ := ih (addr + bs.length) [v]
        (by simpa using hrest) (by have := Int.natCast_nonneg bs.length; omega)
        (by intro b hb; simp only [List.mem_singleton] at hb; subst hb; exact hv) hits'
      refine ⟨(addr, bs) :: groups, by simp [g1], by simp [g2], ⟨rfl, g3⟩, ?_⟩
      intro g hg
      simp only [List.mem_cons] at hg
      rcases hg with rfl | hg
      · exact ⟨ha, hbs⟩
      · exact g4 g hg
    · rw [mkLine_snoc]
      obtain ⟨groups, g1, g2, g3, g4⟩ := ih addr (bs ++ [v])
        (by
          have e : addr + ((bs ++ [v]).length : Int) = addr + (bs.length : Int) + 1 := by
            simp only [List.length_append, List.length_singleton]; push_cast; omega
          rw [e]; exact hrest)
        ha
        (by
          intro b hb
          simp only [List.mem_append, List.mem_singleton] at hb
          rcases hb with hb | rfl
          · exact hbs b hb
          · exact hv)
        hits'
      exact ⟨groups, g1, by simp [g2], g3, g4⟩

theorem addrRange_cons (a b : Int) (h : a ≤ b) : addrRange a b = a :: addrRange (a + 1) b := by
  unfold addrRange
  have : (b + 1 - a).toNat = (b + 1 - (a + 1)).toNat + 1 := by omega
  rw [this, List.range_succ_eq_map, List.map_cons, List.map_map]
  simp only [Nat.cast_zero, Int.add_zero, List.cons.injEq, true_and]
  apply List.map_congr_left
  intro i _
  simp only [Function.comp, Nat.succ_eq_add_one]
  push_cast; omega

theorem addrRange_nil (a b : Int) (h : b < a) : addrRange a b = [] := by
  unfold addrRange
  have : (b + 1 - a).toNat = 0 := by omega
  rw [this]; rfl

theorem itemsFrom_zip : ∀ (n : Nat) (a b : Int) (vals : List Int), (b + 1 - a).toNat = n →
    ItemsFrom a ((addrRange a b).zip vals) := by
  intro n
  induction n with
  | zero =>
    intro a b vals h
    rw [addrRange_nil a b (by omega)]
    trivial
  | succ n ih =>
    intro a b vals h
    rw [addrRange_cons a b (by omega)]
    cases vals with
    | nil => trivial
    | cons v vs => exact ⟨rfl, ih (a + 1) b vs (by omega)⟩

theorem zip_map_snd : ∀ (l : List Int) (vals : List Int), l.length = vals.length → (l.zip vals).map (·.2) = vals := by
  intro l vals h
  rw [← List.unzip_snd, List.unzip_zip h]

/-! ### the monitor's own memory object -/

theorem monMem_physMask (AW : Nat) (cells : Int → Int) :
    (monMem AW cells).physMask = (if (AW : Int) > 16 then 0x3ffff else 0xffff) := rfl

theorem monMem_WF (AW : Nat) (cells : Int → Int) : WF (monMem AW cells) := init_WF AW cells

theorem monMem_subject (AW : Nat) (cells : Int → Int) : (monMem AW cells).subject = cells := rfl

theorem monMem_wsubs (AW : Nat) (cells : Int → Int) (a : Int) :
    (monMem AW cells).wsubs.of a = if a = 0xF001 then [1] else [] := by
  have hw := init_WF AW cells
  have h1 : Py.land 0xF001 (init AW cells).physMask = 0xF001 := by
    apply land_of_inRange hw (by omega)
    rcases hw.1 with h | h <;> rw [h] <;> omega
  simp only [monMem, subscribeRead, subscribeWrite, List.foldl, subOne, h1]
  simp [init]

theorem monMem_rsubs (AW : Nat) (cells : Int → Int) (a : Int) :
    (monMem AW cells).rsubs.of a = if a = 0xF004 then [2] else [] := by
  have hw := init_WF AW cells
  have h1 : Py.land 0xF004 (init AW cells).physMask = 0xF004 := by
    apply land_of_inRange hw (by omega)
    rcases hw.1 with h | h <;> rw [h] <;> omega
  have hpm : (subscribeWrite (init AW cells) [0xF001] 1).physMask = (init AW cells).physMask := rfl
  simp only [monMem, subscribeRead, List.foldl, subOne, hpm, h1]
  simp [subscribeWrite, init]

theorem monMem_wquiet (AW : Nat) (cells : Int → Int) : WQuiet monReply (monMem AW cells) := by
  intro a cb hcb i x v
  rw [monMem_wsubs] at hcb
  split_ifs at hcb
  · simp only [List.mem_singleton] at hcb
    subst hcb
    rfl
  · simp at hcb

/-- Ranges that avoid (every alias of) the getc register have no read subscriber. -/
theorem monMem_noReadSubs (AW : Nat) (cells : Int → Int) (a b : Int)
    (h : ∀ x, a ≤ x → x ≤ b → phys (monMem AW cells).physMask x ≠ 0xF004) :
    NoReadSubs (monMem AW cells) a b := by
  intro x h1 h2
  rw [monMem_rsubs]
  simp [h x h1 h2]

end Py65.Model.MonMem
