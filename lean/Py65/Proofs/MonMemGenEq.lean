/-
Tie by regeneration, C16: the GENERATED command front ends `do_fill / do_load / do_save / do_mem`
(`Py65/Gen/MonMemGen.lean`, translated from `py65/monitor.py` by `harness/py2lean_monmem.py` on
every run) equal the hand-written model `Py65.Model.MonMem.doFill / doLoad / doSave / doMem`, for
ALL argument strings, memories, parsers, devices and worlds (files, error texts).

The hand model works on TOKENS and yields an outcome as data (`Out`); the generated methods work on
the argument STRING, print lines and raise Python exceptions.  Each `do_X_eq` therefore says: split
the string with `shlex.split`; then the generated method ends exactly as the hand model's outcome
reads (`.wrote c s e` = the line "Wrote +c bytes from $s to $e" and normal completion, `.lines ls` =
those lines printed, `.saved n file` = the file closed with those octets and "Saved +n bytes to
<name>", `.help` = the usage text, an error outcome = the exception of the address parser -- caught
and printed by `do_fill`, leaving the method in the other three), with the memory object the hand
model computes.  What the hand model has no word for is stated here in full: `shlex.split`'s
`ValueError`, the texts of the error lines, and the OS failing (`open` / `urlopen` raising: "Cannot
load file / Cannot fetch remote file / Cannot save file", memory as it is at that point).

The generated `do_fill` / `do_load` call the GENERATED `_fill` (`MonFillGen._fill`), tied to the
model's `fill` by `MonFillGenEq.fill_eq`; its `while` loop is fuel-bounded, hence the `fuel`
hypotheses (any fuel above the size of the address space / the length of the file will do).
These are the proof obligations a change of those methods breaks.
-/
import Py65.Gen.MonMemGen
import Py65.Proofs.MonFillGenEq

namespace Py65.Proofs.MonMemGenEq
open Py65 Py65.Model Py65.Model.PyStr Py65.Model.ObsMem Py65.Model.AddrParser Py65.Model.MonMem
open Py65.Model.MonGenRt Py65.Model.MonMemRt Py65.Gen Py65.Spec.MonMem Py65.Proofs.Num
open Py65.Proofs.MonFillGenEq

/-! ### vocabulary: how the model's outcomes read as ends of the generated methods -/

/-- The exception (with its argument) a refusal of `number(tok)` is. -/
def resExc (w : World) (tok : Str) : Res → PExc
  | .key => .KeyError (w.keyText tok)
  | .overflow => .OverflowError (w.ovfArg tok)
  | _ => .Other []

/-- The exception (with its argument) a refusal of `range(tok)` is. -/
def rresExc (w : World) (tok : Str) : RRes → PExc
  | .key => .KeyError (w.keyText tok)
  | .overflow => .OverflowError (w.ovfArg tok)
  | _ => .Other []

theorem parseNumberX_eq (w : World) (P : Parser) (s : Str) :
    parseNumberX w P s = match numberL P s with
      | .ok v => .ok v
      | r => .error (resExc w s r) := by
  unfold parseNumberX; cases numberL P s <;> rfl

theorem parseRangeX_eq (w : World) (P : Parser) (s : Str) :
    parseRangeX w P s = match rangeL P s with
      | .ok a b => .ok (a, b)
      | r => .error (rresExc w s r) := by
  unfold parseRangeX; cases rangeL P s <;> rfl

/-- The model's `FillRes` as the end of the call `self._fill(...)` made by a command. -/
def fillM (d : Dev) (σ : MemSt) (r : FillRes × OM) : MFlow MemSt Unit :=
  match r.1 with
  | .wrote c s e => .ok () { σ with memory := r.2, out := σ.out ++ [wroteLine d c s e] }
  | .indexError => .raise .IndexError { σ with memory := r.2 }

/-- The call of the generated `_fill` from a command is the model's `fill` (by `fill_eq`). -/
theorem liftFill_eq (reply : Reply) (d : Dev) (fuel : Nat) (start stop : Int) (filler : List Int) (σ : MemSt)
    (hstop : start ≠ stop → stop ≤ d.addrMask)
    (hfuel : (fillStop d start stop filler.length + 1 - start).toNat < fuel) :
    liftFill (MonFillGen._fill reply d fuel start stop filler) σ =
      fillM d σ (fill reply d start stop filler σ.memory) := by
  unfold liftFill
  rw [fill_eq reply d fuel start stop filler { memory := σ.memory, out := σ.out } hstop hfuel]
  unfold fillFlow fillM
  cases (fill reply d start stop filler σ.memory).1 <;> rfl

theorem fillStop_le (d : Dev) (start stop : Int) (n : Nat) (h : start ≠ stop → stop ≤ d.addrMask) :
    fillStop d start stop n ≤ d.addrMask := by
  unfold fillStop
  split_ifs with h1 h2
  · exact le_refl _
  · omega
  · exact h h1

theorem pyGetItem_zero {α : Type} (x : α) (xs : List α) : pyGetItem (x :: xs) 0 = some x := by
  simp [pyGetItem, pyNormIndex]

theorem pyGetItem_one {α : Type} (x y : α) (xs : List α) : pyGetItem (x :: y :: xs) 1 = some y := by
  simp [pyGetItem, pyNormIndex]

theorem pyGetItem_two {α : Type} (x y z : α) (xs : List α) : pyGetItem (x :: y :: z :: xs) 2 = some z := by
  simp [pyGetItem, pyNormIndex]

theorem pySliceFrom_one {α : Type} (x : α) (xs : List α) : pySliceFrom (x :: xs) 1 = xs := by
  have h1 : ¬ ((1 : Int) < 0) := by omega
  have h2 : ¬ ((1 : Int) > (((x :: xs).length : Nat) : Int)) := by
    simp only [List.length_cons]; push_cast; omega
  simp only [pySliceFrom, pySliceBound, pyNormIndex, h1, h2, if_false]
  rfl

/-! ### `do_fill` -/

/-- The usage text `help_fill` prints. -/
def helpFill : List Str :=
  ["fill <address_range> <data_list>".toList,
   "Fill memory in the address range with the data in".toList,
   "<data_list>.  If the size of the address range is".toList,
   "greater than the size of the data_list, the data_list ".toList,
   "is repeated.".toList]

theorem help_fill_eq (w : World) (reply : Reply) (d : Dev) (P : Parser) (σ : MemSt) :
    MonMemGen.help_fill w reply d P σ = .ok () { σ with out := σ.out ++ helpFill } := by
  simp [MonMemGen.help_fill, helpFill]

/-- The exception that ends the loop over the data pieces (`value = number(piece)`, `if value >
self.byteMask: raise OverflowError(value)`), with its argument; `none` = the loop completes. -/
def fillerExc (w : World) (d : Dev) (P : Parser) : List Str → Option PExc
  | [] => none
  | piece :: rest =>
    match numberL P piece with
    | .ok v => if v > d.byteMask then some (.OverflowError v) else fillerExc w d P rest
    | r => some (resExc w piece r)

/-- The exception the `try:` part of `do_fill` ends with (`none` = it completes, `_fill` is called). -/
def fillExc (w : World) (d : Dev) (P : Parser) : List Str → Option PExc
  | [] => some .IndexError
  | r :: pieces =>
    match rangeL P r with
    | .ok _ _ => fillerExc w d P pieces
    | x => some (rresExc w r x)

/-- What `do_fill` does with an exception of its `try:` part: `except KeyError as exc:
self._output(exc.args[0])`, `except OverflowError as exc: self._output("Overflow: $%x" % exc.args[0])`;
anything else leaves the method. -/
def fillCaught (σ : MemSt) : PExc → MFlow MemSt Unit
  | .KeyError a => .ok () { σ with out := σ.out ++ [a] }
  | .OverflowError v => .ok () { σ with out := σ.out ++ ["Overflow: $".toList ++ pyFmtX 0 v] }
  | x => .raise x σ

/-- The generated data loop = the model's `parseFiller` (the model accumulates in reverse). -/
theorem fill_for1_eq (w : World) (reply : Reply) (d : Dev) (P : Parser) (σ : MemSt) :
    ∀ (pieces : List Str) (acc : List Int),
      MonMemGen.do_fill_for1 w reply d P pieces acc.reverse σ =
        match parseFiller d P pieces acc, fillerExc w d P pieces with
        | .inr f, _ => .ok f σ
        | .inl _, some x => .raise x σ
        | .inl _, none => .nofuel := by
  intro pieces
  induction pieces with
  | nil => intro acc; simp [MonMemGen.do_fill_for1, parseFiller, fillerExc]
  | cons p ps ih =>
    intro acc
    simp only [MonMemGen.do_fill_for1, parseNumberX_eq, parseFiller, fillerExc]
    cases hn : numberL P p with
    | ok v =>
      by_cases hv : v > d.byteMask
      · simp only [hv, if_true]
      · simp only [hv, if_false]
        have := ih (v :: acc)
        simp only [List.reverse_cons] at this
        exact this
    | key => rfl
    | overflow => rfl
    | other => rfl

/-- `parseFiller` fails exactly when `fillerExc` names an exception, of the kind of the outcome. -/
theorem fillerExc_kind (w : World) (d : Dev) (P : Parser) :
    ∀ (pieces : List Str) (acc : List Int),
      match parseFiller d P pieces acc, fillerExc w d P pieces with
      | .inr _, none => True
      | .inl .key, some (.KeyError _) => True
      | .inl .overflow, some (.OverflowError _) => True
      | .inl .other, some (.Other _) => True
      | _, _ => False := by
  intro pieces
  induction pieces with
  | nil => intro acc; simp [parseFiller, fillerExc]
  | cons p ps ih =>
    intro acc
    simp only [parseFiller, fillerExc]
    cases hn : numberL P p with
    | ok v =>
      by_cases hv : v > d.byteMask
      · simp only [hv, if_true]
      · simp only [hv, if_false]; exact ih (v :: acc)
    | key => simp [Out.ofRes, resExc]
    | overflow => simp [Out.ofRes, resExc]
    | other => simp [Out.ofRes, resExc]

/-- A value wider than a byte among otherwise well-formed pieces: the loop raises
`OverflowError(value)` with exactly that value. -/
theorem fillerExc_wide (w : World) (d : Dev) (P : Parser) :
    ∀ (pre : List Str) (pdata : List Int) (p : Str) (post : List Str) (v : Int),
      PiecesOk d P pre pdata → numberL P p = .ok v → v > d.byteMask →
      fillerExc w d P (pre ++ p :: post) = some (.OverflowError v) := by
  intro pre
  induction pre with
  | nil =>
    intro pdata p post v _ hp hv
    simp [fillerExc, hp, hv]
  | cons q qs ih =>
    intro pdata p post v hpre hp hv
    cases pdata with
    | nil => simp [PiecesOk] at hpre
    | cons x xs =>
      obtain ⟨h1, h2, h3⟩ := hpre
      have : ¬ x > d.byteMask := by omega
      simp only [List.cons_append, fillerExc, h1, this, if_false]
      exact ih xs p post v h3 hp hv

/-- The outcome of the model's `doFill` as the end of the generated `do_fill` (`x` = the exception of
the `try:` part, if any: it supplies the text of the error line). -/
def fillEnd (d : Dev) (σ : MemSt) (x : Option PExc) : MonMem.Out × OM → MFlow MemSt Unit
  | (.help, _) => .ok () { σ with out := σ.out ++ helpFill }
  | (.wrote c s e, m') => .ok () { σ with memory := m', out := σ.out ++ [wroteLine d c s e] }
  | (.indexError, m') => .raise .IndexError { σ with memory := m' }
  | (_, _) => match x with
    | some x => fillCaught σ x
    | none => .nofuel

/-- `GenEq` for `do_fill`, for ALL argument strings: `shlex.split` failing is its `ValueError`;
otherwise the generated method ends as the model's `doFill` on the tokens says -- the usage text for
fewer than two tokens; the parser's `KeyError` / `OverflowError` (address too wide, value wider than
a byte) caught and printed with the memory untouched; otherwise the GENERATED `_fill` on the parsed
values, which is the model's `fill` (`fill_eq`).  `fillExc_kind` ties the printed error to the
model's outcome.  Fuel: above the size of the address space. -/
theorem do_fill_eq (w : World) (reply : Reply) (d : Dev) (P : Parser) (fuel : Nat) (args : Str) (σ : MemSt)
    (hwf : P.WF) (hP : P.maxaddr = d.addrMask) (hfuel : (d.addrMask + 1).toNat < fuel) :
    MonMemGen.do_fill w reply d P fuel args σ =
      match MonCmd.shlexSplit args with
      | none => .raise .ValueError σ
      | some split => fillEnd d σ (fillExc w d P split) (doFill reply d P split σ.memory) := by
  unfold MonMemGen.do_fill
  cases hs : MonCmd.shlexSplit args with
  | none => rfl
  | some split =>
    match split with
    | [] =>
      have hl : (((([] : List Str).length : Nat) : Int) < 2) := by simp
      simp only [hl, if_true, help_fill_eq, doFill, fillEnd]
    | [r] =>
      have hl : (((([r] : List Str).length : Nat) : Int) < 2) := by simp
      simp only [hl, if_true, help_fill_eq, doFill, fillEnd]
    | r :: p :: ps =>
      have hl : ¬ ((((r :: p :: ps).length : Nat) : Int) < 2) := by
        simp only [List.length_cons]; push_cast; omega
      simp only [hl, if_false, MonMemGen.do_fill_try1, pyGetItem_zero, parseRangeX_eq, pySliceFrom_one,
        doFill, fillExc]
      cases hr : rangeL P r with
      | ok start stop =>
        obtain ⟨hab, h0, hb⟩ := rangeL_ordered hwf hr
        rw [hP] at hb
        have hf := fill_for1_eq w reply d P σ (p :: ps) []
        have hk := fillerExc_kind w d P (p :: ps) []
        simp only [List.reverse_nil] at hf
        simp only [hf]
        cases hpf : parseFiller d P (p :: ps) [] with
        | inr filler =>
          simp only [MFlow.bind_ok]
          have hE := fillStop_le d start stop filler.length (fun _ => hb)
          rw [liftFill_eq reply d fuel start stop filler σ (fun _ => hb) (by omega)]
          unfold fillM fillEnd
          cases (fill reply d start stop filler σ.memory).1 <;> simp [Out.ofFill]
        | inl o =>
          rw [hpf] at hk
          cases hx : fillerExc w d P (p :: ps) with
          | none => rw [hx] at hk; cases o <;> simp at hk
          | some x =>
            rw [hx] at hk
            simp only [MFlow.bind_raise]
            cases o <;> cases x <;> simp at hk <;> simp [fillEnd, fillCaught]
      | key => simp [rresExc, fillEnd, fillCaught]
      | overflow => simp [rresExc, fillEnd, fillCaught]
      | other => simp [rresExc, fillEnd, fillCaught]

/-! ### `do_mem` -/

/-- The usage text `help_mem` prints. -/
def helpMem : List Str :=
  ["mem <address_range>".toList,
   "Display the contents of memory.".toList,
   "Range is specified like \"<start:end>\".".toList]

theorem help_mem_eq (w : World) (reply : Reply) (d : Dev) (P : Parser) (σ : MemSt) :
    MonMemGen.help_mem w reply d P σ = .ok () { σ with out := σ.out ++ helpMem } := by
  simp [MonMemGen.help_mem, helpMem]

/-- The generated line-wrapping loop followed by the final `self._output(line)`: it prints exactly
the lines of the model's `memLoop` over the addresses zipped with what reading them returns, and
leaves the memory object as those reads leave it (the code reads and prints in turn, the model reads
everything first: the same, because printing does not touch the memory). -/
theorem mem_for1_eq (w : World) (reply : Reply) (d : Dev) (P : Parser) :
    ∀ (addrs : List Int) (line : Str) (σ : MemSt), 0 ≤ σ.width →
      ((MonMemGen.do_mem_for1 w reply d P addrs line σ).bind fun r σ' =>
          (.ok () { σ' with out := σ'.out ++ [r] } : MFlow MemSt Unit)) =
        .ok () { σ with memory := (getMany reply addrs σ.memory).2,
                        out := σ.out ++ memLoop d σ.width.toNat line (addrs.zip (getMany reply addrs σ.memory).1) } := by
  intro addrs
  induction addrs with
  | nil => intro line σ _; rfl
  | cons a as ih =>
    intro line σ hw
    have hsp : "  ".toList = [' ', ' '] := rfl
    have hcol : ":".toList = [':'] := rfl
    by_cases hex : ((line.length : Int) + ((' ' :: ' ' :: fmtHexInt d.byteFmtW (get reply σ.memory a).1).length : Int)) > σ.width
    · have hex' : line.length + (' ' :: ' ' :: fmtHexInt d.byteFmtW (get reply σ.memory a).1).length > σ.width.toNat := by
        omega
      have := ih (fmtHexInt d.addrFmtW a ++ [':'] ++ (' ' :: ' ' :: fmtHexInt d.byteFmtW (get reply σ.memory a).1))
        { σ with memory := (get reply σ.memory a).2, out := σ.out ++ [line] } hw
      simp only [MonMemGen.do_mem_for1, pyFmtX, hsp, hcol, List.cons_append, List.nil_append, hex, decide_true,
        if_true, getMany, List.zip_cons_cons, memLoop, hex']
      rw [this]
      simp only [List.append_assoc, List.cons_append, List.nil_append]
    · have hex' : ¬ (line.length + (' ' :: ' ' :: fmtHexInt d.byteFmtW (get reply σ.memory a).1).length > σ.width.toNat) := by
        omega
      have := ih (line ++ (' ' :: ' ' :: fmtHexInt d.byteFmtW (get reply σ.memory a).1))
        { σ with memory := (get reply σ.memory a).2 } hw
      simp only [MonMemGen.do_mem_for1, pyFmtX, hsp, List.cons_append, List.nil_append, hex, decide_false,
        Bool.false_eq_true, if_false, getMany, List.zip_cons_cons, memLoop, hex']
      rw [this]

/-- The outcome of the model's `doMem` as the end of the generated `do_mem`. -/
def memEnd (w : World) (P : Parser) (σ : MemSt) (split : List Str) : MonMem.Out × OM → MFlow MemSt Unit
  | (.help, _) => .ok () { σ with out := σ.out ++ helpMem }
  | (.lines ls, m') => .ok () { σ with memory := m', out := σ.out ++ ls }
  | (_, _) => .raise (rresExc w (split.headD []) (rangeL P (split.headD []))) σ

/-- `GenEq` for `do_mem`, for ALL argument strings and EVERY width setting (`self._width ≥ 0`): the
usage text unless there is exactly one token; the parser's exception for a bad range (it leaves the
method, memory untouched); otherwise exactly the lines of the model, memory as the reads leave it. -/
theorem do_mem_eq (w : World) (reply : Reply) (d : Dev) (P : Parser) (args : Str) (σ : MemSt)
    (hw : 0 ≤ σ.width) :
    MonMemGen.do_mem w reply d P args σ =
      match MonCmd.shlexSplit args with
      | none => .raise .ValueError σ
      | some split => memEnd w P σ split (doMem reply d P σ.width.toNat split σ.memory) := by
  unfold MonMemGen.do_mem
  cases hs : MonCmd.shlexSplit args with
  | none => rfl
  | some split =>
    match split with
    | [] =>
      have hl : ¬ (((([] : List Str).length : Nat) : Int) = 1) := by simp
      simp only [ne_eq, hl, not_false_eq_true, if_true, help_mem_eq, doMem, memEnd]
    | [r] =>
      have hl : ((([r] : List Str).length : Nat) : Int) = 1 := rfl
      simp only [ne_eq, hl, not_true_eq_false, if_false, pyGetItem_zero, parseRangeX_eq, doMem]
      cases hr : rangeL P r with
      | ok start stop =>
        have hcol : ":".toList = [':'] := rfl
        have := mem_for1_eq w reply d P (pyRange start (stop + 1) 1) (fmtHexInt d.addrFmtW start ++ [':']) σ hw
        simp only [pyFmtX, hcol, memEnd]
        exact this
      | key => simp [memEnd, hr]
      | overflow => simp [memEnd, hr]
      | other => simp [memEnd, hr]
    | a :: b :: rest =>
      have hl : ¬ (((a :: b :: rest).length : Int) = 1) := by
        simp only [List.length_cons]; push_cast; omega
      simp only [ne_eq, hl, not_false_eq_true, if_true, help_mem_eq, doMem, memEnd]

/-! ### `do_save` -/

/-- The cell-by-cell comprehension `[self._mpu.memory[addr] for addr in range(start, end + 1)]` is
the model's `getMany`. -/
theorem save_comp1_eq (w : World) (reply : Reply) (d : Dev) (P : Parser) :
    ∀ (addrs acc : List Int) (σ : MemSt),
      MonMemGen.do_save_comp1 w reply d P addrs acc σ =
        .ok (acc ++ (getMany reply addrs σ.memory).1) { σ with memory := (getMany reply addrs σ.memory).2 } := by
  intro addrs
  induction addrs with
  | nil => intro acc σ; simp [MonMemGen.do_save_comp1, getMany]
  | cons a as ih =>
    intro acc σ
    simp only [MonMemGen.do_save_comp1, getMany, ih, List.append_assoc, List.cons_append, List.nil_append]

/-- `range(self.byteWidth - 8, -1, -8)`: the shift amounts `BW-8, BW-16, …, 0` (for any width). -/
theorem pyRange_shifts (d : Dev) :
    pyRange ((d.BW : Int) - 8) (-1) (-8) =
      ((List.range (d.BW / 8)).map fun i => d.BW - 8 - 8 * i).map fun (k : Nat) => (k : Int) := by
  unfold pyRange rangeLen
  have hs : ¬ ((-8 : Int) > 0) := by omega
  have hneg : (-(-8 : Int)) = 8 := by norm_num
  simp only [hs, if_false, hneg]
  by_cases h8 : (-1 : Int) < (d.BW : Int) - 8
  · have hn : (((d.BW : Int) - 8 - (-1) - 1) / 8 + 1).toNat = d.BW / 8 := by omega
    simp only [h8, if_true, hn, List.map_map]
    apply List.map_congr_left
    intro i hi
    have hi' : i < d.BW / 8 := List.mem_range.mp hi
    simp only [Function.comp]
    omega
  · have hn : d.BW / 8 = 0 := by omega
    simp only [h8, if_false, hn, List.range_zero, List.map_nil]

theorem byte_ok (x : Int) : pyByteArray [Py.land x 255] = some [Py.land x 255] := by
  have h := land_ff x
  have h1 : Py.land x 255 = x % 256 := h
  have h2 : 0 ≤ x % 256 := Int.emod_nonneg x (by omega)
  have h3 : x % 256 < 256 := Int.emod_lt_of_pos x (by omega)
  have h4 : (decide (0 ≤ Py.land x 255) && decide (Py.land x 255 ≤ 255)) = true := by
    rw [h1]; simp only [Bool.and_eq_true, decide_eq_true_eq]; omega
  simp only [pyByteArray, List.all_cons, List.all_nil, Bool.and_true, h4, if_true]

/-- The octet loop over explicit non-negative shift amounts. -/
theorem save_for2_shifts (w : World) (reply : Reply) (d : Dev) (P : Parser) (m : Int) (σ : MemSt) :
    ∀ (shifts : List Nat) (f : WFile),
      MonMemGen.do_save_for2 w reply d P m (shifts.map fun (k : Nat) => (k : Int)) f σ =
        .ok (pyFileWrite f (shifts.map fun k => Py.land (Py.shr m k) 0xff)) σ := by
  intro shifts
  induction shifts with
  | nil => intro f; simp [MonMemGen.do_save_for2, pyFileWrite]
  | cons k ks ih =>
    intro f
    have hk : ¬ ((k : Int) < 0) := by omega
    simp only [List.map_cons, MonMemGen.do_save_for2, pyShr, hk, if_false, Int.toNat_natCast, byte_ok, ih]
    simp [pyFileWrite]

/-- `for shift in range(self.byteWidth - 8, -1, -8): f.write(bytearray([(m >> shift) & 0xff]))`
appends the model's `octets d m`. -/
theorem save_for2_eq (w : World) (reply : Reply) (d : Dev) (P : Parser) (m : Int) (f : WFile) (σ : MemSt) :
    MonMemGen.do_save_for2 w reply d P m (pyRange ((d.BW : Int) - 8) (-1) (-8)) f σ =
      .ok (pyFileWrite f (octets d m)) σ := by
  rw [pyRange_shifts, save_for2_shifts]
  simp only [octets, List.map_map]
  rfl

theorem save_for1_eq (w : World) (reply : Reply) (d : Dev) (P : Parser) (σ : MemSt) :
    ∀ (mem : List Int) (f : WFile),
      MonMemGen.do_save_for1 w reply d P mem f σ = .ok (pyFileWrite f (mem.flatMap (octets d))) σ := by
  intro mem
  induction mem with
  | nil => intro f; simp [MonMemGen.do_save_for1, pyFileWrite]
  | cons m ms ih =>
    intro f
    simp only [MonMemGen.do_save_for1, save_for2_eq, MFlow.bind_ok, ih, List.flatMap_cons]
    simp [pyFileWrite]

/-- "Saved +%d bytes to %s" -/
def savedLine (n : Nat) (name : Str) : Str :=
  "Saved +".toList ++ pyFmtD (n : Int) ++ " bytes to ".toList ++ name

/-- "Cannot save file: [%d] %s" -/
def cannotSave (e : Int × Str) : Str :=
  "Cannot save file: [".toList ++ pyFmtD e.1 ++ "] ".toList ++ e.2

/-- The exception with which `do_save` leaves when a token is refused (`start` is parsed first). -/
def saveExc (w : World) (P : Parser) (s e : Str) : PExc :=
  match numberL P s with
  | .ok _ => resExc w e (numberL P e)
  | r => resExc w s r

/-- The `try:` part of `do_save`: `open(name, 'wb')` raising leaves it at once; otherwise every cell's
octets are written and the file is closed. -/
theorem save_try1_eq (w : World) (reply : Reply) (d : Dev) (P : Parser) (args : Str) (split : List Str)
    (name : Str) (start stop : Int) (mem : List Int) (σ : MemSt) :
    MonMemGen.do_save_try1 w reply d P args split name start stop mem σ =
      match w.openW name with
      | none => .ok (name, mem.flatMap (octets d)) { σ with files := σ.files ++ [(name, mem.flatMap (octets d))] }
      | some err => .raise (.OSError err.1 err.2) σ := by
  unfold MonMemGen.do_save_try1 pyOpenW
  cases w.openW name with
  | none => simp only [save_for1_eq, MFlow.bind_ok, pyFileWrite, List.nil_append]
  | some err => rfl

/-- The outcome of the model's `doSave` as the end of the generated `do_save` for the file name `name`:
the file is opened AFTER the cells have been read; if `open` raises, "Cannot save file: …" is printed
(no file, the memory as the reads left it); else the octets are written, the file closed and "Saved
+n bytes to <name>" printed. -/
def saveEnd (w : World) (P : Parser) (σ : MemSt) (name s e : Str) : MonMem.Out × OM → MFlow MemSt Unit
  | (.saved n file, m') =>
    match w.openW name with
    | none => .ok () { σ with memory := m', files := σ.files ++ [(name, file)], out := σ.out ++ [savedLine n name] }
    | some err => .ok () { σ with memory := m', out := σ.out ++ [cannotSave err] }
  | (_, _) => .raise (saveExc w P s e) σ

/-- `GenEq` for `do_save`, for ALL argument strings (and any device width): "Syntax error: …" unless
there are exactly three tokens; the parser's exception for a bad address leaves the method before
anything is read; otherwise the model's `doSave` (cells read one by one, `BW/8` octets per cell,
most significant first). -/
theorem do_save_eq (w : World) (reply : Reply) (d : Dev) (P : Parser) (args : Str) (σ : MemSt) :
    MonMemGen.do_save w reply d P args σ =
      match MonCmd.shlexSplit args with
      | none => .raise .ValueError σ
      | some [name, s, e] => saveEnd w P σ name s e (doSave reply d P [s, e] σ.memory)
      | some _ => .ok () { σ with out := σ.out ++ ["Syntax error: ".toList ++ args] } := by
  unfold MonMemGen.do_save
  cases hs : MonCmd.shlexSplit args with
  | none => rfl
  | some split =>
    match split with
    | [] =>
      have hl : ¬ (((([] : List Str).length : Nat) : Int) = 3) := by simp
      simp only [ne_eq, hl, not_false_eq_true, if_true]
    | [a] =>
      have hl : ¬ (((([a] : List Str).length : Nat) : Int) = 3) := by simp
      simp only [ne_eq, hl, not_false_eq_true, if_true]
    | [a, b] =>
      have hl : ¬ (((([a, b] : List Str).length : Nat) : Int) = 3) := by simp
      simp only [ne_eq, hl, not_false_eq_true, if_true]
    | [name, s, e] =>
      have hl : ((([name, s, e] : List Str).length : Nat) : Int) = 3 := rfl
      simp only [ne_eq, hl, not_true_eq_false, if_false, pyGetItem_zero, pyGetItem_one, pyGetItem_two,
        parseNumberX_eq, doSave]
      cases hns : numberL P s with
      | ok start =>
        cases hne : numberL P e with
        | ok stop =>
          simp only [save_comp1_eq, MFlow.bind_ok, List.nil_append, save_try1_eq, saveEnd]
          cases ho : w.openW name with
          | none => rfl
          | some err => rfl
        | key => simp [saveEnd, Out.ofRes, saveExc, hns, hne]
        | overflow => simp [saveEnd, Out.ofRes, saveExc, hns, hne]
        | other => simp [saveEnd, Out.ofRes, saveExc, hns, hne]
      | key => simp [saveEnd, Out.ofRes, saveExc, hns]
      | overflow => simp [saveEnd, Out.ofRes, saveExc, hns]
      | other => simp [saveEnd, Out.ofRes, saveExc, hns]
    | a :: b :: c :: e :: rest =>
      have hl : ¬ (((a :: b :: c :: e :: rest).length : Int) = 3) := by
        simp only [List.length_cons]; push_cast; omega
      simp only [ne_eq, hl, not_false_eq_true, if_true]

/-! ### `do_load` -/

theorem pairs_everyNth (f : Int → Int → Int) (hf : ∀ a b, f a b = Py.shl a 8 + b) :
    ∀ (n : Nat) (bs : List Int), bs.length ≤ n →
      List.zipWith f (everyNth 2 n bs) (everyNth 2 n (bs.drop 1)) = pairs bs := by
  intro n
  induction n with
  | zero =>
    intro bs h
    have : bs = [] := List.length_eq_zero_iff.mp (by omega)
    subst this; rfl
  | succ n ih =>
    intro bs h
    match bs with
    | [] => rfl
    | [x] => simp [everyNth, pairs]
    | x :: y :: rest =>
      have hl : rest.length ≤ n := by simp only [List.length_cons] at h; omega
      simp only [everyNth, List.drop_succ_cons, List.drop_zero, List.zipWith_cons_cons, pairs, hf]
      have := ih rest hl
      simp only [Nat.add_one_sub_one] at this ⊢
      rw [this]

/-- `list(map(format, bytes[0::2], bytes[1::2]))` with `format(msb, lsb) = (msb << 8) + lsb` is the
model's `pairs` (an odd trailing octet is dropped: `map` stops at the shorter slice). -/
theorem pairs_eq (bs : List Int) :
    pyMap2 (fun msb lsb => Py.shl msb 8 + lsb) (pySliceFromStep bs 0 2) (pySliceFromStep bs 1 2) = pairs bs := by
  have h0 : pySliceFrom bs 0 = bs := by
    have hn : ¬ ((bs.length : Int) < 0) := by omega
    simp [pySliceFrom, pySliceBound, pyNormIndex, hn]
  have h1 : pySliceFrom bs 1 = bs.drop 1 := by
    cases bs with
    | nil => simp [pySliceFrom, pySliceBound, pyNormIndex]
    | cons x xs => rw [pySliceFrom_one]; rfl
  unfold pyMap2 pySliceFromStep
  rw [h0, h1]
  exact pairs_everyNth _ (fun _ _ => rfl) bs.length bs (le_refl _)

/-- The data preparation of `do_load` (`if self.byteWidth == 8: … elif self.byteWidth == 16: …`). -/
theorem loadData_eq (d : Dev) (bs : List Int) :
    (if (d.BW : Int) = 8 then List.map (fun (b : Int) => b) bs
     else if (d.BW : Int) = 16 then
       pyMap2 (fun msb lsb => Py.shl msb 8 + lsb) (pySliceFromStep bs 0 2) (pySliceFromStep bs 1 2)
     else bs) = loadData d bs := by
  unfold loadData
  by_cases h8 : d.BW = 8
  · have : (d.BW : Int) = 8 := by exact_mod_cast h8
    rw [if_pos this, if_pos h8, List.map_id']
  · have n8 : ¬ ((d.BW : Int) = 8) := by exact_mod_cast h8
    by_cases h16 : d.BW = 16
    · have : (d.BW : Int) = 16 := by exact_mod_cast h16
      rw [if_neg n8, if_pos this, if_neg h8, if_pos h16, pairs_eq]
    · have n16 : ¬ ((d.BW : Int) = 16) := by exact_mod_cast h16
      rw [if_neg n8, if_neg n16, if_neg h8, if_neg h16]

theorem loadData_length_le (d : Dev) (bs : List Int) : (loadData d bs).length ≤ bs.length := by
  unfold loadData
  split_ifs
  · exact le_refl _
  · rw [pairs_length]; omega
  · exact le_refl _

/-- A one-address range never needs more iterations than there are data items. -/
theorem fillStop_self_fuel (d : Dev) (a : Int) (n : Nat) : (fillStop d a a n + 1 - a).toNat ≤ n := by
  unfold fillStop
  simp only [if_true]
  split_ifs <;> omega

/-- The rest of `do_load` after the start address is known: data preparation and the GENERATED
`_fill(start, start, bytes)`. -/
theorem load_join2_eq (w : World) (reply : Reply) (d : Dev) (P : Parser) (fuel : Nat) (args : Str)
    (split : List Str) (name : Str) (f bytes : List Int) (start : Int) (σ : MemSt) (hfuel : bytes.length < fuel) :
    MonMemGen.do_load_join2 w reply d P fuel args split name f bytes start σ =
      fillM d σ (fill reply d start start (loadData d bytes) σ.memory) := by
  have h1 := fillStop_self_fuel d start (loadData d bytes).length
  have h2 := loadData_length_le d bytes
  simp only [MonMemGen.do_load_join2, loadData_eq]
  rw [liftFill_eq reply d fuel start start (loadData d bytes) σ (fun h => absurd rfl h) (by omega)]
  unfold fillM
  cases (fill reply d start start (loadData d bytes) σ.memory).1 <;> rfl

/-- The rest of `do_load` after the file has been read: placement (`top`, a number, or the PC) is
the model's `loadStart`; a refused address leaves the method at once.  `8 ≤ BW`: `self.byteWidth //
8` is not 0 (else Python raises ZeroDivisionError where the hand model divides by zero Lean-style).
No fuel is involved up to here. -/
theorem load_join1_eq (w : World) (reply : Reply) (d : Dev) (P : Parser) (fuel : Nat) (args : Str)
    (name : Str) (rest : List Str) (f bytes : List Int) (σ : MemSt)
    (hBW : 8 ≤ d.BW) (hrest : rest.length ≤ 1) :
    MonMemGen.do_load_join1 w reply d P fuel args (name :: rest) name f bytes σ =
      match loadStart d P bytes rest σ.pc with
      | .inr start => MonMemGen.do_load_join2 w reply d P fuel args (name :: rest) name f bytes start σ
      | .inl _ => .raise (resExc w (rest.headD []) (numberL P (rest.headD []))) σ := by
  unfold MonMemGen.do_load_join1
  match rest with
  | [] =>
    have hl : ¬ ((([name] : List Str).length : Int) = 2) := by simp
    simp only [hl, if_false, loadStart]
  | [t] =>
    have hl : (([name, t] : List Str).length : Int) = 2 := rfl
    have htop : "top".toList = ['t', 'o', 'p'] := rfl
    have hdiv : Int.fdiv (d.BW : Int) 8 = (d.BW : Int) / 8 := Int.fdiv_eq_ediv_of_nonneg _ (by omega)
    have hne : ¬ ((d.BW : Int) / 8 = 0) := by omega
    have hdiv2 : Int.fdiv (bytes.length : Int) ((d.BW : Int) / 8) = (bytes.length : Int) / ((d.BW : Int) / 8) :=
      Int.fdiv_eq_ediv_of_nonneg _ (by omega)
    simp only [hl, if_true, pyGetItem_one, htop, loadStart]
    by_cases ht : t = ['t', 'o', 'p']
    · simp only [ht, if_true, pyFloorDiv, hdiv, hne, if_false, hdiv2]
    · simp only [ht, if_false, parseNumberX_eq]
      cases hn : numberL P t with
      | ok a => rfl
      | key => simp [hn]
      | overflow => simp [hn]
      | other => simp [hn]
  | a :: b :: r => simp at hrest

/-- Where `do_load` gets the octets from: `urlopen(name).read()` if the name contains "://", else
`open(name, 'rb').read()`. -/
def loadSource (w : World) (name : Str) : Except PExc (List Int) :=
  if pyStrIn "://".toList name = true then pyUrlopen w name else pyOpenR w name

/-- The line printed when the octets cannot be got: "Cannot load file: [errno] strerror" for the
`OSError` of `open`, "Cannot fetch remote file: <str(exc)>" for whatever `urlopen` raised. -/
def loadErrLine : PExc → Str
  | .OSError en se => "Cannot load file: [".toList ++ pyFmtD en ++ "] ".toList ++ se
  | x => "Cannot fetch remote file: ".toList ++ x.str

theorem loadStart_inl {d : Dev} {P : Parser} {file : List Int} {rest : List Str} {pc : Int} {o : MonMem.Out}
    (h : loadStart d P file rest pc = .inl o) :
    o = .key ∨ o = .overflow ∨ o = .other ∨ o = .syntaxError := by
  unfold loadStart at h
  split at h
  · cases h
  · split at h
    · cases h
    · split at h
      · cases h
      · rename_i t _ _ _
        injection h with h
        subst h
        generalize numberL P t = r
        cases r <;> simp [Out.ofRes]
  · injection h with h
    subst h
    simp

/-- `do_load` up to the call of `_fill` (no fuel involved): "Syntax error: …" unless there are one
or two tokens (decided BEFORE the file is touched); a file / URL that cannot be read prints its error
line; a start address the parser refuses leaves the method; in all these cases the state is otherwise
exactly as it was.  Otherwise the data preparation and `_fill` (`do_load_join2`). -/
theorem do_load_pre_eq (w : World) (reply : Reply) (d : Dev) (P : Parser) (fuel : Nat) (args : Str) (σ : MemSt)
    (hBW : 8 ≤ d.BW) :
    MonMemGen.do_load w reply d P fuel args σ =
      match MonCmd.shlexSplit args with
      | none => .raise .ValueError σ
      | some [] => .ok () { σ with out := σ.out ++ ["Syntax error: ".toList ++ args] }
      | some (name :: rest) =>
        if 2 ≤ rest.length then .ok () { σ with out := σ.out ++ ["Syntax error: ".toList ++ args] }
        else match loadSource w name with
          | .error x => .ok () { σ with out := σ.out ++ [loadErrLine x] }
          | .ok file =>
            match loadStart d P file rest σ.pc with
            | .inr start => MonMemGen.do_load_join2 w reply d P fuel args (name :: rest) name file file start σ
            | .inl _ => .raise (resExc w (rest.headD []) (numberL P (rest.headD []))) σ := by
  unfold MonMemGen.do_load
  cases hs : MonCmd.shlexSplit args with
  | none => rfl
  | some split =>
    match split with
    | [] =>
      have hl : ¬ ((((([] : List Str).length : Nat) : Int) = 1) ∨ (((([] : List Str).length : Nat) : Int) = 2)) := by
        simp
      simp only [hl, not_false_eq_true, if_true]
    | name :: rest =>
      by_cases h2 : 2 ≤ rest.length
      · have hl : ¬ (((name :: rest).length : Int) = 1 ∨ ((name :: rest).length : Int) = 2) := by
          simp only [List.length_cons]; push_cast; omega
        simp only [hl, not_false_eq_true, if_true, h2]
      · have hl : (((name :: rest).length : Int) = 1 ∨ ((name :: rest).length : Int) = 2) := by
          simp only [List.length_cons]; push_cast; omega
        have hrest : rest.length ≤ 1 := by omega
        simp only [hl, not_true_eq_false, if_false, h2, pyGetItem_zero, loadSource]
        by_cases hu : pyStrIn "://".toList name = true
        · simp only [hu, if_true, MonMemGen.do_load_try1]
          cases hsrc : pyUrlopen w name with
          | error x =>
            have hx : ∃ t, x = .Other t := by
              unfold pyUrlopen at hsrc
              cases hq : w.urlopen name with
              | ok bs => simp [hq] at hsrc
              | error t => simp [hq] at hsrc; exact ⟨t, hsrc.symm⟩
            obtain ⟨t, rfl⟩ := hx
            rfl
          | ok file =>
            simp only [load_join1_eq w reply d P fuel args name rest file file σ hBW hrest]
        · simp only [hu, if_false, Bool.false_eq_true, MonMemGen.do_load_try2]
          cases hsrc : pyOpenR w name with
          | error x =>
            have hx : ∃ en se, x = .OSError en se := by
              unfold pyOpenR at hsrc
              cases hq : w.openR name with
              | ok bs => simp [hq] at hsrc
              | error e => simp [hq] at hsrc; exact ⟨e.1, e.2, hsrc.symm⟩
            obtain ⟨en, se, rfl⟩ := hx
            rfl
          | ok file =>
            simp only [load_join1_eq w reply d P fuel args name rest file file σ hBW hrest]

/-- The outcome of the model's `doLoad` as the end of the generated `do_load` once the file has
been read (`rest` = the tokens after the file name, at most one). -/
def loadEnd (w : World) (d : Dev) (P : Parser) (σ : MemSt) (rest : List Str) : MonMem.Out × OM → MFlow MemSt Unit
  | (.wrote c s e, m') => .ok () { σ with memory := m', out := σ.out ++ [wroteLine d c s e] }
  | (.indexError, m') => .raise .IndexError { σ with memory := m' }
  | (_, _) => .raise (resExc w (rest.headD []) (numberL P (rest.headD []))) σ

/-- `GenEq` for `do_load`, for ALL argument strings: as `do_load_pre_eq`, and once the octets are
there the generated method ends as the model's `doLoad` on the octets and the tokens after the name
says: the parser's exception for a bad address, else the GENERATED `_fill(start, start, data)`, which
is the model's `fill`.  Fuel: above the length of the file read. -/
theorem do_load_eq (w : World) (reply : Reply) (d : Dev) (P : Parser) (fuel : Nat) (args : Str) (σ : MemSt)
    (hBW : 8 ≤ d.BW)
    (hfuel : ∀ name rest file, MonCmd.shlexSplit args = some (name :: rest) → loadSource w name = .ok file →
      file.length < fuel) :
    MonMemGen.do_load w reply d P fuel args σ =
      match MonCmd.shlexSplit args with
      | none => .raise .ValueError σ
      | some [] => .ok () { σ with out := σ.out ++ ["Syntax error: ".toList ++ args] }
      | some (name :: rest) =>
        if 2 ≤ rest.length then .ok () { σ with out := σ.out ++ ["Syntax error: ".toList ++ args] }
        else match loadSource w name with
          | .error x => .ok () { σ with out := σ.out ++ [loadErrLine x] }
          | .ok file => loadEnd w d P σ rest (doLoad reply d P file rest σ.pc σ.memory) := by
  rw [do_load_pre_eq w reply d P fuel args σ hBW]
  cases hs : MonCmd.shlexSplit args with
  | none => rfl
  | some split =>
    match split with
    | [] => rfl
    | name :: rest =>
      by_cases h2 : 2 ≤ rest.length
      · simp only [h2, if_true]
      · simp only [h2, if_false]
        cases hsrc : loadSource w name with
        | error x => rfl
        | ok file =>
          have hf := hfuel name rest file hs hsrc
          simp only [doLoad]
          cases hst : loadStart d P file rest σ.pc with
          | inr start =>
            simp only [load_join2_eq _ _ _ _ _ _ _ _ _ _ _ _ hf]
            unfold fillM loadEnd
            cases (fill reply d start start (loadData d file) σ.memory).1 <;> rfl
          | inl o =>
            rcases loadStart_inl hst with rfl | rfl | rfl | rfl <;> rfl

/-! ### the two usage texts no command of this unit calls (`help load`, `help save` reach them through `cmd.Cmd`) -/

theorem help_load_eq (w : World) (reply : Reply) (d : Dev) (P : Parser) (σ : MemSt) :
    MonMemGen.help_load w reply d P σ = .ok () { σ with out := σ.out ++
      ["load <filename|url> <address|top>".toList,
       "Load a file into memory at the specified address.".toList,
       "An address of \"top\" loads into the top of memory.".toList,
       "Commodore-style load address bytes are ignored.".toList] } := by
  simp [MonMemGen.help_load]

theorem help_save_eq (w : World) (reply : Reply) (d : Dev) (P : Parser) (σ : MemSt) :
    MonMemGen.help_save w reply d P σ = .ok () { σ with out := σ.out ++
      ["save \"filename\" <start> <end>".toList,
       "Save the specified memory range as a binary file.".toList,
       "Commodore-style load address bytes are not written.".toList] } := by
  simp [MonMemGen.help_save]

end Py65.Proofs.MonMemGenEq
