/-
Tie by regeneration, C20 (unit `asmc`): the GENERATED commands `do_assemble`, `_interactive_assemble`,
`do_help`, `do_version`, `do_cd`, `do_pwd` and the `help_*` texts (`Py65/Gen/MonAsmGen.lean`, translated from
`py65/monitor.py` by `harness/py2lean_monasm.py` on every run) equal the hand-written model
`Py65.Model.MonAsm`, for ALL argument strings, states, worlds and for ALL values of the parameters that stand
for other translated code (`asm`, `iat`, `fmtdis`, `dis`) or for the standard library (`cmdhelp`).

These are the proof obligations a change of those methods breaks.  No hypothesis anywhere: the loop of
`_interactive_assemble` is fuel-bounded on both sides with the same accounting (one unit per prompt).
-/
import Py65.Gen.MonAsmGen
import Py65.Model.MonAsm
import Mathlib.Tactic.SplitIfs

namespace Py65.Proofs.MonAsmGenEq
open Py65 Py65.Model Py65.Model.PyStr Py65.Model.ObsMem Py65.Model.AddrParser Py65.Model.MonMem
open Py65.Model.MonGenRt Py65.Model.ShowRt Py65.Model.MonAsmRt Py65.Model.MonAsm Py65.Gen

variable (w : AWorld) (asm : Parser → Str → Int → Except AExc (List Int))
  (iat : AsmSt → Int → Except AExc (Int × Str)) (fmtdis : AsmSt → Int → Int → Str → Except AExc Str)
  (dis : Str → AsmSt → AFlow AsmSt Unit) (cmdhelp : Str → AsmSt → AFlow AsmSt Unit) (reply : Reply) (d : Dev)

/-! ### tables and texts -/

/-- the table `do_help` consults is the table of `_add_shortcuts` (entries and order) -/
theorem shortcuts_eq : MonAsmGen._shortcuts = MonCmd.shortcuts := by decide

/-- the usage text `help_assemble` prints -/
def helpAssemble : List Str :=
  ["assemble\t\t\tStart interactive assembly at the program counter.\n".toList,
   "assemble <address>\t\tStart interactive assembly at the address.\n".toList,
   "assemble <address> <statement>\tAssemble a statement at the address.\n".toList]

theorem help_assemble_eq (σ : AsmSt) :
    MonAsmGen.help_assemble w asm iat fmtdis dis cmdhelp reply d σ = .ok () { σ with out := σ.out ++ helpAssemble } := by
  simp [MonAsmGen.help_assemble, helpAssemble]

theorem help_cd_eq (σ : AsmSt) :
    MonAsmGen.help_cd w asm iat fmtdis dis cmdhelp reply d σ = .ok () (helpCd σ) := by
  simp [MonAsmGen.help_cd, helpCd, print]

theorem help_pwd_eq (σ : AsmSt) :
    MonAsmGen.help_pwd w asm iat fmtdis dis cmdhelp reply d σ =
      .ok () (print σ "Show the current working directory.".toList) := by
  simp [MonAsmGen.help_pwd, print]

theorem help_version_eq (σ : AsmSt) :
    MonAsmGen.help_version w asm iat fmtdis dis cmdhelp reply d σ =
      .ok () (print σ "version\t\tDisplay Py65 version information.".toList) := by
  simp [MonAsmGen.help_version, print]

theorem help_help_eq (σ : AsmSt) :
    MonAsmGen.help_help w asm iat fmtdis dis cmdhelp reply d σ =
      .ok () (print (print σ "help\t\tPrint a list of available actions.".toList)
        "help <action>\tPrint help for <action>.".toList) := by
  simp [MonAsmGen.help_help, print]

/-! ### `version`, `pwd`, `cd`, `help` -/

theorem do_version_eq (args : Str) (σ : AsmSt) :
    MonAsmGen.do_version w asm iat fmtdis dis cmdhelp reply d args σ = doVersion σ := by
  simp [MonAsmGen.do_version, doVersion, print]

theorem do_pwd_eq (args : Option Str) (σ : AsmSt) :
    MonAsmGen.do_pwd w asm iat fmtdis dis cmdhelp reply d args σ = doPwd σ := by
  simp [MonAsmGen.do_pwd, doPwd, print]

theorem do_cd_join1_eq (args : Str) (σ : AsmSt) :
    MonAsmGen.do_cd_join1 w asm iat fmtdis dis cmdhelp reply d args σ = doPwd σ := by
  simp [MonAsmGen.do_cd_join1, do_pwd_eq, doPwd]

/-- `do_cd`, for every argument string, world and state -/
theorem do_cd_eq (args : Str) (σ : AsmSt) :
    MonAsmGen.do_cd w asm iat fmtdis dis cmdhelp reply d args σ = doCd w args σ := by
  unfold MonAsmGen.do_cd doCd
  have e : "".toList = ([] : Str) := rfl
  rw [e]
  by_cases h : args = []
  · simp only [h, if_true, help_cd_eq]
  · simp only [h, if_false]
    unfold MonAsmGen.do_cd_try1 pyChdir
    cases hc : w.chdir σ.cwd args with
    | ok nd => simp only [do_cd_join1_eq]
    | error e =>
      cases e <;> simp only [do_cd_join1_eq, print]

/-- `do_help`: only the shortcut lookup is Monitor's own; the rest is the parameter `cmdhelp` -/
theorem do_help_eq (args : Str) (σ : AsmSt) :
    MonAsmGen.do_help w asm iat fmtdis dis cmdhelp reply d args σ = doHelp cmdhelp args σ := by
  simp [MonAsmGen.do_help, doHelp, shortcuts_eq]

/-! ### the slice store -/

/-- `memory[a:b] = v` never raises (the step is 1) and is `setMany` over the clipped range -/
theorem setSlice_eq (m : OM) (a b : Int) (v : List Int) :
    ObsMem.setSlice reply m (some a) (some b) none v =
      some (setMany reply (pyRange (clip m a) (clip m b) 1) v m) := by
  simp [ObsMem.setSlice, sliceIndices, sliceTriple, clip]

theorem setSlice_store (m : OM) (start : Int) (bytes : List Int) :
    ObsMem.setSlice reply m (some start) (some (start + (bytes.length : Int))) none bytes =
      some (sliceStore reply m start bytes) := by
  rw [setSlice_eq]; rfl

/-! ### `_interactive_assemble` -/

theorem promptPad_eq : pyStrMul (pyStrMul " ".toList
    (GenRt.fracToInt (GenRt.fracAddInt 1 (GenRt.fracOfDiv (d.BW : Int) 4)))) 3 = promptPad d := by
  unfold promptPad GenRt.fracToInt GenRt.fracAddInt GenRt.fracOfDiv
  have h : Int.tdiv (1 * 4 + (d.BW : Int)) 4 = 1 + (d.BW : Int) / 4 := by
    rw [Int.tdiv_eq_ediv_of_nonneg (by omega)]
    omega
  simp only [h]

/-- the `try` body of the loop: assemble, then the accepted path of the model -/
theorem interactive_try1_eq (fuel : Nat) (start : Int) (pr line : Str) (σ : AsmSt) :
    (MonAsmGen._interactive_assemble_try1 w asm iat fmtdis dis cmdhelp reply d fuel start pr line σ).bind
        (fun r σ' => AFlow.ok r.2.2.2.2.2.2.2 σ') =
      iaTry asm iat fmtdis reply d start pr line σ := by
  unfold MonAsmGen._interactive_assemble_try1 iaTry
  cases ha : asm σ.parser line start with
  | error e => rfl
  | ok bytes =>
    simp only [setSlice_store, iaAccept]
    cases hi : iat { σ with memory := sliceStore reply σ.memory start bytes } start with
    | error e => rfl
    | ok r =>
      simp only []
      cases hf : fmtdis { σ with memory := sliceStore reply σ.memory start bytes } start (bytes.length : Int) r.2 with
      | error e => rfl
      | ok text => simp [wrapTop, MonAsm.write, eraseLine]

/-- the `while True:` loop is the model's loop: same prompts, same stores, same addresses, same fuel -/
theorem interactive_while1_eq (fuel : Nat) (start : Int) (σ : AsmSt) :
    MonAsmGen._interactive_assemble_while1 w asm iat fmtdis dis cmdhelp reply d fuel start σ =
      iaLoop asm iat fmtdis reply d fuel start σ := by
  induction fuel generalizing start σ with
  | zero => rfl
  | succ n ih =>
    unfold MonAsmGen._interactive_assemble_while1 iaLoop
    simp only [promptPad_eq]
    unfold pyLineInput
    cases hinp : σ.inp with
    | nil => rfl
    | cons line rest =>
      simp only []
      have hp : (("\r$".toList ++ pyFmtX d.addrFmtW start) ++ "   ".toList) ++ promptPad d = prompt d start := rfl
      rw [hp]
      by_cases hb : MonCmd.pyStrip line = []
      · simp [hb, MonAsm.write]
      · simp only [hb, if_false]
        have ht := interactive_try1_eq w asm iat fmtdis dis cmdhelp reply d n start (prompt d start) line
          { σ with inp := rest, out := σ.out ++ [prompt d start, line] }
        unfold iaLine
        rw [← ht]
        cases hr : MonAsmGen._interactive_assemble_try1 w asm iat fmtdis dis cmdhelp reply d n start (prompt d start) line
            { σ with inp := rest, out := σ.out ++ [prompt d start, line] } with
        | ok r s => simp only [AFlow.bind_ok, ih]
        | nofuel => rfl
        | raise e s =>
          cases e <;> simp only [AFlow.bind_raise, iaMark, AFlow.bind_ok, ih, MonAsm.write, List.append_assoc] <;> rfl

theorem interactive_join1_eq (fuel : Nat) (args : Str) (start : Int) (σ : AsmSt) :
    MonAsmGen._interactive_assemble_join1 w asm iat fmtdis dis cmdhelp reply d fuel args start σ =
      (iaLoop asm iat fmtdis reply d fuel start σ).bind fun _ σ' => .ok () σ' := by
  unfold MonAsmGen._interactive_assemble_join1
  rw [interactive_while1_eq]

/-- `_interactive_assemble`, for every argument string, fuel and state -/
theorem interactive_assemble_eq (fuel : Nat) (args : Str) (σ : AsmSt) :
    MonAsmGen._interactive_assemble w asm iat fmtdis dis cmdhelp reply d fuel args σ =
      interactiveAssemble asm iat fmtdis reply d fuel args σ := by
  unfold MonAsmGen._interactive_assemble interactiveAssemble
  have e : "".toList = ([] : Str) := rfl
  rw [e]
  by_cases h : args = []
  · simp only [h, if_true, interactive_join1_eq]
  · simp only [h, if_false]
    unfold MonAsmGen._interactive_assemble_try2
    cases hn : parseNumberA σ.parser args with
    | ok start => simp only [interactive_join1_eq]
    | error e => cases e <;> simp only [print]

/-! ### `do_assemble` -/

theorem pyGetItem_zero {α : Type} (x : α) (xs : List α) : pyGetItem (x :: xs) 0 = some x := by
  simp [pyGetItem, pyNormIndex]

theorem pyGetItem_one {α : Type} (x y : α) (xs : List α) : pyGetItem (x :: y :: xs) 1 = some y := by
  simp [pyGetItem, pyNormIndex]

/-- `args.split(None, 1)` has at most two pieces -/
theorem pySplitWs1_cases (args : Str) :
    pySplitWs1 args = [] ∨ (∃ a, pySplitWs1 args = [a]) ∨ (∃ a b, pySplitWs1 args = [a, b]) := by
  unfold pySplitWs1
  split
  · exact Or.inl rfl
  · simp only []
    split_ifs
    · exact Or.inr (Or.inl ⟨_, rfl⟩)
    · exact Or.inr (Or.inr ⟨_, _, rfl⟩)

/-- `do_assemble`, for every argument string, fuel, state and all parameters: the model with the
generated `_interactive_assemble` (itself equal to the model's, `interactive_assemble_eq`) plugged in -/
theorem do_assemble_eq (fuel : Nat) (args : Str) (σ : AsmSt) :
    MonAsmGen.do_assemble w asm iat fmtdis dis cmdhelp reply d fuel args σ =
      doAssemble asm dis (interactiveAssemble asm iat fmtdis reply d fuel) reply d args σ := by
  unfold MonAsmGen.do_assemble doAssemble
  rcases pySplitWs1_cases args with h | ⟨a, h⟩ | ⟨a, st, h⟩
  · simp [h, interactive_assemble_eq]
  · simp [h, interactive_assemble_eq]
  · simp only [h, List.length_cons, List.length_nil, pyGetItem_one]
    have h2 : ¬ (((0 + 1 + 1 : Nat) : Int) ≠ 2) := by simp
    simp only [h2, if_false]
    unfold MonAsmGen.do_assemble_try1
    simp only [pyGetItem_zero]
    cases hn : parseNumberA σ.parser a with
    | error e => cases e <;> simp only [asmHandlers, print]
    | ok start =>
      simp only []
      cases has : asm σ.parser st start with
      | error e => cases e <;> simp only [asmHandlers, print]
      | ok bytes =>
        simp only [setSlice_store]
        cases hd : dis ("$".toList ++ pyFmtX d.addrFmtW start)
            { σ with memory := sliceStore reply σ.memory start bytes } with
        | ok u s => rfl
        | nofuel => rfl
        | raise e s => cases e <;> simp only [AFlow.bind_raise, catchAsm, asmHandlers, print]

end Py65.Proofs.MonAsmGenEq
