/-
Tie by regeneration, C16: the GENERATED `_fill` (`Py65/Gen/MonFillGen.lean`, translated from
`Monitor._fill` of py65/monitor.py by `harness/py2lean_mon.py` on every run) equals the hand-written
model `Py65.Model.MonMem.fill`, for ALL start / end / filler / memory.

The Python `while address <= end:` loop has no bound; the generated loop function takes a `fuel`.
`fill_eq` states when the loop ends and then equals the model: the end address the loop works with
(`fillStop`: for a one-address range the clipped extension, otherwise `end` itself) is at most
`addrMask` -- for a one-address range that is automatic (the code clips), for a proper range it is
the hypothesis `stop ≤ d.addrMask`, which `do_fill` guarantees through the address parser
(`rangeL_ordered`).  Above `addrMask` the Python loop never ends (`address &= addrMask` keeps the
address below `end` for ever): `fill_diverges` proves that for the generated loop.
These are the proof obligations a change of `Monitor._fill` breaks.
-/
import Py65.Gen.MonFillGen
import Py65.Proofs.MonLemmas

namespace Py65.Proofs.MonFillGenEq
open Py65 Py65.Model Py65.Model.PyStr Py65.Model.ObsMem Py65.Model.MonMem Py65.Model.MonGenRt Py65.Gen
open Py65.Spec.MonMem

/-- The line `_fill` prints: `("Wrote +%d bytes from $" + addrFmt + " to $" + addrFmt) % (count, start, end)`. -/
def wroteLine (d : Dev) (count start stop : Int) : Str :=
  "Wrote +".toList ++ pyFmtD count ++ " bytes from ".toList ++ "$".toList ++ pyFmtX d.addrFmtW start ++
    " to $".toList ++ pyFmtX d.addrFmtW stop

/-- How the model's result of `fill` reads as an end of the generated method: "Wrote …" is one more
output line and normal completion; the `IndexError` of an empty filler leaves the method with the
memory as it was. -/
def fillFlow (d : Dev) (σ : FillSt) (r : FillRes × OM) : Flow FillSt Unit :=
  match r.1 with
  | .wrote c s e => .ok () { memory := r.2, out := σ.out ++ [wroteLine d c s e] }
  | .indexError => .raise .IndexError { memory := r.2, out := σ.out }

theorem pyGetItem_nat {α : Type} (l : List α) (i : Nat) : pyGetItem l (i : Int) = l[i]? := by
  have h1 : ¬ ((i : Int) < 0) := by omega
  have h2 : (0 : Int) ≤ (i : Int) := by omega
  simp only [pyGetItem, pyNormIndex, h1, if_false, h2, if_true, Int.toNat_natCast]

theorem addrMask_nonneg (d : Dev) : 0 ≤ d.addrMask := by
  unfold Dev.addrMask
  have : (0 : Int) < 2 ^ d.AW := by positivity
  omega

/-- Masking never moves an address below itself as long as it is at most `addrMask`. -/
theorem land_ge (d : Dev) (a : Int) (h : a ≤ d.addrMask) : a ≤ Py.land a d.addrMask := by
  by_cases h0 : 0 ≤ a
  · rw [land_addrMask d h0 h]
  · have := Py.land_nonneg a d.addrMask (addrMask_nonneg d)
    omega

/-- The generated loop and the model's loop run in lockstep: with the model's fuel `n` covering the
distance to the end address and more generated fuel than that, the generated loop ends normally
with the memory the model computes. -/
theorem while1_eq (reply : Reply) (d : Dev) (filler : List Int) (E : Int) (hE : E ≤ d.addrMask) :
    ∀ (n fuel : Nat) (address : Int) (idx : Nat) (σ : FillSt),
      E + 1 - address ≤ n → n < fuel → idx < filler.length →
      ∃ a i, MonFillGen._fill_while1 reply d E filler (filler.length : Int) fuel address (idx : Int) σ =
        .ok (a, i) { memory := fillLoop reply d filler E n address idx σ.memory, out := σ.out } := by
  intro n
  induction n with
  | zero =>
    intro fuel address idx σ h1 h2 _
    obtain ⟨f, rfl⟩ : ∃ f, fuel = f + 1 := ⟨fuel - 1, by omega⟩
    have hgt : ¬ address ≤ E := by
      simp only [Nat.cast_zero] at h1; omega
    refine ⟨address, idx, ?_⟩
    simp only [MonFillGen._fill_while1, hgt, if_false, fillLoop]
  | succ n ih =>
    intro fuel address idx σ h1 h2 hidx
    obtain ⟨f, rfl⟩ : ∃ f, fuel = f + 1 := ⟨fuel - 1, by omega⟩
    by_cases hle : address ≤ E
    · have hget : pyGetItem filler (idx : Int) = some (filler.getD idx 0) := by
        rw [pyGetItem_nat, List.getD_eq_getElem?_getD, List.getElem?_eq_getElem hidx]; rfl
      have hidx' : (if (idx : Int) + 1 = (filler.length : Int) then (0 : Int) else (idx : Int) + 1) =
          (((if idx + 1 = filler.length then 0 else idx + 1 : Nat)) : Int) := by
        by_cases h : idx + 1 = filler.length
        · have : (idx : Int) + 1 = (filler.length : Int) := by exact_mod_cast h
          simp [h, this]
        · have : ¬ ((idx : Int) + 1 = (filler.length : Int)) := by exact_mod_cast h
          simp [h, this]
      have hge := land_ge d address (by omega)
      have hcast : ((n + 1 : Nat) : Int) = (n : Int) + 1 := by push_cast; rfl
      obtain ⟨a, i, hrec⟩ := ih f (Py.land address d.addrMask + 1)
        (if idx + 1 = filler.length then 0 else idx + 1)
        { memory := ObsMem.set reply σ.memory (Py.land address d.addrMask) (Py.land (filler.getD idx 0) d.byteMask),
          out := σ.out }
        (by rw [hcast] at h1; omega) (by omega) (index_step_lt _ _ hidx)
      refine ⟨a, i, ?_⟩
      simp only [MonFillGen._fill_while1, hle, if_true, hget, hidx', fillLoop]
      exact hrec
    · refine ⟨address, idx, ?_⟩
      simp only [MonFillGen._fill_while1, hle, if_false, fillLoop]

theorem fill_eq_aux (reply : Reply) (d : Dev) (fuel : Nat) (start stop : Int) (filler : List Int) (σ : FillSt)
    (E : Int)
    (hEdef : (if start = stop then
        (if start + (filler.length : Int) - 1 > d.addrMask then d.addrMask else start + (filler.length : Int) - 1)
        else stop) = E)
    (hE : E ≤ d.addrMask) (hfuel : (E + 1 - start).toNat < fuel) :
    MonFillGen._fill reply d fuel start stop filler σ =
      fillFlow d σ (fill reply d start stop filler σ.memory) := by
  have hg : MonFillGen._fill reply d fuel start stop filler σ =
      (MonFillGen._fill_while1 reply d E filler (filler.length : Int) fuel start 0 σ).bind fun _ σ' =>
        .ok () { memory := σ'.memory, out := σ'.out ++ [wroteLine d (E - start + 1) start E] } := by
    unfold MonFillGen._fill
    simp only [hEdef]
    unfold wroteLine
    rfl
  have hm : fill reply d start stop filler σ.memory =
      (if filler = [] ∧ start ≤ E then (.indexError, σ.memory)
       else (.wrote (E - start + 1) start E, fillLoop reply d filler E (E + 1 - start).toNat start 0 σ.memory)) := by
    simp only [fill, hEdef]
  rw [hg, hm]
  by_cases hne : filler = []
  · subst hne
    obtain ⟨f, rfl⟩ : ∃ f, fuel = f + 1 := ⟨fuel - 1, by omega⟩
    by_cases hle : start ≤ E
    · have hget : pyGetItem ([] : List Int) (0 : Int) = none := by
        simp [pyGetItem, pyNormIndex]
      simp only [MonFillGen._fill_while1, hle, if_true, hget, Flow.bind_raise, fillFlow, true_and]
    · have h0 : (E + 1 - start).toNat = 0 := by omega
      simp only [MonFillGen._fill_while1, hle, if_false, Flow.bind_ok, fillFlow, and_false, h0, fillLoop]
  · have hlen : 0 < filler.length := List.length_pos_of_ne_nil hne
    obtain ⟨a, i, hloop⟩ := while1_eq reply d filler E hE (E + 1 - start).toNat fuel start 0 σ
      (by omega) hfuel hlen
    have hnot : ¬ (filler = [] ∧ start ≤ E) := fun h => hne h.1
    simp only [Nat.cast_zero] at hloop
    rw [hloop]
    simp only [hnot, if_false, fillFlow, Flow.bind_ok]

/-- `GenEq` for `_fill`: whenever the end address the loop works with is inside the address space
(`hstop`: nothing to assume for a one-address range) and the fuel exceeds the length of the range,
the generated `_fill` ends exactly as the model's `fill`: same memory object, the same three numbers
in the "Wrote" line, the same `IndexError` (memory untouched) for an empty filler. -/
theorem fill_eq (reply : Reply) (d : Dev) (fuel : Nat) (start stop : Int) (filler : List Int) (σ : FillSt)
    (hstop : start ≠ stop → stop ≤ d.addrMask)
    (hfuel : (fillStop d start stop filler.length + 1 - start).toNat < fuel) :
    MonFillGen._fill reply d fuel start stop filler σ =
      fillFlow d σ (fill reply d start stop filler σ.memory) := by
  have hE : fillStop d start stop filler.length ≤ d.addrMask := by
    unfold fillStop
    split_ifs with h1 h2
    · exact le_refl _
    · omega
    · exact hstop h1
  exact fill_eq_aux reply d fuel start stop filler σ _ rfl hE hfuel

/-- Is the hypothesis `stop ≤ addrMask` really needed?  Yes: for a proper range that ends above
`addrMask` (and starts inside the address space, with a non-empty filler) the generated loop is out
of fuel for EVERY fuel -- the Python loop does not terminate, because `address &= self.addrMask`
keeps the address at most `addrMask < end`.  (`do_fill` cannot produce such a call: the address
parser raises `OverflowError`; that is `fill_rejects`.) -/
theorem fill_diverges (reply : Reply) (d : Dev) (filler : List Int) (E : Int) (hE : d.addrMask < E) :
    ∀ (fuel : Nat) (address : Int) (idx : Nat) (σ : FillSt), address ≤ d.addrMask + 1 → idx < filler.length →
      MonFillGen._fill_while1 reply d E filler (filler.length : Int) fuel address (idx : Int) σ = .nofuel := by
  intro fuel
  induction fuel with
  | zero => intro address idx σ _ _; rfl
  | succ f ih =>
    intro address idx σ ha hidx
    have hle : address ≤ E := by omega
    have hget : pyGetItem filler (idx : Int) = some (filler.getD idx 0) := by
      rw [pyGetItem_nat, List.getD_eq_getElem?_getD, List.getElem?_eq_getElem hidx]; rfl
    have hidx' : (if (idx : Int) + 1 = (filler.length : Int) then (0 : Int) else (idx : Int) + 1) =
        (((if idx + 1 = filler.length then 0 else idx + 1 : Nat)) : Int) := by
      by_cases h : idx + 1 = filler.length
      · have : (idx : Int) + 1 = (filler.length : Int) := by exact_mod_cast h
        simp [h, this]
      · have : ¬ ((idx : Int) + 1 = (filler.length : Int)) := by exact_mod_cast h
        simp [h, this]
    have hm : Py.land address d.addrMask ≤ d.addrMask := by
      unfold Dev.addrMask
      rw [Py.land_mask]
      have := Int.emod_lt_of_pos address (show (0 : Int) < 2 ^ d.AW by positivity)
      omega
    simp only [MonFillGen._fill_while1, hle, if_true, hget, hidx']
    exact ih _ _ _ (by omega) (index_step_lt _ _ hidx)

/-- What `do_fill` hands to `_fill`: with a range token spelling `start`, `stop` and data tokens
spelling `data`, the model's `doFill` is the model's `fill` on exactly these values (the part of
`do_fill` before the call `self._fill(start, end, filler)` is not regenerated: `shlex.split` and the
address parser are library / C15 territory). -/
theorem doFill_eq (reply : Reply) (d : Dev) (P : AddrParser.Parser) (m : OM) (r : Str) (pieces : List Str)
    (start stop : Int) (data : List Int)
    (hr : AddrParser.rangeL P r = .ok start stop) (hp : PiecesOk d P pieces data) (hne : data ≠ []) :
    doFill reply d P (r :: pieces) m =
      (Out.ofFill (fill reply d start stop data m).1, (fill reply d start stop data m).2) := by
  have hpf := parseFiller_ok d P pieces data [] hp
  simp only [List.reverse_nil, List.nil_append] at hpf
  have hpne : pieces ≠ [] := by
    intro e; subst e
    cases data with
    | nil => exact hne rfl
    | cons v vs => simp [PiecesOk] at hp
  obtain ⟨p, ps, rfl⟩ := List.exists_cons_of_ne_nil hpne
  simp only [doFill, hr, hpf]

theorem ofFill_wrote {r : FillRes} {c s e : Int} (h : Out.ofFill r = .wrote c s e) : r = .wrote c s e := by
  cases r with
  | wrote c' s' e' => simpa [Out.ofFill] using h
  | indexError => simp [Out.ofFill] at h

end Py65.Proofs.MonFillGenEq
