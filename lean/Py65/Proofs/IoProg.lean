/-
IoProg -- running the GENERATED CPU on the monitor's observed memory (C18 composed with the CPU).

The generated device model (`Py65/Gen/Mpu6502.lean`, ...; `Machine.lean`) is a function `St → St` whose
memory is a pure function `mem : Int → Int` plus the ordered log of item accesses: `memGet e s` answers
`s.mem e`.  A load from the monitor's input address `I` must instead be answered by the `getc` observer
(next pending byte), so the CPU cannot simply be handed the backing cells.  What is done here, without
re-translating the CPU:

* `viewG E σ a` -- what a load from `a` WOULD return now on `σ._mpu.memory`, through the GENERATED `getc`
  (defined by running `MonIOGenEq.accessG`, i.e. the `ObservableMemory` model + the generated closures);
* one instruction of the I/O machine (`ioStep`): the generated `step()` is run on the plain memory
  `viewG E σ` with an empty log; its log `T` (the instruction's item accesses, in order, with the values
  written) is then replayed through the monitor's memory object by `MonIOGenEq.replayG` (generated
  `putc` / `getc`): that gives the new monitor state (cells, pending input, output);
* `Consistent E d m` -- the CHECK that makes this a run of the CPU on the observed memory: every load of
  `T`, replayed through the observed memory, is answered exactly as the plain memory the CPU ran on
  answered it (`replayPlain (viewG E σ) T`).  A device talks to its memory only through `memory[e]` /
  `memory[e] = v` (the translator refuses anything else, and the log records every one of them), so a
  `step()` whose every load got the same answer is the same `step()`.

`Consistent` can only fail when, inside ONE instruction, a load from `I` comes after another access to `I`
(the second load must see the NEXT byte, a plain memory cannot do that) or an address is not a physical
address (aliases of the 65Org16): `consistent_of_safe` (`IoSafe`).

This file: definitions, the list-level consistency lemma on the Spec (`spec_consistent`), the bridge to
the generated closures (`viewG_eq`, `replayG_spec`), the induction over the instructions (`run_spec`).
Property theorems: `Py65/Props/C18h.lean`.
-/
import Py65.Props.C18g
import Py65.Proofs.Hist

namespace Py65.Proofs.IoProg
open Py65 Py65.Model.ObsMem Py65.Model.MonIO Py65.Model.MonIORt Py65.Gen.MonIOGen
open Py65.Spec.ObsMem Py65.Proofs.MonIO Py65.Proofs.MonIOGenEq
open Py65.Spec.MonIO (SState deliver storesTo loadsFrom)
open Py65.Proofs.Hist (Dev)

/-! ### the Spec side: the read view of "plain memory + input queue", and when a plain memory can stand in -/

/-- What a load from `a` returns in Spec state `sp` (`Spec.MonIO.step` on `.r a`, value only). -/
def viewS (size I : Int) (sp : SState) (a : Int) : Int :=
  if a % size = I % size then
    (match sp.pending with
     | b :: _ => deliver b
     | [] => 0)
  else sp.cells (a % size)

theorem step_r_val (size I O : Int) (sp : SState) (a : Int) :
    (Py65.Spec.MonIO.step size I O sp (.r a)).1 = some (viewS size I sp a) := by
  unfold Py65.Spec.MonIO.step viewS
  by_cases hp : a % size = I % size
  · simp only [hp, if_true]; cases sp.pending <;> rfl
  · simp only [hp, if_false]

/-- The access is a load from an address congruent to `I`. -/
def isLoadAt (size I : Int) : MemEv → Bool
  | .r a => decide (a % size = I % size)
  | .w _ _ => false

/-- The access is a store to an address congruent to `O`. -/
def isStoreAt (size O : Int) : MemEv → Bool
  | .r _ => false
  | .w a _ => decide (a % size = O % size)

/-- The access (load or store) is at an address congruent to `I`. -/
def touches (size I : Int) : MemEv → Bool
  | .r a => decide (a % size = I % size)
  | .w a _ => decide (a % size = I % size)

/-- Inside the access list of one instruction, no load from `I` is preceded by another access to `I`. -/
def NoReload (size I : Int) : List MemEv → Prop
  | [] => True
  | e :: es => (touches size I e = true → ∀ e' ∈ es, isLoadAt size I e' = false) ∧ NoReload size I es

instance (size I : Int) : (T : List MemEv) → Decidable (NoReload size I T)
  | [] => isTrue trivial
  | e :: es =>
    have : Decidable (NoReload size I es) := instDecidableNoReload size I es
    by unfold NoReload; exact inferInstance

/-- The access list of one instruction for which a plain memory can stand in for the observed one: every
address is a physical address (`0 ≤ a ≤ mask`: no aliasing inside the instruction) and no load from `I`
is preceded by another access to `I`. -/
def IoSafe (mask I : Int) (T : List MemEv) : Prop :=
  (∀ e ∈ T, InRange mask e) ∧ NoReload (mask + 1) I T

instance (mask I : Int) (T : List MemEv) : Decidable (IoSafe mask I T) := by
  unfold IoSafe; exact inferInstance

theorem loadsFrom_eq_countP (size I : Int) (T : List MemEv) :
    loadsFrom size I T = T.countP (isLoadAt size I) := by
  unfold loadsFrom
  congr 1

theorem storesTo_length (size O : Int) (T : List MemEv) :
    (storesTo size O T).length = T.countP (isStoreAt size O) := by
  induction T with
  | nil => rfl
  | cons e es ih =>
    cases e with
    | r a => simpa [storesTo, isStoreAt, List.countP_cons] using ih
    | w a v =>
      by_cases hp : a % size = O % size
      · simp only [storesTo, List.filterMap_cons, hp, if_true, List.length_cons, List.countP_cons,
          isStoreAt, decide_true] at ih ⊢
        omega
      · simp only [storesTo, List.filterMap_cons, hp, if_false, List.countP_cons,
          isStoreAt, decide_false] at ih ⊢
        simpa using ih

/-- **List-level consistency.**  `pm` is a plain memory that agrees with the read view of Spec state `sp`
on every physical address -- at `I` only as far as a load from `I` is still to come.  Replaying an
`IoSafe` access list on the plain memory and on the Spec machine answers every load alike, and the cells
agree afterwards everywhere but at `I`. -/
theorem spec_consistent (mask I O : Int) (T : List MemEv) :
    ∀ (sp : SState) (pm : Int → Int), (∀ e ∈ T, InRange mask e) → NoReload (mask + 1) I T →
    (∀ a, 0 ≤ a → a ≤ mask →
      (a % (mask + 1) ≠ I % (mask + 1) ∨ ∃ e ∈ T, isLoadAt (mask + 1) I e = true) →
      pm a = viewS (mask + 1) I sp a) →
    (Py65.Spec.MonIO.replay (mask + 1) I O sp T).1 = (replayPlain pm T).1 ∧
    ∀ a, 0 ≤ a → a ≤ mask → a % (mask + 1) ≠ I % (mask + 1) →
      (replayPlain pm T).2 a = (Py65.Spec.MonIO.replay (mask + 1) I O sp T).2.cells a := by
  have hmod : ∀ a : Int, 0 ≤ a → a ≤ mask → a % (mask + 1) = a := fun a h0 h1 =>
    Int.emod_eq_of_lt h0 (by omega)
  induction T with
  | nil =>
    intro sp pm _ _ hag
    refine ⟨rfl, fun a h0 h1 hne => ?_⟩
    have := hag a h0 h1 (Or.inl hne)
    simp only [replayPlain, Py65.Spec.MonIO.replay]
    rw [this, viewS, if_neg hne, hmod a h0 h1]
  | cons e es ih =>
    intro sp pm hin hnr hag
    have hin' : ∀ e' ∈ es, InRange mask e' := fun e' he' => hin e' (List.mem_cons_of_mem _ he')
    obtain ⟨hnr1, hnr2⟩ := hnr
    cases e with
    | r a =>
      obtain ⟨h0, h1⟩ : 0 ≤ a ∧ a ≤ mask := hin (.r a) List.mem_cons_self
      have hhead : (Py65.Spec.MonIO.step (mask + 1) I O sp (.r a)).1 = some (pm a) := by
        rw [step_r_val]
        by_cases hp : a % (mask + 1) = I % (mask + 1)
        · rw [hag a h0 h1 (Or.inr ⟨.r a, List.mem_cons_self, by simp [isLoadAt, hp]⟩)]
        · rw [hag a h0 h1 (Or.inl hp)]
      have hag' : ∀ a', 0 ≤ a' → a' ≤ mask →
          (a' % (mask + 1) ≠ I % (mask + 1) ∨ ∃ e ∈ es, isLoadAt (mask + 1) I e = true) →
          pm a' = viewS (mask + 1) I (Py65.Spec.MonIO.step (mask + 1) I O sp (.r a)).2 a' := by
        intro a' h0' h1' hor
        by_cases hp : a % (mask + 1) = I % (mask + 1)
        · -- the load consumed a byte: no further load from `I` in this instruction
          have hne : a' % (mask + 1) ≠ I % (mask + 1) := by
            rcases hor with h | ⟨e', he', hl⟩
            · exact h
            · have := hnr1 (by simp [touches, hp]) e' he'
              rw [this] at hl; cases hl
          rw [hag a' h0' h1' (Or.inl hne)]
          unfold viewS
          rw [if_neg hne, if_neg hne]
          unfold Py65.Spec.MonIO.step
          simp only [hp, if_true]
          cases sp.pending <;> rfl
        · have hsame : (Py65.Spec.MonIO.step (mask + 1) I O sp (.r a)).2 = sp := by
            unfold Py65.Spec.MonIO.step; simp only [hp, if_false]
          rw [hsame]
          refine hag a' h0' h1' ?_
          rcases hor with h | ⟨e', he', hl⟩
          · exact Or.inl h
          · exact Or.inr ⟨e', List.mem_cons_of_mem _ he', hl⟩
      obtain ⟨i1, i2⟩ := ih _ pm hin' hnr2 hag'
      simp only [Py65.Spec.MonIO.replay, replayPlain, plainStep]
      exact ⟨by rw [hhead, i1], i2⟩
    | w a v =>
      obtain ⟨h0, h1⟩ : 0 ≤ a ∧ a ≤ mask := hin (.w a v) List.mem_cons_self
      have hma := hmod a h0 h1
      have hag' : ∀ a', 0 ≤ a' → a' ≤ mask →
          (a' % (mask + 1) ≠ I % (mask + 1) ∨ ∃ e ∈ es, isLoadAt (mask + 1) I e = true) →
          upd pm a v a' = viewS (mask + 1) I (Py65.Spec.MonIO.step (mask + 1) I O sp (.w a v)).2 a' := by
        intro a' h0' h1' hor
        have hma' := hmod a' h0' h1'
        by_cases hne : a' % (mask + 1) = I % (mask + 1)
        · -- a load from `I` is still to come: the store was not to `I`
          have hex : ∃ e ∈ es, isLoadAt (mask + 1) I e = true := by
            rcases hor with h | h
            · exact absurd hne h
            · exact h
          have hp : a % (mask + 1) ≠ I % (mask + 1) := by
            intro hp
            obtain ⟨e', he', hl⟩ := hex
            have := hnr1 (by simp [touches, hp]) e' he'
            rw [this] at hl; cases hl
          have haa : a' ≠ a := by
            intro h; rw [h] at hne; exact hp hne
          have h1 : upd pm a v a' = pm a' := by unfold upd; rw [if_neg haa]
          rw [h1, hag a' h0' h1' (Or.inr (by
            obtain ⟨e', he', hl⟩ := hex
            exact ⟨e', List.mem_cons_of_mem _ he', hl⟩))]
          unfold viewS
          rw [if_pos hne, if_pos hne]
          rfl
        · unfold viewS
          rw [if_neg hne]
          show upd pm a v a' = upd sp.cells (a % (mask + 1)) v (a' % (mask + 1))
          rw [hma, hma']
          unfold upd
          by_cases haa : a' = a
          · rw [if_pos haa, if_pos haa]
          · rw [if_neg haa, if_neg haa, hag a' h0' h1' (Or.inl hne), viewS, if_neg hne, hma']
      obtain ⟨i1, i2⟩ := ih _ (upd pm a v) hin' hnr2 hag'
      simp only [Py65.Spec.MonIO.replay, replayPlain, plainStep]
      refine ⟨?_, i2⟩
      rw [i1]
      rfl

theorem spec_replay_append (size I O : Int) (T1 T2 : List MemEv) (sp : SState) :
    Py65.Spec.MonIO.replay size I O sp (T1 ++ T2) =
      ((Py65.Spec.MonIO.replay size I O sp T1).1 ++
         (Py65.Spec.MonIO.replay size I O (Py65.Spec.MonIO.replay size I O sp T1).2 T2).1,
       (Py65.Spec.MonIO.replay size I O (Py65.Spec.MonIO.replay size I O sp T1).2 T2).2) := by
  induction T1 generalizing sp with
  | nil => rfl
  | cons e es ih =>
    simp only [List.cons_append, Py65.Spec.MonIO.replay, ih, List.cons_append]

/-! ### the generated side -/

/-- The Spec's view of a monitor whose memory object has backing cells `cells`. -/
def specOf (σ : IoSt) (cells : Int → Int) : SState :=
  { cells := cells, pending := σ.stdin, output := σ.stdout.written }

/-- What a load from `a` on `σ._mpu.memory` would return NOW, through the GENERATED observers (for the
installed memory: the generated `getc` at the addresses congruent to `I`, the backing cell elsewhere). -/
def viewG (E : Env) (σ : IoSt) (a : Int) : Int := ((accessG E σ (.r a)).1).getD 0

theorem viewG_eq (E : Env) (σ : IoSt) (I O : Int) (cells : Int → Int) (g : Good σ I O cells) (a : Int) :
    viewG E σ a = viewS (maskOf σ.addrWidth + 1) I (specOf σ cells) a := by
  obtain ⟨a1, -⟩ := accessG_good E σ I O cells g (.r a) trivial
  have hs := sessOf_good g
  obtain ⟨b1, -⟩ := io_step (sessOf σ) I O (by rw [hs]) (by rw [hs]) (by rw [hs])
    { cells := cells, io := ioOf σ } (.r a)
  unfold viewG
  rw [a1, b1]
  have : physSize (sessOf σ) = maskOf σ.addrWidth + 1 := rfl
  rw [this]
  show ((Py65.Spec.MonIO.step (maskOf σ.addrWidth + 1) I O (specOf σ cells) (.r a)).1).getD 0 = _
  rw [step_r_val]
  rfl

/-- Replaying an access list through the generated observers IS the Spec's replay, state included. -/
theorem replayG_spec (E : Env) (σ : IoSt) (I O : Int) (cells : Int → Int) (g : Good σ I O cells)
    (evs : List MemEv) (hev : ∀ e ∈ evs, okEv E e) :
    let sp := Py65.Spec.MonIO.replay (maskOf σ.addrWidth + 1) I O (specOf σ cells) evs
    let r := replayG E σ evs
    r.1 = sp.1 ∧ Good r.2 I O sp.2.cells ∧ specOf r.2 sp.2.cells = sp.2 ∧ Frame σ r.2 ∧
    (σ.stdout.flushed = σ.stdout.written.length → r.2.stdout.flushed = r.2.stdout.written.length) := by
  intro sp r
  obtain ⟨r1, r2, r3, r4, r5⟩ := replayG_good E I O evs σ cells g hev
  have hs := sessOf_good g
  obtain ⟨t1, t2, -, -⟩ := Py65.Props.C18.io_trace (sessOf σ) I O (by rw [hs]) (by rw [hs]) (by rw [hs])
    { cells := cells, io := ioOf σ } evs
  have hsize : physSize (sessOf σ) = maskOf σ.addrWidth + 1 := rfl
  rw [hsize] at t1 t2
  have t2' : toSpec (replay (sessOf σ) { cells := cells, io := ioOf σ } evs).2 = sp.2 := t2
  have hcells : (replay (sessOf σ) { cells := cells, io := ioOf σ } evs).2.cells = sp.2.cells :=
    congrArg SState.cells t2'
  refine ⟨r1.trans t1, hcells ▸ r2, ?_, r4, r5⟩
  have hp : r.2.stdin = sp.2.pending := by
    have : (ioOf r.2).pending = _ := congrArg IO.pending r3
    exact this.trans (congrArg SState.pending t2')
  have ho : r.2.stdout.written = sp.2.output := by
    have : (ioOf r.2).output = _ := congrArg IO.output r3
    exact this.trans (congrArg SState.output t2')
  show ({ cells := sp.2.cells, pending := r.2.stdin, output := r.2.stdout.written } : SState) = sp.2
  rw [hp, ho]

/-! ### the I/O machine: the generated CPU on the monitor's memory object -/

/-- A device (its registers and bookkeeping: `cpu`; `cpu.mem` and `cpu.log` are scratch) and the monitor
that owns its memory object and the two streams. -/
structure IoM where
  cpu : St
  mon : IoSt

/-- The state the next `step()` is run on: the device's registers over the plain memory "what a load
would return now", with an empty access log. -/
def startOf (E : Env) (m : IoM) : St := { m.cpu with mem := viewG E m.mon, log := [] }

/-- The item accesses of the next instruction, in program order (values written included). -/
def traceOf (E : Env) (d : Dev) (m : IoM) : List MemEv := (d.step (startOf E m)).log.reverse

/-- What the loads of the next instruction returned to the CPU (`none` at the stores). -/
def seenOf (E : Env) (d : Dev) (m : IoM) : List (Option Int) :=
  (replayPlain (viewG E m.mon) (traceOf E d m)).1

/-- One instruction: the generated `step()`, then its accesses replayed on the monitor's memory object
through the generated observers. -/
def ioStep (E : Env) (d : Dev) (m : IoM) : IoM :=
  { cpu := d.step (startOf E m), mon := (replayG E m.mon (traceOf E d m)).2 }

/-- The check that makes `ioStep` a `step()` ON the observed memory: the observed memory answers every
load of the instruction exactly as the plain memory the CPU ran on did. -/
def Consistent (E : Env) (d : Dev) (m : IoM) : Prop :=
  (replayG E m.mon (traceOf E d m)).1 = seenOf E d m

instance (E : Env) (d : Dev) (m : IoM) : Decidable (Consistent E d m) := by
  unfold Consistent; exact inferInstance

/-- `n` instructions. -/
def ioRun (E : Env) (d : Dev) : Nat → IoM → IoM
  | 0, m => m
  | n + 1, m => ioRun E d n (ioStep E d m)

/-- All item accesses of `n` instructions, in program order. -/
def traces (E : Env) (d : Dev) : Nat → IoM → List MemEv
  | 0, _ => []
  | n + 1, m => traceOf E d m ++ traces E d n (ioStep E d m)

/-- What the loads of `n` instructions returned to the CPU, in program order. -/
def seen (E : Env) (d : Dev) : Nat → IoM → List (Option Int)
  | 0, _ => []
  | n + 1, m => seenOf E d m ++ seen E d n (ioStep E d m)

/-- Every one of the `n` instructions is consistent. -/
def AllConsistent (E : Env) (d : Dev) : Nat → IoM → Prop
  | 0, _ => True
  | n + 1, m => Consistent E d m ∧ AllConsistent E d n (ioStep E d m)

instance (E : Env) (d : Dev) : (n : Nat) → (m : IoM) → Decidable (AllConsistent E d n m)
  | 0, _ => isTrue trivial
  | n + 1, m =>
    have : Decidable (AllConsistent E d n (ioStep E d m)) := instDecidableAllConsistent E d n (ioStep E d m)
    by unfold AllConsistent; exact inferInstance

/-- The induction over the instructions: a consistent run is the Spec's replay of its access list. -/
theorem run_spec (E : Env) (d : Dev) (I O : Int) (n : Nat) :
    ∀ (m : IoM) (cells : Int → Int), Good m.mon I O cells →
    (∀ e ∈ traces E d n m, okEv E e) → AllConsistent E d n m →
    let sp := Py65.Spec.MonIO.replay (maskOf m.mon.addrWidth + 1) I O (specOf m.mon cells) (traces E d n m)
    let m' := ioRun E d n m
    seen E d n m = sp.1 ∧ Good m'.mon I O sp.2.cells ∧ specOf m'.mon sp.2.cells = sp.2 ∧
    Frame m.mon m'.mon ∧
    (m.mon.stdout.flushed = m.mon.stdout.written.length →
      m'.mon.stdout.flushed = m'.mon.stdout.written.length) := by
  induction n with
  | zero =>
    intro m cells g _ _
    exact ⟨rfl, g, rfl, Frame.refl _, fun h => h⟩
  | succ n ih =>
    intro m cells g hev hc
    obtain ⟨hc1, hc2⟩ := hc
    have hev1 : ∀ e ∈ traceOf E d m, okEv E e := fun e he => hev e (List.mem_append_left _ he)
    have hev2 : ∀ e ∈ traces E d n (ioStep E d m), okEv E e := fun e he => hev e (List.mem_append_right _ he)
    obtain ⟨s1, s2, s3, s4, s5⟩ := replayG_spec E m.mon I O cells g (traceOf E d m) hev1
    have haw : (ioStep E d m).mon.addrWidth = m.mon.addrWidth := s4.addrWidth
    obtain ⟨j1, j2, j3, j4, j5⟩ := ih (ioStep E d m) _ s2 hev2 hc2
    simp only [traces, seen, ioRun, spec_replay_append]
    rw [haw] at j1 j2 j3
    have s3' : specOf (ioStep E d m).mon
        (Py65.Spec.MonIO.replay (maskOf m.mon.addrWidth + 1) I O (specOf m.mon cells) (traceOf E d m)).2.cells =
        (Py65.Spec.MonIO.replay (maskOf m.mon.addrWidth + 1) I O (specOf m.mon cells) (traceOf E d m)).2 := s3
    rw [s3'] at j1 j2 j3
    refine ⟨?_, j2, j3, s4.trans j4, fun h => j5 (s5 h)⟩
    rw [j1, ← hc1, s1]

/-! ### the run is the replay of its whole access list; `IoSafe` is enough for `Consistent` -/

theorem replayG_append (E : Env) (T1 T2 : List MemEv) (σ : IoSt) :
    replayG E σ (T1 ++ T2) =
      ((replayG E σ T1).1 ++ (replayG E (replayG E σ T1).2 T2).1, (replayG E (replayG E σ T1).2 T2).2) := by
  induction T1 generalizing σ with
  | nil => rfl
  | cons e es ih => simp only [List.cons_append, replayG, ih]

/-- The monitor after `n` instructions is the monitor after replaying, in one go, the program-order list of
all their item accesses through the generated observers (the object `C18g.io_trace` is about). -/
theorem ioRun_mon (E : Env) (d : Dev) (n : Nat) :
    ∀ m : IoM, (ioRun E d n m).mon = (replayG E m.mon (traces E d n m)).2 := by
  induction n with
  | zero => intro m; rfl
  | succ n ih =>
    intro m
    simp only [ioRun, traces, replayG_append, ih]
    rfl

/-- An instruction whose access list is `IoSafe` is consistent. -/
theorem consistent_of_safe (E : Env) (d : Dev) (m : IoM) (I O : Int) (cells : Int → Int)
    (g : Good m.mon I O cells) (hev : ∀ e ∈ traceOf E d m, okEv E e)
    (hs : IoSafe (maskOf m.mon.addrWidth) I (traceOf E d m)) : Consistent E d m := by
  obtain ⟨s1, -⟩ := replayG_spec E m.mon I O cells g (traceOf E d m) hev
  obtain ⟨c1, -⟩ := spec_consistent (maskOf m.mon.addrWidth) I O (traceOf E d m) (specOf m.mon cells)
    (viewG E m.mon) hs.1 hs.2 (fun a _ _ _ => viewG_eq E m.mon I O cells g a)
  unfold Consistent seenOf
  rw [s1, c1]

end Py65.Proofs.IoProg
