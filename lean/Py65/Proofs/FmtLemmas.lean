/-
Helper lemmas for C19 (`Py65/Props/C19b.lean`) about the display model `Py65/Model/Fmt.lean`:
fixed-width columns, the register line read back by `parseLine2`, the flag digits as bits,
the byte-dump loop of `_format_disassembly`.
-/
import Py65.Proofs.NumLemmas
import Py65.Model.Fmt
import Mathlib.Tactic.NormNum
import Mathlib.Tactic.Ring
import Mathlib.Tactic.Positivity

namespace Py65.Proofs.Fmt
open Py65.Model.PyStr Py65.Model.Fmt Py65.Proofs.Num

/-! ### columns -/

theorem takeCol_append (f rest : Str) (w : Nat) (h : f.length = w) : takeCol w (f ++ rest) = (f, rest) := by
  subst h
  simp [takeCol]

theorem afterNewline_append (xs ys : Str) (h : '\n' ∉ xs) : afterNewline (xs ++ '\n' :: ys) = ys := by
  induction xs with
  | nil => simp [afterNewline]
  | cons c cs ih =>
    have hc : c ≠ '\n' := fun e => h (by simp [e])
    have hcs : '\n' ∉ cs := fun e => h (by simp [e])
    simp [afterNewline, hc, ih hcs]

/-- `"%0<w>x" % n` has exactly `w` characters when `n < 16^w` (`w ≥ 1`). -/
theorem fmtHexL_length (w n : Nat) (hw : 0 < w) (hn : n < 16 ^ w) : (fmtHexL w n).length = w := by
  obtain ⟨k, rfl⟩ : ∃ k, w = k + 1 := ⟨w - 1, by omega⟩
  exact rjustL_toDigits_length (by decide) k n hn

/-- `int("%0<w>x" % n, 16) = n` on character lists. -/
theorem pyIntL_fmtHexL (w n : Nat) : pyIntL (fmtHexL w n) 16 = some (n : Int) := by
  simp only [fmtHexL, rjustL_toDigits]
  exact pyIntL_spelling (by decide) (by decide) _ _ _ (Or.inl rfl)

/-- The flag digits: `W` characters for `p < 2^W`, reading back to `p` in base 2. -/
theorem flags_length (d : Dev) (p : Nat) (hw : 0 < d.byteWidth) (hp : p < 2 ^ d.byteWidth) :
    (flags d p).length = d.byteWidth := by
  obtain ⟨k, hk⟩ : ∃ k, d.byteWidth = k + 1 := ⟨d.byteWidth - 1, by omega⟩
  unfold flags fmtBinL
  rw [hk] at hp ⊢
  exact rjustL_toDigits_length (by decide) k p hp

theorem pyIntL_flags (d : Dev) (p : Nat) : pyIntL (flags d p) 2 = some (p : Int) := by
  simp only [flags, fmtBinL, rjustL_toDigits]
  exact pyIntL_spelling (by decide) (by decide) _ _ _ (Or.inl rfl)

/-- `parseLine2` on a line made of fields of the right widths. -/
theorem parseLine2_fields (d : Dev) (fpc fa fx fy fsp fp : Str)
    (hpc : fpc.length = d.addrDigits) (ha : fa.length = d.byteDigits) (hx : fx.length = d.byteDigits)
    (hy : fy.length = d.byteDigits) (hsp : fsp.length = d.byteDigits) (hp : fp.length = d.byteWidth)
    (pc a x y sp p : Int) (vpc : pyIntL fpc 16 = some pc) (va : pyIntL fa 16 = some a) (vx : pyIntL fx 16 = some x)
    (vy : pyIntL fy 16 = some y) (vsp : pyIntL fsp 16 = some sp) (vp : pyIntL fp 2 = some p) :
    parseLine2 d (d.name ++ ':' :: ' ' :: (fpc ++ ' ' :: (fa ++ ' ' :: (fx ++ ' ' :: (fy ++ ' ' :: (fsp ++ ' ' :: fp)))))) =
      some { pc := pc.toNat, a := a.toNat, x := x.toNat, y := y.toNat, sp := sp.toNat, p := p.toNat } := by
  have hdrop : (d.name ++ ':' :: ' ' :: (fpc ++ ' ' :: (fa ++ ' ' :: (fx ++ ' ' :: (fy ++ ' ' :: (fsp ++ ' ' :: fp)))))).drop
      (d.name.length + 2) = fpc ++ ' ' :: (fa ++ ' ' :: (fx ++ ' ' :: (fy ++ ' ' :: (fsp ++ ' ' :: fp)))) := by
    rw [List.drop_append]
    simp
  unfold parseLine2
  simp only [hdrop, takeCol_append _ _ _ hpc, takeCol_append _ _ _ ha, takeCol_append _ _ _ hx,
    takeCol_append _ _ _ hy, takeCol_append _ _ _ hsp, List.drop_succ_cons, List.drop_zero, hp, ne_eq,
    not_true_eq_false, if_false, vpc, va, vx, vy, vsp, vp]

/-- The second line of `repr`, right-associated. -/
theorem reprLine2_eq (d : Dev) (r : Regs) :
    reprLine2 d r = d.name ++ ':' :: ' ' :: (fmtHexL d.addrDigits r.pc ++ ' ' :: (fmtHexL d.byteDigits r.a ++ ' ' ::
      (fmtHexL d.byteDigits r.x ++ ' ' :: (fmtHexL d.byteDigits r.y ++ ' ' :: (fmtHexL d.byteDigits r.sp ++ ' ' ::
        flags d r.p))))) := by
  simp [reprLine2, List.append_assoc]

/-- A device whose formats fit its widths (true of the three devices, by evaluation). -/
structure DevOK (d : Dev) : Prop where
  bw : 0 < d.byteWidth
  bd : 0 < d.byteDigits
  ad : 0 < d.addrDigits
  bfit : 2 ^ d.byteWidth = 16 ^ d.byteDigits
  afit : 2 ^ d.addrWidth = 16 ^ d.addrDigits
  nonl : '\n' ∉ reprLine1 d
  fw : fieldWidth d = 1 + (d.byteDigits + 1) * 3

theorem devOK_of_mem {d : Dev} (h : d ∈ devices) : DevOK d := by
  simp only [devices, List.mem_cons, List.mem_nil_iff, or_false] at h
  rcases h with rfl | rfl | rfl
  · exact ⟨by decide, by decide, by decide, by norm_num [dev6502], by norm_num [dev6502], by decide, by decide⟩
  · exact ⟨by decide, by decide, by decide, by norm_num [dev65c02], by norm_num [dev65c02], by decide, by decide⟩
  · exact ⟨by decide, by decide, by decide, by norm_num [dev65org16], by norm_num [dev65org16], by decide, by decide⟩

theorem parseLine2_repr (d : Dev) (hd : DevOK d) (r : Regs) (hr : r.WF d) :
    parseLine2 d (afterNewline (Model.Fmt.repr d r)) = some r := by
  obtain ⟨hpc, ha, hx, hy, hsp, hp⟩ := hr
  have e : afterNewline (Model.Fmt.repr d r) = reprLine2 d r := by
    unfold Model.Fmt.repr
    rw [List.append_assoc]
    exact afterNewline_append _ _ hd.nonl
  rw [e, reprLine2_eq]
  rw [parseLine2_fields d _ _ _ _ _ _
    (fmtHexL_length _ _ hd.ad (by rw [← hd.afit]; exact hpc))
    (fmtHexL_length _ _ hd.bd (by rw [← hd.bfit]; exact ha))
    (fmtHexL_length _ _ hd.bd (by rw [← hd.bfit]; exact hx))
    (fmtHexL_length _ _ hd.bd (by rw [← hd.bfit]; exact hy))
    (fmtHexL_length _ _ hd.bd (by rw [← hd.bfit]; exact hsp))
    (flags_length d r.p hd.bw hp) _ _ _ _ _ _ (pyIntL_fmtHexL _ _) (pyIntL_fmtHexL _ _) (pyIntL_fmtHexL _ _)
    (pyIntL_fmtHexL _ _) (pyIntL_fmtHexL _ _) (pyIntL_flags _ _)]
  simp only [Int.toNat_natCast]

/-! ### the flag digits are the bits of `p` -/

/-- Bits `W-1 … 0` of `p`, most significant first, as flag characters. -/
def bitChars (W p : Nat) : Str := (List.range W).reverse.map (flagChar p)

theorem digitChar_mod_two (p : Nat) : digitChar (p % 2) = flagChar p 0 := by
  rcases Nat.mod_two_eq_zero_or_one p with h | h <;> simp [flagChar, h, digitChar]

theorem flagChar_succ (p i : Nat) : flagChar p (i + 1) = flagChar (p / 2) i := by
  unfold flagChar
  rw [Nat.pow_succ', Nat.div_div_eq_div_mul]

theorem bitChars_succ (W p : Nat) : bitChars (W + 1) p = bitChars W (p / 2) ++ [flagChar p 0] := by
  unfold bitChars
  rw [List.range_succ_eq_map]
  simp [List.map_reverse, flagChar_succ, Function.comp_def]

theorem rjust_bin_succ (W p : Nat) (hW : 0 < W) :
    rjustL (toDigits 2 p) (W + 1) '0' = rjustL (toDigits 2 (p / 2)) W '0' ++ [digitChar (p % 2)] := by
  by_cases h : p < 2
  · have h0 : p / 2 = 0 := by omega
    have h1 : p % 2 = p := by omega
    obtain ⟨k, rfl⟩ : ∃ k, W = k + 1 := ⟨W - 1, by omega⟩
    rw [toDigits, h0, h1, toDigits]
    simp [h, rjustL, digitChar, List.replicate_succ']
  · rw [toDigits]
    simp [h, rjustL]

/-- `itoa(p, 2).rjust(W, '0')` is, from left to right, bits `W-1 … 0` of `p` (for `p < 2^W`). -/
theorem rjust_bin_bits (W p : Nat) (hW : 0 < W) (hp : p < 2 ^ W) :
    rjustL (toDigits 2 p) W '0' = bitChars W p := by
  obtain ⟨k, rfl⟩ : ∃ k, W = k + 1 := ⟨W - 1, by omega⟩
  clear hW
  induction k generalizing p with
  | zero =>
    have : p = 0 ∨ p = 1 := by omega
    rcases this with rfl | rfl <;> simp [toDigits, rjustL, bitChars, flagChar, digitChar]
  | succ k ih =>
    rw [rjust_bin_succ _ _ (by omega), bitChars_succ, digitChar_mod_two]
    rw [ih (p / 2) (by rw [Nat.pow_succ] at hp; omega)]

/-! ### the byte dump of `_format_disassembly` -/

/-- One step of the dump loop for a cursor that is at most one past the top of memory. -/
theorem dumpLoop_succ (d : Dev) (mem : Nat → Nat) (cur n : Nat) (hc : cur ≤ 2 ^ d.addrWidth) :
    dumpLoop d mem cur (n + 1) =
      fmtHexL d.byteDigits (mem (cur % 2 ^ d.addrWidth)) ++ ' ' :: dumpLoop d mem (cur % 2 ^ d.addrWidth + 1) n := by
  have hpos : 0 < 2 ^ d.addrWidth := Nat.pos_of_ne_zero (by positivity)
  conv_lhs => rw [dumpLoop]
  by_cases h : cur > 2 ^ d.addrWidth - 1
  · have : cur = 2 ^ d.addrWidth := by omega
    subst this
    simp [h]
  · have hlt : cur < 2 ^ d.addrWidth := by omega
    simp [h, Nat.mod_eq_of_lt hlt]

/-- The `k`-th chunk of the dump (each `byteDigits + 1` wide) shows the cell at `address + k`,
wrapping at the top of the address space. -/
theorem dumpLoop_chunk (d : Dev) (mem : Nat → Nat) (hd : 0 < d.byteDigits)
    (hm : ∀ a, mem a < 16 ^ d.byteDigits) (n cur k : Nat) (rest : Str) (hc : cur ≤ 2 ^ d.addrWidth) (hk : k < n) :
    ((dumpLoop d mem cur n ++ rest).drop (k * (d.byteDigits + 1))).take (d.byteDigits + 1) =
      fmtHexL d.byteDigits (mem ((cur + k) % 2 ^ d.addrWidth)) ++ [' '] := by
  have hpos : 0 < 2 ^ d.addrWidth := Nat.pos_of_ne_zero (by positivity)
  induction n generalizing cur k with
  | zero => omega
  | succ n ih =>
    rw [dumpLoop_succ d mem cur n hc]
    have hl : (fmtHexL d.byteDigits (mem (cur % 2 ^ d.addrWidth))).length = d.byteDigits :=
      fmtHexL_length _ _ hd (hm _)
    cases k with
    | zero =>
      simp only [Nat.zero_mul, List.drop_zero, Nat.add_zero, List.append_assoc, List.cons_append]
      rw [show d.byteDigits + 1 = (fmtHexL d.byteDigits (mem (cur % 2 ^ d.addrWidth)) ++ [' ']).length by simp [hl]]
      rw [show fmtHexL d.byteDigits (mem (cur % 2 ^ d.addrWidth)) ++ ' ' :: (dumpLoop d mem (cur % 2 ^ d.addrWidth + 1) n ++ rest)
          = (fmtHexL d.byteDigits (mem (cur % 2 ^ d.addrWidth)) ++ [' ']) ++ (dumpLoop d mem (cur % 2 ^ d.addrWidth + 1) n ++ rest) by simp]
      rw [List.take_left]
    | succ k =>
      have hstep : ((fmtHexL d.byteDigits (mem (cur % 2 ^ d.addrWidth)) ++ ' ' :: dumpLoop d mem (cur % 2 ^ d.addrWidth + 1) n) ++ rest).drop
          ((k + 1) * (d.byteDigits + 1)) = (dumpLoop d mem (cur % 2 ^ d.addrWidth + 1) n ++ rest).drop (k * (d.byteDigits + 1)) := by
        rw [show fmtHexL d.byteDigits (mem (cur % 2 ^ d.addrWidth)) ++ ' ' :: dumpLoop d mem (cur % 2 ^ d.addrWidth + 1) n ++ rest
            = (fmtHexL d.byteDigits (mem (cur % 2 ^ d.addrWidth)) ++ [' ']) ++ (dumpLoop d mem (cur % 2 ^ d.addrWidth + 1) n ++ rest) by simp]
        rw [show (k + 1) * (d.byteDigits + 1) = (fmtHexL d.byteDigits (mem (cur % 2 ^ d.addrWidth)) ++ [' ']).length + k * (d.byteDigits + 1) by
          simp [hl]; ring]
        rw [List.drop_append, List.drop_eq_nil_of_le (by omega), Nat.add_sub_cancel_left, List.nil_append]
      rw [hstep, ih (cur % 2 ^ d.addrWidth + 1) k (by have := Nat.mod_lt cur hpos; omega) (by omega)]
      congr 3
      rw [show cur % 2 ^ d.addrWidth + 1 + k = cur % 2 ^ d.addrWidth + (k + 1) by omega, Nat.mod_add_mod]

/-- Total length of the dump. -/
theorem dumpLoop_length (d : Dev) (mem : Nat → Nat) (hd : 0 < d.byteDigits)
    (hm : ∀ a, mem a < 16 ^ d.byteDigits) (n cur : Nat) (hc : cur ≤ 2 ^ d.addrWidth) :
    (dumpLoop d mem cur n).length = n * (d.byteDigits + 1) := by
  have hpos : 0 < 2 ^ d.addrWidth := Nat.pos_of_ne_zero (by positivity)
  induction n generalizing cur with
  | zero => simp [dumpLoop]
  | succ n ih =>
    rw [dumpLoop_succ d mem cur n hc]
    simp only [List.length_append, List.length_cons]
    rw [ih _ (by have := Nat.mod_lt cur hpos; omega), fmtHexL_length _ _ hd (hm _)]
    ring

/-! ### where things sit in the lines -/

/-- Column (0-based) at which the flag digits start in the second line of `repr`. -/
def flagCol (d : Dev) : Nat := d.name.length + 2 + (d.addrDigits + 1) + 4 * (d.byteDigits + 1)

/-- The title above the flag digits: `NV-BDIZC` / `NV---------BDIZC`. -/
def flagTitle (d : Dev) : Str := 'N' :: 'V' :: (List.replicate (d.byteWidth - 7) '-' ++ ['B', 'D', 'I', 'Z', 'C'])

theorem reprLine2_flags (d : Dev) (hd : DevOK d) (r : Regs) (hr : r.WF d) :
    (reprLine2 d r).drop (flagCol d) = flags d r.p := by
  obtain ⟨hpc, ha, hx, hy, hsp, -⟩ := hr
  have l1 := fmtHexL_length d.addrDigits r.pc hd.ad (by rw [← hd.afit]; exact hpc)
  have l2 := fmtHexL_length d.byteDigits r.a hd.bd (by rw [← hd.bfit]; exact ha)
  have l3 := fmtHexL_length d.byteDigits r.x hd.bd (by rw [← hd.bfit]; exact hx)
  have l4 := fmtHexL_length d.byteDigits r.y hd.bd (by rw [← hd.bfit]; exact hy)
  have l5 := fmtHexL_length d.byteDigits r.sp hd.bd (by rw [← hd.bfit]; exact hsp)
  have e : reprLine2 d r = (d.name ++ [':', ' '] ++ fmtHexL d.addrDigits r.pc ++ [' '] ++ fmtHexL d.byteDigits r.a ++ [' '] ++
      fmtHexL d.byteDigits r.x ++ [' '] ++ fmtHexL d.byteDigits r.y ++ [' '] ++ fmtHexL d.byteDigits r.sp ++ [' ']) ++
      flags d r.p := rfl
  rw [e]
  apply List.drop_left'
  simp only [List.length_append, List.length_cons, List.length_nil, l1, l2, l3, l4, l5, flagCol]
  omega

/-- The address column and the dump column of a disassembly line. -/
theorem formatDisassembly_eq (d : Dev) (mem : Nat → Nat) (address length : Nat) (disasm : Str) :
    formatDisassembly d mem address length disasm =
      '$' :: (fmtHexL d.addrDigits address ++ ' ' :: ' ' :: (dumpLoop d mem address length ++
        (List.replicate (fieldWidth d - (dumpLoop d mem address length).length) ' ' ++ disasm))) := by
  simp [formatDisassembly, ljustL, List.append_assoc]

end Py65.Proofs.Fmt
